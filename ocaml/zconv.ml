(* conversions between OCaml ints/strings and the extracted Coq numbers (kept as Coq inductives) *)
open Model

let rec pos_of_int (n : int) : positive =
  if n = 1 then XH else if n land 1 = 0 then XO (pos_of_int (n lsr 1)) else XI (pos_of_int (n lsr 1))

let z_of_int (n : int) : z = if n = 0 then Z0 else if n > 0 then Zpos (pos_of_int n) else Zneg (pos_of_int (-n))

let rec int_of_pos (p : positive) : int = match p with XH -> 1 | XO q -> 2 * int_of_pos q | XI q -> 2 * int_of_pos q + 1

let int_of_z (x : z) : int = match x with Z0 -> 0 | Zpos p -> int_of_pos p | Zneg p -> - (int_of_pos p)

let n_of_int (n : int) : n = if n = 0 then N0 else Npos (pos_of_int n)
let int_of_n (x : n) : int = match x with N0 -> 0 | Npos p -> int_of_pos p

let rec nat_of_int (n : int) : nat = if n <= 0 then O else S (nat_of_int (n - 1))
let nat_of_int (n : int) : nat = let r = ref O in for _ = 1 to n do r := S !r done; !r
let rec int_of_nat (n : nat) : int = match n with O -> 0 | S m -> 1 + int_of_nat m

let zs (x : z) : string = string_of_int (int_of_z x)
let zlist_of_ints (l : int list) : z list = List.map z_of_int l
let ints_of_zl (l : z list) : int list = List.map int_of_z l
let nlist_of_ints (l : int list) : n list = List.map n_of_int l

let hexval c = match c with '0'..'9' -> Char.code c - 48 | 'a'..'f' -> Char.code c - 87 | 'A'..'F' -> Char.code c - 55 | _ -> 0
let bytes_of_hex (s : string) : int list =
  if s = "-" then [] else
  let n = String.length s / 2 in
  List.init n (fun i -> hexval s.[2*i] * 16 + hexval s.[2*i+1])
let hex_of_bytes (l : int list) : string =
  if l = [] then "-" else String.concat "" (List.map (Printf.sprintf "%02x") l)

(* runs the GENERATED Gallina leaf functions (extracted) on the same input lines as harness/leafh.c *)
let () =
  try
    while true do
      let line = input_line stdin in
      if line <> "" && line.[0] <> '#' then begin
        let toks = List.filter (fun s -> s <> "") (String.split_on_char ' ' line) in
        let fn = List.hd toks and args = List.tl toks in
        let res =
          match fn with
          | "adfGetHashValue" ->
            let intl = int_of_string (List.nth args 0) and name = Zconv.bytes_of_hex (List.nth args 1) in
            Leaf_dispatch.dispatch "c_adfGetHashValue" [intl] [name] (List.length name + 5)
          | "adfNormalSum" ->
            let off = int_of_string (List.nth args 0) and len = int_of_string (List.nth args 1) in
            let b = Zconv.bytes_of_hex (List.nth args 2) in
            let b = b @ List.init (max 0 (len - List.length b)) (fun _ -> 0) in
            Leaf_dispatch.dispatch "c_adfNormalSum" [off; len] [b] (len / 4 + 5)
          | "adfPutCacheEntry" ->
            let iv = List.map int_of_string (List.filteri (fun i _ -> i < 8) args) in
            let pad n l = l @ List.init (max 0 (n - List.length l)) (fun _ -> 0) in
            let name = Zconv.bytes_of_hex (List.nth args 8) and comm = Zconv.bytes_of_hex (List.nth args 9) in
            let recs = pad 488 (Zconv.bytes_of_hex (List.nth args 10)) in
            let g k = List.nth iv k in
            (* generated parameter order: records p cLen comm days header mins nLen name protect size ticks type *)
            Leaf_dispatch.dispatch "c_adfPutCacheEntry" [g 0; List.length comm; g 4; g 1; g 5; List.length name; g 3; g 2; g 6; g 7]
              [recs; pad 80 comm; pad 31 name] 0
          | "adfGetCacheEntry" ->
            let p = int_of_string (List.nth args 0) in
            let pad n l = l @ List.init (max 0 (n - List.length l)) (fun _ -> 0) in
            let recs = pad 488 (Zconv.bytes_of_hex (List.nth args 1)) in
            Leaf_dispatch.dispatch "c_adfGetCacheEntry" [p; 0; 0; 0; 0; 0; 0; 0; 0; 0] [recs; pad 80 []; pad 31 []] 0
          | "adfBootSum" ->
            let b = Zconv.bytes_of_hex (List.nth args 0) in
            let b = b @ List.init (max 0 (1024 - List.length b)) (fun _ -> 0) in
            Leaf_dispatch.dispatch "c_adfBootSum" [] [b] 300
          | "spec_amiga_days" ->
            let iv = List.map int_of_string args in
            Zconv.zs (Model.amiga_days (Zconv.z_of_int (List.nth iv 0)) (Zconv.z_of_int (List.nth iv 1)) (Zconv.z_of_int (List.nth iv 2)))
          | "spec_month_len" ->
            let iv = List.map int_of_string args in
            Zconv.zs (Model.month_len (Model.is_leap (Zconv.z_of_int (List.nth iv 0))) (Zconv.z_of_int (List.nth iv 1)))
          | "spec_fold" ->
            let intl = int_of_string (List.nth args 0) <> 0 and name = Zconv.bytes_of_hex (List.nth args 1) in
            Zconv.hex_of_bytes (List.map Zconv.int_of_z (Model.fold_name intl (Model.trunc30 (Zconv.zlist_of_ints name))))
          | "spec_hash" ->
            let intl = int_of_string (List.nth args 0) <> 0 and name = Zconv.bytes_of_hex (List.nth args 1) in
            Zconv.zs (Model.hash_name intl (Model.trunc30 (Zconv.zlist_of_ints name)))
          | "output_name" ->
            let d = List.nth args 0 and pa = List.nth args 1 and nm = List.nth args 2 in
            let dir = if d = "-" then None else Some (Zconv.zlist_of_ints (Zconv.bytes_of_hex d)) in
            Zconv.hex_of_bytes (List.map Zconv.int_of_z (Model.output_name dir (Zconv.zlist_of_ints (Zconv.bytes_of_hex pa)) (Zconv.zlist_of_ints (Zconv.bytes_of_hex nm))))
          | "adfGiveCurrentTime" -> "skip"
          | "bitidx" -> "skip"
          | _ ->
            let iv = List.map int_of_string args @ [0;0;0;0;0;0;0;0] in
            let fuel = List.fold_left (fun a x -> max a (abs x)) 0 iv + 20 in
            let fuel = match fn with "adfTime2AmigaTime" -> (List.nth iv 5) + 40 | _ -> fuel in
            let name = match fn with
              | "adfReadBlock" | "adfWriteBlock" | "adfWriteRDSKblock" | "adfWritePARTblock" | "adfWriteFSHDblock" | "adfWriteLSEGblock" -> "g_" ^ fn
              | _ -> "c_" ^ fn in
            Leaf_dispatch.dispatch name iv [] fuel
        in
        print_string line; print_string " = "; print_endline res
      end
    done
  with End_of_file -> ()

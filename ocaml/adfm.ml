(* adfm - drives the extracted Coq specification:
     adfm decode <image> <firstblock> <nblocks> <strict 0|1>   judge + decode an image (Spec/Decode.v)
     adfm spec <script>                                         run the reference model (Spec/FsSpec.v) on a harness script
   Output is line oriented and canonical so that Python can diff it against the harness. *)
open Model
open Zconv

let fnv32 (l : int list) : int =
  List.fold_left (fun h b -> ((h lxor b) * 16777619) land 0xFFFFFFFF) 2166136261 l

let ints_of_zl (l : z list) : int list = List.map int_of_z l

(* ---------------- decode ---------------- *)
let load_image (path : string) : Bytes.t =
  let ic = open_in_bin path in
  let n = in_channel_length ic in
  let b = Bytes.create n in
  really_input ic b 0 n; close_in ic; b

let zbyte = Array.init 256 z_of_int

let make_volume (img : Bytes.t) (first : int) (nb : int) : volume =
  let cache = Hashtbl.create 256 in
  let zero = List.init 512 (fun _ -> Z0) in
  let blkf (k : z) : z list =
    let i = int_of_z k in
    match Hashtbl.find_opt cache i with
    | Some b -> b
    | None ->
      let off = (first + i) * 512 in
      let b = if i < 0 || off + 512 > Bytes.length img then zero
        else List.init 512 (fun j -> zbyte.(Char.code (Bytes.get img (off + j)))) in
      Hashtbl.replace cache i b; b in
  { nblocks = z_of_int nb; blk = blkf }

let rec print_nodes (depth : int) (ns : node list) : unit =
  List.iter (fun nd ->
      match nd with
      | NFile (h, nm, pr, cm, ct, ((d, m), t)) ->
        let c = ints_of_zl ct in
        Printf.printf "N %d F hdr=%s name=%s prot=%s size=%d fnv=%08x cmt=%s date=%s/%s/%s\n" depth (zs h) (hex_of_bytes (ints_of_zl nm)) (zs pr)
          (List.length c) (fnv32 c) (hex_of_bytes (ints_of_zl cm)) (zs d) (zs m) (zs t)
      | NDir (h, nm, pr, cm, ch, ((d, m), t)) ->
        Printf.printf "N %d D hdr=%s name=%s prot=%s size=0 fnv=0 cmt=%s date=%s/%s/%s\n" depth (zs h) (hex_of_bytes (ints_of_zl nm)) (zs pr)
          (hex_of_bytes (ints_of_zl cm)) (zs d) (zs m) (zs t);
        print_nodes (depth + 1) ch
      | NLink (h, nm, st, real) ->
        Printf.printf "N %d L hdr=%s name=%s sectype=%s real=%s\n" depth (zs h) (hex_of_bytes (ints_of_zl nm)) (zs st) (zs real)) ns

let do_decode path first nb strict =
  let img = load_image path in
  let v = make_volume img first nb in
  match decode v strict with
  | Bad (c, w) -> Printf.printf "BAD code=%s where=%s\n" (zs c) (zs w)
  | Ok a ->
    Printf.printf "OK flavour=%s volname=%s free=%s owned=%d bmpages=%d bmexts=%d\n" (zs a.a_flavour) (hex_of_bytes (ints_of_zl a.a_volname))
      (zs a.a_free) (List.length a.a_owned) (List.length a.a_bmpages) (List.length a.a_bmexts);
    Printf.printf "OWNED %s\n" (String.concat "," (List.map zs a.a_owned));
    print_nodes 0 a.a_tree

(* ---------------- spec ---------------- *)
let xs_bytes (seed : int) (len : int) : int list =
  let st = ref (if seed land 0xFFFFFFFF = 0 then 0x9e3779b9 else seed land 0xFFFFFFFF) in
  List.init len (fun _ ->
      let x = !st in
      let x = x lxor ((x lsl 13) land 0xFFFFFFFF) in
      let x = x lxor (x lsr 17) in
      let x = x lxor ((x lsl 5) land 0xFFFFFFFF) in
      st := x; (x lsr 8) land 0xff)

let path_of (s : string) : z list list =
  if s = "-" then [] else List.map (fun c -> zlist_of_ints (bytes_of_hex c)) (String.split_on_char '/' s)

let name_of (s : string) : z list = zlist_of_ints (bytes_of_hex s)

let b01 b = if b then 1 else 0

let show_res (r : sres) : string =
  match r with
  | RErr -> "err"
  | ROk -> "ok"
  | ROpen (size, pos, eof) -> Printf.sprintf "ok size=%s pos=%s eof=%d" (zs size) (zs pos) (b01 eof)
  | RData (n, bytes, pos, size, eof) ->
    Printf.sprintf "ok n=%s fnv=%08x pos=%s size=%s eof=%d data=%s" (zs n) (fnv32 (ints_of_zl bytes)) (zs pos) (zs size) (b01 eof)
      (if List.length bytes <= 4096 then hex_of_bytes (ints_of_zl bytes) else "-")
  | RPos (pos, size, eof) -> Printf.sprintf "ok pos=%s size=%s eof=%d" (zs pos) (zs size) (b01 eof)
  | RLook (isdir, size, prot, nm) -> Printf.sprintf "ok type=%d size=%s acc=%s name=%s" (if isdir then 2 else -3) (zs size) (zs prot) (hex_of_bytes (ints_of_zl nm))
  | RList l ->
    let ents = List.map (fun nd -> match nd with
        | SFile (nm, pr, cm, ct) -> Printf.sprintf "E type=-3 size=%d acc=%s name=%s cmt=%s" (List.length ct) (zs pr) (hex_of_bytes (ints_of_zl nm)) (hex_of_bytes (ints_of_zl cm))
        | SDir (nm, pr, cm, _) -> Printf.sprintf "E type=2 size=0 acc=%s name=%s cmt=%s" (zs pr) (hex_of_bytes (ints_of_zl nm)) (hex_of_bytes (ints_of_zl cm))) l in
    String.concat "|" (List.sort compare ents) ^ (if ents = [] then "" else "|") ^ Printf.sprintf "ok n=%d" (List.length l)

let rec dump_tree ?(ln = 0) prefix (l : snode list) : unit =
  List.iter (fun nd -> match nd with
      | SFile (nm, pr, cm, ct) ->
        let c = ints_of_zl ct in
        Printf.printf "%d T %s%s F prot=%s size=%d fnv=%08x cmt=%s\n" ln prefix (hex_of_bytes (ints_of_zl nm)) (zs pr) (List.length c) (fnv32 c) (hex_of_bytes (ints_of_zl cm))
      | SDir (nm, pr, cm, ch) ->
        Printf.printf "%d T %s%s D prot=%s size=0 fnv=0 cmt=%s\n" ln prefix (hex_of_bytes (ints_of_zl nm)) (zs pr) (hex_of_bytes (ints_of_zl cm));
        dump_tree ~ln (prefix ^ hex_of_bytes (ints_of_zl nm) ^ "/") ch) l

let do_spec script =
  let ic = open_in script in
  let st = ref (sinit false) in
  let lineno = ref 0 in
  (* entries removed so far, by (directory, name) as written in the script: what an undelete brings back *)
  let trash : (string * string, snode) Hashtbl.t = Hashtbl.create 16 in
  (try
     while true do
       let line = input_line ic in
       incr lineno;
       if line <> "" && line.[0] <> '#' then begin
         let a = Array.of_list (List.filter (fun s -> s <> "") (String.split_on_char ' ' line)) in
         let op =
           match a.(0) with
           | "mkflop" | "mkhdf" -> let f = int_of_string a.(1) in st := sinit (f land 2 <> 0 || f land 4 <> 0); None
           | "mkhd" -> let f = int_of_string a.(4) in st := sinit (f land 2 <> 0 || f land 4 <> 0); None
           | "specintl" -> st := { !st with s_intl = (a.(1) <> "0") }; None
           | "umount" | "umountdev" | "closedev" -> st := { !st with s_handles = [] }; None
           | "mkdir" -> Some (OMkdir (path_of a.(1), name_of a.(2)))
           | "open" -> Some (OOpen (z_of_int (int_of_string a.(1)), path_of a.(2), name_of a.(3), String.contains a.(4) 'r', String.contains a.(4) 'w'))
           | "close" -> Some (OClose (z_of_int (int_of_string a.(1))))
           | "flush" -> Some (OFlush (z_of_int (int_of_string a.(1))))
           | "stat" -> Some (OStat (z_of_int (int_of_string a.(1))))
           | "write" -> Some (OWrite (z_of_int (int_of_string a.(1)), zlist_of_ints (xs_bytes (int_of_string a.(2)) (int_of_string a.(3)))))
           | "read" -> Some (ORead (z_of_int (int_of_string a.(1)), z_of_int (int_of_string a.(2))))
           | "seek" -> Some (OSeek (z_of_int (int_of_string a.(1)), z_of_int (int_of_string a.(2))))
           | "trunc" -> Some (OTrunc (z_of_int (int_of_string a.(1)), z_of_int (int_of_string a.(2))))
           | "rm" ->
             (match lookup_node !st (path_of a.(1)) (name_of a.(2)) with
              | Some nd -> Hashtbl.replace trash (a.(1), a.(2)) nd
              | None -> ());
             Some (ORm (path_of a.(1), name_of a.(2)))
           (* undel <dir> L <namehex> : the entry removed from <dir> under that name *)
           | "undel" when Array.length a > 3 && Hashtbl.mem trash (a.(1), a.(3)) -> Some (ORestore (path_of a.(1), Hashtbl.find trash (a.(1), a.(3))))
           | "mv" -> Some (OMv (path_of a.(1), name_of a.(2), path_of a.(3), name_of a.(4)))
           | "comment" -> Some (OComment (path_of a.(1), name_of a.(2), name_of a.(3)))
           | "prot" -> Some (OProt (path_of a.(1), name_of a.(2), z_of_int (int_of_string a.(3))))
           | "lookup" -> Some (OLookup (path_of a.(1), name_of a.(2)))
           | "list" -> Some (OList (path_of a.(1)))
           | "spectree" -> dump_tree ~ln:!lineno "" (!st).s_root; None
           | _ -> None in
         match op with
         | None -> Printf.printf "%d skip\n" !lineno
         | Some o ->
           let (s', r) = sstep !st o in
           st := s';
           Printf.printf "%d %s\n" !lineno (show_res r)
       end
     done
   with End_of_file -> ());
  print_string "TREE\n";
  dump_tree ~ln:0 "" (!st).s_root

(* ---------------- allocator model ---------------- *)
(* adfm alloc <root> <last_rel> : reads lines "used n" / "free n" / "alloc k" / "count" from stdin; the bitmap starts all free *)
let do_alloc root last =
  let all_free : bm = fun _ _ -> z_of_int 0xFFFFFFFF in
  let b = ref all_free in
  (try
     while true do
       let line = input_line stdin in
       match List.filter (fun s -> s <> "") (String.split_on_char ' ' line) with
       | ["used"; n] -> b := set_used !b (z_of_int (int_of_string n))
       | ["free"; n] -> b := set_free !b (z_of_int (int_of_string n))
       | ["isfree"; n] -> print_endline (if is_free !b (z_of_int (int_of_string n)) then "1" else "0")
       | ["count"] -> print_endline (zs (count_free !b (z_of_int last)))
       | ["alloc"; k] ->
         (match scan (nat_of_int (last + 2)) !b (z_of_int root) (z_of_int last) (nat_of_int (int_of_string k)) (z_of_int root) [] with
          | None -> print_endline "none"
          | Some l ->
            b := List.fold_left set_used !b l;
            print_endline (String.concat " " (List.map zs l)))
       | _ -> ()
     done
   with End_of_file -> ())

(* ---------------- directory hash-chain model (Model/Chain.v) ---------------- *)
(* adfm chain <intl 0|1> : reads lines "ins <hexname> <blk>" / "del <hexname>" from stdin; after each prints
   "r <result>" and the directory state "S slot=blk:hexname,blk:hexname;slot=..." *)
let do_chain intl =
  let d = ref empty_dir in
  let fuel = nat_of_int 4000 in
  let show () =
    let st = dump_dir fuel !d in
    print_endline ("S " ^ String.concat ";" (List.map (fun (sl, ch) ->
        zs sl ^ "=" ^ String.concat "," (List.map (fun (b, nm) -> zs b ^ ":" ^ hex_of_bytes (ints_of_zl nm)) ch)) st)) in
  (try
     while true do
       let line = input_line stdin in
       match List.filter (fun s -> s <> "") (String.split_on_char ' ' line) with
       | ["ins"; nm; blk] ->
         let (d', r) = cstep intl fuel !d (CIns (zlist_of_ints (bytes_of_hex nm), z_of_int (int_of_string blk))) in
         d := d'; print_endline ("r " ^ zs r); show ()
       | ["del"; nm] ->
         let (d', r) = cstep intl fuel !d (CDel (zlist_of_ints (bytes_of_hex nm))) in
         d := d'; print_endline ("r " ^ zs r); show ()
       | _ -> ()
     done
   with End_of_file -> ())

(* ---------------- file block lists (Model/FileMap.v) ---------------- *)
(* adfm filemap : reads "app <data> <ext>" / "trunc <n>" / "find <k>" from stdin; after app/trunc prints the on-disk shape
   "H b,b,.. ; E e=b,b,..|e=b,..." (and "F b,b,.." = blocks given back by a truncation) *)
let do_filemap () =
  let st = ref f_empty in
  let zl l = String.concat "," (List.map zs l) in
  let show () =
    let d = !st.f_data and es = !st.f_exts in
    Printf.printf "H %s ; E %s\n" (zl (enc_hdr d)) (String.concat "|" (List.map (fun (e, t) -> zs e ^ "=" ^ zl t) (enc_exts d es))) in
  (try
     while true do
       let line = input_line stdin in
       match List.filter (fun s -> s <> "") (String.split_on_char ' ' line) with
       | ["app"; d; e] -> st := f_append !st (z_of_int (int_of_string d)) (z_of_int (int_of_string e)); show ()
       | ["trunc"; n] ->
         let (s', freed) = f_trunc !st (nat_of_int (int_of_string n)) in
         st := s'; Printf.printf "F %s\n" (zl freed); show ()
       | ["find"; k] ->
         (match find_block (enc_hdr !st.f_data) (enc_exts !st.f_data !st.f_exts) (nat_of_int (int_of_string k)) with
          | Some b -> print_endline ("B " ^ zs b) | None -> print_endline "B none")
       | _ -> ()
     done
   with End_of_file -> ())

(* ---------------- directory cache chain (Model/CacheChain.v) ---------------- *)
(* adfm cache <first block> : reads "add <key> <len> <newblock>" / "del <key>" / "upd <key> <len> <newblock>" from stdin;
   after each prints "C blk=key:len,key:len|blk=..." and "F released blocks" *)
let do_cache first =
  let st = ref [ (z_of_int first, []) ] in
  let show fr =
    Printf.printf "C %s\n" (String.concat "|" (List.map (fun (b, rs) -> zs b ^ "=" ^ String.concat "," (List.map (fun r -> zs r.r_key ^ ":" ^ string_of_int (int_of_nat r.r_len)) rs)) !st));
    Printf.printf "F %s\n" (String.concat "," (List.map zs fr)) in
  let mk k l = { r_key = z_of_int k; r_len = nat_of_int l; r_body = [] } in
  (try
     while true do
       let line = input_line stdin in
       match List.filter (fun s -> s <> "") (String.split_on_char ' ' line) with
       | ["add"; k; l; nb] -> st := c_add !st (mk (int_of_string k) (int_of_string l)) (z_of_int (int_of_string nb)); show []
       | ["del"; k] -> let (c', fr) = c_del !st (z_of_int (int_of_string k)) in st := c'; show fr
       | ["upd"; k; l; nb] -> let (c', fr) = c_update !st (mk (int_of_string k) (int_of_string l)) (z_of_int (int_of_string nb)) in st := c'; show fr
       | _ -> ()
     done
   with End_of_file -> ())

(* ---------------- file handle state machine (Model/FileIO.v) ---------------- *)
(* adfm fileio <bs> <ofs 0|1> : reads one call per line from stdin
     new <key> <r> <w> | open <key> <r> <w> | write <seed> <len> <ans>.. | read <len> | seek <pos> | trunc <size> <ans>.. | flush | close
     bad <n> | good <n>                    (device read failures of block n from now on / no longer)
   <ans> = a1:<n> (adfGet1FreeBlock) | a2:<e>:<n> (adfGetFreeBlocks 2) | fail ; after the listed answers the allocator refuses.
   After each call prints "r <result>", "S <handle fields>" (the fields of the harness command hstate) and "B <blocks>" (header
   block and every block number that appeared in an answer so far, as the model's volume holds them). *)
let do_fileio bs ofs =
  let zbs = z_of_int bs in
  let badset : (int, unit) Hashtbl.t = Hashtbl.create 16 in
  let bad (n : z) : bool = Hashtbl.mem badset (int_of_z n) in
  let disk : disk ref = ref (fun _ -> BOther) in
  let st : hstate option ref = ref None in
  let key = ref 0 in
  let tracked : int list ref = ref [] in
  let track n = if n >= 0 && not (List.mem n !tracked) then tracked := !tracked @ [n] in
  let fnvz (l : z list) = fnv32 (List.map (fun x -> (int_of_z x) land 0xFFFFFFFF) l) in
  let fnvw (l : z list) = List.fold_left (fun h b -> ((h lxor ((int_of_z b) land 0xFFFFFFFF)) * 16777619) land 0xFFFFFFFF) 2166136261 l in
  let parse_ans (toks : string list) : (z * z) option list =
    List.map (fun t ->
        match String.split_on_char ':' t with
        | ["a1"; n] -> let n = int_of_string n in if n < 0 then None else (track n; Some (z_of_int n, Z0))
        | ["a2"; e; n] -> let e = int_of_string e and n = int_of_string n in track e; track n; Some (z_of_int e, z_of_int n)
        | _ -> None) toks in
  let show () =
    (match !st with
     | None -> print_endline "S closed"
     | Some s ->
       let b = Buffer.create 256 in
       Printf.bprintf b "S pos=%s pinx=%s pind=%s ndb=%s cur=%s chg=%d size=%s high=%s first=%s ext=%s dfnv=%08x htab=%08x"
         (zs s.pos) (zs s.pinx) (zs s.pind) (zs s.ndb) (zs s.cur) (if s.chg then 1 else 0) (zs s.fh.h_size) (zs s.fh.h_high)
         (zs s.fh.h_first) (zs s.fh.h_ext) (fnvz s.cdata.d_bytes) (fnvw s.fh.h_tab);
       if ofs then Printf.bprintf b " dnext=%s dsize=%s dseq=%s dkey=%s" (zs s.cdata.d_next) (zs s.cdata.d_size) (zs s.cdata.d_seq) (zs s.cdata.d_key);
       (match s.cext with
        | None -> Buffer.add_string b " xkey=-1"
        | Some x -> Printf.bprintf b " xkey=%s xpar=%s xhigh=%s xext=%s xtab=%08x" (zs x.x_key) (zs x.x_parent) (zs x.x_high) (zs x.x_ext) (fnvw x.x_tab));
       print_endline (Buffer.contents b));
    let d = match !st with Some s -> s.dk | None -> !disk in
    let one n =
      match d (z_of_int n) with
      | BData x -> if ofs then Printf.sprintf "%d:D:%s:%s:%s:%s:%08x" n (zs x.d_seq) (zs x.d_size) (zs x.d_next) (zs x.d_key) (fnvz x.d_bytes)
        else Printf.sprintf "%d:D:%08x" n (fnvz x.d_bytes)
      | BExt x -> Printf.sprintf "%d:X:%s:%s:%s:%s:%08x" n (zs x.x_key) (zs x.x_parent) (zs x.x_high) (zs x.x_ext) (fnvw x.x_tab)
      | BHdr h -> Printf.sprintf "%d:H:%s:%s:%s:%s:%s:%08x" n (zs h.h_key) (zs h.h_size) (zs h.h_first) (zs h.h_high) (zs h.h_ext) (fnvw h.h_tab)
      | BOther -> Printf.sprintf "%d:O" n in
    print_endline ("B " ^ String.concat " " (List.map one (!key :: !tracked))) in
  let b01s s = s <> "0" in
  (try
     while true do
       let line = input_line stdin in
       (match List.filter (fun s -> s <> "") (String.split_on_char ' ' line) with
        | ["bad"; n] -> Hashtbl.replace badset (int_of_string n) ()
        | ["good"; n] -> Hashtbl.remove badset (int_of_string n)
        | ["load"; path; hdr] ->
          (* the blocks of one file of an image (volume starting at block 0 of the image), reached from its header through the tables:
             glue for the correspondence on images ADFlib did not write (checks/c06.py); decoding = the field offsets of C03 *)
          let img = load_image path in
          let nb = Bytes.length img / 512 in
          let w32 b o = if b < 0 || b >= nb then 0 else
              (Char.code (Bytes.get img (b*512+o)) lsl 24) lor (Char.code (Bytes.get img (b*512+o+1)) lsl 16)
              lor (Char.code (Bytes.get img (b*512+o+2)) lsl 8) lor Char.code (Bytes.get img (b*512+o+3)) in
          let tab b = List.init 72 (fun i -> z_of_int (w32 b (24 + 4 * (71 - i)))) in
          let bytes_of b o n = List.init n (fun i -> z_of_int (Char.code (Bytes.get img (b*512+o+i)))) in
          let loaded : (int, fblk) Hashtbl.t = Hashtbl.create 64 in
          let load_data b = if b > 0 && b < nb && not (Hashtbl.mem loaded b) then
              Hashtbl.replace loaded b (BData (if ofs then { d_bytes = bytes_of b 24 488; d_next = z_of_int (w32 b 16); d_size = z_of_int (w32 b 12);
                                                               d_seq = z_of_int (w32 b 8); d_key = z_of_int (w32 b 4) }
                                               else { d_bytes = bytes_of b 0 512; d_next = Z0; d_size = Z0; d_seq = Z0; d_key = Z0 })) in
          let h = int_of_string hdr in
          if h > 0 && h < nb then begin
            for i = 0 to 71 do load_data (w32 h (24 + 4 * i)) done;
            load_data (w32 h 16);
            let x = ref (w32 h 504) and guard = ref 0 in
            while !x > 0 && !x < nb && !guard < 4000 do
              incr guard;
              let b = !x in
              for i = 0 to 71 do load_data (w32 b (24 + 4 * i)) done;
              Hashtbl.replace loaded b (BExt { x_key = z_of_int (w32 b 4); x_parent = z_of_int (w32 b 500); x_high = z_of_int (w32 b 8); x_tab = tab b; x_ext = z_of_int (w32 b 504) });
              track b;
              x := w32 b 504
            done;
            Hashtbl.replace loaded h (BHdr { h_key = z_of_int (w32 h 4); h_size = z_of_int (w32 h 324); h_first = z_of_int (w32 h 16); h_high = z_of_int (w32 h 8);
                                             h_tab = tab h; h_ext = z_of_int (w32 h 504) })
          end;
          let old = !disk in
          disk := (fun n -> match Hashtbl.find_opt loaded (int_of_z n) with Some b -> b | None -> old n);
          st := None; print_endline "r ok"; key := h; show ()
        | ["new"; k; r; w] ->
          key := int_of_string k;
          let s = fio_new zbs !disk (z_of_int !key) (b01s r) (b01s w) in
          st := Some s; disk := s.dk; print_endline "r ok"; show ()
        | ["open"; k; r; w] ->
          key := int_of_string k;
          let (ok, s) = fio_open zbs ofs bad !disk (z_of_int !key) (b01s r) (b01s w) in
          if ok then (st := Some s; disk := s.dk; print_endline "r ok") else (st := None; print_endline "r err"); show ()
        | "write" :: seed :: len :: ans ->
          (match !st with
           | None -> print_endline "r nohandle"
           | Some s ->
             let data = zlist_of_ints (xs_bytes (int_of_string seed) (int_of_string len)) in
             let ((s', w), _) = fio_write zbs ofs bad s data (parse_ans ans) in
             st := Some s'; disk := s'.dk;
             Printf.printf "r n=%s pos=%s size=%s eof=%d\n" (zs w) (zs s'.pos) (zs s'.fh.h_size) (if at_eof s' then 1 else 0)); show ()
        | ["read"; len] ->
          (match !st with
           | None -> print_endline "r nohandle"
           | Some s ->
             let (s', bytes) = fio_read zbs ofs bad s (z_of_int (int_of_string len)) in
             st := Some s'; disk := s'.dk;
             Printf.printf "r n=%d fnv=%08x pos=%s size=%s eof=%d\n" (List.length bytes) (fnvz bytes) (zs s'.pos) (zs s'.fh.h_size) (if at_eof s' then 1 else 0)); show ()
        | ["seek"; p] ->
          (match !st with
           | None -> print_endline "r nohandle"
           | Some s ->
             let (ok, s') = fio_seek zbs ofs bad s (z_of_int (int_of_string p)) in
             st := Some s'; disk := s'.dk;
             Printf.printf "r %s pos=%s size=%s eof=%d\n" (if ok then "ok" else "err") (zs s'.pos) (zs s'.fh.h_size) (if at_eof s' then 1 else 0)); show ()
        | ["seekt"; p] ->
          (* the seek of the library compiled with -DTEST_OFS_SEEK *)
          (match !st with
           | None -> print_endline "r nohandle"
           | Some s ->
             let (ok, s') = fio_seek_t zbs ofs bad s (z_of_int (int_of_string p)) in
             st := Some s'; disk := s'.dk;
             Printf.printf "r %s pos=%s size=%s eof=%d\n" (if ok then "ok" else "err") (zs s'.pos) (zs s'.fh.h_size) (if at_eof s' then 1 else 0)); show ()
        | "trunc" :: size :: ans ->
          (match !st with
           | None -> print_endline "r nohandle"
           | Some s ->
             let (((ok, s'), freed), _) = fio_truncate zbs ofs bad s (z_of_int (int_of_string size)) (parse_ans ans) in
             st := Some s'; disk := s'.dk;
             Printf.printf "r %s pos=%s size=%s eof=%d F %s\n" (if ok then "ok" else "err") (zs s'.pos) (zs s'.fh.h_size) (if at_eof s' then 1 else 0)
               (String.concat "," (List.map zs freed))); show ()
        | ["flush"] ->
          (match !st with
           | None -> print_endline "r nohandle"
           | Some s -> let s' = fio_flush zbs ofs s in st := Some s'; disk := s'.dk; print_endline "r ok"); show ()
        | ["close"] ->
          (match !st with
           | None -> print_endline "r nohandle"
           | Some s -> disk := fio_close zbs ofs s; st := None; print_endline "r ok"); show ()
        | _ -> ())
     done
   with End_of_file -> ())

let () =
  match Array.to_list Sys.argv with
  | [_; "fileio"; bs; ofs] -> do_fileio (int_of_string bs) (ofs <> "0")
  | [_; "cache"; first] -> do_cache (int_of_string first)
  | [_; "filemap"] -> do_filemap ()
  | [_; "chain"; intl] -> do_chain (intl <> "0")
  | [_; "alloc"; root; last] -> do_alloc (int_of_string root) (int_of_string last)
  | [_; "decode"; img; first; nb; strict] -> do_decode img (int_of_string first) (int_of_string nb) (strict <> "0")
  | [_; "spec"; script] -> do_spec script
  | _ -> prerr_endline "usage: adfm decode <img> <first> <nblocks> <strict> | adfm spec <script>"; exit 2

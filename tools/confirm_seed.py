#!/usr/bin/env python3
"""confirm a seeded change: suite green with the change, demo FAILs with it and PASSes without; then run our check against it.
usage: confirm_seed.py <ID> [check ids...]   (writes seeded/<ID>/meta.json)"""
import json, os, subprocess, sys, shutil, time
V = os.path.dirname(os.path.dirname(os.path.abspath(__file__)))
sid = sys.argv[1]
checks = sys.argv[2:] or [sid[:3]]
d = os.path.join(V, "seeded", sid)
wt = "/tmp/confirm-%s" % sid
def sh(c, **kw):
    r = subprocess.run(c, shell=True, stdout=subprocess.PIPE, stderr=subprocess.STDOUT, text=True, errors="replace", **kw)
    return r.returncode, r.stdout
sh("git -C /repo worktree remove --force %s" % wt)
rc, o = sh("git -C /repo worktree add -q --detach %s HEAD" % wt)
res = {}
meta = {"id": sid, "breaks_property": sid[:3], "base_commit": sh("git -C /repo rev-parse --short HEAD")[1].strip(), "ran": []}
try:
    rc_clean, o = sh("sh %s/demo.sh %s" % (d, wt), timeout=900)
    meta["demo_on_unchanged"] = {"rc": rc_clean, "tail": o[-300:]}
    rc, o = sh("git -C %s apply %s/patch.diff" % (wt, d))
    meta["patch_applies"] = rc == 0
    rc, o = sh("cd %s && cmake -G Ninja -B _build -S . >/dev/null 2>&1 && cmake --build _build 2>&1 | tail -1 && ctest --test-dir _build -j8 --timeout 900 2>&1 | tail -3" % wt, timeout=1800)
    meta["suite_with_change"] = {"rc": rc, "tail": o[-300:], "passes": "100% tests passed" in o}
    rc_mut, o = sh("sh %s/demo.sh %s" % (d, wt), timeout=900)
    meta["demo_on_changed"] = {"rc": rc_mut, "tail": o[-400:]}
    meta["confirmed"] = bool(meta["patch_applies"] and meta["suite_with_change"]["passes"] and rc_clean == 0 and rc_mut != 0)
    # our checks against it: a private copy of /verif pointed at the changed worktree (VERIF_REPO), so that /repo itself is
    # never touched and several seeds can be tried at the same time; the evidence written by the copy is thrown away
    if "--force" in sys.argv and not meta["confirmed"]:
        meta["note"] = ("the demonstration no longer fails on the current base (a later fix closed the path it used); the change itself still "
                        "applies and our check was run against it anyway (--force)")
    if (meta.get("confirmed") or "--force" in sys.argv) and "--nocheck" not in sys.argv:
        cv = "/tmp/cv-%s" % sid
        sh("rm -rf %s && mkdir -p %s && rsync -a --exclude .git --exclude work --exclude 'build/h-*' --exclude seeded %s/ %s/" % (cv, cv, V, cv))
        sh("cd %s && rm -rf _build" % wt)
        try:
            for c in checks:
                if c.startswith("-"):
                    continue
                t = time.time()
                rc, o = sh("cd %s && VERIF_REPO=%s bin/check %s --tier quick" % (cv, wt, c), timeout=3600)
                vl = [l for l in o.splitlines() if l.startswith("VIOLATION")]
                res[c] = {"rc": rc, "violation_lines": vl, "wall_s": round(time.time() - t, 1)}
                for l in vl:
                    m = [w for w in l.split() if w.startswith("replay=")]
                    if m and os.path.exists(m[0][7:]):
                        try:
                            rp = json.load(open(m[0][7:]))
                            res[c]["first_failure"] = json.dumps(rp.get("failures", rp)[:1] if isinstance(rp.get("failures", None), list) else rp, default=str)[:1200]
                        except Exception:
                            res[c]["first_failure"] = open(m[0][7:], errors="replace").read()[:1200]
        finally:
            sh("rm -rf %s" % cv)
finally:
    sh("git -C /repo worktree remove --force %s" % wt)
meta["our_checks_quick"] = res
notes = os.path.join(d, "notes.md")
if os.path.exists(notes):
    meta["needs_to_manifest"] = open(notes).read()[:1500]
json.dump(meta, open(os.path.join(d, "meta.json"), "w"), indent=1)
print(json.dumps({k: v for k, v in meta.items() if k != "needs_to_manifest"}, indent=1))

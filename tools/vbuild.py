#!/usr/bin/env python3
"""Build the harness binaries from /repo's *current working tree*.

Binaries are cached under /verif/build/h-<hash> where <hash> covers every
source file they are compiled from (repo sources + harness sources), so an
edited /repo always triggers a rebuild.  Builds are serialised with flock.
"""
import fcntl, glob, hashlib, os, shutil, subprocess, sys, time

VERIF = os.path.dirname(os.path.dirname(os.path.abspath(__file__)))
REPO = os.environ.get("VERIF_REPO", "/repo")
BUILD = os.path.join(VERIF, "build")

LIB_SRCS = ["adf_bitm.c", "adf_cache.c", "adf_dev.c", "adf_dev_dump.c", "adf_dev_flop.c",
            "adf_dev_hd.c", "adf_dir.c", "adf_env.c", "adf_file.c", "adf_file_block.c",
            "adf_link.c", "adf_raw.c", "adf_salv.c", "adf_str.c", "adf_util.c", "adf_vol.c",
            "debug_util.c", "generic/adf_nativ.c"]
WRAPS = ["malloc", "calloc", "realloc", "free", "strdup", "adfReadDumpSector", "adfWriteDumpSector",
         "adfGet1FreeBlock", "adfGetFreeBlocks"]
GUARD = "-DADFLIB_VERIF"


def source_files():
    fs = sorted(glob.glob(os.path.join(REPO, "src", "*.[ch]")) +
                glob.glob(os.path.join(REPO, "src", "generic", "*.[ch]")) +
                [os.path.join(REPO, "examples", "unadf.c")] +
                glob.glob(os.path.join(VERIF, "harness", "*.[ch]")))
    return fs


def tree_hash():
    h = hashlib.sha256()
    for f in source_files():
        h.update(f.encode())
        with open(f, "rb") as fh:
            h.update(fh.read())
    return h.hexdigest()[:16]


def run(cmd, **kw):
    r = subprocess.run(cmd, stdout=subprocess.PIPE, stderr=subprocess.STDOUT, text=True, **kw)
    if r.returncode != 0:
        raise RuntimeError("build failed: %s\n%s" % (" ".join(cmd), r.stdout))
    return r.stdout


def build_variant(outdir, name, cc, cflags, ldflags, extra_defs=()):
    """compile library objects + harness into outdir/name"""
    odir = os.path.join(outdir, "obj-" + name)
    os.makedirs(odir, exist_ok=True)
    inc = ["-I" + os.path.join(REPO, "src"), "-I" + os.path.join(REPO, "src", "generic")]
    procs = []
    objs = []
    for s in LIB_SRCS:
        o = os.path.join(odir, s.replace("/", "_")[:-2] + ".o")
        objs.append(o)
        procs.append(subprocess.Popen([cc, "-c", GUARD] + cflags + inc + [os.path.join(REPO, "src", s), "-o", o],
                                      stdout=subprocess.PIPE, stderr=subprocess.STDOUT, text=True))
    for p in procs:
        outp, _ = p.communicate()
        if p.returncode != 0:
            raise RuntimeError("compile failed:\n" + outp)
    wl = ["-Wl," + ",".join("--wrap=" + w for w in WRAPS)]
    run([cc, GUARD] + cflags + list(extra_defs) + inc + [os.path.join(VERIF, "harness", "adfh.c")] + objs + wl + ldflags +
        ["-o", os.path.join(outdir, name)])
    return objs


def build_all(variants=("plain",)):
    os.makedirs(BUILD, exist_ok=True)
    lock = open(os.path.join(BUILD, ".lock"), "w")
    fcntl.flock(lock, fcntl.LOCK_EX)
    try:
        key = tree_hash()
        outdir = os.path.join(BUILD, "h-" + key)
        os.makedirs(outdir, exist_ok=True)
        t0 = time.time()
        if "plain" in variants and not os.path.exists(os.path.join(outdir, "adfh")):
            objs = build_variant(outdir, "adfh", "gcc", ["-O1", "-g", "-w"], [])
            # leaf-function driver and unadf (compiled as a library with renamed main)
            inc = ["-I" + os.path.join(REPO, "src")]
            # leafh needs the static nBlock2bitmapSize: compile adf_bitm.c unoptimised and make the symbol global
            bg = os.path.join(outdir, "adf_bitm_g.o")
            run(["gcc", "-O0", "-g", "-w", "-c", GUARD] + inc + [os.path.join(REPO, "src", "adf_bitm.c"), "-o", bg])
            run(["objcopy", "--globalize-symbol=nBlock2bitmapSize", bg])
            uo = os.path.join(outdir, "unadf_lib.o")
            run(["gcc", "-O1", "-g", "-w", "-c", "-Dmain=unadf_main", GUARD] + inc + [os.path.join(REPO, "examples", "unadf.c"), "-o", uo])
            lobjs = [o for o in objs if not o.endswith("adf_bitm.o")] + [bg, uo]
            run(["gcc", "-O1", "-g", "-w", GUARD] + inc + ["-I" + os.path.join(REPO, "src", "generic"),
                os.path.join(VERIF, "harness", "leafh.c")] + lobjs + ["-o", os.path.join(outdir, "leafh")])
            run(["gcc", "-O1", "-g", "-w", GUARD] + inc + [os.path.join(REPO, "examples", "unadf.c")] + objs +
                ["-o", os.path.join(outdir, "unadf")])
        if "asan" in variants and not os.path.exists(os.path.join(outdir, "adfh-asan")):
            build_variant(outdir, "adfh-asan", "clang",
                          ["-O1", "-g", "-w", "-fsanitize=address,bounds", "-fno-sanitize-recover=all", "-fno-omit-frame-pointer"],
                          [], extra_defs=["-DADFH_SANITIZE"])
        if "ofsseek" in variants and not os.path.exists(os.path.join(outdir, "adfh-ofsseek")):
            # the library's own test switch: adfFileSeek always takes the OFS walk along the data blocks (adfFileSeekOFS_) on OFS volumes
            build_variant(outdir, "adfh-ofsseek", "gcc", ["-O1", "-g", "-w", "-DTEST_OFS_SEEK"], [])
        if "vg" in variants and not os.path.exists(os.path.join(outdir, "adfh-vg")):
            build_variant(outdir, "adfh-vg", "gcc", ["-O0", "-g", "-w"], [])
        # prune old build dirs (keep the 3 most recent)
        ds = sorted(glob.glob(os.path.join(BUILD, "h-*")), key=os.path.getmtime)
        for d in ds[:-3]:
            if d != outdir:
                shutil.rmtree(d, ignore_errors=True)
        os.utime(outdir, None)
        return outdir, key, time.time() - t0
    finally:
        fcntl.flock(lock, fcntl.LOCK_UN)
        lock.close()


if __name__ == "__main__":
    v = sys.argv[1:] or ["plain"]
    d, k, t = build_all(tuple(v))
    print(d, k, "%.1fs" % t)

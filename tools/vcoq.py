#!/usr/bin/env python3
"""Regenerate Generated/*.v from /repo, build the Coq development (full .vo build),
extract to OCaml and build the drivers.  Serialised with flock; skipped when
nothing changed since the last successful build (keyed by a hash of all inputs)."""
import fcntl, glob, hashlib, json, os, re, shutil, subprocess, sys, time

VERIF = os.path.dirname(os.path.dirname(os.path.abspath(__file__)))
REPO = os.environ.get("VERIF_REPO", "/repo")
COQ = os.path.join(VERIF, "coq")
BUILD = os.path.join(VERIF, "build")
OCAML_SRC = os.path.join(VERIF, "ocaml")

AXIOM_ALLOW = set()   # no axiom is expected; anything Print Assumptions reports is copied to the evidence


def sh(cmd, cwd=None, timeout=3600):
    r = subprocess.run(cmd, cwd=cwd, stdout=subprocess.PIPE, stderr=subprocess.STDOUT, text=True, timeout=timeout)
    return r.returncode, r.stdout


def coq_sources():
    fs = []
    for root, _, files in os.walk(COQ):
        if os.path.basename(root) == "Generated":
            continue
        for f in files:
            if f.endswith(".v") or f in ("_CoqProject", "modules.txt", "names.txt"):
                fs.append(os.path.join(root, f))
    return sorted(fs)


def input_hash():
    h = hashlib.sha256()
    for f in coq_sources() + sorted(glob.glob(os.path.join(VERIF, "tools", "c2v.py"))) + \
            sorted(glob.glob(os.path.join(OCAML_SRC, "*.ml"))) + \
            sorted(glob.glob(os.path.join(REPO, "src", "*.[ch]"))) + [os.path.join(REPO, "examples", "unadf.c")]:
        h.update(f.encode())
        with open(f, "rb") as fh:
            h.update(fh.read())
    return h.hexdigest()[:16]


def audit():
    """forbidden constructs anywhere in the development"""
    bad = []
    pat = re.compile(r"\b(Admitted|admit|Axiom|Parameter|Conjecture|Unset Guard|bypass_check|type-in-type|Admit Obligations|impredicative-set)\b")
    for f in coq_sources() + glob.glob(os.path.join(COQ, "Generated", "*.v")):
        if not f.endswith(".v") and not f.endswith("_CoqProject"):
            continue
        for i, line in enumerate(open(f), 1):
            code = re.sub(r"\(\*.*?\*\)", "", line)
            if pat.search(code):
                bad.append("%s:%d: %s" % (os.path.relpath(f, VERIF), i, line.strip()))
    return bad


def build(force=False):
    """returns a dict: ok, log, stage results, per-file status"""
    os.makedirs(BUILD, exist_ok=True)
    lock = open(os.path.join(BUILD, ".coqlock"), "w")
    fcntl.flock(lock, fcntl.LOCK_EX)
    try:
        key = input_hash()
        stamp = os.path.join(BUILD, "coq-state.json")
        if not force and os.path.exists(stamp):
            st = json.load(open(stamp))
            if st.get("key") == key and os.path.exists(os.path.join(BUILD, "ocaml", "leafm")):
                st["cached"] = True
                return st
        t0 = time.time()
        st = {"key": key, "cached": False, "stages": {}}
        # 1. translator
        rc, out = sh([sys.executable, os.path.join(VERIF, "tools", "c2v.py")])
        st["stages"]["c2v"] = {"rc": rc, "log": out[-4000:]}
        meta = {}
        try:
            meta = json.load(open(os.path.join(COQ, "Generated", "meta.json")))
        except Exception:
            pass
        st["c2v_failed"] = meta.get("status", {}).get("failed", {"c2v": "no meta.json"})
        st["c2v_ok"] = meta.get("status", {}).get("ok", [])
        # 2. full .vo build, keep going past broken files
        rc, out = sh(["coq_makefile", "-f", "_CoqProject", "-o", "Makefile"], cwd=COQ)
        rc, out = sh(["timeout", "3000", "make", "-k", "-j16"], cwd=COQ, timeout=3100)
        st["stages"]["make"] = {"rc": rc, "log": out[-12000:]}
        vfiles = [l.strip() for l in open(os.path.join(COQ, "_CoqProject")) if l.strip().endswith(".v")]
        st["vo"] = fresh_vo(vfiles)
        # collect Print Assumptions output per property file from the make log is unreliable under -k/-j;
        # re-run coqc on each compiled property file cheaply (they only contain `exact`)
        st["assumptions"] = {}
        for v in vfiles:
            if v.startswith("Props/") and st["vo"].get(v):
                rc2, out2 = sh(["timeout", "600", "coqc", "-Q", ".", "ADF", v], cwd=COQ)
                st["assumptions"][v] = parse_assumptions(out2) if rc2 == 0 else {"error": out2[-2000:]}
        st["audit"] = audit()
        # 3. extraction + OCaml drivers
        # built in a scratch directory and swapped in by renames, so that a check running at the same time never finds the
        # drivers missing
        final_odir = os.path.join(BUILD, "ocaml")
        odir = os.path.join(BUILD, "ocaml.tmp-%d" % os.getpid())
        shutil.rmtree(odir, ignore_errors=True)
        os.makedirs(odir)
        rc, out = sh(["timeout", "600", "coqc", "-Q", COQ, "ADF", os.path.join(COQ, "Generated", "ExtractAll.v")], cwd=odir)
        st["stages"]["extract"] = {"rc": rc, "log": out[-4000:]}
        if rc == 0:
            for f in glob.glob(os.path.join(OCAML_SRC, "*.ml")):
                shutil.copy(f, odir)
            shutil.copy(os.path.join(COQ, "Generated", "leaf_dispatch.ml"), odir)
            rc, out = sh(["ocamlfind", "ocamlopt", "-w", "-a", "-O2", "model.mli", "model.ml", "zconv.ml", "leaf_dispatch.ml", "leafm.ml", "-o", "leafm"], cwd=odir)
            if rc != 0:
                rc, out = sh(["ocamlfind", "ocamlopt", "-w", "-a", "model.mli", "model.ml", "zconv.ml", "leaf_dispatch.ml", "leafm.ml", "-o", "leafm"], cwd=odir)
            st["stages"]["ocaml_leafm"] = {"rc": rc, "log": out[-4000:]}
            if os.path.exists(os.path.join(odir, "adfm.ml")):
                rc, out = sh(["ocamlfind", "ocamlopt", "-w", "-a", "model.mli", "model.ml", "zconv.ml", "adfm.ml", "-o", "adfm"], cwd=odir)
                st["stages"]["ocaml_adfm"] = {"rc": rc, "log": out[-4000:]}
        old_odir = os.path.join(BUILD, "ocaml.old-%d" % os.getpid())
        shutil.rmtree(old_odir, ignore_errors=True)
        if os.path.exists(final_odir):
            os.rename(final_odir, old_odir)
        os.rename(odir, final_odir)
        shutil.rmtree(old_odir, ignore_errors=True)
        for stale in glob.glob(os.path.join(BUILD, "ocaml.tmp-*")) + glob.glob(os.path.join(BUILD, "ocaml.old-*")):
            shutil.rmtree(stale, ignore_errors=True)
        st["wall_s"] = time.time() - t0
        json.dump(st, open(stamp, "w"), indent=1)
        return st
    finally:
        fcntl.flock(lock, fcntl.LOCK_UN)
        lock.close()


def fresh_vo(vfiles):
    """which .vo files are up to date after `make -k`: a file whose rebuild failed, or that depends on one, keeps its OLD .vo
    on disk - those are deleted here so that nothing is ever checked against a stale proof.  Dependencies come from coqdep's
    .Makefile.d; a .vo is fresh when it exists, is not older than its source and its dependencies are fresh and not newer."""
    deps = {}
    dfile = os.path.join(COQ, ".Makefile.d")
    if os.path.exists(dfile):
        for line in open(dfile):
            if ":" not in line:
                continue
            lhs, rhs = line.split(":", 1)
            tg = [t for t in lhs.split() if t.endswith(".vo")]
            if tg:
                deps[tg[0]] = [d for d in rhs.split() if d.endswith(".vo")]
    memo = {}

    def mt(rel):
        try:
            return os.path.getmtime(os.path.join(COQ, rel))
        except OSError:
            return None

    def fresh(vo):
        if vo in memo:
            return memo[vo]
        memo[vo] = False
        t = mt(vo)
        ts = mt(vo[:-1])
        ok = t is not None and ts is not None and t >= ts
        for d in deps.get(vo, []):
            if not fresh(d) or (ok and mt(d) > t):
                ok = False
        memo[vo] = ok
        return ok
    res = {}
    for v in vfiles:
        vo = v + "o"
        res[v] = fresh(vo)
        if not res[v] and mt(vo) is not None:
            os.unlink(os.path.join(COQ, vo))
    return res


def parse_assumptions(out):
    """Print Assumptions output: either 'Closed under the global context' or 'Axioms:' + names"""
    res = {"closed": 0, "axioms": []}
    lines = out.splitlines()
    i = 0
    while i < len(lines):
        l = lines[i]
        if "Closed under the global context" in l:
            res["closed"] += 1
        elif l.strip() == "Axioms:":
            i += 1
            while i < len(lines) and lines[i].strip() and not lines[i].startswith("Closed") and lines[i].strip() != "Axioms:":
                m = re.match(r"^(\S+)\s*:", lines[i])
                if m:
                    res["axioms"].append(m.group(1))
                i += 1
            continue
        i += 1
    return res


if __name__ == "__main__":
    st = build(force="--force" in sys.argv)
    print(json.dumps({k: v for k, v in st.items() if k not in ("stages",)}, indent=1)[:3000])
    for k, v in st.get("stages", {}).items():
        if v["rc"] != 0:
            print("STAGE", k, "rc", v["rc"])
            print(v["log"][-3000:])

#!/usr/bin/env python3
"""writes MANIFEST.json from the table below (kept in one place so that it is always valid)"""
import json, os
VERIF = os.path.dirname(os.path.dirname(os.path.abspath(__file__)))
PROPS = [json.loads(l)["id"] for l in open(os.path.join(VERIF, "properties.jsonl"))]

# pid -> (category, text, note, technique, design_ref)
CLAIMS = {
 "C16": ("proof",
         "Unbounded theorems (Props/Properties_C16.v): for every day count >= 0 adfDays2Date yields the Gregorian date that many days after 1978-01-01; for every valid date-time from 1978 on adfTime2AmigaTime yields its true day number, minutes and ticks; the two are mutually inverse; the tm->DateTime mapping of adfGiveCurrentTime composes to the real date. The functions are regenerated from adf_util.c by tools/c2v.py on every run, so the theorems are re-proved against what the code says now; compiled C and generated Gallina are additionally compared on every day 0..45000 and every date 1978..2100 (thorough), and stamps are read back from images at pinned instants.",
         "Trusted: Coq kernel; tools/c2v.py + CPrelude.v semantics of the C subset (unbounded signed ints, C-locale); extraction (ExtrOcamlBasic) and OCaml driver for the differential run; harness. localtime() itself is not modelled (TZ=UTC in the harness).",
         "Coq proof over a model regenerated from source (translator) + translation validation", "DESIGN.md section 5 C16"),
 "C15": ("proof",
         "Theorems about the regenerated adfToUpper/adfIntlToUpper/adfGetHashValue (Props/Properties_C15.v): the folding tables are the AmigaDOS ones for all 256 bytes; for every byte string the library's hash is the AmigaDOS hash of the folded first 30 bytes; equal folded names share a slot; the slot is < 72; long names hash like their stored 30-byte form. The directory-level half (which entry a name finds; duplicates refused; listed names re-open) is decided per explored case on the real API over (N,M) name pairs on all six flavours, with the Coq spec (extracted) cross-checking the oracle.",
         "Leaf theorems: unbounded, over the translator tie. Lookup/duplicate behaviour of adfNameToEntryBlk/adfCreateEntry/adfRenameEntry: exploration against the spec relation same_name, not a theorem yet. toupper() assumed C-locale.",
         "Coq proof over regenerated leaf functions + differential API exploration against the Coq spec", "DESIGN.md section 5 C15"),
 "C13": ("proof",
         "Theorems (Props/Properties_C13.v): exact characterisation of the regenerated adfReadBlock/adfWriteBlock guards (an access reaches the device iff first <= nSect+first <= last without 32-bit wrap); for EVERY program in the I/O monad that uses the volume funnel, every device access of its run lies inside [first,last], for every device behaviour; partition block ranges computed by adfCreateVol/adfMountHd (regenerated slices) are pairwise disjoint, outside the RDB area and agree between creation and mount; the set of functions that touch device primitives directly equals the expected funnel (regenerated call graph, reflexivity). Correspondence: guard calls C vs generated; partitioned disks with random histories per partition with every logged device read/write checked; out-of-range pointer images.",
         "The step from 'every API operation is a program of the monad that only uses Rd/Wr' to the C code is the funnel theorem (call graph from clang's AST) plus the system-level runs; models of the individual operations are not needed for this property. Geometry assumed < 2^31 blocks.",
         "Coq proof (any-program invariant over regenerated guards) + translation validation + device-log exploration", "DESIGN.md section 5 C13"),
 "C12": ("proof",
         "Theorems (Props/Properties_C12.v): with the volume flag set (forced by adfMount when the device is read-only: regenerated slice) no program of the I/O monad - volume level or RDB writers - produces a device write, for every device behaviour; a refused write returns non-zero; the only functions that can reach a device write are the guarded funnel (regenerated call graph). The 'every mutating call reports failure' half is decided by the complete matrix call x {device ro, mount ro, both} x flavour x device kind on the real API (return value, empty write log, identical image), plus random histories on read-only mounts.",
         "No-write: unbounded theorem over the translator tie + funnel. Failure reporting of each API call: exhaustive over the call matrix, not a theorem (the operation models are not part of this property's proof). fopen mode of dump devices not modelled.",
         "Coq proof (any-program invariant over regenerated guards) + exhaustive call matrix on the implementation", "DESIGN.md section 5 C12"),
}

def main():
    checks = []
    for pid in PROPS:
        if pid not in CLAIMS:
            continue
        cat, text, note, tech, ref = CLAIMS[pid]
        checks.append({
            "property_id": pid,
            "quick_cmd": "bin/check %s --tier quick" % pid,
            "thorough_cmd": "bin/check %s --tier thorough" % pid,
            "evidence_file": "evidence/%s.json" % pid,
            "replay_cmd_template": "bin/check %s --replay {path}" % pid,
            "engine": "coq-adf",
            "level_claimed": {"category": cat, "text": text, "design_ref": ref},
            "level_note": note,
            "technique": tech,
        })
    na = [{"property_id": p, "reason": "check not built yet in this session (work in progress; see DESIGN.md section 10 for the build order) - not a statement that the technique cannot apply"}
          for p in PROPS if p not in CLAIMS]
    m = {
        "version": 1,
        "setup_cmd": "bin/setup",
        "hooks": {"guard": "ADFLIB_VERIF", "enable": "harness is compiled with -DADFLIB_VERIF (tools/vbuild.py); no guarded code exists in /repo - the device, clock, malloc and allocator are intercepted from outside (adfEnv.nativeFct, time(), -Wl,--wrap)",
                  "baseline_off_cmd": "cmake --build /repo/_build && ctest --test-dir /repo/_build -j8 --timeout 900",
                  "source_commits": [], "add_only": True},
        "engines": [{"name": "coq-adf", "path": "coq/", "serves_properties": [c["property_id"] for c in checks],
                     "kind_free_text": "Coq 8.16 development: Generated/ (translated from /repo on every run), Spec/, Model/, Proofs/, Props/; extracted to OCaml for correspondence with harness/adfh.c + harness/leafh.c built from /repo's working tree"}],
        "checks": checks,
        "not_applicable": na,
        "notes": "Every check rebuilds the harness from /repo's working tree, regenerates coq/Generated from it, runs a full .vo build (make -k) and the correspondence runs. KNOWN_FINDINGS lists recorded defects; `fixed:` lines suppress nothing.",
    }
    json.dump(m, open(os.path.join(VERIF, "MANIFEST.json"), "w"), indent=1)
    print("MANIFEST: %d checks, %d not claimed" % (len(checks), len(na)))

if __name__ == "__main__":
    main()

#!/usr/bin/env python3
"""writes MANIFEST.json from the table below (kept in one place so that it is always valid)"""
import json, os
VERIF = os.path.dirname(os.path.dirname(os.path.abspath(__file__)))
PROPS = [json.loads(l)["id"] for l in open(os.path.join(VERIF, "properties.jsonl"))]

# pid -> (category, text, note, technique, design_ref)
CLAIMS = {
 "C16": ("proof",
         "Unbounded theorems (Props/Properties_C16.v): for every day count >= 0 adfDays2Date yields the Gregorian date that many days after 1978-01-01; for every valid date-time from 1978 on adfTime2AmigaTime yields its true day number, minutes and ticks; the two are mutually inverse; the tm->DateTime mapping of adfGiveCurrentTime composes to the real date. The functions are regenerated from adf_util.c by tools/c2v.py on every run, so the theorems are re-proved against what the code says now; compiled C and generated Gallina are additionally compared on every day 0..45000 and every date 1978..2100 (thorough), and stamps are read back from images at pinned instants.",
         "Trusted: Coq kernel; tools/c2v.py + CPrelude.v semantics of the C subset (unbounded signed ints, C-locale); extraction (ExtrOcamlBasic) and OCaml driver for the differential run; harness. localtime() itself is not modelled (TZ=UTC in the harness).",
         "Coq proof over a model regenerated from source (translator) + translation validation", "DESIGN.md section 5 C16"),
 "C15": ("proof",
         "Theorems about the regenerated adfToUpper/adfIntlToUpper/adfGetHashValue (Props/Properties_C15.v): the folding tables are the AmigaDOS ones for all 256 bytes; for every byte string the library's hash is the AmigaDOS hash of the folded first 30 bytes; equal folded names share a slot; the slot is < 72; long names hash like their stored 30-byte form. The directory-level half (which entry a name finds; duplicates refused; listed names re-open) is decided per explored case on the real API over (N,M) name pairs on all six flavours, with the Coq spec (extracted) cross-checking the oracle.",
         "Leaf theorems: unbounded, over the translator tie. Lookup/duplicate behaviour of adfNameToEntryBlk/adfCreateEntry/adfRenameEntry: exploration against the spec relation same_name, not a theorem yet. toupper() assumed C-locale.",
         "Coq proof over regenerated leaf functions + differential API exploration against the Coq spec", "DESIGN.md section 5 C15"),
 "C13": ("proof",
         "Theorems (Props/Properties_C13.v): exact characterisation of the regenerated adfReadBlock/adfWriteBlock guards (an access reaches the device iff first <= nSect+first <= last without 32-bit wrap); for EVERY program in the I/O monad that uses the volume funnel, every device access of its run lies inside [first,last], for every device behaviour; partition block ranges computed by adfCreateVol/adfMountHd (regenerated slices) are pairwise disjoint, outside the RDB area and agree between creation and mount; the set of functions that touch device primitives directly equals the expected funnel (regenerated call graph, reflexivity). Correspondence: guard calls C vs generated; partitioned disks with random histories per partition with every logged device read/write checked; out-of-range pointer images.",
         "The step from 'every API operation is a program of the monad that only uses Rd/Wr' to the C code is the funnel theorem (call graph from clang's AST) plus the system-level runs; models of the individual operations are not needed for this property. Geometry assumed < 2^31 blocks.",
         "Coq proof (any-program invariant over regenerated guards) + translation validation + device-log exploration", "DESIGN.md section 5 C13"),
 "C12": ("proof",
         "Theorems (Props/Properties_C12.v): with the volume flag set (forced by adfMount when the device is read-only: regenerated slice) no program of the I/O monad - volume level or RDB writers - produces a device write, for every device behaviour; a refused write returns non-zero; the only functions that can reach a device write are the guarded funnel (regenerated call graph). The 'every mutating call reports failure' half is decided by the complete matrix call x {device ro, mount ro, both} x flavour x device kind on the real API (return value, empty write log, identical image), plus random histories on read-only mounts.",
         "No-write: unbounded theorem over the translator tie + funnel. Failure reporting of each API call: exhaustive over the call matrix, not a theorem (the operation models are not part of this property's proof). fopen mode of dump devices not modelled.",
         "Coq proof (any-program invariant over regenerated guards) + exhaustive call matrix on the implementation", "DESIGN.md section 5 C12"),
 "C01": ("exploration",
         "Proved (unbounded, over functions regenerated from the C source): the position/size arithmetic all file operations rest on - adfPos2DataBlock's decomposition for every position and both block sizes, data/extension/total block counts without 32-bit wrap, agreement of the two count implementations. Decided per explored history (not a theorem): that open/read/write/seek/truncate/flush/close refine the byte-array model Spec/FsSpec.v - random interleavings over several files and handles, boundary alignment sweeps with fragmentation, all six flavours, DD/HD/hardfile; results compared with the extracted model at every step and the decoded image compared with the model at every quiescent point, with and without remount.",
         "Headline refinement is exploration with Coq-extracted oracles (reference model + independent decoder); the theorems cover the leaf arithmetic only. One writer per file; no reader beside a writer.",
         "differential exploration against a Coq reference model and Coq decoder; Coq proof of the regenerated leaf arithmetic", "DESIGN.md section 5 C01"),
 "C02": ("exploration",
         "Proved about the reference tree model (Spec/FsSpec.v): a failing call changes nothing; queries are pure. Decided per explored history: the library's create/mkdir/delete/rename/move/comment/protect/lookup/list agree with the model on sequences with names colliding in one hash slot (chains up to 6), case variants, cross-directory moves and every failing call kind; the image is decoded by the extracted decoder every 12 calls and must equal the model's tree, file bytes included (so a failing call that changed anything is seen), on all six flavours.",
         "Refinement of the C directory code to the model is exploration, not a theorem. Entries with open handles are not deleted/renamed/re-attributed.",
         "differential exploration against a Coq reference model and Coq decoder", "DESIGN.md section 5 C02"),
 "C03": ("exploration",
         "The judge is Spec/Decode.v: a decoder written in Coq from adf_info.txt that shares nothing with the library model, extracted to OCaml. At every quiescent point of generated histories (file, namespace, alignment sweeps; floppy, hardfile, RDB partition; all flavours) the raw image written by the implementation must decode (types, self/parent pointers, checksums, hash-chain placement by the AmigaDOS hash proved equal to the library's in C15, highSeq/extension counts vs size, OFS data headers, bitmap flag and pages, cache blocks) and the decoded tree, metadata and bytes must equal the reference model.",
         "Per explored history. The decoder's reading of the format text is recorded in DESIGN.md appendix A.",
         "exploration judged by an independent decoder written in Coq", "DESIGN.md section 5 C03"),
 "C04": ("proof",
         "Theorems (Props/Properties_C04.v): the regenerated index and mask expressions of adfIsBlockFree/adfSetBlockFree/adfSetBlockUsed implement the bitmap layout of the format text (test, set, clear exactly one bit; indices in bounds for exactly the blocks of the volume; distinct blocks, distinct bits); the circular scan of adfGetFreeBlocks returns `want` distinct, previously free, in-range blocks (never boot blocks), marks exactly those, and fails only when fewer are free. The scan is a hand mirror tied to the C function by correspondence on random (sparse and dense) bitmaps incl. wrap-around and exhaustion. 'Each reachable block reached once and marked allocated on disk at every quiescent point' is judged per explored history by the extracted decoder, incl. multi-page volumes, partitions with non-zero first block, dumps with and without remount.",
         "Allocator theorems: unbounded over model; bit arithmetic: translator tie; scan: correspondence tie. History half: exploration.",
         "Coq proof (bit algebra over regenerated expressions, allocator scan) + correspondence + decoder-judged exploration", "DESIGN.md section 5 C04"),
 "C05": ("exploration",
         "Proved: adfCountFreeBlocks (mirror over the regenerated bit test) counts exactly the free bits of blocks 2..last; allocating lowers it by exactly one; the two block-count computations used at creation and at release agree for every size. Decided per explored history: allocated = reachable + reserved (decoder) and library free count = bitmap count at every dump; create/truncate/delete cycles over the size classes 0, <72, =72, >72, >144 data blocks restore the initial free count; with and without directory cache; floppies, hardfiles, partitions.",
         "Conservation over histories is exploration judged by the Coq decoder; counting theorems are unbounded.",
         "decoder-judged exploration + Coq proof of the counting arithmetic", "DESIGN.md section 5 C05"),
 "C07": ("exploration",
         "Proved (regenerated expressions): the record length announced by adfEntry2CacheEntry equals what adfPutCacheEntry writes, is even and within 26..134, so a record passing the `offset+len <= 488` test stays inside the record area. Decided per explored history on DIRCACHE volumes: directories grown over 1..4 cache blocks with record lengths chosen to land on / one past the area end, deletes at head/middle/tail, each block of a chain emptied, records lengthened/shortened by rename and comment, sizes updated on flush; judges: listing served from the cache vs the reference model, and the extracted decoder (chain well formed, records in area, counts, ownership, cached records = hash-table entries on names/types/sizes/protection/comments).",
         "Coherence over histories: exploration judged by the Coq decoder; theorems: record length arithmetic only. Dates are not compared.",
         "decoder-judged exploration + Coq proof of record-length arithmetic", "DESIGN.md section 5 C07"),
 "C08": ("exploration",
         "Proved (model of the allocator scan, C04): a request is refused only when fewer blocks are free than asked, and a refusal leaves the bitmap untouched. Decided per explored history: real exhaustion (volume pre-filled leaving 0..5 blocks, then block-hungry operations at several alignments incl. the 72-block extension boundary and a nearly full cache block) and forced exhaustion (request j = 1..4 of a call and all later ones refused); after each episode the result is compared with the reference model replayed with the accepted byte count, bystander files are read back, the extracted decoder judges structure and exact free-space accounting before/after/after remount, and the freed space is filled again to the same capacity.",
         "Per explored history; a call may fail for lack of space only inside the marked window. Filler files are judged by the decoder but not replayed in the model.",
         "exhaustion enumeration judged by Coq reference model and decoder + Coq proof of allocator refusal", "DESIGN.md section 5 C08"),
 "C14": ("exploration",
         "Proved (regenerated arithmetic): the number of bitmap pages is ceil((n-2)/4064) and covers exactly blocks 2..n-1; device classification by size; floppy and partition block ranges, and that mount recomputes the range used at creation. Decided per geometry (not a theorem): the whole round trip - format, close, mount - for DD/HD floppies x 8 flavour bytes, hardfile sizes around every multiple of 4064 (+-3), odd and even, around 25/26 bitmap pages (thorough: every size 3521..12300 and windows up to 30 and beyond 152 pages), RDB tables with 1..4 partitions of random geometry, volume-name lengths 0..40: name, flavour, range, empty root (hash table and cache listing), free count = size - boot - root - pages - extension blocks - cache block, and the raw image judged by the extracted decoder.",
         "Round trip: enumeration over geometries with the Coq decoder as judge; closed-form theorems for the arithmetic only. adfCreateVol/adfWriteNewBitmap themselves are not modelled.",
         "geometry enumeration judged by the Coq decoder + Coq proof of regenerated size arithmetic", "DESIGN.md section 5 C14"),
 "C06": ("exploration",
         "The independent decoder is Spec/Decode.v (Coq, extracted; its offsets/constants proved equal to the library's compiled layout in C03, its hash proved equal to the library's in C15). Images come from an independent writer (checks/mkimage.py: random/reversed/interleaved placement, shuffled hash chains, garbage in free blocks, Latin-1 names, hard links to files and directories, cache blocks split at random, files of 0..145 blocks) and from AmigaDOS (regtests/Dumps). For each image the decoder first confirms well-formedness; then ADFlib's listings (hash tables and cache), metadata, link resolution and reads at random (offset,length) incl. EOF are compared with the decoder's tree and bytes.",
         "Per explored image. Soft links are listed, not followed.",
         "differential exploration against an independent decoder written in Coq", "DESIGN.md section 5 C06"),
 "C10": ("exploration",
         "Memory safety of compiled C on corrupted input is outside what a Gallina model can exhibit (DESIGN.md section 11); the logic part that is proved: any block number taken from an image is passed to the device only inside the volume (regenerated guard, C13) - and the cache record length arithmetic (C07). Decided per explored image: every metadata field of every reached metadata block of well-formed base images (independent writer; OFS/FFS, with/without cache, extension blocks, nested dirs, hard links) overwritten with boundary values, checksum repaired or not; mount, listings with and without cache, lookups, link resolution, open/seek/read run under AddressSanitizer(+bounds) with a read budget; plus the corrupt dump shipped with the repository.",
         "Partial by nature: sanitizer-judged exploration; theorems cover block-number range checking only.",
         "field-mutation exploration under AddressSanitizer + Coq proof of the range guard", "DESIGN.md section 5 C10, section 11"),
 "C11": ("exploration",
         "Proved: the counting fact behind every bounded walk added to the library - pairwise distinct in-range blocks number at most n, so a step budget of n is never exhausted by a cycle-free chain and always by a cycle. Decided per explored image: each pointer field (hash slots, nextSameHash, extension, nextDirC, parent, firstData, nextData, realEntry, bitmap pointers) of each metadata block redirected to itself / its predecessor / the root / another block, singly and in pairs, and cyclic PART/FSHD/LSEG lists; the read-only API runs with a budget of 3*volume+200 device reads per call and a wall-clock alarm.",
         "Termination of the C loops: per explored image with an explicit read budget; the theorem justifies the budget, it is not about the C code.",
         "pointer-redirect exploration with a read budget + Coq pigeonhole bound", "DESIGN.md section 5 C11"),
 "C17": ("exploration",
         "Proved (regenerated layouts): the block structs have no padding and the endian-swap table covers every byte of each block kind, so a cleared-then-filled struct reaches the device fully determined. Decided per explored history: all formatting calls (DD/HD, hardfiles incl. more than 25 bitmap pages, partitioned disk; several flavour bytes) and file / namespace / directory-cache histories run twice (thorough: three times) with different heap and stack pre-fill bytes and a pinned clock; the images must be byte-identical and the call results equal.",
         "Partial by nature (which C objects start uninitialised is not a Gallina fact): two-prefill differential exploration; theorems cover layout only. Stack pre-fill reaches 48 KiB below the API call.",
         "two-prefill differential exploration + Coq proof of padding-free layouts", "DESIGN.md section 5 C17, section 11"),
 "C19": ("fault_enumeration",
         "Proved: the interpretation of programs (Base/Prog.v) is against an arbitrary device - any read may fail and return any buffer, any write may fail - so containment (C13) and read-only (C12) hold under every fault schedule; a refused access returns non-zero. Enumerated on the implementation: for every call of the target groups (sequential/positioned reads across block and extension boundaries, listings/lookups via hash tables and cache, overwrite, create, mkdir/delete/move, truncate/comment) one run per device read and per device write the call performs, with exactly that transfer failing (garbage left in the buffer); judged: no crash (part of the runs under AddressSanitizer), read calls return a prefix of the true bytes or an error, bystander files read back correctly after the fault clears and after remount; flavours OFS/FFS/FFS-DIRCACHE (thorough: all six).",
         "Fault enumeration per call of fixed target groups (quick: sample of 14 per group), not over all histories. The content of a file whose own write was interrupted is not judged.",
         "single-fault enumeration through the native-device interface + Coq any-device theorems", "DESIGN.md section 5 C19"),
 "C09": ("exploration",
         "Memory safety of compiled C is outside what a Gallina model can exhibit (DESIGN.md section 11). Proved: the index arithmetic with which the write path addresses its fixed-size buffers stays in bounds - bitmap page/word/bit for every block of the volume, the 72-slot block tables for every file position, the 488-byte cache record area for every accepted record (all over regenerated expressions). Decided per explored history: valid histories from the file, namespace, directory-cache, exhaustion and partition generators (all flavours, failing calls included) under ASan(address,bounds)+LeakSanitizer, the wrapped-malloc ledger after close+unmount+closedev (no live allocation, nothing freed twice), and valgrind memcheck on a few (branches on uninitialised memory).",
         "Partial by nature: sanitizer/ledger-judged exploration; theorems cover index arithmetic only.",
         "sanitizer + allocation-ledger exploration; Coq proof of buffer index bounds", "DESIGN.md section 5 C09, section 11"),
 "C18": ("exploration",
         "Proved (generic): if every write of a write sequence lands outside a protected set (or re-writes the old content), then after ANY prefix of the sequence the protected blocks are unchanged - this lifts the per-write frame check to every interruption point. Decided per explored history: the ordered device-write log of every operation of random interleavings (4 handles, deletes so that freed blocks are reused, all six flavours) and of enumerated release-and-reuse scenarios (file of 10..150 blocks truncated to 0 / 1 block / 72 / 73 blocks through a handle that stays open, another file takes the released blocks, then flush/close of the first handle) is replayed write by write; each write must hit a block owned by nobody, by the operated object, by its directories' metadata, or a sibling header whose chain link alone changes; bitmap pages may only be written while the root's bitmap-valid flag is cleared and the flag must be set again at the end.",
         "Frame check: per explored history, against an ownership map computed from the image before each write sequence (files open for writing are not bystanders: their on-disk block lists may lag). Theorem: generic prefix lemma only.",
         "write-log frame checking at every prefix + Coq prefix lemma", "DESIGN.md section 5 C18"),
 "C20": ("proof",
         "Theorems (Props/Properties_C20.v) about Model/Unadf.v, the mirror of output_name: for EVERY byte string the image-derived part of the output path, after the rewriting pass, has no '..' component and does not start with a separator, hence lexical resolution never climbs above the directory it starts from. The model is tied to examples/unadf.c by a differential run of the compiled output_name (linked from the working tree) on hostile and random (dir, path, name) triples, and the real unadf binary extracts images with hostile names (written by the independent image writer) in a sandbox tree, with and without -d, whole tree and single path, with everything outside the extraction directory snapshotted before/after.",
         "Hand-written model, correspondence tie (not regenerated). Kernel path resolution, pre-existing symlinks and the -w mangling are not modelled.",
         "Coq proof over a hand model of output_name + differential correspondence + sandboxed extraction", "DESIGN.md section 5 C20"),
}

def main():
    checks = []
    for pid in PROPS:
        if pid not in CLAIMS:
            continue
        cat, text, note, tech, ref = CLAIMS[pid]
        checks.append({
            "property_id": pid,
            "quick_cmd": "bin/check %s --tier quick" % pid,
            "thorough_cmd": "bin/check %s --tier thorough" % pid,
            "evidence_file": "evidence/%s.json" % pid,
            "replay_cmd_template": "bin/check %s --replay {path}" % pid,
            "engine": "coq-adf",
            "level_claimed": {"category": cat, "text": text, "design_ref": ref},
            "level_note": note,
            "technique": tech,
        })
    na = [{"property_id": p, "reason": "check not built yet in this session (work in progress; see DESIGN.md section 10 for the build order) - not a statement that the technique cannot apply"}
          for p in PROPS if p not in CLAIMS]
    m = {
        "version": 1,
        "setup_cmd": "bin/setup",
        "hooks": {"guard": "ADFLIB_VERIF", "enable": "harness is compiled with -DADFLIB_VERIF (tools/vbuild.py); no guarded code exists in /repo - the device, clock, malloc and allocator are intercepted from outside (adfEnv.nativeFct, time(), -Wl,--wrap)",
                  "baseline_off_cmd": "cmake --build /repo/_build && ctest --test-dir /repo/_build -j8 --timeout 900",
                  "source_commits": [], "add_only": True},
        "engines": [{"name": "coq-adf", "path": "coq/", "serves_properties": [c["property_id"] for c in checks],
                     "kind_free_text": "Coq 8.16 development: Generated/ (translated from /repo on every run), Spec/, Model/, Proofs/, Props/; extracted to OCaml for correspondence with harness/adfh.c + harness/leafh.c built from /repo's working tree"}],
        "checks": checks,
        "not_applicable": na,
        "notes": "Every check rebuilds the harness from /repo's working tree, regenerates coq/Generated from it, runs a full .vo build (make -k) and the correspondence runs. KNOWN_FINDINGS lists recorded defects; `fixed:` lines suppress nothing.",
    }
    json.dump(m, open(os.path.join(VERIF, "MANIFEST.json"), "w"), indent=1)
    print("MANIFEST: %d checks, %d not claimed" % (len(checks), len(na)))

if __name__ == "__main__":
    main()

#!/bin/sh
# usage: coqdbg.sh <file.v> <line>  : show the goals just before <line>
f=$1; n=$2
head -n $((n-1)) "$f" > /tmp/coqdbg_D.v
echo "Show. Abort." >> /tmp/coqdbg_D.v
cd /verif/coq && coqc -Q . ADF /tmp/coqdbg_D.v 2>&1 | head -${3:-60}

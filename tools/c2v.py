#!/usr/bin/env python3
"""c2v - translate a subset of C (ADFlib's pure leaf functions, guard
expressions and layout constants) to Gallina, from /repo's current working tree.

Input  : clang -Xclang -ast-dump=json (per function, -ast-dump-filter)
Output : coq/Generated/*.v   (regenerated on every run; never committed)

Semantics of the accepted subset (trusted, see DESIGN.md section 4.1):
  * every integer value is a Z;
  * an arithmetic node whose C type is an unsigned type of N bits is wrapped
    `mod 2^N`; signed arithmetic is unbounded (signed overflow is undefined
    behaviour in C; range side-lemmas are proved where a theorem needs them);
  * signed / and % are Z.quot / Z.rem (truncation), unsigned are Z.div / Z.modulo;
  * integral casts to an unsigned type reduce mod 2^N, to a signed type
    reinterpret in two's complement;
  * loops become `while_ fuel` and the function result is an option
    (None = out of fuel);
  * an array is a `list Z` read with `nthZ` (0 when out of range) and written
    with `updZ` (no-op when out of range);
  * a pointer parameter that is only dereferenced for writing is an output,
    returned in a tuple after the C return value, in parameter order;
  * struct values / pointers to structs are flattened: `dt.mon`, `vol->lastBlock`
    become variables dt_mon, vol_lastBlock;
  * calls to the logging callbacks (adfEnv.wFct/eFct/vFct) have no effect;
  * anything else makes the translator fail, naming the construct.
"""
import hashlib, json, os, re, subprocess, sys

VERIF = os.path.dirname(os.path.dirname(os.path.abspath(__file__)))
REPO = os.environ.get("VERIF_REPO", "/repo")

class KeepIfSame:
    """write a generated file only when its content changed, so that make rebuilds only what depends on a real change"""
    def __init__(self, path):
        self.path = path
        import io
        self.buf = io.StringIO()
    def __enter__(self):
        return self.buf
    def __exit__(self, et, ev, tb):
        if et is not None:
            return False
        new = self.buf.getvalue()
        try:
            old = open(self.path).read()
        except OSError:
            old = None
        if old != new:
            with open(self.path, "w") as f:
                f.write(new)
        return False

OUT = os.path.join(VERIF, "coq", "Generated")


class Unsupported(Exception):
    pass


# ------------------------------------------------------------------ AST access

def clang_docs(path, fn, extra=()):
    cmd = ["clang", "-fsyntax-only", "-I" + os.path.join(REPO, "src"), "-Xclang", "-ast-dump=json",
           "-Xclang", "-ast-dump-filter=" + fn] + list(extra) + [path]
    r = subprocess.run(cmd, stdout=subprocess.PIPE, stderr=subprocess.PIPE, text=True)
    s = r.stdout
    dec = json.JSONDecoder()
    i = 0
    out = []
    while i < len(s):
        while i < len(s) and s[i].isspace():
            i += 1
        if i >= len(s):
            break
        o, j = dec.raw_decode(s, i)
        out.append(o)
        i = j
    return out


def find_function(path, fn, extra=()):
    for d in clang_docs(path, fn, extra):
        if d.get("kind") == "FunctionDecl" and d.get("name") == fn and \
                any(c.get("kind") == "CompoundStmt" for c in d.get("inner", [])):
            return d
    raise Unsupported("function %s not found (with a body) in %s" % (fn, path))


def find_var(path, name):
    for d in clang_docs(path, name):
        if d.get("kind") == "VarDecl" and d.get("name") == name and d.get("inner"):
            return d
    raise Unsupported("variable %s not found in %s" % (name, path))


# ------------------------------------------------------------------ types

TYPES = {
    "int": ("s", 32), "BOOL": ("s", 32), "SECTNUM": ("s", 32), "int32_t": ("s", 32), "RETCODE": ("s", 32),
    "unsigned int": ("u", 32), "unsigned": ("u", 32), "uint32_t": ("u", 32),
    "unsigned char": ("u", 8), "uint8_t": ("u", 8), "char": ("s", 8), "signed char": ("s", 8),
    "unsigned short": ("u", 16), "uint16_t": ("u", 16), "short": ("s", 16), "int16_t": ("s", 16),
    "long": ("s", 64), "unsigned long": ("u", 64), "size_t": ("u", 64), "long long": ("s", 64),
    "unsigned long long": ("u", 64), "_Bool": ("u", 1),
}


def ctype(node):
    t = node.get("type", {})
    q = t.get("desugaredQualType") or t.get("qualType") or ""
    q = re.sub(r"\b(const|volatile|restrict)\b", "", q).strip()
    q = re.sub(r"\s+", " ", q)
    if q.startswith("enum "):
        return ("s", 32)
    if q.endswith("*") or "[" in q or "(" in q:
        return ("p", 64)
    if q in TYPES:
        return TYPES[q]
    q2 = (t.get("qualType") or "")
    q2 = re.sub(r"\b(const|volatile)\b", "", q2).strip()
    if q2 in TYPES:
        return TYPES[q2]
    if q.startswith("struct "):
        return ("struct", 0)
    raise Unsupported("type %r" % q)


def cast_fn(ty):
    k, b = ty
    return "cast_%s%d" % (k, b)


def fits(src, dst):
    """every value of src is representable in dst"""
    (ks, bs), (kd, bd) = src, dst
    if ks == kd:
        return bs <= bd
    if ks == "u" and kd == "s":
        return bs < bd
    return False


# ------------------------------------------------------------------ expression translation

LOG_CALLEES = {"wFct", "eFct", "vFct"}
PURE_CALLS = {}      # C function name -> Gallina name (filled as functions are translated)
BUILTIN_CALLS = {"toupper": "c_toupper", "strlen": "c_strlen"}


def strip(n):
    while n.get("kind") in ("ParenExpr",) or (n.get("kind") in ("ImplicitCastExpr", "CStyleCastExpr") and
                                               n.get("castKind") in ("LValueToRValue", "NoOp", "ArrayToPointerDecay",
                                                                     "FunctionToPointerDecay", "BitCast")):
        n = n["inner"][0]
    return n


class Ctx:
    def __init__(self, fname):
        self.fname = fname
        self.bound = set()       # names bound by let at this point (for free-variable discovery)
        self.free = []           # free variables (become parameters), in discovery order
        self.arrays = set()      # names that are lists
        self.outs = []           # output parameter names (pointer params written through *)
        self.ptr_params = set()
        self.has_loop = False
        self.abstract = {}       # spelled lvalue -> variable name (slices)
        self.cell = None         # member name of the array whose elements are abstracted as the variable `cell`

    def use(self, name):
        if name not in self.bound and name not in self.free:
            self.free.append(name)
        return name


GLOBAL_TABLES = {"bitMask"}     # global constant tables, defined in Generated/Layout.v


def is_cell(n, member):
    while n.get("kind") == "ParenExpr":
        n = n["inner"][0]
    if n.get("kind") != "ArraySubscriptExpr":
        return False
    base = strip(n["inner"][0])
    return base.get("kind") == "MemberExpr" and base.get("name") == member


def has_call(n, name):
    if not isinstance(n, dict):
        return False
    if n.get("kind") == "CallExpr":
        c = strip(n["inner"][0])
        if c.get("kind") == "DeclRefExpr" and c["referencedDecl"]["name"] == name:
            return True
    return any(has_call(c, name) for c in n.get("inner", []))


def lvalue_name(n, cx):
    """name of a scalar lvalue (flattened)"""
    n0 = n
    while n.get("kind") == "ParenExpr":
        n = n["inner"][0]
    k = n.get("kind")
    if k == "DeclRefExpr":
        return n["referencedDecl"]["name"]
    if k == "MemberExpr":
        base = strip(n["inner"][0])
        return lvalue_name(base, cx) + "_" + n["name"]
    if k == "UnaryOperator" and n.get("opcode") == "*":
        base = strip(n["inner"][0])
        if base.get("kind") == "DeclRefExpr":
            p = base["referencedDecl"]["name"]
            return p + "_v"
    if k in ("ImplicitCastExpr", "CStyleCastExpr"):
        return lvalue_name(n["inner"][0], cx)
    raise Unsupported("lvalue %s in %s" % (k, cx.fname))


def is_array_access(n):
    while n.get("kind") == "ParenExpr":
        n = n["inner"][0]
    return n.get("kind") == "ArraySubscriptExpr"


def array_parts(n, cx):
    while n.get("kind") == "ParenExpr":
        n = n["inner"][0]
    base = strip(n["inner"][0])
    idx = n["inner"][1]
    return lvalue_name(base, cx), idx


def tr_int(n, cx):
    """translate an expression to a Gallina term of type Z"""
    k = n.get("kind")
    if k == "ParenExpr":
        return tr_int(n["inner"][0], cx)
    if k == "ConstantExpr":
        return tr_int(n["inner"][0], cx)
    if k == "IntegerLiteral":
        return "(%s)" % n["value"]
    if k == "CharacterLiteral":
        return "(%d)" % n["value"]
    if k in ("ImplicitCastExpr", "CStyleCastExpr"):
        ck = n.get("castKind")
        inner = n["inner"][0]
        if ck in ("LValueToRValue", "NoOp"):
            return tr_int(inner, cx)
        if ck == "IntegralCast":
            src, dst = ctype(inner), ctype(n)
            e = tr_int(inner, cx)
            if fits(src, dst):
                return e
            ist = strip(inner)
            if ist.get("kind") == "IntegerLiteral" and dst[0] == "u" and 0 <= int(ist["value"]) < 2 ** dst[1]:
                return e
            return "(%s %s)" % (cast_fn(dst), e)
        if ck == "IntegralToBoolean":
            return "(b2z %s)" % tr_bool(inner, cx)
        if ck in ("ToVoid",):
            return "(0)"
        raise Unsupported("cast %s in %s" % (ck, cx.fname))
    if k in ("DeclRefExpr", "MemberExpr"):
        if k == "DeclRefExpr" and n.get("referencedDecl", {}).get("kind") == "EnumConstantDecl":
            return "(%s)" % ENUMS[n["referencedDecl"]["name"]]
        nm = lvalue_name(n, cx)
        return cx.use(nm)
    if k == "ArraySubscriptExpr":
        if cx.cell and is_cell(n, cx.cell):
            return cx.use("cell")
        arr, idx = array_parts(n, cx)
        if arr in GLOBAL_TABLES:
            return "(nthZ %s %s)" % (arr, tr_int(idx, cx))
        cx.arrays.add(arr)
        return "(nthZ %s %s)" % (cx.use(arr), tr_int(idx, cx))
    if k == "UnaryOperator":
        op = n["opcode"]
        a = n["inner"][0]
        ty = ctype(n)
        if op == "*":
            return cx.use(lvalue_name(n, cx))
        if op == "-":
            e = "(- %s)" % tr_int(a, cx)
            return "(%s %s)" % (cast_fn(ty), e) if ty[0] == "u" else e
        if op == "+":
            return tr_int(a, cx)
        if op == "~":
            e = "(Z.lnot %s)" % tr_int(a, cx)
            return "(%s %s)" % (cast_fn(ty), e) if ty[0] == "u" else e
        if op == "!":
            return "(b2z %s)" % tr_bool(n, cx)
        raise Unsupported("unary %s as value in %s" % (op, cx.fname))
    if k == "BinaryOperator":
        op = n["opcode"]
        a, b = n["inner"]
        ty = ctype(n)
        if op in ("<", "<=", ">", ">=", "==", "!=", "&&", "||"):
            return "(b2z %s)" % tr_bool(n, cx)
        ea, eb = tr_int(a, cx), tr_int(b, cx)
        u = ty[0] == "u"
        wrap = (lambda e: "(%s %s)" % (cast_fn(ty), e)) if u else (lambda e: e)
        if op == "+":
            return wrap("(%s + %s)" % (ea, eb))
        if op == "-":
            return wrap("(%s - %s)" % (ea, eb))
        if op == "*":
            return wrap("(%s * %s)" % (ea, eb))
        if op == "/":
            return "(%s / %s)" % (ea, eb) if u else "(Z.quot %s %s)" % (ea, eb)
        if op == "%":
            return "(%s mod %s)" % (ea, eb) if u else "(Z.rem %s %s)" % (ea, eb)
        if op == "&":
            return "(Z.land %s %s)" % (ea, eb)
        if op == "|":
            return "(Z.lor %s %s)" % (ea, eb)
        if op == "^":
            return "(Z.lxor %s %s)" % (ea, eb)
        if op == "<<":
            return wrap("(Z.shiftl %s %s)" % (ea, eb))
        if op == ">>":
            return "(Z.shiftr %s %s)" % (ea, eb)
        if op == ",":
            raise Unsupported("comma operator in %s" % cx.fname)
        raise Unsupported("binary %s as value in %s" % (op, cx.fname))
    if k == "ConditionalOperator":
        c, a, b = n["inner"]
        return "(if %s then %s else %s)" % (tr_bool(c, cx), tr_int(a, cx), tr_int(b, cx))
    if k == "CallExpr":
        callee = strip(n["inner"][0])
        args = n["inner"][1:]
        if callee.get("kind") == "DeclRefExpr":
            nm = callee["referencedDecl"]["name"]
            if nm in ("Long", "swapLong", "Short", "swapShort"):
                arr, idx = ptr_plus(args[0], cx)
                f = "be32_at" if nm in ("Long", "swapLong") else "be16_at"
                cx.arrays.add(arr)
                return "(%s %s %s)" % (f, cx.use(arr), idx)
            if nm == "strlen":
                a0 = strip(args[0])
                arr = lvalue_name(a0, cx)
                cx.arrays.add(arr)
                return "(c_strlen %s)" % cx.use(arr)
            if nm in BUILTIN_CALLS:
                return "(%s %s)" % (BUILTIN_CALLS[nm], " ".join(tr_int(x, cx) for x in args))
            if nm in PURE_CALLS:
                return "(%s %s)" % (PURE_CALLS[nm], " ".join(tr_int(x, cx) for x in args))
        raise Unsupported("call to %s in %s" % (callee.get("referencedDecl", {}).get("name", callee.get("kind")), cx.fname))
    if k == "StmtExpr":
        # GNU statement expression (min/max macros): { decl; decl; expr; }
        body = n["inner"][0]["inner"]
        lets = []
        saved = set(cx.bound)
        for s in body[:-1]:
            if s.get("kind") != "DeclStmt":
                raise Unsupported("statement expression with %s in %s" % (s.get("kind"), cx.fname))
            for d in s["inner"]:
                init = [c for c in d.get("inner", []) if "Expr" in c.get("kind", "") or "Literal" in c.get("kind", "") or "Operator" in c.get("kind", "")]
                e = tr_int(init[0], cx)
                lets.append((d["name"], e))
                cx.bound.add(d["name"])
        last = body[-1]
        e = tr_int(last, cx)
        cx.bound = saved
        for nm, v in reversed(lets):
            e = "(let %s := %s in %s)" % (nm, v, e)
        return e
    if k == "UnaryExprOrTypeTraitExpr":
        # sizeof of an array-typed expression (e.g. sizeof(dirc->records)): element size * length, read off the type
        if n.get("name") == "sizeof":
            inner = [c for c in n.get("inner", []) if isinstance(c, dict) and c]
            qt = (strip(inner[0])["type"]["qualType"] if inner else n.get("argType", {}).get("qualType", ""))
            m = re.match(r"^(?:const )?(uint8_t|int8_t|char|unsigned char|signed char|uint16_t|int16_t|uint32_t|int32_t)\s*\[(\d+)\]$", qt)
            if m:
                esz = {"uint16_t": 2, "int16_t": 2, "uint32_t": 4, "int32_t": 4}.get(m.group(1), 1)
                return "(%d)" % (esz * int(m.group(2)))
        raise Unsupported("sizeof in %s" % cx.fname)
    raise Unsupported("expression %s in %s" % (k, cx.fname))


def ptr_plus(n, cx):
    """pointer expression `arr + idx` / `arr` -> (arr name, idx term)"""
    n = strip(n)
    if n.get("kind") == "BinaryOperator" and n.get("opcode") == "+":
        a, b = n["inner"]
        arr, i0 = ptr_plus(a, cx)
        e = tr_int(b, cx)
        return arr, e if i0 == "(0)" else "(%s + %s)" % (i0, e)
    if n.get("kind") in ("DeclRefExpr", "MemberExpr"):
        return lvalue_name(n, cx), "(0)"
    raise Unsupported("pointer expression %s in %s" % (n.get("kind"), cx.fname))


def tr_bool(n, cx):
    """translate an expression used as a condition to a Gallina bool"""
    k = n.get("kind")
    if k == "ParenExpr":
        return tr_bool(n["inner"][0], cx)
    if k in ("ImplicitCastExpr", "DeclRefExpr") and ctype(n)[0] == "p":
        inner = strip(n)
        if inner.get("kind") == "DeclRefExpr" and inner["referencedDecl"]["name"] in cx.ptr_params:
            return "true"     # pointer parameters are assumed non-null
        raise Unsupported("pointer test in %s" % cx.fname)
    if k in ("ImplicitCastExpr", "CStyleCastExpr") and n.get("castKind") in ("LValueToRValue", "NoOp", "IntegralToBoolean"):
        if n.get("castKind") == "LValueToRValue":
            return "(negb (%s =? 0))" % tr_int(n, cx)
        return tr_bool(n["inner"][0], cx)
    if k in ("ImplicitCastExpr", "CStyleCastExpr") and n.get("castKind") == "PointerToBoolean":
        inner = strip(n["inner"][0])
        if inner.get("kind") == "DeclRefExpr" and inner["referencedDecl"]["name"] in cx.ptr_params:
            return "true"     # pointer parameters are assumed non-null
        raise Unsupported("pointer test in %s" % cx.fname)
    if k in ("ImplicitCastExpr", "CStyleCastExpr") and n.get("castKind") == "IntegralCast":
        st = strip(n)
        if st.get("kind") in ("BinaryOperator", "UnaryOperator") and st.get("opcode") in ("<", "<=", ">", ">=", "==", "!=", "&&", "||", "!") \
                and fits(("u", 1), ctype(n)):
            return tr_bool(st, cx)
    if k == "UnaryOperator" and n["opcode"] == "!":
        return "(negb %s)" % tr_bool(n["inner"][0], cx)
    if k == "BinaryOperator":
        op = n["opcode"]
        a, b = n["inner"]
        if op == "&&":
            return "(%s && %s)" % (tr_bool(a, cx), tr_bool(b, cx))
        if op == "||":
            return "(%s || %s)" % (tr_bool(a, cx), tr_bool(b, cx))
        m = {"<": "<?", "<=": "<=?", ">": ">?", ">=": ">=?", "==": "=?"}
        if op in m:
            return "(%s %s %s)" % (tr_int(a, cx), m[op], tr_int(b, cx))
        if op == "!=":
            return "(negb (%s =? %s))" % (tr_int(a, cx), tr_int(b, cx))
    if k == "ConditionalOperator":
        c, a, b = n["inner"]
        return "(if %s then %s else %s)" % (tr_bool(c, cx), tr_bool(a, cx), tr_bool(b, cx))
    return "(negb (%s =? 0))" % tr_int(n, cx)


# ------------------------------------------------------------------ statements

def is_log_call(n):
    """a call through adfEnv.wFct / eFct / vFct (with or without explicit deref), or (void) expression"""
    n = strip(n)
    if n.get("kind") == "CallExpr":
        callee = strip(n["inner"][0])
        while callee.get("kind") == "UnaryOperator" and callee.get("opcode") == "*":
            callee = strip(callee["inner"][0])
        if callee.get("kind") == "MemberExpr" and callee.get("name") in LOG_CALLEES:
            return True
        if callee.get("kind") == "DeclRefExpr" and callee["referencedDecl"]["name"] in ("printf", "fprintf", "puts", "fflush"):
            return True
    if n.get("kind") == "CStyleCastExpr" and n.get("castKind") == "ToVoid":
        return True
    return False


def assigned_vars(stmts, cx):
    """set of scalar/array variable names assigned in the statements (including nested)"""
    out = []

    def add(x):
        if x not in out:
            out.append(x)

    def expr(n):
        k = n.get("kind")
        if k in ("BinaryOperator", "CompoundAssignOperator") and (n["opcode"] == "=" or n["opcode"].endswith("=") and n["opcode"] not in ("==", "!=", "<=", ">=")):
            lhs = n["inner"][0]
            if is_array_access(lhs):
                add(array_parts(lhs, cx)[0])
            else:
                add(lvalue_name(lhs, cx))
            expr(n["inner"][1])
        elif k == "UnaryOperator" and n["opcode"] in ("++", "--"):
            lhs = n["inner"][0]
            if is_array_access(lhs):
                add(array_parts(lhs, cx)[0])
            else:
                add(lvalue_name(lhs, cx))
        elif k == "CallExpr" and strip(n["inner"][0]).get("referencedDecl", {}).get("name") in ("swLong", "swShort", "memcpy"):
            try:
                add(ptr_plus(n["inner"][1], Ctx(cx.fname))[0])
            except Unsupported:
                pass
        else:
            for c in n.get("inner", []):
                if isinstance(c, dict) and c:
                    expr(c)

    def stmt(s):
        k = s.get("kind")
        if k == "DeclStmt":
            for d in s["inner"]:
                for c in d.get("inner", []):
                    expr(c)
            return
        if not (k or "").endswith("Stmt"):
            expr(s)
            return
        for c in s.get("inner", []):
            if isinstance(c, dict) and c:
                if c.get("kind", "").endswith("Stmt"):
                    stmt(c)
                else:
                    expr(c)

    for s in stmts:
        stmt(s)
    return out


def declared_vars(stmts):
    out = []
    for s in stmts:
        if s.get("kind") == "DeclStmt":
            for d in s["inner"]:
                out.append(d["name"])
        elif s.get("kind") in ("CompoundStmt",):
            pass
    return out


def contains_return(s):
    if not isinstance(s, dict):
        return False
    if s.get("kind") == "ReturnStmt":
        return True
    return any(contains_return(c) for c in s.get("inner", []))


def tuple_of(vs):
    if not vs:
        return "tt"
    if len(vs) == 1:
        return vs[0]
    return "(" + ", ".join(vs) + ")"


def mpat_of(vs):
    if not vs:
        return "_"
    if len(vs) == 1:
        return vs[0]
    return "(" + ", ".join(vs) + ")"


def pat_of(vs):
    if not vs:
        return "_"
    if len(vs) == 1:
        return vs[0]
    return "'(" + ", ".join(vs) + ")"


class FnTr:
    def __init__(self, cx, ret_builder):
        self.cx = cx
        self.ret = ret_builder      # function(expr or None) -> Gallina term for the function result

    def assign(self, lhs, rhs_term, k):
        cx = self.cx
        if is_array_access(lhs):
            arr, idx = array_parts(lhs, cx)
            cx.arrays.add(arr)
            i = tr_int(idx, cx)
            t = "(updZ %s %s %s)" % (cx.use(arr), i, rhs_term)
            cx.bound.add(arr)
            return "let %s := %s in\n%s" % (arr, t, k())
        nm = lvalue_name(lhs, cx)
        cx.bound.add(nm)
        return "let %s := %s in\n%s" % (nm, rhs_term, k())

    def expr_stmt(self, n, k):
        """an expression evaluated for its side effects"""
        cx = self.cx
        n0 = n
        while n.get("kind") == "ParenExpr":
            n = n["inner"][0]
        kd = n.get("kind")
        if is_log_call(n) or kd == "NullStmt":
            return k()
        if kd == "CallExpr":
            callee = strip(n["inner"][0])
            args = n["inner"][1:]
            nm = callee.get("referencedDecl", {}).get("name") if callee.get("kind") == "DeclRefExpr" else None
            if nm in ("swLong", "swShort"):
                # big-endian store into a byte buffer: buf := put_be32 buf idx (value mod 2^32)
                arr, idx = ptr_plus(args[0], cx)
                v = tr_int(args[1], cx)
                cx.arrays.add(arr)
                t = "(%s %s %s %s)" % ("put_be32" if nm == "swLong" else "put_be16", cx.use(arr), idx, v)
                cx.bound.add(arr)
                return "let %s := %s in\n%s" % (arr, t, k())
            if nm == "memcpy":
                darr, didx = ptr_plus(args[0], cx)
                sarr, sidx = ptr_plus(args[1], cx)
                cnt = tr_int(args[2], cx)
                cx.arrays.add(darr)
                cx.arrays.add(sarr)
                t = "(blit %s %s (subZ %s %s %s))" % (cx.use(darr), didx, cx.use(sarr), sidx, cnt)
                cx.bound.add(darr)
                return "let %s := %s in\n%s" % (darr, t, k())
        if kd == "BinaryOperator" and n["opcode"] == "=":
            lhs, rhs = n["inner"]
            # chained assignment a = b = e
            r = rhs
            while r.get("kind") == "ParenExpr":
                r = r["inner"][0]
            if r.get("kind") == "BinaryOperator" and r["opcode"] == "=":
                inner_lhs = r["inner"][0]
                return self.expr_stmt(r, lambda: self.assign(lhs, self.read_lvalue(inner_lhs), k))
            return self.assign(lhs, self.coerce(rhs, lhs), k)
        if kd == "CompoundAssignOperator" or (kd == "BinaryOperator" and n["opcode"] in ("+=", "-=", "*=", "/=", "%=", "&=", "|=", "^=", "<<=", ">>=")):
            lhs, rhs = n["inner"]
            op = n["opcode"][:-1]
            ty = ctype(lhs)
            a = self.read_lvalue(lhs)
            b = tr_int(rhs, cx)
            u = ty[0] == "u"
            if op in ("+", "-", "*"):
                e = "(%s %s %s)" % (a, op, b)
            elif op == "/":
                e = "(%s / %s)" % (a, b) if u else "(Z.quot %s %s)" % (a, b)
            elif op == "%":
                e = "(%s mod %s)" % (a, b) if u else "(Z.rem %s %s)" % (a, b)
            elif op == "&":
                e = "(Z.land %s %s)" % (a, b)
            elif op == "|":
                e = "(Z.lor %s %s)" % (a, b)
            elif op == "^":
                e = "(Z.lxor %s %s)" % (a, b)
            else:
                raise Unsupported("compound %s in %s" % (op, cx.fname))
            if u or ty[1] < 32:
                e = "(%s %s)" % (cast_fn(ty), e)
            return self.assign(lhs, e, k)
        if kd == "UnaryOperator" and n["opcode"] in ("++", "--"):
            lhs = n["inner"][0]
            ty = ctype(lhs)
            a = self.read_lvalue(lhs)
            e = "(%s %s 1)" % (a, "+" if n["opcode"] == "++" else "-")
            if ty[0] == "u" or ty[1] < 32:
                e = "(%s %s)" % (cast_fn(ty), e)
            return self.assign(lhs, e, k)
        raise Unsupported("expression statement %s in %s" % (kd, cx.fname))

    def read_lvalue(self, lhs):
        cx = self.cx
        if is_array_access(lhs):
            arr, idx = array_parts(lhs, cx)
            return "(nthZ %s %s)" % (cx.use(arr), tr_int(idx, cx))
        return cx.use(lvalue_name(lhs, cx))

    def coerce(self, rhs, lhs):
        """value of rhs converted to the type of lhs (clang inserts the implicit cast already)"""
        return tr_int(rhs, self.cx)

    def block(self, stmts, k):
        """translate a statement list; k() yields the continuation term"""
        if not stmts:
            return k()
        s, rest = stmts[0], stmts[1:]
        return self.stmt(s, lambda: self.block(rest, k))

    def stmt(self, s, k):
        cx = self.cx
        kd = s.get("kind")
        if kd == "CompoundStmt":
            return self.block(s.get("inner", []), k)
        if kd == "NullStmt":
            return k()
        if kd == "DeclStmt":
            decls = s["inner"]

            def go(i):
                if i == len(decls):
                    return k()
                d = decls[i]
                if d.get("kind") != "VarDecl":
                    return go(i + 1)
                nm = d["name"]
                if d.get("storageClass") in ("static", "extern"):
                    raise Unsupported("local %s has storage class %s (state shared between calls) in %s" % (nm, d.get("storageClass"), cx.fname))
                init = [c for c in d.get("inner", []) if isinstance(c, dict) and c.get("kind") not in (None, "FullComment")]
                if not init:
                    # uninitialised local: bind to 0 so that a read-before-write is visible as a constant
                    cx.bound.add(nm)
                    return "let %s := (0) in (* uninitialised *)\n%s" % (nm, go(i + 1))
                e0 = init[0]
                if e0.get("kind") == "InitListExpr":
                    vals = [tr_int(x, cx) for x in e0.get("inner", [])]
                    cx.arrays.add(nm)
                    cx.bound.add(nm)
                    return "let %s := [%s] in\n%s" % (nm, "; ".join(vals), go(i + 1))
                e = tr_int(e0, cx)
                cx.bound.add(nm)
                return "let %s := %s in\n%s" % (nm, e, go(i + 1))
            return go(0)
        if kd == "ReturnStmt":
            inner = [c for c in s.get("inner", []) if isinstance(c, dict) and c]
            return self.ret(inner[0] if inner else None)
        if kd == "IfStmt":
            parts = [c for c in s["inner"]]
            cond, then = parts[0], parts[1]
            els = parts[2] if len(parts) > 2 else None
            if is_log_only(then) and (els is None or is_log_only(els)):
                return k()
            if cond_is_env(cond):
                return k()
            c = tr_bool(cond, cx)
            if contains_return(then) or (els is not None and contains_return(els)):
                saved = set(cx.bound)
                t1 = self.stmt(then, k)
                cx.bound = set(saved)
                t2 = self.stmt(els, k) if els is not None else k()
                cx.bound = saved
                return "if %s then (\n%s\n) else (\n%s\n)" % (c, t1, t2)
            av = assigned_vars([then] + ([els] if els is not None else []), cx)
            loc = set(declared_vars(then.get("inner", []) if then.get("kind") == "CompoundStmt" else [then]))
            if els is not None:
                loc |= set(declared_vars(els.get("inner", []) if els.get("kind") == "CompoundStmt" else [els]))
            av = [v for v in av if v not in loc]
            for v in av:
                cx.use(v)
            saved = set(cx.bound)
            def has_loop_in(n):
                if not isinstance(n, dict):
                    return False
                if n.get("kind") in ("WhileStmt", "ForStmt", "DoStmt"):
                    return True
                return any(has_loop_in(x) for x in n.get("inner", []))
            opt = has_loop_in(then) or has_loop_in(els)
            fin = (lambda: "Some " + tuple_of(av)) if opt else (lambda: tuple_of(av))
            t1 = self.stmt(then, fin)
            cx.bound = set(saved)
            t2 = self.stmt(els, fin) if els is not None else fin()
            cx.bound = saved | set(av)
            if opt:
                return "match (if %s then (\n%s\n) else (\n%s\n)) with\n| None => None\n| Some %s =>\n%s\nend" % (c, t1, t2, mpat_of(av), k())
            return "let %s := (if %s then (\n%s\n) else (\n%s\n)) in\n%s" % (pat_of(av), c, t1, t2, k())
        if kd in ("WhileStmt", "ForStmt"):
            cx.has_loop = True
            if kd == "ForStmt":
                init, _, cond, inc, body = s["inner"]
            else:
                cond, body = s["inner"]
                init, inc = None, None
            if contains_return(body):
                raise Unsupported("return inside a loop in %s" % cx.fname)

            def loop():
                bstm = [body] + ([inc] if inc else [])
                av = assigned_vars(bstm, cx)
                loc = set(declared_vars(body.get("inner", []) if body.get("kind") == "CompoundStmt" else [body]))
                av = [v for v in av if v not in loc]
                for v in av:
                    cx.use(v)
                saved = set(cx.bound)
                cx.bound |= set(av)
                c = tr_bool(cond, cx) if cond else "true"

                def after_body():
                    if inc:
                        return self.expr_stmt(inc, lambda: tuple_of(av))
                    return tuple_of(av)
                b = self.stmt(body, after_body)
                cx.bound = saved | set(av)
                return ("match while_ fuel (fun %s => %s) (fun %s =>\n%s) %s with\n| None => None\n| Some %s =>\n%s\nend"
                        % (pat_of(av), c, pat_of(av), b, tuple_of(av), mpat_of(av), k()))
            if init and isinstance(init, dict) and init.get("kind"):
                if init.get("kind") == "DeclStmt":
                    return self.stmt(init, loop)
                return self.expr_stmt(init, loop)
            return loop()
        if kd in ("BinaryOperator", "UnaryOperator", "CompoundAssignOperator", "CallExpr", "ParenExpr", "CStyleCastExpr", "ImplicitCastExpr"):
            return self.expr_stmt(s, k)
        raise Unsupported("statement %s in %s" % (kd, cx.fname))


def is_log_only(s):
    if s is None:
        return True
    if s.get("kind") == "CompoundStmt":
        return all(is_log_only(c) for c in s.get("inner", []))
    if s.get("kind") == "NullStmt":
        return True
    return is_log_call(s)


def cond_is_env(n):
    n = strip(n)
    if n.get("kind") == "MemberExpr":
        b = strip(n["inner"][0])
        return b.get("kind") == "DeclRefExpr" and b["referencedDecl"]["name"] == "adfEnv"
    return False


# ------------------------------------------------------------------ whole-function translation

ENUMS = {}


def load_enums():
    """RETCODE values and #define constants are read from the headers"""
    src = open(os.path.join(REPO, "src", "adf_err.h")).read()
    body = src[src.index("typedef enum"):src.index("} RETCODE")]
    for m in re.finditer(r"(RC_\w+)\s*=\s*([^,/\n]+)", body):
        v = m.group(2).strip()
        ENUMS[m.group(1)] = str(eval(v))


def translate_function(path, fn, gname=None, extra=(), arrays=(), pure=True, strings=(), extra_outs=()):
    d = find_function(path, fn, extra)
    cx = Ctx(fn)
    params = [c for c in d["inner"] if c.get("kind") == "ParmVarDecl"]
    body = [c for c in d["inner"] if c.get("kind") == "CompoundStmt"][0]
    rty = d["type"]["qualType"].split("(")[0].strip()
    pnames = []
    for p in params:
        t = ctype(p)
        if t[0] == "p":
            cx.ptr_params.add(p["name"])
        pnames.append((p["name"], t))
    for a in arrays:
        cx.arrays.add(a)

    outs = []

    def ret(e):
        vals = []
        if rty != "void":
            vals.append(tr_int(e, cx) if e is not None else "(0)")
        for o in outs:
            vals.append(cx.use(o))
        t = tuple_of(vals)
        return "Some %s" % t if cx.has_loop else t

    # discover output parameters: pointer params assigned through *p
    av = assigned_vars([body], cx)
    for p, t in pnames:
        if t[0] == "p" and (p + "_v") in av:
            outs.append(p + "_v")
    # buffers and struct fields written through pointer parameters that the caller wants back (codecs)
    for o in extra_outs:
        outs.append(o)
    cx.outs = outs
    tr = FnTr(cx, ret)
    # does the function contain a loop? (needed before generating returns)
    def has_loop(n):
        if not isinstance(n, dict):
            return False
        if n.get("kind") in ("WhileStmt", "ForStmt", "DoStmt"):
            return True
        return any(has_loop(c) for c in n.get("inner", []))
    cx.has_loop = has_loop(body)
    term = tr.stmt(body, lambda: ret(None))
    # parameters: C parameters in order (scalars by name; pointers/structs by their flattened uses, sorted)
    plist = []
    free = list(cx.free)
    for p, t in pnames:
        if t[0] in ("s", "u"):
            plist.append(p)   # always a parameter even if unused (stable arity)
        else:
            derived = sorted(v for v in free if v == p or v.startswith(p + "_"))
            plist.extend(derived)
    for v in free:
        if v not in plist:
            raise Unsupported("free variable %s in %s (global state?)" % (v, fn))
    gname = gname or ("c_" + fn)
    sig = " ".join("(%s : %s)" % (p, "list Z" if p in cx.arrays else "Z") for p in plist)
    if cx.has_loop:
        sig = "(fuel : nat) " + sig
    text = "Definition %s %s :=\n%s.\n" % (gname, sig, term)
    PURE_CALLS[fn] = gname if not cx.has_loop else None
    if cx.has_loop:
        PURE_CALLS.pop(fn)
    return {"name": gname, "c_name": fn, "params": plist, "arrays": sorted(cx.arrays & set(plist)), "loop": cx.has_loop,
            "outs": outs, "list_outs": [o for o in outs if o in cx.arrays], "ret": rty, "text": text}


# ------------------------------------------------------------------ slices

def find_stmts(n, pred, acc):
    if not isinstance(n, dict):
        return
    if pred(n):
        acc.append(n)
    for c in n.get("inner", []):
        find_stmts(c, pred, acc)


def translate_lvalue_slice(path, fn, gname, targets, extra=()):
    """Keep only the statements (at any depth, in source order, with their enclosing `if`s) that assign one of
    the target lvalues (given as flattened names, e.g. vol_firstBlock); everything they read becomes a parameter;
    the result is the tuple of the targets in the given order."""
    d = find_function(path, fn, extra)
    cx = Ctx(fn)
    for p in d["inner"]:
        if p.get("kind") == "ParmVarDecl" and ctype(p)[0] == "p":
            cx.ptr_params.add(p["name"])
    body = [c for c in d["inner"] if c.get("kind") == "CompoundStmt"][0]

    def assigns_target(s):
        try:
            return any(v in targets for v in assigned_vars([s], cx))
        except Unsupported:
            return False

    def keep(stmts):
        out = []
        for s in stmts:
            k = s.get("kind")
            if k == "IfStmt" and assigns_target(s):
                parts = s["inner"]
                direct = False
                # keep the if when a branch assigns a target
                new = dict(s)
                ni = [parts[0]]
                for br in parts[1:]:
                    sub = keep(br.get("inner", []) if br.get("kind") == "CompoundStmt" else [br])
                    ni.append({"kind": "CompoundStmt", "inner": sub})
                new["inner"] = ni
                out.append(new)
            elif k in ("WhileStmt", "ForStmt", "DoStmt", "CompoundStmt") and assigns_target(s):
                # take the assignments out of the loop body (one iteration's worth, no loop-carried state)
                bodyn = s["inner"][-1] if k != "DoStmt" else s["inner"][0]
                out.extend(keep(bodyn.get("inner", []) if bodyn.get("kind") == "CompoundStmt" else [bodyn]))
            elif k in ("BinaryOperator", "UnaryOperator", "CompoundAssignOperator") and assigns_target(s):
                out.append(s)
            elif k == "DeclStmt":
                # keep declarations of locals with pure initialisers (they may feed the targets)
                try:
                    c2 = Ctx(fn)
                    c2.ptr_params = cx.ptr_params
                    for dd in s["inner"]:
                        for c in dd.get("inner", []):
                            if isinstance(c, dict) and c.get("kind"):
                                tr_int(c, c2)
                    out.append(s)
                except Unsupported:
                    pass
        return out

    kept = keep(body.get("inner", []))
    if not kept:
        raise Unsupported("slice %s: no assignment to %s found" % (fn, targets))

    # drop declarations that the kept assignments do not (transitively) read
    def refs(n, acc):
        if not isinstance(n, dict):
            return
        if n.get("kind") == "DeclRefExpr":
            acc.add(n["referencedDecl"]["name"])
        for c in n.get("inner", []):
            refs(c, acc)
    needed = set()
    for s in kept:
        if s.get("kind") != "DeclStmt":
            refs(s, needed)
    changed = True
    while changed:
        changed = False
        for s in kept:
            if s.get("kind") == "DeclStmt" and any(dd.get("name") in needed for dd in s["inner"]):
                before = len(needed)
                refs(s, needed)
                changed = changed or len(needed) != before
    kept = [s for s in kept if s.get("kind") != "DeclStmt" or any(dd.get("name") in needed for dd in s["inner"])]

    def ret(_):
        return tuple_of([cx.use(t) for t in targets])
    tr = FnTr(cx, ret)
    term = tr.block(kept, lambda: ret(None))
    plist = sorted(cx.free)
    sig = " ".join("(%s : Z)" % p for p in plist)
    text = "Definition %s %s :=\n%s.\n" % (gname, sig, term)
    return {"name": gname, "c_name": fn, "params": plist, "arrays": [], "loop": False, "outs": targets, "ret": "slice", "text": text}


def translate_locals_slice(path, fn, gname, names, extra=()):
    """translate the initialisers of the named local variables (declared at top level, pure) -> tuple"""
    d = find_function(path, fn, extra)
    cx = Ctx(fn)
    body = [c for c in d["inner"] if c.get("kind") == "CompoundStmt"][0]
    kept = []
    for s in body["inner"]:
        if s.get("kind") == "DeclStmt" and any(dd.get("name") in names for dd in s["inner"]):
            kept.append(s)
    if len(kept) == 0:
        raise Unsupported("locals slice %s: %s not found" % (fn, names))

    def ret(_):
        return tuple_of([cx.use(t) for t in names])
    tr = FnTr(cx, ret)
    term = tr.block(kept, lambda: ret(None))
    plist = sorted(cx.free)
    sig = " ".join("(%s : Z)" % p for p in plist)
    text = "Definition %s %s :=\n%s.\n" % (gname, sig, term)
    return {"name": gname, "c_name": fn, "params": plist, "arrays": [], "loop": False, "outs": names, "ret": "slice", "text": text}


SKIPPED_GUARDS = []


def early_exit_only(s):
    """a statement (block) that only logs and returns"""
    if s.get("kind") == "ReturnStmt":
        return True
    if s.get("kind") == "CompoundStmt":
        st = [c for c in s.get("inner", []) if isinstance(c, dict) and c]
        return bool(st) and st[-1].get("kind") == "ReturnStmt" and all(is_log_only(c) or has_call(c, "wFct") or c.get("kind") == "CallExpr" for c in st[:-1])
    return False


def translate_cell_slice(path, fn, gname, member):
    """functions that read / update one element of an array reached through pointers (vol->bitmapTable[b]->map[i]):
       the element is the parameter `cell`; the result is the value returned, or the value stored into the element."""
    d = find_function(path, fn)
    cx = Ctx(fn)
    cx.cell = member
    for p_ in d["inner"]:
        if p_.get("kind") == "ParmVarDecl" and ctype(p_)[0] == "p":
            cx.ptr_params.add(p_["name"])
    body = [c for c in d["inner"] if c.get("kind") == "CompoundStmt"][0]
    kept = []
    result = None
    for s_ in body["inner"]:
        k = s_.get("kind")
        if has_call(s_, "__assert_fail"):
            continue
        if k == "DeclStmt":
            kept.append(s_)
        elif k == "BinaryOperator" and s_.get("opcode") == "=":
            lhs = s_["inner"][0]
            if is_cell(lhs, member):
                if result is not None:
                    raise Unsupported("cell slice %s: element stored twice" % fn)
                result = s_["inner"][1]
            elif is_array_access(lhs) or strip(lhs).get("kind") == "MemberExpr":
                continue                      # bookkeeping on other fields (dirty flags)
            else:
                kept.append(s_)
        elif k == "ReturnStmt":
            inner = [c for c in s_.get("inner", []) if isinstance(c, dict) and c]
            if inner:
                result = inner[0]
        elif k == "IfStmt" and len(s_["inner"]) == 2 and result is None and early_exit_only(s_["inner"][1]):
            # an early exit in front of the element access (a refusal of out-of-range arguments: logs and returns): the slice
            # describes the access that happens when the call is not refused; the refusal itself is listed in meta.json
            SKIPPED_GUARDS.append(fn)
            continue
        else:
            raise Unsupported("cell slice %s: statement %s" % (fn, k))
    if result is None:
        raise Unsupported("cell slice %s: no result" % fn)

    def ret(_):
        return tr_int(result, cx)
    tr = FnTr(cx, ret)
    term = tr.block(kept, lambda: ret(None))
    plist = sorted(cx.free)
    sig = " ".join("(%s : Z)" % p_ for p_ in plist)
    text = "Definition %s %s :=\n%s.\n" % (gname, sig, term)
    return {"name": gname, "c_name": fn, "params": plist, "arrays": [], "loop": False, "outs": [], "ret": "int", "text": text}


def translate_decision(path, fn, gname, markers):
    """decision slice: which of the function's top-level branches is taken, as a function of the scalars the branch
    conditions read.  `markers` names, per branch, a call that occurs in it (e.g. the allocator it uses); the slice walks the
    if / else-if structure at the top of the function body: result k = index of the first branch (in source order) whose
    condition path holds, the conditions translated as they stand."""
    d = find_function(path, fn)
    cx = Ctx(fn)
    for p_ in d["inner"]:
        if p_.get("kind") == "ParmVarDecl" and ctype(p_)[0] == "p":
            cx.ptr_params.add(p_["name"])
    body = [c for c in d["inner"] if c.get("kind") == "CompoundStmt"][0]
    top = [s_ for s_ in body["inner"] if s_.get("kind") == "IfStmt"]
    if not top:
        raise Unsupported("decision %s: no top-level if" % fn)
    first = top[0]
    cond0, then0 = first["inner"][0], first["inner"][1]
    if len(first["inner"]) < 3:
        raise Unsupported("decision %s: first if has no else" % fn)
    else0 = first["inner"][2]
    if not has_call(then0, markers[0]):
        raise Unsupported("decision %s: branch 0 does not call %s" % (fn, markers[0]))
    inner_ifs = [s_ for s_ in (else0.get("inner", []) if else0.get("kind") == "CompoundStmt" else [else0]) if s_.get("kind") == "IfStmt"]
    inner = [s_ for s_ in inner_ifs if has_call(s_["inner"][1], markers[1])]
    if len(inner) != 1:
        raise Unsupported("decision %s: expected one nested branch calling %s" % (fn, markers[1]))
    cond1 = inner[0]["inner"][0]
    term = "if %s then (0) else (if %s then (1) else (2))" % (tr_bool(cond0, cx), tr_bool(cond1, cx))
    plist = sorted(cx.free)
    sig = " ".join("(%s : Z)" % p_ for p_ in plist)
    text = "Definition %s %s : Z :=\n%s.\n" % (gname, sig, term)
    return {"name": gname, "c_name": fn, "params": plist, "arrays": [], "loop": False, "outs": [], "ret": "int", "text": text}


def translate_condition(path, fn, gname, then_marker, else_marker):
    """condition slice: the condition of the (unique) if statement of the function whose else-branch calls `else_marker` (and whose
    then-branch calls `then_marker`), as a function of the scalars it reads: 1 when the then-branch is taken, else 0."""
    d = find_function(path, fn)
    cx = Ctx(fn)
    for p_ in d["inner"]:
        if p_.get("kind") == "ParmVarDecl" and ctype(p_)[0] == "p":
            cx.ptr_params.add(p_["name"])
    found = []
    find_stmts(d, lambda n: n.get("kind") == "IfStmt" and len(n.get("inner", [])) == 3 and has_call(n["inner"][1], then_marker)
               and has_call(n["inner"][2], else_marker) and not has_call(n["inner"][1], else_marker), found)
    if len(found) != 1:
        raise Unsupported("condition %s: %d candidate if statements" % (fn, len(found)))
    term = "b2z %s" % tr_bool(found[0]["inner"][0], cx)
    plist = sorted(cx.free)
    sig = " ".join("(%s : Z)" % p_ for p_ in plist)
    text = "Definition %s %s : Z :=\n%s.\n" % (gname, sig, term)
    return {"name": gname, "c_name": fn, "params": plist, "arrays": [], "loop": False, "outs": [], "ret": "int", "text": text}


def translate_guard(path, fn, gname, devcall, extra=()):
    """I/O funnel: translate the function up to its single call of `devcall`; the result is
         GRet rc        (returned before any device access)
       | GDev pSect     (device accessed at physical sector pSect; afterwards only logging and `return rc`)"""
    d = find_function(path, fn, extra)
    cx = Ctx(fn)
    for p in d["inner"]:
        if p.get("kind") == "ParmVarDecl" and ctype(p)[0] == "p":
            cx.ptr_params.add(p["name"])
    body = [c for c in d["inner"] if c.get("kind") == "CompoundStmt"][0]
    stmts = body["inner"]
    # locate the device call: DeclStmt `RETCODE rc = devcall(...)` or `return devcall(...)`
    idx = None
    for i, s in enumerate(stmts):
        calls = []
        find_stmts(s, lambda n: n.get("kind") == "CallExpr" and strip(n["inner"][0]).get("referencedDecl", {}).get("name") == devcall, calls)
        if calls:
            if idx is not None:
                raise Unsupported("guard %s: more than one call of %s" % (fn, devcall))
            idx = i
            call = calls[0]
    if idx is None:
        raise Unsupported("guard %s: no call of %s" % (fn, devcall))
    s = stmts[idx]
    rcname = None
    if s.get("kind") == "DeclStmt":
        rcname = s["inner"][0]["name"]
    elif s.get("kind") != "ReturnStmt":
        raise Unsupported("guard %s: device call in unexpected statement %s" % (fn, s.get("kind")))
    # what follows must be logging and `return rc`
    for t in stmts[idx + 1:]:
        if t.get("kind") == "IfStmt" and is_log_only(t["inner"][1]):
            continue
        if t.get("kind") == "ReturnStmt":
            e = strip(t["inner"][0])
            if e.get("kind") == "DeclRefExpr" and e["referencedDecl"]["name"] == rcname:
                continue
        raise Unsupported("guard %s: unexpected statement after the device call: %s" % (fn, t.get("kind")))
    # no other call with side effects before: the statement translator rejects unknown calls
    sect_arg = call["inner"][2]
    size_arg = call["inner"][3]

    def ret(e):
        return "GRet %s" % tr_int(e, cx)
    tr = FnTr(cx, ret)
    term = tr.block(stmts[:idx], lambda: "GDev %s %s" % (tr_int(sect_arg, cx), tr_int(size_arg, cx)))
    plist = sorted(cx.free)
    sig = " ".join("(%s : Z)" % p for p in plist)
    text = "Definition %s %s : guard_result :=\n%s.\n" % (gname, sig, term)
    return {"name": gname, "c_name": fn, "params": plist, "arrays": [], "loop": False, "outs": [], "ret": "guard", "text": text}


def translate_ro_writer(path, fn, gname, devcall):
    """device-absolute writers of adf_dev_hd.c: the read-only test must precede the single device write.
       Result: GRet rc when dev->readOnly, else GDev sector size."""
    d = find_function(path, fn)
    cx = Ctx(fn)
    for p in d["inner"]:
        if p.get("kind") == "ParmVarDecl" and ctype(p)[0] == "p":
            cx.ptr_params.add(p["name"])
    body = [c for c in d["inner"] if c.get("kind") == "CompoundStmt"][0]
    stmts = body["inner"]
    kept = []
    call = None
    for s in stmts:
        calls = []
        find_stmts(s, lambda n: n.get("kind") == "CallExpr" and strip(n["inner"][0]).get("referencedDecl", {}).get("name") == devcall, calls)
        if calls:
            if s.get("kind") != "ReturnStmt":
                raise Unsupported("writer %s: device call not in the final return" % fn)
            call = calls[0]
            break
        if s.get("kind") == "IfStmt" and contains_return(s):
            kept.append(s)
    if call is None:
        raise Unsupported("writer %s: no call of %s" % (fn, devcall))

    def ret(e):
        return "GRet %s" % tr_int(e, cx)
    tr = FnTr(cx, ret)
    term = tr.block(kept, lambda: "GDev %s %s" % (tr_int(call["inner"][2], cx), tr_int(call["inner"][3], cx)))
    plist = sorted(cx.free)
    sig = " ".join("(%s : Z)" % p for p in plist)
    text = "Definition %s %s : guard_result :=\n%s.\n" % (gname, sig, term)
    return {"name": gname, "c_name": fn, "params": plist, "arrays": [], "loop": False, "outs": [], "ret": "guard", "text": text}


# ------------------------------------------------------------------ constants, tables, layouts, call graph

def defines(header, names=None):
    out = {}
    src = open(os.path.join(REPO, "src", header)).read()
    for m in re.finditer(r"^#define\s+(\w+)\s+(.+?)\s*(?:/\*.*)?$", src, re.M):
        nm, v = m.group(1), m.group(2).strip()
        if "(" in nm:
            continue
        try:
            val = eval(v.replace("L", ""), {}, dict(out))
        except Exception:
            continue
        if isinstance(val, int):
            out[nm] = val
    return out


def table_values(path, name):
    d = find_var(path, name)

    def vals(n):
        n = strip(n)
        k = n.get("kind")
        if k == "InitListExpr":
            if "array_filler" in n:
                r = [vals(c) for c in n["array_filler"][1:]]
                m = re.search(r"\[(\d+)\]$", n.get("type", {}).get("qualType", ""))
                if m:
                    r += [0] * (int(m.group(1)) - len(r))
                return r
            return [vals(c) for c in n.get("inner", [])]
        if k == "IntegerLiteral":
            return int(n["value"])
        if k in ("ImplicitCastExpr", "CStyleCastExpr", "ConstantExpr"):
            return vals(n["inner"][0])
        if k == "ImplicitValueInitExpr":
            return 0
        if k == "UnaryOperator" and n["opcode"] == "-":
            return -vals(n["inner"][0])
        raise Unsupported("table %s: initialiser %s" % (name, k))
    init = [c for c in d["inner"] if c.get("kind") == "InitListExpr"][0]
    return vals(init)


def record_layouts(header_path, structs):
    """field offsets/sizes of the named structs, from clang -fdump-record-layouts"""
    src = "#include \"%s\"\n" % header_path
    for i, s in enumerate(structs):
        src += "int v%d = sizeof(struct %s);\n" % (i, s)
    r = subprocess.run(["clang", "-fsyntax-only", "-I" + os.path.join(REPO, "src"), "-Xclang", "-fdump-record-layouts", "-x", "c", "-"],
                       input=src, stdout=subprocess.PIPE, stderr=subprocess.PIPE, text=True)
    out = {}
    cur = None
    for line in r.stdout.splitlines():
        m = re.match(r"\s*0 \| struct (\w+)\s*$", line)
        if m:
            cur = m.group(1)
            out[cur] = {"fields": [], "size": None}
            continue
        if cur:
            m = re.match(r"\s*(\d+) \|\s{3}(?!\s)(.+?) (\w+)\s*$", line)
            if m:
                out[cur]["fields"].append((m.group(3), int(m.group(1)), m.group(2).strip()))
            m = re.match(r"\s*\| \[sizeof=(\d+)", line)
            if m:
                out[cur]["size"] = int(m.group(1))
                cur = None
    return out


DEVICE_PRIMS = ["adfReadBlockDev", "adfWriteBlockDev", "adfReadDumpSector", "adfWriteDumpSector",
                "adfNativeReadSector", "adfNativeWriteSector", "fread", "fwrite", "fseek"]


def call_graph_device_users():
    """functions of src/*.c that call a device-level primitive directly"""
    users = {}
    for f in sorted(os.listdir(os.path.join(REPO, "src"))):
        if not f.endswith(".c"):
            continue
        path = os.path.join(REPO, "src", f)
        r = subprocess.run(["clang", "-fsyntax-only", "-I" + os.path.join(REPO, "src"), "-Xclang", "-ast-dump=json", path],
                           stdout=subprocess.PIPE, stderr=subprocess.PIPE, text=True)
        try:
            tu = json.loads(r.stdout)
        except Exception as e:
            raise Unsupported("cannot parse AST of %s: %s" % (f, e))
        for d in tu.get("inner", []):
            if d.get("kind") != "FunctionDecl" or not any(c.get("kind") == "CompoundStmt" for c in d.get("inner", [])):
                continue
            loc = d.get("loc", {})
            if "includedFrom" in loc or "includedFrom" in loc.get("expansionLoc", {}) or "includedFrom" in loc.get("spellingLoc", {}):
                continue
            found = set()

            def walk(n):
                if not isinstance(n, dict):
                    return
                if n.get("kind") == "CallExpr":
                    c = strip(n["inner"][0])
                    while c.get("kind") == "UnaryOperator" and c.get("opcode") == "*":
                        c = strip(c["inner"][0])
                    nm = c.get("referencedDecl", {}).get("name") if c.get("kind") == "DeclRefExpr" else c.get("name")
                    if nm in DEVICE_PRIMS:
                        found.add(nm)
                for c in n.get("inner", []):
                    walk(c)
            walk(d)
            if found:
                users[d["name"]] = sorted(found)
    return users


# ------------------------------------------------------------------ driver

def coq_list(vs):
    return "[" + "; ".join("(%d)" % v for v in vs) + "]"


def coq_str(s):
    return '"' + s.replace('"', '""') + '"'


def main():
    os.makedirs(OUT, exist_ok=True)
    load_enums()
    src = lambda f: os.path.join(REPO, "src", f)
    status = {"ok": [], "failed": {}}
    fns = []

    def attempt(label, thunk):
        try:
            r = thunk()
            fns.append(r)
            status["ok"].append(label)
            return r
        except Unsupported as e:
            status["failed"][label] = str(e)
            return None
        except Exception as e:  # malformed AST etc.
            status["failed"][label] = "internal: %r" % (e,)
            return None

    # --- whole functions (order matters: callees first)
    attempt("adfIsLeap", lambda: translate_function(src("adf_util.c"), "adfIsLeap"))
    attempt("adfDays2Date", lambda: translate_function(src("adf_util.c"), "adfDays2Date"))
    attempt("adfTime2AmigaTime", lambda: translate_function(src("adf_util.c"), "adfTime2AmigaTime"))
    attempt("adfToUpper", lambda: translate_function(src("adf_dir.c"), "adfToUpper"))
    attempt("adfIntlToUpper", lambda: translate_function(src("adf_dir.c"), "adfIntlToUpper"))
    attempt("adfGetHashValue", lambda: translate_function(src("adf_dir.c"), "adfGetHashValue"))
    attempt("adfPos2DataBlock", lambda: translate_function(src("adf_file.c"), "adfPos2DataBlock"))
    for f in ("adfFilePos2datablockIndex", "adfFileSize2Datablocks", "adfFileDatablocks2Extblocks",
              "adfFileSize2Extblocks", "adfFileSize2Blocks"):
        attempt(f, lambda f=f: translate_function(src("adf_file.c"), f))
    attempt("adfFileRealSize", lambda: translate_function(src("adf_file_block.c"), "adfFileRealSize"))
    attempt("nBlock2bitmapSize", lambda: translate_function(src("adf_bitm.c"), "nBlock2bitmapSize"))
    attempt("isSectNumValid", lambda: translate_function(src("adf_vol.c"), "isSectNumValid"))
    attempt("adfDevType", lambda: translate_function(src("adf_dev.c"), "adfDevType"))
    attempt("adfNormalSum", lambda: translate_function(src("adf_raw.c"), "adfNormalSum"))
    attempt("adfFileCreateNextBlock.decision", lambda: translate_decision(src("adf_file.c"), "adfFileCreateNextBlock", "d_adfFileCreateNextBlock",
            ("adfGet1FreeBlock", "adfGetFreeBlocks")))
    attempt("adfAddInCache.fits", lambda: translate_condition(src("adf_cache.c"), "adfAddInCache", "d_adfAddInCache_fits", "adfPutCacheEntry", "adfGet1FreeBlock"))
    attempt("adfPutCacheEntry", lambda: translate_function(src("adf_cache.c"), "adfPutCacheEntry", extra_outs=("dirc_records",)))
    attempt("adfGetCacheEntry", lambda: translate_function(src("adf_cache.c"), "adfGetCacheEntry",
            extra_outs=("cEntry_header", "cEntry_size", "cEntry_protect", "cEntry_days", "cEntry_mins", "cEntry_ticks", "cEntry_type",
                        "cEntry_nLen", "cEntry_name", "cEntry_cLen", "cEntry_comm")))
    attempt("adfBootSum", lambda: translate_function(src("adf_raw.c"), "adfBootSum"))
    # --- I/O funnel guards
    attempt("adfReadBlock", lambda: translate_guard(src("adf_vol.c"), "adfReadBlock", "g_adfReadBlock", "adfReadBlockDev"))
    attempt("adfWriteBlock", lambda: translate_guard(src("adf_vol.c"), "adfWriteBlock", "g_adfWriteBlock", "adfWriteBlockDev"))
    for w in ("adfWriteRDSKblock", "adfWritePARTblock", "adfWriteFSHDblock", "adfWriteLSEGblock"):
        attempt(w, lambda w=w: translate_ro_writer(src("adf_dev_hd.c"), w, "g_" + w, "adfWriteBlockDev"))
    # --- slices
    attempt("adfMount.readOnly", lambda: translate_lvalue_slice(src("adf_vol.c"), "adfMount", "s_adfMount_readOnly", ["vol_readOnly"]))
    attempt("adfCreateVol.range", lambda: translate_lvalue_slice(src("adf_vol.c"), "adfCreateVol", "s_adfCreateVol_range",
                                                                ["vol_firstBlock", "vol_lastBlock", "vol_rootBlock"]))
    attempt("adfMountHd.range", lambda: translate_lvalue_slice(src("adf_dev_hd.c"), "adfMountHd", "s_adfMountHd_range",
                                                              ["vol_firstBlock", "vol_lastBlock", "vol_rootBlock"]))
    attempt("adfMountFlop.range", lambda: translate_lvalue_slice(src("adf_dev_flop.c"), "adfMountFlop", "s_adfMountFlop_range",
                                                                ["vol_firstBlock", "vol_lastBlock", "vol_rootBlock"]))
    attempt("adfGiveCurrentTime", lambda: translate_lvalue_slice(src("adf_util.c"), "adfGiveCurrentTime", "s_adfGiveCurrentTime",
                                                                ["r_year", "r_mon", "r_day", "r_hour", "r_min", "r_sec"]))
    for f in ("adfIsBlockFree", "adfSetBlockFree", "adfSetBlockUsed"):
        attempt(f + ".idx", lambda f=f: translate_locals_slice(src("adf_bitm.c"), f, "s_%s_idx" % f,
                                                               ["sectOfMap", "block", "indexInMap"]))

    attempt("adfEntry2CacheEntry.len", lambda: translate_lvalue_slice(src("adf_cache.c"), "adfEntry2CacheEntry", "s_adfEntry2CacheEntry_len", ["entryLen"]))
    attempt("adfPutCacheEntry.len", lambda: translate_lvalue_slice(src("adf_cache.c"), "adfPutCacheEntry", "s_adfPutCacheEntry_len", ["l"]))
    for f in ("adfIsBlockFree", "adfSetBlockFree", "adfSetBlockUsed"):
        attempt(f + ".val", lambda f=f: translate_cell_slice(src("adf_bitm.c"), f, "s_%s_val" % f, "map"))

    # --- constants and tables
    consts = {}
    for h in ("adf_blk.h", "adf_dev.h", "hd_blk.h", "adf_raw.h"):
        try:
            consts.update(defines(h))
        except Exception as e:
            status["failed"]["defines " + h] = repr(e)
    tables = {}
    try:
        tables["swapTable"] = table_values(src("adf_raw.c"), "swapTable")
        tables["bitMask"] = table_values(src("adf_vol.c"), "bitMask")
        status["ok"] += ["swapTable", "bitMask"]
    except Unsupported as e:
        status["failed"]["tables"] = str(e)
    structs = ["bBootBlock", "bRootBlock", "bEntryBlock", "bFileHeaderBlock", "bFileExtBlock", "bDirBlock",
               "bOFSDataBlock", "bBitmapBlock", "bBitmapExtBlock", "bLinkBlock", "bDirCacheBlock"]
    hdstructs = ["bRDSKblock", "bPARTblock", "bFSHDblock", "bLSEGblock"]
    lay = record_layouts(src("adf_blk.h"), structs)
    lay.update(record_layouts(src("hd_blk.h"), hdstructs))
    try:
        users = call_graph_device_users()
        status["ok"].append("funnel")
    except Unsupported as e:
        users = None
        status["failed"]["funnel"] = str(e)

    # --- write Generated/Leaf.v
    with KeepIfSame(os.path.join(OUT, "Leaf.v")) as f:
        f.write("(* GENERATED by tools/c2v.py from the repository working tree - do not edit, do not commit *)\n")
        f.write("From Coq Require Import ZArith List Bool.\nFrom ADF Require Import CPrelude Generated.Layout.\nImport ListNotations.\nLocal Open Scope Z_scope.\nLocal Open Scope bool_scope.\n\n")
        for r in fns:
            f.write("(* %s *)\n%s\n" % (r["c_name"], r["text"]))
    with KeepIfSame(os.path.join(OUT, "Layout.v")) as f:
        f.write("(* GENERATED by tools/c2v.py - do not edit, do not commit *)\n")
        f.write("From Coq Require Import ZArith List String.\nImport ListNotations.\nLocal Open Scope Z_scope.\nLocal Open Scope string_scope.\n\n")
        for k in sorted(consts):
            f.write("Definition K_%s : Z := (%d).\n" % (k, consts[k]))
        f.write("\n")
        for k in sorted(ENUMS):
            f.write("Definition %s : Z := (%s).\n" % (k, ENUMS[k]))
        f.write("\n")
        if "swapTable" in tables:
            rows = tables["swapTable"]
            f.write("Definition swapTable : list (list Z) :=\n  [ %s ].\n\n" % ";\n    ".join(coq_list(r) for r in rows))
        if "bitMask" in tables:
            f.write("Definition bitMask : list Z := %s.\n\n" % coq_list(tables["bitMask"]))
        for s in structs + hdstructs:
            if s in lay:
                f.write("Definition layout_%s : list (string * Z * string) :=\n  [ %s ].\n" %
                        (s, ";\n    ".join("(%s, (%d), %s)" % (coq_str(n), o, coq_str(t)) for n, o, t in lay[s]["fields"])))
                f.write("Definition sizeof_%s : Z := (%d).\n\n" % (s, lay[s]["size"] or 0))
        if users is not None:
            f.write("Definition device_users : list (string * list string) :=\n  [ %s ].\n" %
                    ";\n    ".join("(%s, [%s])" % (coq_str(k), "; ".join(coq_str(x) for x in users[k])) for k in sorted(users)))
    # --- extraction file and OCaml dispatch for the generated functions
    mods = ["CPrelude", "Generated.Leaf"]
    names = [r["name"] for r in fns]
    mt = os.path.join(VERIF, "coq", "Extract", "modules.txt")
    nt = os.path.join(VERIF, "coq", "Extract", "names.txt")
    if os.path.exists(mt):
        mods += [l.strip() for l in open(mt) if l.strip() and not l.startswith("#")]
    if os.path.exists(nt):
        names += [l.strip() for l in open(nt) if l.strip() and not l.startswith("#")]
    with KeepIfSame(os.path.join(OUT, "ExtractAll.v")) as f:
        f.write("(* GENERATED by tools/c2v.py *)\nFrom Coq Require Extraction ExtrOcamlBasic.\n")
        f.write("From ADF Require Import %s.\nExtraction Language OCaml.\n" % " ".join(mods))
        f.write("Extraction \"model.ml\" %s.\n" % " ".join(names))
    with KeepIfSame(os.path.join(OUT, "leaf_dispatch.ml")) as f:
        f.write("(* GENERATED by tools/c2v.py *)\nopen Zconv\n\nlet dispatch (fn : string) (iv : int list) (lv : int list list) (fuel : int) : string =\n  match fn with\n")
        for r in fns:
            args = []
            ii = 0
            li = 0
            for p_ in r["params"]:
                if p_ in r["arrays"]:
                    args.append("(zlist_of_ints (List.nth lv %d))" % li)
                    li += 1
                else:
                    args.append("(z_of_int (List.nth iv %d))" % ii)
                    ii += 1
            call = "Model.%s %s%s" % (r["name"], "(nat_of_int fuel) " if r["loop"] else "", " ".join(args))
            if r["ret"] == "guard":
                body = "(match %s with Model.GRet rc -> \"ret \" ^ zs rc | Model.GDev (s, sz) -> \"dev \" ^ zs s ^ \" \" ^ zs sz)" % call
            else:
                n = len(r["outs"]) + (0 if r["ret"] in ("void", "slice") else 1)
                vs = ["r%d" % i for i in range(n)]
                pat = vs[0]
                for v in vs[1:]:
                    pat = "(%s, %s)" % (pat, v)
                kinds = ([] if r["ret"] in ("void", "slice") else ["z"]) + ["l" if o in r.get("list_outs", []) else "z" for o in r["outs"]]
                show = " ^ \" \" ^ ".join(("hex_of_bytes (ints_of_zl %s)" if kd_ == "l" else "zs %s") % v for v, kd_ in zip(vs, kinds))
                if r["loop"]:
                    body = "(match %s with None -> \"outoffuel\" | Some %s -> %s)" % (call, pat, show)
                else:
                    body = "(let %s = %s in %s)" % (pat, call, show)
            f.write("  | \"%s\" -> %s\n" % (r["name"], body))
        f.write("  | _ -> \"unknown\"\n")
    meta = {"functions": [{k: v for k, v in r.items() if k != "text"} for r in fns], "status": status, "early_exits_outside_slices": sorted(set(SKIPPED_GUARDS)),
            "consts": consts, "enums": ENUMS}
    with open(os.path.join(OUT, "meta.json"), "w") as f:
        json.dump(meta, f, indent=1)
    for k, v in status["failed"].items():
        print("c2v: FAILED %s: %s" % (k, v))
    print("c2v: %d translated, %d failed" % (len(status["ok"]), len(status["failed"])))
    return 0


if __name__ == "__main__":
    sys.exit(main())

#!/bin/sh
# independent re-check of every compiled property module (and everything it depends on) with coqchk; prints the axiom summary.
# Not part of the registered checks (about 40 s, up to a few GB).  usage: tools/coqchk.sh  (after tools/coqmake.sh or a check run)
cd "$(dirname "$0")/../coq" || exit 2
mods=$(ls Props/*.v | sed 's/\.v$//; s/\//./; s/^/ADF./')
timeout 3000 coqchk -o -silent -Q . ADF $mods 2>&1 | tail -20

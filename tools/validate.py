#!/usr/bin/env python3
import json, sys, glob, os
import jsonschema
V = os.path.dirname(os.path.dirname(os.path.abspath(__file__)))
jsonschema.validate(json.load(open(V + '/MANIFEST.json')), json.load(open('/root/.vp/MANIFEST.schema.json')))
es = json.load(open('/root/.vp/EVIDENCE.schema.json'))
man = json.load(open(V + '/MANIFEST.json'))
cat = {c['property_id']: c['level_claimed']['category'] for c in man['checks']}
for f in sorted(glob.glob(V + '/evidence/*.json')):
    e = json.load(open(f))
    jsonschema.validate(e, es)
    assert e['level'] == cat.get(e['property_id']), (f, e['level'], cat.get(e['property_id']))
props = [json.loads(l)['id'] for l in open(V + '/properties.jsonl') if l.strip()]
na = [x['property_id'] if isinstance(x, dict) else x for x in man.get('not_applicable', [])]
assert sorted(set(cat) | set(na)) == sorted(props), 'every property is either claimed or not_applicable'
print('valid: MANIFEST +', len(glob.glob(V + '/evidence/*.json')), 'evidence files')

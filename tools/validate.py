#!/usr/bin/env python3
import json, sys, glob, os
import jsonschema
V = os.path.dirname(os.path.dirname(os.path.abspath(__file__)))
jsonschema.validate(json.load(open(V + '/MANIFEST.json')), json.load(open('/root/.vp/MANIFEST.schema.json')))
es = json.load(open('/root/.vp/EVIDENCE.schema.json'))
for f in sorted(glob.glob(V + '/evidence/*.json')):
    jsonschema.validate(json.load(open(f)), es)
print('valid: MANIFEST +', len(glob.glob(V + '/evidence/*.json')), 'evidence files')

#!/usr/bin/env python3
"""Refresh the seeded-change table and the revert-sweep summary of DESIGN.md (between the SEEDTABLE / REVERTS markers) from
seeded/*/meta.json and seeded/reverts.json."""
import json, glob, os, re
V = os.path.dirname(os.path.dirname(os.path.abspath(__file__)))
p = os.path.join(V, "DESIGN.md")
s = open(p).read()
rows = []
n = 0
for d in sorted(glob.glob(os.path.join(V, "seeded", "C*"))):
    sid = os.path.basename(d)
    try:
        m = json.load(open(os.path.join(d, "meta.json")))
    except Exception:
        continue
    n += 1
    r = m.get("our_checks_quick", {})
    res = ", ".join("%s: %s" % (k, ("MISSED" if v["rc"] != 1 else ("proof/correspondence break only" if any(l.endswith("no-failing-input-found") for l in v["violation_lines"]) else "concrete input"))) for k, v in r.items())
    patch = open(os.path.join(d, "patch.diff")).read()
    files = sorted(set(re.findall(r"^\+\+\+ b/(\S+)", patch, re.M)))
    fn = re.findall(r"^@@.*@@ (.*)$", patch, re.M)
    fn = re.sub(r"\s+", " ", fn[0])[:60] if fn else ""
    conf = "yes" if m.get("confirmed") else "no longer (a later fix closed the path the demo used)"
    rows.append("| %s | %s | %s | %s | %s |" % (sid, ", ".join(f.replace("src/", "") for f in files), fn.replace("|", "/"), conf, res))
tab = "| seed | file | where | demo still fails | our quick check |\n|---|---|---|---|---|\n" + "\n".join(rows) + "\n\n(%d seeded changes.)\n" % n
s = re.sub(r"<!-- SEEDTABLE -->.*?<!-- /SEEDTABLE -->", "<!-- SEEDTABLE -->\n" + tab + "<!-- /SEEDTABLE -->", s, flags=re.S)
rv = json.load(open(os.path.join(V, "seeded", "reverts.json")))
clean = [r for r in rv["reverts"] if r.get("reverts_cleanly")]
det = [r for r in clean if r.get("detected")]
missed = [r for r in clean if not r.get("detected")]
confl = [r for r in rv["reverts"] if not r.get("reverts_cleanly")]
txt = ("%d `fix:` commits recorded in KNOWN_FINDINGS; %d revert cleanly on the final tree, %d of those are reported by the quick check of their property "
       "(%d with a concrete failing input).  Not reported: %s.  Not tried (conflict with later fixes): %s.\n" % (
           len(rv["reverts"]), len(clean), len(det), sum(1 for r in det if r.get("concrete_input")),
           ", ".join("%s (%s)" % (r["commit"], r["property"]) for r in missed) or "none", ", ".join(r["commit"] for r in confl) or "none"))
s = re.sub(r"<!-- REVERTS -->.*?<!-- /REVERTS -->", "<!-- REVERTS -->\n" + txt + "<!-- /REVERTS -->", s, flags=re.S)
open(p, "w").write(s)
print("seed rows:", n, "| reverts:", len(rv["reverts"]), "clean", len(clean), "detected", len(det))

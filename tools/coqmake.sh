#!/bin/sh
# regenerate Generated/ from /repo and build the development (for interactive work)
cd /verif && python3 tools/c2v.py >/dev/null && cd coq && coq_makefile -f _CoqProject -o Makefile >/dev/null && timeout 1800 make -j16 2>&1 | grep -v '^COQ\|Closed under\|^make' | tail -${1:-20}

#!/usr/bin/env python3
"""Iterate on a check against a changed tree without touching /repo: keeps a scratch worktree (/tmp/tt-<name>/repo) with a
fix commit reverted or a patch applied, and a private copy of /verif (/tmp/tt-<name>/verif, re-synced on every call).
usage: trytree.py <name> (revert <commit> | patch <file>) <check id> [--tier t]     |     trytree.py <name> --clean"""
import os, subprocess, sys
V = os.path.dirname(os.path.dirname(os.path.abspath(__file__)))
name = sys.argv[1]
base = "/tmp/tt-%s" % name
wt, cv = base + "/repo", base + "/verif"
def sh(c):
    return subprocess.run(c, shell=True).returncode
if "--clean" in sys.argv:
    sh("git -C /repo worktree remove --force %s; rm -rf %s; git -C /repo worktree prune" % (wt, base))
    sys.exit(0)
mode, arg, chk = sys.argv[2], sys.argv[3], sys.argv[4]
tier = sys.argv[sys.argv.index("--tier") + 1] if "--tier" in sys.argv else "quick"
if not os.path.exists(wt):
    os.makedirs(base, exist_ok=True)
    assert sh("git -C /repo worktree add -q --detach %s HEAD" % wt) == 0
    if mode == "revert":
        assert sh("cd %s && git revert --no-commit %s" % (wt, arg)) == 0
    else:
        assert sh("git -C %s apply %s" % (wt, os.path.abspath(arg))) == 0
sh("mkdir -p %s && rsync -a --exclude .git --exclude work --exclude 'build/h-*' --exclude build/coq-state.json --exclude seeded --exclude evidence %s/ %s/" % (cv, V, cv))
sys.exit(sh("cd %s && VERIF_REPO=%s bin/check %s --tier %s" % (cv, wt, chk, tier)))

#!/usr/bin/env python3
"""Each `fix:` commit of /repo, reverted on its own in a scratch worktree, is a realistic property-breaking change whose
ground truth is known (the finding recorded in KNOWN_FINDINGS).  This tool reverts every fix commit that still reverts
cleanly, runs the quick check of the property the fix was recorded for against that tree (private copy of /verif,
VERIF_REPO pointing at the worktree - /repo itself is never touched) and writes seeded/reverts.json.
usage: revert_sweep.py [-j N] [commit ...]"""
import json, os, re, subprocess, sys, time
from concurrent.futures import ThreadPoolExecutor
V = os.path.dirname(os.path.dirname(os.path.abspath(__file__)))


def sh(c, **kw):
    r = subprocess.run(c, shell=True, stdout=subprocess.PIPE, stderr=subprocess.STDOUT, text=True, **kw)
    return r.returncode, r.stdout


def fixed_entries():
    out = []
    for l in open(os.path.join(V, "KNOWN_FINDINGS")):
        m = re.match(r"fixed:\s+property=(\w+)\s+([0-9a-f]{7,})\s+(.*)$", l)
        if m:
            out.append((m.group(2), m.group(1), m.group(3)))
    return out


def one(entry):
    commit, pid, what = entry
    wt = "/tmp/rv-%s" % commit
    cv = "/tmp/rvv-%s" % commit
    res = {"commit": commit, "property": pid, "what_failed_before_the_fix": what[:300]}
    sh("git -C /repo worktree remove --force %s" % wt)
    sh("git -C /repo worktree add -q --detach %s HEAD" % wt)
    try:
        rc, o = sh("cd %s && git revert --no-commit %s" % (wt, commit))
        if rc != 0:
            res["reverts_cleanly"] = False
            res["note"] = "later fixes touch the same lines; not tried"
            return res
        res["reverts_cleanly"] = True
        sh("rm -rf %s && mkdir -p %s && rsync -a --exclude .git --exclude work --exclude 'build/h-*' --exclude seeded %s/ %s/" % (cv, cv, V, cv))
        t = time.time()
        rc, o = sh("cd %s && VERIF_REPO=%s bin/check %s --tier quick" % (cv, wt, pid), timeout=3600)
        vl = [l for l in o.splitlines() if l.startswith("VIOLATION")]
        res.update({"check_rc": rc, "violation": [re.sub(r"replay=\S+", "replay=...", l) for l in vl], "wall_s": round(time.time() - t, 1),
                    "detected": rc == 1 and bool(vl), "concrete_input": any("no-failing-input-found" not in l for l in vl)})
        for l in vl:
            m = re.search(r"replay=(\S+)", l)
            if m and os.path.exists(m.group(1)):
                try:
                    rp = json.load(open(m.group(1)))
                    f = rp.get("failure") or {}
                    res["first_failure"] = {"what": f.get("what"), "input": json.dumps(f.get("input"), default=str)[:400]} if f else {"broken": json.dumps(rp.get("broken_proof_obligations"))[:300]}
                except Exception:
                    pass
        return res
    finally:
        sh("rm -rf %s" % cv)
        sh("git -C /repo worktree remove --force %s" % wt)


if __name__ == "__main__":
    args = sys.argv[1:]
    j = 5
    if "-j" in args:
        j = int(args[args.index("-j") + 1])
        del args[args.index("-j"):args.index("-j") + 2]
    ents = [e for e in fixed_entries() if not args or e[0] in args]
    with ThreadPoolExecutor(max_workers=j) as ex:
        results = list(ex.map(one, ents))
    path = os.path.join(V, "seeded", "reverts.json")
    old = {}
    if args and os.path.exists(path):
        old = {r["commit"]: r for r in json.load(open(path))["reverts"]}
    for r in results:
        old[r["commit"]] = r
    allr = list(old.values()) if args else results
    json.dump({"base": sh("git -C /repo rev-parse --short HEAD")[1].strip(), "reverts": allr}, open(path, "w"), indent=1)
    for r in results:
        print(r["commit"], r["property"], "clean-revert" if r.get("reverts_cleanly") else "conflict", "DETECTED" if r.get("detected") else ("-" if not r.get("reverts_cleanly") else "MISSED"),
              "concrete" if r.get("concrete_input") else "", r.get("wall_s", ""))

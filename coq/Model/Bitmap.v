(* The in-memory block-allocation bitmap of a mounted volume and the allocator.
   Index and mask arithmetic come from the REGENERATED slices of adfIsBlockFree / adfSetBlockFree /
   adfSetBlockUsed (Generated/Leaf.v); the circular scan of adfGetFreeBlocks is mirrored by hand and tied to
   the C code by correspondence (checks/c04.py). *)
From Coq Require Import ZArith List Bool.
From ADF Require Import CPrelude Generated.Layout Generated.Leaf.
Import ListNotations.
Local Open Scope Z_scope.

(* bitmapTable[page]->map[word] *)
Definition bm := Z -> Z -> Z.

Definition upd (b : bm) (pg w v : Z) : bm :=
  fun p x => if (p =? pg) && (x =? w) then v else b p x.

Definition is_free (b : bm) (n : Z) : bool :=
  let '(_, pg, w) := s_adfIsBlockFree_idx n in negb (s_adfIsBlockFree_val (b pg w) n =? 0).

Definition set_free (b : bm) (n : Z) : bm :=
  let '(_, pg, w) := s_adfSetBlockFree_idx n in upd b pg w (s_adfSetBlockFree_val (b pg w) n).

Definition set_used (b : bm) (n : Z) : bm :=
  let '(_, pg, w) := s_adfSetBlockUsed_idx n in upd b pg w (s_adfSetBlockUsed_val (b pg w) n).

(* specification of the bitmap layout (adf_info.txt 4.5): bit (n-2) counted over pages of 127 longs; 1 = free *)
Definition spec_free (b : bm) (n : Z) : bool :=
  Z.testbit (b ((n - 2) / 4064) (((n - 2) / 32) mod 127)) ((n - 2) mod 32).

(* adfGetFreeBlocks: circular scan from the root block over [2, last_rel]; hand mirror.
   state: (block, found list (reversed), disk_full) ; `last_rel` = lastBlock - firstBlock *)
Fixpoint scan (fuel : nat) (b : bm) (root last_rel : Z) (want : nat) (block : Z) (acc : list Z) : option (list Z) :=
  match want with
  | O => Some (rev acc)
  | S _ =>
      match fuel with
      | O => None
      | S f =>
          let acc' := if is_free b block then block :: acc else acc in
          let want' := if is_free b block then Nat.pred want else want in
          if block =? last_rel then scan f b root last_rel want' 2 acc'
          else
            let block' := block + 1 in
            if block' =? root then (match want' with O => Some (rev acc') | S _ => None end)
            else scan f b root last_rel want' block' acc'
      end
  end.

Definition get_free_blocks (b : bm) (root last_rel : Z) (want : nat) : option (list Z * bm) :=
  match scan (Z.to_nat last_rel + 2) b root last_rel want root [] with
  | Some l => Some (l, fold_left set_used l b)
  | None => None
  end.

(* adfCountFreeBlocks *)
Fixpoint count_free_from (b : bm) (j : Z) (cnt : nat) : Z :=
  match cnt with O => 0 | S m => (if is_free b j then 1 else 0) + count_free_from b (j + 1) m end.
Definition count_free (b : bm) (last_rel : Z) : Z := count_free_from b 2 (Z.to_nat (last_rel - 1)).

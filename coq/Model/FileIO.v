(* The file handle state machine of adf_file.c, block by block: adfFileOpen (the part after the directory lookup), adfFileRead,
   adfFileReadNextBlock, adfFileWrite, adfFileCreateNextBlock, adfFileSeek (adfFileSeekStart_ / adfFileSeekEOF_ /
   adfFileSeekExt_ / adfFileReadExtBlockN), adfFileTruncate (adfFileTruncateGetBlocksToRemove), adfFileFlush, adfFileClose.

   State = the fields of struct AdfFile the code works with (pos, posInExtBlk, posInDataBlk, nDataBlock, curDataPtr,
   currentDataBlockChanged, the currentData and currentExt buffers, the in-memory file header) plus the volume as a map from block
   numbers to decoded blocks.  Each function below follows its C namesake statement by statement; the names of the C
   variables are kept.  Tables (dataBlocks[]) are kept in LOGICAL order: index i here is dataBlocks[MAX_DATABLK-1-i] in C.

   What is NOT in this model (it belongs to other models or to the exploration): the directory lookup of adfFileOpen and
   adfCreateFile, the date stamp, the hash-chain link refresh, the directory-cache update and the bitmap write of adfFileFlush, the
   bitmap bits themselves (the allocator is an oracle: a list of answers; the blocks a truncation gives back are an output),
   device WRITE failures, malloc failures, checksums and block type fields (Proofs/ChecksumP, Spec/Decode).
   Device READ failures are in the model: `bad` is the set of unreadable blocks.

   Hand-written; tied to the C code by checks/fileiocorr.py: after every call of a generated history the fields of the real
   struct AdfFile, the result of the call, a digest of the buffered block and the raw block lists on the device must be exactly
   those of this model run on the same calls with the allocator answers the library got.  Theorems: Proofs/FileIOP.v. *)
From Coq Require Import ZArith List Bool.
From ADF Require Import CPrelude.
Import ListNotations.
Local Open Scope Z_scope.

Definition MAXDB : Z := 72.

Record dblk := { d_bytes : list Z; d_next : Z; d_size : Z; d_seq : Z; d_key : Z }.
Record xblk := { x_key : Z; x_parent : Z; x_high : Z; x_tab : list Z; x_ext : Z }.
Record fhdr := { h_key : Z; h_size : Z; h_first : Z; h_high : Z; h_tab : list Z; h_ext : Z }.
Inductive fblk := BData (d : dblk) | BExt (x : xblk) | BHdr (h : fhdr) | BOther.
Definition disk := Z -> fblk.

Record hstate := { dk : disk; pos : Z; pinx : Z; pind : Z; ndb : Z; cur : Z; chg : bool; cdata : dblk; cext : option xblk;
                   fh : fhdr; mw : bool; mr : bool }.

Definition set_dk (s : hstate) (v : disk) : hstate := {| dk := v; pos := pos s; pinx := pinx s; pind := pind s; ndb := ndb s; cur := cur s; chg := chg s; cdata := cdata s; cext := cext s; fh := fh s; mw := mw s; mr := mr s |}.
Definition set_pos (s : hstate) (v : Z) : hstate := {| dk := dk s; pos := v; pinx := pinx s; pind := pind s; ndb := ndb s; cur := cur s; chg := chg s; cdata := cdata s; cext := cext s; fh := fh s; mw := mw s; mr := mr s |}.
Definition set_pinx (s : hstate) (v : Z) : hstate := {| dk := dk s; pos := pos s; pinx := v; pind := pind s; ndb := ndb s; cur := cur s; chg := chg s; cdata := cdata s; cext := cext s; fh := fh s; mw := mw s; mr := mr s |}.
Definition set_pind (s : hstate) (v : Z) : hstate := {| dk := dk s; pos := pos s; pinx := pinx s; pind := v; ndb := ndb s; cur := cur s; chg := chg s; cdata := cdata s; cext := cext s; fh := fh s; mw := mw s; mr := mr s |}.
Definition set_ndb (s : hstate) (v : Z) : hstate := {| dk := dk s; pos := pos s; pinx := pinx s; pind := pind s; ndb := v; cur := cur s; chg := chg s; cdata := cdata s; cext := cext s; fh := fh s; mw := mw s; mr := mr s |}.
Definition set_cur (s : hstate) (v : Z) : hstate := {| dk := dk s; pos := pos s; pinx := pinx s; pind := pind s; ndb := ndb s; cur := v; chg := chg s; cdata := cdata s; cext := cext s; fh := fh s; mw := mw s; mr := mr s |}.
Definition set_chg (s : hstate) (v : bool) : hstate := {| dk := dk s; pos := pos s; pinx := pinx s; pind := pind s; ndb := ndb s; cur := cur s; chg := v; cdata := cdata s; cext := cext s; fh := fh s; mw := mw s; mr := mr s |}.
Definition set_cdata (s : hstate) (v : dblk) : hstate := {| dk := dk s; pos := pos s; pinx := pinx s; pind := pind s; ndb := ndb s; cur := cur s; chg := chg s; cdata := v; cext := cext s; fh := fh s; mw := mw s; mr := mr s |}.
Definition set_cext (s : hstate) (v : option xblk) : hstate := {| dk := dk s; pos := pos s; pinx := pinx s; pind := pind s; ndb := ndb s; cur := cur s; chg := chg s; cdata := cdata s; cext := v; fh := fh s; mw := mw s; mr := mr s |}.
Definition set_fh (s : hstate) (v : fhdr) : hstate := {| dk := dk s; pos := pos s; pinx := pinx s; pind := pind s; ndb := ndb s; cur := cur s; chg := chg s; cdata := cdata s; cext := cext s; fh := v; mw := mw s; mr := mr s |}.
Definition set_d_bytes (s : dblk) (v : list Z) : dblk := {| d_bytes := v; d_next := d_next s; d_size := d_size s; d_seq := d_seq s; d_key := d_key s |}.
Definition set_d_next (s : dblk) (v : Z) : dblk := {| d_bytes := d_bytes s; d_next := v; d_size := d_size s; d_seq := d_seq s; d_key := d_key s |}.
Definition set_d_size (s : dblk) (v : Z) : dblk := {| d_bytes := d_bytes s; d_next := d_next s; d_size := v; d_seq := d_seq s; d_key := d_key s |}.
Definition set_x_high (s : xblk) (v : Z) : xblk := {| x_key := x_key s; x_parent := x_parent s; x_high := v; x_tab := x_tab s; x_ext := x_ext s |}.
Definition set_x_tab (s : xblk) (v : list Z) : xblk := {| x_key := x_key s; x_parent := x_parent s; x_high := x_high s; x_tab := v; x_ext := x_ext s |}.
Definition set_x_ext (s : xblk) (v : Z) : xblk := {| x_key := x_key s; x_parent := x_parent s; x_high := x_high s; x_tab := x_tab s; x_ext := v |}.
Definition set_h_size (s : fhdr) (v : Z) : fhdr := {| h_key := h_key s; h_size := v; h_first := h_first s; h_high := h_high s; h_tab := h_tab s; h_ext := h_ext s |}.
Definition set_h_first (s : fhdr) (v : Z) : fhdr := {| h_key := h_key s; h_size := h_size s; h_first := v; h_high := h_high s; h_tab := h_tab s; h_ext := h_ext s |}.
Definition set_h_high (s : fhdr) (v : Z) : fhdr := {| h_key := h_key s; h_size := h_size s; h_first := h_first s; h_high := v; h_tab := h_tab s; h_ext := h_ext s |}.
Definition set_h_tab (s : fhdr) (v : list Z) : fhdr := {| h_key := h_key s; h_size := h_size s; h_first := h_first s; h_high := h_high s; h_tab := v; h_ext := h_ext s |}.
Definition set_h_ext (s : fhdr) (v : Z) : fhdr := {| h_key := h_key s; h_size := h_size s; h_first := h_first s; h_high := h_high s; h_tab := h_tab s; h_ext := v |}.

Fixpoint zerosN (n : nat) : list Z := match n with O => [] | S m => 0 :: zerosN m end.
Definition zerosZ (n : Z) : list Z := zerosN (Z.to_nat n).
(* byte arrays: slices as firstn / skipn (the shape Spec/FsSpec.v uses) *)
Definition sub (l : list Z) (i n : Z) : list Z := firstn (Z.to_nat n) (skipn (Z.to_nat i) l).
Definition ovw (l : list Z) (i : Z) (src : list Z) : list Z :=
  firstn (Z.to_nat i) l ++ src ++ skipn (Z.to_nat i + length src) l.
Definition zero_x : xblk := {| x_key := 0; x_parent := 0; x_high := 0; x_tab := zerosZ MAXDB; x_ext := 0 |}.
Definition zero_d (n : Z) : dblk := {| d_bytes := zerosZ n; d_next := 0; d_size := 0; d_seq := 0; d_key := 0 |}.

(* the arithmetic of adf_file_util.h / adfPos2DataBlock (proved equal to the regenerated C functions in Proofs/FileIOP.v) *)
Definition size2db (size bs : Z) : Z := size / bs + (if 0 <? size mod bs then 1 else 0).
Definition db2ext (n : Z) : Z := if n <? 1 then 0 else (n - 1) / MAXDB.
Definition size2ext (size bs : Z) : Z := db2ext (size2db size bs).
(* returns (extBlock, posInExtBlk, posInDataBlk, curDataN) *)
Definition pos2db (p bs : Z) : Z * Z * Z * Z :=
  let off := p mod bs in
  let k := p / bs in
  if k <? MAXDB then (-1, 0, off, k)
  else let o := p - bs * MAXDB in (o / (bs * MAXDB), (o / bs) mod MAXDB, off, k).

Section FileIO.
  Variable bs : Z.          (* vol->datablockSize: 488 (OFS) or 512 (FFS) *)
  Variable ofs : bool.      (* isOFS(vol->dosType) *)
  Variable bad : Z -> bool. (* blocks the device fails to read *)

  Definition wr (s : hstate) (n : Z) (b : fblk) : hstate := set_dk s (fun k => if k =? n then b else dk s k).

  (* adfReadDataBlock: only a device error (or block 0) fails; the content is taken as it is *)
  Definition rd_data (s : hstate) (n : Z) : option dblk :=
    if (n <? 1) || bad n then None else
    match dk s n with BData d => Some d | _ => Some (zero_d bs) end.
  (* adfReadFileExtBlock *)
  Definition rd_ext (s : hstate) (n : Z) : option xblk :=
    if bad n then None else
    match dk s n with BExt x => Some x | _ => Some zero_x end.

  Definition cx (s : hstate) : xblk := match cext s with Some x => x | None => zero_x end.
  Definition fsize (s : hstate) : Z := h_size (fh s).
  Definition at_eof (s : hstate) : bool := pos s =? fsize s.

  (* ---- adfFileReadNextBlock ---- *)
  Definition load_ext (s : hstate) (n : Z) : bool * hstate :=
    match rd_ext s n with
    | Some x => (true, set_pinx (set_cext s (Some x)) 0)
    | None => (false, s)
    end.

  Definition read_next (s : hstate) : bool * hstate :=
    let '(ok1, s1, nsect_tab) :=
      if ndb s =? 0 then (true, s, h_first (fh s))
      else if ndb s <? MAXDB then (true, s, nthZ (h_tab (fh s)) (ndb s))
      else
        let '(okx, sx) :=
          if ndb s =? MAXDB then
            load_ext (match cext s with None => set_cext s (Some zero_x) | Some _ => s end) (h_ext (fh s))
          else if pinx s =? MAXDB then load_ext s (x_ext (cx s))
          else (true, s) in
        if okx then (true, set_pinx sx (pinx sx + 1), nthZ (x_tab (cx sx)) (pinx sx)) else (false, sx, 0) in
    if negb ok1 then (false, s1) else
    let nsect := if ofs && negb (ndb s =? 0) then d_next (cdata s1) else nsect_tab in
    if nsect <? 2 then (false, s1) else
    match rd_data s1 nsect with
    | None => (false, s1)
    | Some d => (true, set_ndb (set_cur (set_cdata s1 d) nsect) (ndb s1 + 1))
    end.

  (* ---- adfFileFlush (the blocks of the file; directory cache, bitmap and date are outside this model) ---- *)
  Definition fio_flush (s : hstate) : hstate :=
    if negb (mw s) then s else
    let s1 := match cext s with
              | Some x => if x_key x =? 0 then s else wr s (x_key x) (BExt x)
              | None => s
              end in
    let s2 := if (0 <? fsize s1) && negb (cur s1 =? 0) then
                let d := if ofs then set_d_size (cdata s1) (Z.min (fsize s1 - (pos s1 - pind s1)) bs) else cdata s1 in
                wr (set_cdata s1 d) (cur s1) (BData d)
              else s1 in
    wr s2 (h_key (fh s2)) (BHdr (fh s2)).

  (* ---- adfFileSeekStart_ ---- *)
  Definition seek_start (s : hstate) : bool * hstate :=
    let s0 := set_cur (set_ndb (set_pind (set_pinx (set_pos s 0) 0) 0) 0) 0 in
    if fsize s0 =? 0 then (true, s0) else
    let '(ok, s1) := read_next s0 in
    if ok then (true, s1) else (false, set_cur s1 0).

  (* ---- adfFileReadExtBlockN: walks the chain from the header into the currentExt buffer ---- *)
  Fixpoint ext_walk (fuel : nat) (s : hstate) (nsect i extBlock : Z) : bool * hstate * Z :=
    match fuel with
    | O => (true, s, i)
    | S f =>
        if (i <? extBlock) && negb (nsect =? 0) then
          match rd_ext s nsect with
          | None => (false, s, i)
          | Some x => ext_walk f (set_cext s (Some x)) (x_ext x) (i + 1) extBlock
          end
        else (true, s, i)
    end.
  Definition read_ext_n (s : hstate) (extBlock : Z) : bool * hstate :=
    let nExt := size2ext (fsize s) bs in
    if (extBlock <? 0) || (nExt - 1 <? extBlock) then (false, s) else
    let '(ok, s1, i) := ext_walk (Z.to_nat (extBlock + 1)) s (h_ext (fh s)) (-1) extBlock in
    if ok && (i =? extBlock) then (true, s1) else (false, s1).

  (* ---- adfFileSeekExt_ for a position inside the file (after file->pos = min(pos, byteSize), pos < byteSize) ---- *)
  Definition seek_mid (s : hstate) : bool * hstate :=
    let '(extBlock, px, pd, k) := pos2db (pos s) bs in
    let s1 := set_ndb (set_pind (set_pinx s px) pd) k in
    let '(ok2, s2) :=
      if extBlock =? -1 then (true, set_cur s1 (nthZ (h_tab (fh s1)) k))
      else
        let s1' := match cext s1 with None => set_cext s1 (Some zero_x) | Some _ => s1 end in
        let '(okx, sx) := read_ext_n s1' extBlock in
        if okx then (true, set_pinx (set_cur sx (nthZ (x_tab (cx sx)) (pinx sx))) (pinx sx + 1))
        else (false, set_cur sx 0) in
    if negb ok2 then (false, s2) else
    if cur s2 <? 2 then (false, s2) else
    match rd_data s2 (cur s2) with
    | None => (false, set_cur s2 0)
    | Some d => (true, set_ndb (set_cdata s2 d) (ndb s2 + 1))
    end.

  (* ---- adfFileSeekOFS_: the fallback of an OFS seek whose extension-block walk failed - back to the start, then along the data blocks.
          Without the first block (adfFileSeekStart_ failed) there is nothing to walk along.  At the end of a block the next one is fetched (the
          target lies inside the file, so there is one): the walk ends, like adfFileSeekExt_, with the block that holds the target buffered. ---- *)
  Fixpoint ofs_walk (fuel : nat) (s : hstate) (offset target : Z) : bool * hstate :=
    match fuel with
    | O => (true, s)
    | S f =>
        if offset <? target then
          let size := Z.min (target - offset) (bs - pind s) in
          let s1 := set_pind (set_pos s (pos s + size)) (pind s + size) in
          let offset' := offset + size in
          if pind s1 =? bs then
            let '(ok, sn) := read_next s1 in
            if ok then ofs_walk f (set_pind sn 0) offset' target else (false, set_cur sn 0)
          else ofs_walk f s1 offset' target
        else (true, s)
    end.
  Definition seek_ofs (eofk : hstate -> bool * hstate) (s : hstate) (p : Z) : bool * hstate :=
    let '(ok0, s0) := seek_start s in
    if negb ok0 then (false, s0) else
    let p' := Z.min p (fsize s0) in
    if p' =? fsize s0 then eofk s0 else ofs_walk (Z.to_nat (p' / bs + 2)) s0 0 p'.
  (* the tail of adfFileSeek: status = adfFileSeekExt_(...); if it failed on an OFS volume, the fallback *)
  Definition seek_fb (eofk : hstate -> bool * hstate) (r : bool * hstate) (p : Z) : bool * hstate :=
    if negb (fst r) && ofs then seek_ofs eofk (snd r) p else r.

  (* ---- adfFileSeek, with the end-of-file branch of adfFileSeekExt_ as a parameter (adfFileSeekEOF_ calls adfFileSeek again) ---- *)
  Definition seek_gen (eofk : hstate -> bool * hstate) (s : hstate) (p : Z) : bool * hstate :=
    if (pos s =? p) && negb (cur s =? 0) && negb (pind s =? bs) then (true, s) else
    let curDatablock := if 0 <? ndb s then ndb s - 1 else 0 in
    let reqDatablock := p / bs in
    if negb (cur s =? 0) && (curDatablock =? reqDatablock) then
      let p' := Z.min p (fsize s) in (true, set_pind (set_pos s p') (p' mod bs))
    else
      let s1 := if mw s && chg s then set_chg (fio_flush s) false else s in
      if p =? 0 then seek_start s1 else
      let s2 := set_pos s1 (Z.min p (fsize s1)) in
      seek_fb eofk (if pos s2 =? fsize s2 then eofk s2 else seek_mid s2) p.

  (* ---- adfFileSeekEOF_ ---- *)
  Definition seek_eof (s : hstate) : bool * hstate :=
    if fsize s =? 0 then seek_start s else
    let '(ok, s1) := seek_gen (fun t => (false, t)) s (fsize s - 1) in
    if negb ok then (false, s1) else
    (true, set_pind (set_pos s1 (fsize s1)) (if fsize s1 mod bs =? 0 then bs else fsize s1 mod bs)).

  Definition fio_seek (s : hstate) (p : Z) : bool * hstate := seek_gen seek_eof s p.

  (* ---- the library compiled with -DTEST_OFS_SEEK (its own test switch): adfFileSeek goes straight to adfFileSeekOFS_ on OFS volumes and to
          adfFileSeekExt_ without a fallback otherwise.  Only used by the correspondence, to run the fallback walk of THIS model beside the
          C code on healthy devices (checks/fileiocorr.py, harness variant adfh-ofsseek); no theorem is about these three. ---- *)
  Definition seek_gen_t (eofk : hstate -> bool * hstate) (s : hstate) (p : Z) : bool * hstate :=
    if (pos s =? p) && negb (cur s =? 0) && negb (pind s =? bs) then (true, s) else
    let curDatablock := if 0 <? ndb s then ndb s - 1 else 0 in
    let reqDatablock := p / bs in
    if negb (cur s =? 0) && (curDatablock =? reqDatablock) then
      let p' := Z.min p (fsize s) in (true, set_pind (set_pos s p') (p' mod bs))
    else
      let s1 := if mw s && chg s then set_chg (fio_flush s) false else s in
      if p =? 0 then seek_start s1 else
      if ofs then seek_ofs eofk s1 p else
      let s2 := set_pos s1 (Z.min p (fsize s1)) in
      if pos s2 =? fsize s2 then eofk s2 else seek_mid s2.
  Definition seek_eof_t (s : hstate) : bool * hstate :=
    if fsize s =? 0 then seek_start s else
    let '(ok, s1) := seek_gen_t (fun t => (false, t)) s (fsize s - 1) in
    if negb ok then (false, s1) else
    (true, set_pind (set_pos s1 (fsize s1)) (if fsize s1 mod bs =? 0 then bs else fsize s1 mod bs)).
  Definition fio_seek_t (s : hstate) (p : Z) : bool * hstate := seek_gen_t seek_eof_t s p.

  (* ---- adfFileRead ---- *)
  Fixpoint read_loop (fuel : nat) (s : hstate) (n : Z) : hstate * list Z :=
    match fuel with
    | O => (s, [])
    | S f =>
        if n <=? 0 then (s, []) else
        let '(ok, s1) :=
          if pind s =? bs then
            let s0 := if mw s && chg s then set_chg (fio_flush s) false else s in
            let '(okn, sn) := read_next s0 in
            if okn then (true, set_chg (set_pind sn 0) false) else (false, set_cur sn 0)
          else (true, s) in
        if negb ok then (s1, []) else
        let size := Z.min n (bs - pind s1) in
        let chunk := sub (d_bytes (cdata s1)) (pind s1) size in
        let s2 := set_pind (set_pos s1 (pos s1 + size)) (pind s1 + size) in
        let '(s3, rest) := read_loop f s2 (n - size) in
        (s3, chunk ++ rest)
    end.

  Definition fio_read (s : hstate) (n : Z) : hstate * list Z :=
    if negb (mr s) || (n =? 0) || (fsize s =? 0) || at_eof s || (cur s =? 0) then (s, []) else
    let n' := if fsize s <? pos s + n then fsize s - pos s else n in
    read_loop (Z.to_nat (n' / bs + 2)) s n'.

  (* ---- adfFileCreateNextBlock; `a` is the allocator's answer: for adfGet1FreeBlock Some (n, _), for adfGetFreeBlocks(2)
          Some (extSect, nSect); None = no block ---- *)
  Definition finish_create (s : hstate) (nSect : Z) : hstate :=
    let s1 :=
      if ofs then
        let s' := if bs <=? pos s then
                    let d := set_d_size (set_d_next (cdata s) nSect) bs in
                    wr (set_cdata s d) (cur s) (BData d)
                  else s in
        set_cdata s' {| d_bytes := zerosZ bs; d_next := 0; d_size := bs; d_seq := ndb s + 1; d_key := h_key (fh s) |}
      else if bs <=? pos s then set_cdata (wr s (cur s) (BData (cdata s))) (zero_d bs)
      else s in
    set_ndb (set_cur s1 nSect) (ndb s1 + 1).

  Definition add_to_ext (s : hstate) (nSect : Z) : hstate :=
    let x := cx s in
    let x' := set_x_high (set_x_tab x (updZ (x_tab x) (pinx s) nSect)) (x_high x + 1) in
    finish_create (set_pinx (set_cext s (Some x')) (pinx s + 1)) nSect.

  Definition create_next (s : hstate) (a : option (Z * Z)) : bool * hstate :=
    if ndb s <? MAXDB then
      match a with
      | None => (false, s)
      | Some (nSect, _) =>
          let h := fh s in
          let h1 := if ndb s =? 0 then set_h_first h nSect else h in
          let h2 := set_h_high (set_h_tab h1 (updZ (h_tab h1) (ndb s) nSect)) (h_high h1 + 1) in
          (true, finish_create (set_fh s h2) nSect)
      end
    else if ndb s mod MAXDB =? 0 then
      match a with
      | None => (false, s)
      | Some (extSect, nSect) =>
          let s1 := if ndb s =? MAXDB then set_fh (set_cext s (Some zero_x)) (set_h_ext (fh s) extSect) else s in
          let s2 := if 2 * MAXDB <=? ndb s1 then
                      let x := set_x_ext (cx s1) extSect in
                      wr (set_cext s1 (Some x)) (x_key x) (BExt x)
                    else s1 in
          let x0 := {| x_key := extSect; x_parent := h_key (fh s2); x_high := 0; x_tab := zerosZ MAXDB; x_ext := 0 |} in
          (true, add_to_ext (set_pinx (set_cext s2 (Some x0)) 0) nSect)
      end
    else
      match a with
      | None => (false, s)
      | Some (nSect, _) => (true, add_to_ext s nSect)
      end.

  (* ---- adfFileWrite; al = the answers of the allocator in the order they are asked for (exhausted = refusal) ---- *)
  Fixpoint write_loop (fuel : nat) (s : hstate) (data : list Z) (al : list (option (Z * Z))) : hstate * Z * list (option (Z * Z)) :=
    match fuel with
    | O => (s, 0, al)
    | S f =>
        match data with
        | [] => (s, 0, al)
        | _ :: _ =>
            let '(ok, s1, al1) :=
              if pos s mod bs =? 0 then
                if pos s =? fsize s then
                  let '(okc, sc) := create_next s (match al with a :: _ => a | [] => None end) in
                  if okc then (true, set_pind (set_chg sc false) 0, tl al) else (false, sc, tl al)
                else if pind s =? bs then
                  let s0 := if chg s then set_chg (fio_flush s) false else s in
                  let '(okn, sn) := read_next s0 in
                  if okn then (true, set_pind sn 0, al) else (false, set_cur sn 0, al)
                else (true, set_pind s 0, al)
              else (true, s, al) in
            if negb ok then (s1, 0, al1) else
            let size := Z.min (Z.of_nat (length data)) (bs - pind s1) in
            let d := set_d_bytes (cdata s1) (ovw (d_bytes (cdata s1)) (pind s1) (firstn (Z.to_nat size) data)) in
            let p' := pos s1 + size in
            let s2 := set_fh (set_chg (set_pind (set_pos (set_cdata s1 d) p') (pind s1 + size)) true)
                             (set_h_size (fh s1) (Z.max (fsize s1) p')) in
            let '(s3, w, al3) := write_loop f s2 (skipn (Z.to_nat size) data) al1 in
            (s3, size + w, al3)
        end
    end.

  Definition fio_write (s : hstate) (data : list Z) (al : list (option (Z * Z))) : hstate * Z * list (option (Z * Z)) :=
    (* no write access; or no valid block is buffered although the file has data (an earlier transfer failed): seek first *)
    if negb (mw s) || ((cur s =? 0) && (0 <? fsize s)) then (s, 0, al) else
    write_loop (Z.to_nat (Z.of_nat (length data) / bs + 2)) s data al.

  (* ---- adfFileTruncateGetBlocksToRemove (logical table indices; reads extension blocks from the volume) ---- *)
  Fixpoint rest_exts (fuel : nat) (s : hstate) (nextExt extBlock_i nExtOld nDOld : Z) : option (list Z) :=
    match fuel with
    | O => Some []
    | S f =>
        if nextExt <=? 0 then Some [] else
        match rd_ext s nextExt with
        | None => None
        | Some x =>
            let last := if extBlock_i + 1 =? nExtOld then (if nDOld - MAXDB * (extBlock_i + 1) =? MAXDB then MAXDB else nDOld mod MAXDB)
                        else MAXDB in
            match rest_exts f s (x_ext x) (extBlock_i + 1) nExtOld nDOld with
            | None => None
            | Some r => Some (subZ (x_tab x) 0 last ++ [nextExt] ++ r)
            end
        end
    end.

  Definition blocks_to_remove (s : hstate) (sizeNew : Z) : option (list Z) :=
    let sizeOld := fsize s in
    if sizeOld <? sizeNew then Some [] else
    let nDOld := size2db sizeOld bs in
    let nDNew := size2db sizeNew bs in
    let nXOld := db2ext nDOld in
    let nXNew := db2ext nDNew in
    if (nDOld + nXOld) - (nDNew + nXNew) <? 1 then Some [] else
    if nXOld <? 1 then Some (subZ (h_tab (fh s)) nDNew (nDOld - nDNew))
    else
      let first_part :=
        if nXNew <? 1 then Some (subZ (h_tab (fh s)) nDNew (MAXDB - nDNew), h_ext (fh s))
        else
          let '(ok, sx) := read_ext_n (set_cext s (Some zero_x)) (nXNew - 1) in
          if negb ok then None else
          let x := cx sx in
          let l := if (0 <? nDNew / MAXDB) && negb (nDNew mod MAXDB =? 0) then
                     let firstD := if nDNew - MAXDB * nXNew =? MAXDB then MAXDB else nDNew mod MAXDB + 1 in
                     let lastD := if nXNew =? nXOld then (if nDOld - MAXDB * nXNew =? MAXDB then MAXDB else nDOld mod MAXDB)
                                  else MAXDB in
                     subZ (x_tab x) (firstD - 1) (lastD - firstD + 1)
                   else [] in
          Some (l, x_ext x) in
      match first_part with
      | None => None
      | Some (l, nextExt) =>
          match rest_exts (Z.to_nat (nXOld + 1)) s nextExt nXNew nXOld nDOld with
          | None => None
          | Some r => Some (l ++ r)
          end
      end.

  (* table[i] := 0 for first <= i <= last (logical indices) *)
  Fixpoint clear_from (n : nat) (t : list Z) (i : Z) : list Z :=
    match n with O => t | S m => clear_from m (updZ t i 0) (i + 1) end.
  Definition clear_range (t : list Z) (first last : Z) : list Z := clear_from (Z.to_nat (last - first + 1)) t first.

  (* ---- adfFileWriteFilled with zeros (used by the growing truncate): chunks of 4096 bytes ---- *)
  Fixpoint write_filled (fuel : nat) (s : hstate) (size : Z) (al : list (option (Z * Z))) : hstate * Z * list (option (Z * Z)) :=
    match fuel with
    | O => (s, 0, al)
    | S f =>
        if size <=? 0 then (s, 0, al) else
        let chunkLen := Z.min size 4096 in
        let '(s1, w, al1) := fio_write s (zerosZ chunkLen) al in
        if negb (w =? chunkLen) then (s1, w, al1) else
        let '(s2, w2, al2) := write_filled f s1 (size - chunkLen) al1 in
        (s2, w + w2, al2)
    end.

  (* ---- adfFileTruncate; result: rc, state, blocks handed to adfSetBlockFree, remaining allocator answers ---- *)
  Definition fio_truncate (s : hstate) (sizeNew : Z) (al : list (option (Z * Z))) : bool * hstate * list Z * list (option (Z * Z)) :=
    if negb (mw s) then (false, s, [], al) else
    if sizeNew =? fsize s then let '(ok, s1) := fio_seek s sizeNew in (ok, s1, [], al) else
    let sizeOld := fsize s in
    if sizeOld <? sizeNew then
      let '(ok, s1) := fio_seek s sizeOld in
      if negb ok then (false, s1, [], al) else
      let '(s2, w, al2) := write_filled (Z.to_nat ((sizeNew - sizeOld) / 4096 + 2)) s1 (sizeNew - sizeOld) al in
      (w =? sizeNew - sizeOld, s2, [], al2)
    else
      let s1 := set_chg (fio_flush s) false in
      match blocks_to_remove s1 sizeNew with
      | None => (false, s1, [], al)
      | Some rem =>
          let '(ok, s2) := seek_eof (set_fh s1 (set_h_size (fh s1) sizeNew)) in
          if negb ok then (false, set_fh s2 (set_h_size (fh s2) sizeOld), [], al) else
          let s3 :=
            if sizeNew =? 0 then
              set_fh s2 {| h_key := h_key (fh s2); h_size := h_size (fh s2); h_first := 0; h_high := 0; h_tab := zerosZ MAXDB; h_ext := 0 |}
            else
              let nDNew := size2db sizeNew bs in
              let nDOld := size2db sizeOld bs in
              let nXOld := db2ext nDOld in
              let nXNew := db2ext nDNew in
              let sa :=
                if negb (nDNew mod MAXDB =? 0) then
                  let firstD := nDNew mod MAXDB in
                  let lastD := if (nXNew <? nXOld) || (nDOld mod MAXDB =? 0) then MAXDB - 1 else nDOld mod MAXDB in
                  let st := if nXNew <? 1 then set_fh s2 (set_h_tab (fh s2) (clear_range (h_tab (fh s2)) firstD lastD))
                            else set_cext s2 (Some (set_x_tab (cx s2) (clear_range (x_tab (cx s2)) firstD lastD))) in
                  if nDNew <=? MAXDB then set_fh st (set_h_high (fh st) firstD)
                  else set_cext st (Some (set_x_high (cx st) firstD))
                else s2 in
              let sb := if ofs then
                          set_cdata sa (set_d_next (set_d_size (cdata sa) (if sizeNew mod bs =? 0 then bs else sizeNew mod bs)) 0)
                        else sa in
              let sc := set_chg sb true in
              if nDNew <=? MAXDB then set_fh sc (set_h_ext (fh sc) 0)
              else set_cext sc (Some (set_x_ext (cx sc) 0)) in
          let s4 := if size2ext sizeNew bs <? 1 then set_cext s3 None else s3 in
          (true, s4, rem, al)
      end.

  (* ---- adfFileOpen, after the directory lookup: an existing file whose header is block `key`; a new file whose header
          adfCreateFile has just written to block `key` ---- *)
  Definition init_handle (d : disk) (h : fhdr) (r w : bool) : hstate :=
    {| dk := d; pos := 0; pinx := 0; pind := 0; ndb := 0; cur := 0; chg := false; cdata := zero_d bs; cext := None; fh := h; mw := w; mr := r |}.
  Definition fio_open (d : disk) (key : Z) (r w : bool) : bool * hstate :=
    let h := match d key with BHdr h => h | _ => {| h_key := key; h_size := 0; h_first := 0; h_high := 0; h_tab := zerosZ MAXDB; h_ext := 0 |} end in
    fio_seek (init_handle d h r w) 0.
  Definition fio_new (d : disk) (key : Z) (r w : bool) : hstate :=
    let h := {| h_key := key; h_size := 0; h_first := 0; h_high := 0; h_tab := zerosZ MAXDB; h_ext := 0 |} in
    init_handle (fun k => if k =? key then BHdr h else d k) h r w.
  Definition fio_close (s : hstate) : disk := dk (fio_flush s).
End FileIO.

(* The directory cache of one directory as adf_cache.c maintains it: a chain of cache blocks, each holding records in a
   488-byte record area.  adfAddInCache appends to the last block or links a new block; adfDelFromCache removes the first
   record with the entry's header key, unlinking (and releasing) a block that is not the first and held only that record;
   adfUpdateCache rewrites a record in place when it does not grow, otherwise adds the new record and then removes the old
   one.  Records are kept abstract here (key = header block of the entry, length in bytes, bytes): their encoding is the
   subject of Proofs/CacheCodecP.v.  Hand-written; tied to the C code by the block-level correspondence of
   checks/cachecorr.py (raw cache chain of the image after every call = the model's).  Proofs/CacheChainP.v. *)
From Coq Require Import ZArith List Bool Arith.
Import ListNotations.

Record crec := { r_key : Z; r_len : nat; r_body : list Z }.
Definition cblock := (Z * list crec)%type.
Definition cstate := list cblock.

Definition AREA : nat := 488.

Fixpoint used (rs : list crec) : nat := match rs with [] => 0 | r :: t => r_len r + used t end.

Definition has_key (k : Z) (rs : list crec) : bool := existsb (fun r => Z.eqb (r_key r) k) rs.

Fixpoint remove_key (k : Z) (rs : list crec) : list crec :=
  match rs with [] => [] | r :: t => if Z.eqb (r_key r) k then t else r :: remove_key k t end.

Fixpoint replace_key (k : Z) (r' : crec) (rs : list crec) : list crec :=
  match rs with [] => [] | r :: t => if Z.eqb (r_key r) k then r' :: t else r :: replace_key k r' t end.

Fixpoint find_len (k : Z) (rs : list crec) : option nat :=
  match rs with [] => None | r :: t => if Z.eqb (r_key r) k then Some (r_len r) else find_len k t end.

(* the listing the cache serves *)
Definition recs (c : cstate) : list crec := concat (map snd c).

(* adfAddInCache: nb = the block the allocator hands out if the last block has no room *)
Fixpoint c_add (c : cstate) (r : crec) (nb : Z) : cstate :=
  match c with
  | [] => [(nb, [r])]
  | (b, rs) :: [] => if used rs + r_len r <=? AREA then [(b, rs ++ [r])] else [(b, rs); (nb, [r])]
  | blk :: rest => blk :: c_add rest r nb
  end.

(* adfDelFromCache, in the blocks after the first: a block left without records is unlinked and released *)
Fixpoint c_del_tail (c : cstate) (k : Z) : cstate * list Z :=
  match c with
  | [] => ([], [])
  | (b, rs) :: rest =>
      if has_key k rs then (if length rs <=? 1 then (rest, [b]) else ((b, remove_key k rs) :: rest, []))
      else let '(rest', fr) := c_del_tail rest k in ((b, rs) :: rest', fr)
  end.

Definition c_del (c : cstate) (k : Z) : cstate * list Z :=
  match c with
  | [] => ([], [])
  | (b, rs) :: rest =>
      if has_key k rs then ((b, remove_key k rs) :: rest, [])
      else let '(rest', fr) := c_del_tail rest k in ((b, rs) :: rest', fr)
  end.

Fixpoint c_replace (c : cstate) (k : Z) (r' : crec) : cstate :=
  match c with
  | [] => []
  | (b, rs) :: rest => if has_key k rs then (b, replace_key k r' rs) :: rest else (b, rs) :: c_replace rest k r'
  end.

(* adfUpdateCache with a record that may have another length *)
Definition c_update (c : cstate) (r' : crec) (nb : Z) : cstate * list Z :=
  match find_len (r_key r') (recs c) with
  | None => (c, [])
  | Some ol => if r_len r' <=? ol then (c_replace c (r_key r') r', []) else c_del (c_add c r' nb) (r_key r')
  end.

(* Block lists of a file as ADFlib keeps them on disk (adf_file.c: adfFileCreateNextBlock, adfFileTruncate, the seek /
   read-next-block code): the first 72 data block numbers in the file header, the following ones in a chain of extension
   blocks of 72 slots each; an extension block exists exactly for every started group of 72 blocks beyond the header.
   The state of the model is the plain list of data blocks plus the list of extension blocks; `enc` is the on-disk shape.
   Hand-written; tied to the C code by the block-level correspondence of checks/filemapcorr.py (raw header and extension
   tables of the image after every close = enc of the model state; transitions = f_append / f_trunc with the allocator
   as oracle).  Proofs/FileMapP.v. *)
From Coq Require Import ZArith List Bool Arith.
Import ListNotations.

Definition SLOTS : nat := 72.

(* number of extension blocks for n data blocks *)
Definition nexts (n : nat) : nat := if n <=? SLOTS then 0 else (n - SLOTS + (SLOTS - 1)) / SLOTS.

Fixpoint chunks (fuel : nat) (l : list Z) : list (list Z) :=
  match fuel with
  | O => []
  | S f => match l with [] => [] | _ => firstn SLOTS l :: chunks f (skipn SLOTS l) end
  end.

(* on-disk shape: header table, and per extension block its number and its table (logical order) *)
Definition enc_hdr (l : list Z) : list Z := firstn SLOTS l.
Definition enc_exts (l es : list Z) : list (Z * list Z) := combine es (chunks (length l) (skipn SLOTS l)).

(* how the k-th data block is found (adfPos2DataBlock: header for k < 72, else extension (k-72)/72, slot (k-72) mod 72) *)
Definition find_block (hdr : list Z) (exts : list (Z * list Z)) (k : nat) : option Z :=
  if k <? SLOTS then nth_error hdr k
  else match nth_error exts ((k - SLOTS) / SLOTS) with
       | Some (_, t) => nth_error t ((k - SLOTS) mod SLOTS)
       | None => None
       end.

Record fstate := { f_data : list Z; f_exts : list Z }.

Definition needs_ext (n : nat) : bool := (SLOTS <=? n) && (n mod SLOTS =? 0).

(* adfFileCreateNextBlock: d = the new data block, e = the extension block taken together with it when one is needed *)
Definition f_append (s : fstate) (d e : Z) : fstate :=
  if needs_ext (length (f_data s)) then {| f_data := f_data s ++ [d]; f_exts := f_exts s ++ [e] |}
  else {| f_data := f_data s ++ [d]; f_exts := f_exts s |}.

(* adfFileTruncate to n data blocks: what is kept, and the blocks given back *)
Definition f_trunc (s : fstate) (n : nat) : fstate * list Z :=
  ({| f_data := firstn n (f_data s); f_exts := firstn (nexts n) (f_exts s) |},
   skipn n (f_data s) ++ skipn (nexts n) (f_exts s)).

Definition f_empty : fstate := {| f_data := []; f_exts := [] |}.

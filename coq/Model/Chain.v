(* Block-level model of an AmigaDOS directory as ADFlib maintains it (adf_dir.c: adfNameToEntryBlk, adfCreateEntry,
   adfRemoveEntry): a hash table of 72 block numbers, each heading a singly linked chain of entry blocks (nextSameHash),
   entries found by comparing upper-cased names, new entries appended at the TAIL of their chain, removal by unlinking.
   Hand-written; tied to the C code by the block-level correspondence of checks/c02.py (hash table and chain links of the
   image after every call = the model's).  Proofs/ChainP.v proves that it refines a finite map from folded names to
   blocks. *)
From Coq Require Import ZArith List Bool.
From ADF Require Import Spec.Names.
Import ListNotations.
Local Open Scope Z_scope.

Record ent := { e_name : list Z; e_next : Z }.
Definition heap := Z -> option ent.
Record dirst := { d_ht : Z -> Z; d_hp : heap }.

Definition hupd (h : heap) (k : Z) (v : ent) : heap := fun x => if x =? k then Some v else h x.
Definition hdel (h : heap) (k : Z) : heap := fun x => if x =? k then None else h x.
Definition fupd (f : Z -> Z) (k v : Z) : Z -> Z := fun x => if x =? k then v else f x.

Definition empty_dir : dirst := {| d_ht := fun _ => 0; d_hp := fun _ => None |}.

Section WithMode.
Variable intl : bool.

(* what identifies an entry within a directory, and the slot it lives in (a function of the key alone) *)
Definition key (n : list Z) : list Z := fold_name intl (trunc30 n).
Definition slot (n : list Z) : Z := hash_folded (key n).

Inductive wres := Found (blk prev : Z) | Absent (last : Z) | Broken.

(* adfNameToEntryBlk: walk the chain from block s; prev = the block visited before s (0 = the hash table itself) *)
Fixpoint walk (fuel : nat) (h : heap) (k : list Z) (s prev : Z) : wres :=
  match fuel with
  | O => Broken
  | S f =>
      if s =? 0 then Absent prev
      else match h s with
           | None => Broken
           | Some e => if list_eq_dec Z.eq_dec (key (e_name e)) k then Found s prev
                       else walk f h k (e_next e) s
           end
  end.

Definition lookup (fuel : nat) (d : dirst) (n : list Z) : wres :=
  walk fuel (d_hp d) (key n) (d_ht d (slot n)) 0.

Definition lookup_blk (fuel : nat) (d : dirst) (n : list Z) : option Z :=
  match lookup fuel d n with Found b _ => Some b | _ => None end.

(* adfCreateEntry with an already allocated block: refused when the name is taken; linked behind the last entry of the chain *)
Definition insert (fuel : nat) (d : dirst) (n : list Z) (blk : Z) : option dirst :=
  match lookup fuel d n with
  | Absent last =>
      let e := {| e_name := trunc30 n; e_next := 0 |} in
      if last =? 0 then Some {| d_ht := fupd (d_ht d) (slot n) blk; d_hp := hupd (d_hp d) blk e |}
      else match d_hp d last with
           | Some le => Some {| d_ht := d_ht d;
                                d_hp := hupd (hupd (d_hp d) last {| e_name := e_name le; e_next := blk |}) blk e |}
           | None => None
           end
  | _ => None
  end.

(* adfRemoveEntry: unlink; returns the block that held the entry *)
Definition remove (fuel : nat) (d : dirst) (n : list Z) : option (dirst * Z) :=
  match lookup fuel d n with
  | Found b prev =>
      match d_hp d b with
      | None => None
      | Some be =>
          if prev =? 0 then Some ({| d_ht := fupd (d_ht d) (slot n) (e_next be); d_hp := hdel (d_hp d) b |}, b)
          else match d_hp d prev with
               | Some pe => Some ({| d_ht := d_ht d;
                                     d_hp := hupd (hdel (d_hp d) b) prev {| e_name := e_name pe; e_next := e_next be |} |}, b)
               | None => None
               end
      end
  | _ => None
  end.

(* ---- observation used by the correspondence check: the chain of a slot as a list of (block, name) ---- *)
Fixpoint chain_list (fuel : nat) (h : heap) (s : Z) : list (Z * list Z) :=
  match fuel with
  | O => []
  | S f => if s =? 0 then [] else
           match h s with None => [(s, [])] | Some e => (s, e_name e) :: chain_list f h (e_next e) end
  end.

End WithMode.

(* operations of a history, for the driver *)
Inductive cop := CIns (n : list Z) (blk : Z) | CDel (n : list Z).

Definition cstep (intl : bool) (fuel : nat) (d : dirst) (o : cop) : dirst * Z :=
  match o with
  | CIns n blk => match insert intl fuel d n blk with Some d' => (d', 0) | None => (d, -1) end
  | CDel n => match remove intl fuel d n with Some (d', b) => (d', b) | None => (d, -1) end
  end.

Definition dump_dir (fuel : nat) (d : dirst) : list (Z * list (Z * list Z)) :=
  filter (fun p => match snd p with [] => false | _ => true end)
         (map (fun i => (Z.of_nat i, chain_list fuel (d_hp d) (d_ht d (Z.of_nat i)))) (seq 0 72)).

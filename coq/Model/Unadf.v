(* unadf's output_name (examples/unadf.c): how the path handed to open()/mkdir()/utimes() is built from the names
   found in the image.  Hand mirror, tied to the C function by a differential run (checks/c20.py via harness/leafh.c). *)
From Coq Require Import ZArith List Bool.
Import ListNotations.
Local Open Scope Z_scope.

Definition sep := 47.   (* '/'  *)
Definition bsl := 92.   (* '\\' *)
Definition dot := 46.
Definition xx := 120.   (* 'x' *)
Definition us := 95.    (* '_' *)

(* leading separators of the image-derived part are neutralised *)
Fixpoint strip_lead (l : list Z) : list Z :=
  match l with
  | a :: r => if (a =? sep) || (a =? bsl) then us :: strip_lead r else l
  | [] => []
  end.

(* the "../" -> "xx/" pass: at o, if o[0]='.' && o[1]='.' && o[2] in {'/','\\',NUL} then o[0]=o[1]='x'; o += 2 (then o++) *)
Fixpoint dotscan (l : list Z) : list Z :=
  match l with
  | a :: tl =>
      match tl with
      | b :: rest =>
          if (a =? dot) && (b =? dot) && (match rest with [] => true | c :: _ => (c =? sep) || (c =? bsl) end)
          then xx :: xx :: (match rest with [] => [] | c :: r' => c :: dotscan r' end)
          else a :: dotscan tl
      | [] => l
      end
  | [] => []
  end.

Definition sanitize (l : list Z) : list Z := dotscan (strip_lead l).

(* the image-derived part: path + '/' + name (path may be empty) *)
Definition rel_part (path name : list Z) : list Z :=
  match path with [] => name | _ => path ++ [sep] ++ name end.

(* the whole output name; dir = None when no -d was given *)
Definition output_name (dir : option (list Z)) (path name : list Z) : list Z :=
  (match dir with Some d => d ++ [sep] | None => [] end) ++ sanitize (rel_part path name).

(* ---- lexical path resolution (no symbolic links) ---- *)
Fixpoint components (l : list Z) : list (list Z) :=
  match l with
  | [] => [[]]
  | a :: r => if a =? sep then [] :: components r
              else match components r with c :: cs => (a :: c) :: cs | [] => [[a]] end
  end.

Definition is_dotdot (c : list Z) : bool :=
  match c with [a; b] => (a =? dot) && (b =? dot) | _ => false end.

Definition is_noop (c : list Z) : bool :=
  match c with [] => true | [a] => a =? dot | _ => false end.

Definition no_dotdot (l : list Z) : bool := forallb (fun c => negb (is_dotdot c)) (components l).

Definition starts_with_sep (l : list Z) : bool := match l with a :: _ => a =? sep | [] => false end.

(* walking the components from depth d never goes above the starting directory *)
Fixpoint never_climbs (d : Z) (cs : list (list Z)) : bool :=
  match cs with
  | [] => true
  | c :: r => if is_dotdot c then (0 <? d) && never_climbs (d - 1) r
              else if is_noop c then never_climbs d r else never_climbs (d + 1) r
  end.

(* Semantics of the C subset accepted by tools/c2v.py: the helper functions the
   generated Gallina refers to.  Part of the trusted base of the translator tie. *)
From Coq Require Import ZArith List Bool Lia.
Import ListNotations.
Local Open Scope Z_scope.

Definition b2z (b : bool) : Z := if b then 1 else 0.

(* integral conversions *)
Definition cast_u (bits : Z) (x : Z) : Z := x mod 2 ^ bits.
Definition cast_s (bits : Z) (x : Z) : Z :=
  let m := x mod 2 ^ bits in if m <? 2 ^ (bits - 1) then m else m - 2 ^ bits.

Definition cast_u1 := cast_u 1.
Definition cast_u8 := cast_u 8.
Definition cast_u16 := cast_u 16.
Definition cast_u32 := cast_u 32.
Definition cast_u64 := cast_u 64.
Definition cast_s8 := cast_s 8.
Definition cast_s16 := cast_s 16.
Definition cast_s32 := cast_s 32.
Definition cast_s64 := cast_s 64.

(* arrays: lists of Z indexed by Z *)
Definition nthZ (l : list Z) (i : Z) : Z :=
  if i <? 0 then 0 else nth (Z.to_nat i) l 0.

Fixpoint upd_nat {A} (l : list A) (i : nat) (v : A) : list A :=
  match l, i with
  | [], _ => []
  | _ :: t, O => v :: t
  | h :: t, S j => h :: upd_nat t j v
  end.

Definition updZ (l : list Z) (i : Z) (v : Z) : list Z :=
  if i <? 0 then l else upd_nat l (Z.to_nat i) v.

(* a C string parameter is the list of its bytes before the terminating NUL *)
Definition c_strlen (l : list Z) : Z := Z.of_nat (length l).

(* toupper() in the "C" locale, on an unsigned char value *)
Definition c_toupper (c : Z) : Z := if (97 <=? c) && (c <=? 122) then c - 32 else c.

(* big-endian reads from a byte array (Long()/Short() of adf_util.h) *)
Definition be16_at (l : list Z) (i : Z) : Z := nthZ l i * 256 + nthZ l (i + 1).
Definition be32_at (l : list Z) (i : Z) : Z :=
  ((nthZ l i * 256 + nthZ l (i + 1)) * 256 + nthZ l (i + 2)) * 256 + nthZ l (i + 3).

(* big-endian stores into a byte array (swLong()/swShort() of adf_util.c) *)
Definition put_be16 (l : list Z) (off v : Z) : list Z :=
  updZ (updZ l off (v / 256 mod 256)) (off + 1) (v mod 256).
Definition put_be32 (l : list Z) (off v : Z) : list Z :=
  updZ (updZ (updZ (updZ l off (v / 16777216 mod 256)) (off + 1) (v / 65536 mod 256)) (off + 2) (v / 256 mod 256)) (off + 3) (v mod 256).

(* memcpy: n bytes of src starting at i (reads past the end of the list yield 0), written into dst from offset j (writes
   past the end of the list are dropped: the checks around the call are what must keep them inside) *)
Definition subZ (l : list Z) (i n : Z) : list Z := map (fun k => nthZ l (i + Z.of_nat k)) (seq 0 (Z.to_nat n)).
Fixpoint blit_nat (l : list Z) (i : nat) (src : list Z) : list Z :=
  match src with [] => l | x :: r => blit_nat (upd_nat l i x) (S i) r end.
Definition blit (l : list Z) (i : Z) (src : list Z) : list Z := if i <? 0 then l else blit_nat l (Z.to_nat i) src.

(* loops *)
Fixpoint while_ {S : Type} (fuel : nat) (c : S -> bool) (b : S -> S) (s : S) : option S :=
  match fuel with
  | O => None
  | Datatypes.S f => if c s then while_ f c b (b s) else Some s
  end.

(* result of an I/O funnel function: returned before touching the device, or
   the device was accessed at the given physical sector with the given size *)
Inductive guard_result : Type :=
| GRet (rc : Z)
| GDev (sector : Z) (size : Z).

(* ---- generic facts about the helpers ---- *)

Lemma cast_u_range bits x : 0 <= bits -> 0 <= cast_u bits x < 2 ^ bits.
Proof. intros H. unfold cast_u. apply Z.mod_pos_bound. apply Z.pow_pos_nonneg; lia. Qed.

Lemma cast_u_id bits x : 0 <= x < 2 ^ bits -> cast_u bits x = x.
Proof. intros H. unfold cast_u. apply Z.mod_small; exact H. Qed.

Lemma cast_u32_range x : 0 <= cast_u32 x < 2 ^ 32.
Proof. apply cast_u_range; lia. Qed.

Lemma cast_u32_id x : 0 <= x < 2 ^ 32 -> cast_u32 x = x.
Proof. apply cast_u_id. Qed.

Lemma cast_u8_id x : 0 <= x < 256 -> cast_u8 x = x.
Proof. intros; apply cast_u_id; simpl; lia. Qed.

Lemma cast_s32_id x : - 2 ^ 31 <= x < 2 ^ 31 -> cast_s32 x = x.
Proof.
  intros H. unfold cast_s32, cast_s.
  change (32 - 1) with 31.
  destruct (Z_lt_dec x 0) as [Hn|Hp].
  - assert (E : x mod 2 ^ 32 = x + 2 ^ 32).
    { symmetry. apply (Z.mod_unique _ _ (-1)); lia. }
    rewrite E. destruct (Z.ltb_spec (x + 2 ^ 32) (2 ^ 31)); lia.
  - rewrite Z.mod_small by lia. destruct (Z.ltb_spec x (2 ^ 31)); lia.
Qed.

Lemma while_more {S} (c : S -> bool) (b : S -> S) :
  forall f1 f2 s r, (f1 <= f2)%nat -> while_ f1 c b s = Some r -> while_ f2 c b s = Some r.
Proof.
  induction f1 as [|f1 IH]; intros f2 s r Hle H; simpl in H; [discriminate|].
  destruct f2 as [|f2]; [lia|]. simpl.
  destruct (c s); [apply (IH f2); [lia|exact H]|exact H].
Qed.

Lemma nthZ_cons_0 a l : nthZ (a :: l) 0 = a.
Proof. reflexivity. Qed.

Lemma nthZ_cons_pos a l i : 0 < i -> nthZ (a :: l) i = nthZ l (i - 1).
Proof.
  intros H. unfold nthZ.
  destruct (Z.ltb_spec i 0); [lia|]. destruct (Z.ltb_spec (i - 1) 0); [lia|].
  replace (Z.to_nat i) with (S (Z.to_nat (i - 1))) by lia. reflexivity.
Qed.

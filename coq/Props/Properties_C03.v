(* C03 On-disk format conformance judged by an independent spec-based decoder.
   The decoder and judge is Spec/Decode.v (written from adf_info.txt).  Proved here: the field offsets, block sizes,
   type constants and the endian-swap table the library is compiled with - REGENERATED from adf_blk.h / adf_raw.c on
   every run - are those of the specification the decoder uses; the AmigaDOS hash the decoder demands for chain
   placement is the hash the library computes (C15_hash_is_amiga_hash).  That every image produced by a history
   decodes, and decodes to the model's tree and bytes, is judged per explored history (checks/c03.py). *)
From Coq Require Import ZArith List Bool String.
From ADF Require Import CPrelude Generated.Layout Generated.Leaf Spec.Names Spec.Decode Proofs.LayoutP Proofs.NamesP Proofs.ChecksumP Model.FileMap Proofs.FileMapP.
Import ListNotations.
Local Open Scope string_scope.
Local Open Scope Z_scope.

Theorem C03_layout_root : has layout_bRootBlock
  [("type", O_TYPE); ("headerKey", O_HKEY); ("highSeq", O_HIGHSEQ); ("hashTableSize", O_HTSIZE); ("firstData", O_FIRSTDATA);
   ("checkSum", O_SUM); ("hashTable", O_TABLE); ("bmFlag", O_BMFLAG); ("bmPages", O_BMPAGES); ("bmExt", O_BMEXT);
   ("nameLen", O_NAMELEN); ("diskName", O_NAME); ("nextSameHash", O_NEXTHASH); ("parent", O_PARENT);
   ("extension", O_EXT); ("secType", O_SECTYPE)] = true.
Proof. exact layout_root. Qed.

Theorem C03_layout_entry : has layout_bEntryBlock
  [("type", O_TYPE); ("headerKey", O_HKEY); ("checkSum", O_SUM); ("hashTable", O_TABLE); ("access", O_PROT); ("byteSize", O_SIZE);
   ("commLen", O_COMMLEN); ("comment", O_COMM); ("days", O_DAYS); ("mins", O_MINS); ("ticks", O_TICKS);
   ("nameLen", O_NAMELEN); ("name", O_NAME); ("realEntry", O_REAL); ("nextLink", O_NEXTLINK);
   ("nextSameHash", O_NEXTHASH); ("parent", O_PARENT); ("extension", O_EXT); ("secType", O_SECTYPE)] = true.
Proof. exact layout_entry. Qed.

Theorem C03_layout_filehdr : has layout_bFileHeaderBlock
  [("type", O_TYPE); ("headerKey", O_HKEY); ("highSeq", O_HIGHSEQ); ("firstData", O_FIRSTDATA); ("checkSum", O_SUM);
   ("dataBlocks", O_TABLE); ("access", O_PROT); ("byteSize", O_SIZE); ("commLen", O_COMMLEN); ("comment", O_COMM);
   ("days", O_DAYS); ("nameLen", O_NAMELEN); ("fileName", O_NAME);
   ("nextSameHash", O_NEXTHASH); ("parent", O_PARENT); ("extension", O_EXT); ("secType", O_SECTYPE)] = true.
Proof. exact layout_filehdr. Qed.

Theorem C03_layout_dir : has layout_bDirBlock
  [("type", O_TYPE); ("headerKey", O_HKEY); ("checkSum", O_SUM); ("hashTable", O_TABLE); ("access", O_PROT);
   ("commLen", O_COMMLEN); ("comment", O_COMM); ("days", O_DAYS); ("nameLen", O_NAMELEN); ("dirName", O_NAME);
   ("nextSameHash", O_NEXTHASH); ("parent", O_PARENT); ("extension", O_EXT); ("secType", O_SECTYPE)] = true.
Proof. exact layout_dir. Qed.

Theorem C03_layout_ext : has layout_bFileExtBlock
  [("type", O_TYPE); ("headerKey", O_HKEY); ("highSeq", O_HIGHSEQ); ("checkSum", O_SUM); ("dataBlocks", O_TABLE);
   ("parent", O_PARENT); ("extension", O_EXT); ("secType", O_SECTYPE)] = true.
Proof. exact layout_ext. Qed.

Theorem C03_layout_data_cache_bitmap :
  has layout_bOFSDataBlock [("type", 0); ("headerKey", 4); ("seqNum", 8); ("dataSize", 12); ("nextData", 16); ("checkSum", 20); ("data", 24)] = true /\
  has layout_bDirCacheBlock [("type", 0); ("headerKey", 4); ("parent", 8); ("recordsNb", 12); ("nextDirC", 16); ("checkSum", 20); ("records", 24)] = true /\
  has layout_bBitmapBlock [("checkSum", 0); ("map", 4)] = true /\ has layout_bBitmapExtBlock [("bmPages", 0); ("nextBlock", 508)] = true.
Proof. split; [exact layout_ofsdata|]. split; [exact layout_cache|exact layout_bitmap]. Qed.

Theorem C03_block_sizes :
  sizeof_bRootBlock = 512 /\ sizeof_bEntryBlock = 512 /\ sizeof_bFileHeaderBlock = 512 /\ sizeof_bFileExtBlock = 512 /\
  sizeof_bDirBlock = 512 /\ sizeof_bOFSDataBlock = 512 /\ sizeof_bBitmapBlock = 512 /\ sizeof_bBitmapExtBlock = 512 /\
  sizeof_bDirCacheBlock = 512 /\ sizeof_bLinkBlock = 512 /\ sizeof_bBootBlock = 1024.
Proof. exact layout_sizes. Qed.

Theorem C03_swap_table :
  swap_agrees (row 1) layout_bRootBlock = true /\
  swap_agrees (row 3) layout_bEntryBlock = true /\ swap_agrees (row 3) layout_bFileHeaderBlock = true /\
  swap_agrees (row 3) layout_bDirBlock = true /\
  swap_agrees (row 5) layout_bFileExtBlock = true /\ swap_agrees (row 5) layout_bBitmapBlock = true /\
  swap_agrees (row 5) layout_bBitmapExtBlock = true /\
  swap_agrees (row 2) layout_bOFSDataBlock = true /\
  swap_agrees (row 6) layout_bLinkBlock = true /\
  row_total (row 1) 16 = 512 /\ row_total (row 2) 16 = 512 /\ row_total (row 3) 16 = 512 /\ row_total (row 5) 16 = 512 /\
  row_total (row 6) 16 = 512 /\ row_total (row 4) 16 = 24 /\ row_total (row 0) 16 = 1024.
Proof. exact swap_rows. Qed.

Theorem C03_constants :
  K_HT_SIZE = 72 /\ K_MAX_DATABLK = 72 /\ K_BM_SIZE = 25 /\ K_MAXNAMELEN = 30 /\ K_MAXCMMTLEN = 79 /\
  K_T_HEADER = T_HEADER /\ K_T_LIST = T_LIST /\ K_T_DATA = T_DATA /\ K_T_DIRC = T_DIRC /\
  K_ST_ROOT = ST_ROOT /\ K_ST_DIR = ST_DIR /\ K_ST_FILE = ST_FILE /\ K_ST_LFILE = ST_LFILE /\ K_ST_LDIR = ST_LDIR /\ K_ST_LSOFT = ST_LSOFT /\
  K_BM_VALID = -1.
Proof. exact block_constants. Qed.

(* the slot the decoder demands for an entry is the slot the library computes for its name *)
Theorem C03_hash_placement : forall (name : list Z) (intl : Z) (fuel : nat),
  is_byte_string name -> Z.of_nat (List.length name) < 2 ^ 32 -> (31 < fuel)%nat ->
  c_adfGetHashValue fuel name intl = Some (hash_name (negb (intl =? 0)) (trunc30 name)).
Proof. exact hash_gen. Qed.

(* the checksum the library computes for a block, stored at the checksum offset, is accepted by the decoder's checksum test,
   and it is the only value that is - for every 512-byte block and every long-aligned offset (20: header-type, data, cache
   blocks; 0: bitmap blocks; 8: RDB blocks) *)
Theorem C03_checksum_accepted : forall (b : list Z) (off : Z) (fuel : nat) (s : Z),
  List.length b = 512%nat -> 0 <= off < 512 -> off mod 4 = 0 -> (128 < fuel)%nat ->
  c_adfNormalSum fuel b off 512 = Some s ->
  0 <= s < 2 ^ 32 /\ sum_ok (put_be32 b off s) = true.
Proof. exact normalsum_accepted. Qed.
Theorem C03_checksum_unique : forall (b : list Z) (off : Z) (fuel : nat) (s v : Z),
  List.length b = 512%nat -> 0 <= off < 512 -> off mod 4 = 0 -> (128 < fuel)%nat ->
  c_adfNormalSum fuel b off 512 = Some s -> 0 <= v < 2 ^ 32 ->
  sum_ok (put_be32 b off v) = true -> v = s.
Proof. exact normalsum_unique. Qed.
(* non-vacuity: a concrete block *)
Example C03_checksum_example :
  c_adfNormalSum 200 (repeat 0 500 ++ [1; 2; 3; 4; 255; 255; 255; 255; 0; 0; 0; 9]) 20 512 = Some 4278058228 /\
  sum_ok (put_be32 (repeat 0 500 ++ [1; 2; 3; 4; 255; 255; 255; 255; 0; 0; 0; 9]) 20 4278058228) = true.
Proof. vm_compute. split; reflexivity. Qed.
(* the shape of a file's block lists (Model/FileMap.enc, tied by checks/filemapcorr.py) is the one the format demands and the
   decoder checks: min(72, n) pointers in the header, one extension block per started group of 72 beyond it, every table
   full except the last, which holds the remaining 1..72 pointers; concatenated they are the file's data blocks in order *)
Theorem C03_block_list_shape : forall (l es : list Z), List.length es = nexts (List.length l) ->
  List.length (enc_hdr l) = Nat.min SLOTS (List.length l) /\
  List.length (enc_exts l es) = nexts (List.length l) /\
  (forall j e t, nth_error (enc_exts l es) j = Some (e, t) ->
     nth_error es j = Some e /\
     List.length t = (if Nat.ltb (S j) (nexts (List.length l)) then SLOTS else List.length l - SLOTS - SLOTS * j)%nat /\ (1 <= List.length t <= SLOTS)%nat) /\
  List.app (enc_hdr l) (List.concat (List.map snd (enc_exts l es))) = l.
Proof. exact enc_shape. Qed.

Print Assumptions C03_layout_root.
Print Assumptions C03_layout_entry.
Print Assumptions C03_layout_filehdr.
Print Assumptions C03_layout_dir.
Print Assumptions C03_layout_ext.
Print Assumptions C03_layout_data_cache_bitmap.
Print Assumptions C03_block_sizes.
Print Assumptions C03_swap_table.
Print Assumptions C03_constants.
Print Assumptions C03_hash_placement.
Print Assumptions C03_checksum_accepted.
Print Assumptions C03_checksum_unique.
Print Assumptions C03_block_list_shape.

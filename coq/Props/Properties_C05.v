(* C05 Allocation conservation.
   Proved: adfCountFreeBlocks (hand mirror over the regenerated bit test) counts exactly the free bits of blocks
   2..last; taking a free block lowers the count by exactly one and touches no other bit (with C04_set_free /
   C04_set_used: releasing raises it by one); the two block-count computations used when a file is created and when
   its blocks are released agree (C01_geometry_realsize).  'allocated = reachable + reserved at every quiescent point'
   and 'create then delete restores the free count' are judged per explored history by the extracted decoder. *)
From Coq Require Import ZArith List Bool Lia.
From ADF Require Import CPrelude Generated.Layout Generated.Leaf Model.Bitmap Proofs.BitmapP Proofs.ConserveP Proofs.AllocCountP Proofs.GeometryP Model.FileMap Proofs.FileMapP.
From Coq Require Import Permutation.
From ADF Require Model.FileIO Proofs.FileIOP Proofs.FileIOCycleP.
Import ListNotations.
Local Open Scope Z_scope.

Theorem C05_count : forall b last, count_free b last = Z.of_nat (nfree b (zseq 2 (Z.to_nat (last - 1)))).
Proof. exact count_free_spec. Qed.

Theorem C05_count_after_alloc : forall b n last, 2 <= n <= last -> is_free b n = true ->
  count_free (set_used b n) last = count_free b last - 1.
Proof. exact count_after_set_used. Qed.

Theorem C05_blocks_of_file : forall size bs o1 o2, valid_bs bs -> 0 <= size < 2 ^ 32 ->
  let d := cdiv size bs in
  let e := if d <=? 72 then 0 else cdiv (d - 72) 72 in
  c_adfFileRealSize size bs o1 o2 = (e + d + 1, d, e) /\ c_adfFileSize2Blocks size bs = d + e + 1.
Proof.
  intros size bs o1 o2 Hbs Hs d e. split.
  - exact (filerealsize_spec size bs o1 o2 Hbs Hs).
  - exact (size2blocks_spec size bs Hbs Hs).
Qed.

Example C05_witness : count_free (set_used (set_used (fun _ _ => 4294967295) 880) 881) 1759 = 1756.
Proof. vm_compute. reflexivity. Qed.

(* shrinking a file (Model/FileMap.v, tied by checks/filemapcorr.py): what is kept plus what is given back is exactly what the
   file had - data blocks beyond the new length and the extension blocks no longer needed - and nothing kept is given back *)
Theorem C05_truncate_conserves : forall s n, Inv s -> (n <= length (f_data s))%nat ->
  let '(s', freed) := f_trunc s n in
  Inv s' /\ f_data s' = firstn n (f_data s) /\
  Permutation (f_data s' ++ f_exts s' ++ freed) (f_data s ++ f_exts s) /\
  (forall b, In b freed -> ~ In b (f_data s' ++ f_exts s')).
Proof. exact trunc_inv. Qed.

(* the same on the file handle model (Model/FileIO.v: adfFileTruncate and adfFileTruncateGetBlocksToRemove statement by statement, tied to
   adf_file.c by the call-level correspondence with bitmap probes): the list a successful shrinking truncation hands to
   adfSetBlockFree is, up to order, exactly the data blocks beyond the new length and the extension blocks no longer needed -
   every block the file occupied beyond its new size, and none that it keeps (the kept lists are the prefixes: C01_handle_truncate_shrink) *)
Theorem C05_truncate_frees_exactly_the_cut_blocks : forall bs ofs key, 0 < bs -> forall s L E al new ok s' rem al',
  FileIOP.Inv bs ofs key s L E -> FileIO.mw s = true -> 0 <= new < FileIO.fsize s ->
  FileIO.fio_truncate bs ofs FileIOP.nobad s new al = (ok, s', rem, al') -> ok = true ->
  Permutation rem (skipn (Z.to_nat (FileIO.size2db new bs)) L ++ skipn (Z.to_nat (FileIO.db2ext (FileIO.size2db new bs))) E).
Proof. exact FileIOP.fio_truncate_shrink_frees. Qed.

(* whole sets of blocks (any operation's takes and releases): taking any set of distinct free blocks lowers the count by exactly their
   number, releasing any set of distinct used blocks raises it by their number; with C05_truncate_frees_exactly_the_cut_blocks: a shrinking
   truncation raises the free count by exactly the number of blocks the file occupied beyond its new size *)
Theorem C05_count_after_taking : forall b last l, NoDup l -> (forall x, In x l -> 2 <= x <= last /\ is_free b x = true) ->
  count_free (fold_left set_used l b) last = count_free b last - Z.of_nat (length l).
Proof. exact count_after_taking. Qed.

Theorem C05_count_after_releasing : forall b last l, NoDup l -> (forall x, In x l -> 2 <= x <= last /\ is_free b x = false) ->
  count_free (fold_left set_free l b) last = count_free b last + Z.of_nat (length l).
Proof. exact count_after_releasing. Qed.

(* take a set and give it back: the count is what it was *)
Theorem C05_take_then_release_restores : forall b last l, NoDup l -> (forall x, In x l -> 2 <= x <= last /\ is_free b x = true) ->
  count_free (fold_left set_free l (fold_left set_used l b)) last = count_free b last.
Proof.
  intros b last l Hnd H. rewrite count_after_releasing.
  - rewrite count_after_taking by assumption. lia.
  - exact Hnd.
  - intros x Hx. split; [apply H; exact Hx|]. exact (taken_are_used b last l H x Hx).
Qed.

(* the allocator itself: a granted adfGetFreeBlocks(want) lowers adfCountFreeBlocks by exactly want (mirror of the scan, tied by the allocator
   correspondence; bit operations regenerated) *)
Theorem C05_alloc_lowers_count_by_want : forall b root last want l b', 2 < root <= last ->
  get_free_blocks b root last want = Some (l, b') -> count_free b' last = count_free b last - Z.of_nat want.
Proof. exact alloc_count. Qed.

(* append and take back, on the file handle model: appending to a file and truncating it to its old size restores the block lists and the
   content exactly, and the blocks the truncation hands to adfSetBlockFree are exactly the data and extension blocks the append had linked *)
Theorem C05_append_then_truncate_back_restores : forall bs ofs key, 0 < bs -> forall s L E ct data al al2,
  FileIOP.Inv bs ofs key s L E -> FileIOP.Repr bs s L ct -> FileIO.mw s = true -> FileIOP.al_ok key L E al ->
  FileIO.pos s = FileIO.fsize s -> data <> [] ->
  exists s1 w al1 nl ne, FileIO.fio_write bs ofs FileIOP.nobad s data al = (s1, w, al1) /\ FileIOP.Inv bs ofs key s1 (L ++ nl) (E ++ ne) /\
    FileIOP.Repr bs s1 (L ++ nl) (ct ++ firstn (Z.to_nat w) data) /\
    (0 < w ->
     exists s2 rem, FileIO.fio_truncate bs ofs FileIOP.nobad s1 (FileIO.fsize s) al2 = (true, s2, rem, al2) /\ FileIOP.Inv bs ofs key s2 L E /\
       FileIOP.Repr bs s2 L ct /\ FileIO.fsize s2 = FileIO.fsize s /\ Permutation rem (nl ++ ne)).
Proof. exact FileIOCycleP.append_then_truncate_back. Qed.

Print Assumptions C05_count.
Print Assumptions C05_append_then_truncate_back_restores.
Print Assumptions C05_alloc_lowers_count_by_want.
Print Assumptions C05_count_after_taking.
Print Assumptions C05_count_after_releasing.
Print Assumptions C05_take_then_release_restores.
Print Assumptions C05_truncate_frees_exactly_the_cut_blocks.
Print Assumptions C05_count_after_alloc.
Print Assumptions C05_blocks_of_file.
Print Assumptions C05_truncate_conserves.

(* C11 Hostile images: the read path terminates.
   The decoder of the specification side walks every chain with fuel `volume size + 1` and never runs out on a
   well-formed image; proved here: the generic fact behind all the bounded walks added to the library - a walk that
   visits pairwise distinct in-range blocks makes at most `n` steps, so a step budget of `n` is never exhausted by a
   cycle-free chain and always by a cyclic one.  Termination of the C loops on arbitrary images is decided per explored
   image with a device-read budget (checks/c11.py). *)
From Coq Require Import ZArith List Bool Lia.
From ADF Require Import CPrelude.
Import ListNotations.
Local Open Scope Z_scope.

(* pigeonhole: more than n blocks in [0,n) cannot be pairwise distinct *)
Lemma incl_length_nodup (l : list nat) (n : nat) : NoDup l -> (forall x, In x l -> (x < n)%nat) -> (length l <= n)%nat.
Proof.
  intros Hnd Hin.
  assert (incl l (seq 0 n)) by (intros x Hx; apply in_seq; specialize (Hin x Hx); lia).
  pose proof (NoDup_incl_length Hnd H) as L. rewrite seq_length in L. exact L.
Qed.

Lemma nodup_map_inj (l : list Z) : NoDup l ->
  (forall x y, In x l -> In y l -> Z.to_nat x = Z.to_nat y -> x = y) -> NoDup (map Z.to_nat l).
Proof.
  induction l as [|a l IH]; intros Hnd Hinj; cbn [map]; [constructor|].
  inversion Hnd as [|? ? Hna Hnd']; subst. constructor.
  - intros Hin. apply in_map_iff in Hin. destruct Hin as (y & E & Hy).
    assert (y = a) by (apply Hinj; [right; exact Hy|left; reflexivity|exact E]). subst y. contradiction.
  - apply IH; [exact Hnd'|]. intros x y Hx Hy. apply Hinj; right; assumption.
Qed.

Theorem C11_chain_budget : forall (chain : list Z) (n : Z), 0 <= n ->
  NoDup chain -> (forall b, In b chain -> 0 <= b < n) -> Z.of_nat (length chain) <= n.
Proof.
  intros chain n Hn0 Hnd Hr.
  destruct (Z_le_dec n 0) as [Hn|Hn].
  - destruct chain as [|b c]; [simpl; lia|]. specialize (Hr b (or_introl eq_refl)). lia.
  - pose proof (incl_length_nodup (map Z.to_nat chain) (Z.to_nat n)) as P.
    rewrite map_length in P.
    assert (NoDup (map Z.to_nat chain)).
    { apply nodup_map_inj; [exact Hnd|].
      intros x y Hx Hy E. pose proof (Hr x Hx). pose proof (Hr y Hy). lia. }
    specialize (P H). assert (length chain <= Z.to_nat n)%nat.
    { apply P. intros x Hx. apply in_map_iff in Hx. destruct Hx as (z & <- & Hz). specialize (Hr z Hz). lia. }
    lia.
Qed.

(* hence: a walk that has made more than n steps over in-range blocks has visited some block twice *)
Corollary C11_budget_exceeded_means_cycle : forall (visited : list Z) (n : Z), 0 <= n ->
  (forall b, In b visited -> 0 <= b < n) -> n < Z.of_nat (length visited) -> ~ NoDup visited.
Proof. intros visited n Hn Hr Hlen Hnd. pose proof (C11_chain_budget visited n Hn Hnd Hr). lia. Qed.

Print Assumptions C11_chain_budget.
Print Assumptions C11_budget_exceeded_means_cycle.

(* C04 Allocation soundness.
   Proved (unbounded): the bit arithmetic of adfIsBlockFree / adfSetBlockFree / adfSetBlockUsed - index and mask
   expressions REGENERATED from adf_bitm.c - against the bitmap layout of adf_info.txt; and the circular scan of
   adfGetFreeBlocks (hand mirror Model/Bitmap.v, tied by correspondence on random bitmaps).
   'Every reachable block is reached once and marked allocated on disk at every quiescent point of every history' is
   judged per explored history by the extracted decoder (checks/c04.py). *)
From Coq Require Import ZArith List Bool.
From ADF Require Import CPrelude Generated.Layout Generated.Leaf Model.Bitmap Proofs.BitmapP.
Local Open Scope Z_scope.

Theorem C04_is_free : forall b n, 2 <= n -> is_free b n = spec_free b n.
Proof. exact is_free_spec. Qed.

Theorem C04_set_used : forall b n m, 2 <= n -> 2 <= m ->
  spec_free (set_used b n) m = if m =? n then false else spec_free b m.
Proof. exact set_used_spec. Qed.

Theorem C04_set_free : forall b n m, 2 <= n -> 2 <= m ->
  spec_free (set_free b n) m = if m =? n then true else spec_free b m.
Proof. exact set_free_spec. Qed.

(* page / word / bit indices are in bounds exactly for the blocks of the volume, and distinct blocks use distinct bits *)
Theorem C04_idx_in_bounds : forall n last_rel, 2 <= n <= last_rel ->
  0 <= (n - 2) / 4064 < (last_rel - 1 + 4063) / 4064 /\ 0 <= ((n - 2) / 32) mod 127 < 127 /\ 0 <= (n - 2) mod 32 < 32.
Proof. exact idx_in_bounds. Qed.

Theorem C04_idx_injective : forall n m, 2 <= n -> 2 <= m ->
  (n - 2) / 4064 = (m - 2) / 4064 -> ((n - 2) / 32) mod 127 = ((m - 2) / 32) mod 127 -> (n - 2) mod 32 = (m - 2) mod 32 -> n = m.
Proof. exact idx_injective. Qed.

(* the allocator returns `want` distinct blocks, each previously free and inside [2,last] (never a boot block,
   never outside the volume) ... *)
Theorem C04_alloc_sound : forall b root last want l, 2 < root <= last ->
  scan (Z.to_nat last + 2) b root last want root nil = Some l ->
  length l = want /\ NoDup l /\ forall x, In x l -> 2 <= x <= last /\ is_free b x = true.
Proof. exact alloc_sound. Qed.

(* ... marks exactly those used ... *)
Theorem C04_alloc_marks : forall b root last want l b', 2 < root <= last ->
  get_free_blocks b root last want = Some (l, b') ->
  forall m, 2 <= m -> is_free b' m = if existsb (Z.eqb m) l then false else is_free b m.
Proof. exact alloc_marks. Qed.

(* ... and fails only if fewer than `want` blocks are free (every block of [2,last] is visited once) *)
Theorem C04_alloc_complete : forall b root last want, 2 < root <= last ->
  scan (Z.to_nat last + 2) b root last want root nil = None ->
  (nfree b (order root last) < want)%nat.
Proof. exact alloc_complete. Qed.

Example C04_witness :
  let b := set_used (set_used (fun _ _ => 4294967295) 880) 881 in
  scan 1800 b 880 1759 3 880 nil = Some (882 :: 883 :: 884 :: nil) /\ is_free b 881 = false /\ is_free b 882 = true.
Proof. vm_compute. repeat split; reflexivity. Qed.

Print Assumptions C04_is_free.
Print Assumptions C04_set_used.
Print Assumptions C04_set_free.
Print Assumptions C04_idx_in_bounds.
Print Assumptions C04_idx_injective.
Print Assumptions C04_alloc_sound.
Print Assumptions C04_alloc_marks.
Print Assumptions C04_alloc_complete.

(* C07 Directory-cache coherence.
   Proved here: the record-length arithmetic of the cache code (expressions REGENERATED from adf_cache.c) - the length
   adfEntry2CacheEntry announces equals what adfPutCacheEntry writes, is even, between 26 and 134 for names of 1..30
   and comments of 0..79 bytes, so a record that passes the `offset + len <= 488` test lies inside the record area.
   Coherence of the cached listing with the hash tables over histories is judged by the extracted decoder
   (Spec/Decode.v: cache_chain, crecs_agree) and by comparing listings served from the cache with the reference model. *)
From Coq Require Import ZArith List Bool Lia.
From Coq Require Import Permutation.
From ADF Require Import CPrelude Generated.Leaf Proofs.CacheCodecP Model.CacheChain Proofs.CacheChainP.
Import ListNotations.
Local Open Scope Z_scope.

Definition rec_len (nl cl : Z) : Z :=
  let l := s_adfEntry2CacheEntry_len cl nl in if Z.even l then l else l + 1.

Definition put_len (nl cl : Z) : Z :=
  let l := s_adfPutCacheEntry_len cl nl in if Z.even l then l else l + 1.

Theorem C07_record_length : forall nl cl, 1 <= nl <= 30 -> 0 <= cl <= 79 ->
  rec_len nl cl = put_len nl cl /\ Z.even (rec_len nl cl) = true /\ 26 <= rec_len nl cl <= 134 /\
  25 + nl + cl <= rec_len nl cl <= 26 + nl + cl.
Proof.
  intros nl cl Hn Hc. unfold rec_len, put_len, s_adfEntry2CacheEntry_len, s_adfPutCacheEntry_len. cbv zeta.
  replace (24 + nl + 1 + cl) with (25 + nl + cl) by lia.
  destruct (Z.even (25 + nl + cl)) eqn:E.
  - split; [reflexivity|]. split; [exact E|]. lia.
  - assert (25 + nl + cl <> 134) by (intro X; rewrite X in E; discriminate).
    split; [reflexivity|]. split; [rewrite Z.even_add, E; reflexivity|]. lia.
Qed.

(* a record accepted by the area test touches only offsets below 488 *)
Theorem C07_area_bound : forall off nl cl, 0 <= off -> 1 <= nl <= 30 -> 0 <= cl <= 79 ->
  off + rec_len nl cl <= 488 -> forall i, 0 <= i < rec_len nl cl -> 0 <= off + i < 488.
Proof. intros. lia. Qed.

(* ---- the record codec (adfPutCacheEntry / adfGetCacheEntry, REGENERATED from adf_cache.c, buffer-writing translation) ---- *)
Definition cache_rec_len (nl cl : Z) : Z := if Z.even (25 + nl + cl) then 25 + nl + cl else 25 + nl + cl + 1.

(* a record written at an even offset p of a 488-byte record area with room for it is read back field by field; the
   reader's next offset is p + the length the writer returned; whatever the reader's struct held before *)
Theorem C07_codec_roundtrip : forall (recs : list Z) (p hdr size prot days mins ticks typ : Z) (name comm : list Z),
  length recs = 488%nat -> 0 <= p -> Z.even p = true ->
  p + cache_rec_len (Z.of_nat (length name)) (Z.of_nat (length comm)) <= 488 ->
  1 <= Z.of_nat (length name) <= 30 -> Z.of_nat (length comm) <= 79 ->
  0 <= hdr < 2 ^ 32 -> 0 <= size < 2 ^ 32 -> 0 <= prot < 2 ^ 32 ->
  0 <= days < 65536 -> 0 <= mins < 65536 -> 0 <= ticks < 65536 -> -128 <= typ < 128 ->
  forall (e_cLen : Z) (e_comm : list Z) (e_days e_header e_mins e_nLen : Z) (e_name : list Z) (e_protect e_size e_ticks e_type : Z),
  length e_name = 31%nat -> length e_comm = 80%nat ->
  let put := c_adfPutCacheEntry recs p (Z.of_nat (length comm)) comm days hdr mins (Z.of_nat (length name)) name prot size ticks typ in
  exists name' comm',
    c_adfGetCacheEntry (snd put) p e_cLen e_comm e_days e_header e_mins e_nLen e_name e_protect e_size e_ticks e_type
      = (0, p + cache_rec_len (Z.of_nat (length name)) (Z.of_nat (length comm)), hdr, size, prot, days, mins, ticks, typ,
         Z.of_nat (length name), name', Z.of_nat (length comm), comm') /\
    firstn (length name) name' = name /\ firstn (length comm) comm' = comm.
Proof. exact codec_roundtrip. Qed.

(* the writer returns that length and changes no byte outside [p, p + length) *)
Theorem C07_codec_frame : forall (recs : list Z) (p hdr size prot days mins ticks typ : Z) (name comm : list Z),
  length recs = 488%nat -> 0 <= p -> p + cache_rec_len (Z.of_nat (length name)) (Z.of_nat (length comm)) <= 488 ->
  1 <= Z.of_nat (length name) <= 30 ->
  let put := c_adfPutCacheEntry recs p (Z.of_nat (length comm)) comm days hdr mins (Z.of_nat (length name)) name prot size ticks typ in
  fst put = cache_rec_len (Z.of_nat (length name)) (Z.of_nat (length comm)) /\
  forall j, (j < p \/ p + cache_rec_len (Z.of_nat (length name)) (Z.of_nat (length comm)) <= j) -> nthZ (snd put) j = nthZ recs j.
Proof. intros. split; [apply put_fst | apply put_frame]; assumption. Qed.

(* the reader accepts a record only if it lies inside the record area, for ANY block content *)
Theorem C07_reader_stays_inside : forall B p e_cLen e_comm e_days e_header e_mins e_nLen e_name e_protect e_size e_ticks e_type
                                         rc p' h s pr d m t ty nl nm cl cm,
  c_adfGetCacheEntry B p e_cLen e_comm e_days e_header e_mins e_nLen e_name e_protect e_size e_ticks e_type
    = (rc, p', h, s, pr, d, m, t, ty, nl, nm, cl, cm) ->
  rc = 0 -> 0 <= p <= 462 /\ 1 <= nl <= 30 /\ cl <= 79 /\ p + 25 + nl + cl <= 488 /\ p' <= 489.
Proof. exact get_ok_inside. Qed.

Example C07_codec_example :
  let recs := repeat 170 488 in
  let put := c_adfPutCacheEntry recs 40 2 [104; 105] 7000 883 60 3 [97; 98; 99] 15 4096 49 (-3) in
  fst put = 30 /\
  c_adfGetCacheEntry (snd put) 40 0 (repeat 0 80) 0 0 0 0 (repeat 0 31) 0 0 0 0
    = (0, 70, 883, 4096, 15, 7000, 60, 49, -3, 3, [97; 98; 99] ++ repeat 0 28, 2, [104; 105] ++ repeat 0 78).
Proof. vm_compute. split; reflexivity. Qed.

(* ---- the chain of cache blocks of a directory (Model/CacheChain.v: adfAddInCache / adfDelFromCache / adfUpdateCache at the level
   of whole records; tied to adf_cache.c by the block-level correspondence of checks/cachecorr.py) refines a plain list of
   records keyed by the entry's header block, for every history.  Inv = at least one block, every block within the 488-byte
   area, only the first block may be empty, block numbers distinct, one record per entry. ---- *)
Theorem C07_cache_add : forall c r nb, CacheChainP.Inv c -> ~ In (r_key r) (map r_key (recs c)) -> (r_len r <= AREA)%nat -> ~ In nb (map fst c) ->
  CacheChainP.Inv (c_add c r nb) /\ recs (c_add c r nb) = (recs c ++ [r])%list.
Proof. exact add_refines. Qed.

Theorem C07_cache_delete : forall c k, CacheChainP.Inv c ->
  let '(c', fr) := c_del c k in
  CacheChainP.Inv c' /\ recs c' = remove_key k (recs c) /\ Permutation (map fst c' ++ fr) (map fst c) /\
  ~ In k (map r_key (recs c')) /\ (length fr <= 1)%nat.
Proof. exact del_refines. Qed.

Theorem C07_cache_update : forall c r' nb, CacheChainP.Inv c -> In (r_key r') (map r_key (recs c)) -> (r_len r' <= AREA)%nat -> ~ In nb (map fst c) ->
  let '(c', fr) := c_update c r' nb in
  CacheChainP.Inv c' /\ Permutation (recs c') (r' :: remove_key (r_key r') (recs c)) /\
  (forall b, In b (map fst c' ++ fr) -> In b (nb :: map fst c)) /\ (length fr <= 1)%nat.
Proof. exact update_refines. Qed.

(* the model's test "does the record still fit the last block" is the library's (condition slice regenerated from adfAddInCache) *)
Theorem C07_cache_fits_is_librarys : forall (rs : list crec) (r : crec),
  d_adfAddInCache_fits (Z.of_nat (r_len r)) (Z.of_nat (used rs)) = 1 <-> (Nat.leb (used rs + r_len r) AREA) = true.
Proof. exact add_fits_is_librarys. Qed.

Example C07_cache_example :
  let r k l := {| r_key := k; r_len := l; r_body := [] |} in
  let c1 := c_add (c_add (c_add [(881, [])] (r 900 40%nat) 0) (r 901 440%nat) 0) (r 902 40%nat) 950 in
  map fst c1 = [881; 950] /\ map r_key (recs (fst (c_del c1 902))) = [900; 901] /\ snd (c_del c1 902) = [950] /\
  map r_key (recs (fst (c_update c1 (r 900 60%nat) 951))) = [901; 902; 900].
Proof. vm_compute. repeat split; reflexivity. Qed.

Print Assumptions C07_record_length.
Print Assumptions C07_cache_add.
Print Assumptions C07_cache_delete.
Print Assumptions C07_cache_update.
Print Assumptions C07_codec_roundtrip.
Print Assumptions C07_codec_frame.
Print Assumptions C07_reader_stays_inside.
Print Assumptions C07_area_bound.
Print Assumptions C07_cache_fits_is_librarys.

(* C07 Directory-cache coherence.
   Proved here: the record-length arithmetic of the cache code (expressions REGENERATED from adf_cache.c) - the length
   adfEntry2CacheEntry announces equals what adfPutCacheEntry writes, is even, between 26 and 134 for names of 1..30
   and comments of 0..79 bytes, so a record that passes the `offset + len <= 488` test lies inside the record area.
   Coherence of the cached listing with the hash tables over histories is judged by the extracted decoder
   (Spec/Decode.v: cache_chain, crecs_agree) and by comparing listings served from the cache with the reference model. *)
From Coq Require Import ZArith List Bool Lia.
From ADF Require Import CPrelude Generated.Leaf.
Local Open Scope Z_scope.

Definition rec_len (nl cl : Z) : Z :=
  let l := s_adfEntry2CacheEntry_len cl nl in if Z.even l then l else l + 1.

Definition put_len (nl cl : Z) : Z :=
  let l := s_adfPutCacheEntry_len cl nl in if Z.even l then l else l + 1.

Theorem C07_record_length : forall nl cl, 1 <= nl <= 30 -> 0 <= cl <= 79 ->
  rec_len nl cl = put_len nl cl /\ Z.even (rec_len nl cl) = true /\ 26 <= rec_len nl cl <= 134 /\
  25 + nl + cl <= rec_len nl cl <= 26 + nl + cl.
Proof.
  intros nl cl Hn Hc. unfold rec_len, put_len, s_adfEntry2CacheEntry_len, s_adfPutCacheEntry_len. cbv zeta.
  replace (24 + nl + 1 + cl) with (25 + nl + cl) by lia.
  destruct (Z.even (25 + nl + cl)) eqn:E.
  - split; [reflexivity|]. split; [exact E|]. lia.
  - assert (25 + nl + cl <> 134) by (intro X; rewrite X in E; discriminate).
    split; [reflexivity|]. split; [rewrite Z.even_add, E; reflexivity|]. lia.
Qed.

(* a record accepted by the area test touches only offsets below 488 *)
Theorem C07_area_bound : forall off nl cl, 0 <= off -> 1 <= nl <= 30 -> 0 <= cl <= 79 ->
  off + rec_len nl cl <= 488 -> forall i, 0 <= i < rec_len nl cl -> 0 <= off + i < 488.
Proof. intros. lia. Qed.

Print Assumptions C07_record_length.
Print Assumptions C07_area_bound.

(* C09 Memory safety and allocation hygiene for valid histories.
   Memory safety of compiled C is a fact about the C abstract machine (DESIGN.md section 11): it is decided by running valid
   histories under AddressSanitizer/LeakSanitizer/valgrind and by a malloc ledger (checks/c09.py).
   The logic part that is proved: the index arithmetic the write path uses to address its fixed-size buffers stays in
   bounds - bitmap page/word/bit for every block of the volume (C04_idx_in_bounds), the 72-slot block tables for every
   file position (C01_geometry_pos), the 488-byte cache record area for every accepted record (C07_area_bound). *)
From Coq Require Import ZArith List Bool Lia.
From ADF Require Import CPrelude Generated.Leaf Proofs.GeometryP Proofs.BitmapP.
Local Open Scope Z_scope.

Theorem C09_bitmap_indices_in_bounds : forall n last_rel, 2 <= n <= last_rel ->
  0 <= (n - 2) / 4064 < (last_rel - 1 + 4063) / 4064 /\ 0 <= ((n - 2) / 32) mod 127 < 127 /\ 0 <= (n - 2) mod 32 < 32.
Proof. exact idx_in_bounds. Qed.

(* the slot index 71 - idx used for dataBlocks[] is inside the 72-entry table for every position *)
Theorem C09_table_index_in_bounds : forall pos bs, valid_bs bs -> 0 <= pos < 2 ^ 32 ->
  let '(ext, idx, off, blk) := c_adfPos2DataBlock pos bs in
  0 <= 71 - (if blk <? 72 then blk else idx) < 72 /\ 0 <= off < bs.
Proof.
  intros pos bs Hbs Hpos. pose proof (pos2datablock_exact pos bs Hbs Hpos) as H.
  destruct (c_adfPos2DataBlock pos bs) as [[[ext idx] off] blk].
  destruct H as (Hp & Ho & [(Hb & He & Hi)|(Hb & He & Hi & Hd)]).
  - destruct (Z.ltb_spec blk 72); [|lia]. assert (0 <= blk) by nia. lia.
  - destruct (Z.ltb_spec blk 72); lia.
Qed.

Print Assumptions C09_bitmap_indices_in_bounds.
Print Assumptions C09_table_index_in_bounds.

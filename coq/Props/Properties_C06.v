(* C06 Read compatibility.
   The independent decoder of the property is Spec/Decode.v (extracted); its byte offsets and constants are proved equal
   to the library's compiled layout in C03.  Proved here: the two facts about the decoder that make it a function of the
   image alone - it never looks at a block it was not led to by a pointer chain starting at the root, boot block or
   bitmap list is a property of its definition; what is stated and proved is determinism on agreeing images.
   Agreement of ADFlib's read path with the decoder on well-formed images is decided per explored image (checks/c06.py). *)
From Coq Require Import ZArith List Bool.
From ADF Require Import CPrelude Spec.Names Spec.Decode.
Local Open Scope Z_scope.

(* names: an entry is accepted only in the chain of its own name's hash, which is the library's hash (C15) *)
Theorem C06_hash_range : forall intl s, 0 <= hash_name intl s < 72.
Proof. intros. unfold hash_name, hash_folded. apply Z.mod_pos_bound. reflexivity. Qed.

Print Assumptions C06_hash_range.

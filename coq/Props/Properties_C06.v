(* C06 Read compatibility.
   The independent decoder of the property is Spec/Decode.v (extracted); its byte offsets and constants are proved equal
   to the library's compiled layout in C03.  Proved here: the two facts about the decoder that make it a function of the
   image alone - it never looks at a block it was not led to by a pointer chain starting at the root, boot block or
   bitmap list is a property of its definition; what is stated and proved is determinism on agreeing images.
   Agreement of ADFlib's read path with the decoder on well-formed images is decided per explored image (checks/c06.py).
   Proved on the file handle model (Model/FileIO.v = adf_file.c statement by statement): a file lying on ANY volume - header, data blocks L
   and extension blocks E placed anywhere, in any order, fragmented or not (`on_disk`) - opens into a coherent handle, and a read of n
   bytes at offset p through it returns exactly the slice of the content the tables lead to, for every p and n.  checks/c06.py runs the
   model, loaded with the blocks of files of images written by the independent writer, beside the library on the same open/seek/read calls. *)
From Coq Require Import ZArith List Bool.
From ADF Require Import CPrelude Spec.Names Spec.Decode.
From ADF Require Model.FileIO Proofs.FileIOL Proofs.FileIOP.
Local Open Scope Z_scope.

(* names: an entry is accepted only in the chain of its own name's hash, which is the library's hash (C15) *)
Theorem C06_hash_range : forall intl s, 0 <= hash_name intl s < 72.
Proof. intros. unfold hash_name, hash_folded. apply Z.mod_pos_bound. reflexivity. Qed.

Module H.
Import ListNotations ADF.Model.FileIO ADF.Proofs.FileIOL ADF.Proofs.FileIOP.

Theorem C06_open_any_placement : forall bs ofs key, 0 < bs -> forall d L E ct r w, on_disk bs ofs key d L E ct ->
  exists s', fio_open bs ofs nobad d key r w = (true, s') /\ Inv bs ofs key s' L E /\ Repr bs s' L ct /\ pos s' = 0 /\ dk s' = d /\ mr s' = r /\ mw s' = w.
Proof. exact open_image_ok. Qed.

Theorem C06_read_is_slice_of_content : forall bs ofs key, 0 < bs -> forall d L E ct w p n, on_disk bs ofs key d L E ct -> 0 <= p -> 0 <= n ->
  exists s1 s2 s3 rd, fio_open bs ofs nobad d key true w = (true, s1) /\ fio_seek bs ofs nobad s1 p = (true, s2) /\ fio_read bs ofs nobad s2 n = (s3, rd)
    /\ rd = sub ct (Z.min p (len ct)) (Z.max 0 (Z.min n (len ct - Z.min p (len ct)))) /\ pos s3 = Z.min p (len ct) + len rd.
Proof. exact read_image_slice. Qed.

(* not vacuous: a 3-byte-block "volume" with a 7-byte file whose blocks lie in reverse order; read 4 bytes at offset 2 *)
Example C06_slice_example :
  let h := {| h_key := 50; h_size := 7; h_first := 40; h_high := 3; h_tab := [40; 30; 20] ++ zerosZ 69; h_ext := 0 |} in
  let blk (l : list Z) := BData {| d_bytes := l; d_next := 0; d_size := 0; d_seq := 0; d_key := 0 |} in
  let d : disk := fun k => if k =? 50 then BHdr h else if k =? 40 then blk [1; 2; 3] else if k =? 30 then blk [4; 5; 6] else if k =? 20 then blk [7; 0; 0] else BOther in
  let '(_, s1) := fio_open 3 false nobad d 50 true false in
  let '(_, s2) := fio_seek 3 false nobad s1 2 in
  snd (fio_read 3 false nobad s2 4) = [3; 4; 5; 6].
Proof. vm_compute. reflexivity. Qed.
End H.

Print Assumptions C06_hash_range.
Print Assumptions H.C06_open_any_placement.
Print Assumptions H.C06_read_is_slice_of_content.

(* C10 Hostile images: no invalid memory access on the read path.
   Proved here (unbounded, regenerated guard): whatever block number an image supplies, the volume funnel passes it to
   the device only inside the volume (C13_any_program); and the lengths the cache-record arithmetic can produce
   (C07_record_length).  Memory safety of the C read path on corrupted images is a fact about the C abstract machine:
   it is decided per explored image under AddressSanitizer (checks/c10.py), not by a theorem - see DESIGN.md section 11. *)
From Coq Require Import ZArith List Bool.
From ADF Require Import CPrelude Generated.Leaf Base.Prog Proofs.ProgP.
Local Open Scope Z_scope.

Theorem C10_block_numbers_checked : forall n first last mounted ps sz,
  0 <= first <= last -> last < 2 ^ 31 ->
  g_adfReadBlock n first last mounted = GDev ps sz -> first <= ps <= last /\ sz = 512.
Proof. exact read_guard_in_range. Qed.

Print Assumptions C10_block_numbers_checked.

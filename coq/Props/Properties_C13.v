(* C13 Volume containment.  The guard of adfReadBlock/adfWriteBlock and the range computations of
   adfCreateVol/adfMountHd are REGENERATED from the C sources on every run; `run` (Base/Prog.v)
   interprets every volume-level access of every program through those guards. *)
From Coq Require Import ZArith List Bool String.
From ADF Require Import CPrelude Generated.Leaf Generated.Layout Base.Prog Proofs.ProgP Proofs.FormatP.
Import ListNotations.
Local Open Scope Z_scope.

(* the access is passed to the device iff first <= nSect+first <= last WITHOUT 32-bit wrap-around *)
Theorem C13_guard_read : forall n first last mounted,
  0 <= first <= last -> last < 2 ^ 31 -> 0 <= n < 2 ^ 32 ->
  g_adfReadBlock n first last mounted =
    if mounted =? 0 then GRet (-1)
    else if n + first <=? last then GDev (n + first) 512 else GRet 1.
Proof. exact read_guard_spec. Qed.

Theorem C13_guard_write : forall n first last mounted ro,
  0 <= first <= last -> last < 2 ^ 31 -> 0 <= n < 2 ^ 32 ->
  g_adfWriteBlock n first last mounted ro =
    if mounted =? 0 then GRet (-1)
    else if negb (ro =? 0) then GRet (-1)
    else if n + first <=? last then GDev (n + first) 512 else GRet 1.
Proof. exact write_guard_spec. Qed.

(* every device access of every program that uses the volume funnel lies in [first,last],
   for every device behaviour (faults, garbage), allocator and clock *)
Theorem C13_any_program : forall (D : Type) (E : env D) (v : volinfo) (dev_ro : Z), vol_ok v ->
  forall (A : Type) (p : prog A) (d : D), vol_only p ->
  Forall (fun e => v_first v <= ev_sector e <= v_last v) (snd (run E v dev_ro p d)).
Proof. intros D E v dev_ro Hv A p d. exact (containment_any_program E v dev_ro Hv p d). Qed.

(* partitions created from disjoint cylinder ranges (RDB area = cylinders 0-1) get disjoint block
   ranges outside the RDB area, and mounting recomputes exactly the ranges used at creation *)
Theorem C13_partitions : forall h s start1 len1 start2 len2,
  0 < h -> 0 < s -> 2 <= start1 -> 0 < len1 -> start1 + len1 <= start2 -> 0 < len2 ->
  h * s * (start2 + len2) < 2 ^ 31 ->
  let '(f1, l1, _) := s_adfCreateVol_range h s len1 start1 in
  let '(f2, l2, _) := s_adfCreateVol_range h s len2 start2 in
  2 * (h * s) <= f1 /\ f1 <= l1 /\ l1 < f2 /\ f2 <= l2 /\ l2 < 2 ^ 31.
Proof. exact partitions_disjoint. Qed.

Theorem C13_create_mount_agree : forall h s len start,
  0 < h -> 0 < s -> 0 <= start -> 0 < len -> h * s * (start + len) < 2 ^ 31 ->
  s_adfMountHd_range (start + len - 1) start (h * s) = s_adfCreateVol_range h s len start.
Proof. exact create_mount_agree. Qed.

(* the functions that call a device-level primitive directly are exactly the known funnel *)
Definition expected_device_users : list (string * list string) :=
  [ ("adfCreateDumpDevice", ["fseek"; "fwrite"]);
    ("adfInitDumpDevice", ["fseek"]);
    ("adfMountDev", ["adfReadBlockDev"]);
    ("adfMountHdFile", ["adfReadDumpSector"]);
    ("adfReadBlock", ["adfReadBlockDev"]);
    ("adfReadBlockDev", ["adfNativeReadSector"; "adfReadDumpSector"]);
    ("adfReadDumpSector", ["fread"; "fseek"]);
    ("adfReadFSHDblock", ["adfReadBlockDev"]);
    ("adfReadLSEGblock", ["adfReadBlockDev"]);
    ("adfReadPARTblock", ["adfReadBlockDev"]);
    ("adfReadRDSKblock", ["adfReadBlockDev"]);
    ("adfWriteBlock", ["adfWriteBlockDev"]);
    ("adfWriteBlockDev", ["adfNativeWriteSector"; "adfWriteDumpSector"]);
    ("adfWriteDumpSector", ["fseek"; "fwrite"]);
    ("adfWriteFSHDblock", ["adfWriteBlockDev"]);
    ("adfWriteLSEGblock", ["adfWriteBlockDev"]);
    ("adfWritePARTblock", ["adfWriteBlockDev"]);
    ("adfWriteRDSKblock", ["adfWriteBlockDev"]) ]%string.

(* a floppy volume is exactly its device: first block 0, last block cyl*heads*sect - 1 (regenerated from adfMountFlop) *)
Theorem C13_floppy_volume_is_the_device : forall c h sct, 0 <= c * h < 2 ^ 32 -> 0 < c * h * sct < 2 ^ 31 ->
  let '(f, l, r) := s_adfMountFlop_range c h sct in f = 0 /\ l = c * h * sct - 1.
Proof. exact flop_range_inside. Qed.

Theorem C13_funnel : device_users = expected_device_users.
Proof. reflexivity. Qed.

Example C13_witness : vol_ok {| v_first := 1056; v_last := 4223; v_mounted := 1; v_readOnly := 0 |} /\
  g_adfReadBlock 4294967295 1056 4223 1 = GRet 1 /\ g_adfReadBlock 3167 1056 4223 1 = GDev 4223 512 /\
  g_adfReadBlock 3168 1056 4223 1 = GRet 1.
Proof. unfold vol_ok; cbn [v_first v_last]. repeat split; try reflexivity; try (vm_compute; congruence). Qed.

Print Assumptions C13_guard_read.
Print Assumptions C13_guard_write.
Print Assumptions C13_any_program.
Print Assumptions C13_partitions.
Print Assumptions C13_create_mount_agree.
Print Assumptions C13_floppy_volume_is_the_device.
Print Assumptions C13_funnel.

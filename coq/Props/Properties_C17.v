(* C17 Initialised, reproducible output.
   Which C objects start out uninitialised is a fact about the C abstract machine; the part that is logic and proved:
   the block structs have no padding - every one of the 512 (1024) bytes belongs to a declared field (sizes and offsets
   regenerated from adf_blk.h, C03_block_sizes / C03_swap_table) - so a struct that was cleared and then filled field by
   field reaches the device fully determined.  That the library does clear every buffer before it reaches the device is
   decided by running each history twice with different heap/stack pre-fill and comparing the images (checks/c17.py). *)
From Coq Require Import ZArith List Bool String.
From ADF Require Import CPrelude Generated.Layout Proofs.LayoutP.
Local Open Scope Z_scope.

Theorem C17_no_padding :
  sizeof_bRootBlock = 512 /\ sizeof_bEntryBlock = 512 /\ sizeof_bFileHeaderBlock = 512 /\ sizeof_bFileExtBlock = 512 /\
  sizeof_bDirBlock = 512 /\ sizeof_bOFSDataBlock = 512 /\ sizeof_bBitmapBlock = 512 /\ sizeof_bBitmapExtBlock = 512 /\
  sizeof_bDirCacheBlock = 512 /\ sizeof_bLinkBlock = 512 /\ sizeof_bBootBlock = 1024.
Proof. exact layout_sizes. Qed.

(* the endian-swap table covers every byte of each block kind exactly once *)
Theorem C17_swap_covers_block :
  row_total (row 1) 16 = 512 /\ row_total (row 2) 16 = 512 /\ row_total (row 3) 16 = 512 /\ row_total (row 5) 16 = 512 /\
  row_total (row 6) 16 = 512 /\ row_total (row 4) 16 = 24 /\ row_total (row 0) 16 = 1024.
Proof. repeat split; vm_compute; reflexivity. Qed.

Print Assumptions C17_no_padding.
Print Assumptions C17_swap_covers_block.

(* C01 File content fidelity.
   Proved here (unbounded, over functions REGENERATED from adf_file.c / adf_file_util.h / adf_file_block.c):
   the position and size arithmetic every read/write/seek/truncate relies on.
   The byte-level refinement of the handle operations to Spec/FsSpec.v is decided per explored history
   (checks/c01.py: implementation vs the extracted reference model vs the extracted decoder); see DESIGN.md. *)
From Coq Require Import ZArith List Bool.
From ADF Require Import CPrelude Generated.Leaf Proofs.GeometryP Model.FileMap Proofs.FileMapP.
Import ListNotations.
Local Open Scope Z_scope.

(* adfPos2DataBlock: for every position and both data-block sizes, the unique decomposition
   pos = blk*bs + off;  blk < 72 -> in the header (ext = -1);  else blk = 72*(ext+1) + idx *)
Theorem C01_geometry_pos : forall pos bs, valid_bs bs -> 0 <= pos < 2 ^ 32 ->
  let '(ext, idx, off, blk) := c_adfPos2DataBlock pos bs in
  pos = blk * bs + off /\ 0 <= off < bs /\
  ((blk < 72 /\ ext = -1 /\ idx = 0) \/ (72 <= blk /\ 0 <= ext /\ 0 <= idx < 72 /\ blk = 72 * (ext + 1) + idx)).
Proof. exact pos2datablock_exact. Qed.

(* number of data blocks = ceil(size/bs), no 32-bit wrap for any size below 2^32 *)
Theorem C01_geometry_datablocks : forall fsize bs, valid_bs bs -> 0 <= fsize < 2 ^ 32 ->
  c_adfFileSize2Datablocks fsize bs = cdiv fsize bs.
Proof. exact size2datablocks_spec. Qed.

(* number of extension blocks = ceil((d-72)/72) beyond the 72 pointers of the header *)
Theorem C01_geometry_extblocks : forall d, 0 <= d < 2 ^ 32 ->
  c_adfFileDatablocks2Extblocks d = if d <=? 72 then 0 else cdiv (d - 72) 72.
Proof. exact datablocks2extblocks_spec. Qed.

Theorem C01_geometry_blocks : forall fsize bs, valid_bs bs -> 0 <= fsize < 2 ^ 32 ->
  let d := cdiv fsize bs in
  c_adfFileSize2Blocks fsize bs = d + (if d <=? 72 then 0 else cdiv (d - 72) 72) + 1.
Proof. exact size2blocks_spec. Qed.

(* the second implementation of the same counts (used when a file's blocks are released) agrees *)
Theorem C01_geometry_realsize : forall size bs o1 o2, valid_bs bs -> 0 <= size < 2 ^ 32 ->
  let d := cdiv size bs in
  let e := if d <=? 72 then 0 else cdiv (d - 72) 72 in
  c_adfFileRealSize size bs o1 o2 = (e + d + 1, d, e).
Proof. exact filerealsize_spec. Qed.

Example C01_witness : c_adfPos2DataBlock 70272 488 = (1, 0, 0, 144) /\ c_adfFileSize2Blocks 35137 488 = 75.
Proof. split; vm_compute; reflexivity. Qed.

(* ---- the block lists of a file (Model/FileMap.v: header table of 72 + chain of 72-slot extension blocks; tied to adf_file.c by
   the block-level correspondence of checks/filemapcorr.py: raw tables after every close = enc of the model state) ---- *)

(* the k-th data block of a file is found where the seek / read-next-block code looks for it (header slot k for k < 72, else
   extension block (k-72)/72, slot (k-72) mod 72 - the decomposition of C01_geometry_pos), for every file length *)
Theorem C01_block_found_where_sought : forall (l es : list Z) (k : nat),
  length es = nexts (length l) -> (k < length l)%nat ->
  find_block (enc_hdr l) (enc_exts l es) k = nth_error l k.
Proof. exact find_block_enc. Qed.

(* the number of extension blocks of that shape is the number the library computes (regenerated function) *)
Theorem C01_extension_count_is_librarys : forall n : nat, Z.of_nat n < 2 ^ 32 ->
  c_adfFileDatablocks2Extblocks (Z.of_nat n) = Z.of_nat (nexts n).
Proof. exact nexts_is_library_count. Qed.

(* growing a file block by block: the data list grows at the end, an extension block is consumed exactly when a new group of
   72 starts beyond the header, and no block is referenced twice - for every history *)
Theorem C01_append_block : forall s d e, Inv s -> ~ In d (f_data s ++ f_exts s) -> ~ In e (f_data s ++ f_exts s) -> d <> e ->
  Inv (f_append s d e) /\ f_data (f_append s d e) = f_data s ++ [d] /\
  f_exts (f_append s d e) = (if needs_ext (length (f_data s)) then f_exts s ++ [e] else f_exts s).
Proof. exact append_inv. Qed.

(* the model's decision when to take an extension block is the library's (decision slice regenerated from adfFileCreateNextBlock) *)
Theorem C01_append_decision_is_librarys : forall n : nat,
  (d_adfFileCreateNextBlock (Z.of_nat n) = 1 <-> needs_ext n = true) /\
  (d_adfFileCreateNextBlock (Z.of_nat n) = 0 <-> (n < SLOTS)%nat).
Proof. exact append_decision_is_librarys. Qed.

Example C01_filemap_example :
  let l := map Z.of_nat (seq 1000 150) in
  find_block (enc_hdr l) (enc_exts l [5000; 5001]%Z) 149 = Some 1149%Z /\ nexts 150 = 2%nat /\ nexts 72 = 0%nat /\ nexts 73 = 1%nat /\ nexts 144 = 1%nat /\ nexts 145 = 2%nat.
Proof. vm_compute. repeat split; reflexivity. Qed.

Print Assumptions C01_geometry_pos.
Print Assumptions C01_geometry_datablocks.
Print Assumptions C01_geometry_extblocks.
Print Assumptions C01_geometry_blocks.
Print Assumptions C01_geometry_realsize.
Print Assumptions C01_block_found_where_sought.
Print Assumptions C01_extension_count_is_librarys.
Print Assumptions C01_append_block.
Print Assumptions C01_append_decision_is_librarys.

(* C01 File content fidelity.
   Proved here (unbounded, over functions REGENERATED from adf_file.c / adf_file_util.h / adf_file_block.c):
   the position and size arithmetic every read/write/seek/truncate relies on.
   The byte-level refinement of the handle operations to Spec/FsSpec.v is decided per explored history
   (checks/c01.py: implementation vs the extracted reference model vs the extracted decoder); see DESIGN.md. *)
From Coq Require Import ZArith List Bool.
From ADF Require Import CPrelude Generated.Leaf Proofs.GeometryP Model.FileMap Proofs.FileMapP Spec.FsSpec Model.FileIO Proofs.FileIOL Proofs.FileIOP Proofs.FileIOTieP Proofs.FileIOReachP.
Import ListNotations.
Local Open Scope Z_scope.

(* adfPos2DataBlock: for every position and both data-block sizes, the unique decomposition
   pos = blk*bs + off;  blk < 72 -> in the header (ext = -1);  else blk = 72*(ext+1) + idx *)
Theorem C01_geometry_pos : forall pos bs, valid_bs bs -> 0 <= pos < 2 ^ 32 ->
  let '(ext, idx, off, blk) := c_adfPos2DataBlock pos bs in
  pos = blk * bs + off /\ 0 <= off < bs /\
  ((blk < 72 /\ ext = -1 /\ idx = 0) \/ (72 <= blk /\ 0 <= ext /\ 0 <= idx < 72 /\ blk = 72 * (ext + 1) + idx)).
Proof. exact pos2datablock_exact. Qed.

(* number of data blocks = ceil(size/bs), no 32-bit wrap for any size below 2^32 *)
Theorem C01_geometry_datablocks : forall fsize bs, valid_bs bs -> 0 <= fsize < 2 ^ 32 ->
  c_adfFileSize2Datablocks fsize bs = cdiv fsize bs.
Proof. exact size2datablocks_spec. Qed.

(* number of extension blocks = ceil((d-72)/72) beyond the 72 pointers of the header *)
Theorem C01_geometry_extblocks : forall d, 0 <= d < 2 ^ 32 ->
  c_adfFileDatablocks2Extblocks d = if d <=? 72 then 0 else cdiv (d - 72) 72.
Proof. exact datablocks2extblocks_spec. Qed.

Theorem C01_geometry_blocks : forall fsize bs, valid_bs bs -> 0 <= fsize < 2 ^ 32 ->
  let d := cdiv fsize bs in
  c_adfFileSize2Blocks fsize bs = d + (if d <=? 72 then 0 else cdiv (d - 72) 72) + 1.
Proof. exact size2blocks_spec. Qed.

(* the second implementation of the same counts (used when a file's blocks are released) agrees *)
Theorem C01_geometry_realsize : forall size bs o1 o2, valid_bs bs -> 0 <= size < 2 ^ 32 ->
  let d := cdiv size bs in
  let e := if d <=? 72 then 0 else cdiv (d - 72) 72 in
  c_adfFileRealSize size bs o1 o2 = (e + d + 1, d, e).
Proof. exact filerealsize_spec. Qed.

Example C01_witness : c_adfPos2DataBlock 70272 488 = (1, 0, 0, 144) /\ c_adfFileSize2Blocks 35137 488 = 75.
Proof. split; vm_compute; reflexivity. Qed.

(* ---- the block lists of a file (Model/FileMap.v: header table of 72 + chain of 72-slot extension blocks; tied to adf_file.c by
   the block-level correspondence of checks/filemapcorr.py: raw tables after every close = enc of the model state) ---- *)

(* the k-th data block of a file is found where the seek / read-next-block code looks for it (header slot k for k < 72, else
   extension block (k-72)/72, slot (k-72) mod 72 - the decomposition of C01_geometry_pos), for every file length *)
Theorem C01_block_found_where_sought : forall (l es : list Z) (k : nat),
  length es = nexts (length l) -> (k < length l)%nat ->
  find_block (enc_hdr l) (enc_exts l es) k = nth_error l k.
Proof. exact find_block_enc. Qed.

(* the number of extension blocks of that shape is the number the library computes (regenerated function) *)
Theorem C01_extension_count_is_librarys : forall n : nat, Z.of_nat n < 2 ^ 32 ->
  c_adfFileDatablocks2Extblocks (Z.of_nat n) = Z.of_nat (nexts n).
Proof. exact nexts_is_library_count. Qed.

(* growing a file block by block: the data list grows at the end, an extension block is consumed exactly when a new group of
   72 starts beyond the header, and no block is referenced twice - for every history *)
Theorem C01_append_block : forall s d e, FileMapP.Inv s -> ~ In d (f_data s ++ f_exts s) -> ~ In e (f_data s ++ f_exts s) -> d <> e ->
  FileMapP.Inv (f_append s d e) /\ f_data (f_append s d e) = f_data s ++ [d] /\
  f_exts (f_append s d e) = (if needs_ext (length (f_data s)) then f_exts s ++ [e] else f_exts s).
Proof. exact append_inv. Qed.

(* the model's decision when to take an extension block is the library's (decision slice regenerated from adfFileCreateNextBlock) *)
Theorem C01_append_decision_is_librarys : forall n : nat,
  (d_adfFileCreateNextBlock (Z.of_nat n) = 1 <-> needs_ext n = true) /\
  (d_adfFileCreateNextBlock (Z.of_nat n) = 0 <-> (n < SLOTS)%nat).
Proof. exact append_decision_is_librarys. Qed.

Example C01_filemap_example :
  let l := map Z.of_nat (seq 1000 150) in
  find_block (enc_hdr l) (enc_exts l [5000; 5001]%Z) 149 = Some 1149%Z /\ nexts 150 = 2%nat /\ nexts 72 = 0%nat /\ nexts 73 = 1%nat /\ nexts 144 = 1%nat /\ nexts 145 = 2%nat.
Proof. vm_compute. repeat split; reflexivity. Qed.

(* ---- the file handle state machine (Model/FileIO.v: adfFileOpen / Read / Write / Seek / Truncate / Flush / Close statement by statement; tied
   to adf_file.c by checks/fileiocorr.py: the fields of struct AdfFile, the results and the raw blocks after every call = the model's) ----

   Inv s L E : the handle state s is coherent with the ghost lists L (data blocks in order) and E (extension blocks): header table,
               extension blocks (buffered or on the volume), buffered data block, cursor fields (pos, posInDataBlk, nDataBlock,
               posInExtBlk, curDataPtr), no block referenced twice.
   Repr s L ct : the file content the state stands for (buffered block overlaid on the volume) is the byte list ct.
   For EVERY state satisfying Inv (files of any size, any number of extension blocks, OFS and FFS, any block numbers), with no
   device fault (nobad), and for an allocator that hands out blocks the file does not own yet or refuses (al_ok): *)

(* a new file: the invariant holds, the content is empty *)
Theorem C01_handle_new : forall bs ofs key, 0 < bs -> forall d r w,
  Inv bs ofs key (fio_new bs d key r w) [] [] /\ Repr bs (fio_new bs d key r w) [] [] /\ pos (fio_new bs d key r w) = 0.
Proof. exact fio_new_ok. Qed.

(* read: exactly the bytes of the byte-array model from the position on, clamped at the end of the file; position advanced by the
   count; nothing else changes (Spec/FsSpec.v ORead: firstn k (skipn pos ct) with the same k) *)
Theorem C01_handle_read : forall bs ofs key, 0 < bs -> forall s L E ct n, Inv bs ofs key s L E -> Repr bs s L ct -> 0 <= n ->
  exists s' r, fio_read bs ofs nobad s n = (s', r) /\ Inv bs ofs key s' L E /\ Repr bs s' L ct /\
    (let k := if mr s then Z.max 0 (Z.min n (fsize s - pos s)) else 0 in
     r = firstn (Z.to_nat k) (skipn (Z.to_nat (pos s)) ct) /\ pos s' = pos s + k /\ fh s' = fh s /\ mw s' = mw s /\ mr s' = mr s).
Proof. exact fio_read_ok. Qed.

(* seek: always succeeds, the position is clamped to the end of the file, the content is untouched *)
Theorem C01_handle_seek : forall bs ofs key, 0 < bs -> forall s L E ct p, Inv bs ofs key s L E -> Repr bs s L ct -> 0 <= p ->
  exists s', fio_seek bs ofs nobad s p = (true, s') /\ Inv bs ofs key s' L E /\ Repr bs s' L ct /\ pos s' = Z.min p (fsize s)
    /\ fh s' = fh s /\ mw s' = mw s /\ mr s' = mr s.
Proof. exact fio_seek_ok. Qed.

(* write: w bytes are accepted; the content becomes the model's splice of exactly those w bytes at the position (overwrite in place,
   extend at the end, new blocks / extension blocks taken as needed); the position advances by w; w is short only when the allocator
   refused (or ran out of answers) *)
Theorem C01_handle_write : forall bs ofs key, 0 < bs -> forall s L E ct data al, Inv bs ofs key s L E -> Repr bs s L ct -> mw s = true -> al_ok key L E al ->
  exists s' w al' L' E', fio_write bs ofs nobad s data al = (s', w, al') /\ Inv bs ofs key s' L' E'
    /\ Repr bs s' L' (splice ct (pos s) (firstn (Z.to_nat w) data)) /\ pos s' = pos s + w /\ 0 <= w <= len data /\ mw s' = true /\ mr s' = mr s
    /\ (w = len data -> al_ok key L' E' al') /\ (w < len data -> exists r, al = r ++ None :: al' \/ (al' = [] /\ True)).
Proof. exact fio_write_ok. Qed.

Theorem C01_handle_write_readonly : forall bs ofs s data al, mw s = false -> fio_write bs ofs nobad s data al = (s, 0, al).
Proof. exact fio_write_readonly. Qed.

(* flush + close, then a later handle (or a remount: the volume is all a later handle sees): the same content, position 0 *)
Theorem C01_handle_close_reopen : forall bs ofs key, 0 < bs -> forall s L E ct r w, Inv bs ofs key s L E -> Repr bs s L ct -> mw s = true ->
  exists s', fio_open bs ofs nobad (fio_close bs ofs s) key r w = (true, s') /\ Inv bs ofs key s' L E /\ Repr bs s' L ct /\ pos s' = 0
    /\ fsize s' = fsize s /\ mr s' = r /\ mw s' = w /\ chg s' = false.
Proof. exact close_open_ok. Qed.

(* truncate: to the current size it is a seek to the end; to a larger size it appends zeros (as many as the allocator allows; the call
   reports success exactly when all were stored); to a smaller size it cuts the content, the block lists become the prefixes the new
   size needs (the header table / the last kept extension block are cleared behind them, the extension chain is cut), the position is
   the new end.  Spec/FsSpec.v: resize ct size = firstn size ct, resp. ct ++ zeros. *)
Theorem C01_handle_truncate_same : forall bs ofs key, 0 < bs -> forall s L E ct al, Inv bs ofs key s L E -> Repr bs s L ct -> mw s = true ->
  exists s', fio_truncate bs ofs nobad s (fsize s) al = (true, s', [], al) /\ Inv bs ofs key s' L E /\ Repr bs s' L ct /\ pos s' = fsize s /\ fsize s' = fsize s.
Proof. exact fio_truncate_same_ok. Qed.

Theorem C01_handle_truncate_grow : forall bs ofs key, 0 < bs -> forall s L E ct al sizeNew,
  Inv bs ofs key s L E -> Repr bs s L ct -> mw s = true -> al_ok key L E al -> fsize s < sizeNew ->
  exists ok s' al' L' E' w, fio_truncate bs ofs nobad s sizeNew al = (ok, s', [], al') /\ Inv bs ofs key s' L' E' /\ Repr bs s' L' (ct ++ zerosZ w)
    /\ 0 <= w <= sizeNew - fsize s /\ (ok = true <-> w = sizeNew - fsize s) /\ pos s' = fsize s' /\ fsize s' = fsize s + w.
Proof. exact fio_truncate_grow_ok. Qed.

Theorem C01_handle_truncate_shrink : forall bs ofs key, 0 < bs -> forall s L E ct al new, Inv bs ofs key s L E -> Repr bs s L ct -> mw s = true -> 0 <= new < fsize s ->
  let n' := size2db new bs in let x' := db2ext n' in
  let L' := firstn (Z.to_nat n') L in let E' := firstn (Z.to_nat x') E in
  exists s' rem, fio_truncate bs ofs nobad s new al = (true, s', rem, al) /\ Inv bs ofs key s' L' E' /\ Repr bs s' L' (firstn (Z.to_nat new) ct)
    /\ pos s' = new /\ fsize s' = new.
Proof. exact fio_truncate_shrink_ok. Qed.

(* the arithmetic the model uses is the arithmetic of the C source (functions regenerated from adf_file_util.h / adf_file.c) *)
Theorem C01_model_arithmetic_is_librarys : forall bs, valid_bs bs ->
  (forall size, 0 <= size < 2 ^ 32 -> size2db size bs = c_adfFileSize2Datablocks size bs) /\
  (forall n, 0 <= n < 2 ^ 32 -> db2ext n = c_adfFileDatablocks2Extblocks n) /\
  (forall p, 0 <= p < 2 ^ 32 -> pos2db p bs = c_adfPos2DataBlock p bs) /\
  (forall n, 0 <= n -> (d_adfFileCreateNextBlock n = 1 <-> needs_x n = true) /\ (d_adfFileCreateNextBlock n = 0 <-> n < 72)).
Proof.
  intros bs Hb. split; [intros; apply size2db_is_librarys; assumption|]. split; [intros; apply db2ext_is_librarys; assumption|].
  split; [intros; apply pos2db_is_librarys; assumption|intros; apply needs_x_is_librarys; assumption].
Qed.

(* non-vacuity: a concrete OFS history run on the model inside Coq - create, write 1100 bytes (three blocks), seek back, overwrite across
   a block edge, close, reopen, read everything - gives the bytes of the byte-array model *)
Example C01_handle_example :
  let al := [Some (901, 0); Some (902, 0); Some (903, 0)] in
  let data := map Z.of_nat (seq 0 1100) in
  let s0 := fio_new 488 (fun _ => BOther) 900 true true in
  let '(s1, w1, _) := fio_write 488 true nobad s0 data al in
  let '(_, s2) := fio_seek 488 true nobad s1 480 in
  let '(s3, w3, _) := fio_write 488 true nobad s2 [7; 7; 7; 7; 7; 7; 7; 7; 7; 7; 7; 7] [] in
  let d := fio_close 488 true s3 in
  let '(_, s4) := fio_open 488 true nobad d 900 true false in
  let '(_, bytes) := fio_read 488 true nobad s4 5000 in
  let '(_, s5) := fio_open 488 true nobad d 900 true true in
  let '(okt, s6, rem, _) := fio_truncate 488 true nobad s5 500 [] in
  let '(_, s7) := fio_seek 488 true nobad s6 0 in
  let '(_, bytes2) := fio_read 488 true nobad s7 5000 in
  w1 = 1100 /\ w3 = 12 /\ bytes = splice data 480 [7; 7; 7; 7; 7; 7; 7; 7; 7; 7; 7; 7] /\ length bytes = 1100%nat
  /\ okt = true /\ rem = [903] /\ bytes2 = firstn 500 bytes.
Proof. vm_compute. repeat split; reflexivity. Qed.

(* the alternative seek of OFS volumes (adfFileSeekOFS_: back to the start, then along the data blocks), which adfFileSeek falls back to when the
   extension-block walk fails: started from ANY clean state of the handle whose volume and header are those of a coherent state (the cursor
   fields may be anything), it ends coherent at the requested position with the same content - the place the table-driven seek reaches *)
Theorem C01_ofs_fallback_seek_reaches_the_position : forall bs ofs key, 0 < bs -> forall eofk s t L E ct p,
  Inv bs ofs key t L E -> chg t = false -> Repr bs t L ct -> CB bs ofs key s L E -> len (d_bytes (cdata s)) = bs ->
  dk s = dk t -> fh s = fh t -> 0 <= p < fsize s ->
  exists s', seek_ofs bs ofs nobad eofk s p = (true, s') /\ Inv bs ofs key s' L E /\ Repr bs s' L ct /\ pos s' = p /\ cur s' <> 0.
Proof. exact seek_ofs_ok. Qed.

(* ---- every history ---- *)
(* `Reach s ct` (Proofs/FileIOReachP.v): s is reached from a new file, or from a file lying anywhere on a volume, by any sequence of reads,
   seeks, writes, truncations (shrinking / growing / same size), flushes and close-and-reopen, with an allocator that names only blocks the
   file does not own (or refuses); ct is the content the byte-array model computes along the way (a write splices the accepted bytes in at
   the position, a shrinking truncation keeps the prefix, a growing one appends zeros).  Every such state is coherent and stands for ct ... *)
Theorem C01_every_reachable_handle_state : forall bs ofs key, 0 < bs -> forall s ct, Reach bs ofs key s ct ->
  exists L E, Inv bs ofs key s L E /\ Repr bs s L ct.
Proof. exact reach_coherent. Qed.

(* ... so what a program reads back after ANY history is the slice of that content, and seeks succeed and clamp to its length *)
Theorem C01_read_after_any_history : forall bs ofs key, 0 < bs -> forall s ct n, Reach bs ofs key s ct -> mr s = true -> 0 <= n ->
  snd (fio_read bs ofs nobad s n) = sub ct (pos s) (Z.max 0 (Z.min n (len ct - pos s))) /\ fsize s = len ct.
Proof. exact reach_read. Qed.

Theorem C01_seek_after_any_history : forall bs ofs key, 0 < bs -> forall s ct p, Reach bs ofs key s ct -> 0 <= p ->
  fst (fio_seek bs ofs nobad s p) = true /\ pos (snd (fio_seek bs ofs nobad s p)) = Z.min p (len ct).
Proof. exact reach_seek. Qed.

(* not vacuous: new file, 600 bytes written with the allocator naming 901 and 902, seek to 100 *)
Example C01_reach_example : exists s ct, Reach 512 false 900 s ct /\ len ct = 600 /\ pos s = 100.
Proof.
  eexists. eexists. split.
  - eapply R_seek with (p := 100); [|discriminate].
    eapply R_write with (data := zerosZ 600) (al := [Some (901, 0); Some (902, 0)]).
    + apply (R_new 512 false 900 (fun _ => BOther) true true).
    + reflexivity.
    + intros L E I. assert (HLE : L = [] /\ E = []) by (eapply empty_L; [|exact I|reflexivity]; reflexivity). destruct HLE as (-> & ->).
      cbn. unfold fresh. cbn. repeat split; try discriminate; try (intros [H|[]]; discriminate); try (intros []); try (intros [H|[]]; discriminate H).
    + vm_compute. reflexivity.
  - split; vm_compute; reflexivity.
Qed.

Print Assumptions C01_geometry_pos.
Print Assumptions C01_every_reachable_handle_state.
Print Assumptions C01_ofs_fallback_seek_reaches_the_position.
Print Assumptions C01_read_after_any_history.
Print Assumptions C01_seek_after_any_history.
Print Assumptions C01_geometry_datablocks.
Print Assumptions C01_geometry_extblocks.
Print Assumptions C01_geometry_blocks.
Print Assumptions C01_geometry_realsize.
Print Assumptions C01_block_found_where_sought.
Print Assumptions C01_extension_count_is_librarys.
Print Assumptions C01_append_block.
Print Assumptions C01_append_decision_is_librarys.
Print Assumptions C01_handle_new.
Print Assumptions C01_handle_read.
Print Assumptions C01_handle_seek.
Print Assumptions C01_handle_write.
Print Assumptions C01_handle_write_readonly.
Print Assumptions C01_handle_close_reopen.
Print Assumptions C01_handle_truncate_same.
Print Assumptions C01_handle_truncate_grow.
Print Assumptions C01_handle_truncate_shrink.
Print Assumptions C01_model_arithmetic_is_librarys.

(* C16 Timestamps: calendar <-> Amiga day count conversions are exact inverses.
   The three functions are REGENERATED from /repo's adf_util.c on every run
   (Generated/Leaf.v); the theorems below are about those generated definitions.
   Nothing but statements, `exact`, and Print Assumptions in this file. *)
From Coq Require Import ZArith.
From ADF Require Import CPrelude Generated.Leaf Spec.Calendar Proofs.CalendarP.
Local Open Scope Z_scope.

(* every day count >= 0 converts to the Gregorian date that many days after 1978-01-01 *)
Theorem C16_days2date : forall days fuel,
  0 <= days -> (Z.to_nat days + 13 < fuel)%nat ->
  exists y m d, c_adfDays2Date fuel days = Some (y, m, d) /\
                1978 <= y /\ valid_date y m d /\ amiga_days y m d = days.
Proof. exact days2date_correct. Qed.

(* every valid date-time from 1978 on (tm_year convention) converts to its true day count, minutes, ticks *)
Theorem C16_time2amiga : forall y m d h mi s fuel,
  1978 <= y -> valid_date y m d -> (Z.to_nat (y - 1978) + 14 < fuel)%nat ->
  c_adfTime2AmigaTime fuel d h mi m s (y - 1900)
  = Some (amiga_days y m d, amiga_mins h mi, amiga_ticks s).
Proof. exact time2amiga_correct. Qed.

Theorem C16_inverse_days : forall days, 0 <= days ->
  exists y m d, c_adfDays2Date (fuel_for_days days) days = Some (y, m, d) /\
    c_adfTime2AmigaTime (fuel_for_year y) d 0 0 m 0 (y - 1900) = Some (days, 0, 0).
Proof. exact days_date_days. Qed.

Theorem C16_inverse_date : forall y m d h mi s, 1978 <= y -> valid_date y m d ->
  exists days mins ticks,
    c_adfTime2AmigaTime (fuel_for_year y) d h mi m s (y - 1900) = Some (days, mins, ticks) /\
    c_adfDays2Date (fuel_for_days days) days = Some (y, m, d).
Proof. exact date_days_date. Qed.

Theorem C16_stamp : forall y m d h mi s, 1978 <= y -> valid_date y m d ->
  let '(r_year, r_mon, r_day, r_hour, r_min, r_sec) :=
      s_adfGiveCurrentTime h d mi (m - 1) s (y - 1900) in
  c_adfTime2AmigaTime (fuel_for_year y) r_day r_hour r_min r_mon r_sec r_year
  = Some (amiga_days y m d, amiga_mins h mi, amiga_ticks s).
Proof. exact stamp_correct. Qed.

(* non-vacuity: the hypotheses are met by concrete dates, and the model computes *)
Example C16_witness_leapday : valid_date 2000 2 29 /\ amiga_days 2000 3 1 = 8095 /\
  c_adfTime2AmigaTime 100 1 0 0 3 0 100 = Some (8095, 0, 0) /\
  c_adfDays2Date (fuel_for_days 8095) 8095 = Some (2000, 3, 1).
Proof. repeat split; vm_compute; try reflexivity; intro X; discriminate X. Qed.

Print Assumptions C16_days2date.
Print Assumptions C16_time2amiga.
Print Assumptions C16_inverse_days.
Print Assumptions C16_inverse_date.
Print Assumptions C16_stamp.

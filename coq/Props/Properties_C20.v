(* C20 unadf never writes outside its extraction directory - see Model/Unadf.v and Proofs/UnadfP.v *)
From Coq Require Import ZArith List Bool.
From ADF Require Import Model.Unadf Proofs.UnadfP.
Import ListNotations.
Local Open Scope Z_scope.

(* after the rewriting pass no path component of the image-derived part is ".." and it does not start with a separator *)
Theorem C20_no_dotdot_component : forall l, no_dotdot (sanitize l) = true.
Proof. exact sanitize_no_dotdot. Qed.

Theorem C20_not_absolute : forall l, starts_with_sep (sanitize l) = false.
Proof. exact sanitize_not_absolute. Qed.

(* hence lexical resolution of the sanitised path never climbs above the directory it starts from *)
Theorem C20_contained : forall l, never_climbs 0 (components (sanitize l)) = true.
Proof. exact sanitize_contained. Qed.

Print Assumptions C20_no_dotdot_component.
Print Assumptions C20_not_absolute.
Print Assumptions C20_contained.

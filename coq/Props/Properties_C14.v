(* C14 Format/mount round trip for every geometry and flavour.
   Proved (regenerated arithmetic): number of bitmap pages = ceil((n-2)/4064), covering exactly the volume; device
   classification; block ranges of floppies and partitions at creation and at mount agree (C13_create_mount_agree).
   The full round trip (name, flavour, range, empty root, bitmap incl. extension blocks, free count) is checked per
   geometry by formatting, closing, mounting and decoding with the extracted decoder (checks/c14.py). *)
From Coq Require Import ZArith List Bool.
Import ListNotations.
From ADF Require Import CPrelude Generated.Layout Generated.Leaf Proofs.GeometryP Proofs.ProgP Proofs.FormatP Model.Bitmap Proofs.BitmapP Proofs.ConserveP Proofs.AllocCountP.
Local Open Scope Z_scope.

Theorem C14_bitmap_pages : forall n, 0 <= n < 2 ^ 32 - 4064 -> c_nBlock2bitmapSize n = cdiv n 4064.
Proof. exact bitmapsize_spec. Qed.

Theorem C14_bitmap_covers : forall n, 3 <= n < 2 ^ 31 ->
  let pages := c_nBlock2bitmapSize (n - 2) in
  n - 2 <= pages * 4064 /\ (pages - 1) * 4064 < n - 2.
Proof. exact bitmap_covers. Qed.

Theorem C14_devtype : forall size, 0 <= size < 2 ^ 32 ->
  c_adfDevType size =
    if (size =? 901120) || (size =? 912384) || (size =? 923648) || (size =? 934912) then 1
    else if size =? 1802240 then 2
    else if size >? 1802240 then 3 else -1.
Proof. exact devtype_spec. Qed.

Theorem C14_flop_range : forall sect, sect = 11 \/ sect = 22 ->
  s_adfMountFlop_range 80 2 sect = (0, 80 * 2 * sect - 1, 80 * sect).
Proof. exact flop_range. Qed.

Theorem C14_partition_range_roundtrip : forall h s len start,
  0 < h -> 0 < s -> 0 <= start -> 0 < len -> h * s * (start + len) < 2 ^ 31 ->
  s_adfMountHd_range (start + len - 1) start (h * s) = s_adfCreateVol_range h s len start.
Proof. exact create_mount_agree. Qed.

Example C14_witness : c_nBlock2bitmapSize 4064 = 1 /\ c_nBlock2bitmapSize 4065 = 2 /\ c_nBlock2bitmapSize (101602 - 2) = 25 /\
  c_nBlock2bitmapSize (101603 - 2) = 26.
Proof. repeat split; reflexivity. Qed.

(* the free count a fresh volume reports: adfCreateBitmap starts from the all-ones table and the format takes the distinct blocks `used`
   (root, bitmap pages, bitmap extension blocks, the root's cache block); the count over blocks 2..last is then the size of the volume minus
   the two boot blocks minus the number of blocks in use - for every volume size and every such set (checks/c14.py compares the mounted
   volume's adfCountFreeBlocks with this number for each formatted geometry) *)
Theorem C14_free_count_after_format : forall last used, 1 <= last -> NoDup used -> (forall x, In x used -> 2 <= x <= last) ->
  count_free (fold_left set_used used all_free) last = (last + 1) - 2 - Z.of_nat (length used).
Proof. exact count_after_format. Qed.

Example C14_free_count_witness : count_free (fold_left set_used [880; 881] all_free) 1759 = 1756 /\ count_free (fold_left set_used [880; 881; 882] all_free) 1759 = 1755.
Proof. split; vm_compute; reflexivity. Qed.

(* the allocation sequence of a format (adfCreateVol + adfWriteNewBitmap) on the allocator mirror: from the bitmap adfCreateBitmap builds, the
   request for the root (c = 1; c = 2 with the root's cache block), for the p bitmap pages and for the e bitmap extension blocks are all
   granted on every volume that can hold them; the blocks handed out are distinct blocks of the volume, the first of them is the root block,
   and size - 2 - c - p - e blocks are free afterwards *)
Theorem C14_format_allocations : forall root last c p e, 2 < root <= last -> Z.of_nat (c + p + e) <= last - 1 ->
  exists l1 b1 l2 b2 l3 b3,
    get_free_blocks (fresh_bm last) root last c = Some (l1, b1) /\ get_free_blocks b1 root last p = Some (l2, b2) /\
    get_free_blocks b2 root last e = Some (l3, b3) /\
    count_free b3 last = (last + 1) - 2 - Z.of_nat c - Z.of_nat p - Z.of_nat e /\
    NoDup (l1 ++ l2 ++ l3) /\ (forall x, In x (l1 ++ l2 ++ l3) -> 2 <= x <= last) /\ ((1 <= c)%nat -> hd 0 l1 = root).
Proof. exact format_free_count. Qed.

Example C14_format_witness : match get_free_blocks (fresh_bm 1759) 880 1759 2 with Some (l, b) => (l, count_free b 1759) | None => ([], 0) end = ([880; 881], 1756).
Proof. vm_compute. reflexivity. Qed.

Print Assumptions C14_bitmap_pages.
Print Assumptions C14_format_allocations.
Print Assumptions C14_free_count_after_format.
Print Assumptions C14_bitmap_covers.
Print Assumptions C14_devtype.
Print Assumptions C14_flop_range.
Print Assumptions C14_partition_range_roundtrip.

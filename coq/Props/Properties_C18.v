(* C18 Bystander integrity at every interruption point.
   Proved (generic, about sequences of block writes): if every write of an operation's write sequence lands outside a
   set of protected blocks, then after ANY prefix of the sequence every protected block still holds its old content -
   this is what turns the per-write frame check of checks/c18.py into the statement about every interruption point.
   The frame check itself (which blocks each operation of the library writes) is decided per explored history. *)
From Coq Require Import ZArith List Bool.
Import ListNotations.
Local Open Scope Z_scope.

Definition disk := Z -> list Z.
Definition write (d : disk) (w : Z * list Z) : disk := fun k => if k =? fst w then snd w else d k.
Definition apply_writes (d : disk) (ws : list (Z * list Z)) : disk := fold_left write ws d.

Lemma apply_outside : forall ws d b, (forall w, In w ws -> fst w <> b) -> apply_writes d ws b = d b.
Proof.
  induction ws as [|w ws IH]; intros d b H; [reflexivity|].
  cbn [apply_writes fold_left]. fold (apply_writes (write d w) ws).
  rewrite IH by (intros x Hx; apply H; right; exact Hx).
  unfold write. destruct (Z.eqb_spec b (fst w)) as [E|NE]; [|reflexivity].
  exfalso. apply (H w (or_introl eq_refl)). symmetry. exact E.
Qed.

Lemma in_firstn {A} (x : A) : forall n l, In x (firstn n l) -> In x l.
Proof.
  induction n as [|n IH]; intros l H; [destruct H|].
  destruct l as [|a l]; [destruct H|]. cbn [firstn] in H. destruct H as [->|H]; [left; reflexivity|right; apply IH; exact H].
Qed.

Theorem C18_prefix_integrity : forall (ws : list (Z * list Z)) (d : disk) (protected : list Z),
  (forall w, In w ws -> ~ In (fst w) protected) ->
  forall k b, In b protected -> apply_writes d (firstn k ws) b = d b.
Proof.
  intros ws d protected H k b Hb. apply apply_outside.
  intros w Hw E. apply (H w); [apply in_firstn in Hw; exact Hw|]. rewrite E. exact Hb.
Qed.

(* a write that re-writes the old content is harmless too (chain-link updates that change nothing, re-flushed blocks) *)
Theorem C18_prefix_integrity_same_content : forall (ws : list (Z * list Z)) (d : disk) (protected : list Z),
  (forall w, In w ws -> In (fst w) protected -> snd w = d (fst w)) ->
  forall k b, In b protected -> apply_writes d (firstn k ws) b = d b.
Proof.
  intros ws d protected H k b Hb.
  assert (G : forall l d0, (forall w, In w l -> fst w = b -> snd w = d b) -> d0 b = d b -> apply_writes d0 l b = d b).
  { induction l as [|w l IH]; intros d0 Hl H0; [exact H0|].
    cbn [apply_writes fold_left]. fold (apply_writes (write d0 w) l). apply IH.
    - intros x Hx. apply Hl. right. exact Hx.
    - unfold write. destruct (Z.eqb_spec b (fst w)) as [E|NE]; [|exact H0]. apply Hl; [left; reflexivity|symmetry; exact E]. }
  apply G; [|reflexivity].
  intros w Hw E. apply in_firstn in Hw. rewrite <- E. apply H; [exact Hw|rewrite E; exact Hb].
Qed.

Print Assumptions C18_prefix_integrity.
Print Assumptions C18_prefix_integrity_same_content.

(* C18 Bystander integrity at every interruption point.
   Proved (generic, about sequences of block writes): if every write of an operation's write sequence lands outside a
   set of protected blocks, then after ANY prefix of the sequence every protected block still holds its old content -
   this is what turns the per-write frame check of checks/c18.py into the statement about every interruption point.
   Proved on the file handle model (Model/FileIO.v, adf_file.c statement by statement, tied by the call-level correspondence
   checks/fileiocorr.py): EVERY call on a coherent handle - read, seek, write, truncate (same size, growing, shrinking), flush, close,
   and the creation / opening of a file - leaves every block of the volume outside the file's own header, data and extension blocks
   exactly as it was; the only blocks a file gains are blocks the allocator named in answer to this call.  So the blocks of every other
   file and directory, and every metadata block that is not this file's, are bystanders of every handle call, for all sizes, positions
   and data.  The frame of the other operations of the library (directory operations, the bitmap and directory-cache writes of a
   flush) is decided per explored history by the write-log check. *)
From Coq Require Import ZArith List Bool.
From ADF Require Model.FileIO Proofs.FileIOFr Proofs.FileIOP.
From ADF Require Import Spec.Names Model.Chain Proofs.ChainFrameP.
From ADF Require Model.CacheChain Proofs.CacheFrameP.
Import ListNotations.
Local Open Scope Z_scope.

Definition disk := Z -> list Z.
Definition write (d : disk) (w : Z * list Z) : disk := fun k => if k =? fst w then snd w else d k.
Definition apply_writes (d : disk) (ws : list (Z * list Z)) : disk := fold_left write ws d.

Lemma apply_outside : forall ws d b, (forall w, In w ws -> fst w <> b) -> apply_writes d ws b = d b.
Proof.
  induction ws as [|w ws IH]; intros d b H; [reflexivity|].
  cbn [apply_writes fold_left]. fold (apply_writes (write d w) ws).
  rewrite IH by (intros x Hx; apply H; right; exact Hx).
  unfold write. destruct (Z.eqb_spec b (fst w)) as [E|NE]; [|reflexivity].
  exfalso. apply (H w (or_introl eq_refl)). symmetry. exact E.
Qed.

Lemma in_firstn {A} (x : A) : forall n l, In x (firstn n l) -> In x l.
Proof.
  induction n as [|n IH]; intros l H; [destruct H|].
  destruct l as [|a l]; [destruct H|]. cbn [firstn] in H. destruct H as [->|H]; [left; reflexivity|right; apply IH; exact H].
Qed.

Theorem C18_prefix_integrity : forall (ws : list (Z * list Z)) (d : disk) (protected : list Z),
  (forall w, In w ws -> ~ In (fst w) protected) ->
  forall k b, In b protected -> apply_writes d (firstn k ws) b = d b.
Proof.
  intros ws d protected H k b Hb. apply apply_outside.
  intros w Hw E. apply (H w); [apply in_firstn in Hw; exact Hw|]. rewrite E. exact Hb.
Qed.

(* a write that re-writes the old content is harmless too (chain-link updates that change nothing, re-flushed blocks) *)
Theorem C18_prefix_integrity_same_content : forall (ws : list (Z * list Z)) (d : disk) (protected : list Z),
  (forall w, In w ws -> In (fst w) protected -> snd w = d (fst w)) ->
  forall k b, In b protected -> apply_writes d (firstn k ws) b = d b.
Proof.
  intros ws d protected H k b Hb.
  assert (G : forall l d0, (forall w, In w l -> fst w = b -> snd w = d b) -> d0 b = d b -> apply_writes d0 l b = d b).
  { induction l as [|w l IH]; intros d0 Hl H0; [exact H0|].
    cbn [apply_writes fold_left]. fold (apply_writes (write d0 w) l). apply IH.
    - intros x Hx. apply Hl. right. exact Hx.
    - unfold write. destruct (Z.eqb_spec b (fst w)) as [E|NE]; [|exact H0]. apply Hl; [left; reflexivity|symmetry; exact E]. }
  apply G; [|reflexivity].
  intros w Hw E. apply in_firstn in Hw. rewrite <- E. apply H; [exact Hw|rewrite E; exact Hb].
Qed.

(* ---- the file handle calls ---- *)
Module H.
Import ADF.CPrelude ADF.Model.FileIO ADF.Proofs.FileIOL ADF.Proofs.FileIOFr ADF.Proofs.FileIOP.

Theorem C18_handle_read : forall bs ofs key, 0 < bs -> forall s L E ct n, Inv bs ofs key s L E -> Repr bs s L ct -> 0 <= n ->
  Fr (key :: L ++ E) s (fst (fio_read bs ofs nobad s n)).
Proof.
  intros bs ofs key Hbs s L E ct n I R Hn.
  destruct (fio_read_ok_fr bs ofs key Hbs s L E ct n I R Hn) as (s' & r & Hrd & _ & _ & Hrest). rewrite Hrd. cbv zeta in Hrest. apply Hrest.
Qed.

Theorem C18_handle_seek : forall bs ofs key s L E p, Inv bs ofs key s L E -> Fr (key :: L ++ E) s (snd (fio_seek bs ofs nobad s p)).
Proof. exact fio_seek_frame. Qed.

(* a write: the state stays coherent with block lists L', E' that keep the old ones and gain only blocks the allocator named; nothing outside
   header :: L' ++ E' changes - in particular no block that was in use by anything else (the allocator oracle `al_ok` hands out blocks the
   file does not own; that they are free is C04) *)
Theorem C18_handle_write : forall bs ofs key, 0 < bs -> forall s L E ct data al, Inv bs ofs key s L E -> Repr bs s L ct -> mw s = true -> al_ok key L E al ->
  exists s' w al' L' E', fio_write bs ofs nobad s data al = (s', w, al') /\ Inv bs ofs key s' L' E' /\
    Fr (key :: L' ++ E') s s' /\ Grows L E L' E' al al'.
Proof.
  intros bs ofs key Hbs s L E ct data al I R Hw Hal.
  destruct (fio_write_ok_fr bs ofs key Hbs s L E ct data al I R Hw Hal) as (s' & w & al' & L' & E' & H1 & H2 & _ & _ & _ & _ & _ & _ & _ & H3 & H4).
  exists s', w, al', L', E'. split; [exact H1|split; [exact H2|split; [exact H3|exact H4]]].
Qed.

(* `Grows L E L' E' al al'` is the exact account of how the lists grew: the allocator's answers al were consumed in order down to al'; each
   block-granting answer appended one data block (and one extension block exactly when one was due) named by that answer; so: *)
Theorem C18_handle_growth_facts : forall L E L' E' al al', Grows L E L' E' al al' ->
  incl (L ++ E) (L' ++ E') /\ (forall b, In b (L' ++ E') -> In b (L ++ E) \/ In b (al_blocks al)) /\ incl (al_blocks al') (al_blocks al)
  /\ exists r, al = r ++ al' /\ len L' = len L + count_some r.
Proof. exact grows_facts. Qed.

Theorem C18_handle_truncate_same : forall bs ofs key s L E al, Inv bs ofs key s L E ->
  Fr (key :: L ++ E) s (snd (fst (fst (fio_truncate bs ofs nobad s (fsize s) al)))).
Proof. exact fio_truncate_same_fr. Qed.

Theorem C18_handle_truncate_grow : forall bs ofs key, 0 < bs -> forall s L E ct al sizeNew, Inv bs ofs key s L E -> Repr bs s L ct -> mw s = true -> al_ok key L E al -> fsize s < sizeNew ->
  exists ok s' al' L' E', fio_truncate bs ofs nobad s sizeNew al = (ok, s', [], al') /\ Inv bs ofs key s' L' E' /\ Fr (key :: L' ++ E') s s' /\ Grows L E L' E' al al'.
Proof. exact fio_truncate_grow_fr. Qed.

(* a shrinking truncation changes only the file's own (old) blocks; the blocks it gives back are still untouched on the volume *)
Theorem C18_handle_truncate_shrink : forall bs ofs key s L E al new, Inv bs ofs key s L E -> mw s = true -> new < fsize s ->
  Fr (key :: L ++ E) s (snd (fst (fst (fio_truncate bs ofs nobad s new al)))).
Proof. exact fio_truncate_shrink_fr. Qed.

Theorem C18_handle_flush_close : forall bs ofs key s L E, Inv bs ofs key s L E ->
  Fr (key :: L ++ E) s (fio_flush bs ofs s) /\ forall n, ~ In n (key :: L ++ E) -> fio_close bs ofs s n = dk s n.
Proof. intros bs ofs key s L E I. split; [exact (fio_flush_fr bs ofs key s L E I)|exact (fio_close_fr bs ofs key s L E I)]. Qed.

Theorem C18_handle_new_open : forall bs ofs key d r w,
  (forall n, n <> key -> dk (fio_new bs d key r w) n = d n) /\ dk (snd (fio_open bs ofs nobad d key r w)) = d.
Proof. intros. split; [exact (fio_new_fr bs key d r w)|exact (fio_open_fr bs ofs key d r w)]. Qed.

(* not vacuous: a 3-block file next to a foreign block 950; write 600 bytes at its end with the allocator naming 903 and 904 *)
Example C18_handle_example :
  let bs := 512 in
  let h := {| h_key := 900; h_size := 0; h_first := 0; h_high := 0; h_tab := zerosZ 72; h_ext := 0 |} in
  let d0 : disk := fun k => if k =? 950 then BData {| d_bytes := [7]; d_next := 0; d_size := 1; d_seq := 1; d_key := 77 |} else BOther in
  let s0 := fio_new bs d0 900 true true in
  let '(s1, w1, _) := fio_write bs false nobad s0 (zerosZ 1300) [Some (901, 0); Some (902, 0); Some (903, 0)] in
  let '(s2, w2, _) := fio_write bs false nobad s1 (zerosZ 600) [Some (904, 0); Some (905, 0)] in
  let '(ok, s3, rem, _) := fio_truncate bs false nobad s2 100 [] in
  (w1, w2, ok, rem, match dk s3 950 with BData d => d_bytes d | _ => [] end, match fio_close bs false s3 950 with BData d => d_key d | _ => 0 end)
  = (1300, 600, true, [902; 903; 904], [7], 77).
Proof. vm_compute. reflexivity. Qed.
End H.

(* ---- the directory operations, on the block-level directory model (Model/Chain.v, tied by the correspondence of checks/c02.py: hash table
        and chain links of the image after every call): creating an entry writes the new block and either one slot of the directory's hash
        table or the chain link - nothing but the link - of ONE sibling; removing one releases its block and changes one slot or one
        sibling's link.  Every other entry of the directory keeps its block byte for byte (name and link), for every directory state. ---- *)
Theorem C18_dir_create_frame : forall intl G d n blk d', insert intl G d n blk = Some d' ->
  d_hp d' blk = Some {| e_name := trunc30 n; e_next := 0 |} /\
  (forall i, i <> slot intl n -> d_ht d' i = d_ht d i) /\
  exists sib, (forall x, x <> blk -> x <> sib -> d_hp d' x = d_hp d x) /\ (sib <> blk -> link_only d d' sib) /\ (sib <> 0 -> forall i, d_ht d' i = d_ht d i).
Proof. exact insert_frame. Qed.

Theorem C18_dir_remove_frame : forall intl G d n d' b, remove intl G d n = Some (d', b) ->
  d_hp d' b = None /\
  (forall i, i <> slot intl n -> d_ht d' i = d_ht d i) /\
  exists sib, (forall x, x <> b -> x <> sib -> d_hp d' x = d_hp d x) /\ (sib <> b -> link_only d d' sib) /\ (sib <> 0 -> forall i, d_ht d' i = d_ht d i).
Proof. exact remove_frame. Qed.

(* ---- the directory cache, on Model/CacheChain.v (tied by the raw cache-chain correspondence of checks/cachecorr.py): adfAddInCache changes the
        LAST cache block of the directory only (the record appended, or the block the allocator named linked behind it); adfDelFromCache changes the
        one block holding the record and releases at most one block, a block of this chain; after any of the three operations the chain
        consists of its old blocks plus at most the newly named one ---- *)
Theorem C18_cache_add_frame : forall c r nb, c <> [] ->
  exists pre b rs, c = pre ++ [(b, rs)] /\ (CacheChain.c_add c r nb = pre ++ [(b, rs ++ [r])] \/ CacheChain.c_add c r nb = pre ++ [(b, rs); (nb, [r])]).
Proof. exact CacheFrameP.c_add_frame. Qed.

Theorem C18_cache_del_frame : forall c k, (forall blk, In blk (fst (CacheChain.c_del c k)) -> CacheFrameP.del_block_ok c k blk)
  /\ incl (snd (CacheChain.c_del c k)) (map fst c) /\ (length (snd (CacheChain.c_del c k)) <= 1)%nat.
Proof. exact CacheFrameP.c_del_frame. Qed.

Theorem C18_cache_blocks : forall c r nb k,
  incl (map fst (CacheChain.c_add c r nb)) (map fst c ++ [nb]) /\ incl (map fst (fst (CacheChain.c_del c k))) (map fst c)
  /\ incl (map fst (fst (CacheChain.c_update c r nb))) (map fst c ++ [nb]).
Proof. exact CacheFrameP.cache_ops_blocks. Qed.

Print Assumptions C18_prefix_integrity.
Print Assumptions C18_cache_add_frame.
Print Assumptions C18_cache_del_frame.
Print Assumptions C18_cache_blocks.
Print Assumptions C18_dir_create_frame.
Print Assumptions C18_dir_remove_frame.
Print Assumptions H.C18_handle_read.
Print Assumptions H.C18_handle_seek.
Print Assumptions H.C18_handle_write.
Print Assumptions H.C18_handle_truncate_same.
Print Assumptions H.C18_handle_growth_facts.
Print Assumptions H.C18_handle_truncate_grow.
Print Assumptions H.C18_handle_truncate_shrink.
Print Assumptions H.C18_handle_flush_close.
Print Assumptions H.C18_handle_new_open.
Print Assumptions C18_prefix_integrity_same_content.

(* C12 Read-only means read-only.  Guards regenerated from adf_vol.c / adf_dev_hd.c on every run. *)
From Coq Require Import ZArith List Bool String.
From ADF Require Import CPrelude Generated.Leaf Generated.Layout Base.Prog Proofs.ProgP.
From ADF Require Model.FileIO Proofs.FileIOFr.
Import ListNotations.
Local Open Scope Z_scope.

(* device opened read-only (the volume flag is then forced, see C12_mount_forces): NO program,
   whatever calls it is made of - volume level or RDB level - gets a write to the device *)
Theorem C12_no_write_any_program : forall (D : Type) (E : env D) (v : volinfo) (dev_ro : Z), vol_ok v ->
  forall (A : Type) (p : prog A) (d : D),
  v_readOnly v <> 0 -> dev_ro <> 0 ->
  Forall (fun e => is_write e = false) (snd (run E v dev_ro p d)).
Proof. intros D E v dev_ro Hv A p d. exact (readonly_no_write_any_program E v dev_ro Hv p d). Qed.

(* volume mounted read-only on a writable device: no volume-level program writes *)
Theorem C12_mount_ro_no_write : forall (D : Type) (E : env D) (v : volinfo) (dev_ro : Z), vol_ok v ->
  forall (A : Type) (p : prog A) (d : D),
  v_readOnly v <> 0 -> vol_only p ->
  Forall (fun e => is_write e = false) (snd (run E v dev_ro p d)).
Proof. intros D E v dev_ro Hv A p d. exact (mount_readonly_no_write E v dev_ro Hv p d). Qed.

Theorem C12_mount_forces : forall dev_ro ro old,
  (dev_ro <> 0 -> s_adfMount_readOnly dev_ro ro old <> 0) /\
  (dev_ro = 0 -> s_adfMount_readOnly dev_ro ro old = ro).
Proof. exact mount_forces_readonly. Qed.

Theorem C12_hd_guarded : forall kd dev_ro n ps sz, hd_guard kd dev_ro n = GDev ps sz -> dev_ro = 0.
Proof. exact hd_guard_ro. Qed.

(* a write refused by the guard reports failure (non-zero return code) *)
Theorem C12_refused_write_reports : forall n first last mounted ro rc,
  ro <> 0 -> g_adfWriteBlock n first last mounted ro = GRet rc -> rc <> 0.
Proof.
  intros n first last mounted ro rc Hro. unfold g_adfWriteBlock. cbv zeta.
  destruct (negb (negb (mounted =? 0))); [intros E; injection E as <-; discriminate|].
  destruct (Z.eqb_spec ro 0); [contradiction|]. cbn [negb]. intros E; injection E as <-; discriminate.
Qed.

Definition expected_writers : list string :=
  [ "adfCreateDumpDevice"; "adfWriteBlock"; "adfWriteBlockDev"; "adfWriteDumpSector";
    "adfWriteFSHDblock"; "adfWriteLSEGblock"; "adfWritePARTblock"; "adfWriteRDSKblock" ]%string.

Definition is_write_prim (s : string) : bool :=
  (String.eqb s "adfWriteBlockDev" || String.eqb s "adfWriteDumpSector" || String.eqb s "adfNativeWriteSector" || String.eqb s "fwrite")%string.

(* the only functions that can reach a device write are the guarded funnel (and device creation) *)
Theorem C12_funnel :
  map fst (filter (fun e => existsb is_write_prim (snd e)) device_users) = expected_writers.
Proof. reflexivity. Qed.

Example C12_witness : vol_ok {| v_first := 0; v_last := 1759; v_mounted := 1; v_readOnly := 1 |} /\
  g_adfWriteBlock 880 0 1759 1 1 = GRet (-1) /\ g_adfWriteBlock 880 0 1759 1 0 = GDev 880 512.
Proof. unfold vol_ok; cbn [v_first v_last]. repeat split; try reflexivity; try (vm_compute; congruence). Qed.

(* on the file handle model (Model/FileIO.v, adf_file.c statement by statement, call-level correspondence): a handle without write access -
   the only kind a read-only volume grants - never changes the volume: reads and seeks leave every block as it was (under any set of unreadable
   blocks), write and truncate are refused and change nothing, flush and close write nothing *)
Theorem C12_readonly_handle_never_writes : forall bs ofs bad s, FileIO.mw s = false ->
  (forall n, FileIO.dk (fst (FileIO.fio_read bs ofs bad s n)) = FileIO.dk s) /\ (forall p, FileIO.dk (snd (FileIO.fio_seek bs ofs bad s p)) = FileIO.dk s)
  /\ (forall data al, FileIO.fio_write bs ofs bad s data al = (s, 0, al)) /\ (forall n al, FileIO.fio_truncate bs ofs bad s n al = (false, s, [], al))
  /\ FileIO.fio_flush bs ofs s = s /\ FileIO.fio_close bs ofs s = FileIO.dk s.
Proof. exact FileIOFr.readonly_handle_never_writes. Qed.

Print Assumptions C12_no_write_any_program.
Print Assumptions C12_readonly_handle_never_writes.
Print Assumptions C12_mount_ro_no_write.
Print Assumptions C12_mount_forces.
Print Assumptions C12_hd_guarded.
Print Assumptions C12_refused_write_reports.
Print Assumptions C12_funnel.

(* C08 Graceful exhaustion.
   Proved here: the allocator refuses a request only when fewer blocks than requested are free, and a refused
   request leaves the bitmap untouched (so `volume full' is reported exactly when it is true and costs nothing);
   what it grants is sound (C04).  The behaviour of each operation when the allocator refuses - failure or exact short
   count, bystanders intact, structure and accounting intact, refill to the same capacity - is decided per explored
   history: real exhaustion with 0..5 blocks left and forced refusal of the j-th request of a call (checks/c08.py). *)
From Coq Require Import ZArith List Bool.
From ADF Require Import CPrelude Generated.Layout Generated.Leaf Model.Bitmap Proofs.BitmapP Proofs.AllocCountP Spec.FsSpec Model.FileIO Proofs.FileIOL Proofs.FileIOP.
Import ListNotations.
Local Open Scope Z_scope.

Theorem C08_refusal_is_exhaustion : forall b root last want, 2 < root <= last ->
  scan (Z.to_nat last + 2) b root last want root nil = None ->
  (nfree b (order root last) < want)%nat.
Proof. exact alloc_complete. Qed.

Theorem C08_refusal_changes_nothing : forall b root last want,
  scan (Z.to_nat last + 2) b root last want root nil = None -> get_free_blocks b root last want = None.
Proof. intros b root last want H. unfold get_free_blocks. rewrite H. reflexivity. Qed.

(* on the file handle model (Model/FileIO.v, tied to adf_file.c by the call-level correspondence): a write that needs a new block
   and is refused one returns 0 and leaves the handle and the volume exactly as they were (the handle has a buffered block or the file is
   empty: a handle an earlier device error left without one refuses every write before the allocator is asked) *)
Theorem C08_refused_write_changes_nothing : forall bs ofs, 0 < bs -> forall s data al, mw s = true -> (cur s <> 0 \/ fsize s = 0) -> pos s mod bs = 0 -> pos s = fsize s -> data <> [] ->
  fio_write bs ofs nobad s data (None :: al) = (s, 0, al) /\ fio_write bs ofs nobad s data [] = (s, 0, []).
Proof. exact fio_write_refused. Qed.

(* ... and a write that runs out of blocks part-way reports a short count w that is exact: the file now holds the first w bytes of
   the data at the position and is otherwise unchanged, the state is coherent again (everything stored earlier stays readable:
   C01_handle_read applies to it), the position is advanced by w; w < |data| only after a refusal *)
Theorem C08_short_write_is_exact : forall bs ofs key, 0 < bs -> forall s L E ct data al, Inv bs ofs key s L E -> Repr bs s L ct -> mw s = true -> al_ok key L E al ->
  exists s' w al' L' E', fio_write bs ofs nobad s data al = (s', w, al') /\ Inv bs ofs key s' L' E'
    /\ Repr bs s' L' (splice ct (pos s) (firstn (Z.to_nat w) data)) /\ pos s' = pos s + w /\ 0 <= w <= len data /\ mw s' = true /\ mr s' = mr s
    /\ (w = len data -> al_ok key L' E' al') /\ (w < len data -> exists r, al = r ++ None :: al' \/ (al' = [] /\ True)).
Proof. exact fio_write_ok. Qed.

(* in the terms a user sees: adfGetFreeBlocks(want) is refused exactly when adfCountFreeBlocks reports fewer than want free blocks
   (the circular scan from the root visits every block of the volume exactly once) *)
Theorem C08_refused_iff_count_too_small : forall b root last want, 2 < root <= last ->
  (get_free_blocks b root last want = None <-> count_free b last < Z.of_nat want).
Proof. exact alloc_refused_iff. Qed.

Print Assumptions C08_refusal_is_exhaustion.
Print Assumptions C08_refused_iff_count_too_small.
Print Assumptions C08_refused_write_changes_nothing.
Print Assumptions C08_short_write_is_exact.
Print Assumptions C08_refusal_changes_nothing.

(* C08 Graceful exhaustion.
   Proved here: the allocator refuses a request only when fewer blocks than requested are free, and a refused
   request leaves the bitmap untouched (so `volume full' is reported exactly when it is true and costs nothing);
   what it grants is sound (C04).  The behaviour of each operation when the allocator refuses - failure or exact short
   count, bystanders intact, structure and accounting intact, refill to the same capacity - is decided per explored
   history: real exhaustion with 0..5 blocks left and forced refusal of the j-th request of a call (checks/c08.py). *)
From Coq Require Import ZArith List Bool.
From ADF Require Import CPrelude Generated.Layout Generated.Leaf Model.Bitmap Proofs.BitmapP.
Local Open Scope Z_scope.

Theorem C08_refusal_is_exhaustion : forall b root last want, 2 < root <= last ->
  scan (Z.to_nat last + 2) b root last want root nil = None ->
  (nfree b (order root last) < want)%nat.
Proof. exact alloc_complete. Qed.

Theorem C08_refusal_changes_nothing : forall b root last want,
  scan (Z.to_nat last + 2) b root last want root nil = None -> get_free_blocks b root last want = None.
Proof. intros b root last want H. unfold get_free_blocks. rewrite H. reflexivity. Qed.

Print Assumptions C08_refusal_is_exhaustion.
Print Assumptions C08_refusal_changes_nothing.

(* C15 Name matching: AmigaDOS case folding and hashing.
   adfToUpper / adfIntlToUpper / adfGetHashValue are REGENERATED from adf_dir.c on every run.
   The lookup/duplicate half of the property (which entry a name finds in a directory) is decided by
   correspondence runs against the real API (checks/c15.py); see the header of that file. *)
From Coq Require Import ZArith List Bool.
From ADF Require Import CPrelude Generated.Leaf Spec.Names Proofs.NamesP.
Import ListNotations.
Local Open Scope Z_scope.

Theorem C15_upper_tables : forall c, 0 <= c < 256 ->
  c_adfToUpper c = upper_ascii c /\ c_adfIntlToUpper c = upper_intl c.
Proof. exact upper_tables. Qed.

(* the hash the library computes is the AmigaDOS hash of the folded name, for every byte string *)
Theorem C15_hash_is_amiga_hash : forall (name : list Z) (intl : Z) (fuel : nat),
  is_byte_string name -> Z.of_nat (length name) < 2 ^ 32 -> (31 < fuel)%nat ->
  c_adfGetHashValue fuel name intl = Some (hash_name (negb (intl =? 0)) (trunc30 name)).
Proof. exact hash_gen. Qed.

(* long names: creation, listing and lookup all work on the first 30 bytes, so a name and its stored
   (truncated) form select the same slot *)
Theorem C15_long_names : forall (name : list Z) (intl : Z) (fuel : nat),
  is_byte_string name -> Z.of_nat (length name) < 2 ^ 32 -> (31 < fuel)%nat ->
  c_adfGetHashValue fuel name intl = c_adfGetHashValue fuel (trunc30 name) intl.
Proof. exact hash_long_names. Qed.

(* names equal after folding share a hash slot; the slot is always inside the 72-entry table *)
Theorem C15_hash_fold : forall intl a b,
  fold_name intl a = fold_name intl b -> hash_name intl a = hash_name intl b.
Proof. exact hash_depends_on_fold. Qed.

Theorem C15_hash_range : forall intl s, 0 <= hash_name intl s < 72.
Proof. exact hash_range. Qed.

Theorem C15_hash_case_variant : forall intl s, is_byte_string s ->
  hash_name intl (fold_name intl s) = hash_name intl s.
Proof. exact hash_of_folded. Qed.

Example C15_witness : hash_name true [102;105;108;101;65] = 66 /\ hash_name false [224] <> hash_name true [224] /\
  c_adfGetHashValue 40 [102;105;108;101;65] 1 = Some 66.
Proof. repeat split; vm_compute; try reflexivity; intro X; discriminate X. Qed.

Print Assumptions C15_upper_tables.
Print Assumptions C15_hash_is_amiga_hash.
Print Assumptions C15_long_names.
Print Assumptions C15_hash_fold.
Print Assumptions C15_hash_range.
Print Assumptions C15_hash_case_variant.

(* C15 Name matching: AmigaDOS case folding and hashing.
   adfToUpper / adfIntlToUpper / adfGetHashValue are REGENERATED from adf_dir.c on every run.
   The lookup/duplicate half of the property (which entry a name finds in a directory) is decided by
   correspondence runs against the real API (checks/c15.py); see the header of that file. *)
From Coq Require Import ZArith List Bool.
From ADF Require Import CPrelude Generated.Leaf Spec.Names Proofs.NamesP Model.Chain Proofs.ChainP.
Import ListNotations.
Local Open Scope Z_scope.

Theorem C15_upper_tables : forall c, 0 <= c < 256 ->
  c_adfToUpper c = upper_ascii c /\ c_adfIntlToUpper c = upper_intl c.
Proof. exact upper_tables. Qed.

(* the hash the library computes is the AmigaDOS hash of the folded name, for every byte string *)
Theorem C15_hash_is_amiga_hash : forall (name : list Z) (intl : Z) (fuel : nat),
  is_byte_string name -> Z.of_nat (length name) < 2 ^ 32 -> (31 < fuel)%nat ->
  c_adfGetHashValue fuel name intl = Some (hash_name (negb (intl =? 0)) (trunc30 name)).
Proof. exact hash_gen. Qed.

(* long names: creation, listing and lookup all work on the first 30 bytes, so a name and its stored
   (truncated) form select the same slot *)
Theorem C15_long_names : forall (name : list Z) (intl : Z) (fuel : nat),
  is_byte_string name -> Z.of_nat (length name) < 2 ^ 32 -> (31 < fuel)%nat ->
  c_adfGetHashValue fuel name intl = c_adfGetHashValue fuel (trunc30 name) intl.
Proof. exact hash_long_names. Qed.

(* names equal after folding share a hash slot; the slot is always inside the 72-entry table *)
Theorem C15_hash_fold : forall intl a b,
  fold_name intl a = fold_name intl b -> hash_name intl a = hash_name intl b.
Proof. exact hash_depends_on_fold. Qed.

Theorem C15_hash_range : forall intl s, 0 <= hash_name intl s < 72.
Proof. exact hash_range. Qed.

Theorem C15_hash_case_variant : forall intl s, is_byte_string s ->
  hash_name intl (fold_name intl s) = hash_name intl s.
Proof. exact hash_of_folded. Qed.

Example C15_witness : hash_name true [102;105;108;101;65] = 66 /\ hash_name false [224] <> hash_name true [224] /\
  c_adfGetHashValue 40 [102;105;108;101;65] 1 = Some 66.
Proof. repeat split; vm_compute; try reflexivity; intro X; discriminate X. Qed.

(* the lookup / duplicate half, on the block-level directory model (Model/Chain.v: hash table, nextSameHash chains, compare
   of upper-cased names; tied to adf_dir.c by the block-level correspondence of checks/c02.py and checks/c15.py):
   after an entry was created under N with block blk, a name M finds blk exactly when M and N have the same key
   (= equal after cutting to 30 bytes and AmigaDOS upper-casing) - for every directory state related to a finite map,
   every chain length, every pair of names *)
Theorem C15_found_iff_same_key : forall intl F G d A n m blk,
  R intl F d A -> (F <= G)%nat -> A (key intl n) = None -> blk <> 0 -> d_hp d blk = None ->
  forall d', insert intl G d n blk = Some d' ->
  forall G', (S F <= G')%nat -> (lookup_blk intl G' d' m = Some blk <-> key intl m = key intl n).
Proof. exact found_iff_same_key. Qed.

(* no second entry matching an existing name can be created: the call is refused (and returns no new state) *)
Theorem C15_duplicate_refused : forall intl F G d A n blk b,
  R intl F d A -> (F <= G)%nat -> A (key intl n) = Some b -> insert intl G d n blk = None.
Proof. exact insert_dup. Qed.

(* the key used by the model is the same_name relation of Spec/Names.v *)
Theorem C15_key_is_same_name : forall intl a b, key intl a = key intl b <-> same_name intl a b.
Proof. intros; unfold key, same_name; tauto. Qed.

Example C15_chain_witness :
  let d1 := fst (cstep true 50 empty_dir (CIns [99;97;102;233] 900)) in
  lookup_blk true 50 d1 [67;65;70;201] = Some 900 /\ lookup_blk false 50 (fst (cstep false 50 empty_dir (CIns [99;97;102;233] 900))) [67;65;70;201] = None /\
  snd (cstep true 50 d1 (CIns [67;65;70;201] 901)) = -1.
Proof. vm_compute. repeat split; reflexivity. Qed.

Print Assumptions C15_upper_tables.
Print Assumptions C15_found_iff_same_key.
Print Assumptions C15_duplicate_refused.
Print Assumptions C15_key_is_same_name.
Print Assumptions C15_hash_is_amiga_hash.
Print Assumptions C15_long_names.
Print Assumptions C15_hash_fold.
Print Assumptions C15_hash_range.
Print Assumptions C15_hash_case_variant.

(* C19 Device I/O failures are contained.
   Proved: `run` (Base/Prog.v) interprets every program against an ARBITRARY device - any read may fail and return any
   buffer content, any write may fail - so the any-program theorems hold under every fault schedule: accesses stay inside
   the volume (C13) and nothing is written on a read-only volume (C12), whatever fails.  The propagation of device return
   codes through each operation and the prefix property of read results are decided by fault enumeration on the
   implementation (checks/c19.py): every device transfer of every call of the target groups is failed in turn. *)
From Coq Require Import ZArith List Bool.
From ADF Require Import CPrelude Generated.Leaf Base.Prog Proofs.ProgP Model.FileIO Proofs.FileIOL Proofs.FileIOP Proofs.FileIOFaultP Proofs.FileIOReachP.
Local Open Scope Z_scope.

Theorem C19_containment_under_any_faults : forall (D : Type) (E : env D) (v : volinfo) (dev_ro : Z), vol_ok v ->
  forall (A : Type) (p : prog A) (d : D), vol_only p ->
  Forall (fun e => v_first v <= ev_sector e <= v_last v) (snd (run E v dev_ro p d)).
Proof. intros D E v dev_ro Hv A p d. exact (containment_any_program E v dev_ro Hv p d). Qed.

(* the funnel hands the device's verdict back unchanged: a refused access never reports success *)
Theorem C19_refusal_is_an_error : forall n first last mounted rc,
  g_adfReadBlock n first last mounted = GRet rc -> rc <> 0.
Proof.
  intros n first last mounted rc. unfold g_adfReadBlock. cbv zeta.
  destruct (negb (negb (mounted =? 0))); [intros E; injection E as <-; discriminate|].
  destruct (_ || _); [intros E; injection E as <-; discriminate|discriminate].
Qed.

(* on the file handle model (Model/FileIO.v, tied to adf_file.c by the call-level correspondence): WHATEVER set of blocks the device
   refuses to read (`bad`, arbitrary), a read call on a coherent handle returns m <= min(n, size - pos) bytes and they are exactly
   the file's true bytes from the position on - fewer bytes, never wrong ones; the position moves by exactly m.  (Proved for failing READS of data and extension
   blocks during adfFileRead / adfFileReadNextBlock; failing writes and the seek paths under faults are decided by enumeration.) *)
Theorem C19_read_returns_only_true_bytes_partial : forall bs ofs key, 0 < bs -> forall (bad : Z -> bool) s L E ct n,
  Inv bs ofs key s L E -> Repr bs s L ct -> 0 <= n ->
  exists s' r m, fio_read bs ofs bad s n = (s', r) /\ 0 <= m <= Z.max 0 (Z.min n (fsize s - pos s)) /\
    r = firstn (Z.to_nat m) (skipn (Z.to_nat (pos s)) ct) /\ len r = m
    /\ pos s' = pos s + m /\ FileIOFr.Fr (key :: L ++ E) s s'.
Proof. exact fio_read_faulty. Qed.

(* ... the position advances by exactly the bytes returned, and whatever fails, nothing outside the file's own blocks changes (the two last
   conjuncts above); the same for a seek under an arbitrary set of unreadable blocks, failed or not: *)
Theorem C19_seek_under_faults_touches_only_own_blocks : forall bs ofs key (bad : Z -> bool) s L E p, Inv bs ofs key s L E ->
  FileIOFr.Fr (key :: L ++ E) s (snd (fio_seek bs ofs bad s p)).
Proof. intros bs ofs key bad s L E p I. apply FileIOFr.fio_seek_fr. exact (inv_own bs ofs key s L E I). Qed.

(* a seek (to any position: inside the file, to its end, beyond it) that reports success under an arbitrary set of unreadable blocks and leaves a
   buffered block: the handle is coherent at the requested position (clamped to the size) and stands for the same content - on every flavour,
   whether the seek went through the header / extension tables or, on OFS, through the fallback walk along the data blocks (adfFileSeekOFS_)
   after the table walk had failed, adfFileSeekEOF_'s own seek to size-1 and the nested fallback included *)
Theorem C19_seek_success_is_coherent : forall bs ofs key, 0 < bs -> forall (bad : Z -> bool) s L E ct p s',
  Inv bs ofs key s L E -> Repr bs s L ct -> 0 <= p -> 0 < fsize s -> fio_seek bs ofs bad s p = (true, s') -> cur s' <> 0 ->
  Inv bs ofs key s' L E /\ Repr bs s' L ct /\ pos s' = Z.min p (fsize s).
Proof. exact fio_seek_faulty. Qed.

(* ... and the read that follows, itself under any set of unreadable blocks, returns a prefix of the file's true bytes from there on - also when the
   "successful" seek left no buffered block (then it returns nothing): fewer bytes, never wrong ones *)
Theorem C19_read_after_faulty_seek_returns_true_bytes : forall bs ofs key, 0 < bs -> forall (bad bad2 : Z -> bool) s L E ct p s' n,
  Inv bs ofs key s L E -> Repr bs s L ct -> 0 <= p -> 0 < fsize s -> 0 <= n -> fio_seek bs ofs bad s p = (true, s') ->
  exists s'' m, fio_read bs ofs bad2 s' n = (s'', sub ct (Z.min p (fsize s)) m) /\ 0 <= m <= Z.max 0 (Z.min n (fsize s - Z.min p (fsize s))).
Proof. exact seek_then_read_faulty. Qed.

(* ---- every history ----
   `Hst s`: s is coherent, or it is what a failed call left - clean, with the volume and header of a coherent state of the same file and content, and
   no buffered block (or a coherent cursor).  ANY sequence of adfFileRead / adfFileSeek calls, each under its OWN arbitrary set of unreadable
   blocks, keeps the handle in Hst, and every read of the sequence delivers a prefix of the file's true bytes at the position the handle had when
   the call began - fewer bytes, never wrong ones, whatever failed before (failed reads, failed seeks, seeks that went through the OFS fallback,
   seeks that "succeeded" without a buffered block, recoveries by a later seek) *)
Theorem C19_any_history_of_reads_and_seeks_under_faults : forall bs ofs key, 0 < bs -> forall L E ct (ops : list rop) s,
  Hst bs ofs key L E ct s -> 0 < len ct -> Forall rop_ok ops ->
  Hst bs ofs key L E ct (fst (run_r bs ofs s ops)) /\ Forall (fun e => exists m, snd e = sub ct (fst e) m) (snd (run_r bs ofs s ops)).
Proof. intros bs ofs key Hbs L E ct ops s. exact (hst_history bs ofs key Hbs L E ct ops s). Qed.

(* the premise is met by every state reachable through fault-free calls (C01_every_reachable_handle_state) *)
Theorem C19_reachable_states_qualify : forall bs ofs key, 0 < bs -> forall s ct, Reach bs ofs key s ct -> exists L E, Hst bs ofs key L E ct s.
Proof. intros bs ofs key Hbs s ct Hr. destruct (reach_coherent bs ofs key Hbs s ct Hr) as (L & E & I & R). exists L, E. left. split; assumption. Qed.

(* what a failed call leaves - a handle without a buffered block on a file that has data - acknowledges nothing: reads deliver nothing, writes are
   refused and change nothing (so no write is reported as stored and then lost), until a seek has positioned the handle again *)
Theorem C19_dead_handle_acknowledges_nothing : forall bs ofs (bad : Z -> bool) s, cur s = 0 ->
  (forall n, fio_read bs ofs bad s n = (s, nil)) /\ (0 < fsize s -> forall data al, fio_write bs ofs bad s data al = (s, 0, al)).
Proof.
  intros bs ofs bad s Hc. split; [intros n; apply FileIOFr.dead_handle_reads_nothing, Hc|intros Hs data al; apply FileIOFr.dead_handle_refuses_writes; assumption].
Qed.

(* (the fault model of these theorems is a set of unreadable blocks that is FIXED during a call; a block that fails once and then reads - a
   transient fault - is in the enumeration of checks/c19.py only.  The FFS-only statement below is kept: it says more - the success is the very
   state the fault-free seek produces.) *)
Theorem C19_ffs_seek_success_is_the_faultfree_seek_partial : forall bs key, 0 < bs -> forall (bad : Z -> bool) s L E ct p s',
  Inv bs false key s L E -> Repr bs s L ct -> 0 <= p -> fio_seek bs false bad s p = (true, s') ->
  fio_seek bs false nobad s p = (true, s') /\ Inv bs false key s' L E /\ Repr bs s' L ct /\ pos s' = Z.min p (fsize s).
Proof.
  intros bs key Hbs bad s L E ct p s' I R Hp H.
  destruct (fio_seek_faulty_ffs bs false key Hbs bad s L E ct p s' eq_refl I R Hp H) as (H0 & I' & R' & P' & _).
  split; [exact H0|]. split; [exact I'|]. split; [exact R'|exact P'].
Qed.

Print Assumptions C19_containment_under_any_faults.
Print Assumptions C19_ffs_seek_success_is_the_faultfree_seek_partial.
Print Assumptions C19_seek_success_is_coherent.
Print Assumptions C19_any_history_of_reads_and_seeks_under_faults.
Print Assumptions C19_reachable_states_qualify.
Print Assumptions C19_dead_handle_acknowledges_nothing.
Print Assumptions C19_read_after_faulty_seek_returns_true_bytes.
Print Assumptions C19_read_returns_only_true_bytes_partial.
Print Assumptions C19_refusal_is_an_error.
Print Assumptions C19_seek_under_faults_touches_only_own_blocks.

(* C02 Namespace fidelity.
   The reference model (Spec/FsSpec.v) is the "reference tree model" of the property.  Proved here about it:
   a call that reports failure leaves the tree and all handles exactly as they were.
   That the library's directory operations refine this model (return codes, tree, file contents, free count) is judged
   per explored history: implementation vs extracted model vs extracted decoder (checks/c02.py). *)
From Coq Require Import ZArith List Bool.
From ADF Require Import CPrelude Spec.Names Spec.FsSpec Proofs.FsSpecP Model.Chain Proofs.ChainP Proofs.ChainRenameP.
Import ListNotations.
Local Open Scope Z_scope.

Theorem C02_fail_identity : forall intl root hs o root' hs',
  step intl root hs o = (root', hs', RErr) -> root' = root /\ hs' = hs.
Proof. exact step_fail_identity. Qed.

(* lookups and listings never change the state *)
Theorem C02_queries_pure : forall intl root hs o root' hs' r,
  (match o with OLookup _ _ | OList _ | OStat _ => True | _ => False end) ->
  step intl root hs o = (root', hs', r) -> root' = root /\ hs' = hs.
Proof. exact step_queries_pure. Qed.

Print Assumptions C02_fail_identity.
Print Assumptions C02_queries_pure.

(* Block level.  Model/Chain.v is the directory as adf_dir.c maintains it on disk: a 72-slot hash table, nextSameHash chains,
   lookup by upper-cased name, new entries linked behind the last entry of their chain, removal by unlinking (tied to the C
   code by the block-level correspondence of checks/c02.py: hash table and every chain link of the image after every call).
   For EVERY history of creates and deletes, with any allocator that hands out unused blocks, it behaves as a finite map from
   keys to blocks: same results call by call, and afterwards every present entry is found under its name, absent ones are
   not, chains stay acyclic with distinct blocks and distinct keys (R = invariant + agreement of all lookups). *)
Theorem C02_directory_refines_map : forall intl ops F G d A,
  R intl F d A -> (F + length ops <= G)%nat -> valid intl A ops ->
  R intl (F + length ops) (fst (run intl G d ops)) (fst (arun intl A ops)) /\
  snd (run intl G d ops) = snd (arun intl A ops).
Proof. exact history_refines. Qed.

Theorem C02_empty_directory : forall intl, R intl 1 empty_dir (fun _ => None).
Proof. exact R_empty. Qed.

(* a refused create or delete leaves the directory as it was *)
Theorem C02_chain_fail_identity : forall intl G d o,
  match o with CIns n blk => insert intl G d n blk = None | CDel n => remove intl G d n = None end ->
  cstep intl G d o = (d, -1).
Proof. intros intl G d [n blk|n] H; cbn [cstep]; rewrite H; reflexivity. Qed.

(* deleting unlinks exactly the named entry: its block leaves the directory, every other name is found as before *)
Theorem C02_delete_exact : forall intl F G d A n b,
  R intl F d A -> (F <= G)%nat -> A (key intl n) = Some b ->
  exists d', remove intl G d n = Some (d', b) /\ R intl F d' (adel intl A n) /\ d_hp d' b = None.
Proof. exact remove_refines. Qed.

Example C02_chain_history :
  let ops := [CIns [97] 900; CIns [98;98] 901; CIns [65] 902; CDel [97]; CIns [65] 903; CDel [120]] in
  snd (run false 100 empty_dir ops) = [0; 0; -1; 900; 0; -1].
Proof. vm_compute. reflexivity. Qed.
Example C02_chain_valid_history : valid false (fun _ => None) [CIns [97] 900; CDel [97]].
Proof. simpl. repeat split; intros; discriminate. Qed.

(* a rename inside a directory (unlink under the old name, link the same block under the new one - the steps the correspondence feeds the model for
   every rename the library performs): the entry keeps its block, is found under the new name and no longer under the old one (unless both fold to
   the same key), and every other name of the directory resolves exactly as before *)
Theorem C02_rename_keeps_block_and_bystanders : forall intl F G d A n m b, R intl F d A -> (S F <= G)%nat -> A (key intl n) = Some b ->
  (A (key intl m) = None \/ key intl m = key intl n) ->
  exists d1 d2, remove intl G d n = Some (d1, b) /\ insert intl G d1 m b = Some d2 /\ R intl (S F) d2 (ains intl (adel intl A n) m b).
Proof. exact rename_refines. Qed.

Theorem C02_rename_resolution : forall intl A n m b k, let A' := ains intl (adel intl A n) m b in
  A' (key intl m) = Some b /\ (k <> key intl m -> k <> key intl n -> A' k = A k) /\ (key intl m <> key intl n -> A' (key intl n) = None).
Proof. exact rename_lookup. Qed.

Print Assumptions C02_directory_refines_map.
Print Assumptions C02_rename_keeps_block_and_bystanders.
Print Assumptions C02_empty_directory.
Print Assumptions C02_delete_exact.
Print Assumptions C02_chain_fail_identity.

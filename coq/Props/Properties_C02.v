(* C02 Namespace fidelity.
   The reference model (Spec/FsSpec.v) is the "reference tree model" of the property.  Proved here about it:
   a call that reports failure leaves the tree and all handles exactly as they were.
   That the library's directory operations refine this model (return codes, tree, file contents, free count) is judged
   per explored history: implementation vs extracted model vs extracted decoder (checks/c02.py). *)
From Coq Require Import ZArith List Bool.
From ADF Require Import CPrelude Spec.Names Spec.FsSpec Proofs.FsSpecP.

Theorem C02_fail_identity : forall intl root hs o root' hs',
  step intl root hs o = (root', hs', RErr) -> root' = root /\ hs' = hs.
Proof. exact step_fail_identity. Qed.

(* lookups and listings never change the state *)
Theorem C02_queries_pure : forall intl root hs o root' hs' r,
  (match o with OLookup _ _ | OList _ | OStat _ => True | _ => False end) ->
  step intl root hs o = (root', hs', r) -> root' = root /\ hs' = hs.
Proof. exact step_queries_pure. Qed.

Print Assumptions C02_fail_identity.
Print Assumptions C02_queries_pure.

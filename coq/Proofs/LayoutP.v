(* C03: the library's struct layouts and endian-swap table (REGENERATED from adf_blk.h / adf_raw.c by clang's
   record-layout dump) against the field offsets of the format specification used by the decoder. *)
From Coq Require Import ZArith List Bool String.
From ADF Require Import CPrelude Generated.Layout Spec.Decode.
Import ListNotations.
Local Open Scope string_scope.
Local Open Scope Z_scope.

Fixpoint field_off (l : list (string * Z * string)) (name : string) : option Z :=
  match l with
  | [] => None
  | (n, o, _) :: r => if String.eqb n name then Some o else field_off r name
  end.

Definition has (l : list (string * Z * string)) (fs : list (string * Z)) : bool :=
  forallb (fun p => match field_off l (fst p) with Some o => o =? snd p | None => false end) fs.

(* swap kind (4 = long, 1 = char) of the byte at offset `off` in a swapTable row *)
Fixpoint swap_kind (row : list Z) (off : Z) (fuel : nat) : Z :=
  match fuel with
  | O => 0
  | S f => match row with
           | cnt :: kind :: rest =>
               if cnt =? 0 then 0
               else if off <? cnt * kind then kind else swap_kind rest (off - cnt * kind) f
           | _ => 0
           end
  end.

Fixpoint row_total (row : list Z) (fuel : nat) : Z :=
  match fuel with
  | O => 0
  | S f => match row with
           | cnt :: kind :: rest => if cnt =? 0 then 0 else cnt * kind + row_total rest f
           | _ => 0
           end
  end.

Definition is_long_type (t : string) : bool :=
  String.eqb t "int32_t" || String.eqb t "uint32_t" || String.eqb (substring 0 8 t) "int32_t[" || String.eqb (substring 0 9 t) "uint32_t[".
Definition is_char_type (t : string) : bool :=
  String.eqb t "uint8_t" || String.eqb (substring 0 5 t) "char[" || String.eqb (substring 0 8 t) "uint8_t[".

(* every field's first byte lies in a region of the right swap kind *)
Definition reserved (n : string) : bool := String.eqb n "r4" || String.eqb n "r6".   (* unused long inside the name area *)
Definition swap_agrees (row : list Z) (l : list (string * Z * string)) : bool :=
  forallb (fun f => let '(n, o, t) := f in
                    if reserved n then true else
                    if is_long_type t then swap_kind row o 16 =? 4
                    else if is_char_type t then swap_kind row o 16 =? 1 else false) l.

Definition row (k : nat) : list Z := nth k swapTable [].

Lemma layout_root : has layout_bRootBlock
  [("type", O_TYPE); ("headerKey", O_HKEY); ("highSeq", O_HIGHSEQ); ("hashTableSize", O_HTSIZE); ("firstData", O_FIRSTDATA);
   ("checkSum", O_SUM); ("hashTable", O_TABLE); ("bmFlag", O_BMFLAG); ("bmPages", O_BMPAGES); ("bmExt", O_BMEXT);
   ("nameLen", O_NAMELEN); ("diskName", O_NAME); ("nextSameHash", O_NEXTHASH); ("parent", O_PARENT);
   ("extension", O_EXT); ("secType", O_SECTYPE)] = true.
Proof. vm_compute. reflexivity. Qed.

Lemma layout_entry : has layout_bEntryBlock
  [("type", O_TYPE); ("headerKey", O_HKEY); ("checkSum", O_SUM); ("hashTable", O_TABLE); ("access", O_PROT); ("byteSize", O_SIZE);
   ("commLen", O_COMMLEN); ("comment", O_COMM); ("days", O_DAYS); ("mins", O_MINS); ("ticks", O_TICKS);
   ("nameLen", O_NAMELEN); ("name", O_NAME); ("realEntry", O_REAL); ("nextLink", O_NEXTLINK);
   ("nextSameHash", O_NEXTHASH); ("parent", O_PARENT); ("extension", O_EXT); ("secType", O_SECTYPE)] = true.
Proof. vm_compute. reflexivity. Qed.

Lemma layout_filehdr : has layout_bFileHeaderBlock
  [("type", O_TYPE); ("headerKey", O_HKEY); ("highSeq", O_HIGHSEQ); ("firstData", O_FIRSTDATA); ("checkSum", O_SUM);
   ("dataBlocks", O_TABLE); ("access", O_PROT); ("byteSize", O_SIZE); ("commLen", O_COMMLEN); ("comment", O_COMM);
   ("days", O_DAYS); ("nameLen", O_NAMELEN); ("fileName", O_NAME);
   ("nextSameHash", O_NEXTHASH); ("parent", O_PARENT); ("extension", O_EXT); ("secType", O_SECTYPE)] = true.
Proof. vm_compute. reflexivity. Qed.

Lemma layout_dir : has layout_bDirBlock
  [("type", O_TYPE); ("headerKey", O_HKEY); ("checkSum", O_SUM); ("hashTable", O_TABLE); ("access", O_PROT);
   ("commLen", O_COMMLEN); ("comment", O_COMM); ("days", O_DAYS); ("nameLen", O_NAMELEN); ("dirName", O_NAME);
   ("nextSameHash", O_NEXTHASH); ("parent", O_PARENT); ("extension", O_EXT); ("secType", O_SECTYPE)] = true.
Proof. vm_compute. reflexivity. Qed.

Lemma layout_ext : has layout_bFileExtBlock
  [("type", O_TYPE); ("headerKey", O_HKEY); ("highSeq", O_HIGHSEQ); ("checkSum", O_SUM); ("dataBlocks", O_TABLE);
   ("parent", O_PARENT); ("extension", O_EXT); ("secType", O_SECTYPE)] = true.
Proof. vm_compute. reflexivity. Qed.

Lemma layout_ofsdata : has layout_bOFSDataBlock
  [("type", 0); ("headerKey", 4); ("seqNum", 8); ("dataSize", 12); ("nextData", 16); ("checkSum", 20); ("data", 24)] = true.
Proof. vm_compute. reflexivity. Qed.

Lemma layout_cache : has layout_bDirCacheBlock
  [("type", 0); ("headerKey", 4); ("parent", 8); ("recordsNb", 12); ("nextDirC", 16); ("checkSum", 20); ("records", 24)] = true.
Proof. vm_compute. reflexivity. Qed.

Lemma layout_bitmap : has layout_bBitmapBlock [("checkSum", 0); ("map", 4)] = true /\
                      has layout_bBitmapExtBlock [("bmPages", 0); ("nextBlock", 508)] = true.
Proof. split; vm_compute; reflexivity. Qed.

Lemma layout_sizes :
  sizeof_bRootBlock = 512 /\ sizeof_bEntryBlock = 512 /\ sizeof_bFileHeaderBlock = 512 /\ sizeof_bFileExtBlock = 512 /\
  sizeof_bDirBlock = 512 /\ sizeof_bOFSDataBlock = 512 /\ sizeof_bBitmapBlock = 512 /\ sizeof_bBitmapExtBlock = 512 /\
  sizeof_bDirCacheBlock = 512 /\ sizeof_bLinkBlock = 512 /\ sizeof_bBootBlock = 1024.
Proof. repeat split; reflexivity. Qed.

(* the endian-swap table treats each field according to its C type, and each row covers the whole block *)
Lemma swap_rows :
  swap_agrees (row 1) layout_bRootBlock = true /\
  swap_agrees (row 3) layout_bEntryBlock = true /\ swap_agrees (row 3) layout_bFileHeaderBlock = true /\
  swap_agrees (row 3) layout_bDirBlock = true /\
  swap_agrees (row 5) layout_bFileExtBlock = true /\ swap_agrees (row 5) layout_bBitmapBlock = true /\
  swap_agrees (row 5) layout_bBitmapExtBlock = true /\
  swap_agrees (row 2) layout_bOFSDataBlock = true /\
  swap_agrees (row 6) layout_bLinkBlock = true /\
  row_total (row 1) 16 = 512 /\ row_total (row 2) 16 = 512 /\ row_total (row 3) 16 = 512 /\ row_total (row 5) 16 = 512 /\
  row_total (row 6) 16 = 512 /\ row_total (row 4) 16 = 24 /\ row_total (row 0) 16 = 1024.
Proof. repeat split; vm_compute; reflexivity. Qed.

Lemma block_constants :
  K_HT_SIZE = 72 /\ K_MAX_DATABLK = 72 /\ K_BM_SIZE = 25 /\ K_MAXNAMELEN = 30 /\ K_MAXCMMTLEN = 79 /\
  K_T_HEADER = T_HEADER /\ K_T_LIST = T_LIST /\ K_T_DATA = T_DATA /\ K_T_DIRC = T_DIRC /\
  K_ST_ROOT = ST_ROOT /\ K_ST_DIR = ST_DIR /\ K_ST_FILE = ST_FILE /\ K_ST_LFILE = ST_LFILE /\ K_ST_LDIR = ST_LDIR /\ K_ST_LSOFT = ST_LSOFT /\
  K_BM_VALID = -1.
Proof. repeat split; reflexivity. Qed.

(* adfRenameEntry inside one directory, on the block-level directory model (Model/Chain.v): unlink under the old name, link the SAME block under the
   new one (what the correspondence of checks/chaincorr.py feeds the model for every rename the library performs).  The result refines the
   abstract map with the old key removed and the new key bound to the entry's block: the entry keeps its block, is found under the new name,
   no longer under the old one (unless the two names fold to the same key), and every other name resolves exactly as before. *)
From Coq Require Import ZArith List Bool Lia.
From ADF Require Import Spec.Names Model.Chain Proofs.ChainP.
Import ListNotations.
Local Open Scope Z_scope.

Section Rename.
Variable intl : bool.

Lemma walk_found_nonzero : forall f h k s prev b p, walk intl f h k s prev = Found b p -> b <> 0.
Proof.
  induction f as [|f IH]; intros h k s prev b p; cbn [walk]; [discriminate|].
  destruct (Z.eqb_spec s 0) as [|Hs]; [discriminate|]. destruct (h s) as [e|]; [|discriminate].
  destruct (list_eq_dec Z.eq_dec (key intl (e_name e)) k); [intros H; injection H as <- <-; exact Hs|apply IH].
Qed.

Theorem rename_refines F G d A n m b : R intl F d A -> (S F <= G)%nat -> A (key intl n) = Some b ->
  (A (key intl m) = None \/ key intl m = key intl n) ->
  exists d1 d2, remove intl G d n = Some (d1, b) /\ insert intl G d1 m b = Some d2 /\ R intl (S F) d2 (ains intl (adel intl A n) m b).
Proof.
  intros HR HG Hn Hm.
  assert (Hb : b <> 0).
  { destruct HR as (_ & Hl). specialize (Hl G n ltac:(lia)). rewrite Hn in Hl. unfold lookup_blk, lookup in Hl.
    destruct (walk intl G (d_hp d) (key intl n) (d_ht d (slot intl n)) 0) as [b' p| |] eqn:Hw; try discriminate. injection Hl as <-.
    apply (walk_found_nonzero _ _ _ _ _ _ _ Hw). }
  destruct (remove_refines intl F G d A n b HR ltac:(lia) Hn) as (d1 & Hrm & R1 & Hfree).
  assert (Hnone : adel intl A n (key intl m) = None).
  { unfold adel. destruct (list_eq_dec Z.eq_dec (key intl m) (key intl n)) as [|Hne]; [reflexivity|]. destruct Hm as [Hm|Hm]; [exact Hm|contradiction]. }
  destruct (insert_refines intl F G d1 (adel intl A n) m b R1 ltac:(lia) Hnone Hb Hfree) as (d2 & Hins & R2).
  exists d1, d2. split; [exact Hrm|]. split; [exact Hins|exact R2].
Qed.

(* read off the abstract map: what each name resolves to afterwards *)
Corollary rename_lookup A n m b k : let A' := ains intl (adel intl A n) m b in
  A' (key intl m) = Some b /\ (k <> key intl m -> k <> key intl n -> A' k = A k) /\ (key intl m <> key intl n -> A' (key intl n) = None).
Proof.
  cbv zeta. unfold ains, adel. split; [|split].
  - destruct (list_eq_dec Z.eq_dec (key intl m) (key intl m)); [reflexivity|contradiction].
  - intros H1 H2. destruct (list_eq_dec Z.eq_dec k (key intl m)); [contradiction|]. destruct (list_eq_dec Z.eq_dec k (key intl n)); [contradiction|reflexivity].
  - intros H. destruct (list_eq_dec Z.eq_dec (key intl n) (key intl m)) as [Hc|_]; [exfalso; apply H; symmetry; exact Hc|].
    destruct (list_eq_dec Z.eq_dec (key intl n) (key intl n)); [reflexivity|contradiction].
Qed.
End Rename.

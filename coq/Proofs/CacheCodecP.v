(* C07: the directory-cache record codec.  adfPutCacheEntry and adfGetCacheEntry are REGENERATED from adf_cache.c on every
   run (buffer-writing translation: swLong/swShort/memcpy/array stores on the 488-byte record area).  Proved: a record
   written at offset p is read back field by field, the reader's new offset is p + the writer's length, the writer
   touches only the bytes [p, p+len) of the area, and the reader refuses every offset from which a minimal record would
   leave the 488-byte area. *)
From Coq Require Import ZArith List Bool Lia.
From ADF Require Import CPrelude Generated.Leaf Proofs.BytesP.
Import ListNotations.
Local Open Scope Z_scope.

Definition is_bytes (l : list Z) : Prop := Forall (fun c => 0 <= c < 256) l.

Lemma nthZ_blit_out l i src j : 0 <= i -> i + Z.of_nat (length src) <= Z.of_nat (length l) ->
  (j < i \/ i + Z.of_nat (length src) <= j) -> nthZ (blit l i src) j = nthZ l j.
Proof.
  intros H0 H1 H2. rewrite nthZ_blit by assumption.
  destruct (Z.leb_spec i j); destruct (Z.ltb_spec j (i + Z.of_nat (length src))); simpl; try reflexivity; lia.
Qed.

Lemma nthZ_blit_in l i src j : 0 <= i -> i + Z.of_nat (length src) <= Z.of_nat (length l) ->
  i <= j < i + Z.of_nat (length src) -> nthZ (blit l i src) j = nthZ src (j - i).
Proof.
  intros H0 H1 H2. rewrite nthZ_blit by assumption.
  destruct (Z.leb_spec i j); destruct (Z.ltb_spec j (i + Z.of_nat (length src))); simpl; try reflexivity; lia.
Qed.

Lemma list_eq_nthZ (a b : list Z) : length a = length b ->
  (forall k, 0 <= k < Z.of_nat (length a) -> nthZ a k = nthZ b k) -> a = b.
Proof.
  intros Hl H. apply (nth_ext _ _ 0 0 Hl). intros n Hn.
  specialize (H (Z.of_nat n) ltac:(lia)). unfold nthZ in H.
  destruct (Z.ltb_spec (Z.of_nat n) 0); [lia|]. rewrite Nat2Z.id in H. exact H.
Qed.

Lemma nth_firstn_lt (l : list Z) : forall (n k : nat), (k < n)%nat -> nth k (firstn n l) 0 = nth k l 0.
Proof.
  induction l as [|x l IH]; intros n k H.
  - rewrite firstn_nil. reflexivity.
  - destruct n as [|n]; [lia|]. destruct k as [|k]; simpl; [reflexivity|]. apply IH. lia.
Qed.

Lemma cast_s8_u8 t : -128 <= t < 128 -> cast_s8 (cast_u8 t) = t.
Proof.
  intros H. unfold cast_s8, cast_s, cast_u8, cast_u. change (8 - 1) with 7. change (2 ^ 8) with 256. change (2 ^ 7) with 128.
  rewrite Z.mod_mod by lia.
  destruct (Z_lt_dec t 0).
  - assert (E : t mod 256 = t + 256) by (symmetry; apply (Z.mod_unique _ _ (-1)); lia).
    rewrite E. destruct (Z.ltb_spec (t + 256) 128); lia.
  - rewrite Z.mod_small by lia. destruct (Z.ltb_spec t 128); lia.
Qed.

Ltac lens := repeat (progress (rewrite ?updZ_length, ?put_be32_length, ?put_be16_length, ?blit_length, ?subZ_length in * )).

Ltac side := lens; repeat match goal with H : length ?l = _ |- context [length ?l] => rewrite H end; lia.

(* one layer of the writer's buffer is transparent for a byte it does not touch *)
Ltac peel1 :=
  first [ rewrite nthZ_updZ_other by lia
        | rewrite nthZ_put_be32_other by lia
        | rewrite nthZ_put_be16_other by lia
        | rewrite nthZ_blit_out by side ].
Ltac peel := repeat peel1.

Section Codec.
Variables (recs : list Z) (p hdr size prot days mins ticks typ : Z) (name comm : list Z).
Let nLen := Z.of_nat (length name).
Let cLen := Z.of_nat (length comm).
Let l0 := 25 + nLen + cLen.
Let len := if Z.even l0 then l0 else l0 + 1.

Hypothesis Hrecs : length recs = 488%nat.
Hypothesis Hp : 0 <= p.
Hypothesis Hpe : Z.even p = true.      (* records start at even offsets (the writer pads every record to an even length) *)
Hypothesis Hfit : p + len <= 488.
Hypothesis Hn : 1 <= nLen <= 30.
Hypothesis Hc : cLen <= 79.
Hypothesis Hhdr : 0 <= hdr < 2 ^ 32.
Hypothesis Hsize : 0 <= size < 2 ^ 32.
Hypothesis Hprot : 0 <= prot < 2 ^ 32.
Hypothesis Hdays : 0 <= days < 65536.
Hypothesis Hmins : 0 <= mins < 65536.
Hypothesis Hticks : 0 <= ticks < 65536.
Hypothesis Htyp : -128 <= typ < 128.

Let put := c_adfPutCacheEntry recs p cLen comm days hdr mins nLen name prot size ticks typ.

Lemma rem2_even x : 0 <= x -> (Z.rem x 2 =? 0) = Z.even x.
Proof.
  intros H. rewrite Z.rem_mod_nonneg by lia. rewrite Zmod_even. destruct (Z.even x); reflexivity.
Qed.

Lemma len_bounds : l0 <= len <= l0 + 1 /\ 26 <= len.
Proof. unfold len, l0. destruct (Z.even (25 + nLen + cLen)); lia. Qed.

Lemma cLen_nonneg : 0 <= cLen.
Proof. unfold cLen. lia. Qed.

Lemma put_fst : fst put = len.
Proof.
  unfold put, c_adfPutCacheEntry. cbv zeta. fold l0.
  rewrite rem2_even by (unfold l0; pose proof cLen_nonneg; lia). unfold len. destruct (Z.even l0); reflexivity.
Qed.

Lemma put_length : length (snd put) = 488%nat.
Proof.
  unfold put, c_adfPutCacheEntry. cbv zeta. destruct (Z.rem _ 2 =? 0); cbn [snd]; lens; exact Hrecs.
Qed.

(* the writer's buffer, byte by byte *)
Lemma put_frame : forall j, (j < p \/ p + len <= j) -> nthZ (snd put) j = nthZ recs j.
Proof.
  intros j Hj. pose proof cLen_nonneg as Hc0.
  unfold put, c_adfPutCacheEntry. cbv zeta. fold l0.
  rewrite rem2_even by (unfold l0; lia). unfold len in Hj.
  destruct (Z.even l0); cbn [snd]; unfold l0 in *; peel; reflexivity.
Qed.

Definition R := snd put.

Lemma R_hdr : forall j, p <= j <= p + 3 -> nthZ R j = nthZ (put_be32 recs p hdr) j.
Proof.
  intros j Hj. pose proof cLen_nonneg as Hc0. pose proof len_bounds as [Hl Hl26]. unfold l0 in Hl. unfold R, put, c_adfPutCacheEntry. cbv zeta.
  destruct (Z.rem _ 2 =? 0); cbn [snd]; peel; reflexivity.
Qed.

Lemma R_size : forall j, p + 4 <= j <= p + 7 -> nthZ R j = nthZ (put_be32 (put_be32 recs p hdr) (p + 4) size) j.
Proof.
  intros j Hj. pose proof cLen_nonneg as Hc0. pose proof len_bounds as [Hl Hl26]. unfold l0 in Hl. unfold R, put, c_adfPutCacheEntry. cbv zeta.
  destruct (Z.rem _ 2 =? 0); cbn [snd]; peel; reflexivity.
Qed.

Lemma R_prot : forall j, p + 8 <= j <= p + 11 ->
  nthZ R j = nthZ (put_be32 (put_be32 (put_be32 recs p hdr) (p + 4) size) (p + 8) prot) j.
Proof.
  intros j Hj. pose proof cLen_nonneg as Hc0. pose proof len_bounds as [Hl Hl26]. unfold l0 in Hl. unfold R, put, c_adfPutCacheEntry. cbv zeta.
  destruct (Z.rem _ 2 =? 0); cbn [snd]; peel; reflexivity.
Qed.

Let r3 := put_be32 (put_be32 (put_be32 recs p hdr) (p + 4) size) (p + 8) prot.
Let r4 := put_be16 r3 (p + 16) days.
Let r5 := put_be16 r4 (p + 18) mins.
Let r6 := put_be16 r5 (p + 20) ticks.
Let r7 := updZ r6 (p + 22) (cast_u8 typ).
Let r8 := updZ r7 (p + 23) nLen.
Let r9 := blit r8 (p + 24) (subZ name 0 nLen).
Let r10 := updZ r9 (p + 24 + nLen) cLen.
Let r11 := blit r10 (p + 24 + nLen + 1) (subZ comm 0 cLen).

Lemma R_is : R = if Z.even l0 then r11 else updZ r11 (p + l0) (cast_u8 (cast_s8 0)).
Proof.
  unfold R, put, c_adfPutCacheEntry. cbv zeta. fold l0.
  rewrite rem2_even by (unfold l0; pose proof cLen_nonneg; lia).
  destruct (Z.even l0); reflexivity.
Qed.

Lemma R_above : forall j, j < p + l0 -> nthZ R j = nthZ r11 j.
Proof.
  intros j Hj. rewrite R_is. destruct (Z.even l0); [reflexivity|]. apply nthZ_updZ_other. lia.
Qed.

Lemma lengths : length r3 = 488%nat /\ length r8 = 488%nat /\ length r10 = 488%nat.
Proof. unfold r10, r9, r8, r7, r6, r5, r4, r3. lens. auto. Qed.

Lemma R_days : be16_at R (p + 16) = days.
Proof.
  pose proof cLen_nonneg as Hc0. pose proof len_bounds as [Hl _]. unfold l0 in Hl.
  rewrite (be16_at_ext R r4).
  - unfold r4, r3. apply be16_put_same; [lia|unfold l0 in Hl; side|exact Hdays].
  - intros j Hj. rewrite R_above by (unfold l0; lia).
    unfold r11, r10, r9, r8, r7, r6, r5, r4, r3. peel. reflexivity.
Qed.

Lemma R_mins : be16_at R (p + 18) = mins.
Proof.
  pose proof cLen_nonneg as Hc0. pose proof len_bounds as [Hl _]. unfold l0 in Hl.
  rewrite (be16_at_ext R r5).
  - unfold r5, r4, r3. apply be16_put_same; [lia|unfold l0 in Hl; side|exact Hmins].
  - intros j Hj. rewrite R_above by (unfold l0; lia).
    unfold r11, r10, r9, r8, r7, r6, r5, r4, r3. peel. reflexivity.
Qed.

Lemma R_ticks : be16_at R (p + 20) = ticks.
Proof.
  pose proof cLen_nonneg as Hc0. pose proof len_bounds as [Hl _]. unfold l0 in Hl.
  rewrite (be16_at_ext R r6).
  - unfold r6, r5, r4, r3. apply be16_put_same; [lia|unfold l0 in Hl; side|exact Hticks].
  - intros j Hj. rewrite R_above by (unfold l0; lia).
    unfold r11, r10, r9, r8, r7, r6, r5, r4, r3. peel. reflexivity.
Qed.

Lemma R_type : nthZ R (p + 22) = cast_u8 typ.
Proof.
  pose proof cLen_nonneg as Hc0. pose proof len_bounds as [Hl _]. unfold l0 in Hl.
  rewrite R_above by (unfold l0; lia). unfold r11, r10, r9, r8, r7, r6, r5, r4, r3. peel.
  apply nthZ_updZ_same. lens. rewrite Hrecs. unfold l0 in Hl. lia.
Qed.

Lemma R_nlen : nthZ R (p + 23) = nLen.
Proof.
  pose proof cLen_nonneg as Hc0. pose proof len_bounds as [Hl _]. unfold l0 in Hl.
  rewrite R_above by (unfold l0; lia). unfold r11, r10, r9, r8, r7, r6, r5, r4, r3. peel.
  apply nthZ_updZ_same. lens. rewrite Hrecs. unfold l0 in Hl. lia.
Qed.

Lemma R_name : forall k, 0 <= k < nLen -> nthZ R (p + 24 + k) = nthZ name k.
Proof.
  intros k Hk. pose proof cLen_nonneg as Hc0. pose proof len_bounds as [Hl _]. unfold l0 in Hl.
  rewrite R_above by (unfold l0; lia). unfold r11, r10, r9, r8, r7, r6, r5, r4, r3. peel.
  rewrite nthZ_blit_in by (unfold l0 in Hl; side).
  replace (p + 24 + k - (p + 24)) with k by lia. rewrite nthZ_subZ by lia. reflexivity.
Qed.

Lemma R_clen : nthZ R (p + 24 + nLen) = cLen.
Proof.
  pose proof cLen_nonneg as Hc0. pose proof len_bounds as [Hl _]. unfold l0 in Hl.
  rewrite R_above by (unfold l0; lia). unfold r11, r10, r9, r8, r7, r6, r5, r4, r3. peel.
  apply nthZ_updZ_same. lens. rewrite Hrecs. unfold l0 in Hl. lia.
Qed.

Lemma R_comm : forall k, 0 <= k < cLen -> nthZ R (p + 24 + nLen + 1 + k) = nthZ comm k.
Proof.
  intros k Hk. pose proof cLen_nonneg as Hc0. pose proof len_bounds as [Hl _]. unfold l0 in Hl.
  rewrite R_above by (unfold l0; lia).
  unfold r11, r10, r9, r8, r7, r6, r5, r4, r3. rewrite nthZ_blit_in by (unfold l0 in Hl; side).
  replace (p + 24 + nLen + 1 + k - (p + 24 + nLen + 1)) with k by lia. rewrite nthZ_subZ by lia. reflexivity.
Qed.

(* ---- the reader on the writer's buffer ---- *)
Variables (e_cLen : Z) (e_comm : list Z) (e_days e_header e_mins e_nLen : Z) (e_name : list Z) (e_protect e_size e_ticks e_type : Z).
Hypothesis Hname0 : length e_name = 31%nat.
Hypothesis Hcomm0 : length e_comm = 80%nat.

Definition get := c_adfGetCacheEntry R p e_cLen e_comm e_days e_header e_mins e_nLen e_name e_protect e_size e_ticks e_type.

Theorem codec_roundtrip :
  exists name' comm',
    get = (0, p + len, hdr, size, prot, days, mins, ticks, typ, nLen, name', cLen, comm') /\
    firstn (length name) name' = name /\ firstn (length comm) comm' = comm.
Proof.
  pose proof cLen_nonneg as Hc0. pose proof len_bounds as [Hl Hl26]. pose proof lengths as (L3 & L8 & L10).
  assert (HRlen : length R = 488%nat) by (unfold R; apply put_length).
  unfold get, c_adfGetCacheEntry. cbv zeta.
  change (cast_s32 488) with 488.
  destruct (Z.ltb_spec p 0); [lia|]. destruct (Z.gtb_spec p (488 - 26)); [lia|]. cbn [orb].
  rewrite (be32_at_ext R (put_be32 recs p hdr) p) by (intros j Hj; apply R_hdr; lia).
  rewrite be32_put_same by (try rewrite Hrecs; unfold l0 in Hl; lia).
  rewrite (be32_at_ext R (put_be32 (put_be32 recs p hdr) (p + 4) size) (p + 4)) by (intros j Hj; apply R_size; lia).
  rewrite be32_put_same by (lens; try rewrite Hrecs; unfold l0 in Hl; lia).
  rewrite (be32_at_ext R r3 (p + 8)) by (intros j Hj; apply R_prot; lia).
  replace (be32_at r3 (p + 8)) with prot by (unfold r3; symmetry; apply be32_put_same; [lia|unfold l0 in Hl; side|exact Hprot]).
  rewrite R_days, R_mins, R_ticks, R_type, R_nlen, cast_s8_u8 by exact Htyp.
  destruct (Z.ltb_spec nLen 1); [lia|]. destruct (Z.gtb_spec nLen 30); [lia|]. cbn [orb].
  destruct (Z.gtb_spec (p + 24 + nLen + 1) 488); [unfold l0 in Hl; lia|].
  rewrite R_clen.
  destruct (Z.gtb_spec cLen 79); [lia|].
  destruct (Z.gtb_spec (p + 24 + nLen + 1 + cLen) 488); [unfold l0 in Hl; lia|].
  (* the offset the reader leaves *)
  assert (Hoff : (if negb (Z.rem (p + 24 + nLen + 1 + cLen) 2 =? 0) then p + 24 + nLen + 1 + cLen + 1 else p + 24 + nLen + 1 + cLen) = p + len).
  { rewrite rem2_even by lia. replace (p + 24 + nLen + 1 + cLen) with (p + l0) by (unfold l0; lia).
    rewrite Z.even_add, Hpe. unfold len. destruct (Z.even l0); simpl; lia. }
  rewrite Hoff.
  eexists. eexists. split; [reflexivity|]. split.
  - (* name *)
    apply list_eq_nthZ.
    + rewrite firstn_length. lens. rewrite Hname0. unfold nLen in Hn. lia.
    + intros k Hk. rewrite firstn_length in Hk. lens. rewrite Hname0 in Hk.
      assert (Hk' : 0 <= k < nLen) by (unfold nLen in *; lia).
      unfold nthZ at 1. destruct (Z.ltb_spec k 0); [lia|].
      rewrite nth_firstn_lt by lia.
      change (nth (Z.to_nat k) ?l 0) with (nth (Z.to_nat k) l 0).
      assert (E : forall l, nth (Z.to_nat k) l 0 = nthZ l k) by (intros l; unfold nthZ; destruct (Z.ltb_spec k 0); [lia|reflexivity]).
      rewrite E. rewrite nthZ_updZ_other by lia.
      rewrite nthZ_blit_in by side. rewrite nthZ_subZ by lia.
      replace (p + 24 + (k - 0)) with (p + 24 + k) by lia. apply R_name. exact Hk'.
  - (* comment *)
    apply list_eq_nthZ.
    + rewrite firstn_length. destruct (cLen >? 0); lens; rewrite Hcomm0; unfold cLen in Hc; lia.
    + intros k Hk. rewrite firstn_length in Hk.
      assert (Hlen' : length (if cLen >? 0 then blit e_comm 0 (subZ R (p + 24 + nLen + 1) cLen) else e_comm) = 80%nat)
        by (destruct (cLen >? 0); lens; exact Hcomm0).
      rewrite updZ_length, Hlen' in Hk.
      assert (Hk' : 0 <= k < cLen) by (unfold cLen in *; lia).
      unfold nthZ at 1. destruct (Z.ltb_spec k 0); [lia|].
      rewrite nth_firstn_lt by lia.
      assert (E : forall l, nth (Z.to_nat k) l 0 = nthZ l k) by (intros l; unfold nthZ; destruct (Z.ltb_spec k 0); [lia|reflexivity]).
      rewrite E. rewrite nthZ_updZ_other by lia.
      destruct (Z.gtb_spec cLen 0); [|lia].
      rewrite nthZ_blit_in by side. rewrite nthZ_subZ by lia.
      replace (p + 24 + nLen + 1 + (k - 0)) with (p + 24 + nLen + 1 + k) by lia. apply R_comm. exact Hk'.
Qed.

End Codec.

(* the reader accepts a record only if it lies inside the 488-byte record area, whatever the block holds *)
Theorem get_ok_inside : forall B p e_cLen e_comm e_days e_header e_mins e_nLen e_name e_protect e_size e_ticks e_type
                               rc p' h s pr d m t ty nl nm cl cm,
  c_adfGetCacheEntry B p e_cLen e_comm e_days e_header e_mins e_nLen e_name e_protect e_size e_ticks e_type
    = (rc, p', h, s, pr, d, m, t, ty, nl, nm, cl, cm) ->
  rc = 0 -> 0 <= p <= 462 /\ 1 <= nl <= 30 /\ cl <= 79 /\ p + 25 + nl + cl <= 488 /\ p' <= 489.
Proof.
  intros until cm. unfold c_adfGetCacheEntry. cbv zeta. change (cast_s32 488) with 488.
  destruct (Z.ltb_spec p 0) as [C1|C1]; cbn [orb]; [intros X; injection X; intros; subst; discriminate|].
  destruct (Z.gtb_spec p (488 - 26)) as [C2|C2]; cbn [orb]; [intros X; injection X; intros; subst; discriminate|].
  destruct (Z.ltb_spec (nthZ B (p + 23)) 1) as [C3|C3]; cbn [orb]; [intros X; injection X; intros; subst; discriminate|].
  destruct (Z.gtb_spec (nthZ B (p + 23)) 30) as [C4|C4]; cbn [orb]; [intros X; injection X; intros; subst; discriminate|].
  destruct (Z.gtb_spec (p + 24 + nthZ B (p + 23) + 1) 488) as [C5|C5]; [intros X; injection X; intros; subst; discriminate|].
  destruct (Z.gtb_spec (nthZ B (p + 24 + nthZ B (p + 23))) 79) as [C6|C6]; [intros X; injection X; intros; subst; discriminate|].
  destruct (Z.gtb_spec (p + 24 + nthZ B (p + 23) + 1 + nthZ B (p + 24 + nthZ B (p + 23))) 488) as [C7|C7]; [intros X; injection X; intros; subst; discriminate|].
  intros X _. injection X. intros. subst nl cl p'.
  destruct (negb _); lia.
Qed.

(* Append and take back (C05 / C01), on the file handle model: appending to a file and then truncating it to its old size restores the file
   exactly - same block lists, same content - and the blocks the truncation hands to adfSetBlockFree are exactly the blocks the append had
   linked (data and extension blocks), each once.  From the per-call theorems of Proofs/FileIOP.v. *)
From Coq Require Import ZArith List Bool Lia Permutation.
From ADF Require Import CPrelude Model.FileIO Proofs.FileIOL Proofs.FileIOFr Proofs.FileIOP.
Import ListNotations.
Local Open Scope Z_scope.

Lemma grows_prefix L E L' E' al al' : Grows L E L' E' al al' -> exists nl ne, L' = L ++ nl /\ E' = E ++ ne.
Proof.
  induction 1 as [L E al|L E L' E' al al' _ IH|L E L' E' al x y al' _ IH].
  - exists [], []. rewrite !app_nil_r. split; reflexivity.
  - exact IH.
  - destruct IH as (nl & ne & -> & ->). destruct (needs_x (len (L ++ nl))).
    + exists (nl ++ [y]), (ne ++ [x]). rewrite !app_assoc. split; reflexivity.
    + exists (nl ++ [x]), ne. rewrite !app_assoc. split; reflexivity.
Qed.

Lemma firstn_len_app {A} (l r : list A) : firstn (Z.to_nat (len l)) (l ++ r) = l.
Proof. unfold len. rewrite Nat2Z.id. rewrite firstn_app, Nat.sub_diag, firstn_all. cbn. apply app_nil_r. Qed.

Lemma skipn_len_app {A} (l r : list A) : skipn (Z.to_nat (len l)) (l ++ r) = r.
Proof. unfold len. rewrite Nat2Z.id. rewrite skipn_app, Nat.sub_diag, skipn_all. reflexivity. Qed.

Section Cycle.
  Variable bs : Z.
  Variable ofs : bool.
  Variable key : Z.
  Hypothesis Hbs : 0 < bs.

  Theorem append_then_truncate_back s L E ct data al al2 : Inv bs ofs key s L E -> Repr bs s L ct -> mw s = true -> al_ok key L E al ->
    pos s = fsize s -> data <> [] ->
    exists s1 w al1 nl ne, fio_write bs ofs nobad s data al = (s1, w, al1) /\ Inv bs ofs key s1 (L ++ nl) (E ++ ne) /\
      Repr bs s1 (L ++ nl) (ct ++ firstn (Z.to_nat w) data) /\
      (0 < w ->
       exists s2 rem, fio_truncate bs ofs nobad s1 (fsize s) al2 = (true, s2, rem, al2) /\ Inv bs ofs key s2 L E /\ Repr bs s2 L ct /\
         fsize s2 = fsize s /\ Permutation rem (nl ++ ne)).
  Proof.
    intros I R Hw Hal Hp Hd.
    destruct (fio_write_ok_fr bs ofs key Hbs s L E ct data al I R Hw Hal) as (s1 & w & al1 & L1 & E1 & Hwr & I1 & R1 & P1 & Hw1 & W1 & M1 & _ & _ & _ & HG).
    destruct (grows_prefix _ _ _ _ _ _ HG) as (nl & ne & -> & ->).
    assert (Hlct : len ct = fsize s) by (destruct R as (Hl & _); exact Hl).
    rewrite Hp, <- Hlct, ovw_end in R1.
    exists s1, w, al1, nl, ne. split; [exact Hwr|]. split; [exact I1|]. split; [exact R1|].
    intros Hwpos.
    assert (Hf1 : fsize s1 = fsize s + w).
    { destruct R1 as (Hl1 & _). rewrite len_app in Hl1. rewrite len_firstn_le in Hl1 by lia. lia. }
    pose proof I as (B & HL & _). pose proof (b_size _ _ _ _ _ _ B) as Hsz. pose proof (b_nE _ _ _ _ _ _ B) as HnE.
    destruct (fio_truncate_shrink_ok bs ofs key Hbs s1 (L ++ nl) (E ++ ne) (ct ++ firstn (Z.to_nat w) data) al2 (fsize s) I1 R1 W1 ltac:(lia))
      as (s2 & rem & Htr & I2 & R2 & P2 & F2).
    cbv zeta in I2, R2. rewrite <- HL in I2, R2. rewrite <- HnE in I2. rewrite !firstn_len_app in I2. rewrite firstn_len_app in R2.
    rewrite <- Hlct in R2. rewrite firstn_len_app in R2.
    exists s2, rem. split; [exact Htr|]. split; [exact I2|]. split; [exact R2|]. split; [exact F2|].
    pose proof (fio_truncate_shrink_frees bs ofs key Hbs s1 (L ++ nl) (E ++ ne) al2 (fsize s) true s2 rem al2 I1 W1 ltac:(lia) Htr eq_refl) as Hperm.
    rewrite <- HL, <- HnE, !skipn_len_app in Hperm. exact Hperm.
  Qed.
End Cycle.

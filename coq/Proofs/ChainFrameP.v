(* The frame of the directory operations on the block-level directory model Model/Chain.v (C18): creating an entry writes the new entry
   block and either one hash-table slot of the directory or the chain link - and nothing but the chain link - of ONE sibling (the last
   entry of the chain); removing an entry releases its block and changes either one hash-table slot or the chain link alone of one
   sibling (its predecessor).  Every other entry block of the directory, and every name, is left exactly as it was.  No invariant is
   needed: this holds for every directory state, well-formed or not. *)
From Coq Require Import ZArith List Bool.
From ADF Require Import Spec.Names Model.Chain.
Import ListNotations.
Local Open Scope Z_scope.

Section Frame.
Variable intl : bool.

(* entry block x of d' is the one of d, or differs from it in the chain link alone *)
Definition link_only (d d' : dirst) (x : Z) : Prop :=
  d_hp d' x = d_hp d x \/ exists e l, d_hp d x = Some e /\ d_hp d' x = Some {| e_name := e_name e; e_next := l |}.

Theorem insert_frame G d n blk d' : insert intl G d n blk = Some d' ->
  (* the new entry *)
  d_hp d' blk = Some {| e_name := trunc30 n; e_next := 0 |} /\
  (* the directory block: at most the slot of the name changes *)
  (forall i, i <> slot intl n -> d_ht d' i = d_ht d i) /\
  (* the other entry blocks: all unchanged, but for the link of at most one of them, and then the hash table is unchanged *)
  exists sib, (forall x, x <> blk -> x <> sib -> d_hp d' x = d_hp d x) /\ (sib <> blk -> link_only d d' sib)
              /\ (sib <> 0 -> forall i, d_ht d' i = d_ht d i).
Proof.
  unfold insert. destruct (lookup intl G d n) as [b p|last|]; try discriminate.
  destruct (Z.eqb_spec last 0) as [H0|H0].
  - intros E. injection E as <-. cbn [d_ht d_hp]. split; [|split].
    + unfold hupd. rewrite Z.eqb_refl. reflexivity.
    + intros i Hi. unfold fupd. destruct (Z.eqb_spec i (slot intl n)); [contradiction|reflexivity].
    + exists 0. split; [|split].
      * intros x Hx _. unfold hupd. destruct (Z.eqb_spec x blk); [contradiction|reflexivity].
      * intros Hb. left. cbn [d_hp]. unfold hupd. destruct (Z.eqb_spec 0 blk) as [Hc|_]; [exfalso; apply Hb; exact Hc|reflexivity].
      * intros Hc. contradiction.
  - destruct (d_hp d last) as [le|] eqn:Hl; [|discriminate]. intros E. injection E as <-. cbn [d_ht d_hp]. split; [|split].
    + unfold hupd. rewrite Z.eqb_refl. reflexivity.
    + intros i _. reflexivity.
    + exists last. split; [|split].
      * intros x Hx Hs. unfold hupd. destruct (Z.eqb_spec x blk); [contradiction|]. destruct (Z.eqb_spec x last); [contradiction|reflexivity].
      * intros Hb. right. exists le, blk. split; [exact Hl|]. cbn [d_hp]. unfold hupd. destruct (Z.eqb_spec last blk); [contradiction|]. rewrite Z.eqb_refl. reflexivity.
      * intros _ i. reflexivity.
Qed.

Lemma walk_found : forall f h k s prev b p, walk intl f h k s prev = Found b p ->
  (exists eb, h b = Some eb /\ key intl (e_name eb) = k) /\ (p = prev \/ exists ep, h p = Some ep /\ key intl (e_name ep) <> k).
Proof.
  induction f as [|f IH]; intros h k s prev b p; cbn [walk]; [discriminate|].
  destruct (s =? 0); [discriminate|]. destruct (h s) as [e|] eqn:Hs; [|discriminate].
  destruct (list_eq_dec Z.eq_dec (key intl (e_name e)) k) as [Hk|Hk].
  - intros E. injection E as <- <-. split; [exists e; split; assumption|left; reflexivity].
  - intros E. destruct (IH h k (e_next e) s b p E) as (Hb & [->|Hp]); (split; [exact Hb|]); right; [exists e; split; assumption|exact Hp].
Qed.

Theorem remove_frame G d n d' b : remove intl G d n = Some (d', b) ->
  d_hp d' b = None /\
  (forall i, i <> slot intl n -> d_ht d' i = d_ht d i) /\
  exists sib, (forall x, x <> b -> x <> sib -> d_hp d' x = d_hp d x) /\ (sib <> b -> link_only d d' sib)
              /\ (sib <> 0 -> forall i, d_ht d' i = d_ht d i).
Proof.
  unfold remove. destruct (lookup intl G d n) as [b0 prev|last|] eqn:Hlk; try discriminate.
  destruct (d_hp d b0) as [be|] eqn:Hb; [|discriminate].
  destruct (Z.eqb_spec prev 0) as [H0|H0].
  - intros E. injection E as <- <-. cbn [d_ht d_hp]. split; [|split].
    + unfold hdel. rewrite Z.eqb_refl. reflexivity.
    + intros i Hi. unfold fupd. destruct (Z.eqb_spec i (slot intl n)); [contradiction|reflexivity].
    + exists 0. split; [|split].
      * intros x Hx _. unfold hdel. destruct (Z.eqb_spec x b0); [contradiction|reflexivity].
      * intros Hc. left. cbn [d_hp]. unfold hdel. destruct (Z.eqb_spec 0 b0) as [Hd|_]; [exfalso; apply Hc; exact Hd|reflexivity].
      * intros Hc. contradiction.
  - destruct (d_hp d prev) as [pe|] eqn:Hp; [|discriminate]. intros E. injection E as <- <-. cbn [d_ht d_hp].
    assert (Hpb : prev <> b0).
    { unfold lookup in Hlk. destruct (walk_found _ _ _ _ _ _ _ Hlk) as ((eb & Heb & Hkb) & [Hc|(ep & Hep & Hkp)]); [contradiction|].
      intros ->. rewrite Heb in Hep. injection Hep as <-. contradiction. }
    split; [|split].
      * unfold hupd, hdel. destruct (Z.eqb_spec b0 prev) as [Hc|_]; [exfalso; apply Hpb; symmetry; exact Hc|]. rewrite Z.eqb_refl. reflexivity.
      * intros i _. reflexivity.
      * exists prev. split; [|split].
        -- intros x Hx Hs. unfold hupd, hdel. destruct (Z.eqb_spec x prev); [contradiction|]. destruct (Z.eqb_spec x b0); [contradiction|reflexivity].
        -- intros _. right. exists pe, (e_next be). split; [exact Hp|]. cbn [d_hp]. unfold hupd. rewrite Z.eqb_refl. reflexivity.
        -- intros _ i. reflexivity.
Qed.
End Frame.

(* Facts about the byte-array primitives of CPrelude (nthZ, updZ, put_be16/32, be16_at/be32_at, subZ, blit) used by the
   proofs about the generated buffer-writing functions. *)
From Coq Require Import ZArith List Bool Lia.
From ADF Require Import CPrelude.
Import ListNotations.
Local Open Scope Z_scope.

Lemma upd_nat_length {A} (l : list A) i v : length (upd_nat l i v) = length l.
Proof. revert i; induction l as [|h t IH]; intros [|i]; simpl; auto. Qed.

Lemma updZ_length l i v : length (updZ l i v) = length l.
Proof. unfold updZ. destruct (i <? 0); [reflexivity|apply upd_nat_length]. Qed.

Lemma nth_upd_nat_same (l : list Z) i v : (i < length l)%nat -> nth i (upd_nat l i v) 0 = v.
Proof. revert i; induction l as [|h t IH]; intros [|i] H; simpl in *; try lia; auto. apply IH; lia. Qed.

Lemma nth_upd_nat_other (l : list Z) i j v : i <> j -> nth j (upd_nat l i v) 0 = nth j l 0.
Proof. revert i j; induction l as [|h t IH]; intros [|i] [|j] H; simpl; auto; try congruence. Qed.

Lemma nthZ_updZ_same l i v : 0 <= i < Z.of_nat (length l) -> nthZ (updZ l i v) i = v.
Proof.
  intros H. unfold nthZ, updZ. destruct (Z.ltb_spec i 0); [lia|].
  apply nth_upd_nat_same. lia.
Qed.

Lemma nthZ_updZ_other l i j v : i <> j -> nthZ (updZ l i v) j = nthZ l j.
Proof.
  intros H. unfold nthZ, updZ. destruct (Z.ltb_spec j 0); [reflexivity|].
  destruct (Z.ltb_spec i 0); [reflexivity|].
  apply nth_upd_nat_other. lia.
Qed.

Lemma put_be32_length l off v : length (put_be32 l off v) = length l.
Proof. unfold put_be32. rewrite !updZ_length. reflexivity. Qed.

Lemma put_be16_length l off v : length (put_be16 l off v) = length l.
Proof. unfold put_be16. rewrite !updZ_length. reflexivity. Qed.

Lemma nthZ_put_be32_other l off v j : (j < off \/ off + 3 < j) -> nthZ (put_be32 l off v) j = nthZ l j.
Proof. intros H. unfold put_be32. rewrite !nthZ_updZ_other by lia. reflexivity. Qed.

Lemma nthZ_put_be16_other l off v j : (j < off \/ off + 1 < j) -> nthZ (put_be16 l off v) j = nthZ l j.
Proof. intros H. unfold put_be16. rewrite !nthZ_updZ_other by lia. reflexivity. Qed.

Lemma be32_put_same b off v : 0 <= off -> off + 3 < Z.of_nat (length b) -> 0 <= v < 2 ^ 32 ->
  be32_at (put_be32 b off v) off = v.
Proof.
  intros H0 H1 Hv. unfold be32_at, put_be32.
  rewrite (nthZ_updZ_same _ (off + 3)) by (rewrite !updZ_length; lia).
  rewrite (nthZ_updZ_other _ (off + 3) (off + 2)) by lia.
  rewrite (nthZ_updZ_same _ (off + 2)) by (rewrite !updZ_length; lia).
  rewrite (nthZ_updZ_other _ (off + 3) (off + 1)) by lia.
  rewrite (nthZ_updZ_other _ (off + 2) (off + 1)) by lia.
  rewrite (nthZ_updZ_same _ (off + 1)) by (rewrite !updZ_length; lia).
  rewrite (nthZ_updZ_other _ (off + 3) off) by lia.
  rewrite (nthZ_updZ_other _ (off + 2) off) by lia.
  rewrite (nthZ_updZ_other _ (off + 1) off) by lia.
  rewrite (nthZ_updZ_same _ off) by lia.
  change (2 ^ 32) with 4294967296 in Hv.
  assert (v / 16777216 mod 256 = v / 16777216) as -> by (apply Z.mod_small; split; [apply Z.div_pos; lia|apply Z.div_lt_upper_bound; lia]).
  pose proof (Z.div_mod v 256 ltac:(lia)) as E1.
  pose proof (Z.div_mod (v / 256) 256 ltac:(lia)) as E2.
  pose proof (Z.div_mod (v / 256 / 256) 256 ltac:(lia)) as E3.
  rewrite Z.div_div in E2, E3 by lia. rewrite Z.div_div in E3 by lia.
  change (256 * 256) with 65536 in *. change (65536 * 256) with 16777216 in *.
  lia.
Qed.

Lemma be16_put_same b off v : 0 <= off -> off + 1 < Z.of_nat (length b) -> 0 <= v < 65536 ->
  be16_at (put_be16 b off v) off = v.
Proof.
  intros H0 H1 Hv. unfold be16_at, put_be16.
  rewrite (nthZ_updZ_same _ (off + 1)) by (rewrite !updZ_length; lia).
  rewrite (nthZ_updZ_other _ (off + 1) off) by lia.
  rewrite (nthZ_updZ_same _ off) by lia.
  assert (v / 256 mod 256 = v / 256) as -> by (apply Z.mod_small; split; [apply Z.div_pos; lia|apply Z.div_lt_upper_bound; lia]).
  pose proof (Z.div_mod v 256 ltac:(lia)). lia.
Qed.

Lemma be32_put_other b off v i : (i + 3 < off \/ off + 3 < i) -> be32_at (put_be32 b off v) i = be32_at b i.
Proof. intros H. unfold be32_at. rewrite !nthZ_put_be32_other by lia. reflexivity. Qed.

(* reads are determined by the bytes they look at *)
Lemma be32_at_ext l l' i : (forall j, i <= j <= i + 3 -> nthZ l j = nthZ l' j) -> be32_at l i = be32_at l' i.
Proof. intros H. unfold be32_at. rewrite !H by lia. reflexivity. Qed.

Lemma be16_at_ext l l' i : (forall j, i <= j <= i + 1 -> nthZ l j = nthZ l' j) -> be16_at l i = be16_at l' i.
Proof. intros H. unfold be16_at. rewrite !H by lia. reflexivity. Qed.

(* ---- subZ / blit ---- *)
Lemma subZ_length l i n : length (subZ l i n) = Z.to_nat n.
Proof. unfold subZ. rewrite map_length, seq_length. reflexivity. Qed.

Lemma nthZ_subZ l i n k : 0 <= k < n -> nthZ (subZ l i n) k = nthZ l (i + k).
Proof.
  intros H. unfold subZ. unfold nthZ at 1. destruct (Z.ltb_spec k 0); [lia|].
  set (f := fun k0 : nat => nthZ l (i + Z.of_nat k0)).
  rewrite (nth_indep _ 0 (f 0%nat)) by (rewrite map_length, seq_length; lia).
  rewrite map_nth. rewrite seq_nth by lia. unfold f. f_equal. lia.
Qed.

Lemma subZ_all l : subZ l 0 (Z.of_nat (length l)) = l.
Proof.
  apply (nth_ext _ _ 0 0).
  - rewrite subZ_length. lia.
  - intros n Hn. rewrite subZ_length in Hn.
    pose proof (nthZ_subZ l 0 (Z.of_nat (length l)) (Z.of_nat n) ltac:(lia)) as H.
    unfold nthZ in H. destruct (Z.ltb_spec (Z.of_nat n) 0); [lia|]. destruct (Z.ltb_spec (0 + Z.of_nat n) 0); [lia|].
    rewrite Nat2Z.id in H. replace (Z.to_nat (0 + Z.of_nat n)) with n in H by lia. exact H.
Qed.

Lemma blit_nat_length (src : list Z) : forall l i, length (blit_nat l i src) = length l.
Proof. induction src as [|x r IH]; intros l i; simpl; [reflexivity|]. rewrite IH. apply upd_nat_length. Qed.

Lemma blit_length l i src : length (blit l i src) = length l.
Proof. unfold blit. destruct (i <? 0); [reflexivity|apply blit_nat_length]. Qed.

Lemma nth_blit_nat (src : list Z) : forall l i j, (i + length src <= length l)%nat ->
  nth j (blit_nat l i src) 0 = if (i <=? j)%nat && (j <? i + length src)%nat then nth (j - i) src 0 else nth j l 0.
Proof.
  induction src as [|x r IH]; intros l i j Hl; simpl.
  - destruct (Nat.leb_spec i j); destruct (Nat.ltb_spec j (i + 0)); simpl; try reflexivity; lia.
  - rewrite IH by (rewrite upd_nat_length; simpl in Hl; lia).
    destruct (Nat.leb_spec (S i) j); destruct (Nat.ltb_spec j (S i + length r)); simpl.
    + destruct (Nat.leb_spec i j); [|lia]. destruct (Nat.ltb_spec j (i + S (length r))); [|lia]. simpl.
      replace (j - i)%nat with (S (j - S i)) by lia. reflexivity.
    + destruct (Nat.leb_spec i j); [|lia]. destruct (Nat.ltb_spec j (i + S (length r))); [lia|]. simpl.
      apply nth_upd_nat_other. lia.
    + destruct (Nat.eq_dec i j) as [->|Hne].
      * rewrite Nat.leb_refl. destruct (Nat.ltb_spec j (j + S (length r))); [|lia]. simpl.
        rewrite Nat.sub_diag. apply nth_upd_nat_same. simpl in Hl. lia.
      * destruct (Nat.leb_spec i j); [lia|]. simpl. apply nth_upd_nat_other. lia.
    + lia.
Qed.

Lemma nthZ_blit l i src j : 0 <= i -> i + Z.of_nat (length src) <= Z.of_nat (length l) ->
  nthZ (blit l i src) j = if (i <=? j) && (j <? i + Z.of_nat (length src)) then nthZ src (j - i) else nthZ l j.
Proof.
  intros Hi Hl. unfold blit. destruct (Z.ltb_spec i 0); [lia|]. unfold nthZ.
  destruct (Z.ltb_spec j 0).
  - destruct (Z.leb_spec i j); [lia|]. reflexivity.
  - rewrite nth_blit_nat by lia.
    destruct (Z.leb_spec i j); destruct (Z.ltb_spec j (i + Z.of_nat (length src))); simpl;
      destruct (Nat.leb_spec (Z.to_nat i) (Z.to_nat j)); destruct (Nat.ltb_spec (Z.to_nat j) (Z.to_nat i + length src)); simpl; try lia; try reflexivity.
    destruct (Z.ltb_spec (j - i) 0); [lia|]. f_equal. lia.
Qed.

(* Every state a program can reach through the calls of adf_file.c on one file (C01): starting from a new file or from a file lying anywhere on a
   volume, by any sequence of reads, seeks, writes, truncations (shrinking, growing, same size), flushes and close-and-reopen, with an
   allocator that only names blocks the file does not own (or refuses), the handle is coherent and stands for exactly the content the
   byte-array model computes: a write splices the accepted bytes in at the position, a shrinking truncation keeps the prefix, a growing one
   appends zeros, everything else leaves the content alone.  By induction over the history from the per-call theorems of Proofs/FileIOP.v. *)
From Coq Require Import ZArith List Bool Lia.
From ADF Require Import CPrelude Model.FileIO Proofs.FileIOL Proofs.FileIOFr Proofs.FileIOP.
Import ListNotations.
Local Open Scope Z_scope.

Section Reach.
  Variable bs : Z.
  Variable ofs : bool.
  Variable key : Z.
  Hypothesis Hbs : 0 < bs.

  (* "the allocator names only blocks this file does not own": whatever block lists describe the state *)
  Definition fresh_answers (s : hstate) (al : list (option (Z * Z))) : Prop := forall L E, Inv bs ofs key s L E -> al_ok key L E al.

  Inductive Reach : hstate -> list Z -> Prop :=
  | R_new d r w : Reach (fio_new bs d key r w) []
  | R_open d L E ct r w s : on_disk bs ofs key d L E ct -> fio_open bs ofs nobad d key r w = (true, s) -> Reach s ct
  | R_read s ct n : Reach s ct -> 0 <= n -> Reach (fst (fio_read bs ofs nobad s n)) ct
  | R_seek s ct p : Reach s ct -> 0 <= p -> Reach (snd (fio_seek bs ofs nobad s p)) ct
  | R_write s ct data al s' w al' : Reach s ct -> mw s = true -> fresh_answers s al ->
      fio_write bs ofs nobad s data al = (s', w, al') -> Reach s' (ovw ct (pos s) (firstn (Z.to_nat w) data))
  | R_trunc s ct n al ok s' rem al' : Reach s ct -> mw s = true -> 0 <= n -> fresh_answers s al ->
      fio_truncate bs ofs nobad s n al = (ok, s', rem, al') ->
      Reach s' (if n <? fsize s then firstn (Z.to_nat n) ct else ct ++ zerosZ (fsize s' - fsize s))
  | R_flush s ct : Reach s ct -> mw s = true -> Reach (set_chg (fio_flush bs ofs s) false) ct
  | R_reopen s ct r w s' : Reach s ct -> mw s = true -> fio_open bs ofs nobad (fio_close bs ofs s) key r w = (true, s') -> Reach s' ct.

  Theorem reach_coherent s ct : Reach s ct -> exists L E, Inv bs ofs key s L E /\ Repr bs s L ct.
  Proof.
    induction 1 as [d r w|d L E ct r w s Hod Ho|s ct n _ IH Hn|s ct p _ IH Hp|s ct data al s' w al' _ IH Hw Hal Hwr
                    |s ct n al ok s' rem al' _ IH Hw Hn Hal Htr|s ct _ IH Hw|s ct r w s' _ IH Hw Ho].
    - exists [], []. destruct (fio_new_ok bs ofs key Hbs d r w) as (I & R & _). split; assumption.
    - destruct (open_image_ok bs ofs key Hbs d L E ct r w Hod) as (s1 & Ho1 & I & R & _). rewrite Ho in Ho1. injection Ho1 as <-. exists L, E. split; assumption.
    - destruct IH as (L & E & I & R). destruct (fio_read_ok bs ofs key Hbs s L E ct n I R Hn) as (s' & rd & Hrd & I' & R' & _). rewrite Hrd. exists L, E. split; assumption.
    - destruct IH as (L & E & I & R). destruct (fio_seek_ok bs ofs key Hbs s L E ct p I R Hp) as (s' & Hsk & I' & R' & _). rewrite Hsk. exists L, E. split; assumption.
    - destruct IH as (L & E & I & R). destruct (fio_write_ok bs ofs key Hbs s L E ct data al I R Hw (Hal L E I)) as (s1 & w1 & al1 & L' & E' & Hwr1 & I' & R' & _).
      rewrite Hwr in Hwr1. injection Hwr1 as <- <- <-. exists L', E'. split; assumption.
    - destruct IH as (L & E & I & R). pose proof I as (B & _). pose proof (b_size _ _ _ _ _ _ B) as Hsz.
      destruct (Z.ltb_spec n (fsize s)) as [Hlt|Hge].
      + destruct (fio_truncate_shrink_ok bs ofs key Hbs s L E ct al n I R Hw ltac:(lia)) as (s1 & rem1 & Ht1 & I' & R' & _). cbv zeta in *.
        rewrite Htr in Ht1. injection Ht1 as E1 E2 E3 E4; subst. eexists. eexists. split; eassumption.
      + destruct (Z.eq_dec n (fsize s)) as [->|Hne].
        * destruct (fio_truncate_same_ok bs ofs key Hbs s L E ct al I R Hw) as (s1 & Ht1 & I' & R' & _ & Hf).
          rewrite Htr in Ht1. injection Ht1 as E1 E2 E3 E4; subst. rewrite Hf, Z.sub_diag. change (zerosZ 0) with (@nil Z). rewrite app_nil_r. exists L, E. split; assumption.
        * destruct (fio_truncate_grow_ok bs ofs key Hbs s L E ct al n I R Hw (Hal L E I) ltac:(lia)) as (ok1 & s1 & al1 & L' & E' & w1 & Ht1 & I' & R' & _ & _ & _ & Hf).
          rewrite Htr in Ht1. injection Ht1 as E1 E2 E3 E4; subst. rewrite Hf. replace (fsize s + w1 - fsize s) with w1 by lia. exists L', E'. split; assumption.
    - destruct IH as (L & E & I & R). destruct (flush_inv bs ofs key Hbs s L E I Hw) as (I' & Hc & (_ & _ & _ & _ & _ & _ & Sfh & _) & Htr & _). exists L, E. split; [exact I'|].
      apply (repr_same bs Hbs s _ L ct); [unfold fsize; rewrite Sfh; reflexivity|destruct I as (_ & HL & _); exact HL|exact Htr|exact R].
    - destruct IH as (L & E & I & R). destruct (close_open_ok bs ofs key Hbs s L E ct r w I R Hw) as (s1 & Ho1 & I' & R' & _).
      rewrite Ho in Ho1. injection Ho1 as <-. exists L, E. split; assumption.
  Qed.

  (* what a program observes on a reachable handle: reads are slices of the content, seeks succeed and clamp to the size *)
  Corollary reach_read s ct n : Reach s ct -> mr s = true -> 0 <= n ->
    snd (fio_read bs ofs nobad s n) = sub ct (pos s) (Z.max 0 (Z.min n (len ct - pos s))) /\ fsize s = len ct.
  Proof.
    intros Hr Hm Hn. destruct (reach_coherent s ct Hr) as (L & E & I & R).
    destruct (fio_read_ok bs ofs key Hbs s L E ct n I R Hn) as (s' & rd & Hrd & _ & _ & Hres). cbv zeta in Hres. rewrite Hm in Hres.
    destruct Hres as (Hres & _). assert (Hf : fsize s = len ct) by (destruct R as (Hl & _); symmetry; exact Hl).
    rewrite Hrd. cbn [snd]. rewrite Hres, Hf. split; reflexivity.
  Qed.

  Corollary reach_seek s ct p : Reach s ct -> 0 <= p ->
    fst (fio_seek bs ofs nobad s p) = true /\ pos (snd (fio_seek bs ofs nobad s p)) = Z.min p (len ct).
  Proof.
    intros Hr Hp. destruct (reach_coherent s ct Hr) as (L & E & I & R).
    destruct (fio_seek_ok bs ofs key Hbs s L E ct p I R Hp) as (s' & Hsk & _ & _ & P' & _). rewrite Hsk. cbn [fst snd].
    assert (Hf : fsize s = len ct) by (destruct R as (Hl & _); symmetry; exact Hl). rewrite P', Hf. split; reflexivity.
  Qed.
End Reach.

(* The arithmetic Model/FileIO.v uses (size2db, db2ext, pos2db, needs_x) is the arithmetic of the C source: equal to the functions
   REGENERATED from adf_file_util.h / adf_file.c on every run (Generated/Leaf.v), for both data block sizes and every 32-bit
   position / size.  A change to the C arithmetic breaks these lemmas even if the hand-written model is not touched. *)
From Coq Require Import ZArith List Bool Lia.
From ADF Require Import CPrelude Generated.Leaf Proofs.GeometryP Model.FileIO Proofs.FileIOL Proofs.FileIOP.
Local Open Scope Z_scope.

Ltac Zify.zify_post_hook ::= Z.to_euclidean_division_equations.

Lemma size2db_is_librarys size bs : valid_bs bs -> 0 <= size < 2 ^ 32 -> size2db size bs = c_adfFileSize2Datablocks size bs.
Proof.
  intros Hb Hs. unfold size2db, c_adfFileSize2Datablocks.
  assert (Hm : 0 <= size mod bs) by (destruct Hb as [-> | ->]; apply Z.mod_pos_bound; lia).
  assert (Hd : 0 <= size / bs < 2 ^ 31) by (destruct Hb as [-> | ->]; lia).
  destruct (Z.ltb_spec 0 (size mod bs)); destruct (Z.gtb_spec (size mod bs) 0); try lia.
  - rewrite (cast_u32_id 1) by lia. rewrite cast_u32_id by lia. reflexivity.
  - rewrite (cast_u32_id 0) by lia. rewrite cast_u32_id by lia. reflexivity.
Qed.

Lemma db2ext_is_librarys n : 0 <= n < 2 ^ 32 -> db2ext n = c_adfFileDatablocks2Extblocks n.
Proof.
  intros Hn. unfold db2ext, c_adfFileDatablocks2Extblocks, MAXDB. destruct (Z.ltb_spec n 1); [reflexivity|]. rewrite cast_u32_id by lia. reflexivity.
Qed.

Lemma pos2db_is_librarys p bs : valid_bs bs -> 0 <= p < 2 ^ 32 -> pos2db p bs = c_adfPos2DataBlock p bs.
Proof.
  intros Hb Hp. unfold pos2db, c_adfPos2DataBlock, MAXDB.
  destruct (Z.ltb_spec (p / bs) 72); [reflexivity|].
  assert (Hge : bs * 72 <= p) by (destruct Hb as [-> | ->]; lia).
  rewrite (cast_u32_id (bs * 72)) by (destruct Hb as [-> | ->]; lia). rewrite (cast_u32_id (p - bs * 72)) by lia.
  rewrite cast_s32_id; [reflexivity|]. destruct Hb as [-> | ->]; lia.
Qed.

(* the decision when adfFileCreateNextBlock takes an extension block together with the data block (slice regenerated from its
   source) is the model's needs_x *)
Lemma needs_x_is_librarys n : 0 <= n -> (d_adfFileCreateNextBlock n = 1 <-> needs_x n = true) /\ (d_adfFileCreateNextBlock n = 0 <-> n < 72).
Proof.
  intros Hn. unfold d_adfFileCreateNextBlock, needs_x.
  destruct (Z.ltb_spec n 72); destruct (Z.leb_spec 72 n); try lia; cbn [andb].
  all: destruct (Z.eqb_spec (n mod 72) 0); split; split; intros H1; try lia; try discriminate; try reflexivity.
Qed.

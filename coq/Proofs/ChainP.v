(* The block-level directory model (Model/Chain.v: hash table + nextSameHash chains, tail insertion, unlinking) refines a
   finite map from folded names to blocks - for every directory state reachable by inserts and removes, every name, every
   chain length.  This is the core of C02 (every entry stays reachable under its name until it is deleted, names unique,
   failed calls change nothing) and C15 (an entry is found by M exactly when M folds to the same key; no second entry
   with a matching name can be created). *)
From Coq Require Import ZArith List Bool Lia.
From ADF Require Import Spec.Names Model.Chain.
Import ListNotations.
Local Open Scope Z_scope.

Section P.
Variable intl : bool.
Notation key := (key intl).
Notation slot := (slot intl).
Notation walk := (walk intl).
Notation lookup := (lookup intl).
Notation lookup_blk := (lookup_blk intl).
Notation insert := (insert intl).
Notation remove := (remove intl).

Lemma slot_key a b : key a = key b -> slot a = slot b.
Proof. unfold Chain.slot. intros ->. reflexivity. Qed.

Lemma key_trunc n : key (trunc30 n) = key n.
Proof. unfold Chain.key, trunc30. rewrite firstn_firstn. reflexivity. Qed.

Definition keyof (h : heap) (b : Z) : list Z := match h b with Some e => key (e_name e) | None => [] end.

(* a well-formed chain of slot sl starting at block s: the list of its blocks *)
Inductive chain (h : heap) (sl : Z) : Z -> list Z -> Prop :=
| ch_nil : chain h sl 0 []
| ch_cons s e l : s <> 0 -> h s = Some e -> slot (e_name e) = sl -> chain h sl (e_next e) l -> chain h sl s (s :: l).

Fixpoint scan (h : heap) (k : list Z) (l : list Z) (prev : Z) : wres :=
  match l with
  | [] => Absent prev
  | b :: l' => match h b with
               | None => Broken
               | Some e => if list_eq_dec Z.eq_dec (key (e_name e)) k then Found b prev else scan h k l' b
               end
  end.

Lemma walk_scan h sl k s l : chain h sl s l ->
  forall fuel prev, (length l < fuel)%nat -> walk fuel h k s prev = scan h k l prev.
Proof.
  induction 1 as [|s e l Hs He Hsl Hc IH]; intros fuel prev Hf.
  - destruct fuel as [|f]; [simpl in Hf; lia|]. reflexivity.
  - destruct fuel as [|f]; [simpl in Hf; lia|]. cbn [Chain.walk scan].
    destruct (Z.eqb_spec s 0) as [E|_]; [contradiction|]. rewrite He.
    destruct (list_eq_dec Z.eq_dec (key (e_name e)) k); [reflexivity|].
    apply IH. simpl in Hf. lia.
Qed.

Lemma scan_ext h h' k l : (forall b, In b l -> h b = h' b) -> forall prev, scan h k l prev = scan h' k l prev.
Proof.
  induction l as [|b l IH]; intros Hx prev; [reflexivity|]. cbn [scan].
  rewrite <- (Hx b (or_introl eq_refl)). destruct (h b) as [e|]; [|reflexivity].
  destruct (list_eq_dec Z.eq_dec (key (e_name e)) k); [reflexivity|].
  apply IH. intros x Hin. apply Hx. right. exact Hin.
Qed.

Lemma chain_ext h h' sl s l : chain h sl s l -> (forall b, In b l -> h b = h' b) -> chain h' sl s l.
Proof.
  induction 1 as [|s e l Hs He Hsl Hc IH]; intros Hx; [constructor|].
  apply ch_cons with e; [exact Hs| rewrite <- (Hx s (or_introl eq_refl)); exact He | exact Hsl|].
  apply IH. intros b Hin. apply Hx. right. exact Hin.
Qed.

Lemma chain_in h sl s l b : chain h sl s l -> In b l -> b <> 0 /\ exists e, h b = Some e /\ slot (e_name e) = sl.
Proof.
  induction 1 as [|s e l Hs He Hsl Hc IH]; intros Hin; [destruct Hin|].
  destruct Hin as [<-|Hin]; [split; [exact Hs|exists e; auto]|apply IH; exact Hin].
Qed.

Lemma chain_head h sl s l : chain h sl s l -> s = match l with [] => 0 | b :: _ => b end.
Proof. destruct 1; reflexivity. Qed.

Lemma last_cons_def (l : list Z) : forall b prev, last (b :: l) prev = last l b.
Proof.
  induction l as [|c l IH]; intros b prev; [reflexivity|].
  change (last (b :: c :: l) prev) with (last (c :: l) prev). rewrite IH. symmetry. apply IH.
Qed.

(* ---- what scan returns ---- *)
Lemma scan_absent h k l : forall prev x, scan h k l prev = Absent x ->
  x = last l prev /\ forall b, In b l -> keyof h b <> k.
Proof.
  induction l as [|b l IH]; intros prev x H; cbn [scan] in H.
  - injection H as <-. split; [reflexivity|intros b []].
  - destruct (h b) as [e|] eqn:Hb; [|discriminate].
    destruct (list_eq_dec Z.eq_dec (key (e_name e)) k) as [E|N]; [discriminate|].
    destruct (IH b x H) as [Hl Hn]. split.
    + rewrite Hl. symmetry. apply last_cons_def.
    + intros c [<-|Hin]; [unfold keyof; rewrite Hb; exact N|apply Hn; exact Hin].
Qed.

Lemma scan_found h k l : forall prev b p, scan h k l prev = Found b p ->
  exists l1 l2, l = l1 ++ b :: l2 /\ p = last l1 prev /\ keyof h b = k /\ (forall c, In c l1 -> keyof h c <> k) /\ h b <> None.
Proof.
  induction l as [|c l IH]; intros prev b p H; cbn [scan] in H; [discriminate|].
  destruct (h c) as [e|] eqn:Hc; [|discriminate].
  destruct (list_eq_dec Z.eq_dec (key (e_name e)) k) as [E|N].
  - injection H as <- <-. exists [], l. repeat split; try reflexivity.
    + unfold keyof. rewrite Hc. exact E.
    + intros x [].
    + rewrite Hc. discriminate.
  - destruct (IH c b p H) as (l1 & l2 & -> & Hp & Hk & Hn & Hb).
    exists (c :: l1), l2. repeat split; try assumption.
    + rewrite Hp. symmetry. apply last_cons_def.
    + intros x [<-|Hin]; [unfold keyof; rewrite Hc; exact N|apply Hn; exact Hin].
Qed.

Lemma scan_not_broken h sl s k l : chain h sl s l -> forall prev, scan h k l prev <> Broken.
Proof.
  induction 1 as [|s e l Hs He Hsl Hc IH]; intros prev; cbn [scan]; [discriminate|].
  rewrite He. destruct (list_eq_dec Z.eq_dec (key (e_name e)) k); [discriminate|apply IH].
Qed.

(* a member with key k, keys distinct: scan finds exactly that member *)
Lemma scan_finds h k l : forall prev b, In b l -> h b <> None -> keyof h b = k -> NoDup (map (keyof h) l) ->
  (forall c, In c l -> h c <> None) -> exists p, scan h k l prev = Found b p.
Proof.
  induction l as [|c l IH]; intros prev b Hin Hb Hk Hnd Hall; [destruct Hin|]. cbn [scan].
  destruct (h c) as [e|] eqn:Hc; [|exfalso; apply (Hall c (or_introl eq_refl)); exact Hc].
  destruct Hin as [<-|Hin].
  - unfold keyof in Hk. rewrite Hc in Hk. destruct (list_eq_dec Z.eq_dec (key (e_name e)) k); [eexists; reflexivity|contradiction].
  - destruct (list_eq_dec Z.eq_dec (key (e_name e)) k) as [E|N].
    + exfalso. inversion Hnd as [|? ? Hni _]; subst. apply Hni.
      replace (keyof h c) with (keyof h b) by (unfold keyof at 2; rewrite Hc; congruence).
      apply in_map. exact Hin.
    + apply IH; try assumption.
      * inversion Hnd; assumption.
      * intros x Hx. apply Hall. right. exact Hx.
Qed.

(* ---- invariant ---- *)
Definition SlotInv (F : nat) (d : dirst) (sl : Z) (l : list Z) : Prop :=
  chain (d_hp d) sl (d_ht d sl) l /\ NoDup l /\ NoDup (map (keyof (d_hp d)) l) /\ (length l < F)%nat /\
  (forall b e, d_hp d b = Some e -> slot (e_name e) = sl -> In b l).

Definition Inv (F : nat) (d : dirst) : Prop := forall sl, exists l, SlotInv F d sl l.

Definition amap := list Z -> option Z.
Definition R (F : nat) (d : dirst) (A : amap) : Prop :=
  Inv F d /\ forall G m, (F <= G)%nat -> lookup_blk G d m = A (key m).

Lemma Inv_empty : Inv 1 empty_dir.
Proof.
  intros sl. exists []. repeat split; simpl; try constructor; try lia.
  intros b e H. discriminate.
Qed.

Theorem R_empty : R 1 empty_dir (fun _ => None).
Proof.
  split; [exact Inv_empty|]. intros G m HG. unfold Chain.lookup_blk, Chain.lookup. simpl.
  destruct G; [lia|]. reflexivity.
Qed.

Lemma lookup_scan F G d m l : SlotInv F d (slot m) l -> (F <= G)%nat ->
  lookup G d m = scan (d_hp d) (key m) l 0.
Proof.
  intros (Hc & _ & _ & Hlen & _) HG. unfold Chain.lookup. apply (walk_scan _ _ _ _ _ Hc). lia.
Qed.

Lemma chain_all_some h sl s l : chain h sl s l -> forall c, In c l -> h c <> None.
Proof. intros Hc c Hin. destruct (chain_in _ _ _ _ _ Hc Hin) as (_ & e & He & _). rewrite He. discriminate. Qed.

(* the abstract map's range is the heap's domain *)
Lemma R_range F d A b e : R F d A -> d_hp d b = Some e -> A (key (e_name e)) = Some b.
Proof.
  intros [HI HA] Hb. destruct (HI (slot (e_name e))) as [l HS].
  rewrite <- (HA F (e_name e) (le_n F)). unfold Chain.lookup_blk.
  rewrite (lookup_scan F F d (e_name e) l HS (le_n F)).
  destruct HS as (Hc & Hnd & Hndk & Hlen & Hg).
  destruct (scan_finds (d_hp d) (key (e_name e)) l 0 b) as [p ->]; try assumption.
  - apply (Hg b e Hb eq_refl).
  - rewrite Hb. discriminate.
  - unfold keyof. rewrite Hb. reflexivity.
  - apply (chain_all_some _ _ _ _ Hc).
  - reflexivity.
Qed.

Lemma R_lookup_some F d A m b : R F d A -> A (key m) = Some b ->
  exists e, d_hp d b = Some e /\ key (e_name e) = key m /\ b <> 0.
Proof.
  intros [HI HA] Hm. destruct (HI (slot m)) as [l HS].
  rewrite <- (HA F m (le_n F)) in Hm. unfold Chain.lookup_blk in Hm.
  rewrite (lookup_scan F F d m l HS (le_n F)) in Hm.
  destruct (scan (d_hp d) (key m) l 0) as [b' p| |] eqn:Es; try discriminate. injection Hm as ->.
  destruct (scan_found _ _ _ _ _ _ Es) as (l1 & l2 & -> & _ & Hk & _ & Hb).
  destruct HS as (Hc & _).
  destruct (chain_in _ _ _ _ b Hc) as (Hnz & e & He & _); [apply in_or_app; right; left; reflexivity|].
  exists e. split; [exact He|]. split; [|exact Hnz]. unfold keyof in Hk. rewrite He in Hk. exact Hk.
Qed.

(* ---- chains under heap updates ---- *)
Lemma last_in (l : list Z) d : l <> [] -> In (last l d) l.
Proof.
  induction l as [|a l IH]; intros H; [congruence|]. destruct l as [|b l']; [left; reflexivity|].
  right. apply IH. discriminate.
Qed.


Lemma chain_snoc h sl s l blk e lst le :
  chain h sl s l -> l <> [] -> last l 0 = lst -> h lst = Some le -> e_next le = 0 ->
  ~ In blk l -> blk <> 0 -> slot (e_name e) = sl -> e_next e = 0 -> NoDup l ->
  chain (hupd (hupd h lst {| e_name := e_name le; e_next := blk |}) blk e) sl s (l ++ [blk]).
Proof.
  intros Hc. revert lst le. induction Hc as [|s e0 l Hs He Hsl Hc IH]; intros lst le Hne Hlast Hlst Hnx Hni Hnz Hsle Hnxe Hnd; [congruence|].
  assert (Hsb : s <> blk) by (intro X; apply Hni; left; exact X).
  destruct l as [|c l'].
  - (* s is the last *)
    simpl in Hlast. subst lst. rewrite He in Hlst. injection Hlst as <-.
    simpl. apply ch_cons with {| e_name := e_name e0; e_next := blk |}; [exact Hs| | exact Hsl|].
    + unfold hupd. destruct (Z.eqb_spec s blk); [contradiction|]. rewrite Z.eqb_refl. reflexivity.
    + simpl. apply ch_cons with e; [exact Hnz| unfold hupd; rewrite Z.eqb_refl; reflexivity | exact Hsle|].
      rewrite Hnxe. constructor.
  - assert (Hsl' : s <> lst).
    { intro X. subst lst. inversion Hnd as [|? ? Hn _]; subst. apply Hn.
      change (last (s :: c :: l') 0) with (last (c :: l') 0) in X. rewrite X. apply last_in. discriminate. }
    simpl app. apply ch_cons with e0; [exact Hs| | exact Hsl|].
    + unfold hupd. destruct (Z.eqb_spec s blk); [contradiction|]. destruct (Z.eqb_spec s lst); [contradiction|]. exact He.
    + apply (IH lst le); try assumption; try discriminate.
      * intro X. apply Hni. right. exact X.
      * inversion Hnd; assumption.
Qed.

Lemma chain_tail_next h sl s l : chain h sl s l -> l <> [] -> exists le, h (last l 0) = Some le /\ e_next le = 0.
Proof.
  induction 1 as [|s e l Hs He Hsl Hc IH]; intros Hne; [congruence|].
  destruct l as [|c l'].
  - simpl. exists e. split; [exact He|]. inversion Hc. reflexivity.
  - change (last (s :: c :: l') 0) with (last (c :: l') 0). apply IH. discriminate.
Qed.

(* removing the block b from the middle *)
Lemma chain_unlink h sl s l1 b l2 be :
  chain h sl s (l1 ++ b :: l2) -> h b = Some be -> NoDup (l1 ++ b :: l2) ->
  forall pe, (l1 <> [] -> h (last l1 0) = Some pe) ->
  chain (match l1 with [] => hdel h b | _ => hupd (hdel h b) (last l1 0) {| e_name := e_name pe; e_next := e_next be |} end)
        sl (match l1 with [] => e_next be | _ => s end) (l1 ++ l2).
Proof.
  revert s. induction l1 as [|a l1 IH]; intros s Hc Hb Hnd pe Hpe.
  - simpl in *. inversion Hc as [|? e ? Hs He Hsl Hc']; subst. rewrite Hb in He. injection He as <-.
    apply chain_ext with h; [exact Hc'|]. intros c Hin. unfold hdel.
    destruct (Z.eqb_spec c b) as [->|]; [|reflexivity]. inversion Hnd; contradiction.
  - simpl app in *. inversion Hc as [|? e ? Hs He Hsl Hc']; subst.
    destruct l1 as [|a' l1'].
    + (* a is the predecessor of b *)
      simpl in *. specialize (Hpe ltac:(discriminate)). rewrite He in Hpe. injection Hpe as <-.
      inversion Hc' as [|? e' ? Hs' He' Hsl' Hc'']; subst. rewrite Hb in He'. injection He' as <-.
      inversion Hnd as [|? ? Hn Hnd']; subst. inversion Hnd' as [|? ? Hn' _]; subst.
      apply ch_cons with {| e_name := e_name e; e_next := e_next be |}; [exact Hs| | reflexivity|].
      * unfold hupd. rewrite Z.eqb_refl. reflexivity.
      * simpl. apply chain_ext with h; [exact Hc''|]. intros c Hin. unfold hupd, hdel.
        destruct (Z.eqb_spec c a) as [->|]; [exfalso; apply Hn; right; exact Hin|].
        destruct (Z.eqb_spec c (e_next e)) as [->|]; [contradiction|reflexivity].
    + assert (Hlast : last (a :: a' :: l1') 0 = last (a' :: l1') 0) by reflexivity.
      rewrite Hlast in *.
      specialize (IH (e_next e) Hc' Hb ltac:(inversion Hnd; assumption) pe ltac:(intros _; apply Hpe; discriminate)).
      cbn match in IH.
      assert (Hin_last : In (last (a' :: l1') 0) (a' :: l1')) by (apply last_in; discriminate).
      inversion Hnd as [|? ? Hn Hnd']; subst.
      apply ch_cons with e; [exact Hs| | reflexivity|].
      * unfold hupd, hdel.
        destruct (Z.eqb_spec a (last (a' :: l1') 0)) as [X|_].
        { exfalso. apply Hn. rewrite X. change (a' :: l1' ++ b :: l2) with ((a' :: l1') ++ b :: l2). apply in_or_app. left. exact Hin_last. }
        destruct (Z.eqb_spec a b) as [X|_]; [exfalso; apply Hn; change (a' :: l1' ++ b :: l2) with ((a' :: l1') ++ b :: l2); apply in_or_app; right; left; auto|]. exact He.
      * exact IH.
Qed.

(* ---- lookups only depend on which blocks hold which names ---- *)
Lemma lookup_char F G d m b : Inv F d -> (F <= G)%nat ->
  (lookup_blk G d m = Some b <-> exists e, d_hp d b = Some e /\ key (e_name e) = key m).
Proof.
  intros HI HG. destruct (HI (slot m)) as [l HS]. unfold Chain.lookup_blk.
  rewrite (lookup_scan F G d m l HS HG). destruct HS as (Hc & Hnd & Hndk & Hlen & Hg). split.
  - destruct (scan (d_hp d) (key m) l 0) as [b' p| |] eqn:Es; try discriminate. intros H. injection H as ->.
    destruct (scan_found _ _ _ _ _ _ Es) as (l1 & l2 & -> & _ & Hk & _ & Hb).
    destruct (chain_in _ _ _ _ b Hc) as (_ & e & He & _); [apply in_or_app; right; left; reflexivity|].
    exists e. split; [exact He|]. unfold keyof in Hk. rewrite He in Hk. exact Hk.
  - intros (e & He & Hk).
    destruct (scan_finds (d_hp d) (key m) l 0 b) as [p ->]; try assumption; try reflexivity.
    + apply (Hg b e He). apply slot_key. exact Hk.
    + rewrite He. discriminate.
    + unfold keyof. rewrite He. exact Hk.
    + apply (chain_all_some _ _ _ _ Hc).
Qed.

Lemma opt_eq (o1 o2 : option Z) : (forall b, o1 = Some b <-> o2 = Some b) -> o1 = o2.
Proof.
  intros H. destruct o1 as [a|], o2 as [b|]; try reflexivity.
  - symmetry. apply H. reflexivity.
  - destruct (H a) as [H1 _]. specialize (H1 eq_refl). discriminate.
  - destruct (H b) as [_ H2]. specialize (H2 eq_refl). discriminate.
Qed.

(* ---- invariant preservation, stated over what an update does to names, outside blocks and the touched chain ---- *)
Definition nameof (h : heap) (b : Z) : option (list Z) := option_map e_name (h b).

Lemma keyof_nameof h b : keyof h b = match nameof h b with Some nm => key nm | None => [] end.
Proof. unfold keyof, nameof. destruct (h b); reflexivity. Qed.

Lemma nameof_some h b nm : nameof h b = Some nm -> exists e, h b = Some e /\ e_name e = nm.
Proof. unfold nameof. destruct (h b) as [e|]; simpl; [intros H; injection H as <-; exists e; auto|discriminate]. Qed.

Lemma NoDup_snoc {A} (l : list A) a : NoDup l -> ~ In a l -> NoDup (l ++ [a]).
Proof.
  induction l as [|x l IH]; intros Hnd Hni; simpl; [constructor; [intros []|constructor]|].
  inversion Hnd as [|? ? Hx Hnd']; subst. constructor.
  - intro Hin. apply in_app_or in Hin. destruct Hin as [Hin|[<-|[]]]; [contradiction|apply Hni; left; reflexivity].
  - apply IH; [exact Hnd'|intro X; apply Hni; right; exact X].
Qed.

(* two chains of different slots share no block *)
Lemma chains_disjoint h sl1 s1 l1 sl2 s2 l2 c : chain h sl1 s1 l1 -> chain h sl2 s2 l2 -> sl1 <> sl2 -> In c l1 -> ~ In c l2.
Proof.
  intros H1 H2 Hne Hin1 Hin2.
  destruct (chain_in _ _ _ _ _ H1 Hin1) as (_ & e1 & He1 & Hs1).
  destruct (chain_in _ _ _ _ _ H2 Hin2) as (_ & e2 & He2 & Hs2).
  rewrite He1 in He2. injection He2 as <-. congruence.
Qed.

Lemma Inv_insert F d d' n blk l :
  Inv F d -> SlotInv F d (slot n) l -> d_hp d blk = None -> blk <> 0 ->
  (forall c, In c l -> keyof (d_hp d) c <> key n) ->
  chain (d_hp d') (slot n) (d_ht d' (slot n)) (l ++ [blk]) ->
  (forall sl', sl' <> slot n -> d_ht d' sl' = d_ht d sl') ->
  (forall c, nameof (d_hp d') c = if c =? blk then Some (trunc30 n) else nameof (d_hp d) c) ->
  (forall c, c <> blk -> ~ In c l -> d_hp d' c = d_hp d c) ->
  Inv (S F) d'.
Proof.
  intros HI (Hc & Hnd & Hndk & Hlen & Hg) Hfresh Hnz Hnk Hc' Hht Hnm Hout sl'.
  assert (Hkey : forall c, keyof (d_hp d') c = if c =? blk then key n else keyof (d_hp d) c).
  { intros c. rewrite !keyof_nameof, Hnm. destruct (c =? blk); [apply key_trunc|reflexivity]. }
  assert (Hbl : ~ In blk l).
  { intro Hin. destruct (chain_in _ _ _ _ _ Hc Hin) as (_ & e0 & He0 & _). congruence. }
  destruct (Z.eq_dec sl' (slot n)) as [->|Hne].
  - exists (l ++ [blk]). repeat split.
    + exact Hc'.
    + apply NoDup_snoc; assumption.
    + rewrite map_app. simpl. rewrite (Hkey blk), Z.eqb_refl.
      rewrite (map_ext_in (keyof (d_hp d')) (keyof (d_hp d))).
      * apply NoDup_snoc; [exact Hndk|]. intro Hin. apply in_map_iff in Hin. destruct Hin as (c & Hck & Hcin).
        apply (Hnk c Hcin Hck).
      * intros c Hcin. rewrite Hkey. destruct (Z.eqb_spec c blk) as [->|]; [contradiction|reflexivity].
    + rewrite app_length. simpl. lia.
    + intros b e Hb Hsl. specialize (Hnm b). unfold nameof at 1 in Hnm. rewrite Hb in Hnm. simpl in Hnm.
      apply in_or_app. destruct (Z.eqb_spec b blk) as [->|Hbb]; [right; left; reflexivity|left].
      symmetry in Hnm. apply nameof_some in Hnm. destruct Hnm as (e1 & He1 & Hn1).
      apply (Hg b e1 He1). rewrite Hn1. exact Hsl.
  - destruct (HI sl') as [l0 (Hc0 & Hnd0 & Hndk0 & Hlen0 & Hg0)].
    assert (Hsame : forall c, In c l0 -> d_hp d' c = d_hp d c).
    { intros c Hcin. apply Hout.
      - intros ->. destruct (chain_in _ _ _ _ _ Hc0 Hcin) as (_ & e0 & He0 & _). congruence.
      - intro Hcl. apply (chains_disjoint _ _ _ _ _ _ _ c Hc Hc0); auto. }
    exists l0. repeat split.
    + rewrite (Hht sl' Hne). apply chain_ext with (d_hp d); [exact Hc0|]. intros c Hcin. symmetry. apply Hsame. exact Hcin.
    + exact Hnd0.
    + rewrite (map_ext_in (keyof (d_hp d')) (keyof (d_hp d))); [exact Hndk0|].
      intros c Hcin. unfold keyof. rewrite (Hsame c Hcin). reflexivity.
    + lia.
    + intros b e Hb Hsl. specialize (Hnm b). unfold nameof at 1 in Hnm. rewrite Hb in Hnm. simpl in Hnm.
      destruct (Z.eqb_spec b blk) as [->|Hbb].
      * exfalso. injection Hnm as Hnm. apply Hne. rewrite <- Hsl, Hnm. apply slot_key. apply key_trunc.
      * symmetry in Hnm. apply nameof_some in Hnm. destruct Hnm as (e1 & He1 & Hn1).
        apply (Hg0 b e1 He1). rewrite Hn1. exact Hsl.
Qed.

Lemma Inv_remove F d d' sl l1 b l2 :
  Inv F d -> SlotInv F d sl (l1 ++ b :: l2) ->
  chain (d_hp d') sl (d_ht d' sl) (l1 ++ l2) ->
  (forall sl', sl' <> sl -> d_ht d' sl' = d_ht d sl') ->
  (forall c, nameof (d_hp d') c = if c =? b then None else nameof (d_hp d) c) ->
  (forall c, ~ In c (l1 ++ b :: l2) -> d_hp d' c = d_hp d c) ->
  Inv F d'.
Proof.
  intros HI (Hc & Hnd & Hndk & Hlen & Hg) Hc' Hht Hnm Hout sl'.
  assert (Hkey : forall c, c <> b -> keyof (d_hp d') c = keyof (d_hp d) c).
  { intros c Hcb. rewrite !keyof_nameof, Hnm. destruct (Z.eqb_spec c b); [contradiction|reflexivity]. }
  destruct (Z.eq_dec sl' sl) as [->|Hne].
  - exists (l1 ++ l2). repeat split.
    + exact Hc'.
    + apply NoDup_remove_1 with b. exact Hnd.
    + rewrite (map_ext_in (keyof (d_hp d')) (keyof (d_hp d))).
      * rewrite map_app in *. simpl in Hndk. apply NoDup_remove_1 with (keyof (d_hp d) b). exact Hndk.
      * intros c Hcin. apply Hkey. intros ->. apply (NoDup_remove_2 _ _ _ Hnd). exact Hcin.
    + rewrite app_length in *. simpl in Hlen. lia.
    + intros c e Hcb Hsl. specialize (Hnm c). unfold nameof at 1 in Hnm. rewrite Hcb in Hnm. simpl in Hnm.
      destruct (Z.eqb_spec c b) as [->|Hne']; [discriminate|].
      symmetry in Hnm. apply nameof_some in Hnm. destruct Hnm as (e1 & He1 & Hn1).
      assert (Hin : In c (l1 ++ b :: l2)) by (apply (Hg c e1 He1); rewrite Hn1; exact Hsl).
      apply in_app_or in Hin. apply in_or_app. destruct Hin as [Hin|[Hin|Hin]]; [left; exact Hin|congruence|right; exact Hin].
  - destruct (HI sl') as [l0 (Hc0 & Hnd0 & Hndk0 & Hlen0 & Hg0)].
    assert (Hsame : forall c, In c l0 -> d_hp d' c = d_hp d c).
    { intros c Hcin. apply Hout. intro Hcl. apply (chains_disjoint _ _ _ _ _ _ _ c Hc Hc0); auto. }
    exists l0. repeat split.
    + rewrite (Hht sl' Hne). apply chain_ext with (d_hp d); [exact Hc0|]. intros c Hcin. symmetry. apply Hsame. exact Hcin.
    + exact Hnd0.
    + rewrite (map_ext_in (keyof (d_hp d')) (keyof (d_hp d))); [exact Hndk0|].
      intros c Hcin. unfold keyof. rewrite (Hsame c Hcin). reflexivity.
    + exact Hlen0.
    + intros c e Hcb Hsl. specialize (Hnm c). unfold nameof at 1 in Hnm. rewrite Hcb in Hnm. simpl in Hnm.
      destruct (Z.eqb_spec c b) as [->|Hne']; [discriminate|].
      symmetry in Hnm. apply nameof_some in Hnm. destruct Hnm as (e1 & He1 & Hn1).
      apply (Hg0 c e1 He1). rewrite Hn1. exact Hsl.
Qed.

(* ---- the refinement theorems ---- *)
Definition ains (A : amap) (n : list Z) (blk : Z) : amap := fun k => if list_eq_dec Z.eq_dec k (key n) then Some blk else A k.
Definition adel (A : amap) (n : list Z) : amap := fun k => if list_eq_dec Z.eq_dec k (key n) then None else A k.

Lemma has_name h b m : (exists e, h b = Some e /\ key (e_name e) = key m) <-> (exists nm, nameof h b = Some nm /\ key nm = key m).
Proof.
  split.
  - intros (e & He & Hk). exists (e_name e). split; [unfold nameof; rewrite He; reflexivity|exact Hk].
  - intros (nm & Hn & Hk). apply nameof_some in Hn. destruct Hn as (e & He & <-). exists e. auto.
Qed.

Theorem insert_refines F G d A n blk :
  R F d A -> (F <= G)%nat -> A (key n) = None -> blk <> 0 -> d_hp d blk = None ->
  exists d', insert G d n blk = Some d' /\ R (S F) d' (ains A n blk).
Proof.
  intros [HI HA] HG HAn Hnz Hfresh.
  assert (Hno : lookup_blk G d n = None) by (rewrite HA; assumption).
  destruct (HI (slot n)) as [l HS].
  pose proof (lookup_scan F G d n l HS HG) as Hlk.
  pose proof HS as (Hc & Hnd & Hndk & Hlen & Hg).
  unfold Chain.lookup_blk in Hno. rewrite Hlk in Hno.
  destruct (scan (d_hp d) (key n) l 0) as [b p|x|] eqn:Es; [discriminate| |exfalso; exact (scan_not_broken _ _ _ _ _ Hc 0 Es)].
  destruct (scan_absent _ _ _ _ _ Es) as [Hx Hnk].
  set (e := {| e_name := trunc30 n; e_next := 0 |}).
  assert (Hbl : ~ In blk l).
  { intro Hin. destruct (chain_in _ _ _ _ _ Hc Hin) as (_ & e0 & He0 & _). congruence. }
  assert (Hse : slot (e_name e) = slot n) by (apply slot_key, key_trunc).
  assert (Hex : exists d', insert G d n blk = Some d' /\
            chain (d_hp d') (slot n) (d_ht d' (slot n)) (l ++ [blk]) /\
            (forall sl', sl' <> slot n -> d_ht d' sl' = d_ht d sl') /\
            (forall c, nameof (d_hp d') c = if c =? blk then Some (trunc30 n) else nameof (d_hp d) c) /\
            (forall c, c <> blk -> ~ In c l -> d_hp d' c = d_hp d c)).
  { unfold Chain.insert. rewrite Hlk.
    destruct l as [|c0 l0].
    - simpl in Hx. subst x. rewrite Z.eqb_refl. eexists. split; [reflexivity|]. simpl. repeat split.
      + unfold fupd. rewrite Z.eqb_refl. apply ch_cons with e; [exact Hnz|unfold hupd; rewrite Z.eqb_refl; reflexivity|exact Hse|constructor].
      + intros sl' Hne. unfold fupd. destruct (Z.eqb_spec sl' (slot n)); [contradiction|reflexivity].
      + intros c. unfold nameof, hupd. destruct (c =? blk); reflexivity.
      + intros c Hcb _. unfold hupd. destruct (Z.eqb_spec c blk); [contradiction|reflexivity].
    - assert (Hxin : In x (c0 :: l0)) by (rewrite Hx; apply last_in; discriminate).
      destruct (chain_in _ _ _ _ _ Hc Hxin) as (Hxnz & _).
      destruct (Z.eqb_spec x 0); [contradiction|].
      destruct (chain_tail_next _ _ _ _ Hc ltac:(discriminate)) as (le & Hle & Hnx). rewrite <- Hx in Hle. rewrite Hle.
      eexists. split; [reflexivity|]. simpl. repeat split.
      + change (c0 :: l0 ++ [blk]) with ((c0 :: l0) ++ [blk]). apply chain_snoc; auto; discriminate.
      + intros c. unfold nameof, hupd. destruct (Z.eqb_spec c blk); [reflexivity|].
        destruct (Z.eqb_spec c x) as [->|]; [rewrite Hle; reflexivity|reflexivity].
      + intros c Hcb Hcl. unfold hupd. destruct (Z.eqb_spec c blk); [contradiction|].
        destruct (Z.eqb_spec c x) as [->|]; [contradiction|reflexivity]. }
  destruct Hex as (d' & Hins & Hc' & Hht & Hnm & Hout).
  exists d'. split; [exact Hins|].
  assert (HI' : Inv (S F) d') by (apply (Inv_insert F d d' n blk l); assumption).
  split; [exact HI'|]. intros G' m HG'.
  unfold ains. destruct (list_eq_dec Z.eq_dec (key m) (key n)) as [E|N].
  - apply (lookup_char (S F) G' d' m blk HI' HG'). apply has_name.
    exists (trunc30 n). split; [rewrite Hnm, Z.eqb_refl; reflexivity|rewrite key_trunc; symmetry; exact E].
  - rewrite <- (HA F m (le_n F)). apply opt_eq. intros b.
    rewrite (lookup_char (S F) G' d' m b HI' HG'), (lookup_char F F d m b HI (le_n F)), !has_name.
    split; intros (nm & Hn & Hk); exists nm; (split; [|exact Hk]).
    + rewrite Hnm in Hn. destruct (Z.eqb_spec b blk) as [->|]; [|exact Hn].
      exfalso. injection Hn as <-. apply N. rewrite <- Hk. apply key_trunc.
    + rewrite Hnm. destruct (Z.eqb_spec b blk) as [->|]; [|exact Hn].
      exfalso. unfold nameof in Hn. rewrite Hfresh in Hn. discriminate.
Qed.

(* a second entry whose name matches an existing one is refused and nothing changes (insert returns no new state) *)
Theorem insert_dup F G d A n blk b : R F d A -> (F <= G)%nat -> A (key n) = Some b -> insert G d n blk = None.
Proof.
  intros [HI HA] HG HAn. pose proof (HA G n HG) as H. rewrite HAn in H.
  unfold Chain.lookup_blk in H. unfold Chain.insert.
  destruct (lookup G d n); try discriminate. reflexivity.
Qed.

Theorem remove_absent F G d A n : R F d A -> (F <= G)%nat -> A (key n) = None -> remove G d n = None.
Proof.
  intros [HI HA] HG HAn. pose proof (HA G n HG) as H. rewrite HAn in H.
  unfold Chain.lookup_blk in H. unfold Chain.remove.
  destruct (lookup G d n); try discriminate; reflexivity.
Qed.

Theorem remove_refines F G d A n b :
  R F d A -> (F <= G)%nat -> A (key n) = Some b ->
  exists d', remove G d n = Some (d', b) /\ R F d' (adel A n) /\ d_hp d' b = None.
Proof.
  intros [HI HA] HG HAn.
  assert (Hyes : lookup_blk G d n = Some b) by (rewrite HA; assumption).
  destruct (HI (slot n)) as [l HS].
  pose proof (lookup_scan F G d n l HS HG) as Hlk.
  pose proof HS as (Hc & Hnd & Hndk & Hlen & Hg).
  unfold Chain.lookup_blk in Hyes. rewrite Hlk in Hyes.
  destruct (scan (d_hp d) (key n) l 0) as [b' p|x|] eqn:Es; try discriminate. injection Hyes as ->.
  destruct (scan_found _ _ _ _ _ _ Es) as (l1 & l2 & El & Hp & Hk & Hn1 & Hbn).
  subst l.
  destruct (d_hp d b) as [be|] eqn:Hbe; [|congruence].
  assert (Hex : exists d', remove G d n = Some (d', b) /\
            chain (d_hp d') (slot n) (d_ht d' (slot n)) (l1 ++ l2) /\
            (forall sl', sl' <> slot n -> d_ht d' sl' = d_ht d sl') /\
            (forall c, nameof (d_hp d') c = if c =? b then None else nameof (d_hp d) c) /\
            (forall c, ~ In c (l1 ++ b :: l2) -> d_hp d' c = d_hp d c)).
  { unfold Chain.remove. rewrite Hlk, Hbe.
    destruct l1 as [|a l1'].
    - simpl in Hp. subst p. rewrite Z.eqb_refl. eexists. split; [reflexivity|]. simpl. repeat split.
      + unfold fupd. rewrite Z.eqb_refl.
        apply (chain_unlink (d_hp d) (slot n) (d_ht d (slot n)) [] b l2 be Hc Hbe Hnd be). intros X; congruence.
      + intros sl' Hne. unfold fupd. destruct (Z.eqb_spec sl' (slot n)); [contradiction|reflexivity].
      + intros c. unfold nameof, hdel. destruct (c =? b); reflexivity.
      + intros c Hcl. unfold hdel. destruct (Z.eqb_spec c b) as [->|]; [exfalso; apply Hcl; left; reflexivity|reflexivity].
    - assert (Hpin : In p (a :: l1')) by (rewrite Hp; apply last_in; discriminate).
      destruct (chain_in _ _ _ _ p Hc) as (Hpnz & pe & Hpe & _); [apply in_or_app; left; exact Hpin|].
      destruct (Z.eqb_spec p 0); [contradiction|]. rewrite Hpe.
      eexists. split; [reflexivity|]. cbn [d_ht d_hp].
      assert (Hpb : p <> b).
      { intros ->. apply (NoDup_remove_2 _ _ _ Hnd). apply in_or_app. left. exact Hpin. }
      repeat split.
      + pose proof (chain_unlink (d_hp d) (slot n) (d_ht d (slot n)) (a :: l1') b l2 be Hc Hbe Hnd pe) as HU.
        rewrite <- Hp in HU. apply HU. intros _. exact Hpe.
      + intros c. unfold nameof, hupd, hdel. destruct (Z.eqb_spec c p) as [->|].
        * destruct (Z.eqb_spec p b); [contradiction|]. rewrite Hpe. reflexivity.
        * destruct (c =? b); reflexivity.
      + intros c Hcl. unfold hupd, hdel.
        destruct (Z.eqb_spec c p) as [->|]; [exfalso; apply Hcl; apply in_or_app; left; exact Hpin|].
        destruct (Z.eqb_spec c b) as [->|]; [exfalso; apply Hcl; apply in_or_app; right; left; reflexivity|reflexivity]. }
  destruct Hex as (d' & Hrm & Hc' & Hht & Hnm & Hout).
  exists d'. split; [exact Hrm|].
  assert (HI' : Inv F d') by (apply (Inv_remove F d d' (slot n) l1 b l2); assumption).
  assert (Hgone : d_hp d' b = None).
  { specialize (Hnm b). rewrite Z.eqb_refl in Hnm. unfold nameof in Hnm. destruct (d_hp d' b); [discriminate|reflexivity]. }
  split; [|exact Hgone]. split; [exact HI'|]. intros G' m HG'.
  assert (Hbk : key (e_name be) = key n) by (unfold keyof in Hk; rewrite Hbe in Hk; exact Hk).
  unfold adel. destruct (list_eq_dec Z.eq_dec (key m) (key n)) as [E|N].
  - destruct (lookup_blk G' d' m) as [c|] eqn:El; [|reflexivity]. exfalso.
    apply (lookup_char F G' d' m c HI' HG') in El. apply has_name in El. destruct El as (nm & Hn & Hkm).
    rewrite Hnm in Hn. destruct (Z.eqb_spec c b) as [->|Hcb]; [discriminate|].
    (* then c and b both carry the key of n in d: the lookup in d is a function *)
    assert (H1 : lookup_blk F d n = Some c).
    { apply (lookup_char F F d n c HI (le_n F)). apply has_name. exists nm. split; [exact Hn|congruence]. }
    assert (H2 : lookup_blk F d n = Some b).
    { apply (lookup_char F F d n b HI (le_n F)). exists be. auto. }
    congruence.
  - rewrite <- (HA F m (le_n F)). apply opt_eq. intros c.
    rewrite (lookup_char F G' d' m c HI' HG'), (lookup_char F F d m c HI (le_n F)), !has_name.
    split; intros (nm & Hn & Hkm); exists nm; (split; [|exact Hkm]).
    + rewrite Hnm in Hn. destruct (Z.eqb_spec c b); [discriminate|exact Hn].
    + rewrite Hnm. destruct (Z.eqb_spec c b) as [->|]; [|exact Hn].
      exfalso. unfold nameof in Hn. rewrite Hbe in Hn. simpl in Hn. injection Hn as <-. apply N. congruence.
Qed.

(* ---- every reachable state: a whole history against the abstract map ---- *)
Definition astep (A : amap) (o : cop) : amap * Z :=
  match o with
  | CIns n blk => match A (key n) with None => (ains A n blk, 0) | Some _ => (A, -1) end
  | CDel n => match A (key n) with Some b => (adel A n, b) | None => (A, -1) end
  end.

(* the allocator hands out blocks that are not in use: not block 0 and not the block of a present entry *)
Definition fresh_for (A : amap) (o : cop) : Prop :=
  match o with CIns n blk => blk <> 0 /\ (forall k, A k <> Some blk) | CDel _ => True end.

Fixpoint valid (A : amap) (ops : list cop) : Prop :=
  match ops with [] => True | o :: r => fresh_for A o /\ valid (fst (astep A o)) r end.

Fixpoint run (G : nat) (d : dirst) (ops : list cop) : dirst * list Z :=
  match ops with
  | [] => (d, [])
  | o :: r => let '(d1, x) := cstep intl G d o in let '(d2, xs) := run G d1 r in (d2, x :: xs)
  end.

Fixpoint arun (A : amap) (ops : list cop) : amap * list Z :=
  match ops with
  | [] => (A, [])
  | o :: r => let '(A1, x) := astep A o in let '(A2, xs) := arun A1 r in (A2, x :: xs)
  end.

Lemma R_mono F F' d A : R F d A -> (F <= F')%nat -> R F' d A.
Proof.
  intros [HI HA] Hle. split.
  - intros sl. destruct (HI sl) as [l (H1 & H2 & H3 & H4 & H5)]. exists l. repeat split; try assumption. lia.
  - intros G m HG. apply HA. lia.
Qed.

Lemma step_refines F G d A o : R F d A -> (F <= G)%nat -> fresh_for A o ->
  R (S F) (fst (cstep intl G d o)) (fst (astep A o)) /\ snd (cstep intl G d o) = snd (astep A o).
Proof.
  intros HR HG Hfr. destruct o as [n blk|n]; cbn [cstep astep].
  - destruct (A (key n)) as [b|] eqn:HAn.
    + rewrite (insert_dup F G d A n blk b HR HG HAn). simpl. split; [apply (R_mono F); [exact HR|lia]|reflexivity].
    + destruct Hfr as [Hnz Hfree].
      assert (Hfresh : d_hp d blk = None).
      { destruct (d_hp d blk) as [e|] eqn:He; [|reflexivity]. exfalso.
        apply (Hfree (key (e_name e))). apply (R_range F d A blk e HR He). }
      destruct (insert_refines F G d A n blk HR HG HAn Hnz Hfresh) as (d' & -> & HR'). simpl. split; [exact HR'|reflexivity].
  - destruct (A (key n)) as [b|] eqn:HAn.
    + destruct (remove_refines F G d A n b HR HG HAn) as (d' & -> & HR' & _). simpl.
      split; [apply (R_mono F); [exact HR'|lia]|reflexivity].
    + rewrite (remove_absent F G d A n HR HG HAn). simpl. split; [apply (R_mono F); [exact HR|lia]|reflexivity].
Qed.

Theorem history_refines : forall ops F G d A,
  R F d A -> (F + length ops <= G)%nat -> valid A ops ->
  R (F + length ops) (fst (run G d ops)) (fst (arun A ops)) /\ snd (run G d ops) = snd (arun A ops).
Proof.
  induction ops as [|o r IH]; intros F G d A HR HG Hv; cbn [run arun length].
  - rewrite Nat.add_0_r. split; [exact HR|reflexivity].
  - destruct Hv as [Hfr Hv].
    destruct (step_refines F G d A o HR ltac:(simpl in HG; lia) Hfr) as [HR1 Ho].
    destruct (cstep intl G d o) as [d1 x] eqn:E1. destruct (astep A o) as [A1 y] eqn:E2. simpl in HR1, Ho, Hv. subst y.
    specialize (IH (S F) G d1 A1 HR1 ltac:(simpl in HG; lia) Hv).
    destruct (run G d1 r) as [d2 xs]. destruct (arun A1 r) as [A2 ys]. simpl in *.
    destruct IH as [IH1 IH2]. split; [|congruence].
    replace (F + S (length r))%nat with (S F + length r)%nat by lia. exact IH1.
Qed.

(* consequences, in the words of the properties *)
Corollary found_iff_same_key F G d A n m blk : R F d A -> (F <= G)%nat -> A (key n) = None -> blk <> 0 -> d_hp d blk = None ->
  forall d', insert G d n blk = Some d' ->
  forall G', (S F <= G')%nat -> (lookup_blk G' d' m = Some blk <-> key m = key n).
Proof.
  intros HR HG HAn Hnz Hfr d' Hins G' HG'.
  destruct (insert_refines F G d A n blk HR HG HAn Hnz Hfr) as (d'' & Hins' & [HI' HA']).
  rewrite Hins in Hins'. injection Hins' as <-.
  rewrite (HA' G' m HG'). unfold ains. destruct (list_eq_dec Z.eq_dec (key m) (key n)) as [E|N].
  - split; auto.
  - split; [|contradiction]. intros H. exfalso.
    (* blk is not in use in d, so the old map cannot give it *)
    destruct HR as [HI HA]. rewrite <- (HA F m (le_n F)) in H.
    apply (lookup_char F F d m blk HI (le_n F)) in H. destruct H as (e & He & _). congruence.
Qed.

End P.

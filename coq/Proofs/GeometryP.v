(* C01 geometry: the regenerated position / size arithmetic of adf_file.c and adf_file_util.h. *)
From Coq Require Import ZArith List Bool Lia.
From ADF Require Import CPrelude Generated.Leaf.
Local Open Scope Z_scope.

Definition valid_bs (bs : Z) : Prop := bs = 488 \/ bs = 512.

(* ceil(a/b) *)
Definition cdiv (a b : Z) : Z := (a + b - 1) / b.

Lemma u32_id x : 0 <= x < 2 ^ 32 -> cast_u32 x = x.
Proof. apply cast_u32_id. Qed.

Theorem pos2datablock_spec : forall pos bs, valid_bs bs -> 0 <= pos < 2 ^ 32 ->
  let blk := pos / bs in
  c_adfPos2DataBlock pos bs =
    if blk <? 72 then (-1, 0, pos mod bs, blk)
    else ((blk - 72) / 72, (blk - 72) mod 72, pos mod bs, blk).
Proof.
  intros pos bs Hbs Hpos blk. unfold c_adfPos2DataBlock. cbv zeta. fold blk.
  destruct (Z.ltb_spec blk 72) as [Hlt|Hge]; [reflexivity|].
  assert (Hbs' : 0 < bs <= 512) by (destruct Hbs; lia).
  rewrite (u32_id (bs * 72)) by lia.
  assert (Hp72 : bs * 72 <= pos).
  { unfold blk in Hge. assert (bs * (pos / bs) <= pos) by (apply Z.mul_div_le; lia). nia. }
  rewrite (u32_id (pos - bs * 72)) by lia.
  assert (E1 : (pos - bs * 72) / bs = blk - 72).
  { unfold blk. replace (pos - bs * 72) with (pos + (-72) * bs) by lia. rewrite Z.div_add by lia. lia. }
  assert (E2 : (pos - bs * 72) / (bs * 72) = (blk - 72) / 72).
  { rewrite <- E1. rewrite Zdiv.Zdiv_Zdiv by lia. reflexivity. }
  rewrite E1, E2.
  assert (Hr : 0 <= (blk - 72) / 72 < 2 ^ 31).
  { split; [apply Z.div_pos; lia|].
    apply Z.div_lt_upper_bound; [lia|]. unfold blk.
    assert (pos / bs <= pos) by (apply Z.div_le_upper_bound; nia). lia. }
  rewrite cast_s32_id by lia. reflexivity.
Qed.

(* the decomposition is exact and unique: pos = blk*bs + off, blk = 72*(ext+1) + idx *)
Theorem pos2datablock_exact : forall pos bs, valid_bs bs -> 0 <= pos < 2 ^ 32 ->
  let '(ext, idx, off, blk) := c_adfPos2DataBlock pos bs in
  pos = blk * bs + off /\ 0 <= off < bs /\
  ((blk < 72 /\ ext = -1 /\ idx = 0) \/ (72 <= blk /\ 0 <= ext /\ 0 <= idx < 72 /\ blk = 72 * (ext + 1) + idx)).
Proof.
  intros pos bs Hbs Hpos. rewrite pos2datablock_spec by assumption. cbv zeta.
  assert (Hbs' : 0 < bs) by (destruct Hbs; lia).
  pose proof (Z.div_mod pos bs ltac:(lia)) as Hdm.
  pose proof (Z.mod_pos_bound pos bs Hbs') as Hm.
  destruct (Z.ltb_spec (pos / bs) 72) as [Hlt|Hge].
  - split; [lia|]. split; [lia|]. left. lia.
  - split; [lia|]. split; [lia|]. right.
    pose proof (Z.div_mod (pos / bs - 72) 72 ltac:(lia)).
    pose proof (Z.mod_pos_bound (pos / bs - 72) 72 ltac:(lia)).
    assert (0 <= (pos / bs - 72) / 72) by (apply Z.div_pos; lia).
    lia.
Qed.

Lemma cdiv_bound f bs : valid_bs bs -> 0 <= f < 2 ^ 32 -> 0 <= cdiv f bs < 2 ^ 31.
Proof.
  intros [-> | ->] Hf; unfold cdiv; (split; [apply Z.div_pos; lia|apply Z.div_lt_upper_bound; lia]).
Qed.

Lemma div_bound f bs : valid_bs bs -> 0 <= f < 2 ^ 32 -> 0 <= f / bs < 2 ^ 31.
Proof.
  intros [-> | ->] Hf; (split; [apply Z.div_pos; lia|apply Z.div_lt_upper_bound; lia]).
Qed.

Theorem size2datablocks_spec : forall fsize bs, valid_bs bs -> 0 <= fsize < 2 ^ 32 ->
  c_adfFileSize2Datablocks fsize bs = cdiv fsize bs.
Proof.
  intros fsize bs Hbs Hf. unfold c_adfFileSize2Datablocks, cdiv.
  assert (Hbs' : 1 < bs) by (destruct Hbs; lia).
  pose proof (div_bound fsize bs Hbs Hf) as Hq.
  pose proof (Z.div_mod fsize bs ltac:(lia)). pose proof (Z.mod_pos_bound fsize bs ltac:(lia)).
  destruct (Z.gtb_spec (fsize mod bs) 0) as [Hr|Hr].
  - rewrite (u32_id 1) by lia. rewrite u32_id by lia.
    apply (Z.div_unique _ _ _ (fsize mod bs - 1)); lia.
  - rewrite (u32_id 0) by lia. rewrite u32_id by lia.
    assert (fsize mod bs = 0) by lia.
    apply (Z.div_unique _ _ _ (bs - 1)); lia.
Qed.

Theorem datablocks2extblocks_spec : forall d, 0 <= d < 2 ^ 32 ->
  c_adfFileDatablocks2Extblocks d = if d <=? 72 then 0 else cdiv (d - 72) 72.
Proof.
  intros d Hd. unfold c_adfFileDatablocks2Extblocks, cdiv.
  destruct (Z.ltb_spec d 1) as [H1|H1].
  - destruct (Z.leb_spec d 72); [reflexivity|lia].
  - rewrite u32_id by lia. destruct (Z.leb_spec d 72) as [H72|H72].
    + apply Z.div_small. lia.
    + f_equal. lia.
Qed.

Theorem size2blocks_spec : forall fsize bs, valid_bs bs -> 0 <= fsize < 2 ^ 32 ->
  let d := cdiv fsize bs in
  c_adfFileSize2Blocks fsize bs = d + (if d <=? 72 then 0 else cdiv (d - 72) 72) + 1.
Proof.
  intros fsize bs Hbs Hf d. unfold c_adfFileSize2Blocks. cbv zeta.
  rewrite size2datablocks_spec by assumption. fold d.
  assert (Hbs' : 1 < bs) by (destruct Hbs; lia).
  pose proof (cdiv_bound fsize bs Hbs Hf) as Hd. fold d in Hd.
  rewrite datablocks2extblocks_spec by lia.
  assert (He : 0 <= (if d <=? 72 then 0 else cdiv (d - 72) 72) <= d).
  { destruct (Z.leb_spec d 72); [lia|]. unfold cdiv. split; [apply Z.div_pos; lia|].
    apply Z.div_le_upper_bound; lia. }
  rewrite (u32_id (d + _)) by lia. rewrite u32_id by lia. reflexivity.
Qed.

(* adfFileRealSize computes the same counts (it is used by adfFreeFileBlocks) *)
Theorem filerealsize_spec : forall size bs o1 o2, valid_bs bs -> 0 <= size < 2 ^ 32 ->
  let d := cdiv size bs in
  let e := if d <=? 72 then 0 else cdiv (d - 72) 72 in
  c_adfFileRealSize size bs o1 o2 = (e + d + 1, d, e).
Proof.
  intros size bs o1 o2 Hbs Hs d e. unfold c_adfFileRealSize. cbv zeta.
  assert (Hbs' : 1 < bs) by (destruct Hbs; lia).
  pose proof (Z.div_mod size bs ltac:(lia)) as Hdm. pose proof (Z.mod_pos_bound size bs ltac:(lia)) as Hm.
  pose proof (div_bound size bs Hbs Hs) as Hq.
  assert (Ed : (if negb (size mod bs =? 0) then cast_u32 (size / bs + 1) else size / bs) = d).
  { unfold d, cdiv. destruct (Z.eqb_spec (size mod bs) 0) as [H0|H0]; cbn [negb].
    - apply (Z.div_unique _ _ _ (bs - 1)); lia.
    - rewrite u32_id by lia. apply (Z.div_unique _ _ _ (size mod bs - 1)); lia. }
  rewrite Ed.
  pose proof (cdiv_bound size bs Hbs Hs) as Hd. fold d in Hd.
  assert (Ee : (if d >? 72
                then (if negb (cast_u32 (d - 72) mod 72 =? 0) then cast_u32 (cast_u32 (d - 72) / 72 + 1) else cast_u32 (d - 72) / 72)
                else 0) = e).
  { unfold e, cdiv. destruct (Z.gtb_spec d 72) as [Hg|Hg]; destruct (Z.leb_spec d 72) as [Hl|Hl]; try (exfalso; lia); [|reflexivity].
    rewrite (u32_id (d - 72)) by lia.
    pose proof (Z.div_mod (d - 72) 72 ltac:(lia)). pose proof (Z.mod_pos_bound (d - 72) 72 ltac:(lia)).
    assert (0 <= (d - 72) / 72 < 2 ^ 31) by (split; [apply Z.div_pos; lia|apply Z.div_lt_upper_bound; lia]).
    destruct (Z.eqb_spec ((d - 72) mod 72) 0) as [Hz|Hz]; cbn [negb].
    - apply (Z.div_unique _ _ _ 71); lia.
    - rewrite u32_id by lia. apply (Z.div_unique _ _ _ ((d - 72) mod 72 - 1)); lia. }
  rewrite Ee.
  assert (He : 0 <= e <= d).
  { unfold e. destruct (Z.leb_spec d 72); [lia|]. unfold cdiv. split; [apply Z.div_pos; lia|]. apply Z.div_le_upper_bound; lia. }
  rewrite (u32_id (e + d)) by lia. rewrite u32_id by lia.
  rewrite !cast_s32_id by lia. reflexivity.
Qed.

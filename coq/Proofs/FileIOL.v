(* List lemmas for the proofs about Model/FileIO.v: Z-indexed views of firstn / skipn slices, tables as windows of a block list. *)
From Coq Require Import ZArith List Bool Lia.
From ADF Require Import CPrelude Proofs.BytesP Model.FileIO.
Import ListNotations.
Local Open Scope Z_scope.

Definition len {A} (l : list A) : Z := Z.of_nat (length l).

Lemma len_nonneg {A} (l : list A) : 0 <= len l.
Proof. unfold len. lia. Qed.

Lemma len_app {A} (a b : list A) : len (a ++ b) = len a + len b.
Proof. unfold len. rewrite app_length. lia. Qed.

Lemma nthZ_nth l i : 0 <= i -> nthZ l i = nth (Z.to_nat i) l 0.
Proof. intros H. unfold nthZ. destruct (Z.ltb_spec i 0); [lia|reflexivity]. Qed.

Lemma nthZ_neg l i : i < 0 -> nthZ l i = 0.
Proof. intros H. unfold nthZ. destruct (Z.ltb_spec i 0); [reflexivity|lia]. Qed.

Lemma nthZ_oob l i : len l <= i -> nthZ l i = 0.
Proof. intros H. pose proof (len_nonneg l). rewrite nthZ_nth by lia. apply nth_overflow. unfold len in H. lia. Qed.

Lemma list_ext (a b : list Z) : length a = length b -> (forall i, 0 <= i < len a -> nthZ a i = nthZ b i) -> a = b.
Proof.
  intros Hl H. apply (nth_ext _ _ 0 0 Hl). intros n Hn.
  specialize (H (Z.of_nat n) ltac:(unfold len; lia)). rewrite !nthZ_nth in H by lia. rewrite Nat2Z.id in H. exact H.
Qed.

Lemma nthZ_app_l a b i : i < len a -> nthZ (a ++ b) i = nthZ a i.
Proof.
  intros H. destruct (Z.ltb_spec i 0) as [Hn|Hn]; [rewrite !nthZ_neg by lia; reflexivity|].
  rewrite !nthZ_nth by lia. apply app_nth1. unfold len in H. lia.
Qed.

Lemma nthZ_app_r a b i : len a <= i -> nthZ (a ++ b) i = nthZ b (i - len a).
Proof.
  intros H. pose proof (len_nonneg a). rewrite !nthZ_nth by lia. rewrite app_nth2 by (unfold len in H; lia).
  f_equal. unfold len. lia.
Qed.

Lemma nthZ_snoc l x i : nthZ (l ++ [x]) i = if i =? len l then x else nthZ l i.
Proof.
  destruct (Z.eqb_spec i (len l)) as [->|Hne].
  - rewrite nthZ_app_r by lia. rewrite Z.sub_diag. reflexivity.
  - destruct (Z.ltb_spec i (len l)).
    + apply nthZ_app_l. assumption.
    + rewrite nthZ_app_r by lia. rewrite (nthZ_oob l) by lia. apply nthZ_oob. unfold len in *. simpl. lia.
Qed.

Lemma nth_skipn {A} (d : A) : forall n (l : list A) i, nth i (skipn n l) d = nth (n + i) l d.
Proof. induction n as [|n IH]; intros l i; [reflexivity|]. destruct l as [|x l]; simpl; [destruct i; reflexivity|]. apply IH. Qed.

Lemma nth_firstn {A} (d : A) : forall n (l : list A) i, (i < n)%nat -> nth i (firstn n l) d = nth i l d.
Proof.
  induction n as [|n IH]; intros l i H; [lia|]. destruct l as [|x l]; simpl; [reflexivity|].
  destruct i; [reflexivity|]. apply IH. lia.
Qed.

Lemma sub_length l i n : 0 <= i -> 0 <= n -> i + n <= len l -> length (sub l i n) = Z.to_nat n.
Proof. intros Hi Hn H. unfold sub. rewrite firstn_length, skipn_length. unfold len in H. lia. Qed.

Lemma len_sub l i n : 0 <= i -> 0 <= n -> i + n <= len l -> len (sub l i n) = n.
Proof. intros. unfold len. rewrite sub_length by assumption. lia. Qed.

Lemma nthZ_sub l i n k : 0 <= i -> 0 <= k < n -> nthZ (sub l i n) k = nthZ l (i + k).
Proof.
  intros Hi Hk. rewrite !nthZ_nth by lia. unfold sub. rewrite nth_firstn by lia. rewrite nth_skipn. f_equal. lia.
Qed.

Lemma skipn_add {A} : forall b a (l : list A), skipn (a + b) l = skipn a (skipn b l).
Proof.
  induction b as [|b IH]; intros a l; [rewrite Nat.add_0_r; reflexivity|].
  rewrite Nat.add_succ_r. destruct l as [|x l]; simpl; [rewrite skipn_nil; reflexivity|]. apply IH.
Qed.

Lemma sub_app l i n m : 0 <= i -> 0 <= n -> 0 <= m -> sub l i n ++ sub l (i + n) m = sub l i (n + m).
Proof.
  intros Hi Hn Hm. unfold sub.
  replace (Z.to_nat (i + n)) with (Z.to_nat n + Z.to_nat i)%nat by lia.
  rewrite skipn_add. replace (Z.to_nat (n + m)) with (Z.to_nat n + Z.to_nat m)%nat by lia.
  generalize (skipn (Z.to_nat i) l) as r. intros r. clear.
  revert r. generalize (Z.to_nat m) as b. induction (Z.to_nat n) as [|a IH]; intros b r; [reflexivity|].
  destruct r as [|x r]; simpl; [rewrite firstn_nil; reflexivity|]. f_equal. apply IH.
Qed.

Lemma sub_nil l i : sub l i 0 = [].
Proof. reflexivity. Qed.

Lemma ovw_length l i src : 0 <= i -> i + len src <= len l -> length (ovw l i src) = length l.
Proof.
  intros Hi H. unfold ovw. rewrite !app_length, firstn_length, skipn_length. unfold len in H. lia.
Qed.

Lemma nthZ_ovw l i src k : 0 <= i -> i + len src <= len l ->
  nthZ (ovw l i src) k = if (i <=? k) && (k <? i + len src) then nthZ src (k - i) else nthZ l k.
Proof.
  intros Hi H. unfold ovw.
  assert (Hf : len (firstn (Z.to_nat i) l) = i) by (unfold len in *; rewrite firstn_length; lia).
  destruct (Z.leb_spec i k) as [H1|H1]; simpl.
  - rewrite nthZ_app_r by lia. rewrite Hf.
    destruct (Z.ltb_spec k (i + len src)) as [H2|H2].
    + apply nthZ_app_l. lia.
    + rewrite nthZ_app_r by lia. pose proof (len_nonneg src). rewrite !nthZ_nth by lia. rewrite nth_skipn. f_equal. unfold len in *. lia.
  - rewrite nthZ_app_l by lia. destruct (Z.ltb_spec k 0); [rewrite !nthZ_neg by lia; reflexivity|].
    rewrite !nthZ_nth by lia. apply nth_firstn. lia.
Qed.

Lemma len_firstn {A} (l : list A) n : 0 <= n <= len l -> len (firstn (Z.to_nat n) l) = n.
Proof. intros H. unfold len in *. rewrite firstn_length. lia. Qed.

Lemma nthZ_firstn l n k : k < n -> nthZ (firstn (Z.to_nat n) l) k = nthZ l k.
Proof.
  intros H. destruct (Z.ltb_spec k 0); [rewrite !nthZ_neg by lia; reflexivity|].
  rewrite !nthZ_nth by lia. apply nth_firstn. lia.
Qed.

Lemma nthZ_firstn_oob l n k : 0 <= n <= k -> nthZ (firstn (Z.to_nat n) l) k = 0.
Proof.
  intros H. apply nthZ_oob. unfold len. pose proof (firstn_le_length (Z.to_nat n) l). lia.
Qed.

Lemma nthZ_zerosZ n k : nthZ (zerosZ n) k = 0.
Proof.
  destruct (Z.ltb_spec k 0); [apply nthZ_neg; lia|]. rewrite nthZ_nth by lia. unfold zerosZ.
  generalize (Z.to_nat k). induction (Z.to_nat n) as [|m IH]; intros j; simpl; [destruct j; reflexivity|].
  destruct j; [reflexivity|apply IH].
Qed.

Lemma zerosZ_length n : length (zerosZ n) = Z.to_nat n.
Proof. unfold zerosZ. induction (Z.to_nat n) as [|m IH]; simpl; [reflexivity|]. rewrite IH. reflexivity. Qed.

(* ---- tables as 72-slot windows of the block list: subZ l b 72 is the table whose slot i holds block b+i, zero beyond the end ---- *)
Lemma window_zero (l : list Z) b n : len l <= b -> 0 <= n -> subZ l b n = zerosZ n.
Proof.
  intros H Hn. apply list_ext.
  - rewrite subZ_length, zerosZ_length. reflexivity.
  - intros i Hi. unfold len in Hi. rewrite subZ_length in Hi. rewrite nthZ_subZ by lia. rewrite nthZ_zerosZ. apply nthZ_oob. lia.
Qed.

Lemma window_snoc_in (l : list Z) b n x : 0 <= n -> b <= len l < b + n ->
  updZ (subZ l b n) (len l - b) x = subZ (l ++ [x]) b n.
Proof.
  intros Hn H. apply list_ext.
  - rewrite updZ_length, !subZ_length. reflexivity.
  - intros i Hi. unfold len in Hi. rewrite updZ_length, subZ_length in Hi.
    rewrite (nthZ_subZ (l ++ [x])) by lia. rewrite nthZ_snoc.
    destruct (Z.eqb_spec (b + i) (len l)) as [He|Hne].
    + replace (len l - b) with i by lia. apply nthZ_updZ_same. rewrite subZ_length. lia.
    + rewrite nthZ_updZ_other by lia. apply nthZ_subZ. lia.
Qed.

Lemma window_snoc_out (l : list Z) b n x : 0 <= n -> (len l < b \/ b + n <= len l) -> subZ (l ++ [x]) b n = subZ l b n.
Proof.
  intros Hn H. apply list_ext.
  - rewrite !subZ_length. reflexivity.
  - intros i Hi. unfold len in Hi. rewrite subZ_length in Hi. rewrite !nthZ_subZ by lia. rewrite nthZ_snoc.
    destruct (Z.eqb_spec (b + i) (len l)); [lia|reflexivity].
Qed.

Lemma min_snoc_in (l : list Z) b x : b <= len l < b + 72 -> Z.min 72 (len (l ++ [x]) - b) = Z.min 72 (len l - b) + 1.
Proof. intros H. rewrite len_app. unfold len at 2. simpl. lia. Qed.

(* ---- NoDup over appended lists ---- *)
Lemma nodup_app_inv {A} (a b : list A) : NoDup (a ++ b) -> NoDup a /\ NoDup b /\ (forall x, In x a -> In x b -> False).
Proof.
  induction a as [|x a IH]; simpl; intros H.
  - repeat split; [constructor|assumption|contradiction].
  - inversion H as [|? ? Hx Hn]; subst. destruct (IH Hn) as (Ha & Hb & Hd). repeat split.
    + constructor; [|assumption]. intros Hc. apply Hx. apply in_or_app. left. assumption.
    + assumption.
    + intros y [->|Hy] Hyb; [apply Hx; apply in_or_app; right; assumption|eauto].
Qed.

Lemma nodup_app_intro {A} (a b : list A) : NoDup a -> NoDup b -> (forall x, In x a -> In x b -> False) -> NoDup (a ++ b).
Proof.
  induction a as [|x a IH]; simpl; intros Ha Hb Hd; [assumption|].
  inversion Ha; subst. constructor.
  - intros Hc. apply in_app_or in Hc. destruct Hc as [Hc|Hc]; [contradiction|]. apply (Hd x); [left; reflexivity|assumption].
  - apply IH; [assumption|assumption|]. intros y Hy. apply Hd. right. assumption.
Qed.

(* ---- ovw without the "fits" restriction: the splice of Spec/FsSpec.v (overwrite and extend) ---- *)
Lemma len_ovw_gen l i src : 0 <= i <= len l -> len (ovw l i src) = Z.max (len l) (i + len src).
Proof.
  intros Hi. unfold ovw, len in *. rewrite !app_length, firstn_length, skipn_length. lia.
Qed.

Lemma nthZ_ovw_gen l i src k : 0 <= i <= len l ->
  nthZ (ovw l i src) k = if (i <=? k) && (k <? i + len src) then nthZ src (k - i) else nthZ l k.
Proof.
  intros Hi. unfold ovw.
  assert (Hf : len (firstn (Z.to_nat i) l) = i) by (unfold len in *; rewrite firstn_length; lia).
  destruct (Z.leb_spec i k) as [H1|H1]; simpl.
  - rewrite nthZ_app_r by lia. rewrite Hf.
    destruct (Z.ltb_spec k (i + len src)) as [H2|H2].
    + apply nthZ_app_l. lia.
    + rewrite nthZ_app_r by lia. pose proof (len_nonneg src). rewrite !nthZ_nth by lia. rewrite nth_skipn. f_equal. unfold len in *. lia.
  - rewrite nthZ_app_l by lia. destruct (Z.ltb_spec k 0); [rewrite !nthZ_neg by lia; reflexivity|].
    rewrite !nthZ_nth by lia. apply nth_firstn. lia.
Qed.

Lemma ovw_ovw l i a b : 0 <= i <= len l -> ovw (ovw l i a) (i + len a) b = ovw l i (a ++ b).
Proof.
  intros Hi. pose proof (len_nonneg a). pose proof (len_nonneg b).
  assert (H1 : len (ovw l i a) = Z.max (len l) (i + len a)) by (apply len_ovw_gen; assumption).
  apply list_ext.
  - assert (H2 : len (ovw (ovw l i a) (i + len a) b) = len (ovw l i (a ++ b))).
    { rewrite (len_ovw_gen (ovw l i a)) by lia. rewrite (len_ovw_gen l i (a ++ b)) by lia. rewrite H1, len_app. lia. }
    unfold len in *. lia.
  - intros k Hk. rewrite (nthZ_ovw_gen (ovw l i a)) by lia. rewrite (nthZ_ovw_gen l i (a ++ b)) by lia. rewrite (nthZ_ovw_gen l i a) by lia. rewrite len_app.
    destruct (Z.leb_spec (i + len a) k); destruct (Z.ltb_spec k (i + len a + len b)); destruct (Z.leb_spec i k); destruct (Z.ltb_spec k (i + (len a + len b)));
      destruct (Z.ltb_spec k (i + len a)); simpl; try lia; try reflexivity.
    + rewrite nthZ_app_r by lia. f_equal. lia.
    + rewrite nthZ_app_l by lia. reflexivity.
Qed.

Lemma ovw_nil l i : 0 <= i <= len l -> ovw l i [] = l.
Proof. intros Hi. unfold ovw. simpl. rewrite Nat.add_0_r. apply firstn_skipn. Qed.

Lemma len_firstn_le {A} (l : list A) n : 0 <= n -> len (firstn (Z.to_nat n) l) = Z.min n (len l).
Proof. intros H. unfold len. rewrite firstn_length. lia. Qed.

Lemma firstn_app_skipn {A} (l : list A) a b : firstn a l ++ firstn b (skipn a l) = firstn (a + b) l.
Proof.
  revert l. induction a as [|a IH]; intros l; simpl; [reflexivity|]. destruct l as [|x l]; simpl; [rewrite firstn_nil; reflexivity|]. f_equal. apply IH.
Qed.

(* ---- appending at the end, runs of zeros ---- *)
Lemma ovw_end l src : ovw l (len l) src = l ++ src.
Proof.
  unfold ovw, len. rewrite Nat2Z.id. rewrite firstn_all. rewrite skipn_all2 by lia. rewrite app_nil_r. reflexivity.
Qed.

Lemma zerosN_app a b : zerosN a ++ zerosN b = zerosN (a + b).
Proof. induction a as [|a IH]; simpl; [reflexivity|]. rewrite IH. reflexivity. Qed.

Lemma zerosZ_app a b : 0 <= a -> 0 <= b -> zerosZ a ++ zerosZ b = zerosZ (a + b).
Proof. intros Ha Hb. unfold zerosZ. rewrite zerosN_app. f_equal. lia. Qed.

Lemma firstn_zerosN a b : (a <= b)%nat -> firstn a (zerosN b) = zerosN a.
Proof. revert b. induction a as [|a IH]; intros b H; [reflexivity|]. destruct b; [lia|]. simpl. rewrite IH by lia. reflexivity. Qed.

Lemma firstn_zerosZ w c : 0 <= w <= c -> firstn (Z.to_nat w) (zerosZ c) = zerosZ w.
Proof. intros H. unfold zerosZ. apply firstn_zerosN. lia. Qed.

Lemma len_zerosZ n : 0 <= n -> len (zerosZ n) = n.
Proof. intros H. unfold len. rewrite zerosZ_length. lia. Qed.

(* ---- clearing table slots; prefixes of duplicate-free lists ---- *)
Lemma nthZ_clear_from : forall n t i k, 0 <= i -> i + Z.of_nat n <= len t ->
  nthZ (FileIO.clear_from n t i) k = if (i <=? k) && (k <? i + Z.of_nat n) then 0 else nthZ t k.
Proof.
  induction n as [|n IH]; intros t i k Hi Hl.
  - cbn [FileIO.clear_from]. destruct (Z.leb_spec i k); destruct (Z.ltb_spec k (i + Z.of_nat 0)); cbn [andb]; try reflexivity; lia.
  - cbn [FileIO.clear_from]. rewrite IH by (try lia; unfold len in *; rewrite updZ_length; lia).
    destruct (Z.leb_spec (i + 1) k); destruct (Z.ltb_spec k (i + 1 + Z.of_nat n)); destruct (Z.leb_spec i k); destruct (Z.ltb_spec k (i + Z.of_nat (S n))); cbn [andb]; try lia; try reflexivity.
    + apply nthZ_updZ_other. lia.
    + assert (k = i) by lia. subst k. apply nthZ_updZ_same. unfold len in Hl. lia.
    + apply nthZ_updZ_other. lia.
Qed.

Lemma clear_from_length : forall n t i, length (FileIO.clear_from n t i) = length t.
Proof. induction n as [|n IH]; intros t i; cbn [FileIO.clear_from]; [reflexivity|]. rewrite IH. apply updZ_length. Qed.

Lemma nthZ_clear_range t first last k : 0 <= first -> last < len t ->
  nthZ (FileIO.clear_range t first last) k = if (first <=? k) && (k <=? last) then 0 else nthZ t k.
Proof.
  intros Hf Hl. unfold FileIO.clear_range. destruct (Z.ltb_spec last first) as [Hlt|Hge].
  - replace (Z.to_nat (last - first + 1)) with 0%nat by lia. cbn [FileIO.clear_from].
    destruct (Z.leb_spec first k); destruct (Z.leb_spec k last); cbn [andb]; try reflexivity; lia.
  - rewrite nthZ_clear_from by lia. rewrite Z2Nat.id by lia.
    destruct (Z.leb_spec first k); destruct (Z.leb_spec k last); destruct (Z.ltb_spec k (first + (last - first + 1))); cbn [andb]; try reflexivity; lia.
Qed.

(* a table window whose slots from `first` on are cleared is the window of the list cut at that slot *)
Lemma clear_window (L : list Z) b first last : 0 <= b -> 0 <= first <= last + 1 -> last < 72 -> (last = 71 \/ len L <= b + last + 1) ->
  FileIO.clear_range (subZ L b 72) first last = subZ (firstn (Z.to_nat (b + first)) L) b 72.
Proof.
  intros Hb Hf Hl Hend. apply list_ext.
  - unfold FileIO.clear_range. rewrite clear_from_length, !subZ_length. reflexivity.
  - intros i Hi. unfold len, FileIO.clear_range in Hi. rewrite clear_from_length, subZ_length in Hi.
    rewrite nthZ_clear_range by (unfold len; rewrite ?subZ_length; lia). rewrite !nthZ_subZ by lia.
    destruct (Z.leb_spec first i); destruct (Z.leb_spec i last); cbn [andb].
    + symmetry. apply nthZ_firstn_oob. lia.
    + rewrite nthZ_firstn_oob by lia. apply nthZ_oob. lia.
    + symmetry. apply nthZ_firstn. lia.
    + symmetry. apply nthZ_firstn. lia.
Qed.

Lemma in_firstn {A} (x : A) n l : In x (firstn n l) -> In x l.
Proof. revert l. induction n as [|n IH]; intros l H; [contradiction|]. destruct l as [|y l]; [contradiction|]. destruct H as [->|H]; [left; reflexivity|right; apply IH; exact H]. Qed.

Lemma nodup_firstn {A} n (l : list A) : NoDup l -> NoDup (firstn n l).
Proof.
  revert l. induction n as [|n IH]; intros l H; [constructor|]. destruct l as [|y l]; [constructor|]. inversion H; subst. cbn [firstn].
  constructor; [intros Hc; apply in_firstn in Hc; contradiction|apply IH; assumption].
Qed.

Lemma window_firstn_full (L : list Z) b n : 0 <= b -> b + 72 <= n -> subZ (firstn (Z.to_nat n) L) b 72 = subZ L b 72.
Proof.
  intros Hb Hn. apply list_ext; [rewrite !subZ_length; reflexivity|]. intros i Hi. unfold len in Hi. rewrite subZ_length in Hi.
  rewrite !nthZ_subZ by lia. apply nthZ_firstn. lia.
Qed.

Lemma skipn_cons_nth (l : list Z) : forall m, (m < length l)%nat -> skipn m l = nth m l 0 :: skipn (S m) l.
Proof. induction l as [|e l IH]; intros m Hm; [simpl in Hm; lia|]. destruct m; [reflexivity|]. simpl. apply IH. simpl in Hm. lia. Qed.

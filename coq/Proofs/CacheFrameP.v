(* The frame of the directory-cache operations on Model/CacheChain.v (C18): adfAddInCache changes the LAST cache block of the directory only
   (the record is appended there, or the block the allocator named is linked behind it and holds the record); adfDelFromCache changes one
   block only - the one holding the record - and the blocks it releases are blocks of this chain; adfUpdateCache composes the two or rewrites
   one record in place.  No other cache block of the directory changes, and no block outside the chain but the newly named one is written.
   For every cache state (no invariant needed). *)
From Coq Require Import ZArith List Bool Arith Lia.
From ADF Require Import Model.CacheChain.
Import ListNotations.

Theorem c_add_frame c r nb : c <> [] ->
  exists pre b rs, c = pre ++ [(b, rs)] /\ (c_add c r nb = pre ++ [(b, rs ++ [r])] \/ c_add c r nb = pre ++ [(b, rs); (nb, [r])]).
Proof.
  induction c as [|(b, rs) rest IH]; intros Hne; [contradiction|].
  destruct rest as [|blk2 rest'].
  - exists [], b, rs. split; [reflexivity|]. cbn [c_add app]. destruct (used rs + r_len r <=? AREA); [left|right]; reflexivity.
  - destruct (IH ltac:(discriminate)) as (pre & b' & rs' & Hc & Hadd). exists ((b, rs) :: pre), b', rs'. split; [cbn [app]; rewrite <- Hc; reflexivity|].
    change (c_add ((b, rs) :: blk2 :: rest') r nb) with ((b, rs) :: c_add (blk2 :: rest') r nb).
    destruct Hadd as [-> | ->]; [left|right]; reflexivity.
Qed.

(* blocks of the result of a deletion: each is a block of the old chain, with its records or with the record removed; nothing new *)
Definition del_block_ok (c : cstate) (k : Z) (blk : cblock) : Prop :=
  In blk c \/ exists rs0, In (fst blk, rs0) c /\ snd blk = remove_key k rs0.

Lemma c_del_tail_frame : forall c k, (forall blk, In blk (fst (c_del_tail c k)) -> del_block_ok c k blk) /\ incl (snd (c_del_tail c k)) (map fst c)
  /\ (length (snd (c_del_tail c k)) <= 1)%nat.
Proof.
  induction c as [|(b, rs) rest IH]; intros k; [split; [intros blk []|split; [intros x []|cbn; lia]]|].
  cbn [c_del_tail]. destruct (has_key k rs).
  - destruct (length rs <=? 1).
    + cbn [fst snd]. split; [intros blk Hb; left; right; exact Hb|]. split; [intros x [<-|[]]; left; reflexivity|cbn; lia].
    + cbn [fst snd]. split; [|split; [intros x []|cbn; lia]]. intros blk [<-|Hb]; [right; exists rs; split; [left; reflexivity|reflexivity]|left; right; exact Hb].
  - destruct (IH k) as (H1 & H2 & H3). destruct (c_del_tail rest k) as (rest', fr). cbn [fst snd] in *. split; [|split; [|exact H3]].
    + intros blk [<-|Hb]; [left; left; reflexivity|]. destruct (H1 blk Hb) as [Hin|(rs0 & Hin & Hr)]; [left; right; exact Hin|right; exists rs0; split; [right; exact Hin|exact Hr]].
    + intros x Hx. right. apply H2, Hx.
Qed.

Theorem c_del_frame c k : (forall blk, In blk (fst (c_del c k)) -> del_block_ok c k blk) /\ incl (snd (c_del c k)) (map fst c)
  /\ (length (snd (c_del c k)) <= 1)%nat.
Proof.
  destruct c as [|(b, rs) rest]; [split; [intros blk []|split; [intros x []|cbn; lia]]|].
  cbn [c_del]. destruct (has_key k rs).
  - cbn [fst snd]. split; [|split; [intros x []|cbn; lia]]. intros blk [<-|Hb]; [right; exists rs; split; [left; reflexivity|reflexivity]|left; right; exact Hb].
  - destruct (c_del_tail_frame rest k) as (H1 & H2 & H3). destruct (c_del_tail rest k) as (rest', fr). cbn [fst snd] in *. split; [|split; [|exact H3]].
    + intros blk [<-|Hb]; [left; left; reflexivity|]. destruct (H1 blk Hb) as [Hin|(rs0 & Hin & Hr)]; [left; right; exact Hin|right; exists rs0; split; [right; exact Hin|exact Hr]].
    + intros x Hx. right. apply H2, Hx.
Qed.

(* an in-place update rewrites one record of one block *)
Theorem c_replace_frame : forall c k r', forall blk, In blk (c_replace c k r') -> In blk c \/ exists rs0, In (fst blk, rs0) c /\ snd blk = replace_key k r' rs0.
Proof.
  induction c as [|(b, rs) rest IH]; intros k r' blk Hb; [destruct Hb|]. cbn [c_replace] in Hb. destruct (has_key k rs).
  - destruct Hb as [<-|Hb]; [right; exists rs; split; [left; reflexivity|reflexivity]|left; right; exact Hb].
  - destruct Hb as [<-|Hb]; [left; left; reflexivity|]. destruct (IH k r' blk Hb) as [Hin|(rs0 & Hin & Hr)]; [left; right; exact Hin|right; exists rs0; split; [right; exact Hin|exact Hr]].
Qed.

(* the block numbers of the chain after any of the three operations: the old ones, plus at most the block the allocator named *)
Theorem cache_ops_blocks c r nb k :
  incl (map fst (c_add c r nb)) (map fst c ++ [nb]) /\ incl (map fst (fst (c_del c k))) (map fst c) /\ incl (map fst (fst (c_update c r nb))) (map fst c ++ [nb]).
Proof.
  assert (Hadd : forall c0, incl (map fst (c_add c0 r nb)) (map fst c0 ++ [nb])).
  { induction c0 as [|(b, rs) rest IH]; [intros x [<-|[]]; left; reflexivity|].
    destruct rest as [|blk2 rest'].
    - cbn [c_add]. destruct (used rs + r_len r <=? AREA); cbn; intros x Hx; [destruct Hx as [<-|[]]; left; reflexivity|destruct Hx as [<-|[<-|[]]]; [left|right; left]; reflexivity].
    - change (c_add ((b, rs) :: blk2 :: rest') r nb) with ((b, rs) :: c_add (blk2 :: rest') r nb). cbn [map fst app].
      intros x [<-|Hx]; [left; reflexivity|right; apply IH, Hx]. }
  assert (Hdel : forall c0 k0, incl (map fst (fst (c_del c0 k0))) (map fst c0)).
  { intros c0 k0 x Hx. apply in_map_iff in Hx. destruct Hx as (blk & <- & Hb).
    destruct (proj1 (c_del_frame c0 k0) blk Hb) as [Hin|(rs0 & Hin & _)]; [apply in_map, Hin|apply (in_map fst) in Hin; exact Hin]. }
  split; [apply Hadd|]. split; [apply Hdel|].
  unfold c_update. destruct (find_len (r_key r) (recs c)) as [ol|]; [|cbn [fst]; intros x Hx; apply in_or_app; left; exact Hx].
  destruct (r_len r <=? ol).
  - cbn [fst]. intros x Hx. apply in_map_iff in Hx. destruct Hx as (blk & <- & Hb). apply in_or_app. left.
    destruct (c_replace_frame c (r_key r) r blk Hb) as [Hin|(rs0 & Hin & _)]; [apply in_map, Hin|apply (in_map fst) in Hin; exact Hin].
  - intros x Hx. apply Hadd. apply (Hdel _ _ x Hx).
Qed.

(* C12 / C13: facts about `run` that hold for ANY program, hence for every history of API calls
   expressed in the monad, whatever the device does. *)
From Coq Require Import ZArith List Bool Lia.
From ADF Require Import CPrelude Generated.Leaf Base.Prog.
Import ListNotations.
Local Open Scope Z_scope.

(* ---- the funnel guards (generated) ---- *)

Definition vol_ok (v : volinfo) : Prop := 0 <= v_first v <= v_last v /\ v_last v < 2 ^ 31.

Lemma u32_small x : 0 <= x < 2 ^ 32 -> cast_u32 x = x.
Proof. apply cast_u32_id. Qed.

(* exact characterisation of the read guard: passed to the device iff mounted and
   first <= nSect + first <= last without 32-bit wrap-around; the device then sees nSect+first *)
Theorem read_guard_spec : forall n first last mounted,
  0 <= first <= last -> last < 2 ^ 31 -> 0 <= n < 2 ^ 32 ->
  g_adfReadBlock n first last mounted =
    if mounted =? 0 then GRet (-1)
    else if n + first <=? last then GDev (n + first) 512 else GRet 1.
Proof.
  intros n first last mounted Hf Hl Hn. unfold g_adfReadBlock. cbv zeta.
  destruct (mounted =? 0); cbn [negb]; [reflexivity|].
  rewrite (u32_small first) by lia. rewrite (u32_small last) by lia.
  destruct (Z.leb_spec (n + first) last) as [Hle|Hgt].
  - rewrite (u32_small (n + first)) by lia.
    destruct (Z.ltb_spec (n + first) first); [lia|]. destruct (Z.gtb_spec (n + first) last); [lia|]. reflexivity.
  - destruct (Z_lt_dec (n + first) (2 ^ 32)) as [Hs|Hb].
    + rewrite (u32_small (n + first)) by lia.
      destruct (Z.ltb_spec (n + first) first); [reflexivity|]. destruct (Z.gtb_spec (n + first) last); [reflexivity|lia].
    + assert (Ew : cast_u32 (n + first) = n + first - 2 ^ 32).
      { unfold cast_u32, cast_u. symmetry. apply (Z.mod_unique _ _ 1); lia. }
      rewrite Ew. destruct (Z.ltb_spec (n + first - 2 ^ 32) first); [reflexivity|lia].
Qed.

Theorem write_guard_spec : forall n first last mounted ro,
  0 <= first <= last -> last < 2 ^ 31 -> 0 <= n < 2 ^ 32 ->
  g_adfWriteBlock n first last mounted ro =
    if mounted =? 0 then GRet (-1)
    else if negb (ro =? 0) then GRet (-1)
    else if n + first <=? last then GDev (n + first) 512 else GRet 1.
Proof.
  intros n first last mounted ro Hf Hl Hn. unfold g_adfWriteBlock. cbv zeta.
  destruct (mounted =? 0); cbn [negb]; [reflexivity|].
  destruct (ro =? 0); cbn [negb]; [|reflexivity].
  rewrite (u32_small first) by lia. rewrite (u32_small last) by lia.
  destruct (Z.leb_spec (n + first) last) as [Hle|Hgt].
  - rewrite (u32_small (n + first)) by lia.
    destruct (Z.ltb_spec (n + first) first); [lia|]. destruct (Z.gtb_spec (n + first) last); [lia|]. reflexivity.
  - destruct (Z_lt_dec (n + first) (2 ^ 32)) as [Hs|Hb].
    + rewrite (u32_small (n + first)) by lia.
      destruct (Z.ltb_spec (n + first) first); [reflexivity|]. destruct (Z.gtb_spec (n + first) last); [reflexivity|lia].
    + assert (Ew : cast_u32 (n + first) = n + first - 2 ^ 32).
      { unfold cast_u32, cast_u. symmetry. apply (Z.mod_unique _ _ 1); lia. }
      rewrite Ew. destruct (Z.ltb_spec (n + first - 2 ^ 32) first); [reflexivity|lia].
Qed.

(* containment for ANY argument value (not only uint32): whatever passes the guard lies in the range *)
Lemma read_guard_in_range n first last mounted ps sz :
  0 <= first <= last -> last < 2 ^ 31 ->
  g_adfReadBlock n first last mounted = GDev ps sz -> first <= ps <= last /\ sz = 512.
Proof.
  intros Hf Hl. unfold g_adfReadBlock. cbv zeta.
  destruct (negb (negb (mounted =? 0))); [discriminate|].
  rewrite (u32_small first) by lia. rewrite (u32_small last) by lia.
  set (p := cast_u32 (n + first)).
  destruct (Z.ltb_spec p first); cbn [orb]; [discriminate|].
  destruct (Z.gtb_spec p last); [discriminate|].
  intros E. injection E as <- <-. lia.
Qed.

Lemma write_guard_in_range n first last mounted ro ps sz :
  0 <= first <= last -> last < 2 ^ 31 ->
  g_adfWriteBlock n first last mounted ro = GDev ps sz -> first <= ps <= last /\ sz = 512 /\ ro = 0.
Proof.
  intros Hf Hl. unfold g_adfWriteBlock. cbv zeta.
  destruct (negb (negb (mounted =? 0))); [discriminate|].
  destruct (Z.eqb_spec ro 0) as [Hro|Hro]; cbn [negb]; [|discriminate].
  rewrite (u32_small first) by lia. rewrite (u32_small last) by lia.
  set (p := cast_u32 (n + first)).
  destruct (Z.ltb_spec p first); cbn [orb]; [discriminate|].
  destruct (Z.gtb_spec p last); [discriminate|].
  intros E. injection E as <- <-. lia.
Qed.

Lemma hd_guard_ro kd dev_ro n ps sz : hd_guard kd dev_ro n = GDev ps sz -> dev_ro = 0.
Proof.
  destruct kd; unfold hd_guard, g_adfWriteRDSKblock, g_adfWritePARTblock, g_adfWriteFSHDblock, g_adfWriteLSEGblock;
    destruct (Z.eqb_spec dev_ro 0); cbn [negb]; try discriminate; auto.
Qed.

(* ---- C13: every access made through the volume funnel lies inside the volume ---- *)
Section AnyProgram.
  Context {D : Type} (E : env D) (v : volinfo) (dev_ro : Z).
  Hypothesis Hv : vol_ok v.

  Theorem containment_any_program : forall {A} (p : prog A) (d : D),
    vol_only p ->
    Forall (fun e => v_first v <= ev_sector e <= v_last v) (snd (run E v dev_ro p d)).
  Proof.
    destruct Hv as [Hf Hl].
    induction p as [a|e|n k IH|n b k IH|kd n b k IH|n sz k IH|c k IH|k IH]; intros d Hvo; cbn [run vol_only] in *.
    - constructor.
    - constructor.
    - destruct (g_adfReadBlock n (v_first v) (v_last v) (v_mounted v)) as [rc|ps sz] eqn:G.
      + apply IH. apply Hvo.
      + destruct (dev_read E d ps sz) as [[rc data] d1].
        specialize (IH (rc, data) d1 (Hvo _)).
        destruct (run E v dev_ro (k (rc, data)) d1) as [[r d2] tr]. cbn [snd] in *.
        constructor; [|exact IH].
        cbn [ev_sector]. apply (read_guard_in_range _ _ _ _ _ _ Hf Hl) in G. lia.
    - destruct (g_adfWriteBlock n (v_first v) (v_last v) (v_mounted v) (v_readOnly v)) as [rc|ps sz] eqn:G.
      + apply IH. apply Hvo.
      + destruct (dev_write E d ps sz b) as [rc d1].
        specialize (IH rc d1 (Hvo _)).
        destruct (run E v dev_ro (k rc) d1) as [[r d2] tr]. cbn [snd] in *.
        constructor; [|exact IH].
        cbn [ev_sector]. apply (write_guard_in_range _ _ _ _ _ _ _ Hf Hl) in G. lia.
    - contradiction.
    - contradiction.
    - destruct (alloc_ans E d c) as [ans d1]. apply IH. apply Hvo.
    - destruct (clock_ans E d) as [t d1]. apply IH. apply Hvo.
  Qed.

  (* ---- C12: nothing is written when the volume and the device are read-only ---- *)
  Theorem readonly_no_write_any_program : forall {A} (p : prog A) (d : D),
    v_readOnly v <> 0 -> dev_ro <> 0 ->
    Forall (fun e => is_write e = false) (snd (run E v dev_ro p d)).
  Proof.
    destruct Hv as [Hf Hl].
    induction p as [a|e|n k IH|n b k IH|kd n b k IH|n sz k IH|c k IH|k IH]; intros d Hro Hdro; cbn [run] in *.
    - constructor.
    - constructor.
    - destruct (g_adfReadBlock n (v_first v) (v_last v) (v_mounted v)) as [rc|ps sz] eqn:G.
      + apply IH; assumption.
      + destruct (dev_read E d ps sz) as [[rc data] d1].
        specialize (IH (rc, data) d1 Hro Hdro).
        destruct (run E v dev_ro (k (rc, data)) d1) as [[r d2] tr]. cbn [snd] in *.
        constructor; [reflexivity|exact IH].
    - destruct (g_adfWriteBlock n (v_first v) (v_last v) (v_mounted v) (v_readOnly v)) as [rc|ps sz] eqn:G.
      + apply IH; assumption.
      + exfalso. apply (write_guard_in_range _ _ _ _ _ _ _ Hf Hl) in G. lia.
    - destruct (hd_guard kd dev_ro n) as [rc|ps sz] eqn:G.
      + apply IH; assumption.
      + exfalso. apply hd_guard_ro in G. contradiction.
    - destruct (dev_read E d n sz) as [[rc data] d1].
      specialize (IH (rc, data) d1 Hro Hdro).
      destruct (run E v dev_ro (k (rc, data)) d1) as [[r d2] tr]. cbn [snd] in *.
      constructor; [reflexivity|exact IH].
    - destruct (alloc_ans E d c) as [ans d1]. apply IH; assumption.
    - destruct (clock_ans E d) as [t d1]. apply IH; assumption.
  Qed.

  (* volume mounted read-only on a writable device: no write through the volume funnel *)
  Theorem mount_readonly_no_write : forall {A} (p : prog A) (d : D),
    v_readOnly v <> 0 -> vol_only p ->
    Forall (fun e => is_write e = false) (snd (run E v dev_ro p d)).
  Proof.
    destruct Hv as [Hf Hl].
    induction p as [a|e|n k IH|n b k IH|kd n b k IH|n sz k IH|c k IH|k IH]; intros d Hro Hvo; cbn [run vol_only] in *.
    - constructor.
    - constructor.
    - destruct (g_adfReadBlock n (v_first v) (v_last v) (v_mounted v)) as [rc|ps sz] eqn:G.
      + apply IH; [assumption|apply Hvo].
      + destruct (dev_read E d ps sz) as [[rc data] d1].
        specialize (IH (rc, data) d1 Hro (Hvo _)).
        destruct (run E v dev_ro (k (rc, data)) d1) as [[r d2] tr]. cbn [snd] in *.
        constructor; [reflexivity|exact IH].
    - destruct (g_adfWriteBlock n (v_first v) (v_last v) (v_mounted v) (v_readOnly v)) as [rc|ps sz] eqn:G.
      + apply IH; [assumption|apply Hvo].
      + exfalso. apply (write_guard_in_range _ _ _ _ _ _ _ Hf Hl) in G. lia.
    - contradiction.
    - contradiction.
    - destruct (alloc_ans E d c) as [ans d1]. apply IH; [assumption|apply Hvo].
    - destruct (clock_ans E d) as [t d1]. apply IH; [assumption|apply Hvo].
  Qed.
End AnyProgram.

(* adfMount: a read-only device forces a read-only volume, otherwise the caller's flag is kept *)
Theorem mount_forces_readonly : forall dev_ro ro old,
  (dev_ro <> 0 -> s_adfMount_readOnly dev_ro ro old <> 0) /\
  (dev_ro = 0 -> s_adfMount_readOnly dev_ro ro old = ro).
Proof.
  intros dev_ro ro old. unfold s_adfMount_readOnly. cbv zeta.
  destruct (Z.eqb_spec dev_ro 0) as [H0|H0]; cbn [negb]; split; intros H; try contradiction; try lia; reflexivity.
Qed.

(* ---- partitions: block ranges computed at creation and at mount ---- *)
Lemma s32_small x : 0 <= x < 2 ^ 31 -> cast_s32 x = x.
Proof. intros H. apply cast_s32_id. lia. Qed.

Lemma create_range_value h s len start :
  0 < h -> 0 < s -> 0 <= start -> 0 < len -> h * s * (start + len) < 2 ^ 31 ->
  s_adfCreateVol_range h s len start =
    (h * s * start, h * s * (start + len) - 1, Z.quot (h * s * len) 2).
Proof.
  intros Hh Hs Hst Hlen Hb. unfold s_adfCreateVol_range. cbv zeta.
  assert (Hhs : 0 < h * s) by nia.
  assert (h * s <= h * s * (start + len)) by nia.
  assert (0 <= h * s * start <= h * s * (start + len)) by nia.
  assert (0 <= h * s * len <= h * s * (start + len)) by nia.
  rewrite (u32_small (h * s)) by lia.
  rewrite (u32_small (h * s * start)) by lia. rewrite (u32_small (h * s * len)) by lia.
  rewrite (s32_small (h * s * start)) by lia. rewrite (s32_small (h * s * len)) by lia.
  f_equal; [f_equal|]; [lia|f_equal; lia].
Qed.

Lemma mount_range_value cb low high :
  0 < cb < 2 ^ 31 ->
  s_adfMountHd_range high low cb = (cb * low, (high + 1) * cb - 1, Z.quot ((high + 1) * cb - 1 - cb * low + 1) 2).
Proof.
  intros Hcb. unfold s_adfMountHd_range. cbv zeta. rewrite (s32_small cb) by lia. reflexivity.
Qed.

Theorem create_mount_agree h s len start :
  0 < h -> 0 < s -> 0 <= start -> 0 < len -> h * s * (start + len) < 2 ^ 31 ->
  s_adfMountHd_range (start + len - 1) start (h * s) = s_adfCreateVol_range h s len start.
Proof.
  intros Hh Hs Hst Hlen Hb. rewrite create_range_value by assumption.
  assert (Hhs : 0 < h * s) by nia. assert (h * s <= h * s * (start + len)) by nia.
  rewrite mount_range_value by lia.
  replace (start + len - 1 + 1) with (start + len) by lia.
  f_equal; [f_equal; ring|f_equal; ring].
Qed.

Theorem partitions_disjoint h s start1 len1 start2 len2 :
  0 < h -> 0 < s -> 2 <= start1 -> 0 < len1 -> start1 + len1 <= start2 -> 0 < len2 ->
  h * s * (start2 + len2) < 2 ^ 31 ->
  let '(f1, l1, _) := s_adfCreateVol_range h s len1 start1 in
  let '(f2, l2, _) := s_adfCreateVol_range h s len2 start2 in
  2 * (h * s) <= f1 /\ f1 <= l1 /\ l1 < f2 /\ f2 <= l2 /\ l2 < 2 ^ 31.
Proof.
  intros Hh Hs Hst1 Hl1 Hord Hl2 Hb.
  assert (Hhs : 0 < h * s) by nia.
  rewrite (create_range_value h s len1 start1) by (try lia; nia).
  rewrite (create_range_value h s len2 start2) by (try lia; nia).
  repeat split; nia.
Qed.

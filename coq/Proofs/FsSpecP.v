(* Facts about the reference model Spec/FsSpec.v. *)
From Coq Require Import ZArith List Bool.
From ADF Require Import CPrelude Spec.Names Spec.FsSpec.
Import ListNotations.

Ltac break_match :=
  match goal with
  | |- context [match ?x with _ => _ end] => destruct x eqn:?
  | |- context [if ?x then _ else _] => destruct x eqn:?
  end.

Theorem step_fail_identity : forall intl root hs o root' hs',
  step intl root hs o = (root', hs', RErr) -> root' = root /\ hs' = hs.
Proof.
  intros intl root hs o root' hs'.
  destruct o; cbn [step]; repeat break_match; intros H; inversion H; subst; auto.
Qed.

Theorem step_queries_pure : forall intl root hs o root' hs' r,
  (match o with OLookup _ _ | OList _ | OStat _ => True | _ => False end) ->
  step intl root hs o = (root', hs', r) -> root' = root /\ hs' = hs.
Proof.
  intros intl root hs o root' hs' r Hq.
  destruct o; try contradiction; cbn [step]; repeat break_match; intros H; inversion H; subst; auto.
Qed.

(* C04 / C05: bit algebra of the allocation bitmap over the regenerated index and mask expressions. *)
From Coq Require Import ZArith List Bool Lia.
From ADF Require Import CPrelude Generated.Layout Generated.Leaf Model.Bitmap.
Import ListNotations.
Local Open Scope Z_scope.

Lemma bitmask_table_b : forallb (fun k => nthZ bitMask k =? 2 ^ k) (map Z.of_nat (seq 0 32)) = true.
Proof. vm_compute. reflexivity. Qed.

Lemma bitmask_pow2 k : 0 <= k < 32 -> nthZ bitMask k = 2 ^ k.
Proof.
  intros H. pose proof bitmask_table_b as T. rewrite forallb_forall in T.
  apply Z.eqb_eq. apply T. apply in_map_iff. exists (Z.to_nat k). split; [lia|apply in_seq; lia].
Qed.

(* ---- indices ---- *)
Lemma idx_spec n : 2 <= n ->
  s_adfIsBlockFree_idx n = (n - 2, (n - 2) / 4064, ((n - 2) / 32) mod 127) /\
  s_adfSetBlockFree_idx n = (n - 2, (n - 2) / 4064, ((n - 2) / 32) mod 127) /\
  s_adfSetBlockUsed_idx n = (n - 2, (n - 2) / 4064, ((n - 2) / 32) mod 127).
Proof.
  intros H. unfold s_adfIsBlockFree_idx, s_adfSetBlockFree_idx, s_adfSetBlockUsed_idx. cbv zeta.
  change (127 * 32) with 4064.
  rewrite !Z.quot_div_nonneg by lia.
  assert (0 <= (n - 2) / 32) by (apply Z.div_pos; lia).
  rewrite !Z.rem_mod_nonneg by lia. auto.
Qed.

(* index bounds: every block of the volume addresses an existing page and word *)
Theorem idx_in_bounds n last_rel : 2 <= n <= last_rel ->
  0 <= (n - 2) / 4064 < (last_rel - 1 + 4063) / 4064 /\ 0 <= ((n - 2) / 32) mod 127 < 127 /\ 0 <= (n - 2) mod 32 < 32.
Proof.
  intros H. split; [|split].
  - split; [apply Z.div_pos; lia|].
    apply Z.div_lt_upper_bound; [lia|].
    pose proof (Z.div_mod (last_rel - 1 + 4063) 4064 ltac:(lia)). pose proof (Z.mod_pos_bound (last_rel - 1 + 4063) 4064 ltac:(lia)). lia.
  - apply Z.mod_pos_bound. lia.
  - apply Z.mod_pos_bound. lia.
Qed.

(* distinct blocks use distinct (page, word, bit) positions *)
Theorem idx_injective n m : 2 <= n -> 2 <= m ->
  (n - 2) / 4064 = (m - 2) / 4064 -> ((n - 2) / 32) mod 127 = ((m - 2) / 32) mod 127 -> (n - 2) mod 32 = (m - 2) mod 32 -> n = m.
Proof.
  intros Hn Hm E1 E2 E3.
  assert (D : forall i, 0 <= i -> i = (i / 4064) * 4064 + ((i / 32) mod 127) * 32 + i mod 32).
  { intros i Hi.
    pose proof (Z.div_mod i 32 ltac:(lia)). pose proof (Z.div_mod (i / 32) 127 ltac:(lia)).
    assert (i / 32 / 127 = i / 4064) by (rewrite Zdiv.Zdiv_Zdiv by lia; reflexivity). lia. }
  pose proof (D (n - 2) ltac:(lia)). pose proof (D (m - 2) ltac:(lia)). lia.
Qed.

(* ---- masks ---- *)
Lemma land_pow2_zero x k : 0 <= k -> (Z.land x (2 ^ k) =? 0) = negb (Z.testbit x k).
Proof.
  intros Hk. destruct (Z.testbit x k) eqn:T; cbn [negb].
  - apply Z.eqb_neq. intros E.
    assert (Z.testbit (Z.land x (2 ^ k)) k = true).
    { rewrite Z.land_spec, T, Z.pow2_bits_true by lia. reflexivity. }
    rewrite E, Z.bits_0 in H. discriminate.
  - apply Z.eqb_eq. apply Z.bits_inj'. intros j Hj.
    rewrite Z.land_spec, Z.bits_0. destruct (Z.eq_dec j k) as [->|Hne].
    + rewrite T. reflexivity.
    + rewrite Z.pow2_bits_false by lia. apply andb_false_r.
Qed.

Lemma testbit_lor_pow2 x k j : 0 <= k -> 0 <= j -> Z.testbit (Z.lor x (2 ^ k)) j = Z.testbit x j || (j =? k).
Proof.
  intros Hk Hj. rewrite Z.lor_spec. f_equal.
  destruct (Z.eqb_spec j k) as [->|Hne]; [apply Z.pow2_bits_true; lia|apply Z.pow2_bits_false; lia].
Qed.

Lemma testbit_clear_pow2 x k j : 0 <= k < 32 -> 0 <= j < 32 ->
  Z.testbit (Z.land x (cast_u32 (Z.lnot (2 ^ k)))) j = Z.testbit x j && negb (j =? k).
Proof.
  intros Hk Hj. rewrite Z.land_spec. f_equal.
  unfold cast_u32, cast_u. rewrite Z.mod_pow2_bits_low by lia.
  rewrite Z.lnot_spec by lia. f_equal.
  destruct (Z.eqb_spec j k) as [->|Hne]; [apply Z.pow2_bits_true; lia|apply Z.pow2_bits_false; lia].
Qed.

(* ---- the three operations against the layout specification ---- *)
Theorem is_free_spec b n : 2 <= n -> is_free b n = spec_free b n.
Proof.
  intros H. unfold is_free, spec_free. destruct (idx_spec n H) as (-> & _ & _).
  unfold s_adfIsBlockFree_val. cbv zeta.
  rewrite Z.rem_mod_nonneg by lia.
  rewrite bitmask_pow2 by (apply Z.mod_pos_bound; lia).
  set (w := b _ _). set (k := (n - 2) mod 32).
  assert (0 <= k < 32) by (apply Z.mod_pos_bound; lia).
  rewrite land_pow2_zero by lia. destruct (Z.testbit w k); reflexivity.
Qed.

Theorem set_free_spec b n m : 2 <= n -> 2 <= m ->
  spec_free (set_free b n) m = if m =? n then true else spec_free b m.
Proof.
  intros Hn Hm. unfold set_free, spec_free. destruct (idx_spec n Hn) as (_ & -> & _).
  unfold s_adfSetBlockFree_val, upd. cbv zeta.
  rewrite Z.rem_mod_nonneg by lia.
  assert (Hk : 0 <= (n - 2) mod 32 < 32) by (apply Z.mod_pos_bound; lia).
  assert (Hj : 0 <= (m - 2) mod 32 < 32) by (apply Z.mod_pos_bound; lia).
  rewrite bitmask_pow2 by exact Hk.
  destruct (Z.eqb_spec m n) as [->|Hne].
  - rewrite !Z.eqb_refl. cbn [andb]. rewrite testbit_lor_pow2 by lia. rewrite Z.eqb_refl. apply orb_true_r.
  - destruct (Z.eqb_spec ((m - 2) / 4064) ((n - 2) / 4064)) as [E1|E1]; cbn [andb]; [|reflexivity].
    destruct (Z.eqb_spec (((m - 2) / 32) mod 127) (((n - 2) / 32) mod 127)) as [E2|E2]; [|reflexivity].
    rewrite testbit_lor_pow2 by lia.
    destruct (Z.eqb_spec ((m - 2) mod 32) ((n - 2) mod 32)) as [E3|E3].
    + exfalso. apply Hne. apply idx_injective; assumption.
    + rewrite orb_false_r. rewrite <- E1, <- E2. reflexivity.
Qed.

Theorem set_used_spec b n m : 2 <= n -> 2 <= m ->
  spec_free (set_used b n) m = if m =? n then false else spec_free b m.
Proof.
  intros Hn Hm. unfold set_used, spec_free. destruct (idx_spec n Hn) as (_ & _ & ->).
  unfold s_adfSetBlockUsed_val, upd. cbv zeta.
  rewrite Z.rem_mod_nonneg by lia.
  assert (Hk : 0 <= (n - 2) mod 32 < 32) by (apply Z.mod_pos_bound; lia).
  assert (Hj : 0 <= (m - 2) mod 32 < 32) by (apply Z.mod_pos_bound; lia).
  rewrite bitmask_pow2 by exact Hk.
  destruct (Z.eqb_spec m n) as [->|Hne].
  - rewrite !Z.eqb_refl. cbn [andb]. rewrite testbit_clear_pow2 by lia. rewrite Z.eqb_refl. apply andb_false_r.
  - destruct (Z.eqb_spec ((m - 2) / 4064) ((n - 2) / 4064)) as [E1|E1]; cbn [andb]; [|reflexivity].
    destruct (Z.eqb_spec (((m - 2) / 32) mod 127) (((n - 2) / 32) mod 127)) as [E2|E2]; [|reflexivity].
    rewrite testbit_clear_pow2 by lia.
    destruct (Z.eqb_spec ((m - 2) mod 32) ((n - 2) mod 32)) as [E3|E3].
    + exfalso. apply Hne. apply idx_injective; assumption.
    + cbn [negb]. rewrite andb_true_r. rewrite <- E1, <- E2. reflexivity.
Qed.

Corollary is_free_set_used b n m : 2 <= n -> 2 <= m -> is_free (set_used b n) m = if m =? n then false else is_free b m.
Proof. intros Hn Hm. rewrite !is_free_spec by lia. apply set_used_spec; assumption. Qed.

Corollary is_free_set_free b n m : 2 <= n -> 2 <= m -> is_free (set_free b n) m = if m =? n then true else is_free b m.
Proof. intros Hn Hm. rewrite !is_free_spec by lia. apply set_free_spec; assumption. Qed.

(* ---- the allocator's circular scan ---- *)
Fixpoint zseq (start : Z) (len : nat) : list Z :=
  match len with O => [] | S n => start :: zseq (start + 1) n end.

(* visiting order: root .. last, then 2 .. root-1 *)
Definition order (root last : Z) : list Z :=
  zseq root (Z.to_nat (last - root + 1)) ++ zseq 2 (Z.to_nat (root - 2)).

Fixpoint take_free (b : bm) (l : list Z) (want : nat) (acc : list Z) : option (list Z) :=
  match want with
  | O => Some (rev acc)
  | S w => match l with
           | [] => None
           | x :: r => if is_free b x then take_free b r w (x :: acc) else take_free b r want acc
           end
  end.

Lemma scan_tail b root last : 2 < root <= last ->
  forall (len : nat) fuel block want acc, block + Z.of_nat len = root -> 2 <= block -> (1 <= len)%nat -> (len <= fuel)%nat ->
  scan fuel b root last want block acc = take_free b (zseq block len) want acc.
Proof.
  intros Hr. induction len as [|len IH]; intros fuel block want acc Hsum Hb Hlen Hf; [lia|].
  destruct want as [|w]; [destruct fuel; reflexivity|].
  destruct fuel as [|f]; [lia|]. cbn [scan zseq take_free].
  destruct (Z.eqb_spec block last) as [E|_]; [lia|].
  destruct (Z.eqb_spec (block + 1) root) as [E|NE].
  - assert (len = 0)%nat by lia. subst len. cbn [zseq].
    destruct (is_free b block); cbn [Nat.pred].
    + destruct w; reflexivity.
    + reflexivity.
  - assert (1 <= len)%nat by lia.
    destruct (is_free b block); cbn [Nat.pred]; apply IH; lia.
Qed.

Lemma scan_head b root last : 2 < root <= last ->
  forall (len : nat) fuel block want acc, block + Z.of_nat len = last + 1 -> root <= block -> (1 <= len)%nat ->
  (len + Z.to_nat (root - 2) <= fuel)%nat ->
  scan fuel b root last want block acc = take_free b (zseq block len ++ zseq 2 (Z.to_nat (root - 2))) want acc.
Proof.
  intros Hr. induction len as [|len IH]; intros fuel block want acc Hsum Hb Hlen Hf; [lia|].
  destruct want as [|w]; [destruct fuel; reflexivity|].
  destruct fuel as [|f]; [lia|]. cbn [scan zseq take_free app].
  destruct (Z.eqb_spec block last) as [E|NE].
  - assert (len = 0)%nat by lia. subst len. cbn [zseq app].
    assert (Ht : forall want' acc', scan f b root last want' 2 acc' = take_free b (zseq 2 (Z.to_nat (root - 2))) want' acc').
    { intros. apply (scan_tail b root last Hr); lia. }
    destruct (is_free b block); cbn [Nat.pred]; apply Ht.
  - destruct (Z.eqb_spec (block + 1) root) as [E|_]; [lia|].
    assert (1 <= len)%nat by lia.
    destruct (is_free b block); cbn [Nat.pred]; apply IH; lia.
Qed.

Theorem scan_is_take_free b root last want : 2 < root <= last ->
  scan (Z.to_nat last + 2) b root last want root [] = take_free b (order root last) want [].
Proof.
  intros Hr. unfold order. apply (scan_head b root last Hr); lia.
Qed.

Lemma in_zseq x start len : In x (zseq start len) <-> start <= x < start + Z.of_nat len.
Proof.
  revert start. induction len as [|len IH]; intros start; cbn [zseq In].
  - lia.
  - rewrite IH. lia.
Qed.

Lemma nodup_zseq start len : NoDup (zseq start len).
Proof.
  revert start. induction len as [|len IH]; intros start; cbn [zseq]; constructor.
  - rewrite in_zseq. lia.
  - apply IH.
Qed.

Lemma in_order x root last : 2 < root <= last -> (In x (order root last) <-> 2 <= x <= last).
Proof. intros H. unfold order. rewrite in_app_iff, !in_zseq. lia. Qed.

Lemma nodup_app {A} (l1 l2 : list A) : NoDup l1 -> NoDup l2 -> (forall x, In x l1 -> ~ In x l2) -> NoDup (l1 ++ l2).
Proof.
  induction l1 as [|a l1 IH]; intros H1 H2 Hd; cbn [app]; [exact H2|].
  inversion H1; subst. constructor.
  - rewrite in_app_iff. intros [Hin|Hin]; [contradiction|]. apply (Hd a); [left; reflexivity|exact Hin].
  - apply IH; [assumption|assumption|]. intros x Hx. apply Hd. right. exact Hx.
Qed.

Lemma nodup_order root last : 2 < root <= last -> NoDup (order root last).
Proof.
  intros H. unfold order. apply nodup_app; [apply nodup_zseq|apply nodup_zseq|].
  intros x. rewrite !in_zseq. lia.
Qed.

(* what take_free returns: the first `want` free elements of the list, in order *)
Lemma take_free_sound b : forall l want acc r,
  take_free b l want acc = Some r ->
  exists picked, r = rev acc ++ picked /\ length picked = want /\
                 (forall x, In x picked -> In x l /\ is_free b x = true) /\ (NoDup l -> NoDup picked).
Proof.
  induction l as [|x l IH]; intros want acc r H.
  - destruct want; cbn [take_free] in H; [|discriminate]. injection H as <-.
    exists []. rewrite app_nil_r. split; [reflexivity|]. split; [reflexivity|]. split; [intros ? []|intros _; constructor].
  - destruct want as [|w]; cbn [take_free] in H.
    + injection H as <-. exists []. rewrite app_nil_r. split; [reflexivity|]. split; [reflexivity|]. split; [intros ? []|intros _; constructor].
    + destruct (is_free b x) eqn:F.
      * destruct (IH w (x :: acc) r H) as (p & -> & Hl & Hin & Hnd).
        exists (x :: p). cbn [rev]. rewrite <- app_assoc. cbn [app length].
        split; [reflexivity|]. split; [lia|]. split.
        -- intros y [<-|Hy]; [split; [left; reflexivity|exact F]|]. destruct (Hin y Hy). split; [right; assumption|assumption].
        -- intros N. inversion N; subst. constructor; [|apply Hnd; assumption].
           intros C. destruct (Hin x C). contradiction.
      * destruct (IH (S w) acc r H) as (p & -> & Hl & Hin & Hnd).
        exists p. split; [reflexivity|]. split; [exact Hl|]. split.
        -- intros y Hy. destruct (Hin y Hy). split; [right; assumption|assumption].
        -- intros N. inversion N; subst. apply Hnd. assumption.
Qed.

Definition nfree (b : bm) (l : list Z) : nat := length (filter (is_free b) l).

Lemma take_free_complete b : forall l want acc, take_free b l want acc = None -> (nfree b l < want)%nat.
Proof.
  induction l as [|x l IH]; intros want acc H.
  - destruct want; cbn [take_free] in H; [discriminate|]. unfold nfree. simpl. lia.
  - destruct want as [|w]; cbn [take_free] in H; [discriminate|].
    unfold nfree. cbn [filter]. destruct (is_free b x) eqn:F.
    + apply IH in H. unfold nfree in H. cbn [length]. lia.
    + apply IH in H. unfold nfree in H. lia.
Qed.

(* C04: what adfGetFreeBlocks hands out *)
Theorem alloc_sound b root last want l : 2 < root <= last ->
  scan (Z.to_nat last + 2) b root last want root [] = Some l ->
  length l = want /\ NoDup l /\ forall x, In x l -> 2 <= x <= last /\ is_free b x = true.
Proof.
  intros Hr H. rewrite scan_is_take_free in H by exact Hr.
  destruct (take_free_sound b _ _ _ _ H) as (p & -> & Hl & Hin & Hnd). cbn [rev app].
  split; [exact Hl|]. split; [apply Hnd; apply nodup_order; exact Hr|].
  intros x Hx. destruct (Hin x Hx) as [Ho Hf]. rewrite in_order in Ho by exact Hr. auto.
Qed.

(* it fails only when fewer than `want` blocks of [2,last] are free *)
Theorem alloc_complete b root last want : 2 < root <= last ->
  scan (Z.to_nat last + 2) b root last want root [] = None ->
  (nfree b (order root last) < want)%nat.
Proof. intros Hr H. rewrite scan_is_take_free in H by exact Hr. apply take_free_complete in H. exact H. Qed.

Lemma fold_set_used b l : (forall x, In x l -> 2 <= x) -> forall m, 2 <= m ->
  is_free (fold_left set_used l b) m = if existsb (Z.eqb m) l then false else is_free b m.
Proof.
  revert b. induction l as [|x l IH]; intros b Hl m Hm; cbn [fold_left existsb]; [reflexivity|].
  rewrite IH by (try assumption; intros y Hy; apply Hl; right; exact Hy).
  rewrite is_free_set_used by (try assumption; apply Hl; left; reflexivity).
  destruct (Z.eqb_spec m x); cbn [orb]; [destruct (existsb _ l); reflexivity|reflexivity].
Qed.

(* exactly the returned blocks become used; on failure the bitmap is untouched (get_free_blocks returns None) *)
Theorem alloc_marks b root last want l b' : 2 < root <= last ->
  get_free_blocks b root last want = Some (l, b') ->
  forall m, 2 <= m -> is_free b' m = if existsb (Z.eqb m) l then false else is_free b m.
Proof.
  intros Hr H m Hm. unfold get_free_blocks in H.
  destruct (scan _ b root last want root []) as [l0|] eqn:S; [|discriminate]. injection H as <- <-.
  apply fold_set_used; [|exact Hm].
  intros x Hx. destruct (alloc_sound b root last want l0 Hr S) as (_ & _ & Hin). apply Hin in Hx. lia.
Qed.

(* C05: adfCountFreeBlocks counts exactly the free bits of blocks 2 .. last *)
Lemma count_free_from_spec b : forall cnt j, count_free_from b j cnt = Z.of_nat (nfree b (zseq j cnt)).
Proof.
  induction cnt as [|cnt IH]; intros j; cbn [count_free_from zseq]; [reflexivity|].
  rewrite IH. unfold nfree. cbn [filter]. destruct (is_free b j); cbn [length]; lia.
Qed.

Theorem count_free_spec b last : count_free b last = Z.of_nat (nfree b (zseq 2 (Z.to_nat (last - 1)))).
Proof. apply count_free_from_spec. Qed.

Lemma nfree_set_used_other b n l : 2 <= n -> (forall x, In x l -> 2 <= x) -> ~ In n l -> nfree (set_used b n) l = nfree b l.
Proof.
  intros Hn. induction l as [|x l IH]; intros Hl Hni; [reflexivity|].
  unfold nfree in *. cbn [filter].
  rewrite is_free_set_used by (try assumption; apply Hl; left; reflexivity).
  destruct (Z.eqb_spec x n) as [->|Hne]; [exfalso; apply Hni; left; reflexivity|].
  assert (E : length (filter (is_free (set_used b n)) l) = length (filter (is_free b) l)).
  { apply IH; [intros y Hy; apply Hl; right; exact Hy|intros C; apply Hni; right; exact C]. }
  destruct (is_free b x); cbn [length]; rewrite E; reflexivity.
Qed.

(* allocating one free block lowers the count by exactly one *)
Theorem count_after_set_used b n last : 2 <= n <= last -> is_free b n = true ->
  count_free (set_used b n) last = count_free b last - 1.
Proof.
  intros Hn Hf. rewrite !count_free_spec.
  set (len := Z.to_nat (last - 1)).
  assert (Hin : In n (zseq 2 len)) by (apply in_zseq; unfold len; lia).
  assert (Hnd : NoDup (zseq 2 len)) by apply nodup_zseq.
  assert (Hge : forall x, In x (zseq 2 len) -> 2 <= x) by (intros x Hx; apply in_zseq in Hx; lia).
  clearbody len. revert Hin Hnd Hge. generalize (zseq 2 len) as l.
  induction l as [|x l IH]; intros Hin Hnd Hge; [destruct Hin|].
  inversion Hnd as [|? ? Hnx Hnd']; subst.
  unfold nfree in *. cbn [filter].
  rewrite is_free_set_used by (try lia; apply Hge; left; reflexivity).
  destruct (Z.eqb_spec x n) as [->|Hne].
  - rewrite Hf. cbn [length].
    pose proof (nfree_set_used_other b n l ltac:(lia) (fun y Hy => Hge y (or_intror Hy)) Hnx) as E. unfold nfree in E. rewrite E. lia.
  - destruct Hin as [->|Hin]; [contradiction|].
    specialize (IH Hin Hnd' (fun y Hy => Hge y (or_intror Hy))).
    destruct (is_free b x); cbn [length]; lia.
Qed.

(* Seeks under device read faults, OFS fallback included (C19).  `bad` is an arbitrary set of unreadable blocks.  t is a coherent clean
   reference state (what the flush at the head of adfFileSeek leaves); `KB s` says: s has t's volume, header and flags, is clean, its
   extension buffer is one of the file's extension blocks (or empty) and its data buffer has the block length - the cursor fields may be
   anything.  Every loading function maps KB states to KB states whether it succeeds or fails (given the pointer it follows is one of
   the file's), a success is the fault-free run (monotonicity, Proofs/FileIOP.v), and the fallback walk started from a KB state ends
   coherent (seek_ofs_ok).  Result: a seek inside the file that reports success under any fault set leaves a coherent handle at the
   requested position; one that fails leaves a KB state, from which the next seek recovers. *)
From Coq Require Import ZArith List Bool Lia.
From ADF Require Import CPrelude Proofs.BytesP Model.FileIO Proofs.FileIOL Proofs.FileIOFr Proofs.FileIOP.
Import ListNotations.
Local Open Scope Z_scope.
Ltac Zify.zify_post_hook ::= Z.to_euclidean_division_equations.

Section Fault.
  Variable bs : Z.
  Variable ofs : bool.
  Variable key : Z.
  Hypothesis Hbs : 0 < bs.
  Variable bad : Z -> bool.
  Variables L E ct : list Z.
  Variable t : hstate.
  Hypothesis It : Inv bs ofs key t L E.
  Hypothesis Hct : chg t = false.
  Hypothesis Rt : Repr bs t L ct.

  Definition KB (s : hstate) : Prop :=
    dk s = dk t /\ fh s = fh t /\ chg s = false /\ mw s = mw t /\ mr s = mr t /\ cext_ok key s L E /\ len (d_bytes (cdata s)) = bs.

  Let Ct : CB bs ofs key t L E := inv_cb bs ofs key t L E It Hct.

  Lemma kb_cb s : KB s -> CB bs ofs key s L E.
  Proof.
    intros (Hdk & Hfh & Hc & _ & _ & Hcx & _). pose proof Ct as (Bt & HLt & _).
    split; [apply (cb_frame bs ofs key t s L E Ct Hdk Hc Hcx Hfh)|]. split; [unfold fsize; rewrite Hfh; exact HLt|exact Hc].
  Qed.

  Lemma kb_t : KB t.
  Proof.
    pose proof It as (B & _ & C). unfold KB. repeat split; try reflexivity; try assumption.
    - apply (b_cext _ _ _ _ _ _ B).
    - destruct C as [(_ & _ & _ & _ & _ & Hl)|(_ & _ & _ & _ & _ & Hl & _)]; exact Hl.
  Qed.

  Lemma kb_fsize s : KB s -> fsize s = fsize t.
  Proof. intros (_ & Hfh & _). unfold fsize. rewrite Hfh. reflexivity. Qed.

  (* cursor-field updates keep KB *)
  Lemma kb_fields s s' : KB s -> dk s' = dk s -> fh s' = fh s -> chg s' = chg s -> mw s' = mw s -> mr s' = mr s -> cext s' = cext s -> cdata s' = cdata s -> KB s'.
  Proof.
    intros (H1 & H2 & H3 & H4 & H5 & H6 & H7) E1 E2 E3 E4 E5 E6 E7. unfold KB, cext_ok in *. rewrite E1, E2, E3, E4, E5, E6, E7. repeat split; assumption.
  Qed.

  (* a data block of the file read from the volume *)
  Lemma kb_rd_data s k d : KB s -> 0 <= k < len L -> rd_data bs bad s (nthZ L k) = Some d -> len (d_bytes d) = bs /\ dk t (nthZ L k) = BData d.
  Proof.
    intros K Hk Hr. apply rd_data_mono in Hr. destruct (cb_data bs ofs key s L E k (kb_cb s K) Hk) as (d0 & Hd & Hl & _).
    unfold rd_data, nobad in Hr. destruct (nthZ L k <? 1); [discriminate|]. cbn [orb] in Hr. rewrite Hd in Hr. injection Hr as <-.
    destruct K as (Hdk & _). rewrite <- Hdk. split; assumption.
  Qed.

  Lemma kb_rd_ext s j x : KB s -> 0 <= j < len E -> rd_ext bad s (nthZ E j) = Some x -> x = enc_x key L E j.
  Proof.
    intros K Hj Hr. apply rd_ext_mono in Hr. unfold rd_ext, nobad in Hr. rewrite (cb_ext bs ofs key s L E j (kb_cb s K) Hj) in Hr. injection Hr as <-. reflexivity.
  Qed.

  Lemma kb_set_cext s j : KB s -> 0 <= j < len E -> KB (set_cext s (Some (enc_x key L E j))).
  Proof.
    intros (H1 & H2 & H3 & H4 & H5 & H6 & H7) Hj. unfold KB. cbn. repeat split; try assumption. unfold cext_ok. cbn. right. exists j. split; [exact Hj|reflexivity].
  Qed.

  Lemma kb_set_cdata s d : KB s -> len (d_bytes d) = bs -> KB (set_cdata s d).
  Proof. intros (H1 & H2 & H3 & H4 & H5 & H6 & H7) Hl. unfold KB, cext_ok in *. cbn. repeat split; assumption. Qed.

  (* ---- adfFileSeekStart_ ---- *)
  Lemma seek_start_kb s : KB s -> KB (snd (seek_start bs ofs bad s)).
  Proof.
    intros K. unfold seek_start. set (s0 := set_cur _ 0).
    assert (K0 : KB s0) by (apply (kb_fields s); try reflexivity; exact K).
    destruct (Z.eqb_spec (fsize s0) 0) as [Hz|Hz]; [exact K0|].
    assert (HL0 : 0 < len L) by (apply (len_pos_of_size bs ofs key Hbs s0 L E (kb_cb s0 K0) Hz)).
    pose proof (kb_cb s0 K0) as (B0 & _ & _). pose proof (b_hdr _ _ _ _ _ _ B0) as (_ & _ & _ & Hfirst & _).
    unfold read_next. change (ndb s0) with 0. cbn [Z.eqb negb andb]. rewrite andb_false_r. rewrite Hfirst.
    destruct (nthZ L 0 <? 2); [apply (kb_fields s0); try reflexivity; exact K0|].
    destruct (rd_data bs bad s0 (nthZ L 0)) as [d|] eqn:Hr; [|apply (kb_fields s0); try reflexivity; exact K0].
    destruct (kb_rd_data s0 0 d K0 ltac:(lia) Hr) as (Hl & _). cbn [snd].
    apply (kb_fields (set_cdata s0 d)); try reflexivity. apply kb_set_cdata; assumption.
  Qed.

  (* ---- adfFileReadExtBlockN ---- *)
  Lemma ext_walk_kb : forall fuel s i ext, KB s -> -1 <= i -> ext < len E -> KB (snd (fst (ext_walk bad fuel s (nthZ E (i + 1)) i ext))).
  Proof.
    induction fuel as [|f IH]; intros s i ext K Hi He; [exact K|]. cbn [ext_walk].
    destruct (Z.ltb_spec i ext) as [Hlt|Hge]; cbn [andb]; [|exact K].
    destruct (negb (nthZ E (i + 1) =? 0)); [|exact K].
    destruct (rd_ext bad s (nthZ E (i + 1))) as [x|] eqn:Hr; [|exact K].
    rewrite (kb_rd_ext s (i + 1) x K ltac:(lia) Hr). cbn [x_ext enc_x].
    apply IH; [apply kb_set_cext; [exact K|lia]|lia|exact He].
  Qed.

  Lemma read_ext_n_kb s ext : KB s -> KB (snd (read_ext_n bs bad s ext)).
  Proof.
    intros K. unfold read_ext_n. rewrite (size2ext_len bs ofs key s L E (kb_cb s K)).
    destruct (Z.ltb_spec ext 0); cbn [orb]; [exact K|]. destruct (Z.ltb_spec (len E - 1) ext); [exact K|].
    pose proof (kb_cb s K) as (B & _ & _). pose proof (b_hdr _ _ _ _ _ _ B) as (_ & _ & _ & _ & Hext). rewrite Hext.
    pose proof (ext_walk_kb (Z.to_nat (ext + 1)) s (-1) ext K ltac:(lia) ltac:(lia)) as Hw. change (-1 + 1) with 0 in Hw.
    destruct (ext_walk bad _ s (nthZ E 0) (-1) ext) as ((ok, s1), i). cbn [fst snd] in Hw. destruct (ok && (i =? ext)); exact Hw.
  Qed.

  (* ---- adfFileSeekExt_ inside the file: whatever happens the state stays KB; a success is the fault-free seek ---- *)
  Lemma seek_mid_kb s : KB s -> 0 <= pos s < fsize s -> KB (snd (seek_mid bs bad s)).
  Proof.
    intros K Hp. unfold seek_mid. rewrite (pos2db_spec bs Hbs (pos s) ltac:(lia)). set (k := pos s / bs).
    pose proof (kb_cb s K) as C. pose proof C as (B & HL & _). pose proof (b_hdr _ _ _ _ _ _ B) as (_ & Htab & _).
    assert (Hk : 0 <= k < len L) by (subst k; rewrite HL; apply (idx_in_range bs Hbs); lia).
    destruct (Z.ltb_spec k 72) as [H72|H72].
    - (* through the header table *)
      cbn -[Z.ltb]. set (s1 := set_ndb (set_pind (set_pinx s 0) (pos s mod bs)) k).
      assert (K1 : KB s1) by (apply (kb_fields s); try reflexivity; exact K).
      assert (Hcur : nthZ (h_tab (fh s)) k = nthZ L k) by (rewrite Htab; apply nthZ_subZ; lia).
      change (nthZ (h_tab (fh s1)) k) with (nthZ (h_tab (fh s)) k). rewrite Hcur.
      destruct (nthZ L k <? 2); [apply (kb_fields s1); try reflexivity; exact K1|].
      set (s2 := set_cur s1 (nthZ L k)). assert (K2 : KB s2) by (apply (kb_fields s1); try reflexivity; exact K1).
      change (cur s2) with (nthZ L k).
      destruct (rd_data bs bad s2 (nthZ L k)) as [d|] eqn:Hr; [|apply (kb_fields s2); try reflexivity; exact K2].
      destruct (kb_rd_data s2 k d K2 Hk Hr) as (Hl & _). apply (kb_fields (set_cdata s2 d)); try reflexivity. apply kb_set_cdata; assumption.
    - (* through an extension block *)
      assert (Hj : 0 <= (k - 72) / 72 < len E) by (apply (lenE_bound bs ofs key s L E k C); lia).
      cbv zeta. cbn [fst snd]. destruct (Z.eqb_spec ((k - 72) / 72) (-1)) as [Hm|_]; [lia|].
      set (s1 := set_ndb (set_pind (set_pinx s ((k - 72) mod 72)) (pos s mod bs)) k).
      assert (K1 : KB s1) by (apply (kb_fields s); try reflexivity; exact K).
      set (s1' := match cext s1 with None => set_cext s1 (Some zero_x) | Some _ => s1 end).
      assert (K1' : KB s1').
      { subst s1'. destruct (cext s1) eqn:Hcx; [exact K1|]. destruct K1 as (H1 & H2 & H3 & H4 & H5 & H6 & H7). unfold KB, cext_ok. cbn. repeat split; try assumption. left. reflexivity. }
      pose proof (read_ext_n_kb s1' ((k - 72) / 72) K1') as Kx.
      destruct (read_ext_n bs bad s1' ((k - 72) / 72)) as [[|] sx] eqn:Hx; cbn [snd] in Kx.
      2:{ cbn [negb snd]. apply (kb_fields sx); try reflexivity; exact Kx. }
      (* the walk succeeded: it is the fault-free walk, the buffer holds the extension block of k *)
      pose proof (read_ext_n_mono bs bad _ _ _ Hx) as Hx0.
      rewrite (read_ext_n_ok bs ofs key s1' s1' L E ((k - 72) / 72) (kb_cb s1' K1') eq_refl eq_refl Hj) in Hx0. injection Hx0 as <-.
      cbn -[Z.ltb enc_x subZ]. 
      assert (Hcur : nthZ (x_tab (enc_x key L E ((k - 72) / 72))) (pinx s1') = nthZ L k).
      { assert (Hpx : pinx s1' = (k - 72) mod 72) by (subst s1'; destruct (cext s1); reflexivity). rewrite Hpx. cbn [x_tab enc_x].
        rewrite nthZ_subZ by lia. f_equal. lia. }
      unfold cx. cbn [cext set_cext]. rewrite Hcur.
      destruct (nthZ L k <? 2); [eapply kb_fields; [exact Kx| | | | | | |]; reflexivity|].
      match goal with |- context [rd_data bs bad ?u (nthZ L k)] => set (s2 := u) end.
      assert (K2 : KB s2) by (eapply kb_fields; [exact Kx| | | | | | |]; reflexivity).
      destruct (rd_data bs bad s2 (nthZ L k)) as [d|] eqn:Hr; [|apply (kb_fields s2); try reflexivity; exact K2].
      destruct (kb_rd_data s2 k d K2 Hk Hr) as (Hl & _). apply (kb_fields (set_cdata s2 d)); try reflexivity. apply kb_set_cdata; assumption.
  Qed.

  (* ---- the fallback walk ---- *)
  Lemma ofs_walk_mono : forall fuel s o tg s', ofs_walk bs ofs bad fuel s o tg = (true, s') -> ofs_walk bs ofs nobad fuel s o tg = (true, s').
  Proof.
    induction fuel as [|f IH]; intros s o tg s' H; [exact H|]. cbn [ofs_walk] in *.
    destruct (o <? tg); [|exact H]. set (s1 := set_pind _ _) in *.
    destruct (pind s1 =? bs); [|apply IH, H].
    destruct (read_next bs ofs bad s1) as [[|] sn] eqn:Hr; [|discriminate]. rewrite (read_next_mono bs ofs bad _ _ Hr). apply IH, H.
  Qed.

  (* when the first block of the file cannot be fetched the walk cannot fetch it either: it ends without a buffered block, or fails *)
  Lemma ofs_walk_dead : forall fuel s o tg s', cur s = 0 -> ndb s = 0 -> (h_first (fh s) <? 2) || (h_first (fh s) <? 1) || bad (h_first (fh s)) = true ->
    ofs_walk bs ofs bad fuel s o tg = (true, s') -> cur s' = 0.
  Proof.
    induction fuel as [|f IH]; intros s o tg s' Hc Hn Hb H; [injection H as <-; exact Hc|]. cbn [ofs_walk] in H.
    destruct (o <? tg); [|injection H as <-; exact Hc]. set (s1 := set_pind _ _) in *.
    destruct (pind s1 =? bs).
    - exfalso. unfold read_next in H. change (ndb s1) with (ndb s) in H. rewrite Hn in H. cbn [Z.eqb negb andb] in H. rewrite andb_false_r in H.
      change (fh s1) with (fh s) in H. destruct (h_first (fh s) <? 2) eqn:H2; [discriminate|].
      unfold rd_data in H. cbn [orb] in Hb. rewrite Hb in H. discriminate.
    - apply (IH s1 _ _ s' Hc Hn Hb H).
  Qed.

  Lemma seek_start_fail_dead s s0 : seek_start bs ofs bad s = (false, s0) ->
    cur s0 = 0 /\ ndb s0 = 0 /\ fh s0 = fh s /\ ((h_first (fh s) <? 2) || (h_first (fh s) <? 1) || bad (h_first (fh s)) = true).
  Proof.
    unfold seek_start. set (z := set_cur _ 0). destruct (fsize z =? 0); [discriminate|].
    unfold read_next. change (ndb z) with 0. cbn [Z.eqb negb andb]. rewrite andb_false_r. change (fh z) with (fh s).
    destruct (h_first (fh s) <? 2) eqn:H2.
    - intros H. injection H as <-. repeat split.
    - unfold rd_data. destruct ((h_first (fh s) <? 1) || bad (h_first (fh s))) eqn:Hb; [|destruct (dk z (h_first (fh s))); discriminate].
      intros H. injection H as <-. repeat split. cbn [orb]. exact Hb.
  Qed.

  (* ---- a seek to a position inside the file, after the flush: the extension-block path, then - on OFS - the fallback ---- *)
  Theorem seek_inside_faulty eofk s p s' : KB s -> pos s = p -> 0 <= p < fsize s ->
    seek_fb bs ofs bad eofk (seek_mid bs bad s) p = (true, s') -> cur s' <> 0 ->
    Inv bs ofs key s' L E /\ Repr bs s' L ct /\ pos s' = p.
  Proof.
    intros K Hpos Hp H Hcur. pose proof (kb_cb s K) as C. pose proof K as (Kdk & Kfh & Kc & _ & _ & Kcx & Klen).
    destruct (seek_mid bs bad s) as [[|] s3] eqn:Hm.
    - (* the table-driven seek succeeded: it is the fault-free one *)
      unfold seek_fb in H. cbn [fst negb andb] in H. injection H as <-.
      apply seek_mid_mono in Hm.
      destruct (seek_mid_ok bs ofs key Hbs s L E C ltac:(lia) Kcx) as (s4 & Hm4 & I4 & P4 & C4 & D4 & F4 & _).
      rewrite Hm in Hm4. injection Hm4 as <-. split; [exact I4|]. split; [|lia].
      apply (repr_clean bs ofs key Hbs t s3 L E ct It Hct I4 C4); [congruence|congruence|exact Rt].
    - (* it failed: only OFS goes on *)
      unfold seek_fb in H. cbn [fst snd negb andb] in H.
      assert (H' : seek_ofs bs ofs bad eofk s3 p = (true, s')).
      { destruct (Bool.bool_dec ofs true) as [Hofs|Hofs].
        - revert H. generalize (seek_ofs bs ofs bad eofk s3 p). intros r H. rewrite Hofs in H. exact H.
        - apply Bool.not_true_is_false in Hofs. revert H. generalize (seek_ofs bs ofs bad eofk s3 p). intros r H. rewrite Hofs in H. discriminate. }
      clear H. rename H' into H.
      pose proof (seek_mid_kb s K ltac:(lia)) as K3. rewrite Hm in K3. cbn [snd] in K3.
      unfold seek_ofs in H.
      destruct (seek_start bs ofs bad s3) as [[|] s0] eqn:Hss; cbn [snd] in H.
      + (* back at the start with the first block buffered *)
        apply seek_start_mono in Hss. pose proof K3 as (K3dk & K3fh & K3c & _ & _ & K3cx & K3len).
        destruct (seek_start_cb bs ofs key Hbs s3 L E (kb_cb s3 K3) K3cx K3len) as (s5 & Hs5 & I5 & P5 & C5 & D5 & F5 & W5 & M5 & N5).
        rewrite Hss in Hs5. injection Hs5 as <-.
        assert (Hf0 : fsize s0 = fsize s) by (unfold fsize; rewrite F5, K3fh, Kfh; reflexivity).
        rewrite Hf0 in H. replace (Z.min p (fsize s)) with p in H by lia. destruct (Z.eqb_spec p (fsize s)); [lia|].
        destruct (N5 ltac:(rewrite (kb_fsize s3 K3), <- (kb_fsize s K); lia)) as (N1 & N2 & N3).
        assert (R0 : Repr bs s0 L ct) by (apply (repr_clean bs ofs key Hbs t s0 L E ct It Hct I5 C5); [congruence|congruence|exact Rt]).
        apply ofs_walk_mono in H.
        destruct (ofs_walk_ok bs ofs key Hbs L E ct p (Z.to_nat (p / bs + 2)) s0 0 I5 R0 C5 N3 P5 ltac:(lia) ltac:(lia)) as (s6 & Hw & I6 & R6 & P6 & _).
        { intros _. rewrite N2. pose proof (Z.div_mod p bs ltac:(lia)). pose proof (Z.mod_pos_bound p bs Hbs). pose proof (Z.div_pos p bs ltac:(lia) Hbs).
          rewrite Z2Nat.id by lia. nia. }
        rewrite H in Hw. injection Hw as <-. split; [exact I6|]. split; [exact R6|exact P6].
      + (* the first block cannot be fetched: the walk ends without a buffered block *)
        exfalso. destruct (seek_start_fail_dead s3 s0 Hss) as (Hc0 & Hn0 & Hf0 & Hb0).
        assert (Hfs : fsize s0 = fsize s) by (unfold fsize; rewrite Hf0; destruct K3 as (_ & K3fh & _); rewrite K3fh, Kfh; reflexivity).
        rewrite Hfs in H. replace (Z.min p (fsize s)) with p in H by lia. destruct (Z.eqb_spec p (fsize s)); [lia|].
        apply Hcur. apply (ofs_walk_dead (Z.to_nat (p / bs + 2)) s0 0 p s' Hc0 Hn0); [rewrite Hf0; exact Hb0|exact H].
  Qed.
End Fault.

Section Top.
  Variable bs : Z.
  Variable ofs : bool.
  Variable key : Z.
  Hypothesis Hbs : 0 < bs.
  Variable bad : Z -> bool.

  (* adfFileSeek to a position inside the file under an arbitrary set of unreadable blocks, OFS fallback included: if it reports success and
     leaves a buffered block, the handle is coherent at the requested position and stands for the same content - whichever way it got there *)
  Theorem fio_seek_faulty_inside s L E ct p s' : Inv bs ofs key s L E -> Repr bs s L ct -> 0 <= p < fsize s ->
    fio_seek bs ofs bad s p = (true, s') -> cur s' <> 0 -> Inv bs ofs key s' L E /\ Repr bs s' L ct /\ pos s' = p.
  Proof.
    intros I R Hp H Hcur.
    destruct (fio_seek_ok bs ofs key Hbs s L E ct p I R ltac:(lia)) as (s1 & H1 & I1 & R1 & P1 & _).
    replace (Z.min p (fsize s)) with p in P1 by lia.
    unfold fio_seek, seek_gen in H, H1.
    destruct ((pos s =? p) && negb (cur s =? 0) && negb (pind s =? bs)).
    { rewrite H in H1. injection H1 as <-. split; [exact I1|]. split; [exact R1|exact P1]. }
    destruct (negb (cur s =? 0) && ((if 0 <? ndb s then ndb s - 1 else 0) =? p / bs)).
    { rewrite H in H1. injection H1 as <-. split; [exact I1|]. split; [exact R1|exact P1]. }
    clear H1 I1 R1 P1 s1.
    destruct (settle_ok bs ofs key Hbs s L E I) as (It & Hct & (Spos & Spinx & Spind & Sndb & Scur & Scext & Sfh & Smw & Smr & Sby & Snx) & Htr).
    change (if mw s && chg s then set_chg (fio_flush bs ofs s) false else s) with (settle bs ofs s) in H.
    set (t := settle bs ofs s) in *.
    assert (Rt : Repr bs t L ct).
    { apply (repr_same bs Hbs s t L ct); [unfold fsize; rewrite Sfh; reflexivity|destruct I as (_ & HL & _); exact HL|exact Htr|exact R]. }
    assert (Hft : fsize t = fsize s) by (unfold fsize; rewrite Sfh; reflexivity).
    destruct (Z.eqb_spec p 0) as [H0|H0].
    - (* to the start *)
      apply seek_start_mono in H.
      destruct (seek_start_ok bs ofs key Hbs t L E ct It Hct Rt) as (s2 & H2 & I2 & R2 & P2 & _). rewrite H in H2. injection H2 as <-.
      split; [exact I2|]. split; [exact R2|lia].
    - cbv zeta in H. rewrite Hft in H. replace (Z.min p (fsize s)) with p in H by lia.
      change (pos (set_pos t p)) with p in H. change (fsize (set_pos t p)) with (fsize t) in H. rewrite Hft in H.
      destruct (Z.eqb_spec p (fsize s)); [lia|].
      apply (seek_inside_faulty bs ofs key Hbs bad L E ct t It Hct Rt (seek_eof bs ofs bad) (set_pos t p) p s'); try assumption; try reflexivity.
      + apply (kb_fields bs key L E t t); try reflexivity. apply (kb_t bs ofs key L E t It Hct).
      + change (fsize (set_pos t p)) with (fsize t). lia.
  Qed.

  (* ... so the read that follows - itself under any fault set - returns a prefix of the file's true bytes at that position: fewer bytes,
     never wrong ones (C19), whether the seek went through the tables or through the OFS fallback *)
  Corollary seek_then_read_faulty bad2 s L E ct p s' n : Inv bs ofs key s L E -> Repr bs s L ct -> 0 <= p < fsize s -> 0 <= n ->
    fio_seek bs ofs bad s p = (true, s') ->
    exists s'' m, fio_read bs ofs bad2 s' n = (s'', sub ct p m) /\ 0 <= m <= Z.max 0 (Z.min n (fsize s - p)).
  Proof.
    intros I R Hp Hn H. destruct (Z.eq_dec (cur s') 0) as [Hc|Hc].
    - exists s', 0. split; [|lia]. unfold fio_read. rewrite Hc. cbn [Z.eqb]. rewrite !orb_true_r. unfold sub. cbn. reflexivity.
    - destruct (fio_seek_faulty_inside s L E ct p s' I R Hp H Hc) as (I' & R' & P').
      destruct (fio_read_faulty bs ofs key Hbs bad2 s' L E ct n I' R' Hn) as (s'' & r & m & Hrd & Hm & Hr & _).
      assert (Hf : fsize s' = fsize s) by (destruct R as (Hl & _); destruct R' as (Hl' & _); lia).
      exists s'', m. rewrite P' in Hr, Hm. rewrite Hf in Hm. subst r. split; [exact Hrd|exact Hm].
  Qed.
End Top.

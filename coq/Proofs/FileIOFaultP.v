(* Seeks under device read faults, OFS fallback included (C19).  `bad` is an arbitrary set of unreadable blocks.  t is a coherent clean
   reference state (what the flush at the head of adfFileSeek leaves); `KB s` says: s has t's volume, header and flags, is clean, its
   extension buffer is one of the file's extension blocks (or empty) and its data buffer has the block length - the cursor fields may be
   anything.  Every loading function maps KB states to KB states whether it succeeds or fails (given the pointer it follows is one of
   the file's), a success is the fault-free run (monotonicity, Proofs/FileIOP.v), and the fallback walk started from a KB state ends
   coherent (seek_ofs_ok).  Result: a seek inside the file that reports success under any fault set leaves a coherent handle at the
   requested position; one that fails leaves a KB state, from which the next seek recovers. *)
From Coq Require Import ZArith List Bool Lia.
From ADF Require Import CPrelude Proofs.BytesP Model.FileIO Proofs.FileIOL Proofs.FileIOFr Proofs.FileIOP.
Import ListNotations.
Local Open Scope Z_scope.
Ltac Zify.zify_post_hook ::= Z.to_euclidean_division_equations.

Section Fault.
  Variable bs : Z.
  Variable ofs : bool.
  Variable key : Z.
  Hypothesis Hbs : 0 < bs.
  Variable bad : Z -> bool.
  Variables L E ct : list Z.
  Variable t : hstate.
  Hypothesis It : Inv bs ofs key t L E.
  Hypothesis Hct : chg t = false.
  Hypothesis Rt : Repr bs t L ct.

  Definition KB (s : hstate) : Prop :=
    dk s = dk t /\ fh s = fh t /\ chg s = false /\ mw s = mw t /\ mr s = mr t /\ cext_ok key s L E /\ len (d_bytes (cdata s)) = bs.

  Let Ct : CB bs ofs key t L E := inv_cb bs ofs key t L E It Hct.

  Lemma kb_cb s : KB s -> CB bs ofs key s L E.
  Proof.
    intros (Hdk & Hfh & Hc & _ & _ & Hcx & _). pose proof Ct as (Bt & HLt & _).
    split; [apply (cb_frame bs ofs key t s L E Ct Hdk Hc Hcx Hfh)|]. split; [unfold fsize; rewrite Hfh; exact HLt|exact Hc].
  Qed.

  Lemma kb_t : KB t.
  Proof.
    pose proof It as (B & _ & C). unfold KB. repeat split; try reflexivity; try assumption.
    - apply (b_cext _ _ _ _ _ _ B).
    - destruct C as [(_ & _ & _ & _ & _ & Hl)|(_ & _ & _ & _ & _ & Hl & _)]; exact Hl.
  Qed.

  Lemma kb_fsize s : KB s -> fsize s = fsize t.
  Proof. intros (_ & Hfh & _). unfold fsize. rewrite Hfh. reflexivity. Qed.

  (* cursor-field updates keep KB *)
  Lemma kb_fields s s' : KB s -> dk s' = dk s -> fh s' = fh s -> chg s' = chg s -> mw s' = mw s -> mr s' = mr s -> cext s' = cext s -> cdata s' = cdata s -> KB s'.
  Proof.
    intros (H1 & H2 & H3 & H4 & H5 & H6 & H7) E1 E2 E3 E4 E5 E6 E7. unfold KB, cext_ok in *. rewrite E1, E2, E3, E4, E5, E6, E7. repeat split; assumption.
  Qed.

  (* a data block of the file read from the volume *)
  Lemma kb_rd_data s k d : KB s -> 0 <= k < len L -> rd_data bs bad s (nthZ L k) = Some d -> len (d_bytes d) = bs /\ dk t (nthZ L k) = BData d.
  Proof.
    intros K Hk Hr. apply rd_data_mono in Hr. destruct (cb_data bs ofs key s L E k (kb_cb s K) Hk) as (d0 & Hd & Hl & _).
    unfold rd_data, nobad in Hr. destruct (nthZ L k <? 1); [discriminate|]. cbn [orb] in Hr. rewrite Hd in Hr. injection Hr as <-.
    destruct K as (Hdk & _). rewrite <- Hdk. split; assumption.
  Qed.

  Lemma kb_rd_ext s j x : KB s -> 0 <= j < len E -> rd_ext bad s (nthZ E j) = Some x -> x = enc_x key L E j.
  Proof.
    intros K Hj Hr. apply rd_ext_mono in Hr. unfold rd_ext, nobad in Hr. rewrite (cb_ext bs ofs key s L E j (kb_cb s K) Hj) in Hr. injection Hr as <-. reflexivity.
  Qed.

  Lemma kb_set_cext s j : KB s -> 0 <= j < len E -> KB (set_cext s (Some (enc_x key L E j))).
  Proof.
    intros (H1 & H2 & H3 & H4 & H5 & H6 & H7) Hj. unfold KB. cbn. repeat split; try assumption. unfold cext_ok. cbn. right. exists j. split; [exact Hj|reflexivity].
  Qed.

  Lemma kb_set_cdata s d : KB s -> len (d_bytes d) = bs -> KB (set_cdata s d).
  Proof. intros (H1 & H2 & H3 & H4 & H5 & H6 & H7) Hl. unfold KB, cext_ok in *. cbn. repeat split; assumption. Qed.

  (* ---- adfFileSeekStart_ ---- *)
  Lemma seek_start_kb s : KB s -> KB (snd (seek_start bs ofs bad s)).
  Proof.
    intros K. unfold seek_start. set (s0 := set_cur _ 0).
    assert (K0 : KB s0) by (apply (kb_fields s); try reflexivity; exact K).
    destruct (Z.eqb_spec (fsize s0) 0) as [Hz|Hz]; [exact K0|].
    assert (HL0 : 0 < len L) by (apply (len_pos_of_size bs ofs key Hbs s0 L E (kb_cb s0 K0) Hz)).
    pose proof (kb_cb s0 K0) as (B0 & _ & _). pose proof (b_hdr _ _ _ _ _ _ B0) as (_ & _ & _ & Hfirst & _).
    unfold read_next. change (ndb s0) with 0. cbn [Z.eqb negb andb]. rewrite andb_false_r. rewrite Hfirst.
    destruct (nthZ L 0 <? 2); [apply (kb_fields s0); try reflexivity; exact K0|].
    destruct (rd_data bs bad s0 (nthZ L 0)) as [d|] eqn:Hr; [|apply (kb_fields s0); try reflexivity; exact K0].
    destruct (kb_rd_data s0 0 d K0 ltac:(lia) Hr) as (Hl & _). cbn [snd].
    apply (kb_fields (set_cdata s0 d)); try reflexivity. apply kb_set_cdata; assumption.
  Qed.

  (* ---- adfFileReadExtBlockN ---- *)
  Lemma ext_walk_kb : forall fuel s i ext, KB s -> -1 <= i -> ext < len E -> KB (snd (fst (ext_walk bad fuel s (nthZ E (i + 1)) i ext))).
  Proof.
    induction fuel as [|f IH]; intros s i ext K Hi He; [exact K|]. cbn [ext_walk].
    destruct (Z.ltb_spec i ext) as [Hlt|Hge]; cbn [andb]; [|exact K].
    destruct (negb (nthZ E (i + 1) =? 0)); [|exact K].
    destruct (rd_ext bad s (nthZ E (i + 1))) as [x|] eqn:Hr; [|exact K].
    rewrite (kb_rd_ext s (i + 1) x K ltac:(lia) Hr). cbn [x_ext enc_x].
    apply IH; [apply kb_set_cext; [exact K|lia]|lia|exact He].
  Qed.

  Lemma read_ext_n_kb s ext : KB s -> KB (snd (read_ext_n bs bad s ext)).
  Proof.
    intros K. unfold read_ext_n. rewrite (size2ext_len bs ofs key s L E (kb_cb s K)).
    destruct (Z.ltb_spec ext 0); cbn [orb]; [exact K|]. destruct (Z.ltb_spec (len E - 1) ext); [exact K|].
    pose proof (kb_cb s K) as (B & _ & _). pose proof (b_hdr _ _ _ _ _ _ B) as (_ & _ & _ & _ & Hext). rewrite Hext.
    pose proof (ext_walk_kb (Z.to_nat (ext + 1)) s (-1) ext K ltac:(lia) ltac:(lia)) as Hw. change (-1 + 1) with 0 in Hw.
    destruct (ext_walk bad _ s (nthZ E 0) (-1) ext) as ((ok, s1), i). cbn [fst snd] in Hw. destruct (ok && (i =? ext)); exact Hw.
  Qed.

  (* ---- adfFileSeekExt_ inside the file: whatever happens the state stays KB; a success is the fault-free seek ---- *)
  Lemma seek_mid_kb s : KB s -> 0 <= pos s < fsize s -> KB (snd (seek_mid bs bad s)).
  Proof.
    intros K Hp. unfold seek_mid. rewrite (pos2db_spec bs Hbs (pos s) ltac:(lia)). set (k := pos s / bs).
    pose proof (kb_cb s K) as C. pose proof C as (B & HL & _). pose proof (b_hdr _ _ _ _ _ _ B) as (_ & Htab & _).
    assert (Hk : 0 <= k < len L) by (subst k; rewrite HL; apply (idx_in_range bs Hbs); lia).
    destruct (Z.ltb_spec k 72) as [H72|H72].
    - (* through the header table *)
      cbn -[Z.ltb]. set (s1 := set_ndb (set_pind (set_pinx s 0) (pos s mod bs)) k).
      assert (K1 : KB s1) by (apply (kb_fields s); try reflexivity; exact K).
      assert (Hcur : nthZ (h_tab (fh s)) k = nthZ L k) by (rewrite Htab; apply nthZ_subZ; lia).
      change (nthZ (h_tab (fh s1)) k) with (nthZ (h_tab (fh s)) k). rewrite Hcur.
      destruct (nthZ L k <? 2); [apply (kb_fields s1); try reflexivity; exact K1|].
      set (s2 := set_cur s1 (nthZ L k)). assert (K2 : KB s2) by (apply (kb_fields s1); try reflexivity; exact K1).
      change (cur s2) with (nthZ L k).
      destruct (rd_data bs bad s2 (nthZ L k)) as [d|] eqn:Hr; [|apply (kb_fields s2); try reflexivity; exact K2].
      destruct (kb_rd_data s2 k d K2 Hk Hr) as (Hl & _). apply (kb_fields (set_cdata s2 d)); try reflexivity. apply kb_set_cdata; assumption.
    - (* through an extension block *)
      assert (Hj : 0 <= (k - 72) / 72 < len E) by (apply (lenE_bound bs ofs key s L E k C); lia).
      cbv zeta. cbn [fst snd]. destruct (Z.eqb_spec ((k - 72) / 72) (-1)) as [Hm|_]; [lia|].
      set (s1 := set_ndb (set_pind (set_pinx s ((k - 72) mod 72)) (pos s mod bs)) k).
      assert (K1 : KB s1) by (apply (kb_fields s); try reflexivity; exact K).
      set (s1' := match cext s1 with None => set_cext s1 (Some zero_x) | Some _ => s1 end).
      assert (K1' : KB s1').
      { subst s1'. destruct (cext s1) eqn:Hcx; [exact K1|]. destruct K1 as (H1 & H2 & H3 & H4 & H5 & H6 & H7). unfold KB, cext_ok. cbn. repeat split; try assumption. left. reflexivity. }
      pose proof (read_ext_n_kb s1' ((k - 72) / 72) K1') as Kx.
      destruct (read_ext_n bs bad s1' ((k - 72) / 72)) as [[|] sx] eqn:Hx; cbn [snd] in Kx.
      2:{ cbn [negb snd]. apply (kb_fields sx); try reflexivity; exact Kx. }
      (* the walk succeeded: it is the fault-free walk, the buffer holds the extension block of k *)
      pose proof (read_ext_n_mono bs bad _ _ _ Hx) as Hx0.
      rewrite (read_ext_n_ok bs ofs key s1' s1' L E ((k - 72) / 72) (kb_cb s1' K1') eq_refl eq_refl Hj) in Hx0. injection Hx0 as <-.
      cbn -[Z.ltb enc_x subZ]. 
      assert (Hcur : nthZ (x_tab (enc_x key L E ((k - 72) / 72))) (pinx s1') = nthZ L k).
      { assert (Hpx : pinx s1' = (k - 72) mod 72) by (subst s1'; destruct (cext s1); reflexivity). rewrite Hpx. cbn [x_tab enc_x].
        rewrite nthZ_subZ by lia. f_equal. lia. }
      unfold cx. cbn [cext set_cext]. rewrite Hcur.
      destruct (nthZ L k <? 2); [eapply kb_fields; [exact Kx| | | | | | |]; reflexivity|].
      match goal with |- context [rd_data bs bad ?u (nthZ L k)] => set (s2 := u) end.
      assert (K2 : KB s2) by (eapply kb_fields; [exact Kx| | | | | | |]; reflexivity).
      destruct (rd_data bs bad s2 (nthZ L k)) as [d|] eqn:Hr; [|apply (kb_fields s2); try reflexivity; exact K2].
      destruct (kb_rd_data s2 k d K2 Hk Hr) as (Hl & _). apply (kb_fields (set_cdata s2 d)); try reflexivity. apply kb_set_cdata; assumption.
  Qed.

  (* ---- adfFileReadNextBlock under faults, from a state whose cursor is that of a coherent one: the state stays KB whatever happens ---- *)
  Lemma read_next_kb s : KB s -> 0 <= ndb s < len L -> ext_cursor key s L E (ndb s - 1) ->
    (ofs = true -> 1 <= ndb s -> d_next (cdata s) = nthZ L (ndb s)) -> KB (snd (read_next bs ofs bad s)).
  Proof.
    intros K Hn Hx Hnx. pose proof (kb_cb s K) as C. pose proof C as (B & HL & Kc).
    destruct (read_next bs ofs bad s) as [[|] sn] eqn:Hr; cbn [snd].
    - (* it succeeded: it is the fault-free fetch *)
      apply read_next_mono in Hr.
      destruct (read_next_ok bs ofs key s L E B Kc Hn Hx Hnx) as (s' & Hr' & D & _ & _ & _ & _ & _ & Hl & _ & C' & F & W & M & _ & Cx).
      rewrite Hr in Hr'. injection Hr' as <-. destruct K as (K1 & K2 & K3 & K4 & K5 & K6 & K7).
      unfold KB. repeat split; try congruence; assumption.
    - (* it failed: the state is s, possibly with an extension block of the file loaded on the way *)
      pose proof (b_hdr _ _ _ _ _ _ B) as (_ & _ & _ & _ & Hext). pose proof (lenE_of bs ofs key s L E B) as HlE.
      revert Hr. unfold read_next.
      destruct (Z.eqb_spec (ndb s) 0) as [H0|H0].
      { destruct (_ <? 2); [intros Hr; injection Hr as <-; exact K|]. destruct (rd_data bs bad s _); [discriminate|intros Hr; injection Hr as <-; exact K]. }
      destruct (Z.ltb_spec (ndb s) MAXDB) as [H72|H72].
      { cbn [negb]. destruct (_ <? 2); [intros Hr; injection Hr as <-; exact K|]. destruct (rd_data bs bad s _); [discriminate|intros Hr; injection Hr as <-; exact K]. }
      unfold MAXDB in H72.
      assert (HE1 : 1 <= len E) by (rewrite HlE; destruct (Z.ltb_spec (len L) 1); lia).
      destruct (Z.eqb_spec (ndb s) MAXDB) as [He|He].
      { (* the first extension block, from the header *)
        set (sa := match cext s with None => set_cext s (Some zero_x) | Some _ => s end).
        assert (Ka : KB sa).
        { subst sa. destruct (cext s) eqn:Hcx; [exact K|]. destruct K as (H1 & H2 & H3 & H4 & H5 & H6 & H7). unfold KB, cext_ok. cbn. repeat split; try assumption. left. reflexivity. }
        assert (Hfa : fh sa = fh s) by (subst sa; destruct (cext s); reflexivity).
        unfold load_ext. rewrite <- Hfa. rewrite Hfa, Hext.
        destruct (rd_ext bad sa (nthZ E 0)) as [x|] eqn:Hrx.
        2:{ cbn [negb]. intros Hr. injection Hr as <-. exact Ka. }
        rewrite (kb_rd_ext sa 0 x Ka ltac:(lia) Hrx). cbn [negb].
        set (s1 := set_pinx _ _). assert (K1 : KB s1).
        { subst s1. eapply kb_fields; [apply (kb_set_cext sa 0 Ka); lia| | | | | | |]; reflexivity. }
        destruct (_ <? 2); [intros Hr; injection Hr as <-; exact K1|]. destruct (rd_data bs bad s1 _); [discriminate|intros Hr; injection Hr as <-; exact K1]. }
      unfold MAXDB in He. destruct (Hx ltac:(lia)) as (Hcx & Hpx).
      destruct (Z.eqb_spec (pinx s) MAXDB) as [Hp|Hp].
      { (* the next extension block, from the buffered one *)
        unfold MAXDB in Hp. unfold load_ext, cx. rewrite Hcx. cbn [x_ext enc_x].
        assert (Hj : 0 <= (ndb s - 1 - 72) / 72 + 1 < len E) by (rewrite HlE; destruct (Z.ltb_spec (len L) 1); lia).
        destruct (rd_ext bad s (nthZ E ((ndb s - 1 - 72) / 72 + 1))) as [x|] eqn:Hrx.
        2:{ cbn [negb]. intros Hr. injection Hr as <-. exact K. }
        rewrite (kb_rd_ext s _ x K Hj Hrx). cbn [negb].
        set (s1 := set_pinx _ _). assert (K1 : KB s1).
        { subst s1. eapply kb_fields; [apply (kb_set_cext s _ K Hj)| | | | | | |]; reflexivity. }
        destruct (_ <? 2); [intros Hr; injection Hr as <-; exact K1|]. destruct (rd_data bs bad s1 _); [discriminate|intros Hr; injection Hr as <-; exact K1]. }
      { cbn [negb]. set (s1 := set_pinx _ _). assert (K1 : KB s1) by (subst s1; apply (kb_fields s); try reflexivity; exact K).
        destruct (_ <? 2); [intros Hr; injection Hr as <-; exact K1|]. destruct (rd_data bs bad s1 _); [discriminate|intros Hr; injection Hr as <-; exact K1]. }
  Qed.

  (* ---- the fallback walk ---- *)
  Lemma ofs_walk_mono : forall fuel s o tg s', ofs_walk bs ofs bad fuel s o tg = (true, s') -> ofs_walk bs ofs nobad fuel s o tg = (true, s').
  Proof.
    induction fuel as [|f IH]; intros s o tg s' H; [exact H|]. cbn [ofs_walk] in *.
    destruct (o <? tg); [|exact H]. set (s1 := set_pind _ _) in *.
    destruct (pind s1 =? bs); [|apply IH, H].
    destruct (read_next bs ofs bad s1) as [[|] sn] eqn:Hr; [|discriminate]. rewrite (read_next_mono bs ofs bad _ _ Hr). apply IH, H.
  Qed.

  (* coherent states of the same file as t *)
  Definition CohT (s : hstate) : Prop :=
    Inv bs ofs key s L E /\ Repr bs s L ct /\ chg s = false /\ dk s = dk t /\ fh s = fh t /\ mw s = mw t /\ mr s = mr t.

  Lemma coh_kb s : CohT s -> KB s.
  Proof.
    intros (I & _ & Hc & Hd & Hf & Hw & Hr). pose proof I as (B & _ & C). unfold KB. repeat split; try assumption.
    - apply (b_cext _ _ _ _ _ _ B).
    - destruct C as [(_ & _ & _ & _ & _ & Hl)|(_ & _ & _ & _ & _ & Hl & _)]; exact Hl.
  Qed.

  (* the walk under faults from a coherent state: the state stays KB whatever happens *)
  Lemma ofs_walk_kb target : forall fuel s offset, CohT s -> cur s <> 0 -> pos s = offset -> offset <= target < fsize s -> 0 <= pind s < bs ->
    KB (snd (ofs_walk bs ofs bad fuel s offset target)).
  Proof.
    induction fuel as [|fuel IH]; intros s offset Co Hcu Hp Ht Hpi; [apply coh_kb, Co|]. cbn [ofs_walk].
    destruct (Z.ltb_spec offset target) as [Hlt|Hge]; [|apply coh_kb, Co].
    pose proof Co as (I & R & Hc & Hd & Hf & Hw & Hr).
    set (size := Z.min (target - offset) (bs - pind s)).
    assert (Hsz : 0 < size /\ size <= target - offset /\ pind s + size <= bs) by (subst size; lia).
    set (s1 := set_pind (set_pos s (pos s + size)) (pind s + size)).
    assert (I1 : Inv bs ofs key s1 L E).
    { destruct I as (B & HL & C'). split; [|split].
      - apply (base_frame bs ofs key s); try reflexivity. assumption.
      - exact HL.
      - destruct C' as [(_ & Hz0 & _)|(Hcu' & Hnn & Hp' & Hpi' & Hps & Hlen & Hcl & Hnx & Hxc)]; [contradiction|].
        right. subst s1. unfold fsize, ext_cursor in *. simpl. repeat match goal with |- _ /\ _ => split end; try assumption; try lia. }
    assert (R1 : Repr bs s1 L ct) by (apply (repr_frame bs s); try reflexivity; assumption).
    assert (Co1 : CohT s1) by (unfold CohT; split; [exact I1|split; [exact R1|subst s1; cbn; repeat split; assumption]]).
    change (pind s1) with (pind s + size).
    destruct (Z.eqb_spec (pind s + size) bs) as [Hb|Hb].
    - (* the next block is fetched - or not *)
      assert (Hlt1 : pos s1 < fsize s1) by (subst s1; unfold fsize in *; simpl; lia).
      pose proof (ndb_lt_len bs ofs key Hbs s1 L E I1 Hcu Hb Hlt1) as Hnl.
      destruct (normal_facts bs ofs key s1 L E I1 Hcu) as (Hcu1 & Hnn1 & _).
      assert (Hcur1 : ext_cursor key s1 L E (ndb s1 - 1) /\ (ofs = true -> 1 <= ndb s1 -> d_next (cdata s1) = nthZ L (ndb s1))).
      { destruct I1 as (_ & _ & [(_ & Hz0 & _)|(_ & _ & _ & _ & _ & _ & _ & Hnx & Hxc)]); [contradiction|]. split; [exact Hxc|]. intros Ho _. apply Hnx; assumption. }
      pose proof (read_next_kb s1 (coh_kb s1 Co1) ltac:(lia) (proj1 Hcur1) (proj2 Hcur1)) as Kn.
      destruct (read_next bs ofs bad s1) as [[|] sn] eqn:Hrn; cbn [snd] in Kn.
      + apply read_next_mono in Hrn.
        destruct (advance_ok bs ofs key Hbs s1 L E ct I1 R1 Hcu Hb Hlt1) as (sn0 & Hrn0 & I2 & R2 & P2 & C2 & Pi2 & F2 & W2 & M2 & Cn).
        assert (Hset : settle bs ofs s1 = s1) by (unfold settle; change (chg s1) with (chg s); rewrite Hc, andb_false_r; reflexivity).
        rewrite Hset, Hrn in Hrn0. injection Hrn0 as <-.
        assert (Heq : set_pind sn 0 = set_chg (set_pind sn 0) false) by (apply state_ext; try reflexivity; cbn; exact Cn).
        rewrite Heq. set (s2 := set_chg (set_pind sn 0) false) in *.
        apply IH; try assumption.
        * destruct Kn as (Kd & _). unfold CohT. split; [exact I2|split; [exact R2|]]. subst s2. cbn. cbn in F2, W2, M2.
          change (fh s1) with (fh s) in F2. change (mw s1) with (mw s) in W2. change (mr s1) with (mr s) in M2. repeat split; try reflexivity; congruence.
        * rewrite P2. subst s1. simpl. lia.
        * unfold fsize in *. rewrite F2. simpl. lia.
        * rewrite Pi2. lia.
      + cbn [snd]. apply (kb_fields sn); try reflexivity. exact Kn.
    - apply IH; try assumption; try (subst s1; simpl; lia). subst s1. unfold fsize in *. simpl. lia.
  Qed.

  (* when the first block of the file cannot be fetched the walk cannot fetch it either: it ends without a buffered block, or fails *)
  Lemma ofs_walk_dead : forall fuel s o tg s', cur s = 0 -> ndb s = 0 -> (h_first (fh s) <? 2) || (h_first (fh s) <? 1) || bad (h_first (fh s)) = true ->
    ofs_walk bs ofs bad fuel s o tg = (true, s') -> cur s' = 0.
  Proof.
    induction fuel as [|f IH]; intros s o tg s' Hc Hn Hb H; [injection H as <-; exact Hc|]. cbn [ofs_walk] in H.
    destruct (o <? tg); [|injection H as <-; exact Hc]. set (s1 := set_pind _ _) in *.
    destruct (pind s1 =? bs).
    - exfalso. unfold read_next in H. change (ndb s1) with (ndb s) in H. rewrite Hn in H. cbn [Z.eqb negb andb] in H. rewrite andb_false_r in H.
      change (fh s1) with (fh s) in H. destruct (h_first (fh s) <? 2) eqn:H2; [discriminate|].
      unfold rd_data in H. cbn [orb] in Hb. rewrite Hb in H. discriminate.
    - apply (IH s1 _ _ s' Hc Hn Hb H).
  Qed.

  Lemma seek_start_fail_dead s s0 : seek_start bs ofs bad s = (false, s0) ->
    cur s0 = 0 /\ ndb s0 = 0 /\ fh s0 = fh s /\ ((h_first (fh s) <? 2) || (h_first (fh s) <? 1) || bad (h_first (fh s)) = true).
  Proof.
    unfold seek_start. set (z := set_cur _ 0). destruct (fsize z =? 0); [discriminate|].
    unfold read_next. change (ndb z) with 0. cbn [Z.eqb negb andb]. rewrite andb_false_r. change (fh z) with (fh s).
    destruct (h_first (fh s) <? 2) eqn:H2.
    - intros H. injection H as <-. repeat split.
    - unfold rd_data. destruct ((h_first (fh s) <? 1) || bad (h_first (fh s))) eqn:Hb; [|destruct (dk z (h_first (fh s))); discriminate].
      intros H. injection H as <-. repeat split. cbn [orb]. exact Hb.
  Qed.

  (* ---- a seek to a position inside the file, after the flush: the extension-block path, then - on OFS - the fallback ---- *)
  Theorem seek_inside_faulty eofk s p s' : KB s -> pos s = p -> 0 <= p < fsize s ->
    seek_fb bs ofs bad eofk (seek_mid bs bad s) p = (true, s') -> cur s' <> 0 ->
    CohT s' /\ pos s' = p /\ 0 <= pind s' < bs.
  Proof.
    intros K Hpos Hp H Hcur. pose proof (kb_cb s K) as C. pose proof K as (Kdk & Kfh & Kc & _ & _ & Kcx & Klen).
    destruct (seek_mid bs bad s) as [[|] s3] eqn:Hm.
    - (* the table-driven seek succeeded: it is the fault-free one *)
      unfold seek_fb in H. cbn [fst negb andb] in H. injection H as <-.
      apply seek_mid_mono in Hm.
      destruct (seek_mid_ok bs ofs key Hbs s L E C ltac:(lia) Kcx) as (s4 & Hm4 & I4 & P4 & C4 & D4 & F4 & W4 & M4 & _ & Pi4 & _).
      rewrite Hm in Hm4. injection Hm4 as <-. destruct K as (_ & _ & _ & Kw & Kr & _).
      split; [|split; [lia|rewrite Pi4; apply Z.mod_pos_bound; lia]].
      unfold CohT. split; [exact I4|]. split; [|repeat split; congruence].
      apply (repr_clean bs ofs key Hbs t s3 L E ct It Hct I4 C4); [congruence|congruence|exact Rt].
    - (* it failed: only OFS goes on *)
      unfold seek_fb in H. cbn [fst snd negb andb] in H.
      assert (H' : seek_ofs bs ofs bad eofk s3 p = (true, s')).
      { destruct (Bool.bool_dec ofs true) as [Hofs|Hofs].
        - revert H. generalize (seek_ofs bs ofs bad eofk s3 p). intros r H. rewrite Hofs in H. exact H.
        - apply Bool.not_true_is_false in Hofs. revert H. generalize (seek_ofs bs ofs bad eofk s3 p). intros r H. rewrite Hofs in H. discriminate. }
      clear H. rename H' into H.
      pose proof (seek_mid_kb s K ltac:(lia)) as K3. rewrite Hm in K3. cbn [snd] in K3.
      unfold seek_ofs in H.
      destruct (seek_start bs ofs bad s3) as [[|] s0] eqn:Hss; cbn [negb] in H; [|discriminate].
      + (* back at the start with the first block buffered *)
        apply seek_start_mono in Hss. pose proof K3 as (K3dk & K3fh & K3c & _ & _ & K3cx & K3len).
        destruct (seek_start_cb bs ofs key Hbs s3 L E (kb_cb s3 K3) K3cx K3len) as (s5 & Hs5 & I5 & P5 & C5 & D5 & F5 & W5 & M5 & N5).
        rewrite Hss in Hs5. injection Hs5 as <-.
        assert (Hf0 : fsize s0 = fsize s) by (unfold fsize; rewrite F5, K3fh, Kfh; reflexivity).
        rewrite Hf0 in H. replace (Z.min p (fsize s)) with p in H by lia. destruct (Z.eqb_spec p (fsize s)); [lia|].
        destruct (N5 ltac:(rewrite (kb_fsize s3 K3), <- (kb_fsize s K); lia)) as (N1 & N2 & N3).
        assert (R0 : Repr bs s0 L ct) by (apply (repr_clean bs ofs key Hbs t s0 L E ct It Hct I5 C5); [congruence|congruence|exact Rt]).
        apply ofs_walk_mono in H.
        destruct (ofs_walk_ok bs ofs key Hbs L E ct p (Z.to_nat (p / bs + 2)) s0 0 I5 R0 C5 N3 P5 ltac:(lia) ltac:(lia)) as (s6 & Hw & I6 & R6 & P6 & _ & C6 & F6 & W6 & M6 & Pi6).
        { intros _. rewrite N2. pose proof (Z.div_mod p bs ltac:(lia)). pose proof (Z.mod_pos_bound p bs Hbs). pose proof (Z.div_pos p bs ltac:(lia) Hbs).
          rewrite Z2Nat.id by lia. nia. }
        pose proof (ofs_walk_same bs ofs nobad (Z.to_nat (p / bs + 2)) s0 0 p) as (D6 & _). rewrite H in D6. cbn [snd] in D6.
        rewrite H in Hw. injection Hw as <-. destruct K3 as (_ & _ & _ & K3w & K3r & _).
        split; [|split; [exact P6|exact Pi6]]. unfold CohT. split; [exact I6|]. split; [exact R6|]. repeat split; congruence.
  Qed.

  (* ---- what a failing seek leaves: a KB state, whichever way it failed ---- *)
  Lemma ofs_walk_dead_kb : forall fuel s o tg, KB s -> cur s = 0 -> ndb s = 0 ->
    (h_first (fh s) <? 2) || (h_first (fh s) <? 1) || bad (h_first (fh s)) = true -> KB (snd (ofs_walk bs ofs bad fuel s o tg)).
  Proof.
    induction fuel as [|f IH]; intros s o tg K Hc Hn Hb; [exact K|]. cbn [ofs_walk].
    destruct (o <? tg); [|exact K]. set (s1 := set_pind _ _).
    assert (K1 : KB s1) by (apply (kb_fields s); try reflexivity; exact K).
    destruct (pind s1 =? bs).
    - unfold read_next. change (ndb s1) with (ndb s). rewrite Hn. cbn [Z.eqb negb andb]. rewrite andb_false_r.
      change (fh s1) with (fh s). destruct (h_first (fh s) <? 2) eqn:H2; [cbn [negb snd]; apply (kb_fields s1); try reflexivity; exact K1|].
      unfold rd_data. cbn [orb] in Hb. rewrite Hb. cbn [negb snd]. apply (kb_fields s1); try reflexivity; exact K1.
    - apply IH; try assumption; reflexivity.
  Qed.

  Lemma seek_ofs_kb eofk s p : KB s -> 0 <= p < fsize s -> KB (snd (seek_ofs bs ofs bad eofk s p)).
  Proof.
    intros K Hp. unfold seek_ofs. pose proof (seek_start_kb s K) as K0.
    destruct (seek_start bs ofs bad s) as [[|] s0] eqn:Hss; cbn [snd negb] in *; [|exact K0].
    apply seek_start_mono in Hss. pose proof K as (Kdk & Kfh & Kc & Kw & Kr & Kcx & Klen).
    destruct (seek_start_cb bs ofs key Hbs s L E (kb_cb s K) Kcx Klen) as (s5 & Hs5 & I5 & P5 & C5 & D5 & F5 & W5 & M5 & N5).
    rewrite Hss in Hs5. injection Hs5 as <-.
    assert (Hf0 : fsize s0 = fsize s) by (unfold fsize; rewrite F5; reflexivity).
    rewrite Hf0. replace (Z.min p (fsize s)) with p by lia. destruct (Z.eqb_spec p (fsize s)); [lia|].
    destruct (N5 ltac:(lia)) as (N1 & N2 & N3).
    assert (R0 : Repr bs s0 L ct) by (apply (repr_clean bs ofs key Hbs t s0 L E ct It Hct I5 C5); [congruence|congruence|exact Rt]).
    apply ofs_walk_kb; try assumption; try lia. unfold CohT. split; [exact I5|]. split; [exact R0|]. repeat split; congruence.
  Qed.

  (* ---- a seek that fails leaves no buffered block ---- *)
  Lemma ofs_walk_fail_cur : forall fuel s o tg s', ofs_walk bs ofs bad fuel s o tg = (false, s') -> cur s' = 0.
  Proof.
    induction fuel as [|f IH]; intros s o tg s' H; [discriminate|]. cbn [ofs_walk] in H.
    destruct (o <? tg); [|discriminate]. set (s1 := set_pind _ _) in *. destruct (pind s1 =? bs); [|apply (IH _ _ _ _ H)].
    destruct (read_next bs ofs bad s1) as [[|] sn]; [apply (IH _ _ _ _ H)|injection H as <-; reflexivity].
  Qed.

  Lemma seek_start_fail_cur s s' : seek_start bs ofs bad s = (false, s') -> cur s' = 0.
  Proof. intros H. apply (seek_start_fail_dead s s' H). Qed.

  Lemma seek_mid_fail_cur s s' : KB s -> 0 <= pos s < fsize s -> seek_mid bs bad s = (false, s') -> cur s' = 0.
  Proof.
    intros K Hp. unfold seek_mid. rewrite (pos2db_spec bs Hbs (pos s) ltac:(lia)). set (k := pos s / bs).
    pose proof (kb_cb s K) as C. pose proof C as (B & HL & _). pose proof (b_hdr _ _ _ _ _ _ B) as (_ & Htab & _).
    assert (Hk : 0 <= k < len L) by (subst k; rewrite HL; apply (idx_in_range bs Hbs); lia).
    assert (Hge : 2 <= nthZ L k) by (apply (b_ge2 _ _ _ _ _ _ B); apply in_or_app; left; apply (in_L_nth L k Hk)).
    destruct (Z.ltb_spec k 72) as [H72|H72].
    - cbn -[Z.ltb]. assert (Hcur : nthZ (h_tab (fh s)) k = nthZ L k) by (rewrite Htab; apply nthZ_subZ; lia). rewrite Hcur.
      destruct (Z.ltb_spec (nthZ L k) 2) as [Hlt2|Hge2]; [lia|]. destruct (rd_data bs bad _ _); [discriminate|intros Hf; injection Hf as <-; reflexivity].
    - assert (Hj : 0 <= (k - 72) / 72 < len E) by (apply (lenE_bound bs ofs key s L E k C); lia).
      cbv zeta. cbn [fst snd]. destruct (Z.eqb_spec ((k - 72) / 72) (-1)) as [Hm|_]; [lia|].
      set (s1 := set_ndb (set_pind (set_pinx s ((k - 72) mod 72)) (pos s mod bs)) k).
      assert (K1 : KB s1) by (apply (kb_fields s); try reflexivity; exact K).
      set (s1' := match cext s1 with None => set_cext s1 (Some zero_x) | Some _ => s1 end).
      assert (K1' : KB s1').
      { subst s1'. destruct (cext s1) eqn:Hcx; [exact K1|]. destruct K1 as (H1 & H2 & H3 & H4 & H5 & H6 & H7). unfold KB, cext_ok. cbn. repeat split; try assumption. left. reflexivity. }
      destruct (read_ext_n bs bad s1' ((k - 72) / 72)) as [[|] sx] eqn:Hx.
      2:{ cbn [negb]. intros Hf. injection Hf as <-. reflexivity. }
      pose proof (read_ext_n_mono bs bad _ _ _ Hx) as Hx0.
      rewrite (read_ext_n_ok bs ofs key s1' s1' L E ((k - 72) / 72) (kb_cb s1' K1') eq_refl eq_refl Hj) in Hx0. injection Hx0 as <-.
      cbn -[Z.ltb enc_x subZ].
      assert (Hcur : nthZ (x_tab (enc_x key L E ((k - 72) / 72))) (pinx s1') = nthZ L k).
      { assert (Hpx : pinx s1' = (k - 72) mod 72) by (subst s1'; destruct (cext s1); reflexivity). rewrite Hpx. cbn [x_tab enc_x].
        rewrite nthZ_subZ by lia. f_equal. lia. }
      unfold cx. cbn [cext set_cext]. rewrite Hcur. destruct (Z.ltb_spec (nthZ L k) 2) as [Hlt2|Hge2]; [lia|].
      destruct (rd_data bs bad _ _); [discriminate|intros Hf; injection Hf as <-; reflexivity].
  Qed.

  (* ---- adfFileSeek to a position inside the file from a clean state that is coherent or without a buffered block, with any position field:
          what it leaves is KB; if it reports success with a buffered block, that is the block of the position ---- *)
  Definition Weak (s : hstate) : Prop := KB s /\ (cur s = 0 \/ CohT s).

  Theorem seek_gen_inside eofk s q p : Weak s -> (q = pos s \/ q <> p) -> 0 <= p < fsize s ->
    KB (snd (seek_gen bs ofs bad eofk (set_pos s q) p)) /\
    (fst (seek_gen bs ofs bad eofk (set_pos s q) p) = true -> cur (snd (seek_gen bs ofs bad eofk (set_pos s q) p)) <> 0 ->
     CohT (snd (seek_gen bs ofs bad eofk (set_pos s q) p)) /\ pos (snd (seek_gen bs ofs bad eofk (set_pos s q) p)) = p
     /\ 0 <= pind (snd (seek_gen bs ofs bad eofk (set_pos s q) p)) < bs) /\
    (fst (seek_gen bs ofs bad eofk (set_pos s q) p) = false -> cur (snd (seek_gen bs ofs bad eofk (set_pos s q) p)) = 0).
  Proof.
    intros (K & Hw) Hq Hp. pose proof K as (Kdk & Kfh & Kc & Kw & Kr & Kcx & Klen).
    assert (Kq : KB (set_pos s q)) by (apply (kb_fields s); try reflexivity; exact K).
    unfold seek_gen. change (pos (set_pos s q)) with q. change (cur (set_pos s q)) with (cur s). change (pind (set_pos s q)) with (pind s).
    change (ndb (set_pos s q)) with (ndb s). change (mw (set_pos s q)) with (mw s). change (chg (set_pos s q)) with (chg s).
    change (fsize (set_pos s q)) with (fsize s).
    destruct ((q =? p) && negb (cur s =? 0) && negb (pind s =? bs)) eqn:H1.
    { (* already there *)
      apply andb_prop in H1. destruct H1 as (H1 & H3). apply andb_prop in H1. destruct H1 as (H1 & H2). apply Z.eqb_eq in H1.
      destruct (Z.eqb_spec (cur s) 0) as [|Hc]; [discriminate|]. destruct Hw as [Hz|Co]; [contradiction|].
      destruct Hq as [Hq|Hq]; [|contradiction]. assert (Heq : set_pos s q = s) by (apply state_ext; try reflexivity; cbn; exact Hq).
      rewrite Heq. cbn [fst snd]. split; [exact K|]. split; [|intros Hd; discriminate]. intros _ _. split; [exact Co|]. split; [lia|].
      destruct Co as (I & _). destruct (normal_facts bs ofs key s L E I Hc) as (_ & _ & _ & Hpi & _). destruct (Z.eqb_spec (pind s) bs); [discriminate|lia]. }
    destruct (negb (cur s =? 0) && ((if 0 <? ndb s then ndb s - 1 else 0) =? p / bs)) eqn:H2.
    { (* inside the buffered block *)
      apply andb_prop in H2. destruct H2 as (H2 & H3). destruct (Z.eqb_spec (cur s) 0) as [|Hc]; [discriminate|]. destruct Hw as [Hz|Co]; [contradiction|].
      destruct Co as (I & R & Cc & Cd & Cf & Cw & Cr). apply Z.eqb_eq in H3.
      destruct (normal_facts bs ofs key s L E I Hc) as (Hcu & Hnn & Hpos & Hpi & Hle). destruct (Z.ltb_spec 0 (ndb s)); [|lia].
      replace (Z.min p (fsize s)) with p by lia. cbn [fst snd].
      set (s' := set_pind (set_pos (set_pos s q) p) (p mod bs)).
      pose proof (Z.mod_pos_bound p bs Hbs) as Hpm. pose proof (Z.div_mod p bs ltac:(lia)) as Hdm.
      assert (I' : Inv bs ofs key s' L E).
      { pose proof I as (B & HL & C). split; [apply (base_frame bs ofs key s); try reflexivity; assumption|]. split; [exact HL|].
        destruct C as [(_ & Hz & _)|(_ & _ & _ & _ & _ & Hlen & Hcl & Hnx & Hxc)]; [contradiction|]. right. subst s'. unfold fsize, ext_cursor in *. cbn.
        repeat match goal with |- _ /\ _ => split end; try assumption; try lia. }
      assert (R' : Repr bs s' L ct) by (apply (repr_frame bs s); try reflexivity; assumption).
      assert (Co' : CohT s') by (unfold CohT; split; [exact I'|split; [exact R'|subst s'; cbn; repeat split; assumption]]).
      split; [apply coh_kb, Co'|]. split; [|intros Hd; discriminate]. intros _ _. split; [exact Co'|]. subst s'. cbn. split; [reflexivity|lia]. }
    assert (Hset : (if mw s && chg s then set_chg (fio_flush bs ofs (set_pos s q)) false else set_pos s q) = set_pos s q) by (rewrite Kc, andb_false_r; reflexivity).
    rewrite Hset.
    destruct (Z.eqb_spec p 0) as [H0|H0].
    { (* to the start *)
      pose proof (seek_start_kb (set_pos s q) Kq) as K0. split; [exact K0|].
      destruct (seek_start bs ofs bad (set_pos s q)) as [[|] s0] eqn:Hss; cbn [fst snd] in *; [|split; [intros Hd; discriminate|intros _; apply (seek_start_fail_cur _ _ Hss)]].
      split; [|intros Hd; discriminate]. intros Hok Hcur.
      apply seek_start_mono in Hss. pose proof Kq as (_ & _ & _ & _ & _ & Qcx & Qlen).
      destruct (seek_start_cb bs ofs key Hbs (set_pos s q) L E (kb_cb _ Kq) Qcx Qlen) as (s5 & Hs5 & I5 & P5 & C5 & D5 & F5 & W5 & M5 & N5).
      rewrite Hss in Hs5. injection Hs5 as <-. destruct (N5 ltac:(change (fsize (set_pos s q)) with (fsize s); lia)) as (N1 & N2 & N3).
      assert (R0 : Repr bs s0 L ct) by (apply (repr_clean bs ofs key Hbs t s0 L E ct It Hct I5 C5); [cbn in D5; congruence|cbn in F5; congruence|exact Rt]).
      split; [|split; [lia|lia]]. unfold CohT. split; [exact I5|]. split; [exact R0|]. cbn in D5, F5, W5, M5. repeat split; congruence. }
    (* the table-driven seek, then the fallback *)
    cbv zeta. change (fsize (set_pos s q)) with (fsize s). replace (Z.min p (fsize s)) with p by lia.
    change (set_pos (set_pos s q) p) with (set_pos s p).
    change (pos (set_pos s p)) with p. change (fsize (set_pos s p)) with (fsize s). destruct (Z.eqb_spec p (fsize s)); [lia|].
    assert (Kp : KB (set_pos s p)) by (apply (kb_fields s); try reflexivity; exact K).
    pose proof (seek_mid_kb (set_pos s p) Kp ltac:(change (pos (set_pos s p)) with p; change (fsize (set_pos s p)) with (fsize s); lia)) as K3.
    split; [|split].
    - unfold seek_fb. destruct (negb (fst (seek_mid bs bad (set_pos s p))) && ofs); [|exact K3].
      apply seek_ofs_kb; [exact K3|]. rewrite (kb_fsize _ K3), <- (kb_fsize s K). lia.
    - intros Hok Hcur.
      destruct (seek_fb bs ofs bad eofk (seek_mid bs bad (set_pos s p)) p) as [[|] s'] eqn:Hfb; [|discriminate]. cbn [fst snd] in *.
      apply (seek_inside_faulty eofk (set_pos s p) p s' Kp eq_refl ltac:(change (fsize (set_pos s p)) with (fsize s); lia) Hfb Hcur).
    - (* a failure: the table-driven seek failed (no buffered block), and so did the fallback if there was one *)
      unfold seek_fb. destruct (seek_mid bs bad (set_pos s p)) as [[|] s3] eqn:Hm; cbn [fst snd negb andb] in *; [intros Hd; discriminate|].
      pose proof (seek_mid_fail_cur (set_pos s p) s3 Kp ltac:(change (pos (set_pos s p)) with p; change (fsize (set_pos s p)) with (fsize s); lia) Hm) as Hc3.
      destruct (Bool.bool_dec ofs true) as [Ho|Ho].
      2:{ apply Bool.not_true_is_false in Ho. assert (Hif : forall (A : Type) (a b : A), (if ofs then a else b) = b) by (intros; rewrite Ho; reflexivity).
          rewrite !Hif. cbn [fst snd]. intros _. exact Hc3. }
      assert (Hif : forall (A : Type) (a b : A), (if ofs then a else b) = a) by (intros; rewrite Ho; reflexivity). rewrite !Hif. clear Hif.
      unfold seek_ofs. pose proof (seek_start_kb s3 K3) as K0.
      destruct (seek_start bs ofs bad s3) as [[|] s0] eqn:Hss; cbn [negb fst snd] in *; [|intros _; apply (seek_start_fail_cur _ _ Hss)].
      assert (Hf0 : fsize s0 = fsize s) by (rewrite (kb_fsize s0 K0), <- (kb_fsize s K); reflexivity).
      rewrite Hf0. replace (Z.min p (fsize s)) with p by lia. destruct (Z.eqb_spec p (fsize s)); [lia|].
      destruct (ofs_walk bs ofs bad (Z.to_nat (p / bs + 2)) s0 0 p) as [[|] sw] eqn:Hwk; cbn [fst snd]; [intros Hd; discriminate|].
      intros _. apply (ofs_walk_fail_cur _ _ _ _ _ Hwk).
  Qed.

  (* ---- adfFileSeekEOF_: seek to size - 1, then step on to the end ---- *)
  Lemma eof_adjust s : CohT s -> cur s <> 0 -> pos s = fsize s - 1 -> 0 <= pind s < bs -> 0 < fsize s ->
    CohT (set_pind (set_pos s (fsize s)) (if fsize s mod bs =? 0 then bs else fsize s mod bs)).
  Proof.
    intros (I & R & Cc & Cd & Cf & Cw & Cr) Hc Hp Hpi Hsz.
    destruct (normal_facts bs ofs key s L E I Hc) as (Hcu & Hnn & Hpos & _ & Hle).
    set (pe := if fsize s mod bs =? 0 then bs else fsize s mod bs).
    assert (Hpe : pe = pind s + 1).
    { subst pe. assert (Hfs : fsize s = (ndb s - 1) * bs + (pind s + 1)) by lia.
      destruct (Z.eq_dec (pind s + 1) bs) as [He|He].
      - assert (Hm : fsize s mod bs = 0) by (rewrite Hfs, He; replace ((ndb s - 1) * bs + bs) with (ndb s * bs + 0) by lia; apply (mod_block bs); lia).
        rewrite Hm. cbn. lia.
      - assert (Hm : fsize s mod bs = pind s + 1) by (rewrite Hfs; apply (mod_block bs); lia). rewrite Hm. destruct (Z.eqb_spec (pind s + 1) 0); lia. }
    set (s' := set_pind (set_pos s (fsize s)) pe).
    assert (I' : Inv bs ofs key s' L E).
    { pose proof I as (B & HL & C). split; [apply (base_frame bs ofs key s); try reflexivity; assumption|]. split; [exact HL|].
      destruct C as [(_ & Hz & _)|(_ & _ & _ & _ & _ & Hlen & Hcl & Hnx & Hxc)]; [contradiction|]. right. subst s'. unfold fsize, ext_cursor in *. cbn.
      repeat match goal with |- _ /\ _ => split end; try assumption; try lia. }
    assert (R' : Repr bs s' L ct) by (apply (repr_frame bs s); try reflexivity; assumption).
    unfold CohT. split; [exact I'|]. split; [exact R'|]. subst s'. cbn. repeat split; assumption.
  Qed.

  Theorem seek_eof_faulty s q : Weak s -> (q = pos s \/ q <> fsize s - 1) -> 0 < fsize s ->
    KB (snd (seek_eof bs ofs bad (set_pos s q))) /\
    (fst (seek_eof bs ofs bad (set_pos s q)) = true -> cur (snd (seek_eof bs ofs bad (set_pos s q))) <> 0 ->
     CohT (snd (seek_eof bs ofs bad (set_pos s q))) /\ pos (snd (seek_eof bs ofs bad (set_pos s q))) = fsize s) /\
    (fst (seek_eof bs ofs bad (set_pos s q)) = false -> cur (snd (seek_eof bs ofs bad (set_pos s q))) = 0).
  Proof.
    intros W Hq Hsz. unfold seek_eof. change (fsize (set_pos s q)) with (fsize s). destruct (Z.eqb_spec (fsize s) 0); [lia|].
    destruct (seek_gen_inside (fun u => (false, u)) s q (fsize s - 1) W Hq ltac:(lia)) as (Ki & Hi & Hfail).
    destruct (seek_gen bs ofs bad (fun u => (false, u)) (set_pos s q) (fsize s - 1)) as [[|] si] eqn:Hg; cbn [fst snd negb] in *.
    - assert (Hfi : fsize si = fsize s) by (rewrite (kb_fsize si Ki); destruct W as (K & _); rewrite (kb_fsize s K); reflexivity).
      split; [apply (kb_fields si); try reflexivity; exact Ki|]. split; [|intros Hd; discriminate]. intros _ Hc. cbn [cur set_pind set_pos] in Hc.
      destruct (Hi eq_refl Hc) as (Co & Pi & Pd). rewrite <- Hfi in Pi.
      split; [apply (eof_adjust si Co Hc Pi Pd); lia|]. cbn. exact Hfi.
    - split; [exact Ki|]. split; [intros Hd; discriminate|intros _; apply Hfail; reflexivity].
  Qed.

  (* what a seek started on a failed state's leftovers needs: the state adfFileSeekStart_ leaves is Weak again *)
  Lemma seek_start_weak s : KB s -> Weak (snd (seek_start bs ofs bad s)).
  Proof.
    intros K. split; [apply seek_start_kb, K|]. destruct (seek_start bs ofs bad s) as [[|] s0] eqn:Hss; cbn [snd].
    - right. apply seek_start_mono in Hss. pose proof K as (Rdk & Rfh & Rc & Rw & Rr & Rcx & Rlen).
      destruct (seek_start_cb bs ofs key Hbs s L E (kb_cb s K) Rcx Rlen) as (s5 & Hs5 & I5 & P5 & C5 & D5 & F5 & W5 & M5 & N5).
      rewrite Hss in Hs5. injection Hs5 as <-.
      assert (R0 : Repr bs s0 L ct) by (apply (repr_clean bs ofs key Hbs t s0 L E ct It Hct I5 C5); [congruence|congruence|exact Rt]).
      unfold CohT. split; [exact I5|]. split; [exact R0|]. repeat split; congruence.
    - left. apply (seek_start_fail_dead s s0 Hss).
  Qed.

  (* ---- adfFileSeek from any clean state that is coherent or without a buffered block, to any position: what it leaves is KB - so the next
          seek can recover - and a success with a buffered block is coherent at the position ---- *)
  Theorem fio_seek_weak s p : Weak s -> 0 <= p -> 0 < fsize s ->
    KB (snd (fio_seek bs ofs bad s p)) /\
    (fst (fio_seek bs ofs bad s p) = true -> cur (snd (fio_seek bs ofs bad s p)) <> 0 ->
     CohT (snd (fio_seek bs ofs bad s p)) /\ pos (snd (fio_seek bs ofs bad s p)) = Z.min p (fsize s)) /\
    (fst (fio_seek bs ofs bad s p) = false -> cur (snd (fio_seek bs ofs bad s p)) = 0).
  Proof.
    intros W Hp Hsz. pose proof W as (K & Hw). pose proof K as (Kdk & Kfh & Kc & Kw & Kmr & Kcx & Klen).
    assert (Heq : set_pos s (pos s) = s) by (apply state_ext; reflexivity).
    destruct (Z.ltb_spec p (fsize s)) as [Hlt|Hge].
    { destruct (seek_gen_inside (seek_eof bs ofs bad) s (pos s) p W ltac:(left; reflexivity) ltac:(lia)) as (H1 & H2 & H3).
      rewrite Heq in H1, H2, H3. unfold fio_seek. split; [exact H1|]. split; [|exact H3]. intros Hok Hc. destruct (H2 Hok Hc) as (Co & P & _). split; [exact Co|lia]. }
    replace (Z.min p (fsize s)) with (fsize s) by lia.
    unfold fio_seek, seek_gen.
    destruct ((pos s =? p) && negb (cur s =? 0) && negb (pind s =? bs)) eqn:H1.
    { apply andb_prop in H1. destruct H1 as (H1 & _). apply andb_prop in H1. destruct H1 as (H1 & H2). apply Z.eqb_eq in H1.
      destruct (Z.eqb_spec (cur s) 0) as [|Hc]; [discriminate|]. destruct Hw as [Hz|Co]; [contradiction|]. cbn [fst snd]. split; [exact K|]. split; [|intros Hd; discriminate]. intros _ _. split; [exact Co|].
      destruct Co as (I & _). destruct (normal_facts bs ofs key s L E I Hc) as (_ & _ & _ & _ & Hle). lia. }
    destruct (negb (cur s =? 0) && ((if 0 <? ndb s then ndb s - 1 else 0) =? p / bs)) eqn:H2.
    { (* the end lies in the buffered block: no device access, the very computation of the fault-free seek *)
      apply andb_prop in H2. destruct H2 as (H2a & H2b). destruct (Z.eqb_spec (cur s) 0) as [|Hc]; [discriminate|]. destruct Hw as [Hz|Co]; [contradiction|].
      destruct Co as (I & R & Cc & Cd & Cf & Cw & Cr).
      destruct (fio_seek_ok bs ofs key Hbs s L E ct p I R Hp) as (s1 & Hs1 & I1 & R1 & P1 & F1 & W1 & M1).
      assert (Hcz : (cur s =? 0) = false) by (destruct (Z.eqb_spec (cur s) 0); [contradiction|reflexivity]).
      unfold fio_seek, seek_gen in Hs1. rewrite Hcz in Hs1. rewrite H1 in Hs1. cbn [negb andb] in Hs1.
      rewrite H2b in Hs1. injection Hs1 as Hs1. rewrite Hs1. cbn [fst snd].
      assert (Co1 : CohT s1).
      { unfold CohT. split; [exact I1|]. split; [exact R1|]. rewrite <- Hs1. cbn. repeat split; assumption. }
      split; [apply coh_kb, Co1|]. split; [|intros Hd; discriminate]. intros _ _. split; [exact Co1|]. rewrite P1. lia. }
    rewrite Kc, andb_false_r.
    destruct (Z.eqb_spec p 0); [lia|]. cbv zeta. replace (Z.min p (fsize s)) with (fsize s) by lia.
    change (pos (set_pos s (fsize s))) with (fsize s). change (fsize (set_pos s (fsize s))) with (fsize s). rewrite Z.eqb_refl.
    destruct (seek_eof_faulty s (fsize s) W ltac:(right; lia) Hsz) as (Kr & Hr & Hfr).
    destruct (seek_eof bs ofs bad (set_pos s (fsize s))) as [[|] sr] eqn:Hse; cbn [fst snd] in *.
    - unfold seek_fb. cbn [fst snd negb andb]. split; [exact Kr|]. split; [|intros Hd; discriminate]. intros _ Hc. exact (Hr eq_refl Hc).
    - unfold seek_fb. cbn [fst snd negb andb].
      destruct (Bool.bool_dec ofs true) as [Ho|Ho].
      2:{ apply Bool.not_true_is_false in Ho. assert (Hif : forall (A : Type) (a b : A), (if ofs then a else b) = b) by (intros; rewrite Ho; reflexivity).
          rewrite !Hif. cbn [fst snd]. split; [exact Kr|]. split; [intros Hd; discriminate|intros _; apply Hfr; reflexivity]. }
      assert (Hif : forall (A : Type) (a b : A), (if ofs then a else b) = a) by (intros; rewrite Ho; reflexivity). rewrite !Hif. clear Hif.
      unfold seek_ofs. pose proof (seek_start_weak sr Kr) as W0.
      destruct (seek_start bs ofs bad sr) as [[|] s0] eqn:Hss; cbn [negb fst snd] in *.
      2:{ destruct W0 as (K0 & _). split; [exact K0|]. split; [intros Hd; discriminate|intros _; apply (seek_start_fail_cur _ _ Hss)]. }
      pose proof W0 as (K0 & _).
      assert (Hf0 : fsize s0 = fsize s) by (rewrite (kb_fsize s0 K0), <- (kb_fsize s K); reflexivity).
      rewrite Hf0. replace (Z.min p (fsize s)) with (fsize s) by lia. rewrite Z.eqb_refl.
      assert (Heq0 : set_pos s0 (pos s0) = s0) by (apply state_ext; reflexivity).
      destruct (seek_eof_faulty s0 (pos s0) W0 ltac:(left; reflexivity) ltac:(lia)) as (Kr0 & Hr0 & Hfr0). rewrite Heq0, Hf0 in *.
      split; [exact Kr0|]. split; [exact Hr0|exact Hfr0].
  Qed.
End Fault.

Section Top.
  Variable bs : Z.
  Variable ofs : bool.
  Variable key : Z.
  Hypothesis Hbs : 0 < bs.
  Variable bad : Z -> bool.

  (* adfFileSeek to a position inside the file under an arbitrary set of unreadable blocks, OFS fallback included: if it reports success and
     leaves a buffered block, the handle is coherent at the requested position and stands for the same content - whichever way it got there *)
  Theorem fio_seek_faulty_inside s L E ct p s' : Inv bs ofs key s L E -> Repr bs s L ct -> 0 <= p < fsize s ->
    fio_seek bs ofs bad s p = (true, s') -> cur s' <> 0 -> Inv bs ofs key s' L E /\ Repr bs s' L ct /\ pos s' = p.
  Proof.
    intros I R Hp H Hcur.
    destruct (fio_seek_ok bs ofs key Hbs s L E ct p I R ltac:(lia)) as (s1 & H1 & I1 & R1 & P1 & _).
    replace (Z.min p (fsize s)) with p in P1 by lia.
    unfold fio_seek, seek_gen in H, H1.
    destruct ((pos s =? p) && negb (cur s =? 0) && negb (pind s =? bs)).
    { rewrite H in H1. injection H1 as <-. split; [exact I1|]. split; [exact R1|exact P1]. }
    destruct (negb (cur s =? 0) && ((if 0 <? ndb s then ndb s - 1 else 0) =? p / bs)).
    { rewrite H in H1. injection H1 as <-. split; [exact I1|]. split; [exact R1|exact P1]. }
    clear H1 I1 R1 P1 s1.
    destruct (settle_ok bs ofs key Hbs s L E I) as (It & Hct & (Spos & Spinx & Spind & Sndb & Scur & Scext & Sfh & Smw & Smr & Sby & Snx) & Htr).
    change (if mw s && chg s then set_chg (fio_flush bs ofs s) false else s) with (settle bs ofs s) in H.
    set (t := settle bs ofs s) in *.
    assert (Rt : Repr bs t L ct).
    { apply (repr_same bs Hbs s t L ct); [unfold fsize; rewrite Sfh; reflexivity|destruct I as (_ & HL & _); exact HL|exact Htr|exact R]. }
    assert (Hft : fsize t = fsize s) by (unfold fsize; rewrite Sfh; reflexivity).
    destruct (Z.eqb_spec p 0) as [H0|H0].
    - (* to the start *)
      apply seek_start_mono in H.
      destruct (seek_start_ok bs ofs key Hbs t L E ct It Hct Rt) as (s2 & H2 & I2 & R2 & P2 & _). rewrite H in H2. injection H2 as <-.
      split; [exact I2|]. split; [exact R2|lia].
    - cbv zeta in H. rewrite Hft in H. replace (Z.min p (fsize s)) with p in H by lia.
      change (pos (set_pos t p)) with p in H. change (fsize (set_pos t p)) with (fsize t) in H. rewrite Hft in H.
      destruct (Z.eqb_spec p (fsize s)); [lia|].
      destruct (seek_inside_faulty bs ofs key Hbs bad L E ct t It Hct Rt (seek_eof bs ofs bad) (set_pos t p) p s') as ((I' & R' & _) & P' & _); try assumption; try reflexivity.
      + apply (kb_fields bs key L E t t); try reflexivity. apply (kb_t bs ofs key L E t It Hct).
      + change (fsize (set_pos t p)) with (fsize t). lia.
      + split; [exact I'|]. split; [exact R'|exact P'].
  Qed.

  (* ... and to the end of the file or beyond it: adfFileSeekEOF_ seeks to size - 1 and steps on; when that fails, the fallback goes back to the
     start and calls adfFileSeekEOF_ again from what the failed attempt left *)
  Theorem fio_seek_faulty_eof s L E ct p s' : Inv bs ofs key s L E -> Repr bs s L ct -> 0 < fsize s <= p ->
    fio_seek bs ofs bad s p = (true, s') -> cur s' <> 0 -> Inv bs ofs key s' L E /\ Repr bs s' L ct /\ pos s' = fsize s.
  Proof.
    intros I R Hp H Hcur.
    destruct (fio_seek_ok bs ofs key Hbs s L E ct p I R ltac:(lia)) as (s1 & H1 & I1 & R1 & P1 & _).
    replace (Z.min p (fsize s)) with (fsize s) in P1 by lia.
    unfold fio_seek, seek_gen in H, H1.
    destruct ((pos s =? p) && negb (cur s =? 0) && negb (pind s =? bs)).
    { rewrite H in H1. injection H1 as <-. split; [exact I1|]. split; [exact R1|exact P1]. }
    destruct (negb (cur s =? 0) && ((if 0 <? ndb s then ndb s - 1 else 0) =? p / bs)).
    { rewrite H in H1. injection H1 as <-. split; [exact I1|]. split; [exact R1|exact P1]. }
    clear H1 I1 R1 P1 s1.
    destruct (settle_ok bs ofs key Hbs s L E I) as (It & Hct & (Spos & Spinx & Spind & Sndb & Scur & Scext & Sfh & Smw & Smr & Sby & Snx) & Htr).
    change (if mw s && chg s then set_chg (fio_flush bs ofs s) false else s) with (settle bs ofs s) in H.
    set (t := settle bs ofs s) in *.
    assert (Rt : Repr bs t L ct).
    { apply (repr_same bs Hbs s t L ct); [unfold fsize; rewrite Sfh; reflexivity|destruct I as (_ & HL & _); exact HL|exact Htr|exact R]. }
    assert (Hft : fsize t = fsize s) by (unfold fsize; rewrite Sfh; reflexivity).
    destruct (Z.eqb_spec p 0) as [H0|H0]; [lia|].
    cbv zeta in H. rewrite Hft in H. replace (Z.min p (fsize s)) with (fsize s) in H by lia.
    change (pos (set_pos t (fsize s))) with (fsize s) in H. change (fsize (set_pos t (fsize s))) with (fsize t) in H. rewrite Hft, Z.eqb_refl in H.
    assert (Cot : CohT bs ofs key L E ct t t) by (unfold CohT; split; [exact It|split; [exact Rt|repeat split; assumption]]).
    assert (Wt : Weak bs ofs key L E ct t t) by (split; [apply (kb_t bs ofs key L E t It Hct)|right; exact Cot]).
    destruct (seek_eof_faulty bs ofs key Hbs bad L E ct t It Hct Rt t (fsize s) Wt ltac:(right; lia) ltac:(lia)) as (Kr & Hr & _).
    destruct (seek_eof bs ofs bad (set_pos t (fsize s))) as [[|] sr] eqn:Hse; cbn [fst snd] in *.
    - (* the first attempt succeeded *)
      unfold seek_fb in H. cbn [fst negb andb] in H. injection H as <-.
      destruct (Hr eq_refl Hcur) as ((I' & R' & _) & P'). split; [exact I'|]. split; [exact R'|lia].
    - (* it failed: the OFS fallback - back to the start, adfFileSeekEOF_ again *)
      unfold seek_fb in H. cbn [fst snd negb andb] in H.
      assert (H' : seek_ofs bs ofs bad (seek_eof bs ofs bad) sr p = (true, s')).
      { destruct (Bool.bool_dec ofs true) as [Hofs|Hofs].
        - revert H. generalize (seek_ofs bs ofs bad (seek_eof bs ofs bad) sr p). intros r H. rewrite Hofs in H. exact H.
        - apply Bool.not_true_is_false in Hofs. revert H. generalize (seek_ofs bs ofs bad (seek_eof bs ofs bad) sr p). intros r H. rewrite Hofs in H. discriminate. }
      clear H. unfold seek_ofs in H'.
      pose proof (seek_start_weak bs ofs key Hbs bad L E ct t It Hct Rt sr Kr) as W0.
      destruct (seek_start bs ofs bad sr) as [[|] s0] eqn:Hss; cbn [negb snd] in *; [|discriminate].
      pose proof W0 as (K0 & _).
      assert (Hf0 : fsize s0 = fsize s) by (rewrite (kb_fsize bs key L E t s0 K0); exact Hft).
      rewrite Hf0 in H'. replace (Z.min p (fsize s)) with (fsize s) in H' by lia. rewrite Z.eqb_refl in H'.
      assert (Heq : set_pos s0 (pos s0) = s0) by (apply state_ext; reflexivity).
      destruct (seek_eof_faulty bs ofs key Hbs bad L E ct t It Hct Rt s0 (pos s0) W0 ltac:(left; reflexivity) ltac:(lia)) as (_ & Hr0 & _).
      rewrite Heq, H' in Hr0. cbn [fst snd] in Hr0.
      destruct (Hr0 eq_refl Hcur) as ((I' & R' & _) & P'). split; [exact I'|]. split; [exact R'|lia].
  Qed.

  (* both together *)
  Theorem fio_seek_faulty s L E ct p s' : Inv bs ofs key s L E -> Repr bs s L ct -> 0 <= p -> 0 < fsize s ->
    fio_seek bs ofs bad s p = (true, s') -> cur s' <> 0 -> Inv bs ofs key s' L E /\ Repr bs s' L ct /\ pos s' = Z.min p (fsize s).
  Proof.
    intros I R Hp Hsz H Hcur. destruct (Z.ltb_spec p (fsize s)) as [Hlt|Hge].
    - replace (Z.min p (fsize s)) with p by lia. apply (fio_seek_faulty_inside s L E ct p s' I R ltac:(lia) H Hcur).
    - replace (Z.min p (fsize s)) with (fsize s) by lia. apply (fio_seek_faulty_eof s L E ct p s' I R ltac:(lia) H Hcur).
  Qed.

  (* ... so the read that follows - itself under any fault set - returns a prefix of the file's true bytes at that position: fewer bytes,
     never wrong ones (C19), whether the seek went through the tables or through the OFS fallback *)
  Corollary seek_then_read_faulty bad2 s L E ct p s' n : Inv bs ofs key s L E -> Repr bs s L ct -> 0 <= p -> 0 < fsize s -> 0 <= n ->
    fio_seek bs ofs bad s p = (true, s') ->
    exists s'' m, fio_read bs ofs bad2 s' n = (s'', sub ct (Z.min p (fsize s)) m) /\ 0 <= m <= Z.max 0 (Z.min n (fsize s - Z.min p (fsize s))).
  Proof.
    intros I R Hp Hsz Hn H. destruct (Z.eq_dec (cur s') 0) as [Hc|Hc].
    - exists s', 0. split; [|lia]. unfold fio_read. rewrite Hc. cbn [Z.eqb]. rewrite !orb_true_r. unfold sub. cbn. reflexivity.
    - destruct (fio_seek_faulty s L E ct p s' I R Hp Hsz H Hc) as (I' & R' & P').
      destruct (fio_read_faulty bs ofs key Hbs bad2 s' L E ct n I' R' Hn) as (s'' & r & m & Hrd & Hm & Hr & _).
      assert (Hf : fsize s' = fsize s) by (destruct R as (Hl & _); destruct R' as (Hl' & _); lia).
      exists s'', m. rewrite P' in Hr, Hm. rewrite Hf in Hm. subst r. split; [exact Hrd|exact Hm].
  Qed.
End Top.

(* ---- any history of reads and seeks under device read faults ---- *)
Section Hist.
  Variable bs : Z.
  Variable ofs : bool.
  Variable key : Z.
  Hypothesis Hbs : 0 < bs.
  Variables L E ct : list Z.

  (* what a handle can be after such a history: coherent; or clean, with the volume and header of a coherent clean state of the same file and
     content, and either no buffered block or a coherent cursor *)
  Definition Hst (s : hstate) : Prop :=
    (Inv bs ofs key s L E /\ Repr bs s L ct) \/
    (exists t, Inv bs ofs key t L E /\ chg t = false /\ Repr bs t L ct /\ Weak bs ofs key L E ct t s).

  Lemma hst_fsize s : Hst s -> fsize s = len ct.
  Proof.
    intros [(I & (Hl & _))|(t & It & Hct & (Hl & _) & (K & _))]; [symmetry; exact Hl|].
    rewrite (kb_fsize bs key L E t s K). symmetry. exact Hl.
  Qed.

  Lemma seek_settle bad eofk s p : Inv bs ofs key s L E ->
    (pos s =? p) && negb (cur s =? 0) && negb (pind s =? bs) = false ->
    negb (cur s =? 0) && ((if 0 <? ndb s then ndb s - 1 else 0) =? p / bs) = false ->
    seek_gen bs ofs bad eofk s p = seek_gen bs ofs bad eofk (settle bs ofs s) p.
  Proof.
    intros I H1 H2. destruct (settle_ok bs ofs key Hbs s L E I) as (_ & Hct & (Spos & _ & Spind & Sndb & Scur & _ & _ & Smw & _) & _).
    unfold seek_gen. rewrite Spos, Scur, Spind, Sndb, H1, H2, Hct, andb_false_r. reflexivity.
  Qed.

  Theorem hst_seek bad s p : Hst s -> 0 <= p -> 0 < len ct ->
    Hst (snd (fio_seek bs ofs bad s p)) /\
    (fst (fio_seek bs ofs bad s p) = true -> cur (snd (fio_seek bs ofs bad s p)) <> 0 -> pos (snd (fio_seek bs ofs bad s p)) = Z.min p (len ct)).
  Proof.
    intros H Hp Hsz. pose proof (hst_fsize s H) as Hfs.
    assert (Gen : forall t u, Inv bs ofs key t L E -> chg t = false -> Repr bs t L ct -> Weak bs ofs key L E ct t u ->
              Hst (snd (fio_seek bs ofs bad u p)) /\
              (fst (fio_seek bs ofs bad u p) = true -> cur (snd (fio_seek bs ofs bad u p)) <> 0 -> pos (snd (fio_seek bs ofs bad u p)) = Z.min p (len ct))).
    { intros t u It Hct Rt W. pose proof W as (Ku & _).
      assert (Hfu : fsize u = len ct) by (rewrite (kb_fsize bs key L E t u Ku); destruct Rt as (Hl & _); symmetry; exact Hl).
      destruct (fio_seek_weak bs ofs key Hbs bad L E ct t It Hct Rt u p W Hp ltac:(lia)) as (K' & Hs' & Hf').
      destruct (fio_seek bs ofs bad u p) as [ok u'] eqn:Hsk. cbn [fst snd] in *. split.
      - right. exists t. split; [exact It|]. split; [exact Hct|]. split; [exact Rt|]. split; [exact K'|].
        destruct (Z.eq_dec (cur u') 0) as [Hc|Hc]; [left; exact Hc|]. right. destruct ok; [apply (Hs' eq_refl Hc)|exfalso; apply Hc, Hf'; reflexivity].
      - intros Hok Hc. destruct (Hs' Hok Hc) as (_ & P'). rewrite P', Hfu. reflexivity. }
    destruct H as [(I & R)|(t & It & Hct & Rt & W)]; [|apply (Gen t s It Hct Rt W)].
    unfold fio_seek.
    destruct ((pos s =? p) && negb (cur s =? 0) && negb (pind s =? bs)) eqn:H1;
      [|destruct (negb (cur s =? 0) && ((if 0 <? ndb s then ndb s - 1 else 0) =? p / bs)) eqn:H2].
    3:{ (* the general case: flush, then the seek of a clean coherent state *)
        rewrite (seek_settle bad (seek_eof bs ofs bad) s p I H1 H2).
        destruct (settle_ok bs ofs key Hbs s L E I) as (It & Hct & (_ & _ & _ & _ & _ & _ & Sfh & _) & Htr).
        set (t := settle bs ofs s) in *.
        assert (Rt : Repr bs t L ct).
        { apply (repr_same bs Hbs s t L ct); [unfold fsize; rewrite Sfh; reflexivity|destruct I as (_ & HL & _); exact HL|exact Htr|exact R]. }
        apply (Gen t t It Hct Rt). split; [apply (kb_t bs ofs key L E t It Hct)|]. right. unfold CohT. split; [exact It|]. split; [exact Rt|]. repeat split; assumption. }
    (* the two early returns: no device access, the computation of the fault-free seek *)
    all: destruct (fio_seek_ok bs ofs key Hbs s L E ct p I R Hp) as (s1 & Hs1 & I1 & R1 & P1 & _);
         unfold fio_seek, seek_gen in Hs1; unfold seek_gen; rewrite H1 in *; try rewrite H2 in *.
    - injection Hs1 as Hs1. cbn [fst snd]. rewrite Hs1. split; [left; split; assumption|]. intros _ _. rewrite P1, Hfs. reflexivity.
    - injection Hs1 as Hs1. cbn [fst snd]. rewrite Hs1. split; [left; split; assumption|]. intros _ _. rewrite P1, Hfs. reflexivity.
  Qed.

  (* adfFileRead under faults from a coherent state: the bytes delivered are a prefix of the true ones, and what is left is a state of Hst *)
  Lemma read_loop_hst bad : forall fuel s n, Inv bs ofs key s L E -> Repr bs s L ct -> cur s <> 0 -> 0 <= n -> pos s + n <= fsize s ->
    exists s' r m, read_loop bs ofs bad fuel s n = (s', r) /\ 0 <= m <= n /\ r = sub ct (pos s) m /\ len r = m /\ Hst s'.
  Proof.
    induction fuel as [|fuel IH]; intros s n I R Hc Hn Hle.
    - exists s, [], 0. repeat match goal with |- _ /\ _ => split end; try reflexivity; try lia. left. split; assumption.
    - cbn [read_loop]. destruct (Z.leb_spec n 0) as [Hz|Hz].
      { exists s, [], 0. repeat match goal with |- _ /\ _ => split end; try reflexivity; try lia. left. split; assumption. }
      assert (Hpos0 : 0 <= pos s) by (destruct (normal_facts bs ofs key s L E I Hc) as (_ & Hnn & Hp & Hpi & _); nia).
      assert (Hlct : len ct = fsize s) by (destruct R as (Hl & _); exact Hl).
      change (if mw s && chg s then set_chg (fio_flush bs ofs s) false else s) with (settle bs ofs s).
      destruct (Z.eqb_spec (pind s) bs) as [Hb|Hb].
      + (* the next block is needed *)
        destruct (settle_ok bs ofs key Hbs s L E I) as (It & Hct & (Spos & Spinx & Spind & Sndb & Scur & Scext & Sfh & Smw & Smr & Sby & Snx) & Htr).
        set (t := settle bs ofs s) in *.
        assert (Rt : Repr bs t L ct).
        { apply (repr_same bs Hbs s t L ct); [unfold fsize; rewrite Sfh; reflexivity|destruct I as (_ & HL & _); exact HL|exact Htr|exact R]. }
        assert (Hft : fsize t = fsize s) by (unfold fsize; rewrite Sfh; reflexivity).
        assert (Hct0 : cur t <> 0) by (rewrite Scur; exact Hc).
        assert (Hlt : pos t < fsize t) by (rewrite Spos, Hft; lia).
        pose proof (ndb_lt_len bs ofs key Hbs t L E It Hct0 ltac:(rewrite Spind; exact Hb) Hlt) as Hnl.
        destruct (normal_facts bs ofs key t L E It Hct0) as (_ & Hnn1 & _).
        assert (Hcur1 : ext_cursor key t L E (ndb t - 1) /\ (ofs = true -> 1 <= ndb t -> d_next (cdata t) = nthZ L (ndb t))).
        { destruct It as (_ & _ & [(_ & Hz0 & _)|(_ & _ & _ & _ & _ & _ & _ & Hnx & Hxc)]); [contradiction|]. split; [exact Hxc|]. intros Ho _. apply Hnx; assumption. }
        pose proof (read_next_kb bs ofs key bad L E t It Hct t (kb_t bs ofs key L E t It Hct) ltac:(lia) (proj1 Hcur1) (proj2 Hcur1)) as Kn.
        destruct (read_next bs ofs bad t) as [[|] sn] eqn:Hrn; cbn [snd] in Kn.
        * (* fetched: the fault-free fetch *)
          pose proof (read_next_mono bs ofs bad _ _ Hrn) as Hrn0.
          destruct (advance_ok bs ofs key Hbs s L E ct I R Hc Hb ltac:(lia)) as (sn0 & Hrn1 & I1 & R1 & P1 & C1 & Pi1 & F1 & W1 & M1 & _).
          fold t in Hrn1. rewrite Hrn0 in Hrn1. injection Hrn1 as <-. cbn [negb].
          set (s1 := set_chg (set_pind sn 0) false) in *. clearbody s1.
          set (size := Z.min n (bs - pind s1)).
          assert (Hsz : 0 < size <= n /\ pind s1 + size <= bs) by (subst size; rewrite Pi1; lia).
          set (s2 := set_pind (set_pos s1 (pos s1 + size)) (pind s1 + size)).
          assert (I2 : Inv bs ofs key s2 L E).
          { destruct I1 as (B1 & HL1 & C1'). split; [|split].
            - apply (base_frame bs ofs key s1); try reflexivity. assumption.
            - exact HL1.
            - destruct C1' as [(_ & Hz0 & _)|(Hcu & Hnn & Hp & Hpi & Hps & Hlen & Hcl & Hnx & Hxc)]; [contradiction|].
              right. subst s2. unfold fsize, ext_cursor in *. simpl. repeat match goal with |- _ /\ _ => split end; try assumption; try lia.
              rewrite F1. unfold fsize in Hle. lia. }
          assert (R2 : Repr bs s2 L ct) by (apply (repr_frame bs s1); try reflexivity; assumption).
          destruct (IH s2 (n - size) I2 R2 C1 ltac:(lia)) as (s3 & r & m & Hrl & Hm & Hr & Hlr & H3).
          { subst s2. unfold fsize in *. simpl. rewrite F1. lia. }
          fold size. fold s2. rewrite Hrl. exists s3, (sub (d_bytes (cdata s1)) (pind s1) size ++ r), (size + m).
          rewrite (chunk_ok bs ofs key Hbs s1 L E ct size I1 R1 C1) by (unfold fsize in *; rewrite ?F1; lia).
          repeat match goal with |- _ /\ _ => split end; try reflexivity; try lia; try exact H3.
          -- rewrite Hr. subst s2. simpl. rewrite P1. rewrite sub_app by lia. reflexivity.
          -- rewrite len_app, Hlr. rewrite len_sub by lia. lia.
        * (* the fetch failed: nothing more is delivered; the handle has no buffered block *)
          cbn [negb]. exists (set_cur sn 0), [], 0. repeat match goal with |- _ /\ _ => split end; try reflexivity; try lia.
          right. exists t. split; [exact It|]. split; [exact Hct|]. split; [exact Rt|]. split; [|left; reflexivity].
          apply (kb_fields bs key L E t sn); try reflexivity. exact Kn.
      + (* bytes of the buffered block *)
        cbn [negb]. destruct (normal_facts bs ofs key s L E I Hc) as (_ & _ & _ & Hpi & _).
        set (size := Z.min n (bs - pind s)).
        assert (Hsz : 0 < size <= n /\ pind s + size <= bs) by (subst size; lia).
        set (s2 := set_pind (set_pos s (pos s + size)) (pind s + size)).
        assert (I2 : Inv bs ofs key s2 L E).
        { destruct I as (B1 & HL1 & C1'). split; [|split].
          - apply (base_frame bs ofs key s); try reflexivity. assumption.
          - exact HL1.
          - destruct C1' as [(_ & Hz0 & _)|(Hcu & Hnn & Hp & Hpi' & Hps & Hlen & Hcl & Hnx & Hxc)]; [contradiction|].
            right. subst s2. unfold fsize, ext_cursor in *. cbn. repeat match goal with |- _ /\ _ => split end; try assumption; try lia. }
        assert (R2 : Repr bs s2 L ct) by (apply (repr_frame bs s); try reflexivity; assumption).
        destruct (IH s2 (n - size) I2 R2 Hc ltac:(lia)) as (s3 & r & m & Hrl & Hm & Hr & Hlr & H3).
        { subst s2. unfold fsize in *. cbn. lia. }
        fold size. fold s2. rewrite Hrl. exists s3, (sub (d_bytes (cdata s)) (pind s) size ++ r), (size + m).
        rewrite (chunk_ok bs ofs key Hbs s L E ct size I R Hc) by lia.
        repeat match goal with |- _ /\ _ => split end; try reflexivity; try lia; try exact H3.
        * rewrite Hr. subst s2. cbn. rewrite sub_app by lia. reflexivity.
        * rewrite len_app, Hlr. rewrite len_sub by lia. lia.
  Qed.

  Theorem hst_read bad s n : Hst s -> 0 <= n ->
    Hst (fst (fio_read bs ofs bad s n)) /\ exists m, snd (fio_read bs ofs bad s n) = sub ct (pos s) m /\ 0 <= m <= n.
  Proof.
    intros H Hn.
    assert (Gen : Inv bs ofs key s L E -> Repr bs s L ct -> Hst (fst (fio_read bs ofs bad s n)) /\ exists m, snd (fio_read bs ofs bad s n) = sub ct (pos s) m /\ 0 <= m <= n).
    { intros I R. pose proof I as (B & HL & C). pose proof (b_size _ _ _ _ _ _ B) as Hsz.
      assert (Hps : 0 <= pos s <= fsize s) by (destruct C as [(Hz & _ & Hp & _)|(_ & Hnn & Hp & Hpi & Hle & _)]; [lia|nia]).
      unfold fio_read, at_eof.
      destruct (negb (mr s) || (n =? 0) || (fsize s =? 0) || (pos s =? fsize s) || (cur s =? 0)) eqn:Hg.
      - cbn [fst snd]. split; [left; split; assumption|]. exists 0. split; [reflexivity|lia].
      - repeat (apply orb_false_elim in Hg; destruct Hg as (Hg & ?)). destruct (Z.eqb_spec (cur s) 0) as [|Hc]; [discriminate|].
        destruct (Z.eqb_spec n 0); [discriminate|]. destruct (Z.eqb_spec (pos s) (fsize s)); [discriminate|].
        set (n' := if fsize s <? pos s + n then fsize s - pos s else n).
        assert (Hn' : 0 < n' <= n /\ pos s + n' <= fsize s) by (subst n'; destruct (Z.ltb_spec (fsize s) (pos s + n)); lia).
        destruct (read_loop_hst bad (Z.to_nat (n' / bs + 2)) s n' I R Hc ltac:(lia) ltac:(lia)) as (s' & r & m & Hrl & Hm & Hr & _ & H').
        rewrite Hrl. cbn [fst snd]. split; [exact H'|]. exists m. split; [exact Hr|lia]. }
    destruct H as [(I & R)|(t & It & Hct & Rt & (K & [Hc|Co]))]; [apply Gen; assumption| |destruct Co as (I & R & _); apply Gen; assumption].
    unfold fio_read. rewrite Hc. cbn [Z.eqb]. rewrite !orb_true_r. cbn [fst snd].
    split; [right; exists t; split; [exact It|split; [exact Hct|split; [exact Rt|split; [exact K|left; exact Hc]]]]|]. exists 0. split; [reflexivity|lia].
  Qed.
  (* ---- the history theorem: any sequence of reads and seeks, each call under its own arbitrary set of unreadable blocks ---- *)
  Inductive rop := RRead (bad : Z -> bool) (n : Z) | RSeek (bad : Z -> bool) (p : Z).
  Definition rop_ok (o : rop) : Prop := match o with RRead _ n => 0 <= n | RSeek _ p => 0 <= p end.

  (* the reads of a history: (position before the call, bytes delivered) *)
  Fixpoint run_r (s : hstate) (ops : list rop) : hstate * list (Z * list Z) :=
    match ops with
    | [] => (s, [])
    | RRead bad n :: r => let '(s1, bytes) := fio_read bs ofs bad s n in let '(s2, tr) := run_r s1 r in (s2, (pos s, bytes) :: tr)
    | RSeek bad p :: r => run_r (snd (fio_seek bs ofs bad s p)) r
    end.

  Theorem hst_history : forall ops s, Hst s -> 0 < len ct -> Forall rop_ok ops ->
    Hst (fst (run_r s ops)) /\ Forall (fun e => exists m, snd e = sub ct (fst e) m) (snd (run_r s ops)).
  Proof.
    induction ops as [|o ops IH]; intros s H Hsz Hok; [split; [exact H|constructor]|].
    inversion Hok as [|? ? Ho Hok']; subst. destruct o as [bad n|bad p]; cbn [run_r rop_ok] in *.
    - destruct (hst_read bad s n H Ho) as (H1 & m & Hr & _).
      destruct (fio_read bs ofs bad s n) as (s1, bytes). cbn [fst snd] in *.
      destruct (IH s1 H1 Hsz Hok') as (H2 & Htr). destruct (run_r s1 ops) as (s2, tr). cbn [fst snd] in *.
      split; [exact H2|]. constructor; [exists m; exact Hr|exact Htr].
    - destruct (hst_seek bad s p H Ho Hsz) as (H1 & _). apply (IH _ H1 Hsz Hok').
  Qed.
End Hist.

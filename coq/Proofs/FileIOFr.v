(* The frame of the file handle operations (C18): which blocks of the volume a call may change.  `Fr S s s'` = outside the set S the
   volume of s' is the volume of s.  The only writes of Model/FileIO.v are `wr` calls, and their targets are: the header key kept in the
   in-memory header, the block number of the buffered data block (curDataPtr), the key of the buffered extension block.  `Own S s` says
   these three lie in S; the lemmas here need nothing else.  Proofs/FileIOP.v derives Own from the handle invariant
   (S = header :: data blocks ++ extension blocks of THIS file) and carries the frame through the loops. *)
From Coq Require Import ZArith List Bool Lia.
From ADF Require Import CPrelude Model.FileIO Proofs.FileIOL.
Import ListNotations.
Local Open Scope Z_scope.

Definition Fr (S : list Z) (s s' : hstate) : Prop := forall n, ~ In n S -> dk s' n = dk s n.

Definition Own (S : list Z) (s : hstate) : Prop :=
  In (h_key (fh s)) S /\ (cur s = 0 \/ In (cur s) S) /\ (forall x, cext s = Some x -> x_key x = 0 \/ In (x_key x) S).

Lemma fr_refl S s : Fr S s s.
Proof. intros n _. reflexivity. Qed.
Lemma fr_dk S s s' : dk s' = dk s -> Fr S s s'.
Proof. intros H n _. rewrite H. reflexivity. Qed.
Lemma fr_mono S S' a b : incl S S' -> Fr S a b -> Fr S' a b.
Proof. intros Hi H n Hn. apply H. intros Hc. apply Hn, Hi, Hc. Qed.
Lemma fr_trans S a b c : Fr S a b -> Fr S b c -> Fr S a c.
Proof. intros H1 H2 n Hn. rewrite H2, H1 by assumption. reflexivity. Qed.
Lemma fr_trans2 S S' a b c : incl S S' -> Fr S a b -> Fr S' b c -> Fr S' a c.
Proof. intros Hi H1 H2. apply (fr_trans S' a b c); [apply (fr_mono S S'); assumption|assumption]. Qed.

Section Fr.
  Variable bs : Z.
  Variable ofs : bool.
  Variable bad : Z -> bool.

  Lemma wr_other s n b k : k <> n -> dk (wr s n b) k = dk s k.
  Proof. intros H. unfold wr. cbn. destruct (Z.eqb_spec k n); [contradiction|reflexivity]. Qed.

  Lemma flush_fr S s : Own S s -> Fr S s (fio_flush bs ofs s).
  Proof.
    intros (Hk & Hc & Hx) n Hn. unfold fio_flush. destruct (mw s); cbn [negb]; [|reflexivity].
    assert (Hnk : n <> h_key (fh s)) by (intros ->; contradiction).
    set (s1 := match cext s with Some x => if x_key x =? 0 then s else wr s (x_key x) (BExt x) | None => s end).
    assert (H1 : dk s1 n = dk s n /\ fh s1 = fh s /\ cur s1 = cur s).
    { subst s1. destruct (cext s) as [x|] eqn:Ex; [|repeat split]. destruct (Z.eqb_spec (x_key x) 0) as [|Hx0]; [repeat split|].
      split; [|split; reflexivity]. apply wr_other. intros ->. destruct (Hx x eq_refl); contradiction. }
    destruct H1 as (H1 & Hf1 & Hc1). clearbody s1.
    set (s2 := if (0 <? fsize s1) && negb (cur s1 =? 0) then _ else s1).
    assert (H2 : dk s2 n = dk s1 n /\ fh s2 = fh s1).
    { subst s2. destruct ((0 <? fsize s1) && negb (cur s1 =? 0)) eqn:Hd; [|split; reflexivity].
      split; [|reflexivity]. apply andb_prop in Hd. destruct Hd as (_ & Hd). rewrite wr_other; [reflexivity|].
      intros ->. rewrite Hc1 in Hd, Hn. destruct Hc as [Hc|Hc]; [rewrite Hc in Hd; discriminate|contradiction]. }
    destruct H2 as (H2 & Hf2). clearbody s2. rewrite wr_other by (rewrite Hf2, Hf1; exact Hnk). rewrite H2. exact H1.
  Qed.

  (* ---- the functions that only read ---- *)
  Lemma load_ext_dk s n : dk (snd (load_ext bad s n)) = dk s.
  Proof. unfold load_ext. destruct (rd_ext bad s n); reflexivity. Qed.

  Lemma read_next_dk s : dk (snd (read_next bs ofs bad s)) = dk s.
  Proof.
    unfold read_next.
    set (P := if ndb s =? 0 then _ else _).
    assert (HP : dk (snd (fst P)) = dk s).
    { subst P. destruct (ndb s =? 0); [reflexivity|]. destruct (ndb s <? MAXDB); [reflexivity|].
      set (Q := if ndb s =? MAXDB then _ else _).
      assert (HQ : dk (snd Q) = dk s).
      { subst Q. destruct (ndb s =? MAXDB).
        - rewrite load_ext_dk. destruct (cext s); reflexivity.
        - destruct (pinx s =? MAXDB); [apply load_ext_dk|reflexivity]. }
      destruct Q as (okx, sx). destruct okx; exact HQ. }
    destruct P as ((ok1, s1), nt). cbn [fst snd] in HP. destruct ok1; cbn [negb]; [|exact HP].
    destruct (_ <? 2); [exact HP|]. destruct (rd_data bs bad s1 _); exact HP.
  Qed.

  Lemma load_ext_pos s n : pos (snd (load_ext bad s n)) = pos s.
  Proof. unfold load_ext. destruct (rd_ext bad s n); reflexivity. Qed.

  Lemma read_next_pos s : pos (snd (read_next bs ofs bad s)) = pos s.
  Proof.
    unfold read_next.
    set (P := if ndb s =? 0 then _ else _).
    assert (HP : pos (snd (fst P)) = pos s).
    { subst P. destruct (ndb s =? 0); [reflexivity|]. destruct (ndb s <? MAXDB); [reflexivity|].
      set (Q := if ndb s =? MAXDB then _ else _).
      assert (HQ : pos (snd Q) = pos s).
      { subst Q. destruct (ndb s =? MAXDB).
        - rewrite load_ext_pos. destruct (cext s); reflexivity.
        - destruct (pinx s =? MAXDB); [apply load_ext_pos|reflexivity]. }
      destruct Q as (okx, sx). destruct okx; exact HQ. }
    destruct P as ((ok1, s1), nt). cbn [fst snd] in HP. destruct ok1; cbn [negb]; [|exact HP].
    destruct (_ <? 2); [exact HP|]. destruct (rd_data bs bad s1 _); exact HP.
  Qed.

  Lemma seek_start_dk s : dk (snd (seek_start bs ofs bad s)) = dk s.
  Proof.
    unfold seek_start. set (s0 := set_cur _ 0). destruct (fsize s0 =? 0); [reflexivity|].
    pose proof (read_next_dk s0) as H. destruct (read_next bs ofs bad s0) as (ok, s1). destruct ok; exact H.
  Qed.

  Lemma ext_walk_dk : forall fuel s nsect i ext, dk (snd (fst (ext_walk bad fuel s nsect i ext))) = dk s.
  Proof.
    induction fuel as [|f IH]; intros s nsect i ext; [reflexivity|]. cbn [ext_walk].
    destruct ((i <? ext) && negb (nsect =? 0)); [|reflexivity]. destruct (rd_ext bad s nsect) as [x|]; [|reflexivity]. rewrite IH. reflexivity.
  Qed.

  Lemma read_ext_n_dk s ext : dk (snd (read_ext_n bs bad s ext)) = dk s.
  Proof.
    unfold read_ext_n. destruct (_ || _); [reflexivity|].
    pose proof (ext_walk_dk (Z.to_nat (ext + 1)) s (h_ext (fh s)) (-1) ext) as H.
    destruct (ext_walk bad _ s _ _ _) as ((ok, s1), i). destruct (ok && (i =? ext)); exact H.
  Qed.

  Lemma seek_mid_dk s : dk (snd (seek_mid bs bad s)) = dk s.
  Proof.
    unfold seek_mid. destruct (pos2db (pos s) bs) as (((ext, px), pd), k).
    set (s1 := set_ndb _ k).
    set (P := if ext =? -1 then _ else _).
    assert (HP : dk (snd P) = dk s).
    { subst P. destruct (ext =? -1); [reflexivity|].
      set (s1' := match cext s1 with None => _ | Some _ => s1 end).
      assert (H1 : dk s1' = dk s) by (subst s1'; destruct (cext s1); reflexivity).
      pose proof (read_ext_n_dk s1' ext) as H. destruct (read_ext_n bs bad s1' ext) as (okx, sx). cbn [snd] in H.
      destruct okx; cbn [snd dk set_pinx set_cur]; congruence. }
    destruct P as (ok2, s2). cbn [snd] in HP. destruct ok2; cbn [negb]; [|exact HP].
    destruct (cur s2 <? 2); [exact HP|]. destruct (rd_data bs bad s2 (cur s2)); exact HP.
  Qed.

  Definition quiet (s : hstate) : Prop := mw s && chg s = false.

  (* same volume, same flags deciding whether a flush happens *)
  Definition Same (s t : hstate) : Prop := dk t = dk s /\ mw t = mw s /\ chg t = chg s.
  Lemma same_refl s : Same s s.
  Proof. repeat split. Qed.
  Lemma same_trans a b c : Same a b -> Same b c -> Same a c.
  Proof. intros (H1 & H2 & H3) (H4 & H5 & H6). repeat split; congruence. Qed.
  Lemma same_quiet s t : Same s t -> quiet s -> quiet t.
  Proof. intros (_ & H2 & H3) Hq. unfold quiet in *. rewrite H2, H3. exact Hq. Qed.

  Lemma load_ext_same s n : Same s (snd (load_ext bad s n)).
  Proof. unfold load_ext. destruct (rd_ext bad s n); repeat split. Qed.

  Lemma read_next_same s : Same s (snd (read_next bs ofs bad s)).
  Proof.
    unfold read_next.
    set (P := if ndb s =? 0 then _ else _).
    assert (HP : Same s (snd (fst P))).
    { subst P. destruct (ndb s =? 0); [apply same_refl|]. destruct (ndb s <? MAXDB); [apply same_refl|].
      set (Q := if ndb s =? MAXDB then _ else _).
      assert (HQ : Same s (snd Q)).
      { subst Q. destruct (ndb s =? MAXDB).
        - eapply same_trans; [|apply load_ext_same]. destruct (cext s); repeat split.
        - destruct (pinx s =? MAXDB); [apply load_ext_same|apply same_refl]. }
      destruct Q as (okx, sx). destruct okx; exact HQ. }
    destruct P as ((ok1, s1), nt). cbn [fst snd] in HP. destruct ok1; cbn [negb]; [|exact HP].
    destruct (_ <? 2); [exact HP|]. destruct (rd_data bs bad s1 _); exact HP.
  Qed.

  Lemma seek_start_same s : Same s (snd (seek_start bs ofs bad s)).
  Proof.
    unfold seek_start. set (s0 := set_cur _ 0). destruct (fsize s0 =? 0); [repeat split|].
    pose proof (read_next_same s0) as H. destruct (read_next bs ofs bad s0) as (ok, s1). destruct ok; exact H.
  Qed.

  Lemma ext_walk_same : forall fuel s nsect i ext, Same s (snd (fst (ext_walk bad fuel s nsect i ext))).
  Proof.
    induction fuel as [|f IH]; intros s nsect i ext; [apply same_refl|]. cbn [ext_walk].
    destruct ((i <? ext) && negb (nsect =? 0)); [|apply same_refl]. destruct (rd_ext bad s nsect) as [x|]; [|apply same_refl].
    eapply same_trans; [|apply IH]. repeat split.
  Qed.

  Lemma read_ext_n_same s ext : Same s (snd (read_ext_n bs bad s ext)).
  Proof.
    unfold read_ext_n. destruct (_ || _); [apply same_refl|].
    pose proof (ext_walk_same (Z.to_nat (ext + 1)) s (h_ext (fh s)) (-1) ext) as H.
    destruct (ext_walk bad _ s _ _ _) as ((ok, s1), i). destruct (ok && (i =? ext)); exact H.
  Qed.

  Lemma seek_mid_same s : Same s (snd (seek_mid bs bad s)).
  Proof.
    unfold seek_mid. destruct (pos2db (pos s) bs) as (((ext, px), pd), k).
    set (s1 := set_ndb _ k).
    set (P := if ext =? -1 then _ else _).
    assert (HP : Same s (snd P)).
    { subst P. destruct (ext =? -1); [repeat split|].
      set (s1' := match cext s1 with None => _ | Some _ => s1 end).
      assert (H1 : Same s s1') by (subst s1'; destruct (cext s1); repeat split).
      pose proof (read_ext_n_same s1' ext) as H. destruct (read_ext_n bs bad s1' ext) as (okx, sx). cbn [snd] in H.
      destruct okx; (eapply same_trans; [exact H1|]); (eapply same_trans; [exact H|]); repeat split. }
    destruct P as (ok2, s2). cbn [snd] in HP. destruct ok2; cbn [negb]; [|exact HP].
    destruct (cur s2 <? 2); [exact HP|]. destruct (rd_data bs bad s2 (cur s2)); exact HP.
  Qed.

  Lemma ofs_walk_same : forall fuel s offset target, Same s (snd (ofs_walk bs ofs bad fuel s offset target)).
  Proof.
    induction fuel as [|f IH]; intros s offset target; [apply same_refl|]. cbn [ofs_walk].
    destruct (offset <? target); [|apply same_refl].
    set (s1 := set_pind _ _). destruct (pind s1 =? bs).
    - pose proof (read_next_same s1) as H. destruct (read_next bs ofs bad s1) as (ok, sn). cbn [snd] in H.
      assert (H1 : Same s s1) by (subst s1; repeat split).
      destruct ok; [|eapply same_trans; [exact H1|]; eapply same_trans; [exact H|]; repeat split].
      eapply same_trans; [|apply IH]. eapply same_trans; [exact H1|]. eapply same_trans; [exact H|]. repeat split.
    - eapply same_trans; [|apply IH]. subst s1. repeat split.
  Qed.

  Lemma seek_ofs_same eofk s p : (forall t, quiet t -> Same t (snd (eofk t))) -> quiet s -> Same s (snd (seek_ofs bs ofs bad eofk s p)).
  Proof.
    intros He Hq. unfold seek_ofs. pose proof (seek_start_same s) as H0. destruct (seek_start bs ofs bad s) as (ok0, s0). cbn [snd] in H0.
    destruct ok0; cbn [negb snd]; [|exact H0].
    destruct (_ =? fsize s0).
    - eapply same_trans; [exact H0|]. apply He. apply (same_quiet s s0 H0 Hq).
    - eapply same_trans; [exact H0|]. apply ofs_walk_same.
  Qed.

  Lemma seek_fb_same eofk s r p : (forall t, quiet t -> Same t (snd (eofk t))) -> quiet s -> Same s (snd r) -> Same s (snd (seek_fb bs ofs bad eofk r p)).
  Proof.
    intros He Hq Hr. unfold seek_fb. destruct (negb (fst r) && ofs); [|exact Hr].
    eapply same_trans; [exact Hr|]. apply seek_ofs_same; [exact He|]. apply (same_quiet s _ Hr Hq).
  Qed.

  (* a seek on a handle with nothing to flush changes nothing ... *)
  Lemma seek_gen_quiet eofk s p : (forall t, quiet t -> Same t (snd (eofk t))) -> quiet s -> Same s (snd (seek_gen bs ofs bad eofk s p)).
  Proof.
    intros He Hq. unfold seek_gen. destruct (_ && _ && _); [apply same_refl|]. destruct (_ && _); [repeat split|].
    pose proof Hq as Hq'. unfold quiet in Hq'. rewrite Hq'. destruct (p =? 0); [apply seek_start_same|].
    set (s2 := set_pos s _). assert (H2 : Same s s2) by (subst s2; repeat split).
    apply seek_fb_same; [exact He|exact Hq|].
    destruct (pos s2 =? fsize s2).
    - eapply same_trans; [exact H2|]. apply He. apply (same_quiet s s2 H2 Hq).
    - eapply same_trans; [exact H2|]. apply seek_mid_same.
  Qed.

  Lemma seek_eof_quiet s : quiet s -> Same s (snd (seek_eof bs ofs bad s)).
  Proof.
    intros Hq. unfold seek_eof. destruct (fsize s =? 0); [apply seek_start_same|].
    pose proof (seek_gen_quiet (fun t => (false, t)) s (fsize s - 1) (fun t _ => same_refl t) Hq) as H.
    destruct (seek_gen bs ofs bad _ s (fsize s - 1)) as (ok, s1). cbn [snd] in H. destruct ok; cbn [negb snd]; [|exact H].
    eapply same_trans; [exact H|]. repeat split.
  Qed.

  (* ... otherwise it is the flush that writes *)
  Lemma seek_gen_dk eofk s p : (forall t, quiet t -> Same t (snd (eofk t))) ->
    dk (snd (seek_gen bs ofs bad eofk s p)) = dk s \/ (mw s = true /\ dk (snd (seek_gen bs ofs bad eofk s p)) = dk (fio_flush bs ofs s)).
  Proof.
    intros He. unfold seek_gen.
    destruct (_ && _ && _); [left; reflexivity|]. destruct (_ && _); [left; reflexivity|].
    set (s1 := if mw s && chg s then _ else s).
    assert (H1 : quiet s1 /\ (dk s1 = dk s \/ (mw s = true /\ dk s1 = dk (fio_flush bs ofs s)))).
    { subst s1. destruct (mw s && chg s) eqn:Hq.
      - split; [unfold quiet; cbn; apply andb_false_r|]. right. apply andb_prop in Hq. split; [apply Hq|reflexivity].
      - split; [exact Hq|left; reflexivity]. }
    destruct H1 as (Hq1 & H1). clearbody s1.
    assert (G : forall t, Same s1 t -> dk t = dk s \/ (mw s = true /\ dk t = dk (fio_flush bs ofs s))).
    { intros t (Ht & _). rewrite Ht. exact H1. }
    destruct (p =? 0); [apply G, seek_start_same|].
    set (s2 := set_pos s1 _). assert (H2 : Same s1 s2) by (subst s2; repeat split).
    apply G. apply seek_fb_same; [exact He|exact Hq1|].
    destruct (pos s2 =? fsize s2).
    - eapply same_trans; [exact H2|]. apply He. apply (same_quiet s1 s2 H2 Hq1).
    - eapply same_trans; [exact H2|]. apply seek_mid_same.
  Qed.

  Theorem fio_seek_dk s p : dk (snd (fio_seek bs ofs bad s p)) = dk s \/ (mw s = true /\ dk (snd (fio_seek bs ofs bad s p)) = dk (fio_flush bs ofs s)).
  Proof. apply seek_gen_dk. intros t Ht. apply seek_eof_quiet, Ht. Qed.

  Theorem fio_seek_quiet s p : quiet s -> dk (snd (fio_seek bs ofs bad s p)) = dk s.
  Proof. intros Hq. apply (seek_gen_quiet (seek_eof bs ofs bad) s p); [intros t Ht; apply seek_eof_quiet, Ht|exact Hq]. Qed.

  Theorem fio_seek_fr S s p : Own S s -> Fr S s (snd (fio_seek bs ofs bad s p)).
  Proof.
    intros Ho. destruct (fio_seek_dk s p) as [H|(_ & H)]; [apply fr_dk, H|].
    intros n Hn. rewrite H. apply (flush_fr S s Ho n Hn).
  Qed.

  (* ---- a handle without write access never writes ---- *)
  Lemma load_ext_mw s n : mw (snd (load_ext bad s n)) = mw s.
  Proof. unfold load_ext. destruct (rd_ext bad s n); reflexivity. Qed.

  Lemma read_next_mw s : mw (snd (read_next bs ofs bad s)) = mw s.
  Proof.
    unfold read_next.
    set (P := if ndb s =? 0 then _ else _).
    assert (HP : mw (snd (fst P)) = mw s).
    { subst P. destruct (ndb s =? 0); [reflexivity|]. destruct (ndb s <? MAXDB); [reflexivity|].
      set (Q := if ndb s =? MAXDB then _ else _).
      assert (HQ : mw (snd Q) = mw s).
      { subst Q. destruct (ndb s =? MAXDB).
        - rewrite load_ext_mw. destruct (cext s); reflexivity.
        - destruct (pinx s =? MAXDB); [apply load_ext_mw|reflexivity]. }
      destruct Q as (okx, sx). destruct okx; exact HQ. }
    destruct P as ((ok1, s1), nt). cbn [fst snd] in HP. destruct ok1; cbn [negb]; [|exact HP].
    destruct (_ <? 2); [exact HP|]. destruct (rd_data bs bad s1 _); exact HP.
  Qed.

  Lemma read_loop_ro : forall fuel s n, mw s = false -> dk (fst (read_loop bs ofs bad fuel s n)) = dk s.
  Proof.
    induction fuel as [|f IH]; intros s n Hw; [reflexivity|]. cbn [read_loop].
    destruct (n <=? 0); [reflexivity|].
    set (P := if pind s =? bs then _ else (true, s)).
    assert (HP : dk (snd P) = dk s /\ mw (snd P) = false).
    { subst P. destruct (pind s =? bs); [|split; [reflexivity|exact Hw]]. rewrite Hw. cbn [andb].
      pose proof (read_next_dk s) as H1. pose proof (read_next_mw s) as H2.
      destruct (read_next bs ofs bad s) as (okn, sn). cbn [snd] in H1, H2. destruct okn; cbn; rewrite ?H1, ?H2; split; congruence. }
    destruct P as (ok, s1). cbn [snd] in HP. destruct HP as (H1 & H2). destruct ok; cbn [negb]; [|exact H1].
    set (s2 := set_pind _ _).
    specialize (IH s2 (n - Z.min n (bs - pind s1)) H2).
    destruct (read_loop bs ofs bad f s2 _) as (s3, rest). cbn [fst] in *. rewrite IH. exact H1.
  Qed.

  Theorem readonly_handle_never_writes s : mw s = false ->
    (forall n, dk (fst (fio_read bs ofs bad s n)) = dk s) /\ (forall p, dk (snd (fio_seek bs ofs bad s p)) = dk s)
    /\ (forall data al, fio_write bs ofs bad s data al = (s, 0, al)) /\ (forall n al, fio_truncate bs ofs bad s n al = (false, s, [], al))
    /\ fio_flush bs ofs s = s /\ fio_close bs ofs s = dk s.
  Proof.
    intros Hw. split; [|split; [|split; [|split; [|split]]]].
    - intros n. unfold fio_read. destruct (_ || _); [reflexivity|]. apply read_loop_ro, Hw.
    - intros p. apply fio_seek_quiet. unfold quiet. rewrite Hw. reflexivity.
    - intros data al. unfold fio_write. rewrite Hw. reflexivity.
    - intros n al. unfold fio_truncate. rewrite Hw. reflexivity.
    - unfold fio_flush. rewrite Hw. reflexivity.
    - unfold fio_close, fio_flush. rewrite Hw. reflexivity.
  Qed.

  (* ---- a handle an earlier device error left without a buffered block, on a file that has data, refuses every write: nothing is acknowledged
          that could not be stored (it has to be positioned by a seek first, as for reading) ---- *)
  Theorem dead_handle_refuses_writes s data al : cur s = 0 -> 0 < fsize s -> fio_write bs ofs bad s data al = (s, 0, al).
  Proof.
    intros Hc Hs. unfold fio_write. rewrite Hc. cbn [Z.eqb andb]. destruct (Z.ltb_spec 0 (fsize s)); [|lia]. rewrite orb_true_r. reflexivity.
  Qed.

  Theorem dead_handle_reads_nothing s n : cur s = 0 -> fio_read bs ofs bad s n = (s, []).
  Proof. intros Hc. unfold fio_read. rewrite Hc. cbn [Z.eqb]. rewrite !orb_true_r. reflexivity. Qed.

  (* ---- adfFileCreateNextBlock: the two blocks it may write ---- *)
  Lemma finish_create_dk s nSect n : (bs <= pos s -> n <> cur s) -> dk (finish_create bs ofs s nSect) n = dk s n.
  Proof.
    intros Hn. unfold finish_create. cbn [dk set_ndb set_cur].
    destruct ofs.
    - cbn [dk set_cdata]. destruct (Z.leb_spec bs (pos s)); [|reflexivity]. rewrite wr_other by (apply Hn; assumption). reflexivity.
    - destruct (Z.leb_spec bs (pos s)); [|reflexivity]. cbn [dk set_cdata]. rewrite wr_other by (apply Hn; assumption). reflexivity.
  Qed.

  Lemma create_next_dk s a n : (bs <= pos s -> n <> cur s) -> (2 * MAXDB <= ndb s -> ndb s mod MAXDB = 0 -> n <> x_key (cx s)) ->
    dk (snd (create_next bs ofs s a)) n = dk s n.
  Proof.
    intros Hc Hx. unfold create_next. destruct (ndb s <? MAXDB).
    - destruct a as [(nSect, y)|]; [|reflexivity]. cbn [snd]. rewrite finish_create_dk by exact Hc. reflexivity.
    - destruct (Z.eqb_spec (ndb s mod MAXDB) 0) as [Hm|Hm].
      + destruct a as [(extSect, nSect)|]; [|reflexivity]. cbn [snd]. unfold add_to_ext.
        rewrite finish_create_dk.
        2:{ cbn [pos cur set_pinx set_cext]. destruct (2 * MAXDB <=? _); cbn; destruct (ndb s =? MAXDB); cbn; exact Hc. }
        cbn [dk set_pinx set_cext].
        destruct (Z.eqb_spec (ndb s) MAXDB) as [He|He].
        * cbn [ndb set_fh set_cext]. rewrite He. reflexivity.
        * destruct (Z.leb_spec (2 * MAXDB) (ndb s)); [|reflexivity]. cbn [x_key set_x_ext]. rewrite wr_other by (apply Hx; assumption). reflexivity.
      + destruct a as [(nSect, y)|]; [|reflexivity]. cbn [snd]. unfold add_to_ext. rewrite finish_create_dk by exact Hc. reflexivity.
  Qed.
  (* ---- a shrinking adfFileTruncate writes through its flush only: the edits of the tables stay in the buffers (they reach the volume
          with the next flush, whose targets are again the header, the buffered data block and the buffered extension block) ---- *)
  Lemma fio_truncate_shrink_dk s sizeNew al : mw s = true -> sizeNew < fsize s ->
    dk (snd (fst (fst (fio_truncate bs ofs bad s sizeNew al)))) = dk (fio_flush bs ofs s).
  Proof.
    intros Hw Hlt. unfold fio_truncate. rewrite Hw. cbn [negb].
    destruct (Z.eqb_spec sizeNew (fsize s)); [lia|]. destruct (Z.ltb_spec (fsize s) sizeNew); [lia|].
    set (s1 := set_chg (fio_flush bs ofs s) false).
    destruct (blocks_to_remove bs bad s1 sizeNew) as [rem|]; [|reflexivity].
    set (t := set_fh s1 (set_h_size (fh s1) sizeNew)).
    assert (Hq : quiet t) by (unfold quiet; subst t s1; cbn; apply andb_false_r).
    pose proof (proj1 (seek_eof_quiet t Hq)) as Hse. destruct (seek_eof bs ofs bad t) as (ok, s2). cbn [snd] in Hse.
    assert (Ht : dk t = dk (fio_flush bs ofs s)) by reflexivity. rewrite Ht in Hse. clearbody t s1.
    destruct ok; cbn [negb fst snd]; [|exact Hse].
    rewrite <- Hse.
    repeat match goal with |- context [if ?c then _ else _] => destruct c end; reflexivity.
  Qed.
End Fr.

(* The on-disk block lists of a file (Model/FileMap.v): the k-th data block is found where the seek / read code looks for
   it, the shape (header count, one extension block per started group of 72, all full but the last) is the one the format
   demands, the number of extension blocks is the one the library computes (adfFileDatablocks2Extblocks, REGENERATED),
   and appending / truncating keep all this and conserve blocks - for every file size and every history. *)
From Coq Require Import ZArith List Bool Arith Lia ZifyNat Permutation.
From ADF Require Import CPrelude Generated.Leaf Model.FileMap.
Import ListNotations.
Ltac Zify.zify_post_hook ::= Z.div_mod_to_equations.

(* ---- lists ---- *)
Lemma skipn_skipn' {A} (a b : nat) (l : list A) : skipn a (skipn b l) = skipn (a + b) l.
Proof.
  revert l. induction b as [|b IH]; intros l.
  - rewrite Nat.add_0_r. reflexivity.
  - destruct l as [|x l]; [rewrite !skipn_nil; reflexivity|].
    replace (a + S b) with (S (a + b)) by lia. simpl. apply IH.
Qed.

Lemma nth_error_firstn_lt {A} (l : list A) : forall n k, k < n -> nth_error (firstn n l) k = nth_error l k.
Proof.
  induction l as [|x l IH]; intros n k H.
  - rewrite firstn_nil. reflexivity.
  - destruct n as [|n]; [lia|]. destruct k as [|k]; simpl; [reflexivity|]. apply IH. lia.
Qed.

Lemma nth_error_skipn' {A} (l : list A) : forall a b, nth_error (skipn a l) b = nth_error l (a + b).
Proof.
  induction l as [|x l IH]; intros a b.
  - rewrite skipn_nil. destruct b; destruct (a + _); reflexivity.
  - destruct a as [|a]; [reflexivity|]. simpl. apply IH.
Qed.

Lemma nth_error_combine {A B} (la : list A) (lb : list B) : forall j a b,
  nth_error la j = Some a -> nth_error lb j = Some b -> nth_error (combine la lb) j = Some (a, b).
Proof.
  revert lb. induction la as [|x la IH]; intros lb j a b Ha Hb; [destruct j; discriminate|].
  destruct lb as [|y lb]; [destruct j; discriminate|].
  destruct j as [|j]; simpl in *; [congruence|]. apply IH; assumption.
Qed.

Lemma NoDup_app_l {A} (a b : list A) : NoDup (a ++ b) -> NoDup a.
Proof.
  induction a as [|x a IH]; intros H; [constructor|].
  simpl in H. inversion H as [|? ? Hx Hn]; subst. constructor.
  - intro Hin. apply Hx. apply in_or_app. left. exact Hin.
  - apply IH. exact Hn.
Qed.

(* ---- chunks ---- *)
Lemma chunks_nth : forall fuel l j, length l <= fuel -> SLOTS * j < length l ->
  nth_error (chunks fuel l) j = Some (firstn SLOTS (skipn (SLOTS * j) l)).
Proof.
  unfold SLOTS. induction fuel as [|f IH]; intros l j Hf Hj; [lia|].
  destruct l as [|x l]; [simpl in Hj; lia|].
  cbn [chunks]. unfold SLOTS. destruct j as [|j].
  - reflexivity.
  - cbn [nth_error]. rewrite IH.
    + rewrite skipn_skipn'. replace (72 * S j) with (72 * j + 72) by lia. reflexivity.
    + rewrite skipn_length. simpl length in *. lia.
    + rewrite skipn_length. simpl length in *. lia.
Qed.

Lemma chunks_length : forall fuel l, length l <= fuel -> length (chunks fuel l) = (length l + (SLOTS - 1)) / SLOTS.
Proof.
  unfold SLOTS. induction fuel as [|f IH]; intros l Hf.
  - destruct l; [reflexivity|simpl in Hf; lia].
  - destruct l as [|x l]; [reflexivity|].
    cbn [chunks length]. unfold SLOTS. rewrite IH by (rewrite skipn_length; simpl length in *; lia).
    rewrite skipn_length. simpl length. set (n := length l) in *.
    destruct (le_lt_dec 72 (S n)); lia.
Qed.

Lemma chunks_concat : forall fuel l, length l <= fuel -> concat (chunks fuel l) = l.
Proof.
  induction fuel as [|f IH]; intros l Hf.
  - destruct l; [reflexivity|simpl in Hf; lia].
  - destruct l as [|x l]; [reflexivity|].
    cbn [chunks concat]. rewrite IH by (rewrite skipn_length; simpl length in *; unfold SLOTS; lia).
    apply firstn_skipn.
Qed.

(* ---- the number of extension blocks ---- *)
Lemma nexts_spec n : nexts n = (length (chunks n (skipn SLOTS (repeat 0%Z n)))).
Proof.
  rewrite chunks_length by (rewrite skipn_length, repeat_length; lia).
  rewrite skipn_length, repeat_length. unfold nexts, SLOTS.
  destruct (Nat.leb_spec n 72); lia.
Qed.

Lemma nexts_chunks (l : list Z) : length (chunks (length l) (skipn SLOTS l)) = nexts (length l).
Proof.
  rewrite chunks_length by (rewrite skipn_length; lia).
  rewrite skipn_length. unfold nexts, SLOTS. destruct (Nat.leb_spec (length l) 72); lia.
Qed.

(* the library's own count (adfFileDatablocks2Extblocks, regenerated from adf_file.c) *)
Theorem nexts_is_library_count : forall n : nat, (Z.of_nat n < 2 ^ 32)%Z ->
  c_adfFileDatablocks2Extblocks (Z.of_nat n) = Z.of_nat (nexts n).
Proof.
  intros n Hn. unfold c_adfFileDatablocks2Extblocks, nexts, SLOTS.
  change (2 ^ 32)%Z with 4294967296%Z in Hn.
  destruct (Z.ltb_spec (Z.of_nat n) 1).
  - destruct (Nat.leb_spec n 72); [reflexivity|lia].
  - unfold cast_u32, cast_u. change (2 ^ 32)%Z with 4294967296%Z. rewrite Z.mod_small by lia.
    destruct (Nat.leb_spec n 72); lia.
Qed.

(* the branch adfFileCreateNextBlock takes for its n-th data block (decision slice REGENERATED from adf_file.c: 0 = slot in the
   header, 1 = extension block and data block taken together, 2 = slot in the current extension block) is the model's *)
Theorem append_decision_is_librarys : forall n : nat,
  (d_adfFileCreateNextBlock (Z.of_nat n) = 1%Z <-> needs_ext n = true) /\
  (d_adfFileCreateNextBlock (Z.of_nat n) = 0%Z <-> n < SLOTS).
Proof.
  intros n. unfold d_adfFileCreateNextBlock, needs_ext, SLOTS.
  destruct (Z.ltb_spec (Z.of_nat n) 72) as [H|H]; destruct (Nat.leb_spec 72 n) as [H'|H']; try lia; cbn [andb];
    destruct (Z.eqb_spec (Z.of_nat n mod 72) 0) as [E|E]; destruct (Nat.eqb_spec (n mod 72) 0) as [E'|E']; try lia;
    split; split; intros X; try (exfalso; discriminate X); try reflexivity; try lia.
Qed.

(* ---- where the k-th data block is found ---- *)
Theorem find_block_enc : forall (l es : list Z) (k : nat),
  length es = nexts (length l) -> k < length l ->
  find_block (enc_hdr l) (enc_exts l es) k = nth_error l k.
Proof.
  intros l es k Hes Hk. unfold find_block, enc_hdr, enc_exts.
  destruct (Nat.ltb_spec k SLOTS) as [H|H].
  - apply nth_error_firstn_lt. exact H.
  - set (j := (k - SLOTS) / SLOTS). set (r := (k - SLOTS) mod SLOTS).
    assert (Hj : SLOTS * j < length (skipn SLOTS l)) by (rewrite skipn_length; unfold j, SLOTS in *; lia).
    pose proof (chunks_nth (length l) (skipn SLOTS l) j ltac:(rewrite skipn_length; lia) Hj) as Hc.
    assert (Hje : j < length es).
    { rewrite Hes. rewrite <- nexts_chunks. apply nth_error_Some. rewrite Hc. discriminate. }
    destruct (nth_error es j) as [e|] eqn:Ee; [|apply nth_error_None in Ee; lia].
    rewrite (nth_error_combine _ _ j e _ Ee Hc).
    rewrite nth_error_firstn_lt by (unfold r, SLOTS; lia).
    rewrite !nth_error_skipn'. f_equal. unfold j, r, SLOTS in *. lia.
Qed.

(* ---- the shape the format demands ---- *)
Theorem enc_shape : forall (l es : list Z), length es = nexts (length l) ->
  length (enc_hdr l) = Nat.min SLOTS (length l) /\
  length (enc_exts l es) = nexts (length l) /\
  (forall j e t, nth_error (enc_exts l es) j = Some (e, t) ->
     nth_error es j = Some e /\
     length t = (if S j <? nexts (length l) then SLOTS else length l - SLOTS - SLOTS * j) /\ 1 <= length t <= SLOTS) /\
  enc_hdr l ++ concat (map snd (enc_exts l es)) = l.
Proof.
  intros l es Hes. unfold enc_hdr, enc_exts.
  pose proof (nexts_chunks l) as Hc.
  split; [apply firstn_length|].
  split; [rewrite combine_length, Hes, Hc; lia|].
  split.
  - intros j e t Hj.
    assert (Hjl : j < length (combine es (chunks (length l) (skipn SLOTS l)))) by (apply nth_error_Some; rewrite Hj; discriminate).
    rewrite combine_length, Hes, Hc, Nat.min_id in Hjl.
    assert (Hn : SLOTS < length l) by (unfold nexts, SLOTS in *; destruct (Nat.leb_spec (length l) 72); lia).
    assert (Hjs : SLOTS * j < length (skipn SLOTS l)).
    { rewrite skipn_length. unfold nexts, SLOTS in *. destruct (Nat.leb_spec (length l) 72); lia. }
    pose proof (chunks_nth (length l) (skipn SLOTS l) j ltac:(rewrite skipn_length; lia) Hjs) as Hcj.
    destruct (nth_error es j) as [e'|] eqn:Ee; [|apply nth_error_None in Ee; lia].
    rewrite (nth_error_combine _ _ j e' _ Ee Hcj) in Hj.
    assert (He : e = e') by congruence. assert (Ht : t = firstn SLOTS (skipn (SLOTS * j) (skipn SLOTS l))) by congruence. subst e t.
    split; [reflexivity|]. rewrite firstn_length, !skipn_length.
    unfold nexts, SLOTS in *. destruct (Nat.leb_spec (length l) 72); [lia|].
    destruct (Nat.ltb_spec (S j) ((length l - 72 + (72 - 1)) / 72)); lia.
  - assert (Hm : map snd (combine es (chunks (length l) (skipn SLOTS l))) = chunks (length l) (skipn SLOTS l)).
    { assert (Hl : length es = length (chunks (length l) (skipn SLOTS l))) by lia.
      revert Hl. generalize (chunks (length l) (skipn SLOTS l)) as cs. clear. induction es as [|e es IH]; intros [|c cs] H; simpl in *; try lia; try reflexivity.
      f_equal. apply IH. lia. }
    rewrite Hm, chunks_concat by (rewrite skipn_length; lia). apply firstn_skipn.
Qed.

(* ---- histories: appends and truncations ---- *)
Definition Inv (s : fstate) : Prop := length (f_exts s) = nexts (length (f_data s)) /\ NoDup (f_data s ++ f_exts s).

Lemma needs_ext_nexts n : nexts (S n) = if needs_ext n then S (nexts n) else nexts n.
Proof.
  unfold needs_ext, nexts, SLOTS.
  destruct (Nat.leb_spec 72 n); destruct (Nat.eqb_spec (n mod 72) 0); cbn [andb];
    destruct (Nat.leb_spec (S n) 72); destruct (Nat.leb_spec n 72); lia.
Qed.

Lemma Inv_empty : Inv f_empty.
Proof. split; [reflexivity|constructor]. Qed.

Theorem append_inv : forall s d e, Inv s -> ~ In d (f_data s ++ f_exts s) -> ~ In e (f_data s ++ f_exts s) -> d <> e ->
  Inv (f_append s d e) /\ f_data (f_append s d e) = f_data s ++ [d] /\
  (* an extension block is consumed exactly when a new group of 72 starts beyond the header *)
  f_exts (f_append s d e) = (if needs_ext (length (f_data s)) then f_exts s ++ [e] else f_exts s).
Proof.
  intros s d e [Hl Hnd] Hd He Hde. unfold f_append.
  destruct (needs_ext (length (f_data s))) eqn:En; unfold Inv; cbn [f_data f_exts]; (split; [|split; reflexivity]); split.
  - rewrite !app_length. simpl. rewrite !Nat.add_1_r, needs_ext_nexts, En. lia.
  - (* NoDup ((data ++ [d]) ++ (exts ++ [e])) *)
    apply (Permutation_NoDup (l := d :: e :: f_data s ++ f_exts s)).
    + rewrite <- !app_assoc. simpl.
      apply Permutation_cons_app.
      replace (f_data s ++ f_exts s ++ [e]) with ((f_data s ++ f_exts s) ++ [e]) by (rewrite app_assoc; reflexivity).
      apply Permutation_cons_append.
    + constructor; [intros [X|X]; [congruence|contradiction]|]. constructor; assumption.
  - rewrite !app_length. simpl. rewrite !Nat.add_1_r, needs_ext_nexts, En. exact Hl.
  - apply (Permutation_NoDup (l := d :: f_data s ++ f_exts s)).
    + rewrite <- app_assoc. simpl. apply Permutation_cons_app. reflexivity.
    + constructor; assumption.
Qed.

Lemma nexts_mono a b : a <= b -> nexts a <= nexts b.
Proof.
  intros H. unfold nexts, SLOTS. destruct (Nat.leb_spec a 72); destruct (Nat.leb_spec b 72); try lia.
  all: try (apply Nat.div_le_mono; lia).
Qed.

Theorem trunc_inv : forall s n, Inv s -> n <= length (f_data s) ->
  let '(s', freed) := f_trunc s n in
  Inv s' /\ f_data s' = firstn n (f_data s) /\
  (* conservation: what is kept plus what is given back is what the file had *)
  Permutation (f_data s' ++ f_exts s' ++ freed) (f_data s ++ f_exts s) /\
  (* nothing that is kept is given back *)
  (forall b, In b freed -> ~ In b (f_data s' ++ f_exts s')).
Proof.
  intros s n [Hl Hnd] Hn. unfold f_trunc, Inv. cbn [f_data f_exts].
  assert (Hperm : Permutation (firstn n (f_data s) ++ firstn (nexts n) (f_exts s) ++ skipn n (f_data s) ++ skipn (nexts n) (f_exts s)) (f_data s ++ f_exts s)).
  { rewrite <- (firstn_skipn n (f_data s)) at 3. rewrite <- (firstn_skipn (nexts n) (f_exts s)) at 3.
    rewrite <- !app_assoc. apply Permutation_app_head.
    rewrite !app_assoc. apply Permutation_app_tail. apply Permutation_app_comm. }
  split; [|split; [reflexivity|split; [exact Hperm|]]].
  - split.
    + rewrite !firstn_length. rewrite Hl, (Nat.min_l n _ Hn). pose proof (nexts_mono n (length (f_data s)) Hn). lia.
    + apply (Permutation_NoDup (Permutation_sym Hperm)) in Hnd.
      rewrite app_assoc in Hnd. apply NoDup_app_l in Hnd. exact Hnd.
  - intros b Hb Hk.
    apply (Permutation_NoDup (Permutation_sym Hperm)) in Hnd.
    rewrite app_assoc in Hnd.
    revert Hnd Hb Hk. generalize (firstn n (f_data s) ++ firstn (nexts n) (f_exts s)) as kept.
    generalize (skipn n (f_data s) ++ skipn (nexts n) (f_exts s)) as fr. clear.
    intros fr kept. induction kept as [|x kept IH]; intros Hnd Hb Hk; [destruct Hk|].
    simpl in Hnd. inversion Hnd as [|? ? Hx Hnd']; subst.
    destruct Hk as [->|Hk]; [apply Hx; apply in_or_app; right; exact Hb|apply IH; assumption].
Qed.

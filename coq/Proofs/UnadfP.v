(* C20: the sanitised path has no ".." component and is not absolute, for every byte string. *)
From Coq Require Import ZArith List Bool Lia.
From ADF Require Import Model.Unadf.
Import ListNotations.
Local Open Scope Z_scope.

(* character-level recogniser of a ".." component *)
Inductive st := S0 | S1 | S2 | SX.

Definition next (s : st) : st := match s with S0 => S1 | S1 => S2 | _ => SX end.

Fixpoint ok (s : st) (l : list Z) : bool :=
  match l with
  | [] => match s with S2 => false | _ => true end
  | a :: r => if a =? sep then (match s with S2 => false | _ => ok S0 r end)
              else if a =? dot then ok (next s) r
              else ok SX r
  end.

Definition is_sepish (c : Z) : bool := (c =? sep) || (c =? bsl).

(* what not having fired at the previous position(s) tells about the rest of the input *)
Definition pre (s : st) (l : list Z) : Prop :=
  match s with
  | S1 => match l with [a] => a <> dot | a :: c :: _ => ~ (a = dot /\ is_sepish c = true) | [] => True end
  | S2 => match l with [] => False | a :: _ => is_sepish a = false end
  | _ => True
  end.

Lemma sep_ne_dot : (sep =? dot) = false. Proof. reflexivity. Qed.
Lemma xx_facts : (xx =? sep) = false /\ (xx =? dot) = false. Proof. split; reflexivity. Qed.
Lemma bsl_facts : (bsl =? sep) = false /\ (bsl =? dot) = false. Proof. split; reflexivity. Qed.

Lemma dotscan_eq a b rest :
  dotscan (a :: b :: rest) =
  if (a =? dot) && (b =? dot) && (match rest with [] => true | c :: _ => (c =? sep) || (c =? bsl) end)
  then xx :: xx :: (match rest with [] => [] | c :: r' => c :: dotscan r' end)
  else a :: dotscan (b :: rest).
Proof. reflexivity. Qed.

Lemma dotscan_ok_len : forall n l s, (length l <= n)%nat -> pre s l -> ok s (dotscan l) = true.
Proof.
  induction n as [|n IH]; intros l s Hlen Hpre.
  - destruct l; [|simpl in Hlen; lia]. destruct s; simpl in *; auto; contradiction.
  - destruct l as [|a tl].
    + destruct s; simpl in *; auto; contradiction.
    + destruct tl as [|b rest].
      * (* single character *)
        cbn [dotscan ok].
        destruct (Z.eqb_spec a sep) as [Ea|Ea].
        { destruct s; auto; simpl in Hpre; subst a; discriminate Hpre. }
        destruct (Z.eqb_spec a dot) as [Ed|Ed].
        { destruct s; cbn [next ok]; auto; simpl in Hpre; contradiction. }
        reflexivity.
      * rewrite dotscan_eq.
        destruct ((a =? dot) && (b =? dot) && match rest with [] => true | c :: _ => (c =? sep) || (c =? bsl) end) eqn:Fire.
        -- (* rewritten to xx xx *)
           cbn [ok]. destruct xx_facts as [X1 X2]. rewrite ?X1, ?X2. cbn [ok]. rewrite ?X1, ?X2.
           destruct rest as [|c r']; [reflexivity|].
           apply andb_prop in Fire. destruct Fire as [_ Fc].
           cbn [ok]. destruct (Z.eqb_spec c sep) as [Ec|Ec].
           ++ apply IH; [simpl in Hlen |- *; lia|exact I].
           ++ assert (c = bsl) by (apply orb_prop in Fc; destruct Fc as [F|F]; [discriminate F || (apply Z.eqb_eq in F; contradiction)|apply Z.eqb_eq in F; exact F]).
              subst c. destruct bsl_facts as [_ B2]. rewrite B2. apply IH; [simpl in Hlen |- *; lia|exact I].
        -- (* character kept *)
           cbn [ok]. destruct (Z.eqb_spec a sep) as [Ea|Ea].
           ++ destruct s; try (apply IH; [simpl in Hlen |- *; lia|exact I]).
              simpl in Hpre. subst a. discriminate Hpre.
           ++ destruct (Z.eqb_spec a dot) as [Ed|Ed].
              ** apply IH; [simpl in Hlen |- *; lia|].
                 destruct s; cbn [next pre]; auto.
                 --- (* S0 -> S1 : the scanner did not fire here *)
                     cbn [andb] in Fire.
                     destruct rest as [|c r'].
                     +++ intro Eb. subst b. rewrite Z.eqb_refl in Fire. cbn [andb] in Fire. discriminate Fire.
                     +++ intros [Eb Hc]. subst b. rewrite Z.eqb_refl in Fire. cbn [andb] in Fire.
                         unfold is_sepish in Hc. rewrite Hc in Fire. discriminate Fire.
                 --- (* S1 -> S2 *)
                     simpl in Hpre. destruct (is_sepish b) eqn:Eb; [|reflexivity]. exfalso. apply Hpre. split; [exact Ed|reflexivity].
              ** apply IH; [simpl in Hlen |- *; lia|exact I].
Qed.

Lemma dotscan_ok : forall l, ok S0 (dotscan l) = true.
Proof. intros l. apply (dotscan_ok_len (length l)); [lia|exact I]. Qed.

(* ---- from the recogniser to components ---- *)
Definition rel (s : st) (p : list Z) : Prop :=
  match s with
  | S0 => p = []
  | S1 => p = [dot]
  | S2 => p = [dot; dot]
  | SX => forall q, is_dotdot (p ++ q) = false
  end.

Lemma rel_step s p a : a <> sep -> rel s p -> rel (if a =? dot then next s else SX) (p ++ [a]).
Proof.
  intros Ha Hr. destruct (Z.eqb_spec a dot) as [Ed|Ed].
  - subst a. destruct s; cbn [next rel] in *; subst; try reflexivity.
    intros q. rewrite <- app_assoc. apply Hr.
  - destruct s; cbn [rel] in *; subst.
    + intros q. cbn [app]. destruct q as [|b q]; [reflexivity|]. destruct q; [|reflexivity].
      cbn [is_dotdot]. destruct (Z.eqb_spec a dot); [contradiction|reflexivity].
    + intros q. cbn [app]. destruct q; [|reflexivity]. cbn [is_dotdot]. rewrite Z.eqb_refl. destruct (Z.eqb_spec a dot); [contradiction|reflexivity].
    + intros q. destruct q; reflexivity.
    + intros q. rewrite <- app_assoc. apply Hr.
Qed.

Lemma ok_components : forall l s p, rel s p -> ok s l = true ->
  match components l with
  | c :: cs => is_dotdot (p ++ c) = false /\ forallb (fun c => negb (is_dotdot c)) cs = true
  | [] => False
  end.
Proof.
  induction l as [|a r IH]; intros s p Hr Hok.
  - cbn [components]. split; [|reflexivity]. rewrite app_nil_r.
    destruct s; cbn [rel ok] in *; subst; try reflexivity; try discriminate. specialize (Hr []). rewrite app_nil_r in Hr. exact Hr.
  - cbn [components ok] in *. destruct (Z.eqb_spec a sep) as [Ea|Ea].
    + assert (Hs : s <> S2) by (intro; subst s; discriminate Hok).
      assert (Hok' : ok S0 r = true) by (destruct s; try exact Hok; contradiction).
      specialize (IH S0 [] eq_refl Hok'). destruct (components r) as [|c cs]; [contradiction|].
      destruct IH as [I1 I2]. split.
      * rewrite app_nil_r. destruct s; cbn [rel] in Hr; subst; try reflexivity; try contradiction.
        specialize (Hr []). rewrite app_nil_r in Hr. exact Hr.
      * cbn [forallb]. cbn [app] in I1. rewrite I1. exact I2.
    + pose proof (rel_step s p a Ea Hr) as Hr'.
      assert (Hok' : ok (if a =? dot then next s else SX) r = true) by (destruct (a =? dot); exact Hok).
      specialize (IH _ _ Hr' Hok'). destruct (components r) as [|c cs]; [contradiction|].
      destruct IH as [I1 I2]. split; [|exact I2]. rewrite <- app_assoc in I1. exact I1.
Qed.

Lemma ok_no_dotdot l : ok S0 l = true -> no_dotdot l = true.
Proof.
  intros H. unfold no_dotdot. pose proof (ok_components l S0 [] eq_refl H) as C.
  destruct (components l) as [|c cs]; [contradiction|]. destruct C as [C1 C2].
  cbn [forallb]. cbn [app] in C1. rewrite C1. exact C2.
Qed.

Theorem sanitize_no_dotdot : forall l, no_dotdot (sanitize l) = true.
Proof. intros l. apply ok_no_dotdot. unfold sanitize. apply dotscan_ok. Qed.

Lemma strip_lead_head l : starts_with_sep (strip_lead l) = false /\
  (match strip_lead l with a :: _ => is_sepish a = false | [] => True end).
Proof.
  destruct l as [|a r]; [split; [reflexivity|exact I]|]. cbn [strip_lead].
  destruct ((a =? sep) || (a =? bsl)) eqn:E.
  - split; reflexivity.
  - split; [cbn [starts_with_sep]; apply orb_false_elim in E; destruct E as [E1 _]; exact E1|exact E].
Qed.

Theorem sanitize_not_absolute : forall l, starts_with_sep (sanitize l) = false.
Proof.
  intros l. unfold sanitize. destruct (strip_lead_head l) as [_ H].
  destruct (strip_lead l) as [|a tl]; [reflexivity|].
  assert (Ha : (a =? sep) = false) by (unfold is_sepish in H; apply orb_false_elim in H; destruct H; assumption).
  destruct tl as [|b rest]; [cbn [dotscan starts_with_sep]; exact Ha|].
  cbn [dotscan]. destruct (_ && _ && _); [reflexivity|cbn [starts_with_sep]; exact Ha].
Qed.

Lemma no_dotdot_never_climbs : forall cs d, 0 <= d -> forallb (fun c => negb (is_dotdot c)) cs = true -> never_climbs d cs = true.
Proof.
  induction cs as [|c cs IH]; intros d Hd H; [reflexivity|].
  cbn [forallb never_climbs] in *. apply andb_prop in H. destruct H as [H1 H2].
  destruct (is_dotdot c); [discriminate H1|]. destruct (is_noop c); apply IH; try lia; exact H2.
Qed.

Theorem sanitize_contained : forall l, never_climbs 0 (components (sanitize l)) = true.
Proof. intros l. apply no_dotdot_never_climbs; [lia|]. exact (sanitize_no_dotdot l). Qed.

(* C14: the regenerated geometry arithmetic of format and mount. *)
From Coq Require Import ZArith List Bool Lia.
From ADF Require Import CPrelude Generated.Layout Generated.Leaf Proofs.GeometryP Proofs.ProgP.
Local Open Scope Z_scope.

(* bitmap pages needed for nBlock = (volume blocks - 2) bits: ceil(nBlock / 4064) *)
Theorem bitmapsize_spec : forall n, 0 <= n < 2 ^ 32 - 4064 -> c_nBlock2bitmapSize n = cdiv n 4064.
Proof.
  intros n Hn. unfold c_nBlock2bitmapSize, cdiv. cbv zeta.
  change (127 * 32) with 4064. rewrite (u32_id 4064) by lia.
  pose proof (Z.div_mod n 4064 ltac:(lia)). pose proof (Z.mod_pos_bound n 4064 ltac:(lia)).
  assert (0 <= n / 4064 < 2 ^ 31) by (split; [apply Z.div_pos; lia|apply Z.div_lt_upper_bound; lia]).
  destruct (Z.eqb_spec (n mod 4064) 0) as [E|E]; cbn [negb].
  - apply (Z.div_unique _ _ _ 4063); lia.
  - rewrite u32_id by lia. apply (Z.div_unique _ _ _ (n mod 4064 - 1)); lia.
Qed.

(* the pages cover exactly the blocks 2 .. n-1 of a volume of n blocks: enough bits, and no page too many *)
Theorem bitmap_covers : forall n, 3 <= n < 2 ^ 31 ->
  let pages := c_nBlock2bitmapSize (n - 2) in
  n - 2 <= pages * 4064 /\ (pages - 1) * 4064 < n - 2.
Proof.
  intros n Hn pages. unfold pages. rewrite bitmapsize_spec by lia. unfold cdiv.
  pose proof (Z.div_mod (n - 2 + 4064 - 1) 4064 ltac:(lia)). pose proof (Z.mod_pos_bound (n - 2 + 4064 - 1) 4064 ltac:(lia)). lia.
Qed.

(* device classification by size in bytes *)
Theorem devtype_spec : forall size, 0 <= size < 2 ^ 32 ->
  c_adfDevType size =
    if (size =? 901120) || (size =? 912384) || (size =? 923648) || (size =? 934912) then 1      (* DD: 80..83 cylinders *)
    else if size =? 1802240 then 2                                                                (* HD *)
    else if size >? 1802240 then 3 else -1.
Proof. intros size H. unfold c_adfDevType. reflexivity. Qed.

(* floppies: the mounted range is the whole device *)
Theorem flop_range : forall sect, sect = 11 \/ sect = 22 ->
  s_adfMountFlop_range 80 2 sect = (0, 80 * 2 * sect - 1, 80 * sect).
Proof. intros sect [-> | ->]; reflexivity. Qed.

(* any floppy geometry: the mounted volume is exactly the device - blocks 0 .. cyl*heads*sect - 1, the last one included and none beyond *)
Theorem flop_range_inside : forall c h sct, 0 <= c * h < 2 ^ 32 -> 0 < c * h * sct < 2 ^ 31 ->
  let '(f, l, r) := s_adfMountFlop_range c h sct in f = 0 /\ l = c * h * sct - 1.
Proof.
  intros c h sct H1 H2. unfold s_adfMountFlop_range. split; [reflexivity|].
  rewrite (cast_u32_id (c * h)) by lia. rewrite (cast_u32_id (c * h * sct)) by lia. rewrite cast_u32_id by lia. apply cast_s32_id. lia.
Qed.

(* C03: the block checksum the library computes (adfNormalSum, REGENERATED from adf_raw.c on every run), once stored
   big-endian at the checksum offset (swLong), makes the block pass the decoder's checksum test (Spec/Decode.sum_ok:
   the 128 longs add up to 0 mod 2^32) - for every 512-byte block and every long-aligned checksum offset
   (20 for header-type blocks, 0 for bitmap blocks, 8 for RDB blocks). *)
From Coq Require Import ZArith List Bool Lia.
From ADF Require Import CPrelude Generated.Leaf Spec.Decode Proofs.CalendarP Proofs.BytesP.
Import ListNotations.
Local Open Scope Z_scope.

(* ---- the loop of adfNormalSum ---- *)
Fixpoint sum_skip (b : list Z) (skip : Z) (k : nat) : Z :=
  match k with
  | O => 0
  | S m => sum_skip b skip m + (if Z.of_nat m =? skip then 0 else be32_at b (4 * Z.of_nat m))
  end.

Lemma normalsum_loop b off fuel : 0 <= off -> (128 < fuel)%nat ->
  c_adfNormalSum fuel b off 512 = Some (cast_u32 (- cast_s32 (sum_skip b (off / 4) 128 mod 2 ^ 32))).
Proof.
  intros Hoff Hfuel. unfold c_adfNormalSum. cbv zeta.
  change (Z.quot 512 4) with 128.
  rewrite Z.quot_div_nonneg by lia.
  loop_inv (fun s : Z * Z => let '(acc, i) := s in 0 <= i <= 128 /\ acc = sum_skip b (off / 4) (Z.to_nat i) mod 2 ^ 32)
           (fun s : Z * Z => Z.to_nat (128 - snd s)).
  - intros [acc i] [Hi Hacc] Hc. apply Z.ltb_lt in Hc. simpl snd. split; [|lia].
    split; [lia|].
    replace (Z.to_nat (i + 1)) with (S (Z.to_nat i)) by lia.
    cbn [sum_skip]. rewrite Z2Nat.id by lia.
    destruct (i =? off / 4) eqn:E; simpl negb; cbv iota.
    + rewrite Z.add_0_r. exact Hacc.
    + unfold cast_u32, cast_u. rewrite Hacc. rewrite Z.add_mod_idemp_l by lia.
      replace (i * 4) with (4 * i) by lia. reflexivity.
  - simpl. split; [lia|reflexivity].
  - simpl. lia.
  - destruct Hloop as [[acc i] [Hw [[Hi Hacc] Hc]]]. rewrite Hw.
    apply Z.ltb_ge in Hc. assert (i = 128) by lia. subst i.
    change (Z.to_nat 128) with 128%nat in Hacc. rewrite Hacc. reflexivity.
Qed.

Lemma neg_s32 x : 0 <= x < 2 ^ 32 -> cast_u32 (- cast_s32 x) = (- x) mod 2 ^ 32.
Proof.
  intros H. unfold cast_u32, cast_u, cast_s32, cast_s. change (32 - 1) with 31.
  rewrite (Z.mod_small x) by lia.
  destruct (x <? 2 ^ 31); [reflexivity|].
  replace (- (x - 2 ^ 32)) with (- x + 1 * 2 ^ 32) by lia.
  apply Z.mod_add. lia.
Qed.

(* ---- the decoder's sum in terms of the same sum ---- *)
Fixpoint sum_all (b : list Z) (k : nat) : Z :=
  match k with O => 0 | S m => sum_all b m + be32_at b (4 * Z.of_nat m) end.

Lemma sum32_nat_shift b i n : sum32_nat b (4 * i) (S n) = sum32_nat b (4 * i) n + be32_at b (4 * (i + Z.of_nat n)).
Proof.
  revert i; induction n as [|n IH]; intros i.
  - cbn [sum32_nat Z.of_nat]. unfold u32. rewrite !Z.add_0_r. lia.
  - change (sum32_nat b (4 * i) (S (S n))) with (u32 b (4 * i) + sum32_nat b (4 * i + 4) (S n)).
    replace (4 * i + 4) with (4 * (i + 1)) by lia. rewrite IH.
    change (sum32_nat b (4 * i) (S n)) with (u32 b (4 * i) + sum32_nat b (4 * i + 4) n).
    replace (4 * i + 4) with (4 * (i + 1)) by lia.
    replace (i + 1 + Z.of_nat n) with (i + Z.of_nat (S n)) by lia. lia.
Qed.

Lemma sum32_nat_all b n : sum32_nat b 0 n = sum_all b n.
Proof.
  induction n as [|n IH]; [reflexivity|].
  change 0 with (4 * 0) at 1. rewrite sum32_nat_shift. change (4 * 0) with 0. rewrite IH.
  cbn [sum_all]. replace (0 + Z.of_nat n) with (Z.of_nat n) by lia. reflexivity.
Qed.

Lemma sum_all_put b off v k : 0 <= off -> off mod 4 = 0 -> off + 3 < Z.of_nat (length b) -> 0 <= v < 2 ^ 32 ->
  sum_all (put_be32 b off v) k = sum_skip b (off / 4) k + (if Z.of_nat k <=? off / 4 then 0 else v).
Proof.
  intros H0 Hm Hl Hv. induction k as [|k IH].
  - simpl. destruct (0 <=? off / 4) eqn:E; [reflexivity|]. apply Z.leb_gt in E.
    pose proof (Z.div_pos off 4 H0 ltac:(lia)). lia.
  - cbn [sum_all sum_skip]. rewrite IH.
    assert (Ho : off = 4 * (off / 4)) by (pose proof (Z.div_mod off 4 ltac:(lia)); lia).
    destruct (Z.of_nat k =? off / 4) eqn:E.
    + apply Z.eqb_eq in E. rewrite E. rewrite <- Ho. rewrite be32_put_same by assumption.
      destruct (Z.leb_spec (off / 4) (off / 4)); [|lia].
      destruct (Z.leb_spec (Z.of_nat (S k)) (off / 4)); lia.
    + apply Z.eqb_neq in E. rewrite be32_put_other by lia.
      destruct (Z.leb_spec (Z.of_nat k) (off / 4)); destruct (Z.leb_spec (Z.of_nat (S k)) (off / 4)); lia.
Qed.

Lemma Some_inj {A} (a b : A) : Some a = Some b -> a = b.
Proof. intros H; injection H; auto. Qed.

(* ---- main statement ---- *)
Theorem normalsum_accepted : forall (b : list Z) (off : Z) (fuel : nat) (s : Z),
  length b = 512%nat -> 0 <= off < 512 -> off mod 4 = 0 -> (128 < fuel)%nat ->
  c_adfNormalSum fuel b off 512 = Some s ->
  0 <= s < 2 ^ 32 /\ sum_ok (put_be32 b off s) = true.
Proof.
  intros b off fuel s Hl Hoff Hm Hf H.
  rewrite normalsum_loop in H by lia. apply Some_inj in H. subst s.
  set (T := sum_skip b (off / 4) 128).
  assert (HT : 0 <= T mod 2 ^ 32 < 2 ^ 32) by (apply Z.mod_pos_bound; lia).
  rewrite neg_s32 by exact HT.
  assert (Hs : 0 <= (- (T mod 2 ^ 32)) mod 2 ^ 32 < 2 ^ 32) by (apply Z.mod_pos_bound; lia).
  split; [exact Hs|].
  unfold sum_ok. apply Z.eqb_eq.
  rewrite sum32_nat_all.
  rewrite sum_all_put; [|lia|exact Hm|rewrite Hl; lia|exact Hs].
  fold T.
  assert (off / 4 < 128) by (apply Z.div_lt_upper_bound; lia).
  destruct (Z.leb_spec (Z.of_nat 128) (off / 4)); [lia|].
  rewrite Z.add_mod_idemp_r by lia.
  rewrite <- Z.add_mod_idemp_l by lia.
  rewrite Z.add_opp_diag_r. reflexivity.
Qed.

(* the decoder rejects a block whose stored checksum differs from the one the library would compute (so "sum_ok" on an
   image and "the library verifies the checksum" are the same test) *)
Theorem normalsum_unique : forall (b : list Z) (off : Z) (fuel : nat) (s v : Z),
  length b = 512%nat -> 0 <= off < 512 -> off mod 4 = 0 -> (128 < fuel)%nat ->
  c_adfNormalSum fuel b off 512 = Some s -> 0 <= v < 2 ^ 32 ->
  sum_ok (put_be32 b off v) = true -> v = s.
Proof.
  intros b off fuel s v Hl Hoff Hm Hf H Hv Hok.
  rewrite normalsum_loop in H by lia. apply Some_inj in H. subst s.
  set (T := sum_skip b (off / 4) 128) in *.
  assert (HT : 0 <= T mod 2 ^ 32 < 2 ^ 32) by (apply Z.mod_pos_bound; lia).
  rewrite neg_s32 by exact HT.
  unfold sum_ok in Hok. apply Z.eqb_eq in Hok.
  rewrite sum32_nat_all in Hok.
  rewrite sum_all_put in Hok; [|lia|exact Hm|rewrite Hl; lia|exact Hv].
  fold T in Hok.
  assert (off / 4 < 128) by (apply Z.div_lt_upper_bound; lia).
  destruct (Z.leb_spec (Z.of_nat 128) (off / 4)); [lia|].
  (* (T + v) mod 2^32 = 0 and 0 <= v < 2^32  ->  v = (-(T mod 2^32)) mod 2^32 *)
  apply (Z.mod_unique _ _ (- ((T + v) / 2 ^ 32) + (T / 2 ^ 32))); [left; exact Hv|].
  pose proof (Z.div_mod (T + v) (2 ^ 32) ltac:(lia)) as E1.
  pose proof (Z.div_mod T (2 ^ 32) ltac:(lia)) as E2.
  rewrite Hok in E1. lia.
Qed.

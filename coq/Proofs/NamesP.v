(* C15: the generated adfToUpper / adfIntlToUpper / adfGetHashValue agree with the AmigaDOS folding and hash. *)
From Coq Require Import ZArith List Bool Lia.
From ADF Require Import CPrelude Generated.Leaf Spec.Names Proofs.CalendarP.
Import ListNotations.
Local Open Scope Z_scope.

Definition bytes256 : list Z := map Z.of_nat (seq 0 256).

Lemma in_bytes256 c : 0 <= c < 256 -> In c bytes256.
Proof.
  intros H. unfold bytes256. apply in_map_iff. exists (Z.to_nat c). split; [lia|].
  apply in_seq. lia.
Qed.

Lemma upper_tables_b :
  forallb (fun c => (c_adfToUpper c =? upper_ascii c) && (c_adfIntlToUpper c =? upper_intl c)) bytes256 = true.
Proof. vm_compute. reflexivity. Qed.

Theorem upper_tables c : 0 <= c < 256 ->
  c_adfToUpper c = upper_ascii c /\ c_adfIntlToUpper c = upper_intl c.
Proof.
  intros H. pose proof upper_tables_b as T. rewrite forallb_forall in T.
  specialize (T c (in_bytes256 c H)). apply andb_prop in T. destruct T as [A B].
  split; apply Z.eqb_eq; assumption.
Qed.

Lemma toupper_table_b :
  forallb (fun c => cast_u8 (c_toupper c) =? upper_ascii c) bytes256 = true.
Proof. vm_compute. reflexivity. Qed.

Lemma toupper_table c : 0 <= c < 256 -> cast_u8 (c_toupper c) = upper_ascii c.
Proof.
  intros H. pose proof toupper_table_b as T. rewrite forallb_forall in T.
  apply Z.eqb_eq. apply (T c (in_bytes256 c H)).
Qed.

Lemma upper_range_b :
  forallb (fun c => (0 <=? upper_ascii c) && (upper_ascii c <? 256) && (0 <=? upper_intl c) && (upper_intl c <? 256)) bytes256 = true.
Proof. vm_compute. reflexivity. Qed.

Lemma upper_range intl c : 0 <= c < 256 -> 0 <= upper intl c < 256.
Proof.
  intros H. pose proof upper_range_b as T. rewrite forallb_forall in T.
  specialize (T c (in_bytes256 c H)).
  repeat (apply andb_prop in T; destruct T as [T ?]).
  destruct intl; simpl; lia.
Qed.

(* folding is idempotent, so a folded name hashes like the original *)
Lemma upper_idem_b :
  forallb (fun c => (upper_ascii (upper_ascii c) =? upper_ascii c) && (upper_intl (upper_intl c) =? upper_intl c)) bytes256 = true.
Proof. vm_compute. reflexivity. Qed.

Lemma upper_idem intl c : 0 <= c < 256 -> upper intl (upper intl c) = upper intl c.
Proof.
  intros H. pose proof upper_idem_b as T. rewrite forallb_forall in T.
  specialize (T c (in_bytes256 c H)). apply andb_prop in T. destruct T as [A B].
  destruct intl; simpl; apply Z.eqb_eq; assumption.
Qed.

(* ---- the hash ---- *)
Lemma land_2047 x : Z.land x 2047 = x mod 2048.
Proof. change 2047 with (Z.ones 11). rewrite Z.land_ones by lia. reflexivity. Qed.

Lemma mod_2048_u32 x : (x mod 2 ^ 32) mod 2048 = x mod 2048.
Proof.
  symmetry. apply Znumtheory.Zmod_div_mod; [lia|lia|]. exists (2 ^ 21). reflexivity.
Qed.

Lemma hash_step_gen h u :
  Z.land (cast_u32 (cast_u32 (h * 13) + u)) 2047 = hash_step h u.
Proof.
  rewrite land_2047. unfold cast_u32, cast_u, hash_step.
  rewrite mod_2048_u32.
  rewrite Z.add_mod by lia. rewrite mod_2048_u32. rewrite <- Z.add_mod by lia. reflexivity.
Qed.

Lemma skipn_nthZ (l : list Z) (k : nat) : (k < length l)%nat ->
  skipn k l = nthZ l (Z.of_nat k) :: skipn (S k) l.
Proof.
  revert k. induction l as [|a l IH]; intros k Hk; simpl in Hk; [lia|].
  destruct k as [|k].
  - reflexivity.
  - simpl skipn. rewrite IH by lia.
    f_equal. unfold nthZ.
    destruct (Z.ltb_spec (Z.of_nat k) 0); [lia|]. destruct (Z.ltb_spec (Z.of_nat (S k)) 0); [lia|].
    rewrite !Nat2Z.id. reflexivity.
Qed.

Lemma Forall_nthZ (P : Z -> Prop) l k : Forall P l -> (k < length l)%nat -> P (nthZ l (Z.of_nat k)).
Proof.
  intros HF Hk. unfold nthZ. destruct (Z.ltb_spec (Z.of_nat k) 0); [lia|].
  rewrite Nat2Z.id. rewrite Forall_forall in HF. apply HF. apply nth_In. exact Hk.
Qed.

Lemma nth_firstn_lt (l : list Z) : forall (n k : nat), (k < n)%nat -> nth k (firstn n l) 0 = nth k l 0.
Proof.
  induction l as [|a l IH]; intros n k H.
  - rewrite firstn_nil. reflexivity.
  - destruct n as [|n]; [lia|]. destruct k as [|k]; [reflexivity|]. simpl. apply IH. lia.
Qed.

Lemma nthZ_firstn (l : list Z) (n k : nat) : (k < n)%nat -> nthZ (firstn n l) (Z.of_nat k) = nthZ l (Z.of_nat k).
Proof.
  intros H. unfold nthZ. destruct (Z.ltb_spec (Z.of_nat k) 0); [lia|]. rewrite Nat2Z.id.
  apply nth_firstn_lt. exact H.
Qed.

Lemma Forall_firstn {A} (P : A -> Prop) n l : Forall P l -> Forall P (firstn n l).
Proof.
  revert n. induction l as [|a l IH]; intros n H.
  - rewrite firstn_nil. constructor.
  - destruct n; [constructor|]. simpl. inversion H; subst. constructor; auto.
Qed.

(* the library hashes the name as stored: at most 30 bytes *)
Theorem hash_gen : forall (name : list Z) (intl : Z) (fuel : nat),
  is_byte_string name -> Z.of_nat (length name) < 2 ^ 32 -> (31 < fuel)%nat ->
  c_adfGetHashValue fuel name intl = Some (hash_name (negb (intl =? 0)) (trunc30 name)).
Proof.
  intros name intl fuel Hb Hlen Hf. unfold c_adfGetHashValue. cbv zeta.
  set (il := negb (intl =? 0)).
  set (t := trunc30 name).
  assert (Ht : length t = Nat.min 30 (length name)) by (unfold t, trunc30; apply firstn_length).
  assert (Hbt : is_byte_string t) by (unfold t, trunc30; apply Forall_firstn; exact Hb).
  set (len := if cast_u32 (c_strlen name) <? 30 then cast_u32 (c_strlen name) else 30).
  assert (Elen : len = Z.of_nat (length t)).
  { unfold len, c_strlen. rewrite cast_u32_id by lia. rewrite Ht.
    destruct (Z.ltb_spec (Z.of_nat (length name)) 30); lia. }
  loop_inv
    (fun '((u, h, i) : Z * Z * Z) => exists k : nat, i = Z.of_nat k /\ (k <= length t)%nat /\
        fold_left hash_step (fold_name il (skipn k t)) h = fold_left hash_step (fold_name il t) len)
    (fun '((_, _, i) : Z * Z * Z) => (length t - Z.to_nat i)%nat).
  - intros [[u h] i] (k & -> & Hk & Hfold) Hc. rewrite Z.ltb_lt in Hc. rewrite Elen in Hc.
    assert (Hk' : (k < length t)%nat) by lia.
    split; [|rewrite cast_u32_id by lia; lia].
    exists (S k). split; [rewrite cast_u32_id by lia; lia|]. split; [lia|].
    rewrite (skipn_nthZ t k Hk') in Hfold. simpl fold_name in Hfold. simpl fold_left in Hfold.
    rewrite <- Hfold. f_equal. rewrite hash_step_gen. f_equal.
    pose proof (Forall_nthZ _ t k Hbt Hk') as Hr.
    assert (En : nthZ name (Z.of_nat k) = nthZ t (Z.of_nat k)).
    { unfold t, trunc30. symmetry. apply nthZ_firstn. lia. }
    rewrite En. fold il. destruct il; simpl.
    + apply upper_tables. exact Hr.
    + apply toupper_table. exact Hr.
  - exists 0%nat. split; [reflexivity|]. split; [lia|]. reflexivity.
  - simpl. lia.
  - destruct Hloop as ([[u h] i] & Heq & (k & -> & Hk & Hfold) & Hc).
    rewrite Heq. rewrite Z.ltb_ge in Hc. rewrite Elen in Hc.
    assert (k = length t) by lia. subst k. rewrite skipn_all in Hfold. simpl in Hfold.
    subst h. unfold hash_name, hash_folded, fold_name. rewrite map_length. rewrite Elen. reflexivity.
Qed.

Theorem hash_long_names : forall (name : list Z) (intl : Z) (fuel : nat),
  is_byte_string name -> Z.of_nat (length name) < 2 ^ 32 -> (31 < fuel)%nat ->
  c_adfGetHashValue fuel name intl = c_adfGetHashValue fuel (trunc30 name) intl.
Proof.
  intros name intl fuel Hb Hl Hf.
  rewrite (hash_gen name intl fuel Hb Hl Hf).
  assert (Hb' : is_byte_string (trunc30 name)) by (apply Forall_firstn; exact Hb).
  assert (Hl' : Z.of_nat (length (trunc30 name)) < 2 ^ 32).
  { unfold trunc30. rewrite firstn_length. lia. }
  rewrite (hash_gen (trunc30 name) intl fuel Hb' Hl' Hf).
  unfold trunc30. rewrite firstn_firstn. reflexivity.
Qed.

Theorem hash_depends_on_fold intl a b :
  fold_name intl a = fold_name intl b -> hash_name intl a = hash_name intl b.
Proof. intros E. unfold hash_name. rewrite E. reflexivity. Qed.

Theorem hash_range intl s : 0 <= hash_name intl s < 72.
Proof. unfold hash_name, hash_folded. apply Z.mod_pos_bound. lia. Qed.

Lemma fold_name_idem intl s : is_byte_string s -> fold_name intl (fold_name intl s) = fold_name intl s.
Proof.
  intros H. unfold fold_name. rewrite map_map. apply map_ext_in.
  intros c Hc. apply upper_idem. unfold is_byte_string in H. rewrite Forall_forall in H. apply H. exact Hc.
Qed.

(* a case variant of a name lands in the same hash slot *)
Theorem hash_of_folded intl s : is_byte_string s -> hash_name intl (fold_name intl s) = hash_name intl s.
Proof. intros H. apply hash_depends_on_fold. apply fold_name_idem. exact H. Qed.

(* Free-space accounting over whole sets of blocks (C05 / C14): taking any set of distinct free blocks lowers the free count by exactly
   their number, giving a set of distinct used blocks back raises it by their number, and a bitmap in which every block is free counts
   all blocks 2..last - so after any set of takes and releases the count is `blocks of the volume - blocks in use`.  Over the bit
   operations REGENERATED from adf_bitm.c (Model/Bitmap: set_used / set_free / is_free wrap the generated index and mask expressions). *)
From Coq Require Import ZArith List Bool Lia.
From ADF Require Import CPrelude Generated.Leaf Model.Bitmap Proofs.BitmapP.
Import ListNotations.
Local Open Scope Z_scope.

Lemma count_after_set_free b n last : 2 <= n <= last -> is_free b n = false ->
  count_free (set_free b n) last = count_free b last + 1.
Proof.
  intros Hn Hf. rewrite !count_free_spec.
  set (len := Z.to_nat (last - 1)).
  assert (Hin : In n (zseq 2 len)) by (apply in_zseq; unfold len; lia).
  assert (Hnd : NoDup (zseq 2 len)) by apply nodup_zseq.
  assert (Hge : forall x, In x (zseq 2 len) -> 2 <= x) by (intros x Hx; apply in_zseq in Hx; lia).
  clearbody len. revert Hin Hnd Hge. generalize (zseq 2 len) as l.
  induction l as [|x l IH]; intros Hin Hnd Hge; [destruct Hin|].
  inversion Hnd as [|? ? Hnx Hnd']; subst.
  unfold nfree in *. cbn [filter].
  rewrite is_free_set_free by (try lia; apply Hge; left; reflexivity).
  destruct (Z.eqb_spec x n) as [->|Hne].
  - rewrite Hf. cbn [length].
    assert (E : length (filter (is_free (set_free b n)) l) = length (filter (is_free b) l)).
    { clear - Hn Hnx Hge. induction l as [|y l IH]; [reflexivity|]. cbn [filter].
      rewrite is_free_set_free by (try lia; apply Hge; right; left; reflexivity).
      destruct (Z.eqb_spec y n) as [->|Hne]; [exfalso; apply Hnx; left; reflexivity|].
      assert (IH' : length (filter (is_free (set_free b n)) l) = length (filter (is_free b) l)).
      { apply IH; [intros Hc; apply Hnx; right; exact Hc|]. intros z [->|Hz]; apply Hge; [left; reflexivity|right; right; exact Hz]. }
      destruct (is_free b y); cbn [length]; rewrite IH'; reflexivity. }
    rewrite E. lia.
  - destruct Hin as [->|Hin]; [contradiction|].
    specialize (IH Hin Hnd' (fun y Hy => Hge y (or_intror Hy))).
    destruct (is_free b x); cbn [length]; lia.
Qed.

Theorem count_after_taking b last : forall l, NoDup l -> (forall x, In x l -> 2 <= x <= last /\ is_free b x = true) ->
  count_free (fold_left set_used l b) last = count_free b last - Z.of_nat (length l).
Proof.
  intros l. revert b. induction l as [|x l IH]; intros b Hnd H; cbn [fold_left length]; [lia|].
  inversion Hnd as [|? ? Hx Hnd']; subst.
  rewrite IH.
  - rewrite count_after_set_used by (apply H; left; reflexivity). lia.
  - exact Hnd'.
  - intros y Hy. destruct (H y (or_intror Hy)) as (Hr & Hf). split; [exact Hr|].
    rewrite is_free_set_used by (try lia; apply (H x (or_introl eq_refl))).
    destruct (Z.eqb_spec y x) as [->|_]; [contradiction|exact Hf].
Qed.

Theorem count_after_releasing b last : forall l, NoDup l -> (forall x, In x l -> 2 <= x <= last /\ is_free b x = false) ->
  count_free (fold_left set_free l b) last = count_free b last + Z.of_nat (length l).
Proof.
  intros l. revert b. induction l as [|x l IH]; intros b Hnd H; cbn [fold_left length]; [lia|].
  inversion Hnd as [|? ? Hx Hnd']; subst.
  rewrite IH.
  - rewrite count_after_set_free by (apply H; left; reflexivity). lia.
  - exact Hnd'.
  - intros y Hy. destruct (H y (or_intror Hy)) as (Hr & Hf). split; [exact Hr|].
    rewrite is_free_set_free by (try lia; apply (H x (or_introl eq_refl))).
    destruct (Z.eqb_spec y x) as [->|_]; [contradiction|exact Hf].
Qed.

Lemma used_stays_used y : forall l b, 2 <= y -> is_free b y = false -> (forall z, In z l -> 2 <= z) -> is_free (fold_left set_used l b) y = false.
Proof.
  induction l as [|z l IH]; intros b Hy Hf Hl; [exact Hf|]. cbn [fold_left].
  apply IH; [exact Hy| |intros w Hw; apply Hl; right; exact Hw].
  rewrite is_free_set_used by (try lia; apply Hl; left; reflexivity). destruct (y =? z); [reflexivity|exact Hf].
Qed.

Lemma taken_are_used_gen : forall l b, (forall x, In x l -> 2 <= x) -> forall x, In x l -> is_free (fold_left set_used l b) x = false.
Proof.
  induction l as [|y l IH]; intros b H x Hx; [destruct Hx|]. cbn [fold_left].
  destruct Hx as [->|Hx].
  - apply used_stays_used; [apply H; left; reflexivity| |intros z Hz; apply H; right; exact Hz].
    rewrite is_free_set_used by (apply H; left; reflexivity). rewrite Z.eqb_refl. reflexivity.
  - apply IH; [intros z Hz; apply H; right; exact Hz|exact Hx].
Qed.

Lemma taken_are_used b last l : (forall x, In x l -> 2 <= x <= last /\ is_free b x = true) ->
  forall x, In x l -> is_free (fold_left set_used l b) x = false.
Proof. intros H x Hx. apply taken_are_used_gen; [intros z Hz; apply (H z Hz)|exact Hx]. Qed.

(* the bitmap adfCreateBitmap starts from: every bit set *)
Definition all_free : bm := fun _ _ => 4294967295.

Lemma all_free_is_free n : 2 <= n -> is_free all_free n = true.
Proof.
  intros H. rewrite is_free_spec by lia. unfold spec_free, all_free. change 4294967295 with (Z.ones 32).
  apply Z.ones_spec_low. pose proof (Z.mod_pos_bound (n - 2) 32 ltac:(lia)). lia.
Qed.

Theorem count_all_free last : 1 <= last -> count_free all_free last = last - 1.
Proof.
  intros H. rewrite count_free_spec. unfold nfree.
  assert (E : forall len start, 2 <= start -> length (filter (is_free all_free) (zseq start len)) = len).
  { induction len as [|len IH]; intros start Hs; [reflexivity|]. cbn [zseq filter]. rewrite all_free_is_free by lia. cbn [length]. rewrite IH by lia. reflexivity. }
  rewrite E by lia. lia.
Qed.

(* a freshly formatted volume of `last + 1` blocks on which the distinct blocks `used` (root, bitmap pages, bitmap extension blocks,
   the root's cache block) have been taken: the free count is the volume minus the two boot blocks minus the blocks in use *)
Theorem count_after_format last used : 1 <= last -> NoDup used -> (forall x, In x used -> 2 <= x <= last) ->
  count_free (fold_left set_used used all_free) last = (last + 1) - 2 - Z.of_nat (length used).
Proof.
  intros H Hnd Hr. rewrite count_after_taking.
  - rewrite count_all_free by lia. lia.
  - exact Hnd.
  - intros x Hx. split; [apply Hr; exact Hx|apply all_free_is_free; apply Hr; exact Hx].
Qed.

(* Proofs about the file handle state machine Model/FileIO.v: every call refines the byte-array file of Spec/FsSpec.v.
   Ghost state: L = the data blocks of the file in order, E = its extension blocks in order.  No device faults here
   (bad = fun _ => false); the allocator hands out blocks the file does not own yet, or refuses. *)
From Coq Require Import ZArith List Bool Lia.
From ADF Require Import CPrelude Proofs.BytesP Model.FileIO Proofs.FileIOL.
Import ListNotations.
Local Open Scope Z_scope.

Ltac Zify.zify_post_hook ::= Z.to_euclidean_division_equations.

Definition nobad : Z -> bool := fun _ => false.

Ltac splits := repeat match goal with |- _ /\ _ => split end.

Section Inv.
  Variable bs : Z.
  Variable ofs : bool.
  Variable key : Z.
  Hypothesis Hbs : 0 < bs.

  Definition enc_x (L E : list Z) (j : Z) : xblk :=
    {| x_key := nthZ E j; x_parent := key; x_high := Z.min 72 (len L - 72 * (j + 1)); x_tab := subZ L (72 * (j + 1)) 72; x_ext := nthZ E (j + 1) |}.

  Definition hdr_ok (h : fhdr) (L E : list Z) : Prop :=
    h_key h = key /\ h_tab h = subZ L 0 72 /\ h_high h = Z.min 72 (len L) /\ h_first h = nthZ L 0 /\ h_ext h = nthZ E 0.

  Definition disk_d (s : hstate) (L : list Z) (k : Z) : dblk :=
    match dk s (nthZ L k) with BData d => d | _ => zero_d bs end.

  Definition buffered (s : hstate) (k : Z) : bool := negb (cur s =? 0) && (k =? ndb s - 1).

  Definition truth_d (s : hstate) (L : list Z) (k : Z) : dblk := if buffered s k then cdata s else disk_d s L k.

  Definition byte_at (s : hstate) (L : list Z) (i : Z) : Z := nthZ (d_bytes (truth_d s L (i / bs))) (i mod bs).

  (* the file content the handle state stands for *)
  Definition Repr (s : hstate) (L : list Z) (ct : list Z) : Prop :=
    len ct = fsize s /\ forall i, 0 <= i < fsize s -> nthZ ct i = byte_at s L i.

  Record Base (s : hstate) (L E : list Z) : Prop := {
    b_hdr : hdr_ok (fh s) L E;
    b_size : 0 <= fsize s;
    b_nE : len E = db2ext (len L);
    b_nodup : NoDup (key :: L ++ E);
    b_ge2 : forall b, In b (L ++ E) -> 2 <= b;
    b_cext : match cext s with None => True | Some x => x_key x = 0 \/ exists j, 0 <= j < len E /\ x = enc_x L E j end;
    b_xdisk : forall j, 0 <= j < len E -> dk s (nthZ E j) = BExt (enc_x L E j) \/ (chg s = true /\ cext s = Some (enc_x L E j));
    b_ddisk : forall k, 0 <= k < len L ->
              (buffered s k = true /\ chg s = true) \/
              (exists d, dk s (nthZ L k) = BData d /\ len (d_bytes d) = bs /\ (ofs = true -> k + 1 < len L -> d_next d = nthZ L (k + 1)));
    b_chg : chg s = true -> mw s = true
  }.

  (* the cursor: an empty file, or block ndb-1 is buffered and pos lies in it (or at its end) *)
  Definition ext_cursor (s : hstate) (L E : list Z) (k : Z) : Prop :=
    72 <= k -> cext s = Some (enc_x L E ((k - 72) / 72)) /\ pinx s = (k - 72) mod 72 + 1.

  Definition cur_ok (s : hstate) (L E : list Z) : Prop :=
    (fsize s = 0 /\ cur s = 0 /\ pos s = 0 /\ ndb s = 0 /\ pind s = 0)
    \/ (cur s = nthZ L (ndb s - 1) /\ 1 <= ndb s <= len L /\ pos s = (ndb s - 1) * bs + pind s /\ 0 <= pind s <= bs /\ pos s <= fsize s
        /\ len (d_bytes (cdata s)) = bs
        /\ (chg s = false -> dk s (cur s) = BData (cdata s))
        /\ (ofs = true -> ndb s < len L -> d_next (cdata s) = nthZ L (ndb s))
        /\ ext_cursor s L E (ndb s - 1)).

  Definition Inv (s : hstate) (L E : list Z) : Prop := Base s L E /\ len L = size2db (fsize s) bs /\ cur_ok s L E.

  (* ---- small facts ---- *)
  Lemma in_L_nth L k : 0 <= k < len L -> In (nthZ L k) L.
  Proof. intros H. rewrite nthZ_nth by lia. apply nth_In. unfold len in H. lia. Qed.

  Lemma nodup_nth_inj (l : list Z) i j : NoDup l -> 0 <= i < len l -> 0 <= j < len l -> nthZ l i = nthZ l j -> i = j.
  Proof.
    intros Hn Hi Hj He. rewrite !nthZ_nth in He by lia. unfold len in *.
    assert (Z.to_nat i = Z.to_nat j) by (apply (proj1 (NoDup_nth l 0) Hn); [lia|lia|exact He]). lia.
  Qed.

  Lemma base_L_nodup s L E : Base s L E -> NoDup L /\ NoDup E /\ (forall a, In a L -> In a E -> False) /\ ~ In key L /\ ~ In key E.
  Proof.
    intros B. pose proof (b_nodup _ _ _ B) as H. inversion H as [|? ? Hk Hn]; subst.
    destruct (nodup_app_inv _ _ Hn) as (HL & HE & Hd).
    repeat split; try assumption.
    - intros Hc. apply Hk. apply in_or_app. left. assumption.
    - intros Hc. apply Hk. apply in_or_app. right. assumption.
  Qed.

  Lemma size2db_0 : size2db 0 bs = 0.
  Proof. unfold size2db. rewrite Z.div_0_l, Z.mod_0_l by lia. reflexivity. Qed.

  Lemma size2db_pos n : 0 < n -> 0 < size2db n bs.
  Proof.
    intros H. unfold size2db. pose proof (Z.div_mod n bs ltac:(lia)). pose proof (Z.mod_pos_bound n bs Hbs).
    pose proof (Z.div_pos n bs ltac:(lia) Hbs).
    destruct (Z.ltb_spec 0 (n mod bs)); [lia|]. assert (n mod bs = 0) by lia. nia.
  Qed.

  (* block index of a position: k*bs + off with 0 <= off < bs *)
  Lemma div_block k off : 0 <= off < bs -> (k * bs + off) / bs = k.
  Proof. intros H. symmetry. apply (Z.div_unique_pos _ _ k off); lia. Qed.
  Lemma mod_block k off : 0 <= off < bs -> (k * bs + off) mod bs = off.
  Proof. intros H. symmetry. apply (Z.mod_unique_pos _ _ k off); lia. Qed.

  (* size2db as the least n with size <= n*bs *)
  Lemma size2db_spec n : 0 <= n -> (size2db n bs - 1) * bs < n <= size2db n bs * bs \/ (n = 0 /\ size2db n bs = 0).
  Proof.
    intros H. unfold size2db. pose proof (Z.div_mod n bs ltac:(lia)). pose proof (Z.mod_pos_bound n bs Hbs).
    destruct (Z.ltb_spec 0 (n mod bs)).
    - left. nia.
    - assert (n mod bs = 0) by lia. destruct (Z.eq_dec n 0) as [->|Hn]; [right; rewrite Z.div_0_l by lia; lia|]. left. nia.
  Qed.

  Lemma size2db_unique n m : 0 <= n -> (m - 1) * bs < n <= m * bs -> size2db n bs = m.
  Proof.
    intros H Hm. destruct (size2db_spec n H) as [Hs|[-> Hs]]; [|nia]. nia.
  Qed.

  (* ---- writes to the volume ---- *)
  Lemma wr_dk s n b k : dk (wr s n b) k = if k =? n then b else dk s k.
  Proof. reflexivity. Qed.

  Lemma enc_key L E j : x_key (enc_x L E j) = nthZ E j.
  Proof. reflexivity. Qed.

  Lemma in_E_nth (E : list Z) j : 0 <= j < len E -> In (nthZ E j) E.
  Proof. apply in_L_nth. Qed.

  (* blocks of the three kinds are pairwise different *)
  Lemma sep_LE s L E k j : Base s L E -> 0 <= k < len L -> 0 <= j < len E -> nthZ L k <> nthZ E j.
  Proof.
    intros B Hk Hj He. destruct (base_L_nodup _ _ _ B) as (_ & _ & Hd & _). apply (Hd (nthZ L k)); [apply in_L_nth; assumption|rewrite He; apply in_E_nth; assumption].
  Qed.
  Lemma sep_Lkey s L E k : Base s L E -> 0 <= k < len L -> nthZ L k <> key.
  Proof. intros B Hk He. destruct (base_L_nodup _ _ _ B) as (_ & _ & _ & Hn & _). apply Hn. rewrite <- He. apply in_L_nth. assumption. Qed.
  Lemma sep_Ekey s L E j : Base s L E -> 0 <= j < len E -> nthZ E j <> key.
  Proof. intros B Hj He. destruct (base_L_nodup _ _ _ B) as (_ & _ & _ & _ & Hn). apply Hn. rewrite <- He. apply in_E_nth. assumption. Qed.
  Lemma inj_L s L E i j : Base s L E -> 0 <= i < len L -> 0 <= j < len L -> nthZ L i = nthZ L j -> i = j.
  Proof. intros B. destruct (base_L_nodup _ _ _ B) as (Hn & _). apply nodup_nth_inj. assumption. Qed.
  Lemma inj_E s L E i j : Base s L E -> 0 <= i < len E -> 0 <= j < len E -> nthZ E i = nthZ E j -> i = j.
  Proof. intros B. destruct (base_L_nodup _ _ _ B) as (_ & Hn & _). apply nodup_nth_inj. assumption. Qed.

  Lemma empty_L s L E : Inv s L E -> fsize s = 0 -> L = [] /\ E = [].
  Proof.
    intros (B & HL & _) Hz. rewrite Hz, size2db_0 in HL. assert (L = []) as -> by (destruct L; [reflexivity|unfold len in HL; simpl in HL; lia]).
    split; [reflexivity|]. pose proof (b_nE _ _ _ B) as HE. unfold len at 2 in HE. simpl in HE. unfold db2ext in HE. simpl in HE.
    destruct E; [reflexivity|unfold len in HE; simpl in HE; lia].
  Qed.

  (* ---- adfFileFlush ---- *)
  Definition flush_data (s : hstate) : dblk :=
    if ofs then set_d_size (cdata s) (Z.min (fsize s - (pos s - pind s)) bs) else cdata s.
  Definition flushes_data (s : hstate) : bool := (0 <? fsize s) && negb (cur s =? 0).
  Definition flushes_ext (s : hstate) : option xblk :=
    match cext s with Some x => if x_key x =? 0 then None else Some x | None => None end.

  Lemma flush_shape s : mw s = true ->
    let s' := fio_flush bs ofs s in
    pos s' = pos s /\ pinx s' = pinx s /\ pind s' = pind s /\ ndb s' = ndb s /\ cur s' = cur s /\ chg s' = chg s /\ cext s' = cext s
    /\ fh s' = fh s /\ mw s' = mw s /\ mr s' = mr s
    /\ cdata s' = (if flushes_data s then flush_data s else cdata s)
    /\ forall k, dk s' k =
         if k =? h_key (fh s) then BHdr (fh s)
         else if flushes_data s && (k =? cur s) then BData (flush_data s)
         else match flushes_ext s with
              | Some x => if k =? x_key x then BExt x else dk s k
              | None => dk s k
              end.
  Proof.
    intros Hw. unfold fio_flush, flushes_data, flushes_ext, flush_data, fsize. rewrite Hw. cbn [negb].
    destruct (cext s) as [x|] eqn:Hx; [destruct (x_key x =? 0) eqn:Hk|]; cbn -[Z.ltb Z.eqb Z.min];
      (destruct ((0 <? h_size (fh s)) && negb (cur s =? 0)) eqn:Hd; cbn -[Z.ltb Z.eqb Z.min]; rewrite ?Hx; repeat split; try reflexivity; exact Hw).
  Qed.

  Definition same_cursor (s s' : hstate) : Prop :=
    pos s' = pos s /\ pinx s' = pinx s /\ pind s' = pind s /\ ndb s' = ndb s /\ cur s' = cur s /\ cext s' = cext s /\ fh s' = fh s
    /\ mw s' = mw s /\ mr s' = mr s /\ d_bytes (cdata s') = d_bytes (cdata s) /\ d_next (cdata s') = d_next (cdata s).

  Definition settle (s : hstate) : hstate := if mw s && chg s then set_chg (fio_flush bs ofs s) false else s.

  Lemma normal_size_pos s L E : Inv s L E -> 1 <= ndb s -> cur s <> 0 -> 0 < fsize s.
  Proof.
    intros (B & HL & [(Hz & Hc & _)|(Hc & Hn & _)]) H1 H2; [contradiction|].
    pose proof (b_size _ _ _ B). destruct (Z.eq_dec (fsize s) 0) as [Hz|]; [|lia]. rewrite Hz, size2db_0 in HL. lia.
  Qed.

  Lemma cur_nonzero s L E : Inv s L E -> 1 <= ndb s -> cur s = nthZ L (ndb s - 1) -> ndb s <= len L -> 2 <= cur s.
  Proof. intros (B & _) H1 Hc Hn. rewrite Hc. apply (b_ge2 _ _ _ B). apply in_or_app. left. apply in_L_nth. lia. Qed.

  Lemma settle_ok s L E : Inv s L E ->
    let s' := settle s in
    Inv s' L E /\ chg s' = false /\ same_cursor s s' /\ (forall k, 0 <= k < len L -> d_bytes (truth_d s' L k) = d_bytes (truth_d s L k)).
  Proof.
    intros I. pose proof I as (B & HL & C). unfold settle.
    destruct (mw s) eqn:Hw; simpl.
    2:{ assert (Hc : chg s = false) by (destruct (chg s) eqn:Hc; [pose proof (b_chg _ _ _ B Hc); congruence|reflexivity]).
        split; [exact I|]. split; [exact Hc|]. split; [unfold same_cursor; repeat split; reflexivity|reflexivity]. }
    destruct (chg s) eqn:Hc.
    2:{ split; [exact I|]. split; [exact Hc|]. split; [unfold same_cursor; repeat split; reflexivity|reflexivity]. }
    destruct (flush_shape s Hw) as (Fpos & Fpinx & Fpind & Fndb & Fcur & Fchg & Fcext & Ffh & Fmw & Fmr & Fcd & Fdk).
    set (f := fio_flush bs ofs s) in *.
    assert (Hkey : h_key (fh s) = key) by (apply (b_hdr _ _ _ B)).
    (* the data block that is written, if any, is the buffered one *)
    assert (Hfd : flushes_data s = true -> cur s = nthZ L (ndb s - 1) /\ 1 <= ndb s <= len L /\ cur s <> 0).
    { unfold flushes_data. intros Hf. apply andb_prop in Hf. destruct Hf as (Hf1 & Hf2).
      destruct C as [(Hz & _)|(Hcu & Hn & _)]; [apply Z.ltb_lt in Hf1; lia|].
      repeat split; try lia; try assumption. }
    assert (Hbuf : forall k, buffered s k = true -> flushes_data s = true).
    { intros k Hb. unfold buffered in Hb. apply andb_prop in Hb. destruct Hb as (Hb1 & Hb2). unfold flushes_data. rewrite Hb1, andb_true_r.
      apply Z.ltb_lt. destruct C as [(_ & Hz & _)|(Hcu & Hn & _)]; [rewrite Hz in Hb1; discriminate|].
      apply (normal_size_pos s L E I); [lia|]. destruct (Z.eqb_spec (cur s) 0); [discriminate|assumption]. }
    (* what the flush leaves at the blocks of the file *)
    assert (HdkL : forall k, 0 <= k < len L -> buffered s k = false -> dk f (nthZ L k) = dk s (nthZ L k)).
    { intros k Hk Hnb. rewrite Fdk, Hkey. destruct (Z.eqb_spec (nthZ L k) key) as [He|_]; [exfalso; revert He; apply (sep_Lkey s L E k B Hk)|].
      destruct (flushes_data s) eqn:Hf; simpl.
      - destruct (Hfd eq_refl) as (Hcu & Hn & Hnz). destruct (Z.eqb_spec (nthZ L k) (cur s)) as [He|_].
        + exfalso. rewrite Hcu in He. apply (inj_L s L E k (ndb s - 1) B Hk ltac:(lia)) in He. unfold buffered in Hnb.
          destruct (Z.eqb_spec (cur s) 0); [contradiction|]. simpl in Hnb. destruct (Z.eqb_spec k (ndb s - 1)); [discriminate|contradiction].
        + unfold flushes_ext. pose proof (b_cext _ _ _ B) as Hx. destruct (cext s) as [x|]; [|reflexivity].
          destruct (Z.eqb_spec (x_key x) 0); [reflexivity|]. destruct (Z.eqb_spec (nthZ L k) (x_key x)) as [He|_]; [|reflexivity].
          exfalso. destruct Hx as [Hx|(j & Hj & ->)]; [contradiction|]. rewrite enc_key in He. revert He. apply (sep_LE s L E k j B Hk Hj).
      - unfold flushes_ext. pose proof (b_cext _ _ _ B) as Hx. destruct (cext s) as [x|]; [|reflexivity].
        destruct (Z.eqb_spec (x_key x) 0); [reflexivity|]. destruct (Z.eqb_spec (nthZ L k) (x_key x)) as [He|_]; [|reflexivity].
        exfalso. destruct Hx as [Hx|(j & Hj & ->)]; [contradiction|]. rewrite enc_key in He. revert He. apply (sep_LE s L E k j B Hk Hj). }
    assert (HdkC : flushes_data s = true -> dk f (cur s) = BData (flush_data s)).
    { intros Hf. destruct (Hfd Hf) as (Hcu & Hn & Hnz). rewrite Fdk, Hkey, Hf. simpl.
      destruct (Z.eqb_spec (cur s) key) as [He|_]; [exfalso; rewrite Hcu in He; revert He; apply (sep_Lkey s L E _ B); lia|].
      rewrite Z.eqb_refl. reflexivity. }
    assert (HdkE : forall j, 0 <= j < len E -> dk f (nthZ E j) = BExt (enc_x L E j)).
    { intros j Hj. rewrite Fdk, Hkey. destruct (Z.eqb_spec (nthZ E j) key) as [He|_]; [exfalso; revert He; apply (sep_Ekey s L E j B Hj)|].
      assert (Hnc : flushes_data s && (nthZ E j =? cur s) = false).
      { destruct (flushes_data s) eqn:Hf; [|reflexivity]. destruct (Hfd eq_refl) as (Hcu & Hn & Hnz). simpl.
        destruct (Z.eqb_spec (nthZ E j) (cur s)) as [He|_]; [|reflexivity]. exfalso. rewrite Hcu in He. symmetry in He. revert He. apply (sep_LE s L E _ j B); lia. }
      rewrite Hnc. unfold flushes_ext. pose proof (b_cext _ _ _ B) as Hx. pose proof (b_xdisk _ _ _ B j Hj) as Hd.
      assert (Hge : 2 <= nthZ E j) by (apply (b_ge2 _ _ _ B); apply in_or_app; right; apply in_E_nth; assumption).
      destruct (cext s) as [x|].
      - destruct (Z.eqb_spec (x_key x) 0) as [Hz|Hz].
        + destruct Hd as [Hd|(_ & Hd)]; [assumption|]. inversion Hd; subst x. rewrite enc_key in Hz. lia.
        + destruct (Z.eqb_spec (nthZ E j) (x_key x)) as [He|Hne].
          * destruct Hx as [Hx|(j' & Hj' & ->)]; [contradiction|]. rewrite enc_key in He. apply (inj_E s L E j j' B Hj Hj') in He. subst j'. reflexivity.
          * destruct Hd as [Hd|(_ & Hd)]; [assumption|]. inversion Hd; subst x. rewrite enc_key in Hne. contradiction.
      - destruct Hd as [Hd|(_ & Hd)]; [assumption|discriminate]. }
    assert (Hbf : forall k, buffered (set_chg f false) k = buffered s k) by (intros k; unfold buffered; simpl; rewrite Fcur, Fndb; reflexivity).
    assert (Hbytes : d_bytes (cdata f) = d_bytes (cdata s) /\ d_next (cdata f) = d_next (cdata s)).
    { rewrite Fcd. destruct (flushes_data s); [|split; reflexivity]. unfold flush_data. destruct ofs; split; reflexivity. }
    split; [|split; [reflexivity|split]].
    - (* Inv *)
      split; [|split].
      + constructor; simpl; try rewrite Ffh; try rewrite Fcext.
        * apply (b_hdr _ _ _ B).
        * unfold fsize. simpl. rewrite Ffh. apply (b_size _ _ _ B).
        * apply (b_nE _ _ _ B).
        * apply (b_nodup _ _ _ B).
        * apply (b_ge2 _ _ _ B).
        * apply (b_cext _ _ _ B).
        * intros j Hj. left. apply HdkE. assumption.
        * intros k Hk. right. destruct (buffered s k) eqn:Hb.
          -- pose proof (Hbuf k Hb) as Hf. destruct (Hfd Hf) as (Hcu & Hn & Hnz).
             assert (k = ndb s - 1) as -> by (unfold buffered in Hb; apply andb_prop in Hb; destruct Hb as (_ & Hb); apply Z.eqb_eq in Hb; assumption).
             rewrite <- Hcu. exists (flush_data s). split; [apply HdkC; assumption|].
             destruct C as [(_ & Hz & _)|(_ & _ & _ & _ & _ & Hlen & _ & Hnx & _)]; [contradiction|].
             unfold flush_data. destruct ofs; simpl; (split; [assumption|]); intros Ho Hk1; try discriminate. replace (ndb s - 1 + 1) with (ndb s) by lia. apply Hnx; [reflexivity|lia].
          -- rewrite (HdkL k Hk Hb). destruct (b_ddisk _ _ _ B k Hk) as [(Hb' & _)|Hd]; [congruence|assumption].
        * discriminate.
      + unfold fsize. simpl. rewrite Ffh. exact HL.
      + destruct C as [(Hz & Hcu & Hp & Hn & Hpi)|(Hcu & Hn & Hp & Hpi & Hps & Hlen & Hcl & Hnx & Hxc)].
        * left. unfold fsize. simpl. rewrite Ffh, Fcur, Fpos, Fndb, Fpind. repeat split; assumption.
        * right. unfold fsize. simpl. rewrite Ffh, Fcur, Fpos, Fndb, Fpind. destruct Hbytes as (Hb1 & Hb2). rewrite Hb1, Hb2.
          repeat match goal with |- _ /\ _ => split end; try assumption; try lia.
          -- intros _. assert (Hf : flushes_data s = true).
             { apply (Hbuf (ndb s - 1)). unfold buffered. rewrite Z.eqb_refl, andb_true_r. pose proof (cur_nonzero s L E I ltac:(lia) Hcu ltac:(lia)).
               destruct (Z.eqb_spec (cur s) 0); [lia|reflexivity]. }
             rewrite (HdkC Hf). rewrite Fcd, Hf. reflexivity.
          -- unfold ext_cursor. simpl. rewrite Fcext, Fpinx. exact Hxc.
    - unfold same_cursor. simpl. destruct Hbytes. repeat split; assumption.
    - intros k Hk. unfold truth_d. rewrite Hbf. destruct (buffered s k) eqn:Hb; simpl; [apply Hbytes|].
      unfold disk_d. simpl. rewrite (HdkL k Hk Hb). reflexivity.
  Qed.

  Lemma idx_in_range n i : 0 <= i < n -> 0 <= i / bs < size2db n bs.
  Proof.
    intros H. split; [apply Z.div_pos; lia|]. destruct (size2db_spec n ltac:(lia)) as [Hs|[Hs _]]; [|lia].
    apply Z.div_lt_upper_bound; lia.
  Qed.

  Lemma repr_same s s' L ct : fsize s' = fsize s -> len L = size2db (fsize s) bs ->
    (forall k, 0 <= k < len L -> d_bytes (truth_d s' L k) = d_bytes (truth_d s L k)) -> Repr s L ct -> Repr s' L ct.
  Proof.
    intros Hf HL Hb (Hl & Hr). split; [rewrite Hf; assumption|]. intros i Hi. rewrite Hf in Hi. rewrite (Hr i Hi). unfold byte_at.
    rewrite Hb; [reflexivity|]. rewrite HL. apply idx_in_range. assumption.
  Qed.

  (* a clean state: every block of the file is on the volume as the handle sees it *)
  Lemma clean_disk s L E k : Inv s L E -> chg s = false -> 0 <= k < len L ->
    exists d, dk s (nthZ L k) = BData d /\ len (d_bytes d) = bs /\ (ofs = true -> k + 1 < len L -> d_next d = nthZ L (k + 1)) /\ truth_d s L k = d.
  Proof.
    intros (B & HL & C) Hc Hk. destruct (b_ddisk _ _ _ B k Hk) as [(_ & Hx)|(d & Hd & Hlen & Hnx)]; [congruence|].
    exists d. splits; try assumption. unfold truth_d. destruct (buffered s k) eqn:Hb.
    - unfold buffered in Hb. apply andb_prop in Hb. destruct Hb as (Hb1 & Hb2). apply Z.eqb_eq in Hb2. subst k.
      destruct C as [(_ & Hz & _)|(Hcu & _ & _ & _ & _ & _ & Hcl & _)]; [rewrite Hz in Hb1; discriminate|].
      specialize (Hcl Hc). rewrite Hcu in Hcl. rewrite Hd in Hcl. inversion Hcl. reflexivity.
    - unfold disk_d. rewrite Hd. reflexivity.
  Qed.

  Lemma clean_ext s L E j : Inv s L E -> chg s = false -> 0 <= j < len E -> dk s (nthZ E j) = BExt (enc_x L E j).
  Proof. intros (B & _) Hc Hj. destruct (b_xdisk _ _ _ B j Hj) as [H|(H & _)]; [assumption|congruence]. Qed.

  (* ---- adfFileReadNextBlock ---- *)
  Definition cext_ok (s : hstate) (L E : list Z) : Prop :=
    match cext s with None => True | Some x => x_key x = 0 \/ exists j, 0 <= j < len E /\ x = enc_x L E j end.

  Lemma lenE_of s L E : Base s L E -> len E = if len L <? 1 then 0 else (len L - 1) / 72.
  Proof. intros B. rewrite (b_nE _ _ _ B). reflexivity. Qed.

  Lemma rd_ext_clean s L E j : Base s L E -> chg s = false -> 0 <= j < len E -> rd_ext nobad s (nthZ E j) = Some (enc_x L E j).
  Proof.
    intros B Hc Hj. unfold rd_ext, nobad. destruct (b_xdisk _ _ _ B j Hj) as [H|(H & _)]; [|congruence]. rewrite H. reflexivity.
  Qed.

  Lemma rd_data_clean s L E k : Base s L E -> chg s = false -> 0 <= k < len L ->
    exists d, rd_data bs nobad s (nthZ L k) = Some d /\ dk s (nthZ L k) = BData d /\ len (d_bytes d) = bs /\ (ofs = true -> k + 1 < len L -> d_next d = nthZ L (k + 1)).
  Proof.
    intros B Hc Hk. destruct (b_ddisk _ _ _ B k Hk) as [(_ & Hx)|(d & Hd & Hlen & Hnx)]; [congruence|].
    exists d. splits; try assumption. unfold rd_data, nobad. rewrite Hd.
    assert (2 <= nthZ L k) by (apply (b_ge2 _ _ _ B); apply in_or_app; left; apply in_L_nth; assumption).
    destruct (Z.ltb_spec (nthZ L k) 1); [lia|]. reflexivity.
  Qed.

  Lemma read_next_ok s L E : Base s L E -> chg s = false -> 0 <= ndb s < len L -> ext_cursor s L E (ndb s - 1) ->
    (ofs = true -> 1 <= ndb s -> d_next (cdata s) = nthZ L (ndb s)) ->
    exists s', read_next bs ofs nobad s = (true, s') /\ dk s' = dk s /\ pos s' = pos s /\ pind s' = pind s /\ ndb s' = ndb s + 1
      /\ cur s' = nthZ L (ndb s) /\ dk s (nthZ L (ndb s)) = BData (cdata s') /\ len (d_bytes (cdata s')) = bs
      /\ (ofs = true -> ndb s + 1 < len L -> d_next (cdata s') = nthZ L (ndb s + 1))
      /\ chg s' = false /\ fh s' = fh s /\ mw s' = mw s /\ mr s' = mr s /\ ext_cursor s' L E (ndb s) /\ cext_ok s' L E.
  Proof.
    intros B Hc Hn Hx Hnx.
    destruct (rd_data_clean s L E (ndb s) B Hc Hn) as (d & Hrd & Hdk & Hlen & Hdn).
    assert (Hge : 2 <= nthZ L (ndb s)) by (apply (b_ge2 _ _ _ B); apply in_or_app; left; apply in_L_nth; assumption).
    pose proof (b_hdr _ _ _ B) as (Hk & Htab & Hhigh & Hfirst & Hext).
    pose proof (lenE_of s L E B) as HlE.
    unfold read_next.
    destruct (Z.eqb_spec (ndb s) 0) as [H0|H0].
    { (* first block: firstData *)
      cbn [negb andb]. rewrite andb_false_r. assert (Hsel : h_first (fh s) = nthZ L (ndb s)) by (rewrite Hfirst, H0; reflexivity). rewrite Hsel.
      destruct (Z.ltb_spec (nthZ L (ndb s)) 2); [lia|]. rewrite Hrd.
      eexists. split; [reflexivity|]. simpl. splits; try reflexivity; try assumption; try lia.
      - unfold ext_cursor. simpl. lia.
      - exact (b_cext _ _ _ B). }
    destruct (Z.ltb_spec (ndb s) MAXDB) as [H72|H72].
    { (* header table *)
      cbn [negb]. assert (Hsel : (if ofs && true then d_next (cdata s) else nthZ (h_tab (fh s)) (ndb s)) = nthZ L (ndb s)).
      { destruct ofs; simpl; [apply Hnx; [reflexivity|lia]|]. rewrite Htab. rewrite nthZ_subZ by (unfold MAXDB in H72; lia). f_equal. }
      rewrite Hsel. destruct (Z.ltb_spec (nthZ L (ndb s)) 2); [lia|]. rewrite Hrd.
      eexists. split; [reflexivity|]. simpl. splits; try reflexivity; try assumption; try lia.
      - unfold ext_cursor. simpl. unfold MAXDB in H72. lia.
      - exact (b_cext _ _ _ B). }
    unfold MAXDB in H72.
    assert (HE1 : 1 <= len E) by (rewrite HlE; destruct (Z.ltb_spec (len L) 1); lia).
    (* the extension block that holds slot ndb, and what the code finds there *)
    set (j := (ndb s - 72) / 72). set (i := (ndb s - 72) mod 72).
    assert (Hj : 0 <= j < len E) by (subst j; rewrite HlE; destruct (Z.ltb_spec (len L) 1); lia).
    assert (Hslot : nthZ (x_tab (enc_x L E j)) i = nthZ L (ndb s)).
    { unfold enc_x. cbn [x_tab]. rewrite nthZ_subZ by (subst i; lia). f_equal. subst i j. lia. }
    destruct (Z.eqb_spec (ndb s) MAXDB) as [He|He].
    { (* first extension block, from the header *)
      unfold MAXDB in He. assert (j = 0) by (subst j; lia). assert (i = 0) by (subst i; lia).
      unfold load_ext. assert (Hrx : forall t, dk t = dk s -> rd_ext nobad t (h_ext (fh s)) = Some (enc_x L E 0)).
      { intros t Ht. unfold rd_ext, nobad. rewrite Ht, Hext. destruct (b_xdisk _ _ _ B 0 ltac:(lia)) as [Hd|(Hd & _)]; [rewrite Hd; reflexivity|congruence]. }
      destruct (cext s) eqn:Hcx; rewrite Hrx by reflexivity; cbn -[Z.ltb Z.eqb enc_x nthZ];
        (assert (Hsel : (if ofs && true then d_next (cdata s) else nthZ (x_tab (enc_x L E 0)) 0) = nthZ L (ndb s));
         [destruct ofs; cbn [andb]; [apply Hnx; [reflexivity|lia]|]; rewrite <- Hslot; congruence|]);
        unfold cx; cbn -[Z.ltb Z.eqb enc_x nthZ]; rewrite Hsel; (destruct (Z.ltb_spec (nthZ L (ndb s)) 2); [lia|]);
        unfold rd_data in *; cbn -[Z.ltb Z.eqb enc_x nthZ] in *; rewrite Hrd;
        (eexists; split; [reflexivity|]); cbn -[enc_x nthZ]; splits; try reflexivity; try assumption; try lia;
        try (unfold ext_cursor; cbn -[enc_x]; intros _; split; [f_equal; f_equal; lia|lia]);
        try (unfold cext_ok; cbn -[enc_x]; right; exists 0; split; [lia|reflexivity]). }
    unfold MAXDB in He. destruct (Hx ltac:(lia)) as (Hcx & Hpx).
    destruct (Z.eqb_spec (pinx s) MAXDB) as [Hp|Hp].
    { (* next extension block, from the current one *)
      unfold MAXDB in Hp. assert (Hj1 : j = (ndb s - 1 - 72) / 72 + 1) by (subst j; lia). assert (i = 0) by (subst i; lia).
      unfold load_ext, cx. rewrite Hcx. assert (Hrx : rd_ext nobad s (x_ext (enc_x L E ((ndb s - 1 - 72) / 72))) = Some (enc_x L E j)).
      { unfold enc_x at 1. cbn [x_ext]. rewrite <- Hj1. apply (rd_ext_clean s L E j B Hc Hj). }
      rewrite Hrx. cbn -[Z.ltb Z.eqb enc_x nthZ].
      assert (Hsel : (if ofs && true then d_next (cdata s) else nthZ (x_tab (enc_x L E j)) 0) = nthZ L (ndb s)).
      { destruct ofs; cbn [andb]; [apply Hnx; [reflexivity|lia]|]. rewrite <- Hslot. congruence. }
      rewrite Hsel. destruct (Z.ltb_spec (nthZ L (ndb s)) 2); [lia|].
      unfold rd_data in *. cbn -[Z.ltb Z.eqb enc_x nthZ] in *. rewrite Hrd.
      eexists. split; [reflexivity|]. cbn -[enc_x nthZ]. splits; try reflexivity; try assumption; try lia.
      - unfold ext_cursor. cbn -[enc_x]. intros _. split; [f_equal; f_equal; subst j; lia|lia].
      - unfold cext_ok. cbn -[enc_x]. right. exists j. split; [assumption|reflexivity]. }
    { (* same extension block *)
      unfold MAXDB in Hp. assert (Hj1 : j = (ndb s - 1 - 72) / 72) by (subst j; lia). assert (Hi : i = pinx s) by (subst i; lia).
      unfold cx. rewrite Hcx. cbn -[Z.ltb Z.eqb enc_x nthZ].
      assert (Hsel : (if ofs && true then d_next (cdata s) else nthZ (x_tab (enc_x L E ((ndb s - 1 - 72) / 72))) (pinx s)) = nthZ L (ndb s)).
      { destruct ofs; cbn [andb]; [apply Hnx; [reflexivity|lia]|]. rewrite <- Hslot. congruence. }
      rewrite Hsel. destruct (Z.ltb_spec (nthZ L (ndb s)) 2); [lia|].
      unfold rd_data in *. cbn -[Z.ltb Z.eqb enc_x nthZ] in *. rewrite Hrd.
      eexists. split; [reflexivity|]. cbn -[enc_x nthZ]. splits; try reflexivity; try assumption; try lia.
      - unfold ext_cursor. cbn -[enc_x]. intros _. rewrite Hcx. split; [f_equal; f_equal; lia|lia].
      - unfold cext_ok. cbn -[enc_x]. rewrite Hcx. right. exists j. split; [assumption|rewrite Hj1; reflexivity]. }
  Qed.

  Lemma state_ext (a b : hstate) : dk a = dk b -> pos a = pos b -> pinx a = pinx b -> pind a = pind b -> ndb a = ndb b -> cur a = cur b ->
    chg a = chg b -> cdata a = cdata b -> cext a = cext b -> fh a = fh b -> mw a = mw b -> mr a = mr b -> a = b.
  Proof. destruct a, b; simpl; intros; subst; reflexivity. Qed.

  Lemma ndb_lt_len s L E : Inv s L E -> cur s <> 0 -> pind s = bs -> pos s < fsize s -> ndb s < len L.
  Proof.
    intros (B & HL & [(_ & Hz & _)|(Hcu & Hn & Hp & Hpi & _)]) Hc Hb Hlt; [contradiction|].
    rewrite HL. destruct (size2db_spec (fsize s) (b_size _ _ _ B)) as [Hs|[Hs _]]; [|lia]. nia.
  Qed.

  (* moving on to the next block of the file: the buffered block is written if it was changed, block ndb is read *)
  Lemma advance_ok s L E ct : Inv s L E -> Repr s L ct -> cur s <> 0 -> pind s = bs -> pos s < fsize s ->
    exists sn, read_next bs ofs nobad (settle s) = (true, sn) /\
      let s1 := set_chg (set_pind sn 0) false in
      Inv s1 L E /\ Repr s1 L ct /\ pos s1 = pos s /\ cur s1 <> 0 /\ pind s1 = 0 /\ fh s1 = fh s /\ mw s1 = mw s /\ mr s1 = mr s /\ chg sn = false.
  Proof.
    intros I R Hc Hb Hlt. pose proof (ndb_lt_len s L E I Hc Hb Hlt) as Hnl.
    destruct (settle_ok s L E I) as (I' & Hcl & (Spos & Spinx & Spind & Sndb & Scur & Scext & Sfh & Smw & Smr & Sby & Snx) & Htr).
    set (t := settle s) in *. pose proof I' as (B' & HL' & C').
    assert (Hnorm : cur t = nthZ L (ndb t - 1) /\ 1 <= ndb t <= len L /\ pos t = (ndb t - 1) * bs + pind t /\ ext_cursor t L E (ndb t - 1)
                    /\ (ofs = true -> ndb t < len L -> d_next (cdata t) = nthZ L (ndb t))).
    { destruct C' as [(_ & Hz & _)|(H1 & H2 & H3 & _ & _ & _ & _ & H8 & H9)]; [rewrite Scur in Hz; contradiction|]. splits; try assumption; lia. }
    destruct Hnorm as (Hcu & Hn & Hp & Hxc & Hnx).
    destruct (read_next_ok t L E B' Hcl ltac:(lia) Hxc ltac:(intros Ho _; apply Hnx; [assumption|lia]))
      as (sn & Hrn & Ndk & Npos & Npind & Nndb & Ncur & Ncd & Nlen & Nnx & Nchg & Nfh & Nmw & Nmr & Nxc & Ncx).
    exists sn. split; [exact Hrn|]. cbv zeta.
    assert (Hge : 2 <= nthZ L (ndb t)) by (apply (b_ge2 _ _ _ B'); apply in_or_app; left; apply in_L_nth; lia).
    assert (Ifin : Inv (set_chg (set_pind sn 0) false) L E).
    { split; [|split].
      - constructor; simpl; try rewrite Nfh.
        + apply (b_hdr _ _ _ B').
        + unfold fsize. simpl. rewrite Nfh. apply (b_size _ _ _ B').
        + apply (b_nE _ _ _ B').
        + apply (b_nodup _ _ _ B').
        + apply (b_ge2 _ _ _ B').
        + exact Ncx.
        + intros j Hj. left. rewrite Ndk. apply (clean_ext t L E j I' Hcl Hj).
        + intros k Hk. right. rewrite Ndk. destruct (clean_disk t L E k I' Hcl Hk) as (d & H1 & H2 & H3 & _). exists d. splits; assumption.
        + discriminate.
      - unfold fsize. simpl. rewrite Nfh. exact HL'.
      - right. unfold fsize. simpl. rewrite Nfh, Ncur, Nndb, Npos. replace (ndb t + 1 - 1) with (ndb t) by lia.
        splits; try reflexivity; try lia; try assumption.
        + rewrite Spos. unfold fsize in Hlt. rewrite Sfh. lia.
        + intros _. rewrite Ndk. exact Ncd. }
    splits; try assumption.
    - apply (repr_same t _ L ct).
      + unfold fsize. simpl. rewrite Nfh. reflexivity.
      + exact HL'.
      + intros k Hk. destruct (clean_disk t L E k I' Hcl Hk) as (d & H1 & _ & _ & H4).
        destruct (clean_disk _ L E k Ifin eq_refl Hk) as (d' & H1' & _ & _ & H4'). simpl in H1'. rewrite Ndk, H1 in H1'. assert (Hdd : d' = d) by congruence.
        rewrite H4, H4', Hdd. reflexivity.
      + apply (repr_same s t L ct); [unfold fsize; rewrite Sfh; reflexivity|destruct I as (_ & HL & _); exact HL|exact Htr|exact R].
    - simpl. rewrite Npos. exact Spos.
    - simpl. rewrite Ncur. lia.
    - reflexivity.
    - simpl. rewrite Nfh. exact Sfh.
    - simpl. rewrite Nmw. exact Smw.
    - simpl. rewrite Nmr. exact Smr.
  Qed.

  (* ---- frames: which fields the invariants read ---- *)
  Lemma base_frame s s' L E : dk s' = dk s -> cur s' = cur s -> ndb s' = ndb s -> chg s' = chg s -> cext s' = cext s -> fh s' = fh s -> mw s' = mw s ->
    Base s L E -> Base s' L E.
  Proof.
    intros Hdk Hcur Hndb Hchg Hcext Hfh Hmw B.
    assert (Hbuf : forall k, buffered s' k = buffered s k) by (intros k; unfold buffered; rewrite Hcur, Hndb; reflexivity).
    constructor; unfold fsize; rewrite ?Hdk, ?Hchg, ?Hcext, ?Hfh, ?Hmw.
    - apply (b_hdr _ _ _ B).
    - apply (b_size _ _ _ B).
    - apply (b_nE _ _ _ B).
    - apply (b_nodup _ _ _ B).
    - apply (b_ge2 _ _ _ B).
    - apply (b_cext _ _ _ B).
    - apply (b_xdisk _ _ _ B).
    - intros k Hk. rewrite Hbuf. apply (b_ddisk _ _ _ B k Hk).
    - apply (b_chg _ _ _ B).
  Qed.

  Lemma truth_frame s s' L k : dk s' = dk s -> cur s' = cur s -> ndb s' = ndb s -> cdata s' = cdata s -> truth_d s' L k = truth_d s L k.
  Proof. intros Hdk Hcur Hndb Hcd. unfold truth_d, buffered, disk_d. rewrite Hdk, Hcur, Hndb, Hcd. reflexivity. Qed.

  Lemma repr_frame s s' L ct : dk s' = dk s -> cur s' = cur s -> ndb s' = ndb s -> cdata s' = cdata s -> fh s' = fh s -> Repr s L ct -> Repr s' L ct.
  Proof.
    intros Hdk Hcur Hndb Hcd Hfh (Hl & Hr). unfold Repr, fsize, byte_at in *. rewrite Hfh. split; [assumption|].
    intros i Hi. rewrite (truth_frame s s') by assumption. apply Hr. assumption.
  Qed.

  (* the bytes of the buffered block are the bytes of the file at the cursor *)
  Lemma chunk_ok s L E ct size : Inv s L E -> Repr s L ct -> cur s <> 0 -> 0 <= size -> pind s + size <= bs -> pos s + size <= fsize s ->
    sub (d_bytes (cdata s)) (pind s) size = sub ct (pos s) size.
  Proof.
    intros (B & HL & [(_ & Hz & _)|(Hcu & Hn & Hp & Hpi & Hps & Hlen & _)]) (Hl & Hr) Hc Hs Hb Hf; [contradiction|].
    assert (0 <= pos s) by nia.
    apply list_ext.
    - rewrite !sub_length by lia. reflexivity.
    - intros i Hi. rewrite len_sub in Hi by lia. rewrite !nthZ_sub by lia. rewrite Hr by lia. unfold byte_at.
      assert (Hd : (pos s + i) / bs = ndb s - 1) by (rewrite Hp; replace ((ndb s - 1) * bs + pind s + i) with ((ndb s - 1) * bs + (pind s + i)) by lia; apply div_block; lia).
      assert (Hm : (pos s + i) mod bs = pind s + i) by (rewrite Hp; replace ((ndb s - 1) * bs + pind s + i) with ((ndb s - 1) * bs + (pind s + i)) by lia; apply mod_block; lia).
      rewrite Hd, Hm. unfold truth_d, buffered. rewrite Z.eqb_refl. destruct (Z.eqb_spec (cur s) 0); [contradiction|]. reflexivity.
  Qed.

  (* ---- adfFileRead ---- *)
  Lemma read_loop_ok L E ct : forall fuel s n, Inv s L E -> Repr s L ct -> cur s <> 0 -> 0 <= n -> pos s + n <= fsize s ->
    (0 < n -> n + (if pind s =? bs then 0 else pind s) <= Z.of_nat fuel * bs) ->
    exists s' r, read_loop bs ofs nobad fuel s n = (s', r) /\ Inv s' L E /\ Repr s' L ct /\ r = sub ct (pos s) n /\ pos s' = pos s + n
      /\ cur s' <> 0 /\ fh s' = fh s /\ mw s' = mw s /\ mr s' = mr s.
  Proof.
    induction fuel as [|fuel IH]; intros s n I R Hc Hn Hle Hfuel.
    - assert (n = 0) by (destruct (Z.eq_dec n 0) as [|Hne]; [assumption|]; specialize (Hfuel ltac:(lia)); destruct (pind s =? bs); destruct I as (_ & _ & [(_ & Hz & _)|(_ & _ & _ & Hpi & _)]); [contradiction|lia|contradiction|lia]).
      subst n. exists s, []. simpl. splits; try reflexivity; try assumption. lia.
    - cbn [read_loop]. destruct (Z.leb_spec n 0) as [Hz|Hz].
      { assert (n = 0) by lia. subst n. exists s, []. splits; try reflexivity; try assumption. lia. }
      (* the state the bytes are copied from: the next block is fetched when the cursor stands at the end of the buffered one *)
      assert (Hprep : exists s1, (if pind s =? bs
                                  then match read_next bs ofs nobad (settle s) with
                                       | (true, sn) => (true, set_chg (set_pind sn 0) false)
                                       | (false, sn) => (false, set_cur sn 0)
                                       end
                                  else (true, s)) = (true, s1)
                /\ Inv s1 L E /\ Repr s1 L ct /\ pos s1 = pos s /\ cur s1 <> 0 /\ pind s1 = (if pind s =? bs then 0 else pind s)
                /\ fh s1 = fh s /\ mw s1 = mw s /\ mr s1 = mr s).
      { destruct (Z.eqb_spec (pind s) bs) as [Hb|Hb].
        - destruct (advance_ok s L E ct I R Hc Hb ltac:(lia)) as (sn & Hrn & I1 & R1 & P1 & C1 & Pi1 & F1 & W1 & M1 & _).
          exists (set_chg (set_pind sn 0) false). rewrite Hrn. splits; try assumption; reflexivity.
        - exists s. splits; try assumption; reflexivity. }
      destruct Hprep as (s1 & Hprep & I1 & R1 & P1 & C1 & Pi1 & F1 & W1 & M1). unfold settle in Hprep. rewrite Hprep. cbn [negb].
      set (size := Z.min n (bs - pind s1)).
      assert (Hpi1 : 0 <= pind s1 < bs).
      { rewrite Pi1. destruct (Z.eqb_spec (pind s) bs); [lia|]. destruct I as (_ & _ & [(_ & Hz0 & _)|(_ & _ & _ & Hpi & _)]); [contradiction|lia]. }
      assert (Hsz : 0 < size <= n /\ pind s1 + size <= bs) by (subst size; lia).
      set (s2 := set_pind (set_pos s1 (pos s1 + size)) (pind s1 + size)).
      assert (I2 : Inv s2 L E).
      { destruct I1 as (B1 & HL1 & C1'). split; [|split].
        - apply (base_frame s1); try reflexivity. assumption.
        - exact HL1.
        - destruct C1' as [(_ & Hz0 & _)|(Hcu & Hnn & Hp & Hpi & Hps & Hlen & Hcl & Hnx & Hxc)]; [contradiction|].
          right. subst s2. unfold fsize, ext_cursor in *. simpl. splits; try assumption; try lia. rewrite F1. unfold fsize in Hle. lia. }
      assert (R2 : Repr s2 L ct) by (apply (repr_frame s1); try reflexivity; assumption).
      destruct (IH s2 (n - size) I2 R2 C1 ltac:(lia)) as (s3 & r & Hrl & I3 & R3 & Hr & P3 & C3 & F3 & W3 & M3).
      { subst s2. unfold fsize in *. simpl. rewrite F1. lia. }
      { intros Hrest. specialize (Hfuel Hz). subst s2. simpl. rewrite Nat2Z.inj_succ in Hfuel. destruct (Z.eqb_spec (pind s1 + size) bs) as [He|He].
        - rewrite Pi1 in *. destruct (Z.eqb_spec (pind s) bs); lia.
        - assert (size = n) by (subst size; lia). lia. }
      fold size. fold s2. rewrite Hrl. exists s3, (sub (d_bytes (cdata s1)) (pind s1) size ++ r). splits; try assumption; try reflexivity.
      + rewrite (chunk_ok s1 L E ct size I1 R1 C1) by (unfold fsize in *; rewrite ?F1; lia). rewrite Hr. subst s2. simpl. rewrite P1.
        assert (Hpos : 0 <= pos s) by (destruct I as (_ & _ & [(_ & Hz0 & _)|(_ & Hnn & Hp & Hpi & _)]); [contradiction|nia]).
        rewrite sub_app by lia. f_equal. lia.
      + rewrite P3. subst s2. simpl. lia.
      + rewrite F3. subst s2. simpl. exact F1.
      + rewrite W3. subst s2. simpl. exact W1.
      + rewrite M3. subst s2. simpl. exact M1.
  Qed.

  Theorem fio_read_ok s L E ct n : Inv s L E -> Repr s L ct -> 0 <= n ->
    exists s' r, fio_read bs ofs nobad s n = (s', r) /\ Inv s' L E /\ Repr s' L ct /\
      let k := if mr s then Z.max 0 (Z.min n (fsize s - pos s)) else 0 in
      r = sub ct (pos s) k /\ pos s' = pos s + k /\ fh s' = fh s /\ mw s' = mw s /\ mr s' = mr s.
  Proof.
    intros I R Hn. pose proof I as (B & HL & C). pose proof (b_size _ _ _ B) as Hsz.
    assert (Hps : 0 <= pos s <= fsize s).
    { destruct C as [(Hz & _ & Hp & _)|(_ & Hnn & Hp & Hpi & Hle & _)]; [lia|nia]. }
    unfold fio_read, at_eof.
    destruct (mr s) eqn:Hr; cbn [negb orb].
    2:{ exists s, []. splits; try assumption; try reflexivity. lia. }
    destruct (Z.eqb_spec n 0) as [H0|H0]; cbn [orb].
    { exists s, []. splits; try assumption; try reflexivity; [|lia]. replace (Z.max 0 (Z.min n (fsize s - pos s))) with 0 by lia. reflexivity. }
    destruct (Z.eqb_spec (fsize s) 0) as [Hz|Hz]; cbn [orb].
    { exists s, []. splits; try assumption; try reflexivity; [|lia]. replace (Z.max 0 (Z.min n (fsize s - pos s))) with 0 by lia. reflexivity. }
    destruct (Z.eqb_spec (pos s) (fsize s)) as [He|He]; cbn [orb].
    { exists s, []. splits; try assumption; try reflexivity; [|lia]. replace (Z.max 0 (Z.min n (fsize s - pos s))) with 0 by lia. reflexivity. }
    destruct (Z.eqb_spec (cur s) 0) as [Hc|Hc].
    { exfalso. destruct C as [(Hz' & _)|(Hcu & Hnn & _)]; [contradiction|]. pose proof (cur_nonzero s L E I ltac:(lia) Hcu ltac:(lia)). lia. }
    set (n' := if fsize s <? pos s + n then fsize s - pos s else n).
    assert (Hn' : n' = Z.max 0 (Z.min n (fsize s - pos s)) /\ 0 < n') by (subst n'; destruct (Z.ltb_spec (fsize s) (pos s + n)); lia).
    destruct Hn' as (Hk & Hpos').
    destruct (read_loop_ok L E ct (Z.to_nat (n' / bs + 2)) s n' I R Hc ltac:(lia) ltac:(lia)) as (s' & r & Hrl & I' & R' & Hrr & P' & _ & F' & W' & M').
    { intros _. assert (Hpi : 0 <= pind s <= bs) by (destruct C as [(Hz' & _)|(_ & _ & _ & Hpi & _)]; [contradiction|assumption]).
      pose proof (Z.div_mod n' bs ltac:(lia)). pose proof (Z.mod_pos_bound n' bs Hbs). pose proof (Z.div_pos n' bs ltac:(lia) Hbs).
      rewrite Z2Nat.id by lia. destruct (Z.eqb_spec (pind s) bs); nia. }
    exists s', r. rewrite <- Hk. splits; try assumption. congruence.
  Qed.

  (* a clean state: nothing buffered that the volume does not hold *)
  Definition CB (s : hstate) (L E : list Z) : Prop := Base s L E /\ len L = size2db (fsize s) bs /\ chg s = false.

  Lemma cb_data s L E k : CB s L E -> 0 <= k < len L ->
    exists d, dk s (nthZ L k) = BData d /\ len (d_bytes d) = bs /\ (ofs = true -> k + 1 < len L -> d_next d = nthZ L (k + 1)).
  Proof. intros (B & _ & Hc) Hk. destruct (b_ddisk _ _ _ B k Hk) as [(_ & Hx)|H]; [congruence|exact H]. Qed.

  Lemma cb_ext s L E j : CB s L E -> 0 <= j < len E -> dk s (nthZ E j) = BExt (enc_x L E j).
  Proof. intros (B & _ & Hc) Hj. destruct (b_xdisk _ _ _ B j Hj) as [H|(H & _)]; [assumption|congruence]. Qed.

  (* the cursor fields of a clean state do not matter for Base *)
  Lemma cb_frame s s' L E : CB s L E -> dk s' = dk s -> chg s' = false -> cext_ok s' L E -> fh s' = fh s -> Base s' L E.
  Proof.
    intros C Hdk Hchg Hcx Hfh. pose proof C as (B & HL & Hc). constructor; unfold fsize; rewrite ?Hdk, ?Hchg, ?Hfh.
    - apply (b_hdr _ _ _ B).
    - apply (b_size _ _ _ B).
    - apply (b_nE _ _ _ B).
    - apply (b_nodup _ _ _ B).
    - apply (b_ge2 _ _ _ B).
    - exact Hcx.
    - intros j Hj. left. apply (cb_ext s L E j C Hj).
    - intros k Hk. right. apply (cb_data s L E k C Hk).
    - discriminate.
  Qed.

  (* a clean state whose buffer holds block k of the file *)
  Lemma inv_loaded t s' L E k : CB t L E -> dk s' = dk t -> chg s' = false -> cext_ok s' L E -> fh s' = fh t ->
    0 <= k < len L -> cur s' = nthZ L k -> ndb s' = k + 1 -> pos s' = k * bs + pind s' -> 0 <= pind s' <= bs -> pos s' <= fsize t ->
    dk t (nthZ L k) = BData (cdata s') -> ext_cursor s' L E k -> Inv s' L E.
  Proof.
    intros C Hdk Hchg Hcx Hfh Hk Hcur Hndb Hpos Hpi Hle Hcd Hxc. pose proof C as (B & HL & Hc).
    destruct (cb_data t L E k C Hk) as (d & Hd & Hlen & Hnx). rewrite Hd in Hcd. inversion Hcd; subst d.
    split; [apply (cb_frame t); assumption|]. split; [unfold fsize; rewrite Hfh; exact HL|].
    right. rewrite Hndb. replace (k + 1 - 1) with k by lia. unfold fsize. rewrite Hfh.
    splits; try assumption; try lia.
    - intros _. rewrite Hcur, Hdk. exact Hd.
  Qed.

  Lemma repr_clean s s' L E ct : Inv s L E -> chg s = false -> Inv s' L E -> chg s' = false -> dk s' = dk s -> fh s' = fh s -> Repr s L ct -> Repr s' L ct.
  Proof.
    intros I Hc I' Hc' Hdk Hfh R. apply (repr_same s s' L ct).
    - unfold fsize. rewrite Hfh. reflexivity.
    - destruct I as (_ & HL & _). exact HL.
    - intros k Hk. destruct (clean_disk s L E k I Hc Hk) as (d & H1 & _ & _ & H4).
      destruct (clean_disk s' L E k I' Hc' Hk) as (d' & H1' & _ & _ & H4'). rewrite Hdk, H1 in H1'. assert (Hdd : d' = d) by congruence.
      rewrite H4, H4', Hdd. reflexivity.
    - exact R.
  Qed.

  Lemma inv_cb s L E : Inv s L E -> chg s = false -> CB s L E.
  Proof. intros (B & HL & _) Hc. split; [assumption|split; assumption]. Qed.

  Lemma len_pos_of_size s L E : CB s L E -> fsize s <> 0 -> 0 < len L /\ 0 < fsize s.
  Proof.
    intros (B & HL & _) Hz. pose proof (b_size _ _ _ B). assert (0 < fsize s) by lia. split; [|assumption].
    rewrite HL. apply size2db_pos; assumption.
  Qed.

  (* ---- adfFileSeekStart_ on a clean state ---- *)
  Lemma seek_start_ok s L E ct : Inv s L E -> chg s = false -> Repr s L ct ->
    exists s', seek_start bs ofs nobad s = (true, s') /\ Inv s' L E /\ Repr s' L ct /\ pos s' = 0 /\ chg s' = false
      /\ dk s' = dk s /\ fh s' = fh s /\ mw s' = mw s /\ mr s' = mr s /\ (fsize s <> 0 -> ndb s' = 1 /\ pind s' = 0 /\ cur s' <> 0).
  Proof.
    intros I Hc R. pose proof (inv_cb s L E I Hc) as C. pose proof I as (B & HL & _).
    unfold seek_start. set (s0 := set_cur (set_ndb (set_pind (set_pinx (set_pos s 0) 0) 0) 0) 0).
    assert (Hf0 : fsize s0 = fsize s) by reflexivity. rewrite Hf0.
    destruct (Z.eqb_spec (fsize s) 0) as [Hz|Hz].
    - assert (I0 : Inv s0 L E).
      { split; [apply (cb_frame s); try reflexivity; try assumption; apply (b_cext _ _ _ B)|]. split; [exact HL|]. left. splits; try reflexivity. exact Hz. }
      exists s0. splits; try reflexivity; try assumption; try contradiction.
      split; [destruct R as (Hl & _); exact Hl|]. intros i Hi. rewrite Hf0 in Hi. lia.
    - destruct (len_pos_of_size s L E C Hz) as (HlL & Hsz).
      assert (B0 : Base s0 L E) by (apply (cb_frame s); try reflexivity; try assumption; apply (b_cext _ _ _ B)).
      destruct (read_next_ok s0 L E B0 Hc ltac:(simpl; lia) ltac:(unfold ext_cursor; simpl; lia) ltac:(simpl; lia))
        as (sn & Hrn & Ndk & Npos & Npind & Nndb & Ncur & Ncd & Nlen & Nnx & Nchg & Nfh & Nmw & Nmr & Nxc & Ncx).
      rewrite Hrn. exists sn. simpl in *.
      assert (In_ : Inv sn L E).
      { apply (inv_loaded s sn L E 0 C); try assumption; try lia. }
      splits; try assumption; try reflexivity.
      + apply (repr_clean s sn L E ct); assumption.
      + intros _. splits; try lia. rewrite Ncur. pose proof (b_ge2 _ _ _ B (nthZ L 0) ltac:(apply in_or_app; left; apply in_L_nth; lia)). lia.
  Qed.

  (* ---- adfPos2DataBlock, adfFileReadExtBlockN ---- *)
  Lemma pos2db_spec p : 0 <= p -> let k := p / bs in
    pos2db p bs = if k <? 72 then (-1, 0, p mod bs, k) else ((k - 72) / 72, (k - 72) mod 72, p mod bs, k).
  Proof.
    intros Hp k. unfold pos2db, MAXDB. fold k. destruct (Z.ltb_spec k 72); [reflexivity|].
    assert (Ho : (p - bs * 72) / bs = k - 72).
    { replace (p - bs * 72) with (p + (-72) * bs) by lia. rewrite Z.div_add by lia. subst k. lia. }
    rewrite <- Z.div_div by lia. rewrite Ho. reflexivity.
  Qed.

  Lemma ext_walk_ok L E ext : forall fuel s i,
    (forall j, 0 <= j < len E -> dk s (nthZ E j) = BExt (enc_x L E j)) -> (forall j, 0 <= j < len E -> 2 <= nthZ E j) ->
    -1 <= i <= ext -> ext < len E -> Z.of_nat fuel = ext - i ->
    ext_walk nobad fuel s (nthZ E (i + 1)) i ext = (true, (if i <? ext then set_cext s (Some (enc_x L E ext)) else s), ext).
  Proof.
    induction fuel as [|fuel IH]; intros s i Hx Hge Hi He Hf.
    - assert (i = ext) by lia. subst i. simpl. rewrite Z.ltb_irrefl. reflexivity.
    - assert (Hlt : i < ext) by lia. cbn [ext_walk]. destruct (Z.ltb_spec i ext); [|lia].
      pose proof (Hge (i + 1) ltac:(lia)). destruct (Z.eqb_spec (nthZ E (i + 1)) 0); [lia|]. cbn [andb negb].
      unfold rd_ext, nobad. rewrite (Hx (i + 1)) by lia. fold nobad.
      specialize (IH (set_cext s (Some (enc_x L E (i + 1)))) (i + 1) Hx Hge ltac:(lia) He ltac:(lia)).
      change (x_ext (enc_x L E (i + 1))) with (nthZ E (i + 1 + 1)). rewrite IH. destruct (Z.ltb_spec (i + 1) ext).
      + reflexivity.
      + assert (i + 1 = ext) by lia. subst ext. reflexivity.
  Qed.

  Lemma size2ext_len s L E : CB s L E -> size2ext (fsize s) bs = len E.
  Proof. intros (B & HL & _). unfold size2ext. rewrite <- HL. symmetry. apply (b_nE _ _ _ B). Qed.

  Lemma read_ext_n_ok t s L E ext : CB t L E -> dk s = dk t -> fh s = fh t -> 0 <= ext < len E ->
    read_ext_n bs nobad s ext = (true, set_cext s (Some (enc_x L E ext))).
  Proof.
    intros C Hdk Hfh He. pose proof C as (B & HL & Hc). unfold read_ext_n. unfold fsize. rewrite Hfh. fold (fsize t). rewrite (size2ext_len t L E C).
    destruct (Z.ltb_spec ext 0); [lia|]. destruct (Z.ltb_spec (len E - 1) ext); [lia|]. cbn [orb].
    pose proof (b_hdr _ _ _ B) as (_ & _ & _ & _ & Hext). rewrite Hext. replace 0 with (-1 + 1) at 1 by lia.
    rewrite (ext_walk_ok L E ext (Z.to_nat (ext + 1)) s (-1)); try lia.
    - destruct (Z.ltb_spec (-1) ext); [|lia]. rewrite Z.eqb_refl. reflexivity.
    - intros j Hj. rewrite Hdk. apply (cb_ext t L E j C Hj).
    - intros j Hj. apply (b_ge2 _ _ _ B). apply in_or_app. right. apply in_E_nth. assumption.
  Qed.

  (* ---- adfFileSeekExt_ for a position inside the file, on a clean state ---- *)
  Lemma lenE_bound s L E k : CB s L E -> 72 <= k < len L -> 0 <= (k - 72) / 72 < len E.
  Proof. intros (B & _) Hk. rewrite (lenE_of s L E B). destruct (Z.ltb_spec (len L) 1); lia. Qed.

  Lemma seek_mid_ok t L E : CB t L E -> 0 <= pos t < fsize t -> cext_ok t L E ->
    exists s', seek_mid bs nobad t = (true, s') /\ Inv s' L E /\ pos s' = pos t /\ chg s' = false /\ dk s' = dk t /\ fh s' = fh t /\ mw s' = mw t /\ mr s' = mr t
      /\ ndb s' = pos t / bs + 1 /\ pind s' = pos t mod bs /\ cur s' <> 0.
  Proof.
    intros C Hp Hcx. pose proof C as (B & HL & Hc). set (p := pos t) in *. set (k := p / bs).
    assert (Hk : 0 <= k < len L) by (subst k; rewrite HL; apply idx_in_range; lia).
    assert (Hpm : 0 <= p mod bs < bs) by (apply Z.mod_pos_bound; lia).
    assert (Hpk : p = k * bs + p mod bs) by (subst k; pose proof (Z.div_mod p bs ltac:(lia)); lia).
    destruct (cb_data t L E k C Hk) as (d & Hd & Hlen & Hnx).
    assert (Hge : 2 <= nthZ L k) by (apply (b_ge2 _ _ _ B); apply in_or_app; left; apply in_L_nth; assumption).
    assert (Hrd : forall u, dk u = dk t -> rd_data bs nobad u (nthZ L k) = Some d).
    { intros u Hu. unfold rd_data, nobad. rewrite Hu, Hd. destruct (Z.ltb_spec (nthZ L k) 1); [lia|]. reflexivity. }
    pose proof (b_hdr _ _ _ B) as (_ & Htab & _).
    unfold seek_mid. fold p. rewrite (pos2db_spec p ltac:(lia)). fold k.
    destruct (Z.ltb_spec k 72) as [H72|H72].
    - (* the header table *)
      cbn -[Z.ltb Z.eqb nthZ]. rewrite Htab. rewrite nthZ_subZ by lia. replace (0 + k) with k by lia.
      change (-1 =? -1) with true. cbn -[Z.ltb Z.eqb nthZ].
      destruct (Z.ltb_spec (nthZ L k) 2); [lia|]. rewrite Hrd by reflexivity.
      eexists. split; [reflexivity|]. cbn -[nthZ]. splits; try reflexivity; try assumption; try lia.
      apply (inv_loaded t _ L E k C); cbn -[nthZ]; try reflexivity; try assumption; try lia.
      unfold ext_cursor. lia.
    - (* an extension block *)
      set (ext := (k - 72) / 72). set (px := (k - 72) mod 72).
      assert (He : 0 <= ext < len E) by (apply (lenE_bound t L E k C); lia).
      assert (Hne : (ext =? -1) = false) by (destruct (Z.eqb_spec ext (-1)); [lia|reflexivity]).
      cbn -[Z.ltb Z.eqb nthZ read_ext_n]. rewrite Hne.
      assert (Hslot : nthZ (x_tab (enc_x L E ext)) px = nthZ L k).
      { unfold enc_x. cbn [x_tab]. rewrite nthZ_subZ by (subst px; lia). f_equal. subst px ext. lia. }
      set (t1 := set_ndb (set_pind (set_pinx t px) (p mod bs)) k).
      set (t2 := match cext t with Some _ => t1 | None => set_cext t1 (Some zero_x) end).
      assert (Hrx : read_ext_n bs nobad t2 ext = (true, set_cext t2 (Some (enc_x L E ext)))).
      { apply (read_ext_n_ok t t2 L E ext C); try assumption; subst t2 t1; cbn; destruct (cext t); reflexivity. }
      rewrite Hrx. cbn -[Z.ltb Z.eqb nthZ enc_x]. unfold cx. cbn -[Z.ltb Z.eqb nthZ enc_x].
      assert (Hpx2 : pinx t2 = px) by (subst t2 t1; cbn; destruct (cext t); reflexivity).
      rewrite Hpx2, Hslot. destruct (Z.ltb_spec (nthZ L k) 2); [lia|].
      rewrite Hrd by (subst t2 t1; cbn; destruct (cext t); reflexivity).
      eexists. split; [reflexivity|]. cbn -[nthZ enc_x].
      assert (Hf2 : dk t2 = dk t /\ fh t2 = fh t /\ mw t2 = mw t /\ mr t2 = mr t /\ chg t2 = chg t /\ pos t2 = pos t /\ ndb t2 = k /\ pind t2 = p mod bs)
        by (subst t2 t1; cbn; destruct (cext t); splits; reflexivity).
      destruct Hf2 as (F1 & F2 & F3 & F4 & F5 & F6 & F7 & F8). rewrite ?F1, ?F2, ?F3, ?F4, ?F5, ?F6, ?F7, ?F8.
      splits; try reflexivity; try assumption; try lia.
      apply (inv_loaded t _ L E k C); cbn -[nthZ enc_x]; rewrite ?F1, ?F2, ?F5, ?F6, ?F7, ?F8; try reflexivity; try assumption; try lia.
      + unfold cext_ok. cbn -[enc_x]. right. exists ext. split; [assumption|reflexivity].
      + unfold ext_cursor. cbn -[enc_x]. intros _. split; reflexivity.
  Qed.

  (* ---- adfFileSeek ---- *)
  Definition seek_tail (eofk : hstate -> bool * hstate) (s : hstate) (p : Z) : bool * hstate :=
    let curDatablock := if 0 <? ndb s then ndb s - 1 else 0 in
    if negb (cur s =? 0) && (curDatablock =? p / bs) then
      let p' := Z.min p (fsize s) in (true, set_pind (set_pos s p') (p' mod bs))
    else
      let s1 := settle s in
      if p =? 0 then seek_start bs ofs nobad s1 else
      let s2 := set_pos s1 (Z.min p (fsize s1)) in
      if pos s2 =? fsize s2 then eofk s2 else seek_mid bs nobad s2.

  Lemma seek_gen_unfold eofk s p :
    seek_gen bs ofs nobad eofk s p = if (pos s =? p) && negb (cur s =? 0) && negb (pind s =? bs) then (true, s) else seek_tail eofk s p.
  Proof. reflexivity. Qed.

  Lemma seek_tail_pos_irrel eofk s q p : chg s = false -> seek_tail eofk (set_pos s q) p = seek_tail eofk s p.
  Proof.
    intros Hc. unfold seek_tail, settle. cbn -[Z.ltb Z.eqb Z.min seek_start seek_mid]. rewrite Hc, andb_false_r.
    destruct (negb (cur s =? 0) && ((if 0 <? ndb s then ndb s - 1 else 0) =? p / bs)); [reflexivity|].
    destruct (p =? 0); [reflexivity|]. reflexivity.
  Qed.

  Definition seek_post (s s' : hstate) (L E ct : list Z) (p : Z) : Prop :=
    Inv s' L E /\ Repr s' L ct /\ pos s' = p /\ fh s' = fh s /\ mw s' = mw s /\ mr s' = mr s.

  Lemma normal_facts s L E : Inv s L E -> cur s <> 0 ->
    cur s = nthZ L (ndb s - 1) /\ 1 <= ndb s <= len L /\ pos s = (ndb s - 1) * bs + pind s /\ 0 <= pind s <= bs /\ pos s <= fsize s.
  Proof. intros (_ & _ & [(_ & Hz & _)|(H1 & H2 & H3 & H4 & H5 & _)]) Hc; [contradiction|]. splits; try assumption; lia. Qed.

  Lemma last_block_bound s L E : Inv s L E -> 0 < len L -> (len L - 1) * bs < fsize s <= len L * bs.
  Proof.
    intros (B & HL & _) Hl. destruct (size2db_spec (fsize s) (b_size _ _ _ B)) as [Hs|[_ Hs]]; [|lia]. rewrite <- HL in Hs. exact Hs.
  Qed.

  Lemma seek_tail_ok eofk s L E ct p : Inv s L E -> Repr s L ct -> 0 <= p < fsize s ->
    exists s', seek_tail eofk s p = (true, s') /\ seek_post s s' L E ct p /\ cur s' <> 0 /\ ndb s' = p / bs + 1 /\ pind s' = p mod bs.
  Proof.
    intros I R Hp. unfold seek_tail.
    assert (Hpm : 0 <= p mod bs < bs) by (apply Z.mod_pos_bound; lia).
    assert (Hpk : p = p / bs * bs + p mod bs) by (pose proof (Z.div_mod p bs ltac:(lia)); lia).
    destruct (negb (cur s =? 0) && ((if 0 <? ndb s then ndb s - 1 else 0) =? p / bs)) eqn:Hsame.
    - (* the position lies in the buffered block *)
      apply andb_prop in Hsame. destruct Hsame as (Hc & Hk). destruct (Z.eqb_spec (cur s) 0) as [|Hc']; [discriminate|].
      destruct (normal_facts s L E I Hc') as (Hcu & Hn & Hpos & Hpi & Hle).
      destruct (Z.ltb_spec 0 (ndb s)); [|lia]. apply Z.eqb_eq in Hk.
      replace (Z.min p (fsize s)) with p by lia. eexists. split; [reflexivity|]. pose proof I as (B & HL & C).
      unfold seek_post. cbn. splits; try reflexivity; try assumption; try lia.
      + split; [apply (base_frame s); try reflexivity; assumption|]. split; [exact HL|].
        destruct C as [(_ & Hz & _)|(_ & _ & _ & _ & _ & Hlen & Hcl & Hnx & Hxc)]; [contradiction|]. right. cbn. splits; try assumption; try lia. unfold fsize in *. cbn. lia.
    - destruct (settle_ok s L E I) as (I1 & Hcl & (Spos & Spinx & Spind & Sndb & Scur & Scext & Sfh & Smw & Smr & Sby & Snx) & Htr).
      set (s1 := settle s) in *.
      assert (R1 : Repr s1 L ct) by (apply (repr_same s s1 L ct); [unfold fsize; rewrite Sfh; reflexivity|destruct I as (_ & HL & _); exact HL|exact Htr|exact R]).
      assert (Hf1 : fsize s1 = fsize s) by (unfold fsize; rewrite Sfh; reflexivity).
      destruct (Z.eqb_spec p 0) as [H0|H0].
      + subst p. destruct (seek_start_ok s1 L E ct I1 Hcl R1) as (s' & Hss & I' & R' & P' & C' & D' & F' & W' & M' & N').
        exists s'. split; [exact Hss|]. destruct (N' ltac:(lia)) as (N1 & N2 & N3). rewrite Z.div_0_l, Z.mod_0_l by lia.
        unfold seek_post. splits; try assumption; try congruence.
      + cbv zeta. rewrite Hf1. replace (Z.min p (fsize s)) with p by lia.
        change (pos (set_pos s1 p)) with p. change (fsize (set_pos s1 p)) with (fsize s1). rewrite Hf1.
        destruct (Z.eqb_spec p (fsize s)); [lia|].
        pose proof I1 as (B1 & HL1 & _).
        assert (C2 : CB (set_pos s1 p) L E) by (split; [apply (base_frame s1); try reflexivity; assumption|split; [exact HL1|exact Hcl]]).
        destruct (seek_mid_ok (set_pos s1 p) L E C2 ltac:(change (pos (set_pos s1 p)) with p; change (fsize (set_pos s1 p)) with (fsize s1); lia) (b_cext _ _ _ B1))
          as (s' & Hsm & I' & P' & C' & D' & F' & W' & M' & N1 & N2 & N3).
        exists s'. split; [exact Hsm|]. cbn in *. unfold seek_post. splits; try assumption; try congruence.
        apply (repr_clean s1 s' L E ct); assumption.
  Qed.

  (* ---- adfFileSeekEOF_ on a clean state whose position has just been set to the end ---- *)
  Lemma seek_eof_ok s1 L E ct : Inv s1 L E -> chg s1 = false -> Repr s1 L ct -> 0 < fsize s1 ->
    exists s', seek_eof bs ofs nobad (set_pos s1 (fsize s1)) = (true, s') /\ seek_post s1 s' L E ct (fsize s1).
  Proof.
    intros I Hc R Hsz. unfold seek_eof. change (fsize (set_pos s1 (fsize s1))) with (fsize s1).
    destruct (Z.eqb_spec (fsize s1) 0); [lia|]. rewrite seek_gen_unfold.
    change (pos (set_pos s1 (fsize s1))) with (fsize s1). destruct (Z.eqb_spec (fsize s1) (fsize s1 - 1)); [lia|]. cbn [andb].
    rewrite (seek_tail_pos_irrel _ s1 (fsize s1) (fsize s1 - 1) Hc).
    destruct (seek_tail_ok (fun t => (false, t)) s1 L E ct (fsize s1 - 1) I R ltac:(lia)) as (s2 & Hst & (I2 & R2 & P2 & F2 & W2 & M2) & C2 & N2 & Pi2).
    rewrite Hst. cbn [negb]. eexists. split; [reflexivity|].
    assert (Hf2 : fsize s2 = fsize s1) by (unfold fsize; rewrite F2; reflexivity).
    set (sz := fsize s1) in *. rewrite Hf2.
    pose proof I2 as (B2 & HL2 & Cu2).
    (* the last block: index (sz-1)/bs *)
    assert (Hm : 0 <= sz mod bs < bs) by (apply Z.mod_pos_bound; lia).
    pose proof (Z.div_mod sz bs ltac:(lia)) as Hdm. pose proof (Z.div_mod (sz - 1) bs ltac:(lia)) as Hdm1.
    pose proof (Z.mod_pos_bound (sz - 1) bs Hbs) as Hm1.
    set (pe := if sz mod bs =? 0 then bs else sz mod bs).
    assert (Hpe : sz = (sz - 1) / bs * bs + pe /\ 0 < pe <= bs).
    { subst pe. destruct (Z.eqb_spec (sz mod bs) 0) as [Hz|Hz].
      - assert ((sz - 1) / bs = sz / bs - 1) by (symmetry; apply (Z.div_unique_pos _ _ _ (bs - 1)); lia). split; nia.
      - assert ((sz - 1) / bs = sz / bs) by (symmetry; apply (Z.div_unique_pos _ _ _ (sz mod bs - 1)); lia). split; nia. }
    unfold seek_post. cbn. splits; try assumption; try reflexivity.
    - split; [apply (base_frame s2); try reflexivity; assumption|]. split; [exact HL2|].
      destruct Cu2 as [(_ & Hz & _)|(Hcu & Hn & Hp & Hpi & Hle & Hlen & Hcl & Hnx & Hxc)]; [contradiction|].
      right. unfold fsize in *. cbn. rewrite N2 in *. replace ((sz - 1) / bs + 1 - 1) with ((sz - 1) / bs) in * by lia.
      splits; try assumption; try lia.
  Qed.

  Theorem fio_seek_ok s L E ct p : Inv s L E -> Repr s L ct -> 0 <= p ->
    exists s', fio_seek bs ofs nobad s p = (true, s') /\ seek_post s s' L E ct (Z.min p (fsize s)).
  Proof.
    intros I R Hp. pose proof I as (B & HL & C). pose proof (b_size _ _ _ B) as Hsz.
    unfold fio_seek. rewrite seek_gen_unfold.
    destruct ((pos s =? p) && negb (cur s =? 0) && negb (pind s =? bs)) eqn:H1.
    { apply andb_prop in H1. destruct H1 as (H1 & _). apply andb_prop in H1. destruct H1 as (H1 & H2). apply Z.eqb_eq in H1.
      destruct (Z.eqb_spec (cur s) 0) as [|Hc]; [discriminate|]. destruct (normal_facts s L E I Hc) as (_ & _ & _ & _ & Hle).
      exists s. split; [reflexivity|]. unfold seek_post. splits; try assumption; try reflexivity. lia. }
    destruct (Z.ltb_spec p (fsize s)) as [Hlt|Hge].
    { destruct (seek_tail_ok (seek_eof bs ofs nobad) s L E ct p I R ltac:(lia)) as (s' & Hst & Hpost & _).
      exists s'. split; [exact Hst|]. replace (Z.min p (fsize s)) with p by lia. exact Hpost. }
    (* at or beyond the end of the file *)
    replace (Z.min p (fsize s)) with (fsize s) by lia. unfold seek_tail.
    destruct (negb (cur s =? 0) && ((if 0 <? ndb s then ndb s - 1 else 0) =? p / bs)) eqn:Hsame.
    - apply andb_prop in Hsame. destruct Hsame as (Hc & Hk). destruct (Z.eqb_spec (cur s) 0) as [|Hc']; [discriminate|].
      destruct (normal_facts s L E I Hc') as (Hcu & Hn & Hpos & Hpi & Hle).
      destruct (Z.ltb_spec 0 (ndb s)); [|lia]. apply Z.eqb_eq in Hk.
      replace (Z.min p (fsize s)) with (fsize s) by lia. eexists. split; [reflexivity|].
      pose proof (last_block_bound s L E I ltac:(lia)) as Hlb.
      assert (Hpb : p / bs * bs <= p < p / bs * bs + bs) by (pose proof (Z.div_mod p bs ltac:(lia)); pose proof (Z.mod_pos_bound p bs Hbs); lia).
      assert (Hq : fsize s / bs = ndb s - 1 /\ fsize s mod bs = fsize s - (ndb s - 1) * bs).
      { assert (Hr : 0 <= fsize s - (ndb s - 1) * bs < bs) by nia.
        split; [symmetry; apply (Z.div_unique_pos _ _ _ (fsize s - (ndb s - 1) * bs)); lia|symmetry; apply (Z.mod_unique_pos _ _ (ndb s - 1)); lia]. }
      destruct Hq as (Hq1 & Hq2).
      unfold seek_post. cbn. splits; try reflexivity; try assumption.
      split; [apply (base_frame s); try reflexivity; assumption|]. split; [exact HL|].
      destruct C as [(_ & Hz & _)|(_ & _ & _ & _ & _ & Hlen & Hcl & Hnx & Hxc)]; [contradiction|]. right. unfold fsize in *. cbn. rewrite Hq2.
      splits; try assumption; try lia; nia.
    - destruct (settle_ok s L E I) as (I1 & Hcl & (Spos & Spinx & Spind & Sndb & Scur & Scext & Sfh & Smw & Smr & Sby & Snx) & Htr).
      set (s1 := settle s) in *.
      assert (R1 : Repr s1 L ct) by (apply (repr_same s s1 L ct); [unfold fsize; rewrite Sfh; reflexivity|exact HL|exact Htr|exact R]).
      assert (Hf1 : fsize s1 = fsize s) by (unfold fsize; rewrite Sfh; reflexivity).
      destruct (Z.eqb_spec p 0) as [H0|H0].
      + assert (Hz : fsize s = 0) by lia. destruct (seek_start_ok s1 L E ct I1 Hcl R1) as (s' & Hss & I' & R' & P' & C' & D' & F' & W' & M' & _).
        exists s'. split; [exact Hss|]. unfold seek_post. splits; try assumption; try congruence.
      + cbv zeta. rewrite Hf1. replace (Z.min p (fsize s)) with (fsize s) by lia.
        change (pos (set_pos s1 (fsize s))) with (fsize s). change (fsize (set_pos s1 (fsize s))) with (fsize s1). rewrite Hf1, Z.eqb_refl.
        destruct (Z.eq_dec (fsize s) 0) as [Hz|Hz].
        * (* empty file *)
          unfold seek_eof. change (fsize (set_pos s1 (fsize s))) with (fsize s1). rewrite Hf1. destruct (Z.eqb_spec (fsize s) 0); [|contradiction].
          pose proof I1 as (B1 & HL1 & C1).
          assert (I2 : Inv (set_pos s1 (fsize s)) L E).
          { split; [apply (base_frame s1); try reflexivity; assumption|]. split; [exact HL1|].
            destruct C1 as [(Hz1 & Hcu & Hp1 & Hn1 & Hpi1)|(_ & Hn1 & _)].
            - left. cbn. splits; try assumption.
            - exfalso. destruct (empty_L s1 L E I1 ltac:(lia)) as (-> & _). unfold len in Hn1. simpl in Hn1. lia. }
          destruct (seek_start_ok (set_pos s1 (fsize s)) L E ct I2 Hcl) as (s' & Hss & I' & R' & P' & C' & D' & F' & W' & M' & _).
          { apply (repr_frame s1); try reflexivity. exact R1. }
          exists s'. split; [exact Hss|]. unfold seek_post. cbn in *. splits; try assumption; try congruence.
        * rewrite <- Hf1. destruct (seek_eof_ok s1 L E ct I1 Hcl R1 ltac:(lia)) as (s' & Hse & (I' & R' & P' & F' & W' & M')).
          exists s'. split; [exact Hse|]. unfold seek_post. splits; try assumption; try congruence.
  Qed.
End Inv.

(* Proofs about the file handle state machine Model/FileIO.v: every call refines the byte-array file of Spec/FsSpec.v.
   Ghost state: L = the data blocks of the file in order, E = its extension blocks in order.  No device faults here
   (bad = fun _ => false); the allocator hands out blocks the file does not own yet, or refuses. *)
From Coq Require Import ZArith List Bool Lia Permutation.
From ADF Require Import CPrelude Proofs.BytesP Model.FileIO Proofs.FileIOL Proofs.FileIOFr.
Import ListNotations.
Local Open Scope Z_scope.

Ltac Zify.zify_post_hook ::= Z.to_euclidean_division_equations.

Definition nobad : Z -> bool := fun _ => false.

Ltac splits := repeat match goal with |- _ /\ _ => split end.

Section Inv.
  Variable bs : Z.
  Variable ofs : bool.
  Variable key : Z.
  Hypothesis Hbs : 0 < bs.

  Definition enc_x (L E : list Z) (j : Z) : xblk :=
    {| x_key := nthZ E j; x_parent := key; x_high := Z.min 72 (len L - 72 * (j + 1)); x_tab := subZ L (72 * (j + 1)) 72; x_ext := nthZ E (j + 1) |}.

  Definition hdr_ok (h : fhdr) (L E : list Z) : Prop :=
    h_key h = key /\ h_tab h = subZ L 0 72 /\ h_high h = Z.min 72 (len L) /\ h_first h = nthZ L 0 /\ h_ext h = nthZ E 0.

  Definition disk_d (s : hstate) (L : list Z) (k : Z) : dblk :=
    match dk s (nthZ L k) with BData d => d | _ => zero_d bs end.

  Definition buffered (s : hstate) (k : Z) : bool := negb (cur s =? 0) && (k =? ndb s - 1).

  Definition truth_d (s : hstate) (L : list Z) (k : Z) : dblk := if buffered s k then cdata s else disk_d s L k.

  Definition byte_at (s : hstate) (L : list Z) (i : Z) : Z := nthZ (d_bytes (truth_d s L (i / bs))) (i mod bs).

  (* the file content the handle state stands for *)
  Definition Repr (s : hstate) (L : list Z) (ct : list Z) : Prop :=
    len ct = fsize s /\ forall i, 0 <= i < fsize s -> nthZ ct i = byte_at s L i.

  Record Base (s : hstate) (L E : list Z) : Prop := {
    b_hdr : hdr_ok (fh s) L E;
    b_size : 0 <= fsize s;
    b_nE : len E = db2ext (len L);
    b_nodup : NoDup (key :: L ++ E);
    b_ge2 : forall b, In b (L ++ E) -> 2 <= b;
    b_cext : match cext s with None => True | Some x => x_key x = 0 \/ exists j, 0 <= j < len E /\ x = enc_x L E j end;
    b_xdisk : forall j, 0 <= j < len E -> dk s (nthZ E j) = BExt (enc_x L E j) \/ (chg s = true /\ cext s = Some (enc_x L E j));
    b_ddisk : forall k, 0 <= k < len L ->
              (buffered s k = true /\ chg s = true) \/
              (exists d, dk s (nthZ L k) = BData d /\ len (d_bytes d) = bs /\ (ofs = true -> k + 1 < len L -> d_next d = nthZ L (k + 1)));
    b_chg : chg s = true -> mw s = true
  }.

  (* the cursor: an empty file, or block ndb-1 is buffered and pos lies in it (or at its end) *)
  Definition ext_cursor (s : hstate) (L E : list Z) (k : Z) : Prop :=
    72 <= k -> cext s = Some (enc_x L E ((k - 72) / 72)) /\ pinx s = (k - 72) mod 72 + 1.

  Definition cur_ok (s : hstate) (L E : list Z) : Prop :=
    (fsize s = 0 /\ cur s = 0 /\ pos s = 0 /\ ndb s = 0 /\ pind s = 0 /\ len (d_bytes (cdata s)) = bs)
    \/ (cur s = nthZ L (ndb s - 1) /\ 1 <= ndb s <= len L /\ pos s = (ndb s - 1) * bs + pind s /\ 0 <= pind s <= bs /\ pos s <= fsize s
        /\ len (d_bytes (cdata s)) = bs
        /\ (chg s = false -> dk s (cur s) = BData (cdata s))
        /\ (ofs = true -> ndb s < len L -> d_next (cdata s) = nthZ L (ndb s))
        /\ ext_cursor s L E (ndb s - 1)).

  Definition Inv (s : hstate) (L E : list Z) : Prop := Base s L E /\ len L = size2db (fsize s) bs /\ cur_ok s L E.

  (* ---- small facts ---- *)
  Lemma in_L_nth L k : 0 <= k < len L -> In (nthZ L k) L.
  Proof. intros H. rewrite nthZ_nth by lia. apply nth_In. unfold len in H. lia. Qed.

  Lemma nodup_nth_inj (l : list Z) i j : NoDup l -> 0 <= i < len l -> 0 <= j < len l -> nthZ l i = nthZ l j -> i = j.
  Proof.
    intros Hn Hi Hj He. rewrite !nthZ_nth in He by lia. unfold len in *.
    assert (Z.to_nat i = Z.to_nat j) by (apply (proj1 (NoDup_nth l 0) Hn); [lia|lia|exact He]). lia.
  Qed.

  Lemma base_L_nodup s L E : Base s L E -> NoDup L /\ NoDup E /\ (forall a, In a L -> In a E -> False) /\ ~ In key L /\ ~ In key E.
  Proof.
    intros B. pose proof (b_nodup _ _ _ B) as H. inversion H as [|? ? Hk Hn]; subst.
    destruct (nodup_app_inv _ _ Hn) as (HL & HE & Hd).
    repeat split; try assumption.
    - intros Hc. apply Hk. apply in_or_app. left. assumption.
    - intros Hc. apply Hk. apply in_or_app. right. assumption.
  Qed.

  Lemma size2db_0 : size2db 0 bs = 0.
  Proof. unfold size2db. rewrite Z.div_0_l, Z.mod_0_l by lia. reflexivity. Qed.

  Lemma size2db_pos n : 0 < n -> 0 < size2db n bs.
  Proof.
    intros H. unfold size2db. pose proof (Z.div_mod n bs ltac:(lia)). pose proof (Z.mod_pos_bound n bs Hbs).
    pose proof (Z.div_pos n bs ltac:(lia) Hbs).
    destruct (Z.ltb_spec 0 (n mod bs)); [lia|]. assert (n mod bs = 0) by lia. nia.
  Qed.

  (* block index of a position: k*bs + off with 0 <= off < bs *)
  Lemma div_block k off : 0 <= off < bs -> (k * bs + off) / bs = k.
  Proof. intros H. symmetry. apply (Z.div_unique_pos _ _ k off); lia. Qed.
  Lemma mod_block k off : 0 <= off < bs -> (k * bs + off) mod bs = off.
  Proof. intros H. symmetry. apply (Z.mod_unique_pos _ _ k off); lia. Qed.

  (* size2db as the least n with size <= n*bs *)
  Lemma size2db_spec n : 0 <= n -> (size2db n bs - 1) * bs < n <= size2db n bs * bs \/ (n = 0 /\ size2db n bs = 0).
  Proof.
    intros H. unfold size2db. pose proof (Z.div_mod n bs ltac:(lia)). pose proof (Z.mod_pos_bound n bs Hbs).
    destruct (Z.ltb_spec 0 (n mod bs)).
    - left. nia.
    - assert (n mod bs = 0) by lia. destruct (Z.eq_dec n 0) as [->|Hn]; [right; rewrite Z.div_0_l by lia; lia|]. left. nia.
  Qed.

  Lemma size2db_unique n m : 0 <= n -> (m - 1) * bs < n <= m * bs -> size2db n bs = m.
  Proof.
    intros H Hm. destruct (size2db_spec n H) as [Hs|[-> Hs]]; [|nia]. nia.
  Qed.

  (* ---- writes to the volume ---- *)
  Lemma wr_dk s n b k : dk (wr s n b) k = if k =? n then b else dk s k.
  Proof. reflexivity. Qed.

  Lemma enc_key L E j : x_key (enc_x L E j) = nthZ E j.
  Proof. reflexivity. Qed.

  Lemma in_E_nth (E : list Z) j : 0 <= j < len E -> In (nthZ E j) E.
  Proof. apply in_L_nth. Qed.

  (* blocks of the three kinds are pairwise different *)
  Lemma sep_LE s L E k j : Base s L E -> 0 <= k < len L -> 0 <= j < len E -> nthZ L k <> nthZ E j.
  Proof.
    intros B Hk Hj He. destruct (base_L_nodup _ _ _ B) as (_ & _ & Hd & _). apply (Hd (nthZ L k)); [apply in_L_nth; assumption|rewrite He; apply in_E_nth; assumption].
  Qed.
  Lemma sep_Lkey s L E k : Base s L E -> 0 <= k < len L -> nthZ L k <> key.
  Proof. intros B Hk He. destruct (base_L_nodup _ _ _ B) as (_ & _ & _ & Hn & _). apply Hn. rewrite <- He. apply in_L_nth. assumption. Qed.
  Lemma sep_Ekey s L E j : Base s L E -> 0 <= j < len E -> nthZ E j <> key.
  Proof. intros B Hj He. destruct (base_L_nodup _ _ _ B) as (_ & _ & _ & _ & Hn). apply Hn. rewrite <- He. apply in_E_nth. assumption. Qed.
  Lemma inj_L s L E i j : Base s L E -> 0 <= i < len L -> 0 <= j < len L -> nthZ L i = nthZ L j -> i = j.
  Proof. intros B. destruct (base_L_nodup _ _ _ B) as (Hn & _). apply nodup_nth_inj. assumption. Qed.
  Lemma inj_E s L E i j : Base s L E -> 0 <= i < len E -> 0 <= j < len E -> nthZ E i = nthZ E j -> i = j.
  Proof. intros B. destruct (base_L_nodup _ _ _ B) as (_ & Hn & _). apply nodup_nth_inj. assumption. Qed.

  Lemma empty_L s L E : Inv s L E -> fsize s = 0 -> L = [] /\ E = [].
  Proof.
    intros (B & HL & _) Hz. rewrite Hz, size2db_0 in HL. assert (L = []) as -> by (destruct L; [reflexivity|unfold len in HL; simpl in HL; lia]).
    split; [reflexivity|]. pose proof (b_nE _ _ _ B) as HE. unfold len at 2 in HE. simpl in HE. unfold db2ext in HE. simpl in HE.
    destruct E; [reflexivity|unfold len in HE; simpl in HE; lia].
  Qed.

  (* the three blocks a flush may write belong to the file (Proofs/FileIOFr.v) *)
  Lemma inv_own s L E : Inv s L E -> Own (key :: L ++ E) s.
  Proof.
    intros (B & HL & C). split; [|split].
    - destruct (b_hdr _ _ _ B) as (Hk & _). rewrite Hk. left; reflexivity.
    - destruct C as [(_ & Hz & _)|(Hcu & Hnn & _)]; [left; exact Hz|]. right. right. apply in_or_app. left. rewrite Hcu. apply in_L_nth. lia.
    - intros x Hx. pose proof (b_cext _ _ _ B) as Hb. rewrite Hx in Hb. destruct Hb as [Hz|(j & Hj & ->)]; [left; exact Hz|].
      right. right. apply in_or_app. right. rewrite enc_key. apply in_E_nth. exact Hj.
  Qed.

  (* ---- adfFileFlush ---- *)
  Definition flush_data (s : hstate) : dblk :=
    if ofs then set_d_size (cdata s) (Z.min (fsize s - (pos s - pind s)) bs) else cdata s.
  Definition flushes_data (s : hstate) : bool := (0 <? fsize s) && negb (cur s =? 0).
  Definition flushes_ext (s : hstate) : option xblk :=
    match cext s with Some x => if x_key x =? 0 then None else Some x | None => None end.

  Lemma flush_shape s : mw s = true ->
    let s' := fio_flush bs ofs s in
    pos s' = pos s /\ pinx s' = pinx s /\ pind s' = pind s /\ ndb s' = ndb s /\ cur s' = cur s /\ chg s' = chg s /\ cext s' = cext s
    /\ fh s' = fh s /\ mw s' = mw s /\ mr s' = mr s
    /\ cdata s' = (if flushes_data s then flush_data s else cdata s)
    /\ forall k, dk s' k =
         if k =? h_key (fh s) then BHdr (fh s)
         else if flushes_data s && (k =? cur s) then BData (flush_data s)
         else match flushes_ext s with
              | Some x => if k =? x_key x then BExt x else dk s k
              | None => dk s k
              end.
  Proof.
    intros Hw. unfold fio_flush, flushes_data, flushes_ext, flush_data, fsize. rewrite Hw. cbn [negb].
    destruct (cext s) as [x|] eqn:Hx; [destruct (x_key x =? 0) eqn:Hk|]; cbn -[Z.ltb Z.eqb Z.min];
      (destruct ((0 <? h_size (fh s)) && negb (cur s =? 0)) eqn:Hd; cbn -[Z.ltb Z.eqb Z.min]; rewrite ?Hx; repeat split; try reflexivity; exact Hw).
  Qed.

  Definition same_cursor (s s' : hstate) : Prop :=
    pos s' = pos s /\ pinx s' = pinx s /\ pind s' = pind s /\ ndb s' = ndb s /\ cur s' = cur s /\ cext s' = cext s /\ fh s' = fh s
    /\ mw s' = mw s /\ mr s' = mr s /\ d_bytes (cdata s') = d_bytes (cdata s) /\ d_next (cdata s') = d_next (cdata s).

  Definition settle (s : hstate) : hstate := if mw s && chg s then set_chg (fio_flush bs ofs s) false else s.

  Lemma normal_size_pos s L E : Inv s L E -> 1 <= ndb s -> cur s <> 0 -> 0 < fsize s.
  Proof.
    intros (B & HL & [(Hz & Hc & _)|(Hc & Hn & _)]) H1 H2; [contradiction|].
    pose proof (b_size _ _ _ B). destruct (Z.eq_dec (fsize s) 0) as [Hz|]; [|lia]. rewrite Hz, size2db_0 in HL. lia.
  Qed.

  Lemma cur_nonzero s L E : Inv s L E -> 1 <= ndb s -> cur s = nthZ L (ndb s - 1) -> ndb s <= len L -> 2 <= cur s.
  Proof. intros (B & _) H1 Hc Hn. rewrite Hc. apply (b_ge2 _ _ _ B). apply in_or_app. left. apply in_L_nth. lia. Qed.

  Lemma flush_inv s L E : Inv s L E -> mw s = true ->
    let s' := set_chg (fio_flush bs ofs s) false in
    Inv s' L E /\ chg s' = false /\ same_cursor s s' /\ (forall k, 0 <= k < len L -> d_bytes (truth_d s' L k) = d_bytes (truth_d s L k))
    /\ dk s' key = BHdr (fh s).
  Proof.
    intros I Hw. pose proof I as (B & HL & C). cbv zeta.
    destruct (flush_shape s Hw) as (Fpos & Fpinx & Fpind & Fndb & Fcur & Fchg & Fcext & Ffh & Fmw & Fmr & Fcd & Fdk).
    set (f := fio_flush bs ofs s) in *.
    assert (Hkey : h_key (fh s) = key) by (apply (b_hdr _ _ _ B)).
    (* the data block that is written, if any, is the buffered one *)
    assert (Hfd : flushes_data s = true -> cur s = nthZ L (ndb s - 1) /\ 1 <= ndb s <= len L /\ cur s <> 0).
    { unfold flushes_data. intros Hf. apply andb_prop in Hf. destruct Hf as (Hf1 & Hf2).
      destruct C as [(Hz & _)|(Hcu & Hn & _)]; [apply Z.ltb_lt in Hf1; lia|].
      repeat split; try lia; try assumption. }
    assert (Hbuf : forall k, buffered s k = true -> flushes_data s = true).
    { intros k Hb. unfold buffered in Hb. apply andb_prop in Hb. destruct Hb as (Hb1 & Hb2). unfold flushes_data. rewrite Hb1, andb_true_r.
      apply Z.ltb_lt. destruct C as [(_ & Hz & _)|(Hcu & Hn & _)]; [rewrite Hz in Hb1; discriminate|].
      apply (normal_size_pos s L E I); [lia|]. destruct (Z.eqb_spec (cur s) 0); [discriminate|assumption]. }
    (* what the flush leaves at the blocks of the file *)
    assert (HdkL : forall k, 0 <= k < len L -> buffered s k = false -> dk f (nthZ L k) = dk s (nthZ L k)).
    { intros k Hk Hnb. rewrite Fdk, Hkey. destruct (Z.eqb_spec (nthZ L k) key) as [He|_]; [exfalso; revert He; apply (sep_Lkey s L E k B Hk)|].
      destruct (flushes_data s) eqn:Hf; simpl.
      - destruct (Hfd eq_refl) as (Hcu & Hn & Hnz). destruct (Z.eqb_spec (nthZ L k) (cur s)) as [He|_].
        + exfalso. rewrite Hcu in He. apply (inj_L s L E k (ndb s - 1) B Hk ltac:(lia)) in He. unfold buffered in Hnb.
          destruct (Z.eqb_spec (cur s) 0); [contradiction|]. simpl in Hnb. destruct (Z.eqb_spec k (ndb s - 1)); [discriminate|contradiction].
        + unfold flushes_ext. pose proof (b_cext _ _ _ B) as Hx. destruct (cext s) as [x|]; [|reflexivity].
          destruct (Z.eqb_spec (x_key x) 0); [reflexivity|]. destruct (Z.eqb_spec (nthZ L k) (x_key x)) as [He|_]; [|reflexivity].
          exfalso. destruct Hx as [Hx|(j & Hj & ->)]; [contradiction|]. rewrite enc_key in He. revert He. apply (sep_LE s L E k j B Hk Hj).
      - unfold flushes_ext. pose proof (b_cext _ _ _ B) as Hx. destruct (cext s) as [x|]; [|reflexivity].
        destruct (Z.eqb_spec (x_key x) 0); [reflexivity|]. destruct (Z.eqb_spec (nthZ L k) (x_key x)) as [He|_]; [|reflexivity].
        exfalso. destruct Hx as [Hx|(j & Hj & ->)]; [contradiction|]. rewrite enc_key in He. revert He. apply (sep_LE s L E k j B Hk Hj). }
    assert (HdkC : flushes_data s = true -> dk f (cur s) = BData (flush_data s)).
    { intros Hf. destruct (Hfd Hf) as (Hcu & Hn & Hnz). rewrite Fdk, Hkey, Hf. simpl.
      destruct (Z.eqb_spec (cur s) key) as [He|_]; [exfalso; rewrite Hcu in He; revert He; apply (sep_Lkey s L E _ B); lia|].
      rewrite Z.eqb_refl. reflexivity. }
    assert (HdkE : forall j, 0 <= j < len E -> dk f (nthZ E j) = BExt (enc_x L E j)).
    { intros j Hj. rewrite Fdk, Hkey. destruct (Z.eqb_spec (nthZ E j) key) as [He|_]; [exfalso; revert He; apply (sep_Ekey s L E j B Hj)|].
      assert (Hnc : flushes_data s && (nthZ E j =? cur s) = false).
      { destruct (flushes_data s) eqn:Hf; [|reflexivity]. destruct (Hfd eq_refl) as (Hcu & Hn & Hnz). simpl.
        destruct (Z.eqb_spec (nthZ E j) (cur s)) as [He|_]; [|reflexivity]. exfalso. rewrite Hcu in He. symmetry in He. revert He. apply (sep_LE s L E _ j B); lia. }
      rewrite Hnc. unfold flushes_ext. pose proof (b_cext _ _ _ B) as Hx. pose proof (b_xdisk _ _ _ B j Hj) as Hd.
      assert (Hge : 2 <= nthZ E j) by (apply (b_ge2 _ _ _ B); apply in_or_app; right; apply in_E_nth; assumption).
      destruct (cext s) as [x|].
      - destruct (Z.eqb_spec (x_key x) 0) as [Hz|Hz].
        + destruct Hd as [Hd|(_ & Hd)]; [assumption|]. inversion Hd; subst x. rewrite enc_key in Hz. lia.
        + destruct (Z.eqb_spec (nthZ E j) (x_key x)) as [He|Hne].
          * destruct Hx as [Hx|(j' & Hj' & ->)]; [contradiction|]. rewrite enc_key in He. apply (inj_E s L E j j' B Hj Hj') in He. subst j'. reflexivity.
          * destruct Hd as [Hd|(_ & Hd)]; [assumption|]. inversion Hd; subst x. rewrite enc_key in Hne. contradiction.
      - destruct Hd as [Hd|(_ & Hd)]; [assumption|discriminate]. }
    assert (Hbf : forall k, buffered (set_chg f false) k = buffered s k) by (intros k; unfold buffered; simpl; rewrite Fcur, Fndb; reflexivity).
    assert (Hbytes : d_bytes (cdata f) = d_bytes (cdata s) /\ d_next (cdata f) = d_next (cdata s)).
    { rewrite Fcd. destruct (flushes_data s); [|split; reflexivity]. unfold flush_data. destruct ofs; split; reflexivity. }
    split; [|split; [reflexivity|split; [|split]]].
    - (* Inv *)
      split; [|split].
      + constructor; simpl; try rewrite Ffh; try rewrite Fcext.
        * apply (b_hdr _ _ _ B).
        * unfold fsize. simpl. rewrite Ffh. apply (b_size _ _ _ B).
        * apply (b_nE _ _ _ B).
        * apply (b_nodup _ _ _ B).
        * apply (b_ge2 _ _ _ B).
        * apply (b_cext _ _ _ B).
        * intros j Hj. left. apply HdkE. assumption.
        * intros k Hk. right. destruct (buffered s k) eqn:Hb.
          -- pose proof (Hbuf k Hb) as Hf. destruct (Hfd Hf) as (Hcu & Hn & Hnz).
             assert (k = ndb s - 1) as -> by (unfold buffered in Hb; apply andb_prop in Hb; destruct Hb as (_ & Hb); apply Z.eqb_eq in Hb; assumption).
             rewrite <- Hcu. exists (flush_data s). split; [apply HdkC; assumption|].
             destruct C as [(_ & Hz & _)|(_ & _ & _ & _ & _ & Hlen & _ & Hnx & _)]; [contradiction|].
             unfold flush_data. destruct ofs; simpl; (split; [assumption|]); intros Ho Hk1; try discriminate. replace (ndb s - 1 + 1) with (ndb s) by lia. apply Hnx; [reflexivity|lia].
          -- rewrite (HdkL k Hk Hb). destruct (b_ddisk _ _ _ B k Hk) as [(Hb' & _)|Hd]; [congruence|assumption].
        * discriminate.
      + unfold fsize. simpl. rewrite Ffh. exact HL.
      + destruct C as [(Hz & Hcu & Hp & Hn & Hpi & Hlen0)|(Hcu & Hn & Hp & Hpi & Hps & Hlen & Hcl & Hnx & Hxc)].
        * left. unfold fsize. simpl. rewrite Ffh, Fcur, Fpos, Fndb, Fpind. destruct Hbytes as (Hb1 & _). rewrite Hb1. repeat split; assumption.
        * right. unfold fsize. simpl. rewrite Ffh, Fcur, Fpos, Fndb, Fpind. destruct Hbytes as (Hb1 & Hb2). rewrite Hb1, Hb2.
          repeat match goal with |- _ /\ _ => split end; try assumption; try lia.
          -- intros _. assert (Hf : flushes_data s = true).
             { apply (Hbuf (ndb s - 1)). unfold buffered. rewrite Z.eqb_refl, andb_true_r. pose proof (cur_nonzero s L E I ltac:(lia) Hcu ltac:(lia)).
               destruct (Z.eqb_spec (cur s) 0); [lia|reflexivity]. }
             rewrite (HdkC Hf). rewrite Fcd, Hf. reflexivity.
          -- unfold ext_cursor. simpl. rewrite Fcext, Fpinx. exact Hxc.
    - unfold same_cursor. simpl. destruct Hbytes. repeat split; assumption.
    - intros k Hk. unfold truth_d. rewrite Hbf. destruct (buffered s k) eqn:Hb; simpl; [apply Hbytes|].
      unfold disk_d. simpl. rewrite (HdkL k Hk Hb). reflexivity.
    - simpl. rewrite Fdk, Hkey, Z.eqb_refl. reflexivity.
  Qed.

  Lemma settle_ok s L E : Inv s L E ->
    let s' := settle s in
    Inv s' L E /\ chg s' = false /\ same_cursor s s' /\ (forall k, 0 <= k < len L -> d_bytes (truth_d s' L k) = d_bytes (truth_d s L k)).
  Proof.
    intros I. pose proof I as (B & HL & C). unfold settle.
    destruct (mw s) eqn:Hw; simpl.
    2:{ assert (Hc : chg s = false) by (destruct (chg s) eqn:Hc; [pose proof (b_chg _ _ _ B Hc); congruence|reflexivity]).
        split; [exact I|]. split; [exact Hc|]. split; [unfold same_cursor; repeat split; reflexivity|reflexivity]. }
    destruct (chg s) eqn:Hc.
    2:{ split; [exact I|]. split; [exact Hc|]. split; [unfold same_cursor; repeat split; reflexivity|reflexivity]. }
    destruct (flush_inv s L E I Hw) as (H1 & H2 & H3 & H4 & _). splits; assumption.
  Qed.

  Lemma settle_fr s L E : Inv s L E -> Fr (key :: L ++ E) s (settle s).
  Proof.
    intros I. unfold settle. destruct (mw s && chg s); [|apply fr_refl].
    intros n Hn. cbn [dk set_chg]. apply (flush_fr bs ofs _ s (inv_own s L E I) n Hn).
  Qed.

  Lemma advance_fr s L E sn : Inv s L E -> read_next bs ofs nobad (settle s) = (true, sn) -> Fr (key :: L ++ E) s (set_chg (set_pind sn 0) false).
  Proof.
    intros I Hrn. pose proof (read_next_dk bs ofs nobad (settle s)) as H. rewrite Hrn in H. cbn [snd] in H.
    intros n Hn. cbn [dk set_chg set_pind]. rewrite H. apply (settle_fr s L E I n Hn).
  Qed.

  Lemma idx_in_range n i : 0 <= i < n -> 0 <= i / bs < size2db n bs.
  Proof.
    intros H. split; [apply Z.div_pos; lia|]. destruct (size2db_spec n ltac:(lia)) as [Hs|[Hs _]]; [|lia].
    apply Z.div_lt_upper_bound; lia.
  Qed.

  Lemma repr_same s s' L ct : fsize s' = fsize s -> len L = size2db (fsize s) bs ->
    (forall k, 0 <= k < len L -> d_bytes (truth_d s' L k) = d_bytes (truth_d s L k)) -> Repr s L ct -> Repr s' L ct.
  Proof.
    intros Hf HL Hb (Hl & Hr). split; [rewrite Hf; assumption|]. intros i Hi. rewrite Hf in Hi. rewrite (Hr i Hi). unfold byte_at.
    rewrite Hb; [reflexivity|]. rewrite HL. apply idx_in_range. assumption.
  Qed.

  (* a clean state: every block of the file is on the volume as the handle sees it *)
  Lemma clean_disk s L E k : Inv s L E -> chg s = false -> 0 <= k < len L ->
    exists d, dk s (nthZ L k) = BData d /\ len (d_bytes d) = bs /\ (ofs = true -> k + 1 < len L -> d_next d = nthZ L (k + 1)) /\ truth_d s L k = d.
  Proof.
    intros (B & HL & C) Hc Hk. destruct (b_ddisk _ _ _ B k Hk) as [(_ & Hx)|(d & Hd & Hlen & Hnx)]; [congruence|].
    exists d. splits; try assumption. unfold truth_d. destruct (buffered s k) eqn:Hb.
    - unfold buffered in Hb. apply andb_prop in Hb. destruct Hb as (Hb1 & Hb2). apply Z.eqb_eq in Hb2. subst k.
      destruct C as [(_ & Hz & _)|(Hcu & _ & _ & _ & _ & _ & Hcl & _)]; [rewrite Hz in Hb1; discriminate|].
      specialize (Hcl Hc). rewrite Hcu in Hcl. rewrite Hd in Hcl. inversion Hcl. reflexivity.
    - unfold disk_d. rewrite Hd. reflexivity.
  Qed.

  Lemma clean_ext s L E j : Inv s L E -> chg s = false -> 0 <= j < len E -> dk s (nthZ E j) = BExt (enc_x L E j).
  Proof. intros (B & _) Hc Hj. destruct (b_xdisk _ _ _ B j Hj) as [H|(H & _)]; [assumption|congruence]. Qed.

  (* ---- adfFileReadNextBlock ---- *)
  Definition cext_ok (s : hstate) (L E : list Z) : Prop :=
    match cext s with None => True | Some x => x_key x = 0 \/ exists j, 0 <= j < len E /\ x = enc_x L E j end.

  Lemma lenE_of s L E : Base s L E -> len E = if len L <? 1 then 0 else (len L - 1) / 72.
  Proof. intros B. rewrite (b_nE _ _ _ B). reflexivity. Qed.

  Lemma rd_ext_clean s L E j : Base s L E -> chg s = false -> 0 <= j < len E -> rd_ext nobad s (nthZ E j) = Some (enc_x L E j).
  Proof.
    intros B Hc Hj. unfold rd_ext, nobad. destruct (b_xdisk _ _ _ B j Hj) as [H|(H & _)]; [|congruence]. rewrite H. reflexivity.
  Qed.

  Lemma rd_data_clean s L E k : Base s L E -> chg s = false -> 0 <= k < len L ->
    exists d, rd_data bs nobad s (nthZ L k) = Some d /\ dk s (nthZ L k) = BData d /\ len (d_bytes d) = bs /\ (ofs = true -> k + 1 < len L -> d_next d = nthZ L (k + 1)).
  Proof.
    intros B Hc Hk. destruct (b_ddisk _ _ _ B k Hk) as [(_ & Hx)|(d & Hd & Hlen & Hnx)]; [congruence|].
    exists d. splits; try assumption. unfold rd_data, nobad. rewrite Hd.
    assert (2 <= nthZ L k) by (apply (b_ge2 _ _ _ B); apply in_or_app; left; apply in_L_nth; assumption).
    destruct (Z.ltb_spec (nthZ L k) 1); [lia|]. reflexivity.
  Qed.

  Lemma read_next_ok s L E : Base s L E -> chg s = false -> 0 <= ndb s < len L -> ext_cursor s L E (ndb s - 1) ->
    (ofs = true -> 1 <= ndb s -> d_next (cdata s) = nthZ L (ndb s)) ->
    exists s', read_next bs ofs nobad s = (true, s') /\ dk s' = dk s /\ pos s' = pos s /\ pind s' = pind s /\ ndb s' = ndb s + 1
      /\ cur s' = nthZ L (ndb s) /\ dk s (nthZ L (ndb s)) = BData (cdata s') /\ len (d_bytes (cdata s')) = bs
      /\ (ofs = true -> ndb s + 1 < len L -> d_next (cdata s') = nthZ L (ndb s + 1))
      /\ chg s' = false /\ fh s' = fh s /\ mw s' = mw s /\ mr s' = mr s /\ ext_cursor s' L E (ndb s) /\ cext_ok s' L E.
  Proof.
    intros B Hc Hn Hx Hnx.
    destruct (rd_data_clean s L E (ndb s) B Hc Hn) as (d & Hrd & Hdk & Hlen & Hdn).
    assert (Hge : 2 <= nthZ L (ndb s)) by (apply (b_ge2 _ _ _ B); apply in_or_app; left; apply in_L_nth; assumption).
    pose proof (b_hdr _ _ _ B) as (Hk & Htab & Hhigh & Hfirst & Hext).
    pose proof (lenE_of s L E B) as HlE.
    unfold read_next.
    destruct (Z.eqb_spec (ndb s) 0) as [H0|H0].
    { (* first block: firstData *)
      cbn [negb andb]. rewrite andb_false_r. assert (Hsel : h_first (fh s) = nthZ L (ndb s)) by (rewrite Hfirst, H0; reflexivity). rewrite Hsel.
      destruct (Z.ltb_spec (nthZ L (ndb s)) 2); [lia|]. rewrite Hrd.
      eexists. split; [reflexivity|]. simpl. splits; try reflexivity; try assumption; try lia.
      - unfold ext_cursor. simpl. lia.
      - exact (b_cext _ _ _ B). }
    destruct (Z.ltb_spec (ndb s) MAXDB) as [H72|H72].
    { (* header table *)
      cbn [negb]. assert (Hsel : (if ofs && true then d_next (cdata s) else nthZ (h_tab (fh s)) (ndb s)) = nthZ L (ndb s)).
      { destruct ofs; simpl; [apply Hnx; [reflexivity|lia]|]. rewrite Htab. rewrite nthZ_subZ by (unfold MAXDB in H72; lia). f_equal. }
      rewrite Hsel. destruct (Z.ltb_spec (nthZ L (ndb s)) 2); [lia|]. rewrite Hrd.
      eexists. split; [reflexivity|]. simpl. splits; try reflexivity; try assumption; try lia.
      - unfold ext_cursor. simpl. unfold MAXDB in H72. lia.
      - exact (b_cext _ _ _ B). }
    unfold MAXDB in H72.
    assert (HE1 : 1 <= len E) by (rewrite HlE; destruct (Z.ltb_spec (len L) 1); lia).
    (* the extension block that holds slot ndb, and what the code finds there *)
    set (j := (ndb s - 72) / 72). set (i := (ndb s - 72) mod 72).
    assert (Hj : 0 <= j < len E) by (subst j; rewrite HlE; destruct (Z.ltb_spec (len L) 1); lia).
    assert (Hslot : nthZ (x_tab (enc_x L E j)) i = nthZ L (ndb s)).
    { unfold enc_x. cbn [x_tab]. rewrite nthZ_subZ by (subst i; lia). f_equal. subst i j. lia. }
    destruct (Z.eqb_spec (ndb s) MAXDB) as [He|He].
    { (* first extension block, from the header *)
      unfold MAXDB in He. assert (j = 0) by (subst j; lia). assert (i = 0) by (subst i; lia).
      unfold load_ext. assert (Hrx : forall t, dk t = dk s -> rd_ext nobad t (h_ext (fh s)) = Some (enc_x L E 0)).
      { intros t Ht. unfold rd_ext, nobad. rewrite Ht, Hext. destruct (b_xdisk _ _ _ B 0 ltac:(lia)) as [Hd|(Hd & _)]; [rewrite Hd; reflexivity|congruence]. }
      destruct (cext s) eqn:Hcx; rewrite Hrx by reflexivity; cbn -[Z.ltb Z.eqb enc_x nthZ];
        (assert (Hsel : (if ofs && true then d_next (cdata s) else nthZ (x_tab (enc_x L E 0)) 0) = nthZ L (ndb s));
         [destruct ofs; cbn [andb]; [apply Hnx; [reflexivity|lia]|]; rewrite <- Hslot; congruence|]);
        unfold cx; cbn -[Z.ltb Z.eqb enc_x nthZ]; rewrite Hsel; (destruct (Z.ltb_spec (nthZ L (ndb s)) 2); [lia|]);
        unfold rd_data in *; cbn -[Z.ltb Z.eqb enc_x nthZ] in *; rewrite Hrd;
        (eexists; split; [reflexivity|]); cbn -[enc_x nthZ]; splits; try reflexivity; try assumption; try lia;
        try (unfold ext_cursor; cbn -[enc_x]; intros _; split; [f_equal; f_equal; lia|lia]);
        try (unfold cext_ok; cbn -[enc_x]; right; exists 0; split; [lia|reflexivity]). }
    unfold MAXDB in He. destruct (Hx ltac:(lia)) as (Hcx & Hpx).
    destruct (Z.eqb_spec (pinx s) MAXDB) as [Hp|Hp].
    { (* next extension block, from the current one *)
      unfold MAXDB in Hp. assert (Hj1 : j = (ndb s - 1 - 72) / 72 + 1) by (subst j; lia). assert (i = 0) by (subst i; lia).
      unfold load_ext, cx. rewrite Hcx. assert (Hrx : rd_ext nobad s (x_ext (enc_x L E ((ndb s - 1 - 72) / 72))) = Some (enc_x L E j)).
      { unfold enc_x at 1. cbn [x_ext]. rewrite <- Hj1. apply (rd_ext_clean s L E j B Hc Hj). }
      rewrite Hrx. cbn -[Z.ltb Z.eqb enc_x nthZ].
      assert (Hsel : (if ofs && true then d_next (cdata s) else nthZ (x_tab (enc_x L E j)) 0) = nthZ L (ndb s)).
      { destruct ofs; cbn [andb]; [apply Hnx; [reflexivity|lia]|]. rewrite <- Hslot. congruence. }
      rewrite Hsel. destruct (Z.ltb_spec (nthZ L (ndb s)) 2); [lia|].
      unfold rd_data in *. cbn -[Z.ltb Z.eqb enc_x nthZ] in *. rewrite Hrd.
      eexists. split; [reflexivity|]. cbn -[enc_x nthZ]. splits; try reflexivity; try assumption; try lia.
      - unfold ext_cursor. cbn -[enc_x]. intros _. split; [f_equal; f_equal; subst j; lia|lia].
      - unfold cext_ok. cbn -[enc_x]. right. exists j. split; [assumption|reflexivity]. }
    { (* same extension block *)
      unfold MAXDB in Hp. assert (Hj1 : j = (ndb s - 1 - 72) / 72) by (subst j; lia). assert (Hi : i = pinx s) by (subst i; lia).
      unfold cx. rewrite Hcx. cbn -[Z.ltb Z.eqb enc_x nthZ].
      assert (Hsel : (if ofs && true then d_next (cdata s) else nthZ (x_tab (enc_x L E ((ndb s - 1 - 72) / 72))) (pinx s)) = nthZ L (ndb s)).
      { destruct ofs; cbn [andb]; [apply Hnx; [reflexivity|lia]|]. rewrite <- Hslot. congruence. }
      rewrite Hsel. destruct (Z.ltb_spec (nthZ L (ndb s)) 2); [lia|].
      unfold rd_data in *. cbn -[Z.ltb Z.eqb enc_x nthZ] in *. rewrite Hrd.
      eexists. split; [reflexivity|]. cbn -[enc_x nthZ]. splits; try reflexivity; try assumption; try lia.
      - unfold ext_cursor. cbn -[enc_x]. intros _. rewrite Hcx. split; [f_equal; f_equal; lia|lia].
      - unfold cext_ok. cbn -[enc_x]. rewrite Hcx. right. exists j. split; [assumption|rewrite Hj1; reflexivity]. }
  Qed.

  Lemma state_ext (a b : hstate) : dk a = dk b -> pos a = pos b -> pinx a = pinx b -> pind a = pind b -> ndb a = ndb b -> cur a = cur b ->
    chg a = chg b -> cdata a = cdata b -> cext a = cext b -> fh a = fh b -> mw a = mw b -> mr a = mr b -> a = b.
  Proof. destruct a, b; simpl; intros; subst; reflexivity. Qed.

  Lemma ndb_lt_len s L E : Inv s L E -> cur s <> 0 -> pind s = bs -> pos s < fsize s -> ndb s < len L.
  Proof.
    intros (B & HL & [(_ & Hz & _)|(Hcu & Hn & Hp & Hpi & _)]) Hc Hb Hlt; [contradiction|].
    rewrite HL. destruct (size2db_spec (fsize s) (b_size _ _ _ B)) as [Hs|[Hs _]]; [|lia]. nia.
  Qed.

  (* moving on to the next block of the file: the buffered block is written if it was changed, block ndb is read *)
  Lemma advance_ok s L E ct : Inv s L E -> Repr s L ct -> cur s <> 0 -> pind s = bs -> pos s < fsize s ->
    exists sn, read_next bs ofs nobad (settle s) = (true, sn) /\
      let s1 := set_chg (set_pind sn 0) false in
      Inv s1 L E /\ Repr s1 L ct /\ pos s1 = pos s /\ cur s1 <> 0 /\ pind s1 = 0 /\ fh s1 = fh s /\ mw s1 = mw s /\ mr s1 = mr s /\ chg sn = false.
  Proof.
    intros I R Hc Hb Hlt. pose proof (ndb_lt_len s L E I Hc Hb Hlt) as Hnl.
    destruct (settle_ok s L E I) as (I' & Hcl & (Spos & Spinx & Spind & Sndb & Scur & Scext & Sfh & Smw & Smr & Sby & Snx) & Htr).
    set (t := settle s) in *. pose proof I' as (B' & HL' & C').
    assert (Hnorm : cur t = nthZ L (ndb t - 1) /\ 1 <= ndb t <= len L /\ pos t = (ndb t - 1) * bs + pind t /\ ext_cursor t L E (ndb t - 1)
                    /\ (ofs = true -> ndb t < len L -> d_next (cdata t) = nthZ L (ndb t))).
    { destruct C' as [(_ & Hz & _)|(H1 & H2 & H3 & _ & _ & _ & _ & H8 & H9)]; [rewrite Scur in Hz; contradiction|]. splits; try assumption; lia. }
    destruct Hnorm as (Hcu & Hn & Hp & Hxc & Hnx).
    destruct (read_next_ok t L E B' Hcl ltac:(lia) Hxc ltac:(intros Ho _; apply Hnx; [assumption|lia]))
      as (sn & Hrn & Ndk & Npos & Npind & Nndb & Ncur & Ncd & Nlen & Nnx & Nchg & Nfh & Nmw & Nmr & Nxc & Ncx).
    exists sn. split; [exact Hrn|]. cbv zeta.
    assert (Hge : 2 <= nthZ L (ndb t)) by (apply (b_ge2 _ _ _ B'); apply in_or_app; left; apply in_L_nth; lia).
    assert (Ifin : Inv (set_chg (set_pind sn 0) false) L E).
    { split; [|split].
      - constructor; simpl; try rewrite Nfh.
        + apply (b_hdr _ _ _ B').
        + unfold fsize. simpl. rewrite Nfh. apply (b_size _ _ _ B').
        + apply (b_nE _ _ _ B').
        + apply (b_nodup _ _ _ B').
        + apply (b_ge2 _ _ _ B').
        + exact Ncx.
        + intros j Hj. left. rewrite Ndk. apply (clean_ext t L E j I' Hcl Hj).
        + intros k Hk. right. rewrite Ndk. destruct (clean_disk t L E k I' Hcl Hk) as (d & H1 & H2 & H3 & _). exists d. splits; assumption.
        + discriminate.
      - unfold fsize. simpl. rewrite Nfh. exact HL'.
      - right. unfold fsize. simpl. rewrite Nfh, Ncur, Nndb, Npos. replace (ndb t + 1 - 1) with (ndb t) by lia.
        splits; try reflexivity; try lia; try assumption.
        + rewrite Spos. unfold fsize in Hlt. rewrite Sfh. lia.
        + intros _. rewrite Ndk. exact Ncd. }
    splits; try assumption.
    - apply (repr_same t _ L ct).
      + unfold fsize. simpl. rewrite Nfh. reflexivity.
      + exact HL'.
      + intros k Hk. destruct (clean_disk t L E k I' Hcl Hk) as (d & H1 & _ & _ & H4).
        destruct (clean_disk _ L E k Ifin eq_refl Hk) as (d' & H1' & _ & _ & H4'). simpl in H1'. rewrite Ndk, H1 in H1'. assert (Hdd : d' = d) by congruence.
        rewrite H4, H4', Hdd. reflexivity.
      + apply (repr_same s t L ct); [unfold fsize; rewrite Sfh; reflexivity|destruct I as (_ & HL & _); exact HL|exact Htr|exact R].
    - simpl. rewrite Npos. exact Spos.
    - simpl. rewrite Ncur. lia.
    - reflexivity.
    - simpl. rewrite Nfh. exact Sfh.
    - simpl. rewrite Nmw. exact Smw.
    - simpl. rewrite Nmr. exact Smr.
  Qed.

  (* ---- frames: which fields the invariants read ---- *)
  Lemma base_frame s s' L E : dk s' = dk s -> cur s' = cur s -> ndb s' = ndb s -> chg s' = chg s -> cext s' = cext s -> fh s' = fh s -> mw s' = mw s ->
    Base s L E -> Base s' L E.
  Proof.
    intros Hdk Hcur Hndb Hchg Hcext Hfh Hmw B.
    assert (Hbuf : forall k, buffered s' k = buffered s k) by (intros k; unfold buffered; rewrite Hcur, Hndb; reflexivity).
    constructor; unfold fsize; rewrite ?Hdk, ?Hchg, ?Hcext, ?Hfh, ?Hmw.
    - apply (b_hdr _ _ _ B).
    - apply (b_size _ _ _ B).
    - apply (b_nE _ _ _ B).
    - apply (b_nodup _ _ _ B).
    - apply (b_ge2 _ _ _ B).
    - apply (b_cext _ _ _ B).
    - apply (b_xdisk _ _ _ B).
    - intros k Hk. rewrite Hbuf. apply (b_ddisk _ _ _ B k Hk).
    - apply (b_chg _ _ _ B).
  Qed.

  Lemma truth_frame s s' L k : dk s' = dk s -> cur s' = cur s -> ndb s' = ndb s -> cdata s' = cdata s -> truth_d s' L k = truth_d s L k.
  Proof. intros Hdk Hcur Hndb Hcd. unfold truth_d, buffered, disk_d. rewrite Hdk, Hcur, Hndb, Hcd. reflexivity. Qed.

  Lemma repr_frame s s' L ct : dk s' = dk s -> cur s' = cur s -> ndb s' = ndb s -> cdata s' = cdata s -> fh s' = fh s -> Repr s L ct -> Repr s' L ct.
  Proof.
    intros Hdk Hcur Hndb Hcd Hfh (Hl & Hr). unfold Repr, fsize, byte_at in *. rewrite Hfh. split; [assumption|].
    intros i Hi. rewrite (truth_frame s s') by assumption. apply Hr. assumption.
  Qed.

  (* the bytes of the buffered block are the bytes of the file at the cursor *)
  Lemma chunk_ok s L E ct size : Inv s L E -> Repr s L ct -> cur s <> 0 -> 0 <= size -> pind s + size <= bs -> pos s + size <= fsize s ->
    sub (d_bytes (cdata s)) (pind s) size = sub ct (pos s) size.
  Proof.
    intros (B & HL & [(_ & Hz & _)|(Hcu & Hn & Hp & Hpi & Hps & Hlen & _)]) (Hl & Hr) Hc Hs Hb Hf; [contradiction|].
    assert (0 <= pos s) by nia.
    apply list_ext.
    - rewrite !sub_length by lia. reflexivity.
    - intros i Hi. rewrite len_sub in Hi by lia. rewrite !nthZ_sub by lia. rewrite Hr by lia. unfold byte_at.
      assert (Hd : (pos s + i) / bs = ndb s - 1) by (rewrite Hp; replace ((ndb s - 1) * bs + pind s + i) with ((ndb s - 1) * bs + (pind s + i)) by lia; apply div_block; lia).
      assert (Hm : (pos s + i) mod bs = pind s + i) by (rewrite Hp; replace ((ndb s - 1) * bs + pind s + i) with ((ndb s - 1) * bs + (pind s + i)) by lia; apply mod_block; lia).
      rewrite Hd, Hm. unfold truth_d, buffered. rewrite Z.eqb_refl. destruct (Z.eqb_spec (cur s) 0); [contradiction|]. reflexivity.
  Qed.

  (* ---- adfFileRead ---- *)
  Lemma read_loop_ok L E ct : forall fuel s n, Inv s L E -> Repr s L ct -> cur s <> 0 -> 0 <= n -> pos s + n <= fsize s ->
    (0 < n -> n + (if pind s =? bs then 0 else pind s) <= Z.of_nat fuel * bs) ->
    exists s' r, read_loop bs ofs nobad fuel s n = (s', r) /\ Inv s' L E /\ Repr s' L ct /\ r = sub ct (pos s) n /\ pos s' = pos s + n
      /\ cur s' <> 0 /\ fh s' = fh s /\ mw s' = mw s /\ mr s' = mr s /\ Fr (key :: L ++ E) s s'.
  Proof.
    induction fuel as [|fuel IH]; intros s n I R Hc Hn Hle Hfuel.
    - assert (n = 0) by (destruct (Z.eq_dec n 0) as [|Hne]; [assumption|]; specialize (Hfuel ltac:(lia)); destruct (pind s =? bs); destruct I as (_ & _ & [(_ & Hz & _)|(_ & _ & _ & Hpi & _)]); [contradiction|lia|contradiction|lia]).
      subst n. exists s, []. simpl. splits; try reflexivity; try assumption; try apply fr_refl. lia.
    - cbn [read_loop]. destruct (Z.leb_spec n 0) as [Hz|Hz].
      { assert (n = 0) by lia. subst n. exists s, []. splits; try reflexivity; try assumption; try apply fr_refl. lia. }
      (* the state the bytes are copied from: the next block is fetched when the cursor stands at the end of the buffered one *)
      assert (Hprep : exists s1, (if pind s =? bs
                                  then match read_next bs ofs nobad (settle s) with
                                       | (true, sn) => (true, set_chg (set_pind sn 0) false)
                                       | (false, sn) => (false, set_cur sn 0)
                                       end
                                  else (true, s)) = (true, s1)
                /\ Inv s1 L E /\ Repr s1 L ct /\ pos s1 = pos s /\ cur s1 <> 0 /\ pind s1 = (if pind s =? bs then 0 else pind s)
                /\ fh s1 = fh s /\ mw s1 = mw s /\ mr s1 = mr s /\ Fr (key :: L ++ E) s s1).
      { destruct (Z.eqb_spec (pind s) bs) as [Hb|Hb].
        - destruct (advance_ok s L E ct I R Hc Hb ltac:(lia)) as (sn & Hrn & I1 & R1 & P1 & C1 & Pi1 & F1 & W1 & M1 & _).
          pose proof (advance_fr s L E sn I Hrn) as Hfr.
          exists (set_chg (set_pind sn 0) false). rewrite Hrn. splits; try assumption; reflexivity.
        - exists s. splits; try assumption; try apply fr_refl; reflexivity. }
      destruct Hprep as (s1 & Hprep & I1 & R1 & P1 & C1 & Pi1 & F1 & W1 & M1 & Hfr1). unfold settle in Hprep. rewrite Hprep. cbn [negb].
      set (size := Z.min n (bs - pind s1)).
      assert (Hpi1 : 0 <= pind s1 < bs).
      { rewrite Pi1. destruct (Z.eqb_spec (pind s) bs); [lia|]. destruct I as (_ & _ & [(_ & Hz0 & _)|(_ & _ & _ & Hpi & _)]); [contradiction|lia]. }
      assert (Hsz : 0 < size <= n /\ pind s1 + size <= bs) by (subst size; lia).
      set (s2 := set_pind (set_pos s1 (pos s1 + size)) (pind s1 + size)).
      assert (I2 : Inv s2 L E).
      { destruct I1 as (B1 & HL1 & C1'). split; [|split].
        - apply (base_frame s1); try reflexivity. assumption.
        - exact HL1.
        - destruct C1' as [(_ & Hz0 & _)|(Hcu & Hnn & Hp & Hpi & Hps & Hlen & Hcl & Hnx & Hxc)]; [contradiction|].
          right. subst s2. unfold fsize, ext_cursor in *. simpl. splits; try assumption; try lia. rewrite F1. unfold fsize in Hle. lia. }
      assert (R2 : Repr s2 L ct) by (apply (repr_frame s1); try reflexivity; assumption).
      destruct (IH s2 (n - size) I2 R2 C1 ltac:(lia)) as (s3 & r & Hrl & I3 & R3 & Hr & P3 & C3 & F3 & W3 & M3 & Hfr3).
      { subst s2. unfold fsize in *. simpl. rewrite F1. lia. }
      { intros Hrest. specialize (Hfuel Hz). subst s2. simpl. rewrite Nat2Z.inj_succ in Hfuel. destruct (Z.eqb_spec (pind s1 + size) bs) as [He|He].
        - rewrite Pi1 in *. destruct (Z.eqb_spec (pind s) bs); lia.
        - assert (size = n) by (subst size; lia). lia. }
      assert (Hfr : Fr (key :: L ++ E) s s3).
      { apply (fr_trans _ s s1 s3 Hfr1). apply (fr_trans _ s1 s2 s3); [apply fr_dk; reflexivity|exact Hfr3]. }
      fold size. fold s2. rewrite Hrl. exists s3, (sub (d_bytes (cdata s1)) (pind s1) size ++ r). splits; try assumption; try reflexivity.
      + rewrite (chunk_ok s1 L E ct size I1 R1 C1) by (unfold fsize in *; rewrite ?F1; lia). rewrite Hr. subst s2. simpl. rewrite P1.
        assert (Hpos : 0 <= pos s) by (destruct I as (_ & _ & [(_ & Hz0 & _)|(_ & Hnn & Hp & Hpi & _)]); [contradiction|nia]).
        rewrite sub_app by lia. f_equal. lia.
      + rewrite P3. subst s2. simpl. lia.
      + rewrite F3. subst s2. simpl. exact F1.
      + rewrite W3. subst s2. simpl. exact W1.
      + rewrite M3. subst s2. simpl. exact M1.
  Qed.

  Theorem fio_read_ok_fr s L E ct n : Inv s L E -> Repr s L ct -> 0 <= n ->
    exists s' r, fio_read bs ofs nobad s n = (s', r) /\ Inv s' L E /\ Repr s' L ct /\
      let k := if mr s then Z.max 0 (Z.min n (fsize s - pos s)) else 0 in
      r = sub ct (pos s) k /\ pos s' = pos s + k /\ fh s' = fh s /\ mw s' = mw s /\ mr s' = mr s /\ Fr (key :: L ++ E) s s'.
  Proof.
    intros I R Hn. pose proof I as (B & HL & C). pose proof (b_size _ _ _ B) as Hsz.
    assert (Hps : 0 <= pos s <= fsize s).
    { destruct C as [(Hz & _ & Hp & _)|(_ & Hnn & Hp & Hpi & Hle & _)]; [lia|nia]. }
    unfold fio_read, at_eof.
    destruct (mr s) eqn:Hr; cbn [negb orb].
    2:{ exists s, []. splits; try assumption; try reflexivity; try apply fr_refl. lia. }
    destruct (Z.eqb_spec n 0) as [H0|H0]; cbn [orb].
    { exists s, []. splits; try assumption; try reflexivity; try apply fr_refl; [|lia]. replace (Z.max 0 (Z.min n (fsize s - pos s))) with 0 by lia. reflexivity. }
    destruct (Z.eqb_spec (fsize s) 0) as [Hz|Hz]; cbn [orb].
    { exists s, []. splits; try assumption; try reflexivity; try apply fr_refl; [|lia]. replace (Z.max 0 (Z.min n (fsize s - pos s))) with 0 by lia. reflexivity. }
    destruct (Z.eqb_spec (pos s) (fsize s)) as [He|He]; cbn [orb].
    { exists s, []. splits; try assumption; try reflexivity; try apply fr_refl; [|lia]. replace (Z.max 0 (Z.min n (fsize s - pos s))) with 0 by lia. reflexivity. }
    destruct (Z.eqb_spec (cur s) 0) as [Hc|Hc].
    { exfalso. destruct C as [(Hz' & _)|(Hcu & Hnn & _)]; [contradiction|]. pose proof (cur_nonzero s L E I ltac:(lia) Hcu ltac:(lia)). lia. }
    set (n' := if fsize s <? pos s + n then fsize s - pos s else n).
    assert (Hn' : n' = Z.max 0 (Z.min n (fsize s - pos s)) /\ 0 < n') by (subst n'; destruct (Z.ltb_spec (fsize s) (pos s + n)); lia).
    destruct Hn' as (Hk & Hpos').
    destruct (read_loop_ok L E ct (Z.to_nat (n' / bs + 2)) s n' I R Hc ltac:(lia) ltac:(lia)) as (s' & r & Hrl & I' & R' & Hrr & P' & _ & F' & W' & M' & Hfr').
    { intros _. assert (Hpi : 0 <= pind s <= bs) by (destruct C as [(Hz' & _)|(_ & _ & _ & Hpi & _)]; [contradiction|assumption]).
      pose proof (Z.div_mod n' bs ltac:(lia)). pose proof (Z.mod_pos_bound n' bs Hbs). pose proof (Z.div_pos n' bs ltac:(lia) Hbs).
      rewrite Z2Nat.id by lia. destruct (Z.eqb_spec (pind s) bs); nia. }
    exists s', r. rewrite <- Hk. splits; try assumption. congruence.
  Qed.

  Theorem fio_read_ok s L E ct n : Inv s L E -> Repr s L ct -> 0 <= n ->
    exists s' r, fio_read bs ofs nobad s n = (s', r) /\ Inv s' L E /\ Repr s' L ct /\
      let k := if mr s then Z.max 0 (Z.min n (fsize s - pos s)) else 0 in
      r = sub ct (pos s) k /\ pos s' = pos s + k /\ fh s' = fh s /\ mw s' = mw s /\ mr s' = mr s.
  Proof.
    intros I R Hn. destruct (fio_read_ok_fr s L E ct n I R Hn) as (s' & r & H1 & H2 & H3 & H4).
    exists s', r. split; [exact H1|split; [exact H2|split; [exact H3|]]]. cbv zeta in *. destruct H4 as (H4 & H5 & H6 & H7 & H8 & _). splits; assumption.
  Qed.

  Theorem fio_seek_frame s L E p : Inv s L E -> Fr (key :: L ++ E) s (snd (fio_seek bs ofs nobad s p)).
  Proof. intros I. apply fio_seek_fr, (inv_own s L E I). Qed.

  (* a clean state: nothing buffered that the volume does not hold *)
  Definition CB (s : hstate) (L E : list Z) : Prop := Base s L E /\ len L = size2db (fsize s) bs /\ chg s = false.

  Lemma cb_data s L E k : CB s L E -> 0 <= k < len L ->
    exists d, dk s (nthZ L k) = BData d /\ len (d_bytes d) = bs /\ (ofs = true -> k + 1 < len L -> d_next d = nthZ L (k + 1)).
  Proof. intros (B & _ & Hc) Hk. destruct (b_ddisk _ _ _ B k Hk) as [(_ & Hx)|H]; [congruence|exact H]. Qed.

  Lemma cb_ext s L E j : CB s L E -> 0 <= j < len E -> dk s (nthZ E j) = BExt (enc_x L E j).
  Proof. intros (B & _ & Hc) Hj. destruct (b_xdisk _ _ _ B j Hj) as [H|(H & _)]; [assumption|congruence]. Qed.

  (* the cursor fields of a clean state do not matter for Base *)
  Lemma cb_frame s s' L E : CB s L E -> dk s' = dk s -> chg s' = false -> cext_ok s' L E -> fh s' = fh s -> Base s' L E.
  Proof.
    intros C Hdk Hchg Hcx Hfh. pose proof C as (B & HL & Hc). constructor; unfold fsize; rewrite ?Hdk, ?Hchg, ?Hfh.
    - apply (b_hdr _ _ _ B).
    - apply (b_size _ _ _ B).
    - apply (b_nE _ _ _ B).
    - apply (b_nodup _ _ _ B).
    - apply (b_ge2 _ _ _ B).
    - exact Hcx.
    - intros j Hj. left. apply (cb_ext s L E j C Hj).
    - intros k Hk. right. apply (cb_data s L E k C Hk).
    - discriminate.
  Qed.

  (* a clean state whose buffer holds block k of the file *)
  Lemma inv_loaded t s' L E k : CB t L E -> dk s' = dk t -> chg s' = false -> cext_ok s' L E -> fh s' = fh t ->
    0 <= k < len L -> cur s' = nthZ L k -> ndb s' = k + 1 -> pos s' = k * bs + pind s' -> 0 <= pind s' <= bs -> pos s' <= fsize t ->
    dk t (nthZ L k) = BData (cdata s') -> ext_cursor s' L E k -> Inv s' L E.
  Proof.
    intros C Hdk Hchg Hcx Hfh Hk Hcur Hndb Hpos Hpi Hle Hcd Hxc. pose proof C as (B & HL & Hc).
    destruct (cb_data t L E k C Hk) as (d & Hd & Hlen & Hnx). rewrite Hd in Hcd. inversion Hcd; subst d.
    split; [apply (cb_frame t); assumption|]. split; [unfold fsize; rewrite Hfh; exact HL|].
    right. rewrite Hndb. replace (k + 1 - 1) with k by lia. unfold fsize. rewrite Hfh.
    splits; try assumption; try lia.
    - intros _. rewrite Hcur, Hdk. exact Hd.
  Qed.

  Lemma repr_clean s s' L E ct : Inv s L E -> chg s = false -> Inv s' L E -> chg s' = false -> dk s' = dk s -> fh s' = fh s -> Repr s L ct -> Repr s' L ct.
  Proof.
    intros I Hc I' Hc' Hdk Hfh R. apply (repr_same s s' L ct).
    - unfold fsize. rewrite Hfh. reflexivity.
    - destruct I as (_ & HL & _). exact HL.
    - intros k Hk. destruct (clean_disk s L E k I Hc Hk) as (d & H1 & _ & _ & H4).
      destruct (clean_disk s' L E k I' Hc' Hk) as (d' & H1' & _ & _ & H4'). rewrite Hdk, H1 in H1'. assert (Hdd : d' = d) by congruence.
      rewrite H4, H4', Hdd. reflexivity.
    - exact R.
  Qed.

  Lemma inv_cb s L E : Inv s L E -> chg s = false -> CB s L E.
  Proof. intros (B & HL & _) Hc. split; [assumption|split; assumption]. Qed.

  Lemma len_pos_of_size s L E : CB s L E -> fsize s <> 0 -> 0 < len L /\ 0 < fsize s.
  Proof.
    intros (B & HL & _) Hz. pose proof (b_size _ _ _ B). assert (0 < fsize s) by lia. split; [|assumption].
    rewrite HL. apply size2db_pos; assumption.
  Qed.

  (* ---- adfFileSeekStart_ on a clean state ---- *)
  Lemma seek_start_cb s L E : CB s L E -> cext_ok s L E -> len (d_bytes (cdata s)) = bs ->
    exists s', seek_start bs ofs nobad s = (true, s') /\ Inv s' L E /\ pos s' = 0 /\ chg s' = false
      /\ dk s' = dk s /\ fh s' = fh s /\ mw s' = mw s /\ mr s' = mr s /\ (fsize s <> 0 -> ndb s' = 1 /\ pind s' = 0 /\ cur s' <> 0).
  Proof.
    intros C Hcx Hl0. pose proof C as (B & HL & Hc).
    unfold seek_start. set (s0 := set_cur (set_ndb (set_pind (set_pinx (set_pos s 0) 0) 0) 0) 0).
    assert (Hf0 : fsize s0 = fsize s) by reflexivity. rewrite Hf0.
    destruct (Z.eqb_spec (fsize s) 0) as [Hz|Hz].
    - assert (I0 : Inv s0 L E).
      { split; [apply (cb_frame s); try reflexivity; assumption|]. split; [exact HL|]. left. splits; try reflexivity; [exact Hz|exact Hl0]. }
      exists s0. splits; try reflexivity; try assumption; try contradiction.
    - destruct (len_pos_of_size s L E C Hz) as (HlL & Hsz).
      assert (B0 : Base s0 L E) by (apply (cb_frame s); try reflexivity; assumption).
      destruct (read_next_ok s0 L E B0 Hc ltac:(simpl; lia) ltac:(unfold ext_cursor; simpl; lia) ltac:(simpl; lia))
        as (sn & Hrn & Ndk & Npos & Npind & Nndb & Ncur & Ncd & Nlen & Nnx & Nchg & Nfh & Nmw & Nmr & Nxc & Ncx).
      rewrite Hrn. exists sn. simpl in *.
      assert (In_ : Inv sn L E).
      { apply (inv_loaded s sn L E 0 C); try assumption; try lia. }
      splits; try assumption; try reflexivity.
      intros _. splits; try lia. rewrite Ncur. pose proof (b_ge2 _ _ _ B (nthZ L 0) ltac:(apply in_or_app; left; apply in_L_nth; lia)). lia.
  Qed.

  Lemma seek_start_ok s L E ct : Inv s L E -> chg s = false -> Repr s L ct ->
    exists s', seek_start bs ofs nobad s = (true, s') /\ Inv s' L E /\ Repr s' L ct /\ pos s' = 0 /\ chg s' = false
      /\ dk s' = dk s /\ fh s' = fh s /\ mw s' = mw s /\ mr s' = mr s /\ (fsize s <> 0 -> ndb s' = 1 /\ pind s' = 0 /\ cur s' <> 0).
  Proof.
    intros I Hc R. pose proof I as (B & _ & Cu).
    assert (Hl0 : len (d_bytes (cdata s)) = bs) by (destruct Cu as [(_ & _ & _ & _ & _ & Hl0)|(_ & _ & _ & _ & _ & Hl0 & _)]; exact Hl0).
    destruct (seek_start_cb s L E (inv_cb s L E I Hc) (b_cext _ _ _ B) Hl0) as (s' & H1 & I' & P' & C' & D' & F' & W' & M' & N').
    exists s'. splits; try assumption. apply (repr_clean s s' L E ct); assumption.
  Qed.

  (* ---- adfPos2DataBlock, adfFileReadExtBlockN ---- *)
  Lemma pos2db_spec p : 0 <= p -> let k := p / bs in
    pos2db p bs = if k <? 72 then (-1, 0, p mod bs, k) else ((k - 72) / 72, (k - 72) mod 72, p mod bs, k).
  Proof.
    intros Hp k. unfold pos2db, MAXDB. fold k. destruct (Z.ltb_spec k 72); [reflexivity|].
    assert (Ho : (p - bs * 72) / bs = k - 72).
    { replace (p - bs * 72) with (p + (-72) * bs) by lia. rewrite Z.div_add by lia. subst k. lia. }
    rewrite <- Z.div_div by lia. rewrite Ho. reflexivity.
  Qed.

  Lemma ext_walk_ok L E ext : forall fuel s i,
    (forall j, 0 <= j < len E -> dk s (nthZ E j) = BExt (enc_x L E j)) -> (forall j, 0 <= j < len E -> 2 <= nthZ E j) ->
    -1 <= i <= ext -> ext < len E -> Z.of_nat fuel = ext - i ->
    ext_walk nobad fuel s (nthZ E (i + 1)) i ext = (true, (if i <? ext then set_cext s (Some (enc_x L E ext)) else s), ext).
  Proof.
    induction fuel as [|fuel IH]; intros s i Hx Hge Hi He Hf.
    - assert (i = ext) by lia. subst i. simpl. rewrite Z.ltb_irrefl. reflexivity.
    - assert (Hlt : i < ext) by lia. cbn [ext_walk]. destruct (Z.ltb_spec i ext); [|lia].
      pose proof (Hge (i + 1) ltac:(lia)). destruct (Z.eqb_spec (nthZ E (i + 1)) 0); [lia|]. cbn [andb negb].
      unfold rd_ext, nobad. rewrite (Hx (i + 1)) by lia. fold nobad.
      specialize (IH (set_cext s (Some (enc_x L E (i + 1)))) (i + 1) Hx Hge ltac:(lia) He ltac:(lia)).
      change (x_ext (enc_x L E (i + 1))) with (nthZ E (i + 1 + 1)). rewrite IH. destruct (Z.ltb_spec (i + 1) ext).
      + reflexivity.
      + assert (i + 1 = ext) by lia. subst ext. reflexivity.
  Qed.

  Lemma size2ext_len s L E : CB s L E -> size2ext (fsize s) bs = len E.
  Proof. intros (B & HL & _). unfold size2ext. rewrite <- HL. symmetry. apply (b_nE _ _ _ B). Qed.

  Lemma read_ext_n_ok t s L E ext : CB t L E -> dk s = dk t -> fh s = fh t -> 0 <= ext < len E ->
    read_ext_n bs nobad s ext = (true, set_cext s (Some (enc_x L E ext))).
  Proof.
    intros C Hdk Hfh He. pose proof C as (B & HL & Hc). unfold read_ext_n. unfold fsize. rewrite Hfh. fold (fsize t). rewrite (size2ext_len t L E C).
    destruct (Z.ltb_spec ext 0); [lia|]. destruct (Z.ltb_spec (len E - 1) ext); [lia|]. cbn [orb].
    pose proof (b_hdr _ _ _ B) as (_ & _ & _ & _ & Hext). rewrite Hext. replace 0 with (-1 + 1) at 1 by lia.
    rewrite (ext_walk_ok L E ext (Z.to_nat (ext + 1)) s (-1)); try lia.
    - destruct (Z.ltb_spec (-1) ext); [|lia]. rewrite Z.eqb_refl. reflexivity.
    - intros j Hj. rewrite Hdk. apply (cb_ext t L E j C Hj).
    - intros j Hj. apply (b_ge2 _ _ _ B). apply in_or_app. right. apply in_E_nth. assumption.
  Qed.

  (* ---- adfFileSeekExt_ for a position inside the file, on a clean state ---- *)
  Lemma lenE_bound s L E k : CB s L E -> 72 <= k < len L -> 0 <= (k - 72) / 72 < len E.
  Proof. intros (B & _) Hk. rewrite (lenE_of s L E B). destruct (Z.ltb_spec (len L) 1); lia. Qed.

  Lemma seek_mid_ok t L E : CB t L E -> 0 <= pos t < fsize t -> cext_ok t L E ->
    exists s', seek_mid bs nobad t = (true, s') /\ Inv s' L E /\ pos s' = pos t /\ chg s' = false /\ dk s' = dk t /\ fh s' = fh t /\ mw s' = mw t /\ mr s' = mr t
      /\ ndb s' = pos t / bs + 1 /\ pind s' = pos t mod bs /\ cur s' <> 0.
  Proof.
    intros C Hp Hcx. pose proof C as (B & HL & Hc). set (p := pos t) in *. set (k := p / bs).
    assert (Hk : 0 <= k < len L) by (subst k; rewrite HL; apply idx_in_range; lia).
    assert (Hpm : 0 <= p mod bs < bs) by (apply Z.mod_pos_bound; lia).
    assert (Hpk : p = k * bs + p mod bs) by (subst k; pose proof (Z.div_mod p bs ltac:(lia)); lia).
    destruct (cb_data t L E k C Hk) as (d & Hd & Hlen & Hnx).
    assert (Hge : 2 <= nthZ L k) by (apply (b_ge2 _ _ _ B); apply in_or_app; left; apply in_L_nth; assumption).
    assert (Hrd : forall u, dk u = dk t -> rd_data bs nobad u (nthZ L k) = Some d).
    { intros u Hu. unfold rd_data, nobad. rewrite Hu, Hd. destruct (Z.ltb_spec (nthZ L k) 1); [lia|]. reflexivity. }
    pose proof (b_hdr _ _ _ B) as (_ & Htab & _).
    unfold seek_mid. fold p. rewrite (pos2db_spec p ltac:(lia)). fold k.
    destruct (Z.ltb_spec k 72) as [H72|H72].
    - (* the header table *)
      cbn -[Z.ltb Z.eqb nthZ]. rewrite Htab. rewrite nthZ_subZ by lia. replace (0 + k) with k by lia.
      change (-1 =? -1) with true. cbn -[Z.ltb Z.eqb nthZ].
      destruct (Z.ltb_spec (nthZ L k) 2); [lia|]. rewrite Hrd by reflexivity.
      eexists. split; [reflexivity|]. cbn -[nthZ]. splits; try reflexivity; try assumption; try lia.
      apply (inv_loaded t _ L E k C); cbn -[nthZ]; try reflexivity; try assumption; try lia.
      unfold ext_cursor. lia.
    - (* an extension block *)
      set (ext := (k - 72) / 72). set (px := (k - 72) mod 72).
      assert (He : 0 <= ext < len E) by (apply (lenE_bound t L E k C); lia).
      assert (Hne : (ext =? -1) = false) by (destruct (Z.eqb_spec ext (-1)); [lia|reflexivity]).
      cbn -[Z.ltb Z.eqb nthZ read_ext_n]. rewrite Hne.
      assert (Hslot : nthZ (x_tab (enc_x L E ext)) px = nthZ L k).
      { unfold enc_x. cbn [x_tab]. rewrite nthZ_subZ by (subst px; lia). f_equal. subst px ext. lia. }
      set (t1 := set_ndb (set_pind (set_pinx t px) (p mod bs)) k).
      set (t2 := match cext t with Some _ => t1 | None => set_cext t1 (Some zero_x) end).
      assert (Hrx : read_ext_n bs nobad t2 ext = (true, set_cext t2 (Some (enc_x L E ext)))).
      { apply (read_ext_n_ok t t2 L E ext C); try assumption; subst t2 t1; cbn; destruct (cext t); reflexivity. }
      rewrite Hrx. cbn -[Z.ltb Z.eqb nthZ enc_x]. unfold cx. cbn -[Z.ltb Z.eqb nthZ enc_x].
      assert (Hpx2 : pinx t2 = px) by (subst t2 t1; cbn; destruct (cext t); reflexivity).
      rewrite Hpx2, Hslot. destruct (Z.ltb_spec (nthZ L k) 2); [lia|].
      rewrite Hrd by (subst t2 t1; cbn; destruct (cext t); reflexivity).
      eexists. split; [reflexivity|]. cbn -[nthZ enc_x].
      assert (Hf2 : dk t2 = dk t /\ fh t2 = fh t /\ mw t2 = mw t /\ mr t2 = mr t /\ chg t2 = chg t /\ pos t2 = pos t /\ ndb t2 = k /\ pind t2 = p mod bs)
        by (subst t2 t1; cbn; destruct (cext t); splits; reflexivity).
      destruct Hf2 as (F1 & F2 & F3 & F4 & F5 & F6 & F7 & F8). rewrite ?F1, ?F2, ?F3, ?F4, ?F5, ?F6, ?F7, ?F8.
      splits; try reflexivity; try assumption; try lia.
      apply (inv_loaded t _ L E k C); cbn -[nthZ enc_x]; rewrite ?F1, ?F2, ?F5, ?F6, ?F7, ?F8; try reflexivity; try assumption; try lia.
      + unfold cext_ok. cbn -[enc_x]. right. exists ext. split; [assumption|reflexivity].
      + unfold ext_cursor. cbn -[enc_x]. intros _. split; reflexivity.
  Qed.

  (* ---- adfFileSeek ---- *)
  Definition seek_tail (eofk : hstate -> bool * hstate) (s : hstate) (p : Z) : bool * hstate :=
    let curDatablock := if 0 <? ndb s then ndb s - 1 else 0 in
    if negb (cur s =? 0) && (curDatablock =? p / bs) then
      let p' := Z.min p (fsize s) in (true, set_pind (set_pos s p') (p' mod bs))
    else
      let s1 := settle s in
      if p =? 0 then seek_start bs ofs nobad s1 else
      let s2 := set_pos s1 (Z.min p (fsize s1)) in
      seek_fb bs ofs nobad eofk (if pos s2 =? fsize s2 then eofk s2 else seek_mid bs nobad s2) p.

  (* a seek whose extension-block walk succeeded does not fall back *)
  Lemma seek_fb_ok eofk t p : seek_fb bs ofs nobad eofk (true, t) p = (true, t).
  Proof. reflexivity. Qed.

  Lemma seek_gen_unfold eofk s p :
    seek_gen bs ofs nobad eofk s p = if (pos s =? p) && negb (cur s =? 0) && negb (pind s =? bs) then (true, s) else seek_tail eofk s p.
  Proof. reflexivity. Qed.

  Lemma seek_tail_pos_irrel eofk s q p : chg s = false -> seek_tail eofk (set_pos s q) p = seek_tail eofk s p.
  Proof.
    intros Hc. unfold seek_tail, settle. cbn -[Z.ltb Z.eqb Z.min seek_start seek_mid]. rewrite Hc, andb_false_r.
    destruct (negb (cur s =? 0) && ((if 0 <? ndb s then ndb s - 1 else 0) =? p / bs)); [reflexivity|].
    destruct (p =? 0); [reflexivity|]. reflexivity.
  Qed.

  Definition seek_post (s s' : hstate) (L E ct : list Z) (p : Z) : Prop :=
    Inv s' L E /\ Repr s' L ct /\ pos s' = p /\ fh s' = fh s /\ mw s' = mw s /\ mr s' = mr s.

  Lemma normal_facts s L E : Inv s L E -> cur s <> 0 ->
    cur s = nthZ L (ndb s - 1) /\ 1 <= ndb s <= len L /\ pos s = (ndb s - 1) * bs + pind s /\ 0 <= pind s <= bs /\ pos s <= fsize s.
  Proof. intros (_ & _ & [(_ & Hz & _)|(H1 & H2 & H3 & H4 & H5 & _)]) Hc; [contradiction|]. splits; try assumption; lia. Qed.

  Lemma last_block_bound s L E : Inv s L E -> 0 < len L -> (len L - 1) * bs < fsize s <= len L * bs.
  Proof.
    intros (B & HL & _) Hl. destruct (size2db_spec (fsize s) (b_size _ _ _ B)) as [Hs|[_ Hs]]; [|lia]. rewrite <- HL in Hs. exact Hs.
  Qed.

  Lemma seek_tail_ok eofk s L E ct p : Inv s L E -> Repr s L ct -> 0 <= p < fsize s ->
    exists s', seek_tail eofk s p = (true, s') /\ seek_post s s' L E ct p /\ cur s' <> 0 /\ ndb s' = p / bs + 1 /\ pind s' = p mod bs.
  Proof.
    intros I R Hp. unfold seek_tail.
    assert (Hpm : 0 <= p mod bs < bs) by (apply Z.mod_pos_bound; lia).
    assert (Hpk : p = p / bs * bs + p mod bs) by (pose proof (Z.div_mod p bs ltac:(lia)); lia).
    destruct (negb (cur s =? 0) && ((if 0 <? ndb s then ndb s - 1 else 0) =? p / bs)) eqn:Hsame.
    - (* the position lies in the buffered block *)
      apply andb_prop in Hsame. destruct Hsame as (Hc & Hk). destruct (Z.eqb_spec (cur s) 0) as [|Hc']; [discriminate|].
      destruct (normal_facts s L E I Hc') as (Hcu & Hn & Hpos & Hpi & Hle).
      destruct (Z.ltb_spec 0 (ndb s)); [|lia]. apply Z.eqb_eq in Hk.
      replace (Z.min p (fsize s)) with p by lia. eexists. split; [reflexivity|]. pose proof I as (B & HL & C).
      unfold seek_post. cbn. splits; try reflexivity; try assumption; try lia.
      + split; [apply (base_frame s); try reflexivity; assumption|]. split; [exact HL|].
        destruct C as [(_ & Hz & _)|(_ & _ & _ & _ & _ & Hlen & Hcl & Hnx & Hxc)]; [contradiction|]. right. cbn. splits; try assumption; try lia. unfold fsize in *. cbn. lia.
    - destruct (settle_ok s L E I) as (I1 & Hcl & (Spos & Spinx & Spind & Sndb & Scur & Scext & Sfh & Smw & Smr & Sby & Snx) & Htr).
      set (s1 := settle s) in *.
      assert (R1 : Repr s1 L ct) by (apply (repr_same s s1 L ct); [unfold fsize; rewrite Sfh; reflexivity|destruct I as (_ & HL & _); exact HL|exact Htr|exact R]).
      assert (Hf1 : fsize s1 = fsize s) by (unfold fsize; rewrite Sfh; reflexivity).
      destruct (Z.eqb_spec p 0) as [H0|H0].
      + subst p. destruct (seek_start_ok s1 L E ct I1 Hcl R1) as (s' & Hss & I' & R' & P' & C' & D' & F' & W' & M' & N').
        exists s'. split; [exact Hss|]. destruct (N' ltac:(lia)) as (N1 & N2 & N3). rewrite Z.div_0_l, Z.mod_0_l by lia.
        unfold seek_post. splits; try assumption; try congruence.
      + cbv zeta. rewrite Hf1. replace (Z.min p (fsize s)) with p by lia.
        change (pos (set_pos s1 p)) with p. change (fsize (set_pos s1 p)) with (fsize s1). rewrite Hf1.
        destruct (Z.eqb_spec p (fsize s)); [lia|].
        pose proof I1 as (B1 & HL1 & _).
        assert (C2 : CB (set_pos s1 p) L E) by (split; [apply (base_frame s1); try reflexivity; assumption|split; [exact HL1|exact Hcl]]).
        destruct (seek_mid_ok (set_pos s1 p) L E C2 ltac:(change (pos (set_pos s1 p)) with p; change (fsize (set_pos s1 p)) with (fsize s1); lia) (b_cext _ _ _ B1))
          as (s' & Hsm & I' & P' & C' & D' & F' & W' & M' & N1 & N2 & N3).
        exists s'. split; [rewrite Hsm; apply seek_fb_ok|]. cbn in *. unfold seek_post. splits; try assumption; try congruence.
        apply (repr_clean s1 s' L E ct); assumption.
  Qed.

  (* ---- adfFileSeekEOF_ on a clean state whose position has just been set to the end ---- *)
  Lemma seek_eof_ok s1 L E ct : Inv s1 L E -> chg s1 = false -> Repr s1 L ct -> 0 < fsize s1 ->
    exists s', seek_eof bs ofs nobad (set_pos s1 (fsize s1)) = (true, s') /\ seek_post s1 s' L E ct (fsize s1).
  Proof.
    intros I Hc R Hsz. unfold seek_eof. change (fsize (set_pos s1 (fsize s1))) with (fsize s1).
    destruct (Z.eqb_spec (fsize s1) 0); [lia|]. rewrite seek_gen_unfold.
    change (pos (set_pos s1 (fsize s1))) with (fsize s1). destruct (Z.eqb_spec (fsize s1) (fsize s1 - 1)); [lia|]. cbn [andb].
    rewrite (seek_tail_pos_irrel _ s1 (fsize s1) (fsize s1 - 1) Hc).
    destruct (seek_tail_ok (fun t => (false, t)) s1 L E ct (fsize s1 - 1) I R ltac:(lia)) as (s2 & Hst & (I2 & R2 & P2 & F2 & W2 & M2) & C2 & N2 & Pi2).
    rewrite Hst. cbn [negb]. eexists. split; [reflexivity|].
    assert (Hf2 : fsize s2 = fsize s1) by (unfold fsize; rewrite F2; reflexivity).
    set (sz := fsize s1) in *. rewrite Hf2.
    pose proof I2 as (B2 & HL2 & Cu2).
    (* the last block: index (sz-1)/bs *)
    assert (Hm : 0 <= sz mod bs < bs) by (apply Z.mod_pos_bound; lia).
    pose proof (Z.div_mod sz bs ltac:(lia)) as Hdm. pose proof (Z.div_mod (sz - 1) bs ltac:(lia)) as Hdm1.
    pose proof (Z.mod_pos_bound (sz - 1) bs Hbs) as Hm1.
    set (pe := if sz mod bs =? 0 then bs else sz mod bs).
    assert (Hpe : sz = (sz - 1) / bs * bs + pe /\ 0 < pe <= bs).
    { subst pe. destruct (Z.eqb_spec (sz mod bs) 0) as [Hz|Hz].
      - assert ((sz - 1) / bs = sz / bs - 1) by (symmetry; apply (Z.div_unique_pos _ _ _ (bs - 1)); lia). split; nia.
      - assert ((sz - 1) / bs = sz / bs) by (symmetry; apply (Z.div_unique_pos _ _ _ (sz mod bs - 1)); lia). split; nia. }
    unfold seek_post. cbn. splits; try assumption; try reflexivity.
    - split; [apply (base_frame s2); try reflexivity; assumption|]. split; [exact HL2|].
      destruct Cu2 as [(_ & Hz & _)|(Hcu & Hn & Hp & Hpi & Hle & Hlen & Hcl & Hnx & Hxc)]; [contradiction|].
      right. unfold fsize in *. cbn. rewrite N2 in *. replace ((sz - 1) / bs + 1 - 1) with ((sz - 1) / bs) in * by lia.
      splits; try assumption; try lia.
  Qed.

  Theorem fio_seek_ok s L E ct p : Inv s L E -> Repr s L ct -> 0 <= p ->
    exists s', fio_seek bs ofs nobad s p = (true, s') /\ seek_post s s' L E ct (Z.min p (fsize s)).
  Proof.
    intros I R Hp. pose proof I as (B & HL & C). pose proof (b_size _ _ _ B) as Hsz.
    unfold fio_seek. rewrite seek_gen_unfold.
    destruct ((pos s =? p) && negb (cur s =? 0) && negb (pind s =? bs)) eqn:H1.
    { apply andb_prop in H1. destruct H1 as (H1 & _). apply andb_prop in H1. destruct H1 as (H1 & H2). apply Z.eqb_eq in H1.
      destruct (Z.eqb_spec (cur s) 0) as [|Hc]; [discriminate|]. destruct (normal_facts s L E I Hc) as (_ & _ & _ & _ & Hle).
      exists s. split; [reflexivity|]. unfold seek_post. splits; try assumption; try reflexivity. lia. }
    destruct (Z.ltb_spec p (fsize s)) as [Hlt|Hge].
    { destruct (seek_tail_ok (seek_eof bs ofs nobad) s L E ct p I R ltac:(lia)) as (s' & Hst & Hpost & _).
      exists s'. split; [exact Hst|]. replace (Z.min p (fsize s)) with p by lia. exact Hpost. }
    (* at or beyond the end of the file *)
    replace (Z.min p (fsize s)) with (fsize s) by lia. unfold seek_tail.
    destruct (negb (cur s =? 0) && ((if 0 <? ndb s then ndb s - 1 else 0) =? p / bs)) eqn:Hsame.
    - apply andb_prop in Hsame. destruct Hsame as (Hc & Hk). destruct (Z.eqb_spec (cur s) 0) as [|Hc']; [discriminate|].
      destruct (normal_facts s L E I Hc') as (Hcu & Hn & Hpos & Hpi & Hle).
      destruct (Z.ltb_spec 0 (ndb s)); [|lia]. apply Z.eqb_eq in Hk.
      replace (Z.min p (fsize s)) with (fsize s) by lia. eexists. split; [reflexivity|].
      pose proof (last_block_bound s L E I ltac:(lia)) as Hlb.
      assert (Hpb : p / bs * bs <= p < p / bs * bs + bs) by (pose proof (Z.div_mod p bs ltac:(lia)); pose proof (Z.mod_pos_bound p bs Hbs); lia).
      assert (Hq : fsize s / bs = ndb s - 1 /\ fsize s mod bs = fsize s - (ndb s - 1) * bs).
      { assert (Hr : 0 <= fsize s - (ndb s - 1) * bs < bs) by nia.
        split; [symmetry; apply (Z.div_unique_pos _ _ _ (fsize s - (ndb s - 1) * bs)); lia|symmetry; apply (Z.mod_unique_pos _ _ (ndb s - 1)); lia]. }
      destruct Hq as (Hq1 & Hq2).
      unfold seek_post. cbn. splits; try reflexivity; try assumption.
      split; [apply (base_frame s); try reflexivity; assumption|]. split; [exact HL|].
      destruct C as [(_ & Hz & _)|(_ & _ & _ & _ & _ & Hlen & Hcl & Hnx & Hxc)]; [contradiction|]. right. unfold fsize in *. cbn. rewrite Hq2.
      splits; try assumption; try lia; nia.
    - destruct (settle_ok s L E I) as (I1 & Hcl & (Spos & Spinx & Spind & Sndb & Scur & Scext & Sfh & Smw & Smr & Sby & Snx) & Htr).
      set (s1 := settle s) in *.
      assert (R1 : Repr s1 L ct) by (apply (repr_same s s1 L ct); [unfold fsize; rewrite Sfh; reflexivity|exact HL|exact Htr|exact R]).
      assert (Hf1 : fsize s1 = fsize s) by (unfold fsize; rewrite Sfh; reflexivity).
      destruct (Z.eqb_spec p 0) as [H0|H0].
      + assert (Hz : fsize s = 0) by lia. destruct (seek_start_ok s1 L E ct I1 Hcl R1) as (s' & Hss & I' & R' & P' & C' & D' & F' & W' & M' & _).
        exists s'. split; [exact Hss|]. unfold seek_post. splits; try assumption; try congruence.
      + cbv zeta. rewrite Hf1. replace (Z.min p (fsize s)) with (fsize s) by lia.
        change (pos (set_pos s1 (fsize s))) with (fsize s). change (fsize (set_pos s1 (fsize s))) with (fsize s1). rewrite Hf1, Z.eqb_refl.
        assert (G : exists s', seek_eof bs ofs nobad (set_pos s1 (fsize s)) = (true, s') /\ seek_post s s' L E ct (fsize s)).
        { destruct (Z.eq_dec (fsize s) 0) as [Hz|Hz].
        * (* empty file *)
          unfold seek_eof. change (fsize (set_pos s1 (fsize s))) with (fsize s1). rewrite Hf1. destruct (Z.eqb_spec (fsize s) 0); [|contradiction].
          pose proof I1 as (B1 & HL1 & C1).
          assert (I2 : Inv (set_pos s1 (fsize s)) L E).
          { split; [apply (base_frame s1); try reflexivity; assumption|]. split; [exact HL1|].
            destruct C1 as [(Hz1 & Hcu & Hp1 & Hn1 & Hpi1 & Hl1)|(_ & Hn1 & _)].
            - left. cbn. splits; try assumption.
            - exfalso. destruct (empty_L s1 L E I1 ltac:(lia)) as (-> & _). unfold len in Hn1. simpl in Hn1. lia. }
          destruct (seek_start_ok (set_pos s1 (fsize s)) L E ct I2 Hcl) as (s' & Hss & I' & R' & P' & C' & D' & F' & W' & M' & _).
          { apply (repr_frame s1); try reflexivity. exact R1. }
          exists s'. split; [exact Hss|]. unfold seek_post. cbn in *. splits; try assumption; try congruence.
        * rewrite <- Hf1. destruct (seek_eof_ok s1 L E ct I1 Hcl R1 ltac:(lia)) as (s' & Hse & (I' & R' & P' & F' & W' & M')).
          exists s'. split; [exact Hse|]. unfold seek_post. splits; try assumption; try congruence. }
        destruct G as (s' & Hse & Hpost). exists s'. split; [rewrite Hse; apply seek_fb_ok|exact Hpost].
  Qed.

  (* ---- adfFileSeekOFS_ (the fallback walk along the data blocks) on a healthy device: from the start of the file it reaches any position
          inside the file with a coherent handle - the same place and content the table-driven seek reaches ---- *)
  Lemma ofs_walk_ok L E ct target : forall fuel s offset, Inv s L E -> Repr s L ct -> chg s = false -> cur s <> 0 -> pos s = offset ->
    offset <= target < fsize s -> 0 <= pind s < bs ->
    (offset < target -> (target - offset) + pind s < Z.of_nat fuel * bs) ->
    exists s', ofs_walk bs ofs nobad fuel s offset target = (true, s') /\ Inv s' L E /\ Repr s' L ct /\ pos s' = target /\ cur s' <> 0 /\ chg s' = false
      /\ fh s' = fh s /\ mw s' = mw s /\ mr s' = mr s /\ 0 <= pind s' < bs.
  Proof.
    induction fuel as [|fuel IH]; intros s offset I R Hc Hcu Hp Ht Hpi Hfuel.
    - assert (offset = target) by (destruct (Z.eq_dec offset target); [assumption|]; specialize (Hfuel ltac:(lia)); simpl in Hfuel; lia).
      exists s. cbn [ofs_walk]. splits; try reflexivity; try assumption; lia.
    - cbn [ofs_walk]. destruct (Z.ltb_spec offset target) as [Hlt|Hge].
      2:{ exists s. splits; try reflexivity; try assumption; lia. }
      specialize (Hfuel Hlt). rewrite Nat2Z.inj_succ in Hfuel.
      set (size := Z.min (target - offset) (bs - pind s)).
      assert (Hsz : 0 < size /\ size <= target - offset /\ pind s + size <= bs) by (subst size; lia).
      set (s1 := set_pind (set_pos s (pos s + size)) (pind s + size)).
      assert (I1 : Inv s1 L E).
      { destruct I as (B & HL & C'). split; [|split].
        - apply (base_frame s); try reflexivity. assumption.
        - exact HL.
        - destruct C' as [(_ & Hz0 & _)|(Hcu' & Hnn & Hp' & Hpi' & Hps & Hlen & Hcl & Hnx & Hxc)]; [contradiction|].
          right. subst s1. unfold fsize, ext_cursor in *. simpl. splits; try assumption; try lia. }
      assert (R1 : Repr s1 L ct) by (apply (repr_frame s); try reflexivity; assumption).
      change (pind s1) with (pind s + size).
      destruct (Z.eqb_spec (pind s + size) bs) as [Hb|Hb].
      + (* the end of the buffered block: the next one is fetched (the target lies inside the file) *)
        destruct (advance_ok s1 L E ct I1 R1 Hcu Hb ltac:(subst s1; unfold fsize in *; simpl; lia)) as (sn & Hrn & I2 & R2 & P2 & C2 & Pi2 & F2 & W2 & M2 & Cn).
        assert (Hset : settle s1 = s1) by (unfold settle; change (chg s1) with (chg s); rewrite Hc, andb_false_r; reflexivity).
        rewrite Hset in Hrn. rewrite Hrn.
        assert (Heq : set_pind sn 0 = set_chg (set_pind sn 0) false) by (apply state_ext; try reflexivity; cbn; exact Cn).
        rewrite Heq. set (s2 := set_chg (set_pind sn 0) false) in *.
        destruct (IH s2 (offset + size) I2 R2 ltac:(reflexivity) C2 ltac:(rewrite P2; subst s1; simpl; lia) ltac:(unfold fsize in *; rewrite F2; simpl; lia)
                     ltac:(rewrite Pi2; lia) ltac:(intros _; rewrite Pi2; lia))
          as (s3 & Hw & I3 & R3 & P3 & C3 & Cg3 & F3 & W3 & M3 & Pi3).
        exists s3. splits; try assumption; try lia; [rewrite F3, F2|rewrite W3, W2|rewrite M3, M2]; reflexivity.
      + (* the target lies inside the buffered block *)
        assert (Hoff : offset + size = target) by (subst size; lia).
        destruct fuel as [|fuel']; [exists s1; cbn [ofs_walk]; splits; try reflexivity; try assumption; subst s1; simpl; lia|].
        cbn [ofs_walk]. destruct (Z.ltb_spec (offset + size) target); [lia|]. exists s1. splits; try reflexivity; try assumption; subst s1; simpl; lia.
  Qed.

  (* started from ANY clean state of the handle (cursor fields arbitrary - e.g. what a failed extension-block seek left) whose volume and
     header are those of a coherent state *)
  Theorem seek_ofs_ok eofk s t L E ct p : Inv t L E -> chg t = false -> Repr t L ct -> CB s L E -> len (d_bytes (cdata s)) = bs ->
    dk s = dk t -> fh s = fh t -> 0 <= p < fsize s ->
    exists s', seek_ofs bs ofs nobad eofk s p = (true, s') /\ Inv s' L E /\ Repr s' L ct /\ pos s' = p /\ cur s' <> 0.
  Proof.
    intros It Hct Rt C Hl Hdk Hfh Hp. pose proof C as (B & HL & Hc).
    destruct (seek_start_cb s L E C (b_cext _ _ _ B) Hl) as (s0 & Hss & I0 & P0 & C0 & D0 & F0 & W0 & M0 & N0).
    unfold seek_ofs. rewrite Hss. cbn [negb].
    assert (Hf0 : fsize s0 = fsize s) by (unfold fsize; rewrite F0; reflexivity).
    rewrite Hf0. replace (Z.min p (fsize s)) with p by lia. destruct (Z.eqb_spec p (fsize s)); [lia|].
    destruct (N0 ltac:(lia)) as (N1 & N2 & N3).
    assert (R0 : Repr s0 L ct) by (apply (repr_clean t s0 L E ct); try assumption; congruence).
    destruct (ofs_walk_ok L E ct p (Z.to_nat (p / bs + 2)) s0 0 I0 R0 C0 N3 P0 ltac:(lia) ltac:(lia)) as (s' & Hw & I' & R' & P' & C' & _).
    { intros _. rewrite N2. pose proof (Z.div_mod p bs ltac:(lia)). pose proof (Z.mod_pos_bound p bs Hbs). pose proof (Z.div_pos p bs ltac:(lia) Hbs).
      rewrite Z2Nat.id by lia. nia. }
    exists s'. splits; assumption.
  Qed.

  (* ---- adfFileWrite: the copy into the buffered block ---- *)
  Lemma base_dirty s L E : Base s L E -> mw s = true -> Base (set_chg s true) L E.
  Proof.
    intros B Hw. constructor; simpl; try (apply B).
    - intros j Hj. destruct (b_xdisk _ _ _ B j Hj) as [H|(_ & H)]; [left; exact H|right; split; [reflexivity|exact H]].
    - intros k Hk. destruct (b_ddisk _ _ _ B k Hk) as [(H & _)|H]; [left; split; [exact H|reflexivity]|right; exact H].
    - intros _. exact Hw.
  Qed.

  (* Base does not read pos, pinx, pind, the buffered data block, mr or the size field of the header *)
  Lemma base_frame2 s s' L E : dk s' = dk s -> cur s' = cur s -> ndb s' = ndb s -> chg s' = chg s -> cext s' = cext s -> mw s' = mw s ->
    hdr_ok (fh s') L E -> 0 <= fsize s' -> Base s L E -> Base s' L E.
  Proof.
    intros Hdk Hcur Hndb Hchg Hcext Hmw Hh Hsz B.
    assert (Hbuf : forall k, buffered s' k = buffered s k) by (intros k; unfold buffered; rewrite Hcur, Hndb; reflexivity).
    constructor; rewrite ?Hdk, ?Hchg, ?Hcext, ?Hmw.
    - exact Hh.
    - exact Hsz.
    - apply (b_nE _ _ _ B).
    - apply (b_nodup _ _ _ B).
    - apply (b_ge2 _ _ _ B).
    - apply (b_cext _ _ _ B).
    - apply (b_xdisk _ _ _ B).
    - intros k Hk. rewrite Hbuf. apply (b_ddisk _ _ _ B k Hk).
    - apply (b_chg _ _ _ B).
  Qed.

  Definition copy_step (s1 : hstate) (chunk : list Z) : hstate :=
    let d := set_d_bytes (cdata s1) (ovw (d_bytes (cdata s1)) (pind s1) chunk) in
    let p' := pos s1 + len chunk in
    set_fh (set_chg (set_pind (set_pos (set_cdata s1 d) p') (pind s1 + len chunk)) true) (set_h_size (fh s1) (Z.max (fsize s1) p')).

  Lemma copy_ok s1 L E ct chunk :
    Base (set_chg s1 true) L E -> mw s1 = true ->
    cur s1 = nthZ L (ndb s1 - 1) -> 1 <= ndb s1 <= len L -> pos s1 = (ndb s1 - 1) * bs + pind s1 -> 0 <= pind s1 -> pind s1 + len chunk <= bs -> 0 < len chunk ->
    pos s1 <= fsize s1 -> len (d_bytes (cdata s1)) = bs -> ext_cursor s1 L E (ndb s1 - 1) ->
    (ofs = true -> ndb s1 < len L -> d_next (cdata s1) = nthZ L (ndb s1)) ->
    len L = size2db (Z.max (fsize s1) (pos s1 + len chunk)) bs ->
    len ct = fsize s1 -> (forall i, 0 <= i < fsize s1 -> nthZ ct i = byte_at s1 L i) ->
    let s2 := copy_step s1 chunk in
    Inv s2 L E /\ Repr s2 L (ovw ct (pos s1) chunk) /\ pos s2 = pos s1 + len chunk /\ fsize s2 = Z.max (fsize s1) (pos s1 + len chunk)
    /\ mw s2 = mw s1 /\ mr s2 = mr s1 /\ chg s2 = true /\ cur s2 <> 0 /\ pind s2 = pind s1 + len chunk.
  Proof.
    intros B1 Hw Hcu Hn Hp Hpi Hfit Hc Hps Hlen Hxc Hnx HL Hlct Hr. cbv zeta.
    set (c := len chunk) in *. set (k0 := ndb s1 - 1) in *.
    assert (Hcur2 : 2 <= cur s1) by (rewrite Hcu; apply (b_ge2 _ _ _ B1); apply in_or_app; left; apply in_L_nth; lia).
    assert (Hpos0 : 0 <= pos s1) by nia.
    assert (B2 : Base (copy_step s1 chunk) L E).
    { apply (base_frame2 (set_chg s1 true)); try reflexivity; try assumption.
      - pose proof (b_hdr _ _ _ B1) as Hh. exact Hh.
      - unfold copy_step, fsize. cbn. pose proof (b_size _ _ _ B1) as Hz. unfold fsize in Hz. cbn in Hz. lia. }
    assert (Hsz2 : fsize (copy_step s1 chunk) = Z.max (fsize s1) (pos s1 + c)) by reflexivity.
    splits; try reflexivity.
    - split; [exact B2|]. split; [rewrite Hsz2; exact HL|].
      right. unfold copy_step. cbn -[Z.max]. fold c. fold k0.
      splits; try assumption; try lia.
      rewrite len_ovw_gen by lia. fold c. lia.
    - split.
      + rewrite len_ovw_gen by lia. fold c. rewrite Hsz2. lia.
      + intros i Hi. rewrite Hsz2 in Hi. rewrite nthZ_ovw_gen by lia. fold c.
        assert (Hbuf2 : forall k, buffered (copy_step s1 chunk) k = buffered s1 k) by (intros k; reflexivity).
        assert (Hbk0 : buffered s1 k0 = true) by (unfold buffered; subst k0; rewrite Z.eqb_refl, andb_true_r; destruct (Z.eqb_spec (cur s1) 0); [lia|reflexivity]).
        unfold byte_at.
        destruct (Z.leb_spec (pos s1) i) as [H1|H1]; destruct (Z.ltb_spec i (pos s1 + c)) as [H2|H2]; cbn [andb].
        * (* inside the chunk *)
          assert (Hd : i / bs = k0) by (replace i with (k0 * bs + (pind s1 + (i - pos s1))) by lia; apply div_block; lia).
          assert (Hm : i mod bs = pind s1 + (i - pos s1)) by (replace i with (k0 * bs + (pind s1 + (i - pos s1))) at 1 by lia; apply mod_block; lia).
          rewrite Hd, Hm. unfold truth_d. rewrite Hbuf2, Hbk0. unfold copy_step. cbn. rewrite nthZ_ovw_gen by lia. fold c.
          destruct (Z.leb_spec (pind s1) (pind s1 + (i - pos s1))); [|lia]. destruct (Z.ltb_spec (pind s1 + (i - pos s1)) (pind s1 + c)); [|lia].
          cbn [andb]. f_equal. lia.
        * (* behind the chunk: old bytes *)
          assert (Hi1 : i < fsize s1) by lia. rewrite (Hr i ltac:(lia)). unfold byte_at.
          unfold truth_d. rewrite Hbuf2. destruct (buffered s1 (i / bs)) eqn:Hb; [|reflexivity].
          unfold copy_step. cbn. rewrite nthZ_ovw_gen by lia. fold c.
          assert (Hd : i / bs = k0) by (unfold buffered in Hb; apply andb_prop in Hb; destruct Hb as (_ & Hb); apply Z.eqb_eq in Hb; exact Hb).
          assert (Hm : k0 * bs + i mod bs = i) by (pose proof (Z.div_mod i bs ltac:(lia)); rewrite Hd in *; lia).
          destruct (Z.leb_spec (pind s1) (i mod bs)); destruct (Z.ltb_spec (i mod bs) (pind s1 + c)); cbn [andb]; try reflexivity. lia.
        * (* before the chunk *)
          assert (Hi1 : i < fsize s1) by lia. rewrite (Hr i ltac:(lia)). unfold byte_at.
          unfold truth_d. rewrite Hbuf2. destruct (buffered s1 (i / bs)) eqn:Hb; [|reflexivity].
          unfold copy_step. cbn. rewrite nthZ_ovw_gen by lia. fold c.
          assert (Hd : i / bs = k0) by (unfold buffered in Hb; apply andb_prop in Hb; destruct Hb as (_ & Hb); apply Z.eqb_eq in Hb; exact Hb).
          assert (Hm : k0 * bs + i mod bs = i) by (pose proof (Z.div_mod i bs ltac:(lia)); rewrite Hd in *; lia).
          destruct (Z.leb_spec (pind s1) (i mod bs)); destruct (Z.ltb_spec (i mod bs) (pind s1 + c)); cbn [andb]; try reflexivity. lia.
        * lia.
    - unfold copy_step. cbn. lia.
  Qed.

  (* ---- adfFileCreateNextBlock ---- *)
  Definition fresh (L E : list Z) (b : Z) : Prop := 2 <= b /\ b <> key /\ ~ In b (L ++ E).

  Lemma at_eof_boundary s L E : Inv s L E -> pos s = fsize s -> pos s mod bs = 0 ->
    ndb s = len L /\ fsize s = len L * bs /\ (len L = 0 \/ (1 <= len L /\ pind s = bs /\ cur s = nthZ L (len L - 1) /\ cur s <> 0 /\ len (d_bytes (cdata s)) = bs)).
  Proof.
    intros I Hp Hm. pose proof I as (B & HL & [(Hz & Hc & Hp0 & Hn & Hpi & _)|(Hcu & Hn & Hpp & Hpi & Hle & Hlen & _)]).
    - rewrite Hz, size2db_0 in HL. splits; try lia.
    - assert (Hcz : 2 <= cur s) by (apply (cur_nonzero s L E I); lia).
      assert (Hpm : pind s = 0 \/ pind s = bs).
      { rewrite Hpp in Hm. destruct (Z.eq_dec (pind s) bs) as [|Hne]; [right; assumption|left]. assert (Hr0 : 0 <= pind s < bs) by (clear - Hpi Hne; lia). rewrite (mod_block _ _ Hr0) in Hm. exact Hm. }
      destruct (size2db_spec (fsize s) (b_size _ _ _ B)) as [Hs|[Hs Hs2]]; [|lia]. rewrite <- HL in Hs.
      destruct Hpm as [H0|Hb].
      + exfalso. nia.
      + assert (ndb s = len L) by nia. splits; try lia. right. splits; try assumption; try lia. congruence.
  Qed.

  Lemma finish_shape t n : 0 <= bs -> let t' := finish_create bs ofs t n in
    cur t' = n /\ ndb t' = ndb t + 1 /\ pos t' = pos t /\ pinx t' = pinx t /\ pind t' = pind t /\ chg t' = chg t /\ cext t' = cext t /\ fh t' = fh t
    /\ mw t' = mw t /\ mr t' = mr t
    /\ (forall k, dk t' k = if (bs <=? pos t) && (k =? cur t) then BData (if ofs then set_d_size (set_d_next (cdata t) n) bs else cdata t) else dk t k)
    /\ len (d_bytes (cdata t')) = (if ofs then bs else if bs <=? pos t then bs else len (d_bytes (cdata t)))
    /\ (ofs = true -> d_next (cdata t') = 0).
  Proof.
    intros H0. unfold finish_create. destruct ofs; destruct (bs <=? pos t); cbn -[Z.eqb]; splits; try reflexivity;
      try (intros k; destruct (k =? cur t); reflexivity); try (unfold len; rewrite zerosZ_length; lia); try discriminate.
  Qed.

  (* what appending block n (and extension block e when one is due) makes of the ghost lists *)
  Definition needs_x (n0 : Z) : bool := (72 <=? n0) && (n0 mod 72 =? 0).

  Lemma db2ext_snoc n0 : 0 <= n0 -> db2ext (n0 + 1) = db2ext n0 + (if needs_x n0 then 1 else 0).
  Proof.
    intros H. unfold db2ext, needs_x, MAXDB. destruct (Z.ltb_spec (n0 + 1) 1); [lia|]. replace (n0 + 1 - 1) with n0 by lia.
    destruct (Z.ltb_spec n0 1).
    - assert (n0 = 0) by lia. subst. reflexivity.
    - destruct (Z.leb_spec 72 n0); destruct (Z.eqb_spec (n0 mod 72) 0); cbn [andb]; lia.
  Qed.

  (* the data side of an append, whatever was done to the tables before: t is the state handed to finish_create *)
  Lemma append_data s t L E E' n ct :
    Inv s L E -> Repr s L ct -> mw s = true -> pos s = fsize s -> pos s mod bs = 0 ->
    fresh L E n -> len E' = db2ext (len L + 1) -> NoDup (key :: (L ++ [n]) ++ E') -> (forall b, In b ((L ++ [n]) ++ E') -> 2 <= b) ->
    hdr_ok (fh t) (L ++ [n]) E' -> h_size (fh t) = h_size (fh s) -> cext_ok t (L ++ [n]) E' ->
    (forall j, 0 <= j < len E' -> dk t (nthZ E' j) = BExt (enc_x (L ++ [n]) E' j) \/ cext t = Some (enc_x (L ++ [n]) E' j)) ->
    (forall k, 0 <= k < len L -> dk t (nthZ L k) = dk s (nthZ L k)) ->
    (forall j, 0 <= j < len E' -> nthZ E' j <> cur s) ->
    cur t = cur s -> ndb t = ndb s -> cdata t = cdata s -> pos t = pos s -> mw t = mw s ->
    let sc := finish_create bs ofs t n in
    Base (set_chg sc true) (L ++ [n]) E' /\ (forall i, 0 <= i < fsize s -> nthZ ct i = byte_at sc (L ++ [n]) i) /\ len (d_bytes (cdata sc)) = bs.
  Proof.
    intros I R Hw Hp Hm (Hn2 & Hnk & Hnin) HlE Hnd Hge Hh Hhs Hcx Hxd Hdl Hxc Hcur Hndb Hcd Hpos Hmw. cbv zeta.
    destruct (at_eof_boundary s L E I Hp Hm) as (Hn0 & Hsz & Hshape). pose proof I as (B & HL & C).
    destruct (finish_shape t n ltac:(lia)) as (Fcur & Fndb & Fpos & Fpinx & Fpind & Fchg & Fcext & Ffh & Fmw & Fmr & Fdk & Flen & Fnx).
    remember (finish_create bs ofs t n) as sc eqn:Hsc. clear Hsc. set (L' := L ++ [n]) in *.
    assert (HlL' : len L' = len L + 1) by (subst L'; rewrite len_app; unfold len at 2; simpl; lia).
    assert (HnL : forall k, 0 <= k < len L -> nthZ L' k = nthZ L k) by (intros k Hk; subst L'; apply nthZ_app_l; lia).
    assert (HnN : nthZ L' (len L) = n) by (subst L'; rewrite nthZ_snoc, Z.eqb_refl; reflexivity).
    assert (Hwr : (bs <=? pos t) = negb (len L =? 0)).
    { rewrite Hpos, Hp, Hsz. destruct (Z.eqb_spec (len L) 0) as [->|Hne]; cbn [negb]; [destruct (Z.leb_spec bs (0 * bs)); [lia|reflexivity]|].
      pose proof (len_nonneg L). destruct (Z.leb_spec bs (len L * bs)); [reflexivity|nia]. }
    (* the disk after the call, at the old data blocks *)
    assert (HdkOld : forall k, 0 <= k < len L - 1 -> dk sc (nthZ L k) = dk s (nthZ L k)).
    { intros k Hk. rewrite Fdk. destruct ((bs <=? pos t) && (nthZ L k =? cur t)) eqn:Hx; [|apply Hdl; lia].
      exfalso. apply andb_prop in Hx. destruct Hx as (_ & Hx). apply Z.eqb_eq in Hx. rewrite Hcur in Hx.
      destruct Hshape as [Hz|(_ & _ & Hcu & _)]; [lia|]. rewrite Hcu in Hx. apply (inj_L s L E k (len L - 1) B) in Hx; lia. }
    assert (HdkLast : 1 <= len L -> dk sc (nthZ L (len L - 1)) = BData (if ofs then set_d_size (set_d_next (cdata s) n) bs else cdata s)).
    { intros H1. rewrite Fdk, Hwr, Hcur, Hcd. destruct Hshape as [Hz|(_ & _ & Hcu & _)]; [lia|]. rewrite <- Hcu, Z.eqb_refl.
      destruct (Z.eqb_spec (len L) 0); [lia|]. reflexivity. }
    splits.
    - constructor; cbn -[enc_x]; rewrite ?Ffh, ?Fcext, ?Fmw.
      + exact Hh.
      + unfold fsize. cbn. rewrite Ffh, Hhs. apply (b_size _ _ _ B).
      + rewrite HlL'. exact HlE.
      + exact Hnd.
      + exact Hge.
      + exact Hcx.
      + intros j Hj. destruct (Hxd j Hj) as [Hd|Hd]; [left|right; split; [reflexivity|exact Hd]].
        rewrite Fdk. destruct ((bs <=? pos t) && (nthZ E' j =? cur t)) eqn:Hx; [|exact Hd].
        exfalso. apply andb_prop in Hx. destruct Hx as (_ & Hx). apply Z.eqb_eq in Hx. rewrite Hcur in Hx. exact (Hxc j Hj Hx).
      + intros k Hk. rewrite HlL' in Hk. destruct (Z.eq_dec k (len L)) as [->|Hne].
        * left. split; [|reflexivity]. unfold buffered. cbn. rewrite Fcur, Fndb, Hndb, Hn0. replace (len L + 1 - 1) with (len L) by lia. rewrite Z.eqb_refl, andb_true_r.
          destruct (Z.eqb_spec n 0); [lia|reflexivity].
        * right. rewrite (HnL k ltac:(lia)). destruct (Z.eq_dec k (len L - 1)) as [->|Hne2].
          -- rewrite (HdkLast ltac:(lia)). destruct Hshape as [Hz|(_ & _ & _ & _ & Hlen)]; [lia|].
             eexists. split; [reflexivity|]. replace (len L - 1 + 1) with (len L) by lia. rewrite HnN.
             destruct ofs; cbn; (split; [exact Hlen|]); intros; try discriminate; reflexivity.
          -- rewrite (HdkOld k ltac:(lia)). destruct (b_ddisk _ _ _ B k ltac:(lia)) as [(Hb & _)|(d & Hd & Hl & Hnx)].
             ++ exfalso. unfold buffered in Hb. apply andb_prop in Hb. destruct Hb as (_ & Hb). apply Z.eqb_eq in Hb. lia.
             ++ exists d. splits; try assumption. intros Ho Hk1. rewrite (HnL (k + 1) ltac:(lia)). apply Hnx; [assumption|lia].
      + intros _. rewrite Hmw. exact Hw.
    - intros i Hi. destruct R as (Hlct & Hr). rewrite (Hr i Hi). unfold byte_at.
      assert (Hk : 0 <= i / bs < len L) by (rewrite HL; apply idx_in_range; lia).
      set (k := i / bs) in *. f_equal. symmetry. unfold truth_d.
      assert (Hbsc : buffered sc k = false).
      { unfold buffered. rewrite Fndb, Hndb, Hn0. destruct (Z.eqb_spec k (len L + 1 - 1)); [lia|]. apply andb_false_r. }
      rewrite Hbsc. unfold disk_d. rewrite (HnL k Hk). destruct (Z.eq_dec k (len L - 1)) as [->|Hne].
      + rewrite (HdkLast ltac:(lia)). destruct Hshape as [Hz|(_ & _ & Hcu & Hcz & _)]; [lia|].
        assert (Hb : buffered s (len L - 1) = true) by (unfold buffered; rewrite Hn0, Z.eqb_refl, andb_true_r; destruct (Z.eqb_spec (cur s) 0); [contradiction|reflexivity]).
        rewrite Hb. destruct ofs; reflexivity.
      + rewrite (HdkOld k ltac:(lia)). assert (Hb : buffered s k = false) by (unfold buffered; rewrite Hn0; destruct (Z.eqb_spec k (len L - 1)); [lia|apply andb_false_r]).
        rewrite Hb. reflexivity.
    - rewrite Flen. destruct ofs; [reflexivity|]. rewrite Hwr, Hcd. destruct (Z.eqb_spec (len L) 0) as [Hz|Hnz]; cbn [negb]; [|reflexivity].
      destruct C as [(_ & _ & _ & _ & _ & Hl0)|(_ & _ & _ & _ & _ & Hl0 & _)]; exact Hl0.
  Qed.

  Lemma nodup_ins (L E : list Z) n : NoDup (key :: L ++ E) -> ~ In n (L ++ E) -> n <> key -> NoDup (key :: (L ++ [n]) ++ E).
  Proof.
    intros Hnd Hn Hk. inversion Hnd as [|? ? Hkin Hrest]; subst. destruct (nodup_app_inv _ _ Hrest) as (HL & HE & Hd).
    constructor.
    - intros Hc. apply in_app_or in Hc. destruct Hc as [Hc|Hc]; [apply in_app_or in Hc; destruct Hc as [Hc|[Hc|[]]]|].
      + apply Hkin. apply in_or_app. left. exact Hc.
      + congruence.
      + apply Hkin. apply in_or_app. right. exact Hc.
    - apply nodup_app_intro; [apply nodup_app_intro; [exact HL|constructor; [intros []|constructor]|]|exact HE|].
      + intros a Ha [<-|[]]. apply Hn. apply in_or_app. left. exact Ha.
      + intros a Ha Hb. apply in_app_or in Ha. destruct Ha as [Ha|[<-|[]]]; [exact (Hd a Ha Hb)|]. apply Hn. apply in_or_app. right. exact Hb.
  Qed.

  Lemma nodup_ins2 (L E : list Z) n x : NoDup (key :: L ++ E) -> ~ In n (L ++ E) -> n <> key -> ~ In x (L ++ E) -> x <> key -> x <> n ->
    NoDup (key :: (L ++ [n]) ++ (E ++ [x])).
  Proof.
    intros Hnd Hn Hk Hx Hxk Hxn. pose proof (nodup_ins L E n Hnd Hn Hk) as H1. inversion H1 as [|? ? Hkin Hrest]; subst.
    destruct (nodup_app_inv _ _ Hrest) as (HL & HE & Hd). constructor.
    - intros Hc. apply in_app_or in Hc. destruct Hc as [Hc|Hc].
      + apply Hkin. apply in_or_app. left. exact Hc.
      + apply in_app_or in Hc. destruct Hc as [Hc|[Hc|[]]]; [apply Hkin; apply in_or_app; right; exact Hc|congruence].
    - apply nodup_app_intro; [exact HL|apply nodup_app_intro; [exact HE|constructor; [intros []|constructor]|]|].
      + intros a Ha [<-|[]]. apply Hx. apply in_or_app. right. exact Ha.
      + intros a Ha Hb. apply in_app_or in Hb. destruct Hb as [Hb|[<-|[]]]; [exact (Hd a Ha Hb)|].
        apply in_app_or in Ha. destruct Ha as [Ha|[Ha|[]]]; [apply Hx; apply in_or_app; left; exact Ha|congruence].
  Qed.

  Lemma ge2_ins (L E : list Z) n E' : (forall b, In b (L ++ E) -> 2 <= b) -> 2 <= n -> (forall b, In b E' -> In b E \/ 2 <= b) ->
    forall b, In b ((L ++ [n]) ++ E') -> 2 <= b.
  Proof.
    intros H Hn HE b Hb. apply in_app_or in Hb. destruct Hb as [Hb|Hb].
    - apply in_app_or in Hb. destruct Hb as [Hb|[<-|[]]]; [apply H; apply in_or_app; left; exact Hb|exact Hn].
    - destruct (HE b Hb) as [Hb'|Hb']; [apply H; apply in_or_app; right; exact Hb'|exact Hb'].
  Qed.

  Lemma enc_snoc_other (L E E' : list Z) n j : 72 * (j + 1) + 72 <= len L -> nthZ E' j = nthZ E j -> nthZ E' (j + 1) = nthZ E (j + 1) ->
    enc_x (L ++ [n]) E' j = enc_x L E j.
  Proof.
    intros Hw H1 H2. unfold enc_x. rewrite H1, H2, len_app. rewrite (window_snoc_out L (72 * (j + 1)) 72 n) by lia.
    f_equal. unfold len at 2. cbn [length]. lia.
  Qed.

  Lemma create_next_ok s L E ct x y n L' E' :
    Inv s L E -> Repr s L ct -> mw s = true -> pos s = fsize s -> pos s mod bs = 0 ->
    n = (if needs_x (len L) then y else x) -> L' = L ++ [n] -> E' = (if needs_x (len L) then E ++ [x] else E) ->
    fresh L E n -> (needs_x (len L) = true -> fresh L E x /\ x <> y) ->
    exists sc, create_next bs ofs s (Some (x, y)) = (true, sc) /\ Base (set_chg sc true) L' E'
      /\ (forall i, 0 <= i < fsize s -> nthZ ct i = byte_at sc L' i) /\ len (d_bytes (cdata sc)) = bs
      /\ cur sc = n /\ ndb sc = len L + 1 /\ pos sc = pos s /\ fsize sc = fsize s /\ mw sc = mw s /\ mr sc = mr s /\ ext_cursor sc L' E' (len L).
  Proof.
    intros I R Hw Hp Hm Hn_eq HL'_eq HE'_eq Hfn Hfx. set (nx := needs_x (len L)) in *.
    destruct (at_eof_boundary s L E I Hp Hm) as (Hn0 & Hsz & Hshape). pose proof I as (B & HL & C).
    pose proof (b_hdr _ _ _ B) as (Hhk & Htab & Hhigh & Hfirst & Hext). pose proof (lenE_of s L E B) as HlE. pose proof (len_nonneg L) as HL0.
    pose proof Hfn as (Hn2 & Hnk & Hnin).
    assert (HlL' : len L' = len L + 1) by (subst L'; rewrite len_app; unfold len at 2; simpl; lia).
    assert (HE'len : len E' = db2ext (len L + 1)).
    { rewrite db2ext_snoc by lia. fold nx. rewrite <- (b_nE _ _ _ B). subst E'. destruct nx; [rewrite len_app; unfold len at 2; simpl; lia|lia]. }
    assert (Hnd' : NoDup (key :: L' ++ E')).
    { subst L' E'. destruct nx eqn:Hnx.
      - destruct (Hfx eq_refl) as ((Hx2 & Hxk & Hxin) & Hxy). apply nodup_ins2; try assumption; try (apply (b_nodup _ _ _ B)). rewrite Hn_eq. exact Hxy.
      - apply nodup_ins; try assumption. apply (b_nodup _ _ _ B). }
    assert (Hge' : forall b, In b (L' ++ E') -> 2 <= b).
    { subst L'. apply (ge2_ins L E n E' (b_ge2 _ _ _ B) Hn2). intros b Hb. subst E'. destruct nx eqn:Hnx; [|left; exact Hb].
      apply in_app_or in Hb. destruct Hb as [Hb|[<-|[]]]; [left; exact Hb|right]. destruct (Hfx eq_refl) as ((Hx2 & _) & _). exact Hx2. }
    assert (HcurE : forall j, 0 <= j < len E' -> nthZ E' j <> cur s).
    { intros j Hj He. destruct Hshape as [Hz|(H1 & _ & Hcu & Hcz & _)].
      - destruct C as [(_ & Hc0 & _)|(_ & Hnn & _)]; [|lia]. assert (2 <= nthZ E' j) by (apply Hge'; apply in_or_app; right; apply in_E_nth; exact Hj). lia.
      - inversion Hnd' as [|? ? _ Hrest]; subst. destruct (nodup_app_inv _ _ Hrest) as (_ & _ & Hd). apply (Hd (cur s)).
        + rewrite Hcu. apply in_or_app. left. apply in_L_nth. lia.
        + rewrite <- He. apply in_E_nth. exact Hj. }
    unfold create_next. rewrite Hn0. unfold MAXDB.
    destruct (Z.ltb_spec (len L) 72) as [H72|H72].
    - (* the header table *)
      assert (Hnx : nx = false) by (subst nx; unfold needs_x; destruct (Z.leb_spec 72 (len L)); [lia|reflexivity]).
      rewrite Hnx in *. subst n E' L'. set (L' := L ++ [x]) in *. clear Hfx.
      assert (HE0 : len E = 0) by (rewrite HlE; destruct (Z.ltb_spec (len L) 1); lia).
      set (h1 := if len L =? 0 then set_h_first (fh s) x else fh s).
      set (h2 := set_h_high (set_h_tab h1 (updZ (h_tab h1) (len L) x)) (h_high h1 + 1)).
      destruct (append_data s (set_fh s h2) L E E x ct I R Hw Hp Hm Hfn HE'len Hnd' Hge') as (Bsc & Rsc & Lsc); try reflexivity.
      + (* header *) subst h2 h1. unfold hdr_ok. destruct (Z.eqb_spec (len L) 0) as [Hz|Hz]; cbn -[nthZ subZ updZ Z.min]; rewrite ?Hhk, ?Htab, ?Hhigh, ?Hfirst, ?Hext; fold L'; rewrite HlL';
          (splits; [reflexivity|replace (len L) with (len L - 0) at 1 by lia; apply window_snoc_in; lia|lia| |reflexivity]).
        * subst L'. rewrite nthZ_snoc, Hz. reflexivity.
        * subst L'. rewrite nthZ_app_l by lia. reflexivity.
      + subst h2 h1. destruct (len L =? 0); reflexivity.
      + (* the extension buffer *) unfold cext_ok. cbn. pose proof (b_cext _ _ _ B) as Hcx. destruct (cext s) as [x0|]; [|trivial].
        destruct Hcx as [Hk0|(j & Hj & _)]; [left; exact Hk0|lia].
      + intros j Hj. lia.
      + intros j Hj. exact (HcurE j Hj).
      + destruct (finish_shape (set_fh s h2) x ltac:(lia)) as (Fcur & Fndb & Fpos & Fpinx & Fpind & Fchg & Fcext & Ffh & Fmw & Fmr & Fdk & Flen & Fnx).
        eexists. split; [reflexivity|]. splits; try assumption.
        * rewrite Fndb. cbn. lia.
        * unfold fsize. rewrite Ffh. subst h2 h1. destruct (len L =? 0); reflexivity.
        * unfold ext_cursor. lia.
    - destruct (Z.eqb_spec (len L mod 72) 0) as [Hmod|Hmod].
      + (* a new extension block *)
        assert (Hnx : nx = true) by (subst nx; unfold needs_x; destruct (Z.leb_spec 72 (len L)); [|lia]; destruct (Z.eqb_spec (len L mod 72) 0); [reflexivity|contradiction]).
        rewrite Hnx in *. subst n E' L'. set (L' := L ++ [y]) in *. destruct (Hfx eq_refl) as ((Hx2 & Hxk & Hxin) & Hxy).
        set (j := len L / 72 - 1).
        assert (HlenE : len E = j) by (rewrite HlE; destruct (Z.ltb_spec (len L) 1); subst j; lia).
        assert (HlenE' : len (E ++ [x]) = j + 1) by (rewrite len_app; unfold len at 2; simpl; lia).
        assert (Hbase : 72 * (j + 1) = len L) by (subst j; lia).
        assert (HEj : nthZ (E ++ [x]) j = x) by (rewrite nthZ_snoc, HlenE, Z.eqb_refl; reflexivity).
        assert (HEold : forall i, 0 <= i < j -> nthZ (E ++ [x]) i = nthZ E i) by (intros i Hi; apply nthZ_app_l; lia).
        assert (HEj1 : nthZ (E ++ [x]) (j + 1) = 0) by (apply nthZ_oob; lia).
        (* the state the new extension block is put into *)
        set (s1 := if len L =? 72 then set_fh (set_cext s (Some zero_x)) (set_h_ext (fh s) x) else s).
        set (s2 := if 2 * 72 <=? ndb s1 then wr (set_cext s1 (Some (set_x_ext (cx s1) x))) (x_key (set_x_ext (cx s1) x)) (BExt (set_x_ext (cx s1) x)) else s1).
        set (x0 := {| x_key := x; x_parent := h_key (fh s2); x_high := 0; x_tab := zerosZ 72; x_ext := 0 |}).
        set (x1 := set_x_high (set_x_tab x0 (updZ (x_tab x0) 0 y)) (x_high x0 + 1)).
        set (t := set_pinx (set_cext (set_pinx (set_cext s2 (Some x0)) 0) (Some x1)) (0 + 1)).
        assert (Hnd1 : ndb s1 = len L) by (subst s1; destruct (len L =? 72); exact Hn0).
        assert (Hx1 : x1 = enc_x L' (E ++ [x]) j).
        { subst x1 x0. unfold enc_x, set_x_high, set_x_tab. cbn [x_key x_parent x_high x_tab x_ext]. rewrite HEj, HEj1. assert (Hk2 : h_key (fh s2) = key).
          { subst s2 s1. destruct (len L =? 72); destruct (2 * 72 <=? _); cbn; exact Hhk. }
          rewrite Hk2. f_equal.
          - rewrite HlL', Hbase. lia.
          - rewrite Hbase. subst L'. rewrite <- (window_zero L (len L) 72) by lia. replace 0 with (len L - len L) at 1 by lia. apply window_snoc_in; lia. }
        (* the previous extension block, when there is one, now points to the new one - on the volume *)
        assert (Hprev : 144 <= len L -> cext s = Some (enc_x L E (j - 1)) /\ set_x_ext (enc_x L E (j - 1)) x = enc_x L' (E ++ [x]) (j - 1)).
        { intros H144. destruct Hshape as [Hz|(H1 & _ & _ & _ & _)]; [lia|].
          destruct C as [(_ & _ & _ & Hn00 & _)|(_ & _ & _ & _ & _ & _ & _ & _ & Hxc)]; [lia|].
          destruct (Hxc ltac:(lia)) as (Hcx & _). rewrite Hn0 in Hcx. replace ((len L - 1 - 72) / 72) with (j - 1) in Hcx by (subst j; lia).
          split; [exact Hcx|]. unfold enc_x, set_x_ext. cbn [x_key x_parent x_high x_tab x_ext]. rewrite (HEold (j - 1)) by lia. replace (j - 1 + 1) with j by lia. rewrite HEj, HlL'.
          subst L'. rewrite (window_snoc_out L (72 * j) 72 y) by lia. f_equal. lia. }
        assert (Hs2 : cur s2 = cur s /\ ndb s2 = ndb s /\ cdata s2 = cdata s /\ pos s2 = pos s /\ mw s2 = mw s /\ mr s2 = mr s /\ chg s2 = chg s /\ h_size (fh s2) = h_size (fh s)).
        { subst s2 s1. destruct (len L =? 72); destruct (2 * 72 <=? _); cbn; splits; reflexivity. }
        destruct Hs2 as (S2cur & S2ndb & S2cd & S2pos & S2mw & S2mr & S2chg & S2sz).
        destruct (append_data s t L E (E ++ [x]) y ct I R Hw Hp Hm Hfn HE'len Hnd' Hge') as (Bsc & Rsc & Lsc); try (subst t; cbn; assumption).
        * (* header *) subst t. cbn. unfold hdr_ok. assert (Hfh2 : h_key (fh s2) = key /\ h_tab (fh s2) = h_tab (fh s) /\ h_high (fh s2) = h_high (fh s) /\ h_first (fh s2) = h_first (fh s)
                                                       /\ h_ext (fh s2) = if len L =? 72 then x else h_ext (fh s)).
          { subst s2 s1. destruct (len L =? 72); destruct (2 * 72 <=? _); cbn; splits; try reflexivity; exact Hhk. }
          destruct Hfh2 as (K1 & K2 & K3 & K4 & K5). rewrite K1, K2, K3, K4, K5, Htab, Hhigh, Hfirst, Hext. fold L'. rewrite HlL'.
          splits; try reflexivity.
          -- subst L'. symmetry. apply window_snoc_out; lia.
          -- lia.
          -- subst L'. rewrite nthZ_app_l by lia. reflexivity.
          -- destruct (Z.eqb_spec (len L) 72) as [He|He].
             ++ symmetry. replace 0 with j by (subst j; lia). exact HEj.
             ++ rewrite (HEold 0) by (subst j; lia). reflexivity.
        * subst t. unfold cext_ok. cbn. right. exists j. split; [lia|exact Hx1].
        * (* extension blocks on the volume *)
          intros i Hi. rewrite HlenE' in Hi. destruct (Z.eq_dec i j) as [->|Hne]; [right; subst t; cbn; rewrite Hx1; reflexivity|].
          left. subst t. cbn. destruct (Z.eq_dec i (j - 1)) as [->|Hne2].
          -- (* the block that was current *)
             assert (H144 : 144 <= len L) by (subst j; lia). destruct (Hprev H144) as (Hcx & Henc).
             subst s2. rewrite Hnd1. destruct (Z.leb_spec (2 * 72) (len L)); [|lia].
             assert (Hcx1 : cx s1 = enc_x L E (j - 1)) by (subst s1; destruct (Z.eqb_spec (len L) 72); [lia|]; unfold cx; rewrite Hcx; reflexivity).
             rewrite Hcx1, Henc. cbn -[enc_x]. rewrite enc_key. rewrite Z.eqb_refl. reflexivity.
          -- (* older extension blocks: untouched *)
             assert (Hi2 : 0 <= i < j - 1) by lia.
             rewrite (enc_snoc_other L E (E ++ [x]) y i) by (try rewrite !HEold by lia; try reflexivity; lia).
             rewrite (HEold i) by lia.
             assert (Hdk2 : dk s2 (nthZ E i) = dk s (nthZ E i)).
             { subst s2. rewrite Hnd1. destruct (Z.leb_spec (2 * 72) (len L)).
               - destruct (Hprev ltac:(lia)) as (Hcx & Henc).
                 assert (Hcx1 : cx s1 = enc_x L E (j - 1)) by (subst s1; destruct (Z.eqb_spec (len L) 72); [lia|]; unfold cx; rewrite Hcx; reflexivity).
                 rewrite Hcx1. cbn -[enc_x]. rewrite enc_key. destruct (Z.eqb_spec (nthZ E i) (nthZ E (j - 1))) as [He|He].
                 + apply (inj_E s L E i (j - 1) B) in He; lia.
                 + subst s1. destruct (len L =? 72); reflexivity.
               - subst s1. destruct (len L =? 72); reflexivity. }
             rewrite Hdk2. destruct (b_xdisk _ _ _ B i ltac:(lia)) as [Hd|(_ & Hd)]; [exact Hd|].
             exfalso. destruct (Hprev ltac:(subst j; lia)) as (Hcx & _). rewrite Hcx in Hd.
             assert (He : x_key (enc_x L E (j - 1)) = x_key (enc_x L E i)) by congruence. rewrite !enc_key in He. apply (inj_E s L E (j - 1) i B) in He; lia.
        * (* data blocks are not touched by the extension block write *)
          intros k Hk. subst t. cbn. subst s2. rewrite Hnd1. destruct (Z.leb_spec (2 * 72) (len L)); [|subst s1; destruct (len L =? 72); reflexivity].
          destruct (Hprev ltac:(lia)) as (Hcx & Henc).
          assert (Hcx1 : cx s1 = enc_x L E (j - 1)) by (subst s1; destruct (Z.eqb_spec (len L) 72); [lia|]; unfold cx; rewrite Hcx; reflexivity).
          rewrite Hcx1. cbn -[enc_x]. rewrite enc_key. destruct (Z.eqb_spec (nthZ L k) (nthZ E (j - 1))) as [He|He].
          -- exfalso. revert He. apply (sep_LE s L E k (j - 1) B); lia.
          -- subst s1. destruct (len L =? 72); reflexivity.
        * destruct (finish_shape t y ltac:(lia)) as (Fcur & Fndb & Fpos & Fpinx & Fpind & Fchg & Fcext & Ffh & Fmw & Fmr & Fdk & Flen & Fnx).
          exists (finish_create bs ofs t y). split.
          -- subst t x1 x0 s2. unfold add_to_ext, cx. cbn -[Z.leb Z.eqb Z.mul finish_create]. reflexivity.
          -- splits; try assumption.
             ++ rewrite Fndb. subst t. cbn. lia.
             ++ rewrite Fpos. subst t. cbn. exact S2pos.
             ++ unfold fsize. rewrite Ffh. subst t. cbn. exact S2sz.
             ++ rewrite Fmw. subst t. cbn. exact S2mw.
             ++ rewrite Fmr. subst t. cbn. exact S2mr.
             ++ unfold ext_cursor. rewrite Fcext, Fpinx. subst t. cbn -[enc_x]. intros _. replace ((len L - 72) / 72) with j by (subst j; lia).
                split; [rewrite Hx1; reflexivity|lia].
      + (* a further slot of the current extension block *)
        assert (Hnx : nx = false) by (subst nx; unfold needs_x; destruct (Z.eqb_spec (len L mod 72) 0); [contradiction|apply andb_false_r]).
        rewrite Hnx in *. subst n E' L'. set (L' := L ++ [x]) in *. clear Hfx.
        set (j := (len L - 72) / 72). set (i := (len L - 72) mod 72).
        assert (Hj : 0 <= j < len E) by (rewrite HlE; destruct (Z.ltb_spec (len L) 1); subst j; lia).
        destruct Hshape as [Hz|(H1 & _ & Hcu & Hcz & _)]; [lia|].
        assert (Hxc : cext s = Some (enc_x L E j) /\ pinx s = i).
        { destruct C as [(_ & _ & _ & Hn00 & _)|(_ & _ & _ & _ & _ & _ & _ & _ & Hxc)]; [lia|]. destruct (Hxc ltac:(lia)) as (Hcx & Hpx). rewrite Hn0 in *.
          replace ((len L - 1 - 72) / 72) with j in Hcx by (subst j; lia). split; [exact Hcx|subst i; lia]. }
        destruct Hxc as (Hcx & Hpx).
        set (x1 := set_x_high (set_x_tab (cx s) (updZ (x_tab (cx s)) (pinx s) x)) (x_high (cx s) + 1)).
        set (t := set_pinx (set_cext s (Some x1)) (pinx s + 1)).
        assert (Hx1 : x1 = enc_x L' E j).
        { subst x1. unfold cx. rewrite Hcx, Hpx. unfold enc_x, set_x_high, set_x_tab. cbn [x_key x_parent x_high x_tab x_ext]. rewrite HlL'. f_equal.
          - subst i j. lia.
          - replace i with (len L - 72 * (j + 1)) by (subst i j; lia). subst L'. apply window_snoc_in; subst j; lia. }
        destruct (append_data s t L E E x ct I R Hw Hp Hm Hfn HE'len Hnd' Hge') as (Bsc & Rsc & Lsc); try (subst t; reflexivity).
        * subst t. cbn. unfold hdr_ok. rewrite Hhk, Htab, Hhigh, Hfirst, Hext. fold L'. rewrite HlL'. splits; try reflexivity.
          -- subst L'. symmetry. apply window_snoc_out; lia.
          -- lia.
          -- subst L'. rewrite nthZ_app_l by lia. reflexivity.
        * subst t. unfold cext_ok. cbn. right. exists j. split; [exact Hj|exact Hx1].
        * intros i0 Hi0. destruct (Z.eq_dec i0 j) as [->|Hne]; [right; subst t; cbn; rewrite Hx1; reflexivity|]. left. subst t. cbn.
          assert (Hi2 : 0 <= i0 < j) by (rewrite HlE in Hi0; destruct (Z.ltb_spec (len L) 1); subst j; lia).
          rewrite (enc_snoc_other L E E x i0) by (try reflexivity; subst j; lia).
          destruct (b_xdisk _ _ _ B i0 Hi0) as [Hd|(_ & Hd)]; [exact Hd|]. exfalso. rewrite Hcx in Hd.
          assert (He : x_key (enc_x L E j) = x_key (enc_x L E i0)) by congruence. rewrite !enc_key in He. apply (inj_E s L E j i0 B) in He; lia.
        * intros i0 Hi0. exact (HcurE i0 Hi0).
        * destruct (finish_shape t x ltac:(lia)) as (Fcur & Fndb & Fpos & Fpinx & Fpind & Fchg & Fcext & Ffh & Fmw & Fmr & Fdk & Flen & Fnx).
          exists (finish_create bs ofs t x). split.
          -- subst t x1. unfold add_to_ext. reflexivity.
          -- splits; try assumption.
             ++ rewrite Fndb. subst t. cbn. lia.
             ++ unfold fsize. rewrite Ffh. subst t. reflexivity.
             ++ unfold ext_cursor. rewrite Fcext, Fpinx. subst t. cbn -[enc_x]. intros _. fold j. fold i. split; [rewrite Hx1; reflexivity|lia].
  Qed.

  (* ---- adfFileWrite ---- *)
  (* the allocator as an oracle: every answer names blocks the file does not own yet (and not its header); a refusal ends the run *)
  Fixpoint al_ok (L E : list Z) (al : list (option (Z * Z))) : Prop :=
    match al with
    | [] => True
    | None :: _ => True
    | Some (x, y) :: r =>
        let nx := needs_x (len L) in
        let n := if nx then y else x in
        fresh L E n /\ (nx = true -> fresh L E x /\ x <> y) /\ al_ok (L ++ [n]) (if nx then E ++ [x] else E) r
    end.

  (* the blocks the allocator named, and how the block lists of a file may grow: they keep what they had and gain only such blocks *)
  Definition al_blocks (al : list (option (Z * Z))) : list Z :=
    flat_map (fun a => match a with Some (x, y) => [x; y] | None => [] end) al.
  (* how the block lists of a file grow during a call, exactly: the answers of the allocator are consumed in order; a refusal is consumed and
     changes nothing; every block-granting answer appends ONE data block - and, exactly when a further extension block is due
     (needs_x), one extension block - named by that answer *)
  Inductive Grows : list Z -> list Z -> list Z -> list Z -> list (option (Z * Z)) -> list (option (Z * Z)) -> Prop :=
  | G_refl L E al : Grows L E L E al al
  | G_refused L E L' E' al al' : Grows L E L' E' al (None :: al') -> Grows L E L' E' al al'
  | G_take L E L' E' al x y al' : Grows L E L' E' al (Some (x, y) :: al') ->
      Grows L E (L' ++ [if needs_x (len L') then y else x]) (if needs_x (len L') then E' ++ [x] else E') al al'.
  Lemma grows_refl L E al : Grows L E L E al al.
  Proof. apply G_refl. Qed.
  Lemma al_blocks_tl al b : In b (al_blocks (tl al)) -> In b (al_blocks al).
  Proof. destruct al as [|a r]; [intros H; exact H|]. intros H. unfold al_blocks. cbn [flat_map]. apply in_or_app. right. exact H. Qed.
  Lemma grows_tl L E al : (al = [] \/ exists r, al = None :: r) -> Grows L E L E al (tl al).
  Proof. intros [->|(r & ->)]; [apply G_refl|]. cbn [tl]. apply G_refused, G_refl. Qed.
  Lemma grows_trans L E L1 E1 L2 E2 al al1 al2 : Grows L E L1 E1 al al1 -> Grows L1 E1 L2 E2 al1 al2 -> Grows L E L2 E2 al al2.
  Proof.
    intros H1 H2. induction H2 as [L1 E1 al1|L1 E1 L2 E2 al1 al2 _ IH|L1 E1 L2 E2 al1 x y al2 _ IH]; [exact H1|apply G_refused, IH, H1|apply G_take, IH, H1].
  Qed.
  (* what follows from it: the lists keep what they had, gain only blocks the allocator named, the remaining answers are a suffix, and a
     data block is linked for every block-granting answer consumed (none is dropped) *)
  Definition count_some (r : list (option (Z * Z))) : Z := len (filter (fun a => match a with Some _ => true | None => false end) r).
  Lemma grows_facts L E L' E' al al' : Grows L E L' E' al al' ->
    incl (L ++ E) (L' ++ E') /\ (forall b, In b (L' ++ E') -> In b (L ++ E) \/ In b (al_blocks al)) /\ incl (al_blocks al') (al_blocks al)
    /\ exists r, al = r ++ al' /\ len L' = len L + count_some r.
  Proof.
    induction 1 as [L E al|L E L' E' al al' _ IH|L E L' E' al x y al' _ IH].
    - split; [apply incl_refl|]. split; [intros b Hb; left; exact Hb|]. split; [apply incl_refl|]. exists []. split; [reflexivity|]. unfold count_some, len. cbn. lia.
    - destruct IH as (Hi & Hn & Ha & r & Hr & Hc). split; [exact Hi|]. split; [exact Hn|]. split; [intros b Hb; apply Ha; exact Hb|].
      exists (r ++ [None]). split; [rewrite <- app_assoc; exact Hr|]. unfold count_some in *. rewrite filter_app. cbn [filter]. rewrite app_nil_r. exact Hc.
    - destruct IH as (Hi & Hn & Ha & r & Hr & Hc).
      assert (Hx : In x (al_blocks al) /\ In y (al_blocks al)) by (split; apply Ha; unfold al_blocks; cbn [flat_map app In]; [left|right; left]; reflexivity).
      split; [|split; [|split]].
      + intros b Hb. apply Hi in Hb. apply in_app_or in Hb. apply in_or_app. destruct Hb as [Hb|Hb]; [left; apply in_or_app; left; exact Hb|right].
        destruct (needs_x (len L')); [apply in_or_app; left; exact Hb|exact Hb].
      + intros b Hb. apply in_app_or in Hb. destruct Hb as [Hb|Hb].
        * apply in_app_or in Hb. destruct Hb as [Hb|[Hb|[]]]; [apply Hn; apply in_or_app; left; exact Hb|right]. subst b. destruct (needs_x (len L')); apply Hx.
        * destruct (needs_x (len L')); [|apply Hn; apply in_or_app; right; exact Hb].
          apply in_app_or in Hb. destruct Hb as [Hb|[Hb|[]]]; [apply Hn; apply in_or_app; right; exact Hb|right; subst b; apply Hx].
      + intros b Hb. apply Ha. unfold al_blocks. cbn [flat_map]. apply in_or_app. right. exact Hb.
      + exists (r ++ [Some (x, y)]). split; [rewrite <- app_assoc; exact Hr|]. unfold count_some in *. rewrite filter_app. cbn [filter].
        rewrite !len_app. rewrite Hc. unfold len at 4. unfold len at 3. cbn. lia.
  Qed.
  Lemma grows_incl L E L' E' al al' : Grows L E L' E' al al' -> incl (L ++ E) (L' ++ E').
  Proof. intros H. apply (grows_facts _ _ _ _ _ _ H). Qed.
  Lemma incl_key (A B : list Z) : incl A B -> incl (key :: A) (key :: B).
  Proof. intros H b [Hb|Hb]; [left; exact Hb|right; apply H, Hb]. Qed.

  Lemma pind_mod s L E : Inv s L E -> cur s <> 0 -> pos s mod bs = (if pind s =? bs then 0 else pind s).
  Proof.
    intros I Hc. destruct (normal_facts s L E I Hc) as (_ & _ & Hp & Hpi & _). rewrite Hp.
    destruct (Z.eqb_spec (pind s) bs) as [He|He].
    - rewrite He. replace ((ndb s - 1) * bs + bs) with (ndb s * bs + 0) by lia. apply mod_block. lia.
    - apply mod_block. lia.
  Qed.

  (* a coherent handle has a buffered block whenever the file has data: adfFileWrite's guard does not fire *)
  Lemma write_guard_off s L E : Inv s L E -> (cur s =? 0) && (0 <? fsize s) = false.
  Proof.
    intros I. destruct (Z.eqb_spec (cur s) 0) as [Hc|Hc]; [|reflexivity]. cbn [andb]. destruct (Z.ltb_spec 0 (fsize s)) as [Hs|Hs]; [|reflexivity].
    exfalso. destruct I as (B & HL & [(Hz & _)|(Hcu & Hnn & _)]); [lia|].
    assert (Hin : In (cur s) (L ++ E)) by (apply in_or_app; left; rewrite Hcu; apply in_L_nth; lia).
    pose proof (b_ge2 _ _ _ B (cur s) Hin). lia.
  Qed.

  Lemma repr_nothing s L ct data : 0 <= pos s <= fsize s -> Repr s L ct -> Repr s L (ovw ct (pos s) (firstn (Z.to_nat 0) data)).
  Proof. intros Hp R. change (firstn (Z.to_nat 0) data) with (@nil Z). rewrite ovw_nil; [exact R|]. destruct R as (Hl & _). lia. Qed.

  Lemma write_loop_ok_fr : forall fuel s data al L E ct, Inv s L E -> Repr s L ct -> mw s = true -> al_ok L E al ->
    (0 < len data -> len data + pos s mod bs <= Z.of_nat fuel * bs) ->
    exists s' w al' L' E', write_loop bs ofs nobad fuel s data al = (s', w, al') /\ Inv s' L' E'
      /\ Repr s' L' (ovw ct (pos s) (firstn (Z.to_nat w) data)) /\ pos s' = pos s + w /\ 0 <= w <= len data /\ mw s' = true /\ mr s' = mr s
      /\ (w = len data -> al_ok L' E' al') /\ (w < len data -> exists r, al = r ++ None :: al' \/ (al' = [] /\ True))
      /\ Fr (key :: L' ++ E') s s' /\ Grows L E L' E' al al'.
  Proof.
    induction fuel as [|fuel IH]; intros s data al L E ct I R Hw Hal Hfuel.
    - assert (Hd0 : len data = 0).
      { destruct (Z.eq_dec (len data) 0) as [|Hne]; [assumption|]. pose proof (len_nonneg data). specialize (Hfuel ltac:(lia)).
        pose proof (Z.mod_pos_bound (pos s) bs Hbs). simpl in Hfuel. lia. }
      exists s, 0, al, L, E. cbn [write_loop]. assert (data = []) as -> by (destruct data; [reflexivity|unfold len in Hd0; simpl in Hd0; lia]).
      pose proof I as (B & HL & C). assert (Hps : 0 <= pos s <= fsize s) by (destruct C as [(Hz & _ & Hp & _)|(_ & Hnn & Hp & Hpi & Hle & _)]; [lia|nia]).
      splits; try reflexivity; try assumption; try lia; try (apply repr_nothing; assumption); try (unfold len; simpl; lia); try (intros _; exact Hal); try apply fr_refl; try apply grows_refl.
    - destruct data as [|b0 data0] eqn:Hdata.
      { exists s, 0, al, L, E. cbn [write_loop]. pose proof I as (B & HL & C).
        assert (Hps : 0 <= pos s <= fsize s) by (destruct C as [(Hz & _ & Hp & _)|(_ & Hnn & Hp & Hpi & Hle & _)]; [lia|nia]).
        splits; try reflexivity; try assumption; try lia; try (apply repr_nothing; assumption); try (unfold len; simpl; lia); try (intros _; exact Hal); try apply fr_refl; try apply grows_refl. }
      rewrite <- Hdata in *. assert (Hdpos : 0 < len data) by (rewrite Hdata; unfold len; simpl; lia).
      specialize (Hfuel Hdpos). rewrite Nat2Z.inj_succ in Hfuel.
      pose proof I as (B & HL & C). pose proof (b_size _ _ _ B) as Hsz0.
      assert (Hps : 0 <= pos s <= fsize s) by (destruct C as [(Hz & _ & Hp & _)|(_ & Hnn & Hp & Hpi & Hle & _)]; [lia|nia]).
      pose proof (Z.mod_pos_bound (pos s) bs Hbs) as He.
      (* the prepared state: what copy_ok needs, or a refusal *)
      assert (Hprep :
        (exists al1, (if pos s mod bs =? 0
                 then if pos s =? fsize s
                      then let '(okc, sc) := create_next bs ofs s (match al with a :: _ => a | [] => None end) in
                           if okc then (true, set_pind (set_chg sc false) 0, tl al) else (false, sc, tl al)
                      else if pind s =? bs
                           then let '(okn, sn) := read_next bs ofs nobad (if chg s then set_chg (fio_flush bs ofs s) false else s) in
                                if okn then (true, set_pind sn 0, al) else (false, set_cur sn 0, al)
                           else (true, set_pind s 0, al)
                 else (true, s, al)) = (false, s, al1) /\ (al1 = tl al) /\ (al = [] \/ exists r, al = None :: r))
        \/
        (exists s1 al1 L1 E1, (if pos s mod bs =? 0
                 then if pos s =? fsize s
                      then let '(okc, sc) := create_next bs ofs s (match al with a :: _ => a | [] => None end) in
                           if okc then (true, set_pind (set_chg sc false) 0, tl al) else (false, sc, tl al)
                      else if pind s =? bs
                           then let '(okn, sn) := read_next bs ofs nobad (if chg s then set_chg (fio_flush bs ofs s) false else s) in
                                if okn then (true, set_pind sn 0, al) else (false, set_cur sn 0, al)
                           else (true, set_pind s 0, al)
                 else (true, s, al)) = (true, s1, al1)
          /\ Base (set_chg s1 true) L1 E1 /\ mw s1 = true /\ mr s1 = mr s /\ cur s1 = nthZ L1 (ndb s1 - 1) /\ 1 <= ndb s1 <= len L1
          /\ pos s1 = pos s /\ pos s1 = (ndb s1 - 1) * bs + pind s1 /\ pind s1 = pos s mod bs /\ pos s1 <= fsize s1 /\ fsize s1 = fsize s
          /\ len (d_bytes (cdata s1)) = bs /\ ext_cursor s1 L1 E1 (ndb s1 - 1) /\ (ofs = true -> ndb s1 < len L1 -> d_next (cdata s1) = nthZ L1 (ndb s1))
          /\ (forall c, 0 < c -> pos s mod bs + c <= bs -> len L1 = size2db (Z.max (fsize s) (pos s + c)) bs)
          /\ (forall i, 0 <= i < fsize s -> nthZ ct i = byte_at s1 L1 i) /\ al_ok L1 E1 al1 /\ (al1 = al \/ al1 = tl al)
          /\ Fr (key :: L1 ++ E1) s s1 /\ Grows L E L1 E1 al al1)).
      { destruct (Z.eqb_spec (pos s mod bs) 0) as [Hm0|Hm0].
        - destruct (Z.eqb_spec (pos s) (fsize s)) as [Heof|Hneof].
          + (* at the end of the file on a block boundary: a new block *)
            destruct al as [|[[x y]|] al0].
            * left. exists []. unfold create_next. destruct (ndb s <? MAXDB); [|destruct (ndb s mod MAXDB =? 0)]; (split; [reflexivity|split; [reflexivity|left; reflexivity]]).
            * right. cbn [al_ok] in Hal. destruct Hal as (Hfn & Hfx & Hal0).
              destruct (create_next_ok s L E ct x y _ _ _ I R Hw Heof Hm0 eq_refl eq_refl eq_refl Hfn Hfx)
                as (sc & Hcn & Bsc & Rsc & Lsc & Ccur & Cndb & Cpos & Csz & Cmw & Cmr & Cxc).
              set (n := if needs_x (len L) then y else x) in *. set (L1 := L ++ [n]) in *. set (E1 := if needs_x (len L) then E ++ [x] else E) in *.
              assert (HGr : Grows L E L1 E1 (Some (x, y) :: al0) al0) by (subst L1 E1 n; apply G_take, G_refl).
              assert (HFr : Fr (key :: L1 ++ E1) s (set_pind (set_chg sc false) 0)).
              { intros b Hb. cbn [dk set_pind set_chg].
                assert (Hb0 : ~ In b (key :: L ++ E)) by (intros Hc; apply Hb; apply (incl_key _ _ (grows_incl _ _ _ _ _ _ HGr)); exact Hc).
                pose proof (create_next_dk bs ofs s (Some (x, y)) b) as Hd. rewrite Hcn in Hd. cbn [snd] in Hd. apply Hd.
                - intros Hge Hbc. subst b. destruct (inv_own s L E I) as (_ & [Hz|Hin] & _); [|contradiction].
                  destruct I as (_ & _ & [(Hz0 & _ & Hp0 & _)|(Hcu & Hnn & _)]); [lia|].
                  pose proof (cur_nonzero s L E (conj B (conj HL C)) ltac:(lia) Hcu ltac:(lia)). lia.
                - intros Hge Hmod Hbx. subst b.
                  destruct C as [(_ & _ & _ & Hnz & _)|(_ & Hnn & _ & _ & _ & _ & _ & _ & Hxc)]; [unfold MAXDB in Hge; lia|].
                  destruct (Hxc ltac:(unfold MAXDB in Hge; lia)) as (Hce & _). unfold cx in Hb0. rewrite Hce in Hb0. rewrite enc_key in Hb0.
                  apply Hb0. right. apply in_or_app. right. apply in_E_nth. pose proof (lenE_of s L E B) as HlE.
                  unfold MAXDB in Hge. destruct (Z.ltb_spec (len L) 1); lia. }
              rewrite Hcn. exists (set_pind (set_chg sc false) 0), al0, L1, E1.
              destruct (at_eof_boundary s L E I Heof Hm0) as (Hn0 & Hszb & _).
              assert (HlL1 : len L1 = len L + 1) by (subst L1; rewrite len_app; unfold len at 2; simpl; lia).
              splits; try reflexivity; try assumption; cbn; try lia.
              -- apply (base_frame2 (set_chg sc true)); try reflexivity; [apply (b_hdr _ _ _ Bsc)|apply (b_size _ _ _ Bsc)|exact Bsc].
              -- congruence.
              -- rewrite Ccur, Cndb. replace (len L + 1 - 1) with (len L) by lia. subst L1. rewrite nthZ_snoc, Z.eqb_refl. reflexivity.
              -- unfold fsize in *. cbn. lia.
              -- unfold ext_cursor in *. cbn. rewrite Cndb. replace (len L + 1 - 1) with (len L) by lia. exact Cxc.
              -- intros c Hc1 Hc2. rewrite HlL1. symmetry. apply size2db_unique; [lia|]. rewrite Hm0 in Hc2. nia.
              -- right. reflexivity.
            * left. exists al0. unfold create_next. destruct (ndb s <? MAXDB); [|destruct (ndb s mod MAXDB =? 0)]; (split; [reflexivity|split; [reflexivity|right; eexists; reflexivity]]).
          + (* inside the file on a block boundary *)
            right. assert (Hlt : pos s < fsize s) by lia.
            assert (Hcz : cur s <> 0) by (destruct C as [(Hz & _)|(Hcu & Hnn & _)]; [lia|]; pose proof (cur_nonzero s L E I ltac:(lia) Hcu ltac:(lia)); lia).
            destruct (normal_facts s L E I Hcz) as (Hcu & Hnn & Hpp & Hpi & Hle).
            pose proof (pind_mod s L E I Hcz) as Hpm. rewrite Hm0 in Hpm.
            destruct (Z.eqb_spec (pind s) bs) as [Hb|Hb].
            * (* the next block is fetched *)
              destruct (advance_ok s L E ct I R Hcz Hb Hlt) as (sn & Hrn & I1 & R1 & P1 & C1 & Pi1 & F1 & W1 & M1 & Cn).
              assert (Hset : (if chg s then set_chg (fio_flush bs ofs s) false else s) = settle s) by (unfold settle; rewrite Hw; reflexivity).
              pose proof (advance_fr s L E sn I Hrn) as HFr. pose proof (grows_refl L E al) as HGr.
              rewrite Hset, Hrn. exists (set_pind sn 0), al, L, E.
              assert (Heq : set_pind sn 0 = set_chg (set_pind sn 0) false) by (apply state_ext; try reflexivity; cbn; exact Cn).
              rewrite Heq. set (s1 := set_chg (set_pind sn 0) false) in *.
              destruct (normal_facts s1 L E I1 C1) as (Hcu1 & Hnn1 & Hpp1 & Hpi1 & Hle1).
              pose proof I1 as (B1 & HL1 & [(_ & Hz1 & _)|(_ & _ & _ & _ & _ & Hlen1 & _ & Hnx1 & Hxc1)]); [contradiction|].
              assert (Hf1 : fsize s1 = fsize s) by (unfold fsize; rewrite F1; reflexivity).
              splits; try reflexivity; try assumption; try lia; try congruence.
              -- apply base_dirty; [exact B1|congruence].
              -- intros c Hc1 Hc2. rewrite Hm0 in Hc2. rewrite Pi1 in Hpp1. destruct (Z.max_spec (fsize s) (pos s + c)) as [(Hmx & ->)|(Hmx & ->)]; [|rewrite HL1, Hf1; reflexivity].
                 symmetry. apply size2db_unique; [lia|]. destruct (size2db_spec (fsize s) Hsz0) as [Hs|[Hs _]]; [|lia]. rewrite <- Hf1, <- HL1 in Hs. nia.
              -- destruct R1 as (_ & Hr1). intros i Hi. apply Hr1. lia.
              -- left. reflexivity.
            * (* the buffered block starts here *)
              assert (Hp0 : pind s = 0) by (destruct (pind s =? bs); lia).
              assert (Heq : set_pind s 0 = s) by (apply state_ext; try reflexivity; cbn; congruence).
              rewrite Heq. exists s, al, L, E. pose proof (fr_refl (key :: L ++ E) s) as HFr. pose proof (grows_refl L E al) as HGr.
              destruct C as [(_ & Hz1 & _)|(_ & _ & _ & _ & _ & Hlen1 & _ & Hnx1 & Hxc1)]; [contradiction|].
              splits; try reflexivity; try assumption; try lia.
              -- apply base_dirty; assumption.
              -- intros c Hc1 Hc2. rewrite Hm0 in Hc2. destruct (Z.max_spec (fsize s) (pos s + c)) as [(Hmx & ->)|(Hmx & ->)]; [|exact HL].
                 symmetry. apply size2db_unique; [lia|]. destruct (size2db_spec (fsize s) Hsz0) as [Hs|[Hs _]]; [|lia]. rewrite <- HL in Hs. nia.
              -- destruct R as (_ & Hr). exact Hr.
              -- left. reflexivity.
        - (* inside a block *)
          right. exists s, al, L, E. pose proof (fr_refl (key :: L ++ E) s) as HFr. pose proof (grows_refl L E al) as HGr.
          assert (Hcz : cur s <> 0) by (destruct C as [(Hz & _ & Hp0 & _)|(Hcu & Hnn & _)]; [rewrite Hp0, Z.mod_0_l in Hm0 by lia; contradiction|]; pose proof (cur_nonzero s L E I ltac:(lia) Hcu ltac:(lia)); lia).
          destruct (normal_facts s L E I Hcz) as (Hcu & Hnn & Hpp & Hpi & Hle).
          pose proof (pind_mod s L E I Hcz) as Hpm. destruct (Z.eqb_spec (pind s) bs) as [Hb|Hb]; [contradiction|].
          destruct C as [(_ & Hz1 & _)|(_ & _ & _ & _ & _ & Hlen1 & _ & Hnx1 & Hxc1)]; [contradiction|].
          splits; try reflexivity; try assumption; try lia.
          -- apply base_dirty; assumption.
          -- intros c Hc1 Hc2. rewrite Hpm in Hc2. destruct (Z.max_spec (fsize s) (pos s + c)) as [(Hmx & ->)|(Hmx & ->)]; [|exact HL].
             symmetry. apply size2db_unique; [lia|]. destruct (size2db_spec (fsize s) Hsz0) as [Hs|[Hs Hs2]]; [|lia]. rewrite <- HL in Hs.
             assert (Hq : ndb s * bs <= len L * bs) by (apply Z.mul_le_mono_nonneg_r; lia). clear Hm0 He Hpm. lia.
          -- destruct R as (_ & Hr). exact Hr.
          -- left. reflexivity. }
      cbn [write_loop]. rewrite Hdata. rewrite <- Hdata.
      destruct Hprep as [(al1 & Hpr & Hal1 & Hwhy)|(s1 & al1 & L1 & E1 & Hpr & B1 & W1 & M1 & Hcu1 & Hn1 & P1 & Hpp1 & Hpi1 & Hle1 & Hf1 & Hlen1 & Hxc1 & Hnx1 & HL1 & Hr1 & Hal1 & Hwhy & HFr1 & HGr1)].
      + (* refused: nothing was written, the state is unchanged *)
        rewrite Hpr. cbn [negb]. exists s, 0, al1, L, E.
        splits; try reflexivity; try assumption; try lia; try apply fr_refl; try (subst al1; apply grows_tl; exact Hwhy).
        * apply repr_nothing; assumption.
        * intros _. subst al1. destruct Hwhy as [->|(r & ->)]; [exists []; right; split; [reflexivity|trivial]|exists []; left; reflexivity].
      + rewrite Hpr. cbn [negb].
        set (c := Z.min (Z.of_nat (length data)) (bs - pind s1)).
        assert (Hc : 0 < c <= len data /\ pind s1 + c <= bs) by (subst c; unfold len in *; rewrite Hpi1; lia).
        set (chunk := firstn (Z.to_nat c) data).
        assert (Hlch : len chunk = c) by (subst chunk; rewrite len_firstn_le by lia; lia).
        destruct (copy_ok s1 L1 E1 ct chunk B1 W1 Hcu1 Hn1 Hpp1 ltac:(rewrite Hpi1; lia) ltac:(rewrite Hlch; lia) ltac:(rewrite Hlch; lia) Hle1 Hlen1 Hxc1 Hnx1)
          as (I2 & R2 & P2 & F2 & W2 & M2 & Cg2 & Cz2 & Pi2).
        { rewrite Hlch, Hf1, P1. apply HL1; [lia|rewrite <- Hpi1; lia]. }
        { destruct R as (Hlct & _). rewrite Hf1. exact Hlct. }
        { rewrite Hf1. exact Hr1. }
        set (s2 := copy_step s1 chunk) in *.
        assert (Hs2eq : set_fh (set_chg (set_pind (set_pos (set_cdata s1 (set_d_bytes (cdata s1) (ovw (d_bytes (cdata s1)) (pind s1) chunk))) (pos s1 + c)) (pind s1 + c)) true)
                          (set_h_size (fh s1) (Z.max (fsize s1) (pos s1 + c))) = s2) by (subst s2; unfold copy_step; rewrite Hlch; reflexivity).
        fold c. fold chunk. rewrite Hs2eq.
        destruct (IH s2 (skipn (Z.to_nat c) data) al1 L1 E1 (ovw ct (pos s1) chunk) I2 R2 ltac:(congruence) Hal1) as (s3 & w & al3 & L3 & E3 & Hwl & I3 & R3 & P3 & Hw3 & W3 & M3 & Hal3 & Hwhy3 & HFr3 & HGr3).
        { intros Hrest. assert (Hlr : len (skipn (Z.to_nat c) data) = len data - c) by (unfold len; rewrite skipn_length; unfold len in Hc; lia).
          rewrite Hlr in *. assert (Hcfull : c = bs - pind s1) by (subst c; unfold len in *; lia).
          rewrite P2, Hlch, P1. assert (Hmod0 : (pos s + c) mod bs = 0).
          { rewrite P1 in Hpp1. rewrite Hpp1, Hcfull. replace ((ndb s1 - 1) * bs + pind s1 + (bs - pind s1)) with (ndb s1 * bs + 0) by lia. apply mod_block. lia. }
          rewrite Hmod0. rewrite Hpi1 in Hcfull. lia. }
        assert (HGr : Grows L E L3 E3 al al3) by (apply (grows_trans L E L1 E1 L3 E3 al al1 al3 HGr1 HGr3)).
        assert (HFr : Fr (key :: L3 ++ E3) s s3).
        { apply (fr_trans2 (key :: L1 ++ E1) _ s s1 s3 (incl_key _ _ (grows_incl _ _ _ _ _ _ HGr3)) HFr1).
          apply (fr_trans _ s1 s2 s3); [apply fr_dk; reflexivity|exact HFr3]. }
        rewrite Hwl. exists s3, (c + w), al3, L3, E3.
        assert (Hlr : len (skipn (Z.to_nat c) data) = len data - c) by (unfold len; rewrite skipn_length; unfold len in Hc; lia).
        splits; try reflexivity; try assumption; try lia.
        * (* the bytes stored so far *)
          rewrite P2, Hlch in R3. rewrite P1 in R3. replace (pos s + c) with (pos s + len chunk) in R3 by lia.
          rewrite ovw_ovw in R3 by (destruct R as (Hlct & _); lia). subst chunk. rewrite firstn_app_skipn in R3.
          replace (Z.to_nat (c + w)) with (Z.to_nat c + Z.to_nat w)%nat by lia. exact R3.
        * congruence.
        * intros Hfull. apply Hal3. lia.
        * intros Hshort. destruct (Hwhy3 ltac:(lia)) as (r & [Hx|(Hx & _)]).
          -- destruct Hwhy as [->| ->]; [exists r; left; exact Hx|]. destruct al as [|a al0]; [cbn in Hx; destruct r; discriminate|]. exists (a :: r). left. cbn in Hx. rewrite Hx. reflexivity.
          -- exists []. right. split; [exact Hx|trivial].
  Qed.

  Lemma write_loop_ok : forall fuel s data al L E ct, Inv s L E -> Repr s L ct -> mw s = true -> al_ok L E al ->
    (0 < len data -> len data + pos s mod bs <= Z.of_nat fuel * bs) ->
    exists s' w al' L' E', write_loop bs ofs nobad fuel s data al = (s', w, al') /\ Inv s' L' E'
      /\ Repr s' L' (ovw ct (pos s) (firstn (Z.to_nat w) data)) /\ pos s' = pos s + w /\ 0 <= w <= len data /\ mw s' = true /\ mr s' = mr s
      /\ (w = len data -> al_ok L' E' al') /\ (w < len data -> exists r, al = r ++ None :: al' \/ (al' = [] /\ True)).
  Proof.
    intros fuel s data al L E ct I R Hw Hal Hf.
    destruct (write_loop_ok_fr fuel s data al L E ct I R Hw Hal Hf) as (s' & w & al' & L' & E' & H1 & H2 & H3 & H4 & H5 & H6 & H7 & H8 & H9 & _).
    exists s', w, al', L', E'. splits; try assumption; lia.
  Qed.

  Theorem fio_write_ok_fr s L E ct data al : Inv s L E -> Repr s L ct -> mw s = true -> al_ok L E al ->
    exists s' w al' L' E', fio_write bs ofs nobad s data al = (s', w, al') /\ Inv s' L' E'
      /\ Repr s' L' (ovw ct (pos s) (firstn (Z.to_nat w) data)) /\ pos s' = pos s + w /\ 0 <= w <= len data /\ mw s' = true /\ mr s' = mr s
      /\ (w = len data -> al_ok L' E' al') /\ (w < len data -> exists r, al = r ++ None :: al' \/ (al' = [] /\ True))
      /\ Fr (key :: L' ++ E') s s' /\ Grows L E L' E' al al'.
  Proof.
    intros I R Hw Hal. unfold fio_write. rewrite Hw, (write_guard_off s L E I). cbn [negb orb].
    apply (write_loop_ok_fr _ s data al L E ct I R Hw Hal).
    intros Hd. fold (len data). pose proof (Z.mod_pos_bound (pos s) bs Hbs). pose proof (Z.div_mod (len data) bs ltac:(lia)).
    pose proof (Z.mod_pos_bound (len data) bs Hbs). pose proof (Z.div_pos (len data) bs ltac:(lia) Hbs). rewrite Z2Nat.id by lia. nia.
  Qed.

  Theorem fio_write_ok s L E ct data al : Inv s L E -> Repr s L ct -> mw s = true -> al_ok L E al ->
    exists s' w al' L' E', fio_write bs ofs nobad s data al = (s', w, al') /\ Inv s' L' E'
      /\ Repr s' L' (ovw ct (pos s) (firstn (Z.to_nat w) data)) /\ pos s' = pos s + w /\ 0 <= w <= len data /\ mw s' = true /\ mr s' = mr s
      /\ (w = len data -> al_ok L' E' al') /\ (w < len data -> exists r, al = r ++ None :: al' \/ (al' = [] /\ True)).
  Proof.
    intros I R Hw Hal. unfold fio_write. rewrite Hw, (write_guard_off s L E I). cbn [negb orb].
    apply (write_loop_ok _ s data al L E ct I R Hw Hal).
    intros Hd. fold (len data). pose proof (Z.mod_pos_bound (pos s) bs Hbs). pose proof (Z.div_mod (len data) bs ltac:(lia)).
    pose proof (Z.mod_pos_bound (len data) bs Hbs). pose proof (Z.div_pos (len data) bs ltac:(lia) Hbs). rewrite Z2Nat.id by lia. nia.
  Qed.

  Theorem fio_write_readonly s data al : mw s = false -> fio_write bs ofs nobad s data al = (s, 0, al).
  Proof. intros Hw. unfold fio_write. rewrite Hw. reflexivity. Qed.

  (* ---- adfFileFlush / adfFileClose, then adfFileOpen: a later handle finds the same file ---- *)
  Lemma zero_d_len : len (d_bytes (zero_d bs)) = bs.
  Proof. unfold zero_d, len. cbn. rewrite zerosZ_length. lia. Qed.

  Theorem close_open_ok s L E ct r w : Inv s L E -> Repr s L ct -> mw s = true ->
    exists s', fio_open bs ofs nobad (fio_close bs ofs s) key r w = (true, s') /\ Inv s' L E /\ Repr s' L ct /\ pos s' = 0
      /\ fsize s' = fsize s /\ mr s' = r /\ mw s' = w /\ chg s' = false.
  Proof.
    intros I R Hw. destruct (flush_inv s L E I Hw) as (If & Hcf & (Spos & Spinx & Spind & Sndb & Scur & Scext & Sfh & Smw & Smr & Sby & Snx) & Htr & Hkey).
    set (f := set_chg (fio_flush bs ofs s) false) in *.
    assert (Rf : Repr f L ct) by (apply (repr_same s f L ct); [unfold fsize; rewrite Sfh; reflexivity|destruct I as (_ & HL & _); exact HL|exact Htr|exact R]).
    unfold fio_open, fio_close. change (dk (fio_flush bs ofs s)) with (dk f). rewrite Hkey.
    set (s0 := init_handle bs (dk f) (fh s) r w).
    unfold fio_seek. rewrite seek_gen_unfold. change (cur s0) with 0. cbn [Z.eqb negb andb]. rewrite andb_false_r.
    unfold seek_tail. change (cur s0) with 0. cbn [Z.eqb negb andb]. unfold settle. change (chg s0) with false. rewrite andb_false_r. cbn [Z.eqb].
    pose proof If as (Bf & HLf & _).
    assert (C0 : CB s0 L E).
    { split; [|split; [|reflexivity]].
      - apply (cb_frame f (init_handle bs (dk f) (fh s) r w) L E (inv_cb f L E If Hcf)); [reflexivity|reflexivity|exact Logic.I|exact (eq_sym Sfh)].
      - unfold fsize. cbn. unfold fsize in HLf. rewrite Sfh in HLf. exact HLf. }
    destruct (seek_start_cb s0 L E C0 Logic.I zero_d_len) as (s' & Hss & I' & P' & C' & D' & F' & W' & M' & _).
    exists s'. split; [exact Hss|]. splits; try assumption.
    - apply (repr_clean f s' L E ct); try assumption. rewrite F'. exact (eq_sym Sfh).
    - unfold fsize. rewrite F'. reflexivity.
  Qed.

  (* ---- opening a file as it lies on ANY volume (C06): header `key`, data blocks L and extension blocks E placed anywhere, in any order,
          fragmented or not; ct = the bytes the tables lead to ---- *)
  Definition on_disk (d : disk) (L E ct : list Z) : Prop :=
    (exists h, d key = BHdr h /\ hdr_ok h L E /\ h_size h = len ct)
    /\ len L = size2db (len ct) bs /\ len E = db2ext (len L) /\ NoDup (key :: L ++ E) /\ (forall b, In b (L ++ E) -> 2 <= b)
    /\ (forall j, 0 <= j < len E -> d (nthZ E j) = BExt (enc_x L E j))
    /\ (forall k, 0 <= k < len L -> exists dd, d (nthZ L k) = BData dd /\ len (d_bytes dd) = bs /\ (ofs = true -> k + 1 < len L -> d_next dd = nthZ L (k + 1))
                                      /\ forall o, 0 <= o < bs -> k * bs + o < len ct -> nthZ ct (k * bs + o) = nthZ (d_bytes dd) o).

  Theorem open_image_ok d L E ct r w : on_disk d L E ct ->
    exists s', fio_open bs ofs nobad d key r w = (true, s') /\ Inv s' L E /\ Repr s' L ct /\ pos s' = 0 /\ dk s' = d /\ mr s' = r /\ mw s' = w.
  Proof.
    intros ((h & Hdk & Hh & Hsz) & HL & HE & Hnd & Hge & Hx & Hd).
    unfold fio_open. rewrite Hdk. set (s0 := init_handle bs d h r w).
    unfold fio_seek. rewrite seek_gen_unfold. change (cur s0) with 0. cbn [Z.eqb negb andb]. rewrite andb_false_r.
    unfold seek_tail. change (cur s0) with 0. cbn [Z.eqb negb andb]. unfold settle. change (chg s0) with false. rewrite andb_false_r. cbn [Z.eqb].
    assert (C0 : CB s0 L E).
    { split; [|split; [|reflexivity]].
      - constructor.
        + exact Hh.
        + unfold fsize. change (fh s0) with h. rewrite Hsz. apply len_nonneg.
        + exact HE.
        + exact Hnd.
        + exact Hge.
        + exact Logic.I.
        + intros j Hj. left. exact (Hx j Hj).
        + intros k Hk. right. destruct (Hd k Hk) as (dd & H1 & H2 & H3 & _). exists dd. splits; assumption.
        + intros Hc. discriminate Hc.
      - unfold fsize. change (fh s0) with h. rewrite Hsz. exact HL. }
    destruct (seek_start_cb s0 L E C0 Logic.I zero_d_len) as (s' & Hss & I' & P' & C' & D' & F' & W' & M' & _).
    exists s'. split; [exact Hss|]. splits; try assumption.
    unfold Repr. assert (Hfs : fsize s' = len ct) by (unfold fsize; rewrite F'; exact Hsz). split; [symmetry; exact Hfs|].
    intros i Hi. rewrite Hfs in Hi. unfold byte_at.
    assert (Hk : 0 <= i / bs < len L) by (rewrite HL; apply idx_in_range; exact Hi).
    destruct (clean_disk s' L E (i / bs) I' C' Hk) as (dd' & H1' & _ & _ & H4'). rewrite H4'.
    destruct (Hd (i / bs) Hk) as (dd & H1 & _ & _ & Hby). assert (D2 : dk s' = d) by (rewrite D'; reflexivity). rewrite D2, H1 in H1'. assert (dd' = dd) as -> by congruence.
    pose proof (Z.mod_pos_bound i bs Hbs) as Hm. pose proof (Z.div_mod i bs ltac:(lia)) as Hdm.
    rewrite <- (Hby (i mod bs) Hm) by lia. f_equal. lia.
  Qed.

  (* ... and reading n bytes at offset p through a handle opened on it returns the slice of the content *)
  Theorem read_image_slice d L E ct w p n : on_disk d L E ct -> 0 <= p -> 0 <= n ->
    exists s1 s2 s3 rd, fio_open bs ofs nobad d key true w = (true, s1) /\ fio_seek bs ofs nobad s1 p = (true, s2) /\ fio_read bs ofs nobad s2 n = (s3, rd)
      /\ rd = sub ct (Z.min p (len ct)) (Z.max 0 (Z.min n (len ct - Z.min p (len ct)))) /\ pos s3 = Z.min p (len ct) + len rd.
  Proof.
    intros Hod Hp Hn. destruct (open_image_ok d L E ct true w Hod) as (s1 & Ho & I1 & R1 & P1 & D1 & Mr1 & Mw1).
    destruct (fio_seek_ok s1 L E ct p I1 R1 Hp) as (s2 & Hsk & I2 & R2 & P2 & F2 & W2 & M2).
    destruct (fio_read_ok s2 L E ct n I2 R2 Hn) as (s3 & rd & Hrd & I3 & R3 & Hres).
    cbv zeta in Hres. rewrite M2, Mr1 in Hres. destruct Hres as (Hr & P3 & _).
    assert (Hfs : fsize s1 = len ct) by (destruct R1 as (Hl & _); symmetry; exact Hl).
    assert (Hfs2 : fsize s2 = len ct) by (unfold fsize in *; rewrite F2; exact Hfs).
    rewrite Hfs2, P2, Hfs in Hr, P3.
    exists s1, s2, s3, rd. splits; try assumption.
    rewrite P3, Hr. set (m := Z.min p (len ct)). pose proof (len_nonneg ct).
    rewrite len_sub by (subst m; lia). reflexivity.
  Qed.

  (* ---- a new file ---- *)
  Theorem fio_new_ok d r w : Inv (fio_new bs d key r w) [] [] /\ Repr (fio_new bs d key r w) [] [] /\ pos (fio_new bs d key r w) = 0.
  Proof.
    unfold fio_new, init_handle. splits; try reflexivity.
    - split; [|split].
      + constructor.
        * unfold hdr_ok. cbn -[zerosZ subZ]. splits; reflexivity.
        * unfold fsize. cbn. lia.
        * reflexivity.
        * cbn. constructor; [intros []|constructor].
        * intros b [].
        * cbn. exact Logic.I.
        * intros j Hj. unfold len in Hj. simpl in Hj. lia.
        * intros k Hk. unfold len in Hk. simpl in Hk. lia.
        * cbn. discriminate.
      + unfold fsize. cbn -[size2db]. rewrite size2db_0. reflexivity.
      + left. unfold fsize. cbn -[zero_d]. splits; try reflexivity. apply zero_d_len.
    - split; [reflexivity|]. unfold fsize. cbn. intros i Hi. lia.
  Qed.

  (* ---- adfFileTruncate: same size (a seek) and growing (adfFileWriteFilled with zeros); shrinking is tied by the correspondence only ---- *)
  Lemma write_filled_ok_fr : forall fuel s size al L E ct, Inv s L E -> Repr s L ct -> mw s = true -> pos s = fsize s -> al_ok L E al -> 0 <= size ->
    exists s' w al' L' E', write_filled bs ofs nobad fuel s size al = (s', w, al') /\ Inv s' L' E' /\ Repr s' L' (ct ++ zerosZ w) /\ 0 <= w <= size
      /\ pos s' = fsize s' /\ fsize s' = fsize s + w /\ mw s' = true /\ mr s' = mr s
      /\ Fr (key :: L' ++ E') s s' /\ Grows L E L' E' al al'.
  Proof.
    induction fuel as [|fuel IH]; intros s size al L E ct I R Hw Hp Hal Hsz.
    - exists s, 0, al, L, E. cbn [write_filled]. change (zerosZ 0) with (@nil Z). rewrite app_nil_r. splits; try reflexivity; try assumption; try lia; try apply fr_refl; try apply grows_refl.
    - cbn [write_filled]. destruct (Z.leb_spec size 0).
      { exists s, 0, al, L, E. change (zerosZ 0) with (@nil Z). rewrite app_nil_r. splits; try reflexivity; try assumption; try lia; try apply fr_refl; try apply grows_refl. }
      set (cl := Z.min size 4096).
      destruct (fio_write_ok_fr s L E ct (zerosZ cl) al I R Hw Hal) as (s1 & w & al1 & L1 & E1 & Hfw & I1 & R1 & P1 & Hw1 & W1 & M1 & Hal1 & Hwhy1 & HFr1 & HGr1).
      rewrite Hfw. rewrite len_zerosZ in Hw1 by (subst cl; lia).
      assert (Hlct : len ct = fsize s) by (destruct R as (Hl & _); exact Hl).
      assert (Hct1 : ovw ct (pos s) (firstn (Z.to_nat w) (zerosZ cl)) = ct ++ zerosZ w).
      { rewrite Hp, <- Hlct, ovw_end. rewrite firstn_zerosZ by lia. reflexivity. }
      rewrite Hct1 in R1.
      assert (Hf1 : fsize s1 = fsize s + w).
      { destruct R1 as (Hl1 & _). rewrite len_app, len_zerosZ in Hl1 by lia. lia. }
      destruct (Z.eqb_spec w cl) as [Hfull|Hshort]; cbn [negb].
      + destruct (IH s1 (size - cl) al1 L1 E1 (ct ++ zerosZ w) I1 R1 W1 ltac:(lia) (Hal1 ltac:(rewrite len_zerosZ by (subst cl; lia); exact Hfull)) ltac:(subst cl; lia))
          as (s2 & w2 & al2 & L2 & E2 & Hwf & I2 & R2 & Hw2 & P2 & F2 & W2 & M2 & HFr2 & HGr2).
        assert (HGr : Grows L E L2 E2 al al2) by (apply (grows_trans L E L1 E1 L2 E2 al al1 al2 HGr1 HGr2)).
        assert (HFr : Fr (key :: L2 ++ E2) s s2) by (apply (fr_trans2 (key :: L1 ++ E1) _ s s1 s2 (incl_key _ _ (grows_incl _ _ _ _ _ _ HGr2)) HFr1 HFr2)).
        rewrite Hwf. exists s2, (w + w2), al2, L2, E2. rewrite <- app_assoc, zerosZ_app in R2 by lia.
        splits; try reflexivity; try assumption; try lia; try congruence.
      + exists s1, w, al1, L1, E1. splits; try reflexivity; try assumption; try lia.
  Qed.

  Lemma write_filled_ok : forall fuel s size al L E ct, Inv s L E -> Repr s L ct -> mw s = true -> pos s = fsize s -> al_ok L E al -> 0 <= size ->
    exists s' w al' L' E', write_filled bs ofs nobad fuel s size al = (s', w, al') /\ Inv s' L' E' /\ Repr s' L' (ct ++ zerosZ w) /\ 0 <= w <= size
      /\ pos s' = fsize s' /\ fsize s' = fsize s + w /\ mw s' = true /\ mr s' = mr s.
  Proof.
    intros fuel s size al L E ct I R Hw Hp Hal Hsz.
    destruct (write_filled_ok_fr fuel s size al L E ct I R Hw Hp Hal Hsz) as (s' & w & al' & L' & E' & H1 & H2 & H3 & H4 & H5 & H6 & H7 & H8 & _).
    exists s', w, al', L', E'. splits; try assumption; lia.
  Qed.

  Theorem fio_truncate_same_ok s L E ct al : Inv s L E -> Repr s L ct -> mw s = true ->
    exists s', fio_truncate bs ofs nobad s (fsize s) al = (true, s', [], al) /\ Inv s' L E /\ Repr s' L ct /\ pos s' = fsize s /\ fsize s' = fsize s.
  Proof.
    intros I R Hw. unfold fio_truncate. rewrite Hw, Z.eqb_refl. cbn [negb]. pose proof I as (B & _).
    destruct (fio_seek_ok s L E ct (fsize s) I R (b_size _ _ _ B)) as (s' & Hsk & I' & R' & P' & F' & _).
    rewrite Hsk. exists s'. splits; try reflexivity; try assumption.
    - rewrite P'. lia.
    - unfold fsize. rewrite F'. reflexivity.
  Qed.

  Theorem fio_truncate_grow_ok s L E ct al sizeNew : Inv s L E -> Repr s L ct -> mw s = true -> al_ok L E al -> fsize s < sizeNew ->
    exists ok s' al' L' E' w, fio_truncate bs ofs nobad s sizeNew al = (ok, s', [], al') /\ Inv s' L' E' /\ Repr s' L' (ct ++ zerosZ w)
      /\ 0 <= w <= sizeNew - fsize s /\ (ok = true <-> w = sizeNew - fsize s) /\ pos s' = fsize s' /\ fsize s' = fsize s + w.
  Proof.
    intros I R Hw Hal Hgt. unfold fio_truncate. rewrite Hw. cbn [negb]. destruct (Z.eqb_spec sizeNew (fsize s)); [lia|].
    destruct (Z.ltb_spec (fsize s) sizeNew); [|lia]. pose proof I as (B & _). pose proof (b_size _ _ _ B) as Hsz.
    destruct (fio_seek_ok s L E ct (fsize s) I R Hsz) as (s1 & Hsk & I1 & R1 & P1 & F1 & W1 & M1).
    rewrite Hsk. cbn [negb]. assert (Hf1 : fsize s1 = fsize s) by (unfold fsize; rewrite F1; reflexivity).
    destruct (write_filled_ok (Z.to_nat ((sizeNew - fsize s) / 4096 + 2)) s1 (sizeNew - fsize s) al L E ct I1 R1 ltac:(congruence) ltac:(rewrite P1, Hf1; lia) Hal ltac:(lia))
      as (s2 & w & al2 & L2 & E2 & Hwf & I2 & R2 & Hw2 & P2 & F2 & W2 & M2).
    rewrite Hwf. exists (w =? sizeNew - fsize s), s2, al2, L2, E2, w. splits; try reflexivity; try assumption; try lia.
  Qed.

  (* ---- the frame of adfFileTruncate when the file keeps its size or grows (C18) ---- *)
  Theorem fio_truncate_same_fr s L E al : Inv s L E -> Fr (key :: L ++ E) s (snd (fst (fst (fio_truncate bs ofs nobad s (fsize s) al)))).
  Proof.
    intros I. unfold fio_truncate. destruct (mw s); cbn [negb fst snd]; [|apply fr_refl]. rewrite Z.eqb_refl.
    pose proof (fio_seek_frame s L E (fsize s) I) as H. destruct (fio_seek bs ofs nobad s (fsize s)) as (ok, s1). exact H.
  Qed.

  Theorem fio_truncate_grow_fr s L E ct al sizeNew : Inv s L E -> Repr s L ct -> mw s = true -> al_ok L E al -> fsize s < sizeNew ->
    exists ok s' al' L' E', fio_truncate bs ofs nobad s sizeNew al = (ok, s', [], al') /\ Inv s' L' E' /\ Fr (key :: L' ++ E') s s' /\ Grows L E L' E' al al'.
  Proof.
    intros I R Hw Hal Hgt. unfold fio_truncate. rewrite Hw. cbn [negb]. destruct (Z.eqb_spec sizeNew (fsize s)); [lia|].
    destruct (Z.ltb_spec (fsize s) sizeNew); [|lia]. pose proof I as (B & _). pose proof (b_size _ _ _ B) as Hsz.
    pose proof (fio_seek_frame s L E (fsize s) I) as Hfr0.
    destruct (fio_seek_ok s L E ct (fsize s) I R Hsz) as (s1 & Hsk & I1 & R1 & P1 & F1 & W1 & M1).
    rewrite Hsk in *. cbn [negb snd] in *. assert (Hf1 : fsize s1 = fsize s) by (unfold fsize; rewrite F1; reflexivity).
    destruct (write_filled_ok_fr (Z.to_nat ((sizeNew - fsize s) / 4096 + 2)) s1 (sizeNew - fsize s) al L E ct I1 R1 ltac:(congruence) ltac:(rewrite P1, Hf1; lia) Hal ltac:(lia))
      as (s2 & w & al2 & L2 & E2 & Hwf & I2 & R2 & Hw2 & P2 & F2 & W2 & M2 & HFr2 & HGr2).
    rewrite Hwf. exists (w =? sizeNew - fsize s), s2, al2, L2, E2. splits; try reflexivity; try assumption.
    apply (fr_trans2 (key :: L ++ E) _ s s1 s2 (incl_key _ _ (grows_incl _ _ _ _ _ _ HGr2)) Hfr0 HFr2).
  Qed.

  (* ---- exhaustion: a refused allocation changes nothing (C08) ---- *)
  Lemma create_next_refused s : create_next bs ofs s None = (false, s).
  Proof. unfold create_next. destruct (ndb s <? MAXDB); [reflexivity|]. destruct (ndb s mod MAXDB =? 0); reflexivity. Qed.

  Theorem fio_write_refused s data al : mw s = true -> (cur s <> 0 \/ fsize s = 0) -> pos s mod bs = 0 -> pos s = fsize s -> data <> [] ->
    fio_write bs ofs nobad s data (None :: al) = (s, 0, al) /\ fio_write bs ofs nobad s data [] = (s, 0, []).
  Proof.
    intros Hw Hg Hm Hp Hd. unfold fio_write. rewrite Hw.
    assert (Hgo : (cur s =? 0) && (0 <? fsize s) = false) by (destruct Hg as [Hg|Hg]; [destruct (Z.eqb_spec (cur s) 0); [contradiction|reflexivity]|rewrite Hg, andb_false_r; reflexivity]).
    rewrite Hgo. cbn [negb orb].
    assert (Hf : exists f, Z.to_nat (Z.of_nat (length data) / bs + 2) = S f).
    { assert (0 <= Z.of_nat (length data) / bs) by (apply Z.div_pos; lia). exists (Z.to_nat (Z.of_nat (length data) / bs + 1)). lia. }
    destruct Hf as (f & ->). destruct data as [|b0 d0]; [contradiction|]. cbn [write_loop].
    rewrite Hm, Hp, !Z.eqb_refl. cbn [tl]. rewrite create_next_refused. split; reflexivity.
  Qed.

  (* ---- device read failures (C19): whatever blocks the device refuses to read, a read call returns only true bytes ---- *)
  Section Faults.
    Variable bad : Z -> bool.

    Lemma rd_data_mono t n d : rd_data bs bad t n = Some d -> rd_data bs nobad t n = Some d.
    Proof. unfold rd_data, nobad. destruct (n <? 1); [discriminate|]. destruct (bad n); [discriminate|]. cbn [orb]. trivial. Qed.

    Lemma rd_ext_mono t n x : rd_ext bad t n = Some x -> rd_ext nobad t n = Some x.
    Proof. unfold rd_ext, nobad. destruct (bad n); [discriminate|]. trivial. Qed.

    Lemma load_ext_mono t n t' : load_ext bad t n = (true, t') -> load_ext nobad t n = (true, t').
    Proof. unfold load_ext. destruct (rd_ext bad t n) eqn:Hr; [|discriminate]. rewrite (rd_ext_mono _ _ _ Hr). trivial. Qed.

    (* a block fetch that succeeds on the faulty device is the fetch of the fault-free device *)
    Lemma read_next_mono t t' : read_next bs ofs bad t = (true, t') -> read_next bs ofs nobad t = (true, t').
    Proof.
      unfold read_next. destruct (ndb t =? 0).
      - destruct (_ <? 2); [discriminate|]. destruct (rd_data bs bad t _) eqn:Hr; [|discriminate]. rewrite (rd_data_mono _ _ _ Hr). trivial.
      - destruct (ndb t <? MAXDB).
        + destruct (_ <? 2); [discriminate|]. destruct (rd_data bs bad t _) eqn:Hr; [|discriminate]. rewrite (rd_data_mono _ _ _ Hr). trivial.
        + destruct (ndb t =? MAXDB).
          * destruct (load_ext bad _ _) as [[|] sx] eqn:Hl; [|cbn; discriminate]. rewrite (load_ext_mono _ _ _ Hl). cbn -[Z.ltb].
            destruct (_ <? 2); [discriminate|]. destruct (rd_data bs bad _ _) eqn:Hr; [|discriminate]. rewrite (rd_data_mono _ _ _ Hr). trivial.
          * destruct (pinx t =? MAXDB).
            -- destruct (load_ext bad _ _) as [[|] sx] eqn:Hl; [|cbn; discriminate]. rewrite (load_ext_mono _ _ _ Hl). cbn -[Z.ltb].
               destruct (_ <? 2); [discriminate|]. destruct (rd_data bs bad _ _) eqn:Hr; [|discriminate]. rewrite (rd_data_mono _ _ _ Hr). trivial.
            -- cbn -[Z.ltb]. destruct (_ <? 2); [discriminate|]. destruct (rd_data bs bad _ _) eqn:Hr; [|discriminate]. rewrite (rd_data_mono _ _ _ Hr). trivial.
    Qed.

    Lemma ext_walk_mono : forall fuel t nsect i ext t' i', ext_walk bad fuel t nsect i ext = (true, t', i') -> ext_walk nobad fuel t nsect i ext = (true, t', i').
    Proof.
      induction fuel as [|f IH]; intros t nsect i ext t' i' H; [exact H|]. cbn [ext_walk] in *.
      destruct ((i <? ext) && negb (nsect =? 0)); [|exact H].
      destruct (rd_ext bad t nsect) as [x|] eqn:Hr; [|discriminate]. rewrite (rd_ext_mono _ _ _ Hr). apply IH, H.
    Qed.

    Lemma read_ext_n_mono t ext t' : read_ext_n bs bad t ext = (true, t') -> read_ext_n bs nobad t ext = (true, t').
    Proof.
      unfold read_ext_n. destruct (_ || _); [discriminate|].
      destruct (ext_walk bad _ t _ _ _) as ((ok, t1), i) eqn:Hw. destruct ok; [|cbn; discriminate].
      rewrite (ext_walk_mono _ _ _ _ _ _ _ Hw). trivial.
    Qed.

    Lemma seek_start_mono t t' : seek_start bs ofs bad t = (true, t') -> seek_start bs ofs nobad t = (true, t').
    Proof.
      unfold seek_start. set (t0 := set_cur _ 0). destruct (fsize t0 =? 0); [trivial|].
      destruct (read_next bs ofs bad t0) as [[|] t1] eqn:Hr; [|discriminate]. rewrite (read_next_mono _ _ Hr). trivial.
    Qed.

    Lemma seek_mid_mono t t' : seek_mid bs bad t = (true, t') -> seek_mid bs nobad t = (true, t').
    Proof.
      unfold seek_mid. destruct (pos2db (pos t) bs) as (((ext, px), pd), k).
      set (t1 := set_ndb _ k).
      destruct (ext =? -1).
      - cbn [negb]. destruct (_ <? 2); [discriminate|]. destruct (rd_data bs bad _ _) eqn:Hr; [|discriminate]. rewrite (rd_data_mono _ _ _ Hr). trivial.
      - set (t1' := match cext t1 with None => _ | Some _ => t1 end).
        destruct (read_ext_n bs bad t1' ext) as [[|] tx] eqn:Hx; [|cbn; discriminate]. rewrite (read_ext_n_mono _ _ _ Hx). cbn [negb].
        destruct (_ <? 2); [discriminate|]. destruct (rd_data bs bad _ _) eqn:Hr; [|discriminate]. rewrite (rd_data_mono _ _ _ Hr). trivial.
    Qed.

    (* without the OFS fallback (FFS), a seek that reports success under the faulty device is the seek of the fault-free device *)
    Lemma seek_gen_mono eofk eofk0 t p t' : ofs = false -> (forall u u', eofk u = (true, u') -> eofk0 u = (true, u')) ->
      seek_gen bs ofs bad eofk t p = (true, t') -> seek_gen bs ofs nobad eofk0 t p = (true, t').
    Proof.
      intros Hofs He. assert (Hfb : forall b0 e r q, seek_fb bs ofs b0 e r q = r) by (intros; unfold seek_fb; rewrite Hofs, andb_false_r; reflexivity).
      unfold seek_gen. rewrite !Hfb.
      destruct (_ && _ && _); [trivial|]. destruct (_ && _); [trivial|].
      set (t1 := if mw t && chg t then _ else t).
      destruct (p =? 0); [apply seek_start_mono|].
      set (t2 := set_pos t1 _). destruct (pos t2 =? fsize t2); [apply He|apply seek_mid_mono].
    Qed.

    Lemma seek_eof_mono t t' : ofs = false -> seek_eof bs ofs bad t = (true, t') -> seek_eof bs ofs nobad t = (true, t').
    Proof.
      intros Hofs. unfold seek_eof. destruct (fsize t =? 0); [apply seek_start_mono|].
      destruct (seek_gen bs ofs bad _ t (fsize t - 1)) as [[|] t1] eqn:Hg; [|cbn; discriminate].
      rewrite (seek_gen_mono (fun u => (false, u)) (fun u => (false, u)) t (fsize t - 1) t1 Hofs (fun u u' H => H) Hg). trivial.
    Qed.

    Theorem fio_seek_faulty_ffs s L E ct p s' : ofs = false -> Inv s L E -> Repr s L ct -> 0 <= p ->
      fio_seek bs ofs bad s p = (true, s') -> fio_seek bs ofs nobad s p = (true, s') /\ seek_post s s' L E ct (Z.min p (fsize s)).
    Proof.
      intros Hofs I R Hp H.
      assert (H0 : fio_seek bs ofs nobad s p = (true, s')).
      { unfold fio_seek in *. apply (seek_gen_mono (seek_eof bs ofs bad) (seek_eof bs ofs nobad) s p s' Hofs); [|exact H].
        intros u u' Hu. apply seek_eof_mono; assumption. }
      split; [exact H0|]. destruct (fio_seek_ok s L E ct p I R Hp) as (s1 & H1 & Hpost). rewrite H0 in H1. injection H1 as <-. exact Hpost.
    Qed.

    Lemma read_loop_faulty L E ct : forall fuel s n, Inv s L E -> Repr s L ct -> cur s <> 0 -> 0 <= n -> pos s + n <= fsize s ->
      exists s' r m, read_loop bs ofs bad fuel s n = (s', r) /\ 0 <= m <= n /\ r = sub ct (pos s) m /\ len r = m
        /\ pos s' = pos s + m /\ Fr (key :: L ++ E) s s'.
    Proof.
      induction fuel as [|fuel IH]; intros s n I R Hc Hn Hle.
      - exists s, [], 0. splits; try reflexivity; try apply fr_refl; lia.
      - cbn [read_loop]. destruct (Z.leb_spec n 0) as [Hz|Hz]; [exists s, [], 0; splits; try reflexivity; try apply fr_refl; lia|].
        assert (Hpos0 : 0 <= pos s) by (destruct (normal_facts s L E I Hc) as (_ & Hnn & Hp & Hpi & _); nia).
        assert (Hlct : len ct = fsize s) by (destruct R as (Hl & _); exact Hl).
        assert (Hprep : (exists sf, (if pind s =? bs
                                  then match read_next bs ofs bad (settle s) with
                                       | (true, sn) => (true, set_chg (set_pind sn 0) false)
                                       | (false, sn) => (false, set_cur sn 0)
                                       end
                                  else (true, s)) = (false, sf) /\ pos sf = pos s /\ Fr (key :: L ++ E) s sf)
                 \/ (exists s1, (if pind s =? bs
                                  then match read_next bs ofs bad (settle s) with
                                       | (true, sn) => (true, set_chg (set_pind sn 0) false)
                                       | (false, sn) => (false, set_cur sn 0)
                                       end
                                  else (true, s)) = (true, s1)
                      /\ Inv s1 L E /\ Repr s1 L ct /\ pos s1 = pos s /\ cur s1 <> 0 /\ 0 <= pind s1 < bs /\ fsize s1 = fsize s /\ Fr (key :: L ++ E) s s1)).
        { destruct (Z.eqb_spec (pind s) bs) as [Hb|Hb].
          - pose proof (read_next_dk bs ofs bad (settle s)) as Hdk. pose proof (read_next_pos bs ofs bad (settle s)) as Hps.
            destruct (settle_ok s L E I) as (_ & _ & (Spos & _) & _).
            destruct (read_next bs ofs bad (settle s)) as [[|] sn] eqn:Hrn; cbn [snd] in Hdk, Hps.
            2:{ left. eexists. split; [reflexivity|]. split; [cbn [pos set_cur]; rewrite Hps; exact Spos|].
                intros x Hx. cbn [dk set_cur]. rewrite Hdk. apply (settle_fr s L E I x Hx). }
            right. destruct (advance_ok s L E ct I R Hc Hb ltac:(lia)) as (sn0 & Hrn0 & I1 & R1 & P1 & C1 & Pi1 & F1 & W1 & M1 & _).
            pose proof (advance_fr s L E sn0 I Hrn0) as Hfr.
            rewrite (read_next_mono _ _ Hrn) in Hrn0. injection Hrn0 as <-.
            eexists. splits; try reflexivity; try assumption; cbn; try lia. unfold fsize. cbn. unfold fsize in *. cbn in F1. rewrite F1. reflexivity.
          - right. exists s. destruct (normal_facts s L E I Hc) as (_ & _ & _ & Hpi & _). splits; try reflexivity; try assumption; try apply fr_refl; lia. }
        unfold settle in Hprep. destruct Hprep as [(sf & Hpr & Hpf & Hff)|(s1 & Hpr & I1 & R1 & P1 & C1 & Hpi1 & F1 & Hfr1)]; rewrite Hpr; cbn [negb].
        + exists sf, [], 0. splits; try reflexivity; try assumption; lia.
        + set (size := Z.min n (bs - pind s1)).
          assert (Hsz : 0 < size <= n /\ pind s1 + size <= bs) by (subst size; lia).
          set (s2 := set_pind (set_pos s1 (pos s1 + size)) (pind s1 + size)).
          assert (I2 : Inv s2 L E).
          { destruct I1 as (B1 & HL1 & C1'). split; [|split].
            - apply (base_frame s1); try reflexivity. assumption.
            - exact HL1.
            - destruct C1' as [(_ & Hz0 & _)|(Hcu & Hnn & Hp & Hpi & Hps & Hlen & Hcl & Hnx & Hxc)]; [contradiction|].
              right. subst s2. unfold fsize, ext_cursor in *. cbn. splits; try assumption; try lia. }
          assert (R2 : Repr s2 L ct) by (apply (repr_frame s1); try reflexivity; assumption).
          destruct (IH s2 (n - size) I2 R2 C1 ltac:(lia)) as (s3 & r & m & Hrl & Hm & Hr & Hlr & Hp3 & Hfr3).
          { subst s2. unfold fsize in *. cbn. lia. }
          assert (Hfr : Fr (key :: L ++ E) s s3).
          { apply (fr_trans _ s s1 s3 Hfr1). apply (fr_trans _ s1 s2 s3); [apply fr_dk; reflexivity|exact Hfr3]. }
          assert (Hp : pos s3 = pos s + (size + m)) by (rewrite Hp3; subst s2; cbn; lia).
          fold size. fold s2. rewrite Hrl. exists s3, (sub (d_bytes (cdata s1)) (pind s1) size ++ r), (size + m).
          rewrite (chunk_ok s1 L E ct size I1 R1 C1) by lia. splits; try reflexivity; try assumption; try lia.
          * rewrite Hr. subst s2. cbn. rewrite P1. rewrite sub_app by lia. reflexivity.
          * rewrite len_app, Hlr. rewrite len_sub by lia. lia.
    Qed.

    Theorem fio_read_faulty s L E ct n : Inv s L E -> Repr s L ct -> 0 <= n ->
      exists s' r m, fio_read bs ofs bad s n = (s', r) /\ 0 <= m <= Z.max 0 (Z.min n (fsize s - pos s)) /\ r = sub ct (pos s) m /\ len r = m
        /\ pos s' = pos s + m /\ Fr (key :: L ++ E) s s'.
    Proof.
      intros I R Hn. pose proof I as (B & HL & C). pose proof (b_size _ _ _ B) as Hsz.
      assert (Hps : 0 <= pos s <= fsize s) by (destruct C as [(Hz & _ & Hp & _)|(_ & Hnn & Hp & Hpi & Hle & _)]; [lia|nia]).
      unfold fio_read, at_eof.
      destruct (negb (mr s) || (n =? 0) || (fsize s =? 0) || (pos s =? fsize s) || (cur s =? 0)) eqn:Hg.
      - exists s, [], 0. splits; try reflexivity; try apply fr_refl; lia.
      - repeat (apply orb_false_elim in Hg; destruct Hg as (Hg & ?)). destruct (Z.eqb_spec (cur s) 0) as [|Hc]; [discriminate|].
        destruct (Z.eqb_spec n 0); [discriminate|]. destruct (Z.eqb_spec (pos s) (fsize s)); [discriminate|].
        set (n' := if fsize s <? pos s + n then fsize s - pos s else n).
        assert (Hn' : n' = Z.max 0 (Z.min n (fsize s - pos s)) /\ 0 < n') by (subst n'; destruct (Z.ltb_spec (fsize s) (pos s + n)); lia).
        destruct Hn' as (Hk & Hpos').
        destruct (read_loop_faulty L E ct (Z.to_nat (n' / bs + 2)) s n' I R Hc ltac:(lia) ltac:(lia)) as (s' & r & m & Hrl & Hm & Hr & Hlr & Hp' & Hfr').
        exists s', r, m. rewrite <- Hk. splits; try assumption; lia.
    Qed.
  End Faults.

  (* ==== shrinking truncation ====
     adfFileTruncate sets the new size first and seeks to the new end while the block lists still hold the blocks that are about to be
     released: the seek lemmas are needed for a state whose lists are LONGER than its size demands (CBl), and they deliver the facts
     about the loaded block (Loaded) instead of the full invariant. *)
  Definition CBl (s : hstate) (L E : list Z) : Prop := Base s L E /\ size2db (fsize s) bs <= len L /\ chg s = false.

  Definition Loaded (t s' : hstate) (L E : list Z) (k : Z) : Prop :=
    dk s' = dk t /\ chg s' = false /\ cext_ok s' L E /\ fh s' = fh t /\ mw s' = mw t /\ mr s' = mr t /\
    0 <= k < len L /\ cur s' = nthZ L k /\ ndb s' = k + 1 /\ dk t (nthZ L k) = BData (cdata s') /\ ext_cursor s' L E k.

  Lemma cbl_data s L E k : CBl s L E -> 0 <= k < len L ->
    exists d, dk s (nthZ L k) = BData d /\ len (d_bytes d) = bs /\ (ofs = true -> k + 1 < len L -> d_next d = nthZ L (k + 1)).
  Proof. intros (B & _ & Hc) Hk. destruct (b_ddisk _ _ _ B k Hk) as [(_ & Hx)|H]; [congruence|exact H]. Qed.

  Lemma cbl_ext s L E j : CBl s L E -> 0 <= j < len E -> dk s (nthZ E j) = BExt (enc_x L E j).
  Proof. intros (B & _ & Hc) Hj. destruct (b_xdisk _ _ _ B j Hj) as [H|(H & _)]; [assumption|congruence]. Qed.

  Lemma cbl_frame s s' L E : CBl s L E -> dk s' = dk s -> chg s' = false -> cext_ok s' L E -> fh s' = fh s -> Base s' L E.
  Proof.
    intros C Hdk Hchg Hcx Hfh. pose proof C as (B & HL & Hc). constructor; unfold fsize; rewrite ?Hdk, ?Hchg, ?Hfh.
    - apply (b_hdr _ _ _ B).
    - apply (b_size _ _ _ B).
    - apply (b_nE _ _ _ B).
    - apply (b_nodup _ _ _ B).
    - apply (b_ge2 _ _ _ B).
    - exact Hcx.
    - intros j Hj. left. apply (cbl_ext s L E j C Hj).
    - intros k Hk. right. apply (cbl_data s L E k C Hk).
    - discriminate.
  Qed.

  Lemma db2ext_mono a b : 0 <= a <= b -> db2ext a <= db2ext b.
  Proof. intros H. unfold db2ext, MAXDB. destruct (Z.ltb_spec a 1); destruct (Z.ltb_spec b 1); lia. Qed.

  Lemma read_ext_n_l t s L E ext : CBl t L E -> dk s = dk t -> fh s = fh t -> 0 <= ext < size2ext (fsize t) bs ->
    read_ext_n bs nobad s ext = (true, set_cext s (Some (enc_x L E ext))).
  Proof.
    intros C Hdk Hfh He. pose proof C as (B & HL & Hc). unfold read_ext_n. unfold fsize at 1. rewrite Hfh. fold (fsize t).
    assert (HlE : size2ext (fsize t) bs <= len E).
    { unfold size2ext. rewrite (b_nE _ _ _ B). apply db2ext_mono. split; [|exact HL]. unfold size2db. pose proof (b_size _ _ _ B).
      assert (0 <= fsize t / bs) by (apply Z.div_pos; lia). destruct (0 <? fsize t mod bs); lia. }
    destruct (Z.ltb_spec ext 0); [lia|]. destruct (Z.ltb_spec (size2ext (fsize t) bs - 1) ext); [lia|]. cbn [orb].
    pose proof (b_hdr _ _ _ B) as (_ & _ & _ & _ & Hext). rewrite Hext. replace 0 with (-1 + 1) at 1 by lia.
    rewrite (ext_walk_ok L E ext (Z.to_nat (ext + 1)) s (-1)); try lia.
    - destruct (Z.ltb_spec (-1) ext); [|lia]. rewrite Z.eqb_refl. reflexivity.
    - intros j Hj. rewrite Hdk. apply (cbl_ext t L E j C Hj).
    - intros j Hj. apply (b_ge2 _ _ _ B). apply in_or_app. right. apply in_E_nth. assumption.
  Qed.

  Lemma seek_mid_l t L E : CBl t L E -> 0 <= pos t < fsize t -> cext_ok t L E ->
    exists s', seek_mid bs nobad t = (true, s') /\ Loaded t s' L E (pos t / bs) /\ pos s' = pos t /\ pind s' = pos t mod bs.
  Proof.
    intros C Hp Hcx. pose proof C as (B & HL & Hc). set (p := pos t) in *. set (k := p / bs).
    assert (Hk0 : 0 <= k < size2db (fsize t) bs) by (subst k; apply idx_in_range; lia).
    assert (Hk : 0 <= k < len L) by lia.
    assert (Hpm : 0 <= p mod bs < bs) by (apply Z.mod_pos_bound; lia).
    destruct (cbl_data t L E k C Hk) as (d & Hd & Hlen & Hnx).
    assert (Hge : 2 <= nthZ L k) by (apply (b_ge2 _ _ _ B); apply in_or_app; left; apply in_L_nth; assumption).
    assert (Hrd : forall u, dk u = dk t -> rd_data bs nobad u (nthZ L k) = Some d).
    { intros u Hu. unfold rd_data, nobad. rewrite Hu, Hd. destruct (Z.ltb_spec (nthZ L k) 1); [lia|]. reflexivity. }
    pose proof (b_hdr _ _ _ B) as (_ & Htab & _).
    unfold seek_mid. fold p. rewrite (pos2db_spec p ltac:(lia)). fold k.
    destruct (Z.ltb_spec k 72) as [H72|H72].
    - cbn -[Z.ltb Z.eqb nthZ]. rewrite Htab. rewrite nthZ_subZ by lia. replace (0 + k) with k by lia.
      change (-1 =? -1) with true. cbn -[Z.ltb Z.eqb nthZ].
      destruct (Z.ltb_spec (nthZ L k) 2); [lia|]. rewrite Hrd by reflexivity.
      eexists. split; [reflexivity|]. unfold Loaded. cbn -[nthZ]. splits; try reflexivity; try assumption; try lia.
      unfold ext_cursor. lia.
    - set (ext := (k - 72) / 72). set (px := (k - 72) mod 72).
      assert (He : 0 <= ext < size2ext (fsize t) bs) by (unfold size2ext, db2ext, MAXDB; destruct (Z.ltb_spec (size2db (fsize t) bs) 1); subst ext; lia).
      assert (Hne : (ext =? -1) = false) by (destruct (Z.eqb_spec ext (-1)); [lia|reflexivity]).
      cbn -[Z.ltb Z.eqb nthZ read_ext_n]. rewrite Hne.
      assert (Hslot : nthZ (x_tab (enc_x L E ext)) px = nthZ L k).
      { unfold enc_x. cbn [x_tab]. rewrite nthZ_subZ by (subst px; lia). f_equal. subst px ext. lia. }
      set (t1 := set_ndb (set_pind (set_pinx t px) (p mod bs)) k).
      set (t2 := match cext t with Some _ => t1 | None => set_cext t1 (Some zero_x) end).
      assert (Hrx : read_ext_n bs nobad t2 ext = (true, set_cext t2 (Some (enc_x L E ext)))).
      { apply (read_ext_n_l t t2 L E ext C); try assumption; subst t2 t1; cbn; destruct (cext t); reflexivity. }
      rewrite Hrx. cbn -[Z.ltb Z.eqb nthZ enc_x]. unfold cx. cbn -[Z.ltb Z.eqb nthZ enc_x].
      assert (Hpx2 : pinx t2 = px) by (subst t2 t1; cbn; destruct (cext t); reflexivity).
      rewrite Hpx2, Hslot. destruct (Z.ltb_spec (nthZ L k) 2); [lia|].
      rewrite Hrd by (subst t2 t1; cbn; destruct (cext t); reflexivity).
      eexists. split; [reflexivity|]. unfold Loaded. cbn -[nthZ enc_x].
      assert (Hf2 : dk t2 = dk t /\ fh t2 = fh t /\ mw t2 = mw t /\ mr t2 = mr t /\ chg t2 = chg t /\ pos t2 = pos t /\ ndb t2 = k /\ pind t2 = p mod bs)
        by (subst t2 t1; cbn; destruct (cext t); splits; reflexivity).
      destruct Hf2 as (F1 & F2 & F3 & F4 & F5 & F6 & F7 & F8). rewrite ?F1, ?F2, ?F3, ?F4, ?F5, ?F6, ?F7, ?F8.
      assert (HeE : 0 <= ext < len E) by (rewrite (lenE_of t L E B); destruct (Z.ltb_spec (len L) 1); subst ext; lia).
      splits; try reflexivity; try assumption; try lia.
      + unfold cext_ok. cbn -[enc_x]. right. exists ext. split; [assumption|reflexivity].
      + unfold ext_cursor. cbn -[enc_x]. intros _. split; reflexivity.
  Qed.

  Lemma size2db_mono a b : 0 <= a <= b -> size2db a bs <= size2db b bs.
  Proof.
    intros H. destruct (size2db_spec a ltac:(lia)) as [Ha|[Ha1 Ha2]]; destruct (size2db_spec b ltac:(lia)) as [Hb|[Hb1 Hb2]]; try lia; try nia.
  Qed.

  Lemma size2db_nonneg a : 0 <= a -> 0 <= size2db a bs.
  Proof. intros H. unfold size2db. assert (0 <= a / bs) by (apply Z.div_pos; lia). destruct (0 <? a mod bs); lia. Qed.

  Lemma seek_eof_l s1 L E new : Inv s1 L E -> chg s1 = false -> 0 < new <= fsize s1 ->
    let t := set_fh s1 (set_h_size (fh s1) new) in
    exists s', seek_eof bs ofs nobad t = (true, s') /\ Loaded t s' L E ((new - 1) / bs) /\ pos s' = new
      /\ pind s' = (if new mod bs =? 0 then bs else new mod bs) /\ len (d_bytes (cdata s')) = bs
      /\ (ofs = true -> (new - 1) / bs + 1 < len L -> d_next (cdata s') = nthZ L ((new - 1) / bs + 1)).
  Proof.
    intros I Hc Hnew t. pose proof I as (B & HL & C). pose proof (b_size _ _ _ B) as Hsz.
    assert (Hft : fsize t = new) by reflexivity.
    assert (Bt : Base t L E).
    { apply (base_frame2 s1); try reflexivity; try assumption; [apply (b_hdr _ _ _ B)|rewrite Hft; lia]. }
    assert (Ct : CBl t L E) by (split; [exact Bt|split; [rewrite Hft, HL; apply size2db_mono; lia|exact Hc]]).
    set (k := (new - 1) / bs).
    assert (Hkr : 0 <= k < size2db new bs) by (subst k; apply idx_in_range; lia).
    assert (HkL : 0 <= k < len L) by (pose proof (size2db_mono new (fsize s1) ltac:(lia)); lia).
    assert (Hpm : 0 <= (new - 1) mod bs < bs) by (apply Z.mod_pos_bound; lia).
    assert (Hdm : new - 1 = k * bs + (new - 1) mod bs) by (subst k; pose proof (Z.div_mod (new - 1) bs ltac:(lia)); lia).
    (* the inner seek to new-1 *)
    assert (Hinner : exists s2, seek_gen bs ofs nobad (fun u => (false, u)) t (new - 1) = (true, s2) /\ Loaded t s2 L E k /\ len (d_bytes (cdata s2)) = bs
                       /\ (ofs = true -> k + 1 < len L -> d_next (cdata s2) = nthZ L (k + 1))).
    { rewrite seek_gen_unfold.
      (* facts about a buffered block of s1 (= of t) *)
      assert (Hbuf : cur t <> 0 -> (if 0 <? ndb t then ndb t - 1 else 0) = k -> forall u, dk u = dk t -> chg u = false -> cext u = cext t -> fh u = fh t -> mw u = mw t -> mr u = mr t ->
                     cur u = cur t -> ndb u = ndb t -> cdata u = cdata t -> pinx u = pinx t ->
                     Loaded t u L E k /\ len (d_bytes (cdata u)) = bs /\ (ofs = true -> k + 1 < len L -> d_next (cdata u) = nthZ L (k + 1))).
      { intros Hcz Hkk u U1 U2 U3 U4 U5 U6 U7 U8 U9 U10. change (cur t) with (cur s1) in *. change (ndb t) with (ndb s1) in *.
        destruct C as [(_ & Hz & _)|(Hcu & Hnn & Hp & Hpi & Hle & Hlen & Hcl & Hnx & Hxc)]; [contradiction|].
        destruct (Z.ltb_spec 0 (ndb s1)); [|lia]. unfold Loaded. rewrite U1, U2, U4, U5, U6, U7, U8, U9.
        splits; try reflexivity; try assumption; try lia.
        - unfold cext_ok. rewrite U3. apply (b_cext _ _ _ B).
        - rewrite <- Hkk. exact Hcu.
        - rewrite <- Hkk. rewrite <- Hcu. apply Hcl. exact Hc.
        - unfold ext_cursor. rewrite U3, U10. rewrite <- Hkk. exact Hxc.
        - intros Ho Hk1. replace (k + 1) with (ndb s1) by lia. apply Hnx; [exact Ho|lia]. }
      destruct ((pos t =? new - 1) && negb (cur t =? 0) && negb (pind t =? bs)) eqn:H1.
      - apply andb_prop in H1. destruct H1 as (H1 & H3). apply andb_prop in H1. destruct H1 as (H1 & H2). apply Z.eqb_eq in H1.
        destruct (Z.eqb_spec (cur t) 0) as [|Hcz]; [discriminate|]. destruct (Z.eqb_spec (pind t) bs) as [|Hpb]; [discriminate|].
        exists t. split; [reflexivity|]. apply Hbuf; try reflexivity; try assumption.
        change (cur t) with (cur s1) in Hcz. destruct (normal_facts s1 L E I Hcz) as (_ & Hnn & Hp & Hpi & _).
        change (ndb t) with (ndb s1). change (pos t) with (pos s1) in H1. change (pind t) with (pind s1) in Hpb.
        destruct (Z.ltb_spec 0 (ndb s1)); [|lia]. subst k. rewrite <- H1, Hp. symmetry. apply div_block. lia.
      - unfold seek_tail.
        destruct (negb (cur t =? 0) && ((if 0 <? ndb t then ndb t - 1 else 0) =? (new - 1) / bs)) eqn:Hsame.
        + apply andb_prop in Hsame. destruct Hsame as (Hcz & Hkk). destruct (Z.eqb_spec (cur t) 0) as [|Hcz']; [discriminate|]. apply Z.eqb_eq in Hkk.
          eexists. split; [reflexivity|]. apply Hbuf; try reflexivity; assumption.
        + unfold settle. change (chg t) with (chg s1). rewrite Hc, andb_false_r.
          destruct (Z.eqb_spec (new - 1) 0) as [H0|H0].
          * (* new = 1: the first block *)
            assert (k = 0) by (subst k; rewrite H0; apply Z.div_0_l; lia).
            unfold seek_start. set (t0 := set_cur (set_ndb (set_pind (set_pinx (set_pos t 0) 0) 0) 0) 0).
            change (fsize t0) with new. destruct (Z.eqb_spec new 0); [lia|].
            assert (B0 : Base t0 L E) by (apply (cbl_frame t t0 L E Ct); [reflexivity|exact Hc|apply (b_cext _ _ _ Bt)|reflexivity]).
            destruct (read_next_ok t0 L E B0 Hc ltac:(cbn; lia) ltac:(unfold ext_cursor; cbn; lia) ltac:(cbn; lia))
              as (sn & Hrn & Ndk & Npos & Npind & Nndb & Ncur & Ncd & Nlen & Nnx & Nchg & Nfh & Nmw & Nmr & Nxc & Ncx).
            rewrite Hrn. exists sn. split; [reflexivity|]. cbn in *. unfold Loaded. subst k. rewrite H. splits; try assumption; try reflexivity; try lia.
          * change (fsize (settle t)) with new. replace (Z.min (new - 1) (fsize t)) with (new - 1) by (rewrite Hft; lia).
            change (pos (set_pos t (new - 1))) with (new - 1). change (fsize (set_pos t (new - 1))) with new.
            destruct (Z.eqb_spec (new - 1) new); [lia|].
            assert (C2 : CBl (set_pos t (new - 1)) L E).
            { split; [apply (base_frame t); try reflexivity; exact Bt|split; [exact (proj1 (proj2 Ct))|exact Hc]]. }
            destruct (seek_mid_l (set_pos t (new - 1)) L E C2 ltac:(change (pos (set_pos t (new - 1))) with (new - 1); change (fsize (set_pos t (new - 1))) with new; lia) (b_cext _ _ _ Bt)) as (s2 & Hsm & Hld & P2 & Pi2).
            exists s2. split; [rewrite Hsm; apply seek_fb_ok|]. cbn in Hld. fold k in Hld. split; [exact Hld|].
            destruct Hld as (L1 & L2 & L3 & L4 & L5 & L6 & L7 & L8 & L9 & L10 & L11).
            assert (Hd10 : dk t (nthZ L k) = BData (cdata s2)) by exact L10.
            destruct (cbl_data t L E k Ct HkL) as (d & Hd & Hlen & Hnx). rewrite Hd in Hd10. injection Hd10 as <-. split; [exact Hlen|exact Hnx]. }
    destruct Hinner as (s2 & Hin & Hld & Hlen2 & Hnx2).
    unfold seek_eof. rewrite Hft. destruct (Z.eqb_spec new 0); [lia|]. rewrite Hin. cbn [negb].
    destruct Hld as (L1 & L2 & L3 & L4 & L5 & L6 & L7 & L8 & L9 & L10 & L11).
    assert (Hf2 : fsize s2 = new) by (unfold fsize; rewrite L4; reflexivity). rewrite Hf2.
    eexists. split; [reflexivity|]. unfold Loaded. cbn. splits; try assumption; try reflexivity; lia.
  Qed.

  Lemma rest_exts_some : forall fuel t nextExt i nXOld nDOld, exists r, rest_exts nobad fuel t nextExt i nXOld nDOld = Some r.
  Proof.
    induction fuel as [|fuel IH]; intros t nextExt i nXOld nDOld; cbn [rest_exts]; [eexists; reflexivity|].
    destruct (nextExt <=? 0); [eexists; reflexivity|].
    destruct (rd_ext nobad t nextExt) as [x|] eqn:Hr.
    - destruct (IH t (x_ext x) (i + 1) nXOld nDOld) as (r & ->). eexists; reflexivity.
    - exfalso. unfold rd_ext, nobad in Hr. destruct (dk t nextExt); discriminate.
  Qed.

  Lemma blocks_to_remove_some s1 L E new : Inv s1 L E -> chg s1 = false -> 0 <= new < fsize s1 -> exists rem, blocks_to_remove bs nobad s1 new = Some rem.
  Proof.
    intros I Hc Hn. pose proof I as (B & HL & _). unfold blocks_to_remove. destruct (Z.ltb_spec (fsize s1) new); [lia|].
    destruct (_ <? 1); [eexists; reflexivity|]. destruct (db2ext (size2db (fsize s1) bs) <? 1) eqn:Hx1; [eexists; reflexivity|].
    destruct (db2ext (size2db new bs) <? 1) eqn:Hx2.
    - destruct (rest_exts_some (Z.to_nat (db2ext (size2db (fsize s1) bs) + 1)) s1 (h_ext (fh s1)) (db2ext (size2db new bs)) (db2ext (size2db (fsize s1) bs)) (size2db (fsize s1) bs)) as (r & ->).
      eexists; reflexivity.
    - apply Z.ltb_ge in Hx1. apply Z.ltb_ge in Hx2.
      assert (Cl : CBl s1 L E) by (split; [exact B|split; [rewrite HL; lia|exact Hc]]).
      assert (Hmono : db2ext (size2db new bs) <= db2ext (size2db (fsize s1) bs)).
      { apply db2ext_mono. split; [apply size2db_nonneg; lia|apply size2db_mono; lia]. }
      rewrite (read_ext_n_l s1 (set_cext s1 (Some zero_x)) L E (db2ext (size2db new bs) - 1) Cl eq_refl eq_refl) by (unfold size2ext; lia).
      cbn [negb]. match goal with |- context [rest_exts nobad ?f ?t ?a ?b ?c ?d] => destruct (rest_exts_some f t a b c d) as (r & ->) end.
      eexists; reflexivity.
  Qed.

  (* ---- adfFileTruncate to a smaller size ---- *)
  Lemma firstn_len_le {A} (l : list A) n : 0 <= n <= len l -> len (firstn (Z.to_nat n) l) = n.
  Proof. intros H. unfold len in *. rewrite firstn_length. lia. Qed.

  Lemma nodup_prefixes (L E : list Z) a b : NoDup (key :: L ++ E) -> NoDup (key :: firstn a L ++ firstn b E).
  Proof.
    intros H. inversion H as [|? ? Hk Hn]; subst. destruct (nodup_app_inv _ _ Hn) as (HL & HE & Hd). constructor.
    - intros Hc. apply Hk. apply in_app_or in Hc. apply in_or_app. destruct Hc as [Hc|Hc]; [left|right]; apply (in_firstn _ _ _ Hc).
    - apply nodup_app_intro; [apply nodup_firstn; exact HL|apply nodup_firstn; exact HE|].
      intros x Hx Hy. apply (Hd x); [apply (in_firstn _ _ _ Hx)|apply (in_firstn _ _ _ Hy)].
  Qed.

  Lemma enc_prefix_other (L E : list Z) n' x' j : 0 <= j -> 72 * (j + 1) + 72 <= n' -> n' <= len L -> j + 1 < x' -> x' <= len E ->
    enc_x (firstn (Z.to_nat n') L) (firstn (Z.to_nat x') E) j = enc_x L E j.
  Proof.
    intros Hj Hw Hn Hx HxE. unfold enc_x. rewrite !nthZ_firstn by lia. rewrite window_firstn_full by lia.
    rewrite firstn_len_le by lia. f_equal. lia.
  Qed.

  Lemma size2db_last new : 0 < new -> size2db new bs = (new - 1) / bs + 1.
  Proof.
    intros H. apply size2db_unique; [lia|]. pose proof (Z.div_mod (new - 1) bs ltac:(lia)). pose proof (Z.mod_pos_bound (new - 1) bs Hbs). nia.
  Qed.

  (* the state adfFileTruncate leaves after cutting the tables, described by its fields *)
  Lemma shrink_final s1 s2 sf L E ct new :
    Inv s1 L E -> chg s1 = false -> Repr s1 L ct -> mw s1 = true -> 0 < new < fsize s1 ->
    let t := set_fh s1 (set_h_size (fh s1) new) in
    let n' := size2db new bs in let x' := db2ext n' in
    let L' := firstn (Z.to_nat n') L in let E' := firstn (Z.to_nat x') E in
    Loaded t s2 L E (n' - 1) -> pos s2 = new -> pind s2 = (if new mod bs =? 0 then bs else new mod bs) -> len (d_bytes (cdata s2)) = bs ->
    dk sf = dk s2 -> pos sf = new -> pind sf = pind s2 -> pinx sf = pinx s2 -> ndb sf = ndb s2 -> cur sf = cur s2 -> chg sf = true -> mw sf = true ->
    d_bytes (cdata sf) = d_bytes (cdata s2) ->
    hdr_ok (fh sf) L' E' -> h_size (fh sf) = new ->
    cext sf = (if x' <? 1 then None else Some (enc_x L' E' (x' - 1))) ->
    Inv sf L' E' /\ Repr sf L' (firstn (Z.to_nat new) ct).
  Proof.
    intros I Hc R Hw Hnew t n' x' L' E' Hld P2 Pi2 Hl2 Fdk Fpos Fpind Fpinx Fndb Fcur Fchg Fmw Fby Fh Fsz Fcx.
    pose proof I as (B & HL & C). pose proof (b_size _ _ _ B) as Hsz.
    destruct Hld as (L1 & L2 & L3 & L4 & L5 & L6 & L7 & L8 & L9 & L10 & L11).
    assert (Hn' : n' = (new - 1) / bs + 1) by (apply size2db_last; lia).
    assert (Hn'L : 1 <= n' <= len L) by (subst n'; rewrite HL; split; [pose proof (size2db_pos new ltac:(lia)); lia|apply size2db_mono; lia]).
    assert (HxE : 0 <= x' <= len E).
    { subst x'. rewrite (b_nE _ _ _ B). split; [unfold db2ext, MAXDB; destruct (n' <? 1); lia|apply db2ext_mono; lia]. }
    assert (HlL' : len L' = n') by (subst L'; apply firstn_len_le; lia).
    assert (HlE' : len E' = x') by (subst E'; apply firstn_len_le; lia).
    assert (HL'k : forall k, 0 <= k < n' -> nthZ L' k = nthZ L k) by (intros k Hk; subst L'; apply nthZ_firstn; lia).
    assert (HE'j : forall j, 0 <= j < x' -> nthZ E' j = nthZ E j) by (intros j Hj; subst E'; apply nthZ_firstn; lia).
    assert (Hx'v : x' = (n' - 1) / 72) by (subst x'; unfold db2ext, MAXDB; destruct (Z.ltb_spec n' 1); [lia|reflexivity]).
    assert (Clean1 : CB s1 L E) by (split; [exact B|split; [exact HL|exact Hc]]).
    (* the volume is the one of s1 *)
    assert (Hdk : dk sf = dk s1) by (rewrite Fdk, L1; reflexivity).
    assert (Hcur2 : 2 <= cur sf) by (rewrite Fcur, L8; apply (b_ge2 _ _ _ B); apply in_or_app; left; apply in_L_nth; lia).
    assert (Hbuf : forall k, buffered sf k = (k =? n' - 1)).
    { intros k. unfold buffered. rewrite Fndb, L9. replace (n' - 1 + 1 - 1) with (n' - 1) by lia. destruct (Z.eqb_spec (cur sf) 0); [lia|reflexivity]. }
    assert (Bf : Base sf L' E').
    { constructor.
      - exact Fh.
      - unfold fsize. rewrite Fsz. lia.
      - rewrite HlL', HlE'. reflexivity.
      - subst L' E'. apply nodup_prefixes. apply (b_nodup _ _ _ B).
      - intros b Hb. apply (b_ge2 _ _ _ B). apply in_app_or in Hb. apply in_or_app. destruct Hb as [Hb|Hb]; [left|right]; apply (in_firstn _ _ _ Hb).
      - rewrite Fcx. destruct (Z.ltb_spec x' 1); [exact Logic.I|]. right. exists (x' - 1). split; [lia|reflexivity].
      - intros j Hj. rewrite HlE' in Hj. destruct (Z.eq_dec j (x' - 1)) as [->|Hne].
        + right. split; [exact Fchg|]. rewrite Fcx. destruct (Z.ltb_spec x' 1); [lia|reflexivity].
        + left. rewrite (HE'j j Hj), Hdk. subst L' E'. rewrite enc_prefix_other by lia. apply (cb_ext s1 L E j Clean1). lia.
      - intros k Hk. rewrite HlL' in Hk. destruct (Z.eq_dec k (n' - 1)) as [->|Hne].
        + left. split; [rewrite Hbuf; apply Z.eqb_refl|exact Fchg].
        + right. rewrite (HL'k k Hk), Hdk. destruct (cb_data s1 L E k Clean1 ltac:(lia)) as (d & Hd & Hlen & Hnx). exists d. splits; try assumption.
          intros Ho Hk1. rewrite HlL' in Hk1. rewrite (HL'k (k + 1) ltac:(lia)). apply Hnx; [exact Ho|lia].
      - intros _. exact Fmw. }
    assert (Hpe : new = (n' - 1) * bs + pind s2 /\ 0 < pind s2 <= bs).
    { rewrite Pi2, Hn'. replace ((new - 1) / bs + 1 - 1) with ((new - 1) / bs) by lia.
      pose proof (Z.div_mod new bs ltac:(lia)) as Hdm. pose proof (Z.div_mod (new - 1) bs ltac:(lia)) as Hdm1.
      pose proof (Z.mod_pos_bound (new - 1) bs Hbs) as Hm1. pose proof (Z.mod_pos_bound new bs Hbs) as Hm.
      destruct (Z.eqb_spec (new mod bs) 0) as [Hz|Hz].
      - assert ((new - 1) / bs = new / bs - 1) by (symmetry; apply (Z.div_unique_pos _ _ _ (bs - 1)); lia). split; nia.
      - assert ((new - 1) / bs = new / bs) by (symmetry; apply (Z.div_unique_pos _ _ _ (new mod bs - 1)); lia). split; nia. }
    split.
    - split; [exact Bf|]. split; [unfold fsize; rewrite Fsz, HlL'; reflexivity|].
      right. unfold fsize. rewrite Fsz, Fcur, Fndb, Fpos, Fpind, Fchg, L8, L9, HlL', Fby.
      replace (n' - 1 + 1 - 1) with (n' - 1) by lia.
      splits; try assumption; try lia.
      + symmetry. apply HL'k. lia.
      + unfold ext_cursor in *. rewrite Fcx, Fpinx. intros H72. destruct (L11 H72) as (_ & Hpx).
        destruct (Z.ltb_spec x' 1) as [Hx1|Hx1]; [lia|].
        split; [|exact Hpx]. f_equal. f_equal. lia.
    - destruct R as (Hlct & Hr). split.
      + unfold fsize. rewrite Fsz. apply firstn_len_le. lia.
      + intros i Hi. unfold fsize in Hi. rewrite Fsz in Hi. rewrite nthZ_firstn by lia. rewrite (Hr i ltac:(lia)). unfold byte_at.
        assert (Hk : 0 <= i / bs < n') by (subst n'; apply idx_in_range; lia).
        f_equal. unfold truth_d. rewrite Hbuf.
        assert (Hcl1 : forall k, 0 <= k < len L -> truth_d s1 L k = disk_d s1 L k).
        { intros k Hk1. destruct (clean_disk s1 L E k I Hc Hk1) as (d & Hd & _ & _ & Ht). rewrite Ht. unfold disk_d. rewrite Hd. reflexivity. }
        fold (truth_d s1 L (i / bs)). rewrite (Hcl1 (i / bs) ltac:(lia)). unfold disk_d.
        destruct (Z.eqb_spec (i / bs) (n' - 1)) as [He|He].
        * rewrite Fby, He. assert (Hd10 : dk s1 (nthZ L (n' - 1)) = BData (cdata s2)) by exact L10. rewrite Hd10. reflexivity.
        * rewrite (HL'k (i / bs) Hk), Hdk. reflexivity.
  Qed.

  (* the table edits of adfFileTruncate after the seek to the new end, as a function of the state and the two sizes (the text of
     Model/FileIO.fio_truncate for a new size other than 0) *)
  Definition shrink_edit (s2 : hstate) (sizeNew sizeOld : Z) : hstate :=
    let s3 :=
              let nDNew := size2db sizeNew bs in
              let nDOld := size2db sizeOld bs in
              let nXOld := db2ext nDOld in
              let nXNew := db2ext nDNew in
              let sa :=
                if negb (nDNew mod MAXDB =? 0) then
                  let firstD := nDNew mod MAXDB in
                  let lastD := if (nXNew <? nXOld) || (nDOld mod MAXDB =? 0) then MAXDB - 1 else nDOld mod MAXDB in
                  let st := if nXNew <? 1 then set_fh s2 (set_h_tab (fh s2) (clear_range (h_tab (fh s2)) firstD lastD))
                            else set_cext s2 (Some (set_x_tab (cx s2) (clear_range (x_tab (cx s2)) firstD lastD))) in
                  if nDNew <=? MAXDB then set_fh st (set_h_high (fh st) firstD)
                  else set_cext st (Some (set_x_high (cx st) firstD))
                else s2 in
              let sb := if ofs then
                          set_cdata sa (set_d_next (set_d_size (cdata sa) (if sizeNew mod bs =? 0 then bs else sizeNew mod bs)) 0)
                        else sa in
              let sc := set_chg sb true in
              if nDNew <=? MAXDB then set_fh sc (set_h_ext (fh sc) 0)
              else set_cext sc (Some (set_x_ext (cx sc) 0)) in
    if size2ext sizeNew bs <? 1 then set_cext s3 None else s3.

  Lemma shrink_edit_fields s2 sizeNew sizeOld : 1 <= size2db sizeNew bs ->
    let n' := size2db sizeNew bs in let nL := size2db sizeOld bs in
    let lastD := if (db2ext n' <? db2ext nL) || (nL mod 72 =? 0) then 71 else nL mod 72 in
    let sf := shrink_edit s2 sizeNew sizeOld in
    dk sf = dk s2 /\ pos sf = pos s2 /\ pind sf = pind s2 /\ pinx sf = pinx s2 /\ ndb sf = ndb s2 /\ cur sf = cur s2 /\ chg sf = true /\ mw sf = mw s2
    /\ d_bytes (cdata sf) = d_bytes (cdata s2) /\ h_size (fh sf) = h_size (fh s2) /\ h_key (fh sf) = h_key (fh s2) /\ h_first (fh sf) = h_first (fh s2)
    /\ (n' <= 72 -> cext sf = None /\ h_ext (fh sf) = 0
                    /\ h_tab (fh sf) = (if n' mod 72 =? 0 then h_tab (fh s2) else clear_range (h_tab (fh s2)) (n' mod 72) lastD)
                    /\ h_high (fh sf) = (if n' mod 72 =? 0 then h_high (fh s2) else n' mod 72))
    /\ (72 < n' -> fh sf = fh s2
                   /\ cext sf = Some (set_x_ext (if n' mod 72 =? 0 then cx s2
                                                 else set_x_high (set_x_tab (cx s2) (clear_range (x_tab (cx s2)) (n' mod 72) lastD)) (n' mod 72)) 0)).
  Proof.
    intros H1 n' nL lastD sf. subst sf lastD. unfold shrink_edit, size2ext, MAXDB. fold n'. fold nL.
    assert (Hx : (db2ext n' <? 1) = (n' <=? 72)).
    { unfold db2ext, MAXDB. destruct (Z.ltb_spec n' 1); [lia|]. destruct (Z.ltb_spec ((n' - 1) / 72) 1); destruct (Z.leb_spec n' 72); try reflexivity; lia. }
    rewrite Hx. destruct (Z.leb_spec n' 72) as [H72|H72]; destruct (Z.eqb_spec (n' mod 72) 0) as [Hm|Hm]; cbn [negb]; destruct ofs;
      cbn -[clear_range Z.ltb Z.eqb Z.leb Z.min Z.mul Z.modulo]; splits; try reflexivity; try (intros; lia); intros _; splits; reflexivity.
  Qed.

  Theorem fio_truncate_shrink_ok s L E ct al new : Inv s L E -> Repr s L ct -> mw s = true -> 0 <= new < fsize s ->
    let n' := size2db new bs in let x' := db2ext n' in
    let L' := firstn (Z.to_nat n') L in let E' := firstn (Z.to_nat x') E in
    exists s' rem, fio_truncate bs ofs nobad s new al = (true, s', rem, al) /\ Inv s' L' E' /\ Repr s' L' (firstn (Z.to_nat new) ct)
      /\ pos s' = new /\ fsize s' = new.
  Proof.
    intros I R Hw Hnew n' x' L' E'. unfold fio_truncate. rewrite Hw. cbn [negb].
    destruct (Z.eqb_spec new (fsize s)); [lia|]. destruct (Z.ltb_spec (fsize s) new); [lia|].
    destruct (flush_inv s L E I Hw) as (I1 & Hc1 & (Spos & Spinx & Spind & Sndb & Scur & Scext & Sfh & Smw & Smr & Sby & Snx) & Htr & _).
    remember (set_chg (fio_flush bs ofs s) false) as s1 eqn:Hs1. clear Hs1.
    assert (R1 : Repr s1 L ct) by (apply (repr_same s s1 L ct); [unfold fsize; rewrite Sfh; reflexivity|destruct I as (_ & HL & _); exact HL|exact Htr|exact R]).
    assert (Hf1 : fsize s1 = fsize s) by (unfold fsize; rewrite Sfh; reflexivity).
    assert (Hw1 : mw s1 = true) by congruence.
    destruct (blocks_to_remove_some s1 L E new I1 Hc1 ltac:(lia)) as (rem & Hrem). rewrite Hrem.
    pose proof I1 as (B1 & HL1 & C1). pose proof (b_hdr _ _ _ B1) as (Hhk & Htab & Hhigh & Hfirst & Hext). pose proof (lenE_of s1 L E B1) as HlE.
    destruct (Z.eq_dec new 0) as [H0|H0].
    - (* the file becomes empty *)
      subst new. assert (Hn0 : n' = 0) by (subst n'; apply size2db_0). assert (Hx0 : x' = 0) by (subst x'; rewrite Hn0; reflexivity).
      assert (HL0 : L' = []) by (subst L'; rewrite Hn0; reflexivity). assert (HE0 : E' = []) by (subst E'; rewrite Hx0; reflexivity).
      rewrite HL0, HE0.
      unfold seek_eof. change (fsize (set_fh s1 (set_h_size (fh s1) 0))) with 0. cbn [Z.eqb]. unfold seek_start.
      change (fsize (set_cur (set_ndb (set_pind (set_pinx (set_pos (set_fh s1 (set_h_size (fh s1) 0)) 0) 0) 0) 0) 0)) with 0. cbn [Z.eqb negb].
      unfold size2ext. rewrite size2db_0. cbn -[zerosZ].
      eexists. eexists. split; [reflexivity|].
      assert (Hl0 : len (d_bytes (cdata s1)) = bs) by (destruct C1 as [(_ & _ & _ & _ & _ & Hl0)|(_ & _ & _ & _ & _ & Hl0 & _)]; exact Hl0).
      splits; try reflexivity.
      + split; [|split].
        * constructor; cbn -[zerosZ subZ].
          -- unfold hdr_ok. cbn -[zerosZ subZ]. splits; try reflexivity; exact Hhk.
          -- unfold fsize. cbn. lia.
          -- reflexivity.
          -- constructor; [intros []|constructor].
          -- intros b [].
          -- exact Logic.I.
          -- intros j Hj. unfold len in Hj. simpl in Hj. lia.
          -- intros k Hk. unfold len in Hk. simpl in Hk. lia.
          -- rewrite Hc1. discriminate.
        * unfold fsize. cbn -[size2db]. rewrite size2db_0. reflexivity.
        * left. unfold fsize. cbn. splits; try reflexivity. exact Hl0.
      + split; [reflexivity|]. unfold fsize. cbn. intros i Hi. lia.
    - (* at least one block is kept *)
      destruct (seek_eof_l s1 L E new I1 Hc1 ltac:(lia)) as (s2 & Hse & Hld & P2 & Pi2 & Hl2 & _).
      rewrite Hse. cbn [negb]. destruct (Z.eqb_spec new 0); [contradiction|].
      change (true, ?a, rem, al) with (true, a, rem, al).
      match goal with |- exists s' rem0, (true, ?x, rem, al) = _ /\ _ => change x with (shrink_edit s2 new (fsize s)) end.
      exists (shrink_edit s2 new (fsize s)), rem. split; [reflexivity|].
      assert (Hn' : n' = (new - 1) / bs + 1) by (apply size2db_last; lia).
      rewrite <- (Z.add_simpl_r ((new - 1) / bs) 1) in Hld. rewrite <- Hn' in Hld.
      pose proof Hld as (L1 & L2 & L3 & L4 & L5 & L6 & L7 & L8 & L9 & L10 & L11).
      assert (Hn'L : 1 <= n' <= len L) by lia.
      assert (HxE : 0 <= x' <= len E) by (subst x'; rewrite (b_nE _ _ _ B1); split; [unfold db2ext, MAXDB; destruct (n' <? 1); lia|apply db2ext_mono; lia]).
      assert (Hx'v : x' = (n' - 1) / 72) by (subst x'; unfold db2ext, MAXDB; destruct (Z.ltb_spec n' 1); [lia|reflexivity]).
      assert (HlEv : len E = (len L - 1) / 72) by (rewrite HlE; destruct (Z.ltb_spec (len L) 1); lia).
      assert (Hold : size2db (fsize s) bs = len L) by (rewrite <- Hf1; symmetry; exact HL1).
      assert (Hfh2 : fh s2 = set_h_size (fh s1) new) by exact L4.
      assert (HlL' : len L' = n') by (subst L'; apply firstn_len_le; lia).
      assert (HlE' : len E' = x') by (subst E'; apply firstn_len_le; lia).
      destruct (shrink_edit_fields s2 new (fsize s) ltac:(fold n'; lia))
        as (F1 & F2 & F3 & F4 & F5 & F6 & F7 & F8 & F9 & F10 & F11 & F12 & FA & FB).
      fold n' in FA, FB. rewrite Hold in FA, FB. fold x' in FA, FB. rewrite <- (b_nE _ _ _ B1) in FA, FB.
      set (sf := shrink_edit s2 new (fsize s)) in *.
      set (lastD := if (x' <? len E) || (len L mod 72 =? 0) then 71 else len L mod 72) in *.
      assert (HlastD : lastD = 71 \/ len L <= 72 * x' + lastD + 1 /\ 0 <= lastD < 72).
      { subst lastD. destruct (Z.ltb_spec x' (len E)); [left; reflexivity|]. destruct (Z.eqb_spec (len L mod 72) 0); [left; reflexivity|]. right. cbn [orb]. lia. }
      assert (HlastD2 : 0 <= lastD < 72) by (destruct HlastD as [Hq|(_ & Hq)]; lia).
      assert (Hfin : Inv sf L' E' /\ Repr sf L' (firstn (Z.to_nat new) ct)).
      { apply (shrink_final s1 s2 sf L E ct new I1 Hc1 R1 Hw1 ltac:(lia) Hld P2 Pi2 Hl2); try assumption; try congruence; fold n'; fold x'; fold L'; fold E'.
        - rewrite F8, L5. exact Hw1.
        - (* the header *)
          unfold hdr_ok. rewrite F11, F12, Hfh2. cbn [h_key h_first set_h_size]. rewrite Hhk, Hfirst.
          destruct (Z.leb_spec n' 72) as [H72|H72].
          + destruct (FA H72) as (_ & Fe & Ft & Fhh). rewrite Fe, Ft, Fhh, Hfh2. cbn [h_tab h_high set_h_size]. rewrite Htab, Hhigh, HlL'.
            assert (Hx0 : x' = 0) by lia.
            splits; try reflexivity.
            * destruct (Z.eqb_spec (n' mod 72) 0) as [Hm|Hm].
              -- subst L'. symmetry. apply window_firstn_full; lia.
              -- subst L'. replace n' with (0 + n' mod 72) at 2 by lia. apply clear_window; try lia.
            * destruct (Z.eqb_spec (n' mod 72) 0); lia.
            * subst L'. symmetry. apply nthZ_firstn. lia.
            * subst E'. symmetry. apply nthZ_firstn_oob. lia.
          + destruct (FB H72) as (Ff & _). rewrite Ff, Hfh2. cbn [h_tab h_high h_ext set_h_size]. rewrite Htab, Hhigh, Hext, HlL'.
            splits; try reflexivity.
            * subst L'. symmetry. apply window_firstn_full; lia.
            * lia.
            * subst L'. symmetry. apply nthZ_firstn. lia.
            * subst E'. symmetry. apply nthZ_firstn. lia.
        - rewrite F10, Hfh2. reflexivity.
        - (* the buffered extension block *)
          destruct (Z.ltb_spec x' 1) as [Hx1|Hx1].
          + destruct (FA ltac:(lia)) as (Fc & _). exact Fc.
          + destruct (FB ltac:(lia)) as (_ & Fc). rewrite Fc. destruct (L11 ltac:(lia)) as (Hcx2 & _).
            unfold cx. rewrite Hcx2. replace ((n' - 1 - 72) / 72) with (x' - 1) by lia. f_equal.
            unfold enc_x, set_x_ext, set_x_high, set_x_tab. destruct (Z.eqb_spec (n' mod 72) 0) as [Hm|Hm]; cbn [x_key x_parent x_high x_tab x_ext];
              replace (x' - 1 + 1) with x' by lia; rewrite HlL'; f_equal.
            * subst E'. symmetry. apply nthZ_firstn. lia.
            * lia.
            * subst L'. symmetry. apply window_firstn_full; lia.
            * subst E'. symmetry. apply nthZ_firstn_oob. lia.
            * subst E'. symmetry. apply nthZ_firstn. lia.
            * lia.
            * subst L'. replace n' with (72 * x' + n' mod 72) at 2 by lia. apply clear_window; try lia.
            * subst E'. symmetry. apply nthZ_firstn_oob. lia. }
      destruct Hfin as (If & Rf). splits; try assumption.
      + rewrite F2. exact P2.
      + unfold fsize. rewrite F10, Hfh2. reflexivity.
  Qed.

  (* ---- the blocks a shrinking truncation hands to adfSetBlockFree (adfFileTruncateGetBlocksToRemove) are exactly the cut-off part of
          the lists (C05) ---- *)
  Lemma subZ_sub (l : list Z) b n : 0 <= b -> 0 <= n -> b + n <= len l -> subZ l b n = sub l b n.
  Proof.
    intros Hb Hn Hl. apply list_ext.
    - rewrite subZ_length, sub_length by lia. reflexivity.
    - intros i Hi. unfold len in Hi. rewrite subZ_length in Hi. rewrite nthZ_subZ by lia. rewrite nthZ_sub by lia. reflexivity.
  Qed.

  Lemma subZ_window (l : list Z) B a n : 0 <= a -> 0 <= n -> a + n <= 72 -> subZ (subZ l B 72) a n = subZ l (B + a) n.
  Proof.
    intros Ha Hn Hl. apply list_ext.
    - rewrite !subZ_length. reflexivity.
    - intros i Hi. unfold len in Hi. rewrite subZ_length in Hi. rewrite !nthZ_subZ by lia. f_equal. lia.
  Qed.

  Lemma skipn_split (l : list Z) b n : 0 <= b -> 0 <= n -> skipn (Z.to_nat b) l = sub l b n ++ skipn (Z.to_nat (b + n)) l.
  Proof.
    intros Hb Hn. unfold sub. replace (Z.to_nat (b + n)) with (Z.to_nat n + Z.to_nat b)%nat by lia. rewrite skipn_add. symmetry. apply firstn_skipn.
  Qed.

  (* the remaining extension blocks, from index j on: their data blocks, then the block itself *)
  Lemma rest_exts_spec s1 L E : CB s1 L E -> forall fuel j, 0 <= j <= len E -> (Z.to_nat (len E - j) < fuel)%nat ->
    exists r, rest_exts nobad fuel s1 (nthZ E j) j (len E) (len L) = Some r
              /\ Permutation r (skipn (Z.to_nat (72 * (j + 1))) L ++ skipn (Z.to_nat j) E).
  Proof.
    intros C. pose proof C as (B & HL & Hc). pose proof (lenE_of s1 L E B) as HlE.
    induction fuel as [|fuel IH]; intros j Hj Hf; [lia|]. cbn [rest_exts].
    destruct (Z.eq_dec j (len E)) as [->|Hne].
    - rewrite (nthZ_oob E (len E)) by lia. cbn [Z.leb Z.compare]. exists []. split; [reflexivity|].
      rewrite (skipn_all2 E) by (unfold len; lia). rewrite app_nil_r.
      rewrite skipn_all2; [constructor|]. assert (len L <= 72 * (len E + 1)) by (rewrite HlE; destruct (Z.ltb_spec (len L) 1); lia). unfold len in *. lia.
    - assert (Hj2 : 0 <= j < len E) by lia.
      assert (Hge : 2 <= nthZ E j) by (apply (b_ge2 _ _ _ B); apply in_or_app; right; apply in_E_nth; exact Hj2).
      destruct (Z.leb_spec (nthZ E j) 0); [lia|]. rewrite (rd_ext_clean s1 L E j B Hc Hj2).
      change (x_ext (enc_x L E j)) with (nthZ E (j + 1)).
      destruct (IH (j + 1) ltac:(lia) ltac:(lia)) as (r & Hr & Hp). rewrite Hr.
      eexists. split; [reflexivity|].
      set (last := if j + 1 =? len E then if len L - MAXDB * (j + 1) =? MAXDB then MAXDB else len L mod MAXDB else MAXDB).
      assert (HlenL : 72 * (len E) < len L <= 72 * (len E + 1)) by (rewrite HlE; destruct (Z.ltb_spec (len L) 1); lia).
      assert (Hlast : last = Z.min 72 (len L - 72 * (j + 1)) /\ 0 < last <= 72).
      { subst last. unfold MAXDB. destruct (Z.eqb_spec (j + 1) (len E)); [destruct (Z.eqb_spec (len L - 72 * (j + 1)) 72)|]; lia. }
      destruct Hlast as (Hlv & Hlr).
      change (x_tab (enc_x L E j)) with (subZ L (72 * (j + 1)) 72). rewrite subZ_window by lia. rewrite subZ_sub by lia.
      replace (72 * (j + 1) + 0) with (72 * (j + 1)) by lia.
      rewrite (skipn_split L (72 * (j + 1)) last) by lia.
      assert (Hsk : skipn (Z.to_nat (72 * (j + 1) + last)) L = skipn (Z.to_nat (72 * (j + 1 + 1))) L).
      { destruct (Z.eq_dec last 72) as [->|Hl72]; [f_equal; lia|]. rewrite !skipn_all2; [reflexivity|unfold len in *; lia|unfold len in *; lia]. }
      rewrite Hsk.
      assert (HskE : skipn (Z.to_nat j) E = nthZ E j :: skipn (Z.to_nat (j + 1)) E).
      { rewrite nthZ_nth by lia. replace (Z.to_nat (j + 1)) with (S (Z.to_nat j)) by lia. apply skipn_cons_nth. unfold len in Hj2. lia. }
      rewrite HskE. rewrite <- !app_assoc. apply Permutation_app_head.
      cbn [app]. apply Permutation_cons_app. exact Hp.
  Qed.

  Theorem blocks_to_remove_exact s1 L E new : Inv s1 L E -> chg s1 = false -> 0 <= new < fsize s1 ->
    exists rem, blocks_to_remove bs nobad s1 new = Some rem /\
      Permutation rem (skipn (Z.to_nat (size2db new bs)) L ++ skipn (Z.to_nat (db2ext (size2db new bs))) E).
  Proof.
    intros I Hc Hn. pose proof I as (B & HL & _). pose proof (inv_cb s1 L E I Hc) as C. pose proof (lenE_of s1 L E B) as HlE.
    pose proof (b_hdr _ _ _ B) as (_ & Htab & _ & _ & Hext).
    set (n' := size2db new bs). set (x' := db2ext n').
    assert (Hn'L : 0 <= n' <= len L) by (subst n'; rewrite HL; split; [apply size2db_nonneg; lia|apply size2db_mono; lia]).
    assert (Hx'v : x' = if n' <? 1 then 0 else (n' - 1) / 72) by reflexivity.
    assert (HxE : 0 <= x' <= len E) by (rewrite Hx'v, HlE; destruct (Z.ltb_spec n' 1); destruct (Z.ltb_spec (len L) 1); lia).
    unfold blocks_to_remove. destruct (Z.ltb_spec (fsize s1) new); [lia|]. rewrite <- HL. fold n'. rewrite <- (b_nE _ _ _ B). fold x'.
    destruct (Z.ltb_spec (len L + len E - (n' + x')) 1) as [Hnone|Hsome].
    { (* nothing to give back *)
      exists []. split; [reflexivity|]. assert (Hboth : n' = len L /\ x' = len E) by lia. destruct Hboth as (-> & ->).
      rewrite !skipn_all2 by (unfold len; lia). constructor. }
    destruct (Z.ltb_spec (len E) 1) as [HE0|HE1].
    { (* no extension blocks at all *)
      eexists. split; [reflexivity|]. assert (HEnil : E = []) by (destruct E; [reflexivity|unfold len in HE0; simpl in HE0; lia]). subst E.
      assert (Hx0 : x' = 0) by (unfold len in HxE; simpl in HxE; lia). rewrite Hx0. cbn [skipn Z.to_nat]. rewrite app_nil_r.
      assert (HL72 : len L <= 72) by (rewrite HlE in HE0; destruct (Z.ltb_spec (len L) 1); unfold len in *; simpl in *; lia).
      rewrite Htab, subZ_window by lia. rewrite subZ_sub by lia. replace (0 + n') with n' by lia.
      rewrite (skipn_split L n' (len L - n')) by lia. rewrite (skipn_all2 L) by (unfold len; lia). rewrite app_nil_r. apply Permutation_refl. }
    assert (HlenL : 72 * (len E) < len L <= 72 * (len E + 1)) by (rewrite HlE; destruct (Z.ltb_spec (len L) 1); lia).
    destruct (Z.ltb_spec x' 1) as [Hx0|Hx1].
    - (* the header keeps all that stays: its tail goes, then every extension block *)
      assert (Hxz : x' = 0) by lia. assert (Hn72 : n' <= 72) by (rewrite Hx'v in Hxz; destruct (Z.ltb_spec n' 1); lia).
      rewrite Hext. destruct (rest_exts_spec s1 L E C (Z.to_nat (len E + 1)) 0 ltac:(lia) ltac:(lia)) as (r & Hr & Hp).
      replace x' with 0 by lia. rewrite Hr. eexists. split; [reflexivity|].
      rewrite Htab. unfold MAXDB. rewrite subZ_window by lia. rewrite subZ_sub by lia. replace (0 + n') with n' by lia.
      rewrite (skipn_split L n' (72 - n')) by lia. replace (n' + (72 - n')) with (72 * (0 + 1)) by lia. rewrite <- app_assoc. apply Permutation_app_head. exact Hp.
    - (* the last kept extension block loses its tail, then every later extension block goes *)
      assert (Hxv : x' = (n' - 1) / 72 /\ 73 <= n') by (rewrite Hx'v in *; destruct (Z.ltb_spec n' 1); lia). destruct Hxv as (Hxv & Hn73).
      assert (Cl : CBl s1 L E) by (split; [exact B|split; [rewrite HL; lia|exact Hc]]).
      rewrite (read_ext_n_l s1 (set_cext s1 (Some zero_x)) L E (x' - 1) Cl eq_refl eq_refl)
        by (unfold size2ext; rewrite <- HL, <- (b_nE _ _ _ B); lia).
      cbn [negb]. unfold cx. cbn [cext set_cext]. change (x_ext (enc_x L E (x' - 1))) with (nthZ E (x' - 1 + 1)). replace (x' - 1 + 1) with x' by lia.
      destruct (rest_exts_spec s1 L E C (Z.to_nat (len E + 1)) x' ltac:(lia) ltac:(lia)) as (r & Hr & Hp). rewrite Hr.
      eexists. split; [reflexivity|]. unfold MAXDB.
      change (x_tab (enc_x L E (x' - 1))) with (subZ L (72 * (x' - 1 + 1)) 72). replace (72 * (x' - 1 + 1)) with (72 * x') by lia.
      destruct (Z.ltb_spec 0 (n' / 72)); [|lia]. destruct (Z.eqb_spec (n' mod 72) 0) as [Hm|Hm]; cbn [negb andb].
      + (* the kept block is full *)
        cbn [app]. assert (Hfull : n' = 72 * (x' + 1)) by lia. rewrite Hfull. exact Hp.
      + destruct (Z.eqb_spec (n' - 72 * x') 72); [lia|].
        set (lastD := if x' =? len E then if len L - 72 * x' =? 72 then 72 else len L mod 72 else 72).
        assert (Hlast : lastD = Z.min 72 (len L - 72 * x')).
        { subst lastD. destruct (Z.eqb_spec x' (len E)); [destruct (Z.eqb_spec (len L - 72 * x') 72)|]; lia. }
        replace (n' mod 72 + 1 - 1) with (n' mod 72) by lia.
        assert (Hcnt : lastD - (n' mod 72 + 1) + 1 = Z.min (len L) (72 * (x' + 1)) - n') by lia. rewrite Hcnt.
        rewrite subZ_window by lia. replace (72 * x' + n' mod 72) with n' by lia. rewrite subZ_sub by lia.
        set (cnt := Z.min (len L) (72 * (x' + 1)) - n').
        rewrite (skipn_split L n' cnt) by (subst cnt; lia).
        assert (Hsk : skipn (Z.to_nat (n' + cnt)) L = skipn (Z.to_nat (72 * (x' + 1))) L).
        { subst cnt. destruct (Z.le_gt_cases (72 * (x' + 1)) (len L)); [f_equal; lia|]. rewrite !skipn_all2; [reflexivity|unfold len in *; lia|unfold len in *; lia]. }
        rewrite Hsk. rewrite <- app_assoc. apply Permutation_app_head. exact Hp.
  Qed.

  Theorem fio_truncate_shrink_frees s L E al new ok s' rem al' : Inv s L E -> mw s = true -> 0 <= new < fsize s ->
    fio_truncate bs ofs nobad s new al = (ok, s', rem, al') -> ok = true ->
    Permutation rem (skipn (Z.to_nat (size2db new bs)) L ++ skipn (Z.to_nat (db2ext (size2db new bs))) E).
  Proof.
    intros I Hw Hnew Ht Hok. unfold fio_truncate in Ht. rewrite Hw in Ht. cbn [negb] in Ht.
    destruct (Z.eqb_spec new (fsize s)); [lia|]. destruct (Z.ltb_spec (fsize s) new); [lia|].
    destruct (flush_inv s L E I Hw) as (I1 & Hc1 & (_ & _ & _ & _ & _ & _ & Sfh & _) & _ & _).
    remember (set_chg (fio_flush bs ofs s) false) as s1 eqn:Hs1. clear Hs1.
    assert (Hf1 : fsize s1 = fsize s) by (unfold fsize; rewrite Sfh; reflexivity).
    destruct (blocks_to_remove_exact s1 L E new I1 Hc1 ltac:(lia)) as (rem0 & Hrem & Hperm). rewrite Hrem in Ht.
    destruct (seek_eof bs ofs nobad (set_fh s1 (set_h_size (fh s1) new))) as [[|] s2]; cbn [negb] in Ht.
    - injection Ht as _ _ <- _. exact Hperm.
    - injection Ht as <- _ _ _. discriminate.
  Qed.
  (* ---- the frame of a shrinking adfFileTruncate, of adfFileClose / adfFileFlush and of the creation of a file (C18) ---- *)
  Theorem fio_truncate_shrink_fr s L E al new : Inv s L E -> mw s = true -> new < fsize s ->
    Fr (key :: L ++ E) s (snd (fst (fst (fio_truncate bs ofs nobad s new al)))).
  Proof.
    intros I Hw Hlt n Hn. rewrite (fio_truncate_shrink_dk bs ofs nobad s new al Hw Hlt). apply (flush_fr bs ofs _ s (inv_own s L E I) n Hn).
  Qed.

  Theorem fio_flush_fr s L E : Inv s L E -> Fr (key :: L ++ E) s (fio_flush bs ofs s).
  Proof. intros I. apply flush_fr, (inv_own s L E I). Qed.

  Theorem fio_close_fr s L E : Inv s L E -> forall n, ~ In n (key :: L ++ E) -> fio_close bs ofs s n = dk s n.
  Proof. intros I n Hn. unfold fio_close. apply (fio_flush_fr s L E I n Hn). Qed.

  Theorem fio_new_fr d r w : forall n, n <> key -> dk (fio_new bs d key r w) n = d n.
  Proof. intros n Hn. unfold fio_new, init_handle. cbn [dk]. destruct (Z.eqb_spec n key); [contradiction|reflexivity]. Qed.

  (* opening a file changes nothing on the volume *)
  Theorem fio_open_fr d r w : dk (snd (fio_open bs ofs nobad d key r w)) = d.
  Proof.
    unfold fio_open. rewrite fio_seek_quiet; [reflexivity|]. unfold quiet, init_handle. cbn [mw chg]. apply andb_false_r.
  Qed.
End Inv.

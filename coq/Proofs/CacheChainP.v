(* The cache-chain model (Model/CacheChain.v) refines a plain list of records keyed by header block: adding appends,
   deleting removes the record with that key, updating replaces it (possibly moving it to the end); every block stays
   within the 488-byte record area, only the first block may be empty, block numbers and keys stay distinct, and a
   released block is exactly a block that lost its only record - for every history (C07). *)
From Coq Require Import ZArith List Bool Arith Lia Permutation.
From ADF Require Import CPrelude Generated.Leaf Model.CacheChain.
Import ListNotations.

(* ---- lists of records ---- *)
Lemma used_app a b : used (a ++ b) = used a + used b.
Proof. induction a as [|r a IH]; simpl; [reflexivity|rewrite IH; lia]. Qed.

Lemma has_key_app k a b : has_key k (a ++ b) = has_key k a || has_key k b.
Proof. unfold has_key. apply existsb_app. Qed.

Lemma remove_key_app k a b :
  remove_key k (a ++ b) = if has_key k a then remove_key k a ++ b else a ++ remove_key k b.
Proof.
  induction a as [|r a IH]; simpl; [reflexivity|].
  destruct (Z.eqb (r_key r) k); simpl; [reflexivity|]. rewrite IH. destruct (has_key k a); reflexivity.
Qed.

Lemma replace_key_app k r' a b :
  replace_key k r' (a ++ b) = if has_key k a then replace_key k r' a ++ b else a ++ replace_key k r' b.
Proof.
  induction a as [|r a IH]; simpl; [reflexivity|].
  destruct (Z.eqb (r_key r) k); simpl; [reflexivity|]. rewrite IH. destruct (has_key k a); reflexivity.
Qed.

Lemma has_key_in k rs : has_key k rs = true <-> In k (map r_key rs).
Proof.
  unfold has_key. rewrite existsb_exists. split.
  - intros (r & Hin & He). apply Z.eqb_eq in He. subst k. apply in_map. exact Hin.
  - intros H. apply in_map_iff in H. destruct H as (r & <- & Hin). exists r. split; [exact Hin|apply Z.eqb_refl].
Qed.

Lemma remove_key_used k rs : used (remove_key k rs) <= used rs.
Proof. induction rs as [|r t IH]; simpl; [lia|]. destruct (Z.eqb (r_key r) k); simpl; lia. Qed.

Lemma remove_key_length k rs : has_key k rs = true -> S (length (remove_key k rs)) = length rs.
Proof.
  induction rs as [|r t IH]; simpl; [discriminate|].
  destruct (Z.eqb (r_key r) k); simpl; [reflexivity|]. intros H. rewrite IH by exact H. reflexivity.
Qed.

Lemma remove_key_nokey k rs : has_key k rs = false -> remove_key k rs = rs.
Proof.
  induction rs as [|r t IH]; simpl; [reflexivity|].
  destruct (Z.eqb (r_key r) k); simpl; [discriminate|]. intros H. rewrite IH by exact H. reflexivity.
Qed.

Lemma remove_key_keys_incl k rs x : In x (map r_key (remove_key k rs)) -> In x (map r_key rs).
Proof.
  induction rs as [|r t IH]; simpl; [auto|].
  destruct (Z.eqb (r_key r) k); simpl; [auto|]. intros [H|H]; [left; exact H|right; apply IH; exact H].
Qed.

Lemma remove_key_nodup k rs : NoDup (map r_key rs) -> NoDup (map r_key (remove_key k rs)).
Proof.
  induction rs as [|r t IH]; simpl; intros H; [constructor|].
  inversion H as [|? ? Hn Ht]; subst.
  destruct (Z.eqb (r_key r) k); [exact Ht|]. simpl. constructor; [|apply IH; exact Ht].
  intro X. apply Hn. apply (remove_key_keys_incl k). exact X.
Qed.

(* after removing the record with key k from a list with distinct keys, k is gone *)
Lemma remove_key_gone k rs : NoDup (map r_key rs) -> ~ In k (map r_key (remove_key k rs)).
Proof.
  induction rs as [|r t IH]; simpl; intros H; [auto|].
  inversion H as [|? ? Hn Ht]; subst.
  destruct (Z.eqb_spec (r_key r) k) as [E|N]; [subst k; exact Hn|].
  simpl. intros [X|X]; [contradiction|apply (IH Ht X)].
Qed.

Lemma replace_key_used k r' rs ol : find_len k rs = Some ol -> r_len r' <= ol -> used (replace_key k r' rs) <= used rs.
Proof.
  induction rs as [|r t IH]; simpl; [discriminate|].
  destruct (Z.eqb (r_key r) k); simpl; [intros H; injection H as <-; lia|].
  intros H Hl. specialize (IH H Hl). lia.
Qed.

Lemma replace_key_length k r' rs : length (replace_key k r' rs) = length rs.
Proof. induction rs as [|r t IH]; simpl; [reflexivity|]. destruct (Z.eqb (r_key r) k); simpl; auto. Qed.

Lemma replace_key_keys k r' rs : r_key r' = k -> map r_key (replace_key k r' rs) = map r_key rs.
Proof.
  intros Hk. induction rs as [|r t IH]; simpl; [reflexivity|].
  destruct (Z.eqb_spec (r_key r) k) as [E|N]; simpl; [congruence|]. rewrite IH. reflexivity.
Qed.

Lemma find_len_app k a b : find_len k (a ++ b) = if has_key k a then find_len k a else find_len k b.
Proof.
  induction a as [|r a IH]; simpl; [reflexivity|].
  destruct (Z.eqb (r_key r) k); simpl; [reflexivity|exact IH].
Qed.

Lemma find_len_has k rs : has_key k rs = true <-> exists ol, find_len k rs = Some ol.
Proof.
  induction rs as [|r t IH]; simpl.
  - split; [discriminate|intros [ol H]; discriminate].
  - destruct (Z.eqb (r_key r) k); simpl; [split; [intros _; eexists; reflexivity|reflexivity]|exact IH].
Qed.

(* the test by which adfAddInCache decides between appending to the last block and linking a new one (condition slice
   REGENERATED from adf_cache.c) is the model's *)
Theorem add_fits_is_librarys : forall (rs : list crec) (r : crec),
  d_adfAddInCache_fits (Z.of_nat (r_len r)) (Z.of_nat (used rs)) = 1%Z <-> (used rs + r_len r <=? AREA) = true.
Proof.
  intros rs r. unfold d_adfAddInCache_fits, AREA, b2z.
  destruct (Z.leb_spec (Z.of_nat (used rs) + Z.of_nat (r_len r)) 488); destruct (Nat.leb_spec (used rs + r_len r) 488); try lia;
    split; intros X; try reflexivity; try discriminate X.
Qed.

(* ---- invariant ---- *)
Definition block_ok (first : bool) (blk : cblock) : Prop := used (snd blk) <= AREA /\ (first = false -> snd blk <> []).
Arguments block_ok _ _ /.
Fixpoint blocks_ok (first : bool) (c : cstate) : Prop :=
  match c with [] => True | blk :: rest => block_ok first blk /\ blocks_ok false rest end.

Definition Inv0 (c : cstate) : Prop := c <> [] /\ blocks_ok true c /\ NoDup (map fst c).
Definition Inv (c : cstate) : Prop := Inv0 c /\ NoDup (map r_key (recs c)).

Lemma blocks_ok_weaken c : blocks_ok false c -> blocks_ok true c.
Proof. destruct c as [|blk rest]; simpl; [auto|]. intros [[H1 H2] H3]. split; [split; [exact H1|discriminate]|exact H3]. Qed.

(* ---- add ---- *)
Lemma recs_add c r nb : recs (c_add c r nb) = recs c ++ [r].
Proof.
  unfold recs. induction c as [|[b rs] rest IH]; [reflexivity|].
  destruct rest as [|blk2 rest].
  - cbn [c_add]. destruct (used rs + r_len r <=? AREA); simpl; rewrite ?app_nil_r; reflexivity.
  - change (c_add ((b, rs) :: blk2 :: rest) r nb) with ((b, rs) :: c_add (blk2 :: rest) r nb).
    cbn [map concat snd]. rewrite IH. cbn [map concat]. rewrite app_assoc. reflexivity.
Qed.

Lemma blocks_ok_add first c r nb : c <> [] -> blocks_ok first c -> r_len r <= AREA -> blocks_ok first (c_add c r nb).
Proof.
  revert first. induction c as [|[b rs] rest IH]; intros first Hne Hok Hr; [congruence|].
  destruct rest as [|blk2 rest].
  - cbn [c_add]. destruct Hok as [[Hu Hn] _]. simpl in Hu, Hn. destruct (Nat.leb_spec (used rs + r_len r) AREA).
    + simpl. split; [split; [rewrite used_app; simpl; lia|intros _; destruct rs; discriminate]|exact I].
    + simpl. split; [split; [exact Hu|exact Hn]|]. split; [split; [simpl; lia|discriminate]|exact I].
  - change (c_add ((b, rs) :: blk2 :: rest) r nb) with ((b, rs) :: c_add (blk2 :: rest) r nb).
    destruct Hok as [Hb Hrest]. split; [exact Hb|]. apply IH; [discriminate|exact Hrest|exact Hr].
Qed.

Lemma fst_add c r nb : c <> [] -> map fst (c_add c r nb) = map fst c \/ map fst (c_add c r nb) = map fst c ++ [nb].
Proof.
  induction c as [|[b rs] rest IH]; intros Hne; [congruence|].
  destruct rest as [|blk2 rest].
  - cbn [c_add]. destruct (used rs + r_len r <=? AREA); [left|right]; reflexivity.
  - change (c_add ((b, rs) :: blk2 :: rest) r nb) with ((b, rs) :: c_add (blk2 :: rest) r nb).
    destruct (IH ltac:(discriminate)) as [E|E]; [left|right]; cbn [map fst]; rewrite E; reflexivity.
Qed.

Lemma NoDup_snoc {A} (l : list A) a : NoDup l -> ~ In a l -> NoDup (l ++ [a]).
Proof.
  induction l as [|x l IH]; intros Hnd Hni; simpl; [constructor; [intros []|constructor]|].
  inversion Hnd as [|? ? Hx Hnd']; subst. constructor.
  - intro Hin. apply in_app_or in Hin. destruct Hin as [Hin|[<-|[]]]; [contradiction|apply Hni; left; reflexivity].
  - apply IH; [exact Hnd'|intro X; apply Hni; right; exact X].
Qed.

Lemma add_refines0 : forall c r nb, Inv0 c -> r_len r <= AREA -> ~ In nb (map fst c) ->
  Inv0 (c_add c r nb) /\ recs (c_add c r nb) = recs c ++ [r].
Proof.
  intros c r nb (Hne & Hok & Hnb) Hr Hfresh.
  split; [|apply recs_add].
  split; [destruct c as [|[b rs] [|? ?]]; [congruence|cbn [c_add]; destruct (_ <=? _); discriminate|discriminate]|].
  split; [apply blocks_ok_add; assumption|].
  destruct (fst_add c r nb Hne) as [E|E]; rewrite E; [exact Hnb|apply NoDup_snoc; assumption].
Qed.

Theorem add_refines : forall c r nb, Inv c -> ~ In (r_key r) (map r_key (recs c)) -> r_len r <= AREA -> ~ In nb (map fst c) ->
  Inv (c_add c r nb) /\ recs (c_add c r nb) = recs c ++ [r].
Proof.
  intros c r nb [H0 Hnk] Hk Hr Hfresh.
  destruct (add_refines0 c r nb H0 Hr Hfresh) as [H0' Hrecs].
  split; [|exact Hrecs]. split; [exact H0'|].
  rewrite Hrecs, map_app. simpl. apply NoDup_snoc; assumption.
Qed.

(* ---- delete ---- *)
Lemma recs_cons b rs rest : recs ((b, rs) :: rest) = rs ++ recs rest.
Proof. reflexivity. Qed.

Lemma del_tail_spec : forall c k, blocks_ok false c ->
  let '(c', fr) := c_del_tail c k in
  recs c' = remove_key k (recs c) /\ blocks_ok false c' /\ Permutation (map fst c' ++ fr) (map fst c) /\
  (has_key k (recs c) = false -> c' = c /\ fr = []) /\ length fr <= 1.
Proof.
  induction c as [|[b rs] rest IH]; intros k Hok; cbn [c_del_tail].
  - repeat split; auto.
  - destruct Hok as [[Hu Hn] Hrest]. rewrite recs_cons, remove_key_app, has_key_app.
    destruct (has_key k rs) eqn:Hk.
    + destruct (Nat.leb_spec (length rs) 1) as [Hl|Hl].
      * (* the only record of the block: the block goes *)
        assert (Hrm : remove_key k rs = []).
        { pose proof (remove_key_length k rs Hk) as E. destruct (remove_key k rs); [reflexivity|simpl in E; lia]. }
        rewrite Hrm. repeat split; try assumption; try discriminate; try (simpl; lia).
        simpl. apply Permutation_sym. apply Permutation_cons_append.
      * rewrite recs_cons. simpl in Hu. repeat split; try discriminate; try (simpl; lia).
        -- simpl. pose proof (remove_key_used k rs). lia.
        -- intros _ X. simpl in X. pose proof (remove_key_length k rs Hk) as E. rewrite X in E. simpl in E. lia.
        -- exact Hrest.
        -- rewrite app_nil_r. reflexivity.
    + specialize (IH k Hrest). destruct (c_del_tail rest k) as [rest' fr]. destruct IH as (Hr & Hok' & Hp & Hno & Hlen).
      rewrite recs_cons, Hr. simpl orb. repeat split.
      * exact Hu.
      * exact Hn.
      * exact Hok'.
      * simpl. apply perm_skip. exact Hp.
      * destruct (Hno H) as [-> ->]. reflexivity.
      * destruct (Hno H) as [_ ->]. reflexivity.
      * exact Hlen.
Qed.

Lemma del_refines0 : forall c k, Inv0 c ->
  let '(c', fr) := c_del c k in
  Inv0 c' /\ recs c' = remove_key k (recs c) /\ Permutation (map fst c' ++ fr) (map fst c) /\ (length fr <= 1)%nat.
Proof.
  intros [|[b rs] rest] k (Hne & Hok & Hnb); [congruence|]. cbn [c_del].
  destruct Hok as [[Hu _] Hrest]. simpl in Hu.
  destruct (has_key k rs) eqn:Hk.
  - assert (Hr : recs ((b, remove_key k rs) :: rest) = remove_key k (recs ((b, rs) :: rest))).
    { rewrite !recs_cons, remove_key_app, Hk. reflexivity. }
    split; [|split; [exact Hr|split; [rewrite app_nil_r; reflexivity|simpl; lia]]].
    split; [discriminate|]. split; [split; [split; [simpl; pose proof (remove_key_used k rs); lia|discriminate]|exact Hrest]|exact Hnb].
  - pose proof (del_tail_spec rest k Hrest) as H. destruct (c_del_tail rest k) as [rest' fr]. destruct H as (Hr & Hok' & Hp & _ & Hlen).
    assert (Hrr : recs ((b, rs) :: rest') = remove_key k (recs ((b, rs) :: rest))).
    { rewrite !recs_cons, remove_key_app, Hk, Hr. reflexivity. }
    split; [|split; [exact Hrr|split; [simpl; apply perm_skip; exact Hp|exact Hlen]]].
    split; [discriminate|]. split; [split; [split; [exact Hu|discriminate]|exact Hok']|].
    (* block numbers stay distinct: they are among the old ones *)
    assert (Hnd : NoDup (map fst ((b, rs) :: rest') ++ fr)).
    { apply (Permutation_NoDup (l := map fst ((b, rs) :: rest))); [|exact Hnb]. simpl. apply perm_skip. apply Permutation_sym. exact Hp. }
    clear - Hnd. revert Hnd. generalize (map fst ((b, rs) :: rest')) as l. intros l. induction l as [|x l IH]; intros H; [constructor|].
    simpl in H. inversion H as [|? ? Hx Hl]; subst. constructor; [intro X; apply Hx; apply in_or_app; left; exact X|apply IH; exact Hl].
Qed.

Theorem del_refines : forall c k, Inv c ->
  let '(c', fr) := c_del c k in
  Inv c' /\ recs c' = remove_key k (recs c) /\ Permutation (map fst c' ++ fr) (map fst c) /\
  ~ In k (map r_key (recs c')) /\ (length fr <= 1)%nat.
Proof.
  intros c k [H0 Hnk]. pose proof (del_refines0 c k H0) as H. destruct (c_del c k) as [c' fr].
  destruct H as (H0' & Hr & Hp & Hl).
  split; [split; [exact H0'|rewrite Hr; apply remove_key_nodup; exact Hnk]|].
  split; [exact Hr|]. split; [exact Hp|]. split; [rewrite Hr; apply remove_key_gone; exact Hnk|exact Hl].
Qed.

(* ---- update ---- *)
Lemma recs_replace c k r' : recs (c_replace c k r') = replace_key k r' (recs c).
Proof.
  induction c as [|[b rs] rest IH]; [reflexivity|]. cbn [c_replace]. rewrite recs_cons, replace_key_app.
  destruct (has_key k rs); rewrite recs_cons; [reflexivity|rewrite IH; reflexivity].
Qed.

Lemma fst_replace c k r' : map fst (c_replace c k r') = map fst c.
Proof.
  induction c as [|[b rs] rest IH]; [reflexivity|]. cbn [c_replace].
  destruct (has_key k rs); simpl; [reflexivity|rewrite IH; reflexivity].
Qed.

Lemma blocks_ok_replace first c k r' ol : blocks_ok first c -> find_len k (recs c) = Some ol -> r_len r' <= ol ->
  blocks_ok first (c_replace c k r').
Proof.
  revert first. induction c as [|[b rs] rest IH]; intros first Hok Hf Hl; [exact I|].
  cbn [c_replace]. destruct Hok as [[Hu Hn] Hrest]. simpl in Hu, Hn.
  rewrite recs_cons, find_len_app in Hf.
  destruct (has_key k rs) eqn:Hk.
  - split; [|exact Hrest]. simpl. split; [pose proof (replace_key_used k r' rs ol Hf Hl); lia|].
    intros E X. apply (Hn E). pose proof (replace_key_length k r' rs) as L. rewrite X in L. destruct rs; [reflexivity|discriminate].
  - split; [split; assumption|]. apply IH; assumption.
Qed.

Lemma replace_perm k r' l : has_key k l = true -> Permutation (replace_key k r' l) (r' :: remove_key k l).
Proof.
  induction l as [|r t IH]; simpl; [discriminate|].
  destruct (Z.eqb (r_key r) k); simpl; [reflexivity|].
  intros H. rewrite (IH H). apply perm_swap.
Qed.

Theorem update_refines : forall c r' nb, Inv c -> In (r_key r') (map r_key (recs c)) -> r_len r' <= AREA -> ~ In nb (map fst c) ->
  let '(c', fr) := c_update c r' nb in
  Inv c' /\ Permutation (recs c') (r' :: remove_key (r_key r') (recs c)) /\
  (forall b, In b (map fst c' ++ fr) -> In b (nb :: map fst c)) /\ (length fr <= 1)%nat.
Proof.
  intros c r' nb [H0 Hnk] Hin Hr Hfresh. unfold c_update.
  set (k := r_key r') in *.
  assert (Hk : has_key k (recs c) = true) by (apply has_key_in; exact Hin).
  destruct (proj1 (find_len_has k (recs c)) Hk) as [ol Hf]. rewrite Hf.
  destruct (Nat.leb_spec (r_len r') ol) as [Hl|Hl].
  - (* rewritten in place *)
    destruct H0 as (Hne & Hok & Hnb).
    split; [|split; [rewrite recs_replace; apply replace_perm; exact Hk|split; [|simpl; lia]]].
    + split.
      * split; [destruct c as [|[b rs] rest]; [congruence|cbn [c_replace]; destruct (has_key k rs); discriminate]|].
        split; [apply (blocks_ok_replace true c k r' ol); assumption|rewrite fst_replace; exact Hnb].
      * rewrite recs_replace, replace_key_keys by reflexivity. exact Hnk.
    + intros b Hb. rewrite app_nil_r, fst_replace in Hb. right. exact Hb.
  - (* the longer record is added first, then the old one (the first with that key) is removed *)
    destruct (add_refines0 c r' nb H0 Hr Hfresh) as [H1 Hrecs1].
    pose proof (del_refines0 (c_add c r' nb) k H1) as H. destruct (c_del (c_add c r' nb) k) as [c' fr].
    destruct H as (H0' & Hr' & Hp & Hlen).
    assert (Hfinal : recs c' = remove_key k (recs c) ++ [r']).
    { rewrite Hr', Hrecs1, remove_key_app, Hk. reflexivity. }
    split; [|split; [rewrite Hfinal; apply Permutation_sym; apply Permutation_cons_append|split; [|exact Hlen]]].
    + split; [exact H0'|]. rewrite Hfinal, map_app. simpl. apply NoDup_snoc; [apply remove_key_nodup; exact Hnk|].
      fold k. apply remove_key_gone. exact Hnk.
    + intros b Hb. apply (Permutation_in _ Hp) in Hb.
      destruct H0 as (Hne & _). destruct (fst_add c r' nb Hne) as [E|E]; rewrite E in Hb; [right; exact Hb|].
      apply in_app_or in Hb. destruct Hb as [Hb|[Hb|[]]]; [right; exact Hb|left; exact Hb].
Qed.

(* The allocator and the free count (C05 / C08 / C14), over the hand mirror of adfGetFreeBlocks / adfCountFreeBlocks (Model/Bitmap.v, tied by
   the allocator correspondence) and the bit operations regenerated from adf_bitm.c:
   - a successful adfGetFreeBlocks(want) lowers adfCountFreeBlocks by exactly want;
   - it is refused exactly when adfCountFreeBlocks < want (the circular scan from the root visits every block of the volume once);
   - formatting: from the bitmap adfCreateBitmap builds (every block 2..last free), the three requests of adfCreateVol / adfWriteNewBitmap
     (root [+ cache block], the bitmap pages, the bitmap extension blocks) succeed on any volume that can hold them and leave
     size - 2 - (1 [+1]) - pages - extension blocks free. *)
From Coq Require Import ZArith List Bool Lia Permutation.
From ADF Require Import CPrelude Generated.Leaf Model.Bitmap Proofs.BitmapP Proofs.ConserveP.
Import ListNotations.
Local Open Scope Z_scope.

Theorem alloc_count b root last want l b' : 2 < root <= last ->
  get_free_blocks b root last want = Some (l, b') -> count_free b' last = count_free b last - Z.of_nat want.
Proof.
  intros Hr H. unfold get_free_blocks in H. destruct (scan _ b root last want root []) as [l0|] eqn:S; [|discriminate]. injection H as <- <-.
  destruct (alloc_sound b root last want l0 Hr S) as (Hlen & Hnd & Hin). rewrite count_after_taking by assumption. lia.
Qed.

Lemma nfree_perm b l1 l2 : Permutation l1 l2 -> nfree b l1 = nfree b l2.
Proof.
  unfold nfree. induction 1 as [|x l1 l2 _ IH|x y l|l1 l2 l3 _ IH1 _ IH2]; cbn [filter]; [reflexivity| | |congruence].
  - destruct (is_free b x); cbn [length]; rewrite IH; reflexivity.
  - destruct (is_free b x), (is_free b y); reflexivity.
Qed.

Lemma zseq_app start n m : zseq start (n + m) = zseq start n ++ zseq (start + Z.of_nat n) m.
Proof.
  revert start. induction n as [|n IH]; intros start; cbn [zseq Nat.add app]; [replace (start + Z.of_nat 0) with start by (cbn; lia); reflexivity|].
  rewrite IH. replace (start + Z.of_nat (S n)) with (start + 1 + Z.of_nat n) by lia. reflexivity.
Qed.

Lemma order_perm root last : 2 < root <= last -> Permutation (order root last) (zseq 2 (Z.to_nat (last - 1))).
Proof.
  intros Hr. unfold order. rewrite Permutation_app_comm.
  replace (Z.to_nat (last - 1)) with (Z.to_nat (root - 2) + Z.to_nat (last - root + 1))%nat by lia.
  rewrite zseq_app. replace (2 + Z.of_nat (Z.to_nat (root - 2))) with root by lia. apply Permutation_refl.
Qed.

(* refused exactly when the free count is too small *)
Theorem alloc_refused_iff b root last want : 2 < root <= last ->
  (get_free_blocks b root last want = None <-> count_free b last < Z.of_nat want).
Proof.
  intros Hr. split.
  - intros H. unfold get_free_blocks in H. destruct (scan _ b root last want root []) as [l0|] eqn:S; [discriminate|].
    pose proof (alloc_complete b root last want Hr S) as Hc. rewrite (nfree_perm b _ _ (order_perm root last Hr)) in Hc.
    rewrite count_free_spec. lia.
  - intros H. destruct (get_free_blocks b root last want) as [(l, b')|] eqn:G; [|reflexivity]. exfalso.
    unfold get_free_blocks in G. destruct (scan _ b root last want root []) as [l0|] eqn:S; [|discriminate]. injection G as <- <-.
    destruct (alloc_sound b root last want l0 Hr S) as (Hlen & Hnd & Hin).
    (* want distinct free blocks of 2..last exist, so the count is at least want *)
    assert (Hle : (length l0 <= nfree b (zseq 2 (Z.to_nat (last - 1))))%nat).
    { unfold nfree. apply NoDup_incl_length; [exact Hnd|]. intros x Hx. apply filter_In. destruct (Hin x Hx) as (Hx1 & Hx2).
      split; [apply in_zseq; lia|exact Hx2]. }
    rewrite count_free_spec in H. lia.
Qed.

(* the bitmap adfCreateBitmap builds: a zeroed table in which blocks 2..last are set free one by one *)
Definition fresh_bm (last : Z) : bm := fold_left set_free (zseq 2 (Z.to_nat (last - 1))) (fun _ _ => 0).

Lemma fold_set_free b l : (forall x, In x l -> 2 <= x) -> forall m, 2 <= m ->
  is_free (fold_left set_free l b) m = if existsb (Z.eqb m) l then true else is_free b m.
Proof.
  revert b. induction l as [|x l IH]; intros b Hl m Hm; cbn [fold_left existsb]; [reflexivity|].
  rewrite IH by (try assumption; intros y Hy; apply Hl; right; exact Hy).
  rewrite is_free_set_free by (try assumption; apply Hl; left; reflexivity).
  destruct (Z.eqb_spec m x); cbn [orb]; [destruct (existsb _ l); reflexivity|reflexivity].
Qed.

Lemma fresh_all_free last n : 2 <= n <= last -> is_free (fresh_bm last) n = true.
Proof.
  intros Hn. unfold fresh_bm. rewrite fold_set_free by (try lia; intros x Hx; apply in_zseq in Hx; lia).
  assert (He : existsb (Z.eqb n) (zseq 2 (Z.to_nat (last - 1))) = true) by (apply existsb_exists; exists n; split; [apply in_zseq; lia|apply Z.eqb_refl]).
  rewrite He. reflexivity.
Qed.

Lemma count_fresh last : 1 <= last -> count_free (fresh_bm last) last = last - 1.
Proof.
  intros H. rewrite count_free_spec. unfold nfree.
  assert (E : filter (is_free (fresh_bm last)) (zseq 2 (Z.to_nat (last - 1))) = zseq 2 (Z.to_nat (last - 1))).
  { assert (G : forall l, (forall x, In x l -> is_free (fresh_bm last) x = true) -> filter (is_free (fresh_bm last)) l = l).
    { induction l as [|y l IH]; intros Hl; [reflexivity|]. cbn [filter]. rewrite (Hl y (or_introl eq_refl)). rewrite IH; [reflexivity|].
      intros x Hx. apply Hl. right. exact Hx. }
    apply G. intros x Hx. apply in_zseq in Hx. apply fresh_all_free. lia. }
  rewrite E. clear E.
  assert (G : forall k s, length (zseq s k) = k) by (induction k as [|k IH]; intros s; cbn [zseq length]; [reflexivity|rewrite IH; reflexivity]).
  rewrite G. lia.
Qed.

(* adfCreateVol + adfWriteNewBitmap: c = 1 or 2 blocks for the root (and the root's cache block), p bitmap pages, e bitmap extension blocks *)
Theorem format_free_count root last c p e : 2 < root <= last -> Z.of_nat (c + p + e) <= last - 1 ->
  exists l1 b1 l2 b2 l3 b3,
    get_free_blocks (fresh_bm last) root last c = Some (l1, b1) /\ get_free_blocks b1 root last p = Some (l2, b2) /\
    get_free_blocks b2 root last e = Some (l3, b3) /\
    count_free b3 last = (last + 1) - 2 - Z.of_nat c - Z.of_nat p - Z.of_nat e /\
    NoDup (l1 ++ l2 ++ l3) /\ (forall x, In x (l1 ++ l2 ++ l3) -> 2 <= x <= last) /\ ((1 <= c)%nat -> hd 0 l1 = root).
Proof.
  intros Hr Hfit. pose proof (count_fresh last ltac:(lia)) as H0.
  destruct (get_free_blocks (fresh_bm last) root last c) as [(l1, b1)|] eqn:G1.
  2:{ apply (alloc_refused_iff _ root last c Hr) in G1. lia. }
  pose proof (alloc_count _ root last c l1 b1 Hr G1) as C1.
  destruct (get_free_blocks b1 root last p) as [(l2, b2)|] eqn:G2.
  2:{ apply (alloc_refused_iff _ root last p Hr) in G2. lia. }
  pose proof (alloc_count _ root last p l2 b2 Hr G2) as C2.
  destruct (get_free_blocks b2 root last e) as [(l3, b3)|] eqn:G3.
  2:{ apply (alloc_refused_iff _ root last e Hr) in G3. lia. }
  pose proof (alloc_count _ root last e l3 b3 Hr G3) as C3.
  exists l1, b1, l2, b2, l3, b3. split; [reflexivity|]. split; [exact G2|]. split; [exact G3|]. split; [lia|].
  (* what was handed out: distinct blocks of the volume *)
  assert (S1 : exists s1, scan (Z.to_nat last + 2) (fresh_bm last) root last c root [] = Some s1 /\ s1 = l1 /\ b1 = fold_left set_used l1 (fresh_bm last)).
  { unfold get_free_blocks in G1. destruct (scan _ _ root last c root []) as [s1|]; [|discriminate]. injection G1 as <- <-. exists s1. repeat split. }
  assert (S2 : exists s2, scan (Z.to_nat last + 2) b1 root last p root [] = Some s2 /\ s2 = l2 /\ b2 = fold_left set_used l2 b1).
  { unfold get_free_blocks in G2. destruct (scan _ _ root last p root []) as [s2|]; [|discriminate]. injection G2 as <- <-. exists s2. repeat split. }
  assert (S3 : exists s3, scan (Z.to_nat last + 2) b2 root last e root [] = Some s3 /\ s3 = l3).
  { unfold get_free_blocks in G3. destruct (scan _ _ root last e root []) as [s3|]; [|discriminate]. injection G3 as <- <-. exists s3. repeat split. }
  destruct S1 as (s1 & Sc1 & -> & Hb1). destruct S2 as (s2 & Sc2 & -> & Hb2). destruct S3 as (s3 & Sc3 & ->).
  destruct (alloc_sound _ root last c l1 Hr Sc1) as (Hl1 & Hnd1 & Hin1).
  destruct (alloc_sound _ root last p l2 Hr Sc2) as (Hl2 & Hnd2 & Hin2).
  destruct (alloc_sound _ root last e l3 Hr Sc3) as (Hl3 & Hnd3 & Hin3).
  assert (U1 : forall x, In x l1 -> is_free b1 x = false).
  { intros x Hx. rewrite Hb1. apply (taken_are_used _ last l1); [intros y Hy; apply Hin1; exact Hy|exact Hx]. }
  assert (U2 : forall x, In x l1 \/ In x l2 -> is_free b2 x = false).
  { intros x Hx. rewrite Hb2. destruct Hx as [Hx|Hx].
    - apply used_stays_used; [apply (Hin1 x Hx)|apply U1, Hx|intros z Hz; apply (Hin2 z Hz)].
    - apply (taken_are_used _ last l2); [intros y Hy; apply Hin2; exact Hy|exact Hx]. }
  split; [|split].
  - apply nodup_app; [exact Hnd1|apply nodup_app; [exact Hnd2|exact Hnd3|]|].
    + intros x Hx2 Hx3. destruct (Hin3 x Hx3) as (_ & Hf). rewrite U2 in Hf by (right; exact Hx2). discriminate.
    + intros x Hx1 Hx23. apply in_app_or in Hx23. destruct Hx23 as [Hx2|Hx3].
      * destruct (Hin2 x Hx2) as (_ & Hf). rewrite U1 in Hf by exact Hx1. discriminate.
      * destruct (Hin3 x Hx3) as (_ & Hf). rewrite U2 in Hf by (left; exact Hx1). discriminate.
  - intros x Hx. apply in_app_or in Hx. destruct Hx as [Hx|Hx]; [apply (Hin1 x Hx)|]. apply in_app_or in Hx. destruct Hx as [Hx|Hx]; [apply (Hin2 x Hx)|apply (Hin3 x Hx)].
  - (* the root block is the first block handed out: the scan starts there and it is free *)
    intros Hc. destruct c as [|c']; [lia|]. clear - Sc1 Hr.
    replace (Z.to_nat last + 2)%nat with (S (Z.to_nat last + 1)) in Sc1 by lia. cbn [scan] in Sc1.
    rewrite fresh_all_free in Sc1 by lia. cbn [Nat.pred] in Sc1.
    assert (G : forall f b rt lst w blk acc r, scan f b rt lst w blk acc = Some r -> exists t, r = rev acc ++ t).
    { induction f as [|f IH]; intros b rt lst w blk acc r H.
      - destruct w; cbn [scan] in H; [injection H as <-; exists []; rewrite app_nil_r; reflexivity|discriminate].
      - destruct w as [|w]; cbn [scan] in H; [injection H as <-; exists []; rewrite app_nil_r; reflexivity|].
        set (acc' := if is_free b blk then blk :: acc else acc) in *.
        assert (Ha : exists u, rev acc' = rev acc ++ u) by (subst acc'; destruct (is_free b blk); [exists [blk]; reflexivity|exists []; rewrite app_nil_r; reflexivity]).
        destruct Ha as (u & Hu).
        destruct (blk =? lst).
        + destruct (IH _ _ _ _ _ _ _ H) as (t & ->). exists (u ++ t). rewrite Hu, app_assoc. reflexivity.
        + destruct (blk + 1 =? rt).
          * destruct (if is_free b blk then Nat.pred (S w) else S w); [injection H as <-; exists u; exact Hu|discriminate].
          * destruct (IH _ _ _ _ _ _ _ H) as (t & ->). exists (u ++ t). rewrite Hu, app_assoc. reflexivity. }
    destruct (root =? last).
    + destruct (G _ _ _ _ _ _ _ _ Sc1) as (t & ->). reflexivity.
    + destruct (root + 1 =? root); [destruct c'; [injection Sc1 as <-; reflexivity|discriminate]|].
      destruct (G _ _ _ _ _ _ _ _ Sc1) as (t & ->). reflexivity.
Qed.

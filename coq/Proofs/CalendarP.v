(* C16: the generated adfIsLeap / adfDays2Date / adfTime2AmigaTime agree with
   the Gregorian calendar for every day count and every date from 1978 on. *)
From Coq Require Import ZArith List Bool Lia.
From ADF Require Import CPrelude Generated.Leaf Spec.Calendar.
Import ListNotations.
Local Open Scope Z_scope.
Ltac Zify.zify_post_hook ::= Z.to_euclidean_division_equations.

(* ---- generic loop rule ---- *)
Lemma while_inv {S : Type} (I : S -> Prop) (mu : S -> nat) (c : S -> bool) (b : S -> S) :
  (forall s, I s -> c s = true -> I (b s) /\ (mu (b s) < mu s)%nat) ->
  forall fuel s, I s -> (mu s < fuel)%nat ->
  exists s', while_ fuel c b s = Some s' /\ I s' /\ c s' = false.
Proof.
  intros Hstep. induction fuel as [|f IH]; intros s HI Hm; [lia|].
  simpl. destruct (c s) eqn:Hc.
  - destruct (Hstep s HI Hc) as [HI' Hlt]. apply IH; [exact HI'|lia].
  - exists s. auto.
Qed.

Ltac loop_inv I mu :=
  match goal with |- context [while_ ?f ?c ?b ?s0] =>
    let H := fresh "Hloop" in
    assert (H : exists s', while_ f c b s0 = Some s' /\ I s' /\ c s' = false);
    [apply (while_inv I mu)|]
  end.

(* ---- leap years ---- *)
Lemma mod_4_100 y : y mod 4 = (y mod 100) mod 4.
Proof. apply Znumtheory.Zmod_div_mod; [lia|lia|exists 25; lia]. Qed.
Lemma mod_100_400 y : y mod 100 = (y mod 400) mod 100.
Proof. apply Znumtheory.Zmod_div_mod; [lia|lia|exists 4; lia]. Qed.

Lemma isleap_gen y : 0 <= y -> c_adfIsLeap y = b2z (is_leap y).
Proof.
  intros Hy. unfold c_adfIsLeap, is_leap.
  rewrite !Z.rem_mod_nonneg by lia.
  pose proof (mod_4_100 y) as H4. pose proof (mod_100_400 y) as H100.
  destruct (y mod 100 =? 0) eqn:E100; destruct (y mod 400 =? 0) eqn:E400;
    destruct (y mod 4 =? 0) eqn:E4; simpl; try reflexivity;
    rewrite ?Z.eqb_eq, ?Z.eqb_neq in *; exfalso;
    try (rewrite E100 in H4; simpl in H4; lia);
    try (rewrite E400 in H100; simpl in H100; lia).
Qed.

Lemma isleap_test y : 0 <= y -> negb (c_adfIsLeap y =? 0) = is_leap y.
Proof. intros H. rewrite isleap_gen by exact H. destruct (is_leap y); reflexivity. Qed.

Lemma dby_succ y : days_before_year (y + 1) = days_before_year y + year_len y.
Proof.
  unfold days_before_year, year_len, is_leap.
  replace (y + 1 - 1) with y by lia.
  pose proof (mod_4_100 y) as H4. pose proof (mod_100_400 y) as H100.
  destruct (y mod 100 =? 0) eqn:E100; destruct (y mod 400 =? 0) eqn:E400;
    destruct (y mod 4 =? 0) eqn:E4; cbn [andb orb negb];
    rewrite ?Z.eqb_eq, ?Z.eqb_neq in *;
    try (exfalso; rewrite E100 in H4; simpl in H4; lia);
    try (exfalso; rewrite E400 in H100; simpl in H100; lia);
    clear H4 H100; lia.
Qed.

Lemma year_len_bounds y : 365 <= year_len y <= 366.
Proof. unfold year_len; destruct (is_leap y); lia. Qed.

(* ---- months ---- *)
Lemma month_cases (P : Z -> Prop) :
  P 1 -> P 2 -> P 3 -> P 4 -> P 5 -> P 6 -> P 7 -> P 8 -> P 9 -> P 10 -> P 11 -> P 12 ->
  forall m, 1 <= m <= 12 -> P m.
Proof.
  intros. assert (m = 1 \/ m = 2 \/ m = 3 \/ m = 4 \/ m = 5 \/ m = 6 \/ m = 7 \/ m = 8 \/ m = 9 \/
                  m = 10 \/ m = 11 \/ m = 12) as C by lia.
  repeat (destruct C as [C|C]; [subst; assumption|]). subst; assumption.
Qed.

Lemma dbm_succ leap m : 1 <= m <= 12 ->
  days_before_month leap (m + 1) = days_before_month leap m + month_len leap m.
Proof. revert m. apply month_cases; destruct leap; reflexivity. Qed.

Lemma dbm_13 leap : days_before_month leap 13 = (if leap then 366 else 365).
Proof. destruct leap; reflexivity. Qed.

Lemma dbm_1 leap : days_before_month leap 1 = 0.
Proof. reflexivity. Qed.

Lemma month_len_pos leap m : 1 <= m <= 12 -> 28 <= month_len leap m <= 31.
Proof. revert m. apply month_cases; destruct leap; vm_compute; split; discriminate. Qed.

Lemma nthZ_month_lens leap m : 1 <= m <= 12 -> nthZ (month_lens leap) (m - 1) = month_len leap m.
Proof. revert m. apply month_cases; destruct leap; reflexivity. Qed.

Definition jm0 : list Z := [31; 28; 31; 30; 31; 30; 31; 31; 30; 31; 30; 31].

Lemma jm_leap (leap : bool) :
  (if leap then updZ jm0 (2 - 1) 29 else jm0) = month_lens leap.
Proof. destruct leap; reflexivity. Qed.

(* ---- adfDays2Date ---- *)
Theorem days2date_correct : forall days fuel,
  0 <= days -> (Z.to_nat days + 13 < fuel)%nat ->
  exists y m d, c_adfDays2Date fuel days = Some (y, m, d) /\
                1978 <= y /\ valid_date y m d /\ amiga_days y m d = days.
Proof.
  intros days fuel Hd Hf. unfold c_adfDays2Date. cbv zeta.
  (* year loop *)
  loop_inv
      (fun '((dd, y, nd) : Z * Z * Z) => 0 <= dd /\ 1978 <= y /\ nd = year_len y /\
                           days_before_year y + dd = days_before_year 1978 + days)
      (fun '((dd, _, _) : Z * Z * Z) => Z.to_nat dd).
  - intros [[dd y] nd] (Hdd & Hy & Hnd & Hsum) Hc.
    rewrite Z.geb_le in Hc. rewrite isleap_test by lia.
    pose proof (year_len_bounds y). subst nd. split; [|lia].
    split; [lia|]. split; [lia|]. split.
    + unfold year_len. destruct (is_leap (y + 1)); reflexivity.
    + rewrite dby_succ. lia.
  - rewrite isleap_test by lia. split; [lia|]. split; [lia|]. split; [|lia].
    unfold year_len. destruct (is_leap 1978); reflexivity.
  - lia.
  - destruct Hloop as ([[dd y] nd] & Heq & (Hdd & Hy & Hnd & Hsum) & Hc).
    rewrite Heq. clear Heq. rewrite Z.geb_leb, Z.leb_gt in Hc. subst nd.
    rewrite isleap_test by lia.
    change [31; 28; 31; 30; 31; 30; 31; 31; 30; 31; 30; 31] with jm0.
    rewrite jm_leap.
    set (leap := is_leap y) in *.
    (* month loop *)
    loop_inv
      (fun '((d2, m) : Z * Z) => 0 <= d2 /\ 1 <= m <= 12 /\ days_before_month leap m + d2 = dd)
      (fun '((_, m) : Z * Z) => Z.to_nat (13 - m)).
    + intros [d2 m] (Hd2 & Hm & Hs2) Hc2.
      rewrite Z.geb_le in Hc2. rewrite nthZ_month_lens in * by lia.
      pose proof (month_len_pos leap m Hm).
      assert (m <= 11).
      { destruct (Z.eq_dec m 12) as [->|]; [|lia]. exfalso.
        pose proof (dbm_succ leap 12 ltac:(lia)) as E. change (12 + 1) with 13 in E.
        rewrite dbm_13 in E. unfold year_len in Hc. fold leap in Hc. destruct leap; lia. }
      split; [|lia]. split; [lia|]. split; [lia|]. rewrite dbm_succ by lia. lia.
    + rewrite dbm_1. split; [lia|]. split; lia.
    + lia.
    + destruct Hloop as ([d2 m] & Heq & (Hd2 & Hm & Hs2) & Hc2).
      rewrite Heq. exists y, m, (d2 + 1). split; [reflexivity|].
      rewrite Z.geb_leb, Z.leb_gt in Hc2. rewrite nthZ_month_lens in Hc2 by lia.
      split; [lia|]. split.
      * unfold valid_date. fold leap. lia.
      * unfold amiga_days, amiga_epoch, civil. fold leap.
        change (is_leap 1978) with false. rewrite !dbm_1. lia.
Qed.

(* ---- adfTime2AmigaTime ---- *)
Lemma month_sum_loop (leap : bool) (jm : list Z) : forall m d,
  1 <= m <= 12 ->
  (forall k, 1 <= k < m -> nthZ jm (k - 1) = month_len leap k) ->
  while_ 13 (fun '(day_v, dt_mon) => dt_mon >? 0)
            (fun '(day_v, dt_mon) => (day_v + nthZ jm (dt_mon - 1), dt_mon - 1)) (d, m - 1)
  = Some (d + days_before_month leap m, 0).
Proof.
  intros m d Hm Hjm.
  loop_inv
      (fun '((dv, k) : Z * Z) => 0 <= k <= m - 1 /\ dv + days_before_month leap (k + 1) = d + days_before_month leap m)
      (fun '((_, k) : Z * Z) => Z.to_nat k).
  - intros [dv k] (Hk & Hs) Hc. rewrite Z.gtb_lt in Hc. split; [|lia].
    split; [lia|]. rewrite Hjm by lia.
    replace (k - 1 + 1) with k by lia.
    rewrite (dbm_succ leap k) in Hs by lia. lia.
  - split; [lia|]. replace (m - 1 + 1) with m by lia. reflexivity.
  - lia.
  - destruct Hloop as ([dv k] & Heq & (Hk & Hs) & Hc).
    rewrite Heq. rewrite Z.gtb_ltb, Z.ltb_ge in Hc. assert (k = 0) by lia. subst k.
    rewrite dbm_1 in Hs. f_equal. f_equal. lia.
Qed.

Theorem time2amiga_correct : forall y m d h mi s fuel,
  1978 <= y -> valid_date y m d -> (Z.to_nat (y - 1978) + 14 < fuel)%nat ->
  c_adfTime2AmigaTime fuel d h mi m s (y - 1900)
  = Some (amiga_days y m d, amiga_mins h mi, amiga_ticks s).
Proof.
  intros y m d h mi s fuel Hy [Hm Hd] Hf. unfold c_adfTime2AmigaTime. cbv zeta.
  change [31; 28; 31; 30; 31; 30; 31; 31; 30; 31; 30; 31] with jm0.
  replace (y - 1900 + 1900) with y by lia.
  set (leap := is_leap y).
  (* months *)
  assert (Hmonths :
    (if m >? 1
     then
      match
        while_ fuel (fun '(day_v, dt_mon) => dt_mon >? 0)
          (fun '(day_v, dt_mon) =>
           (day_v + nthZ (if (m - 1 >? 1) && negb (c_adfIsLeap y =? 0) then updZ jm0 (2 - 1) 29 else jm0) (dt_mon - 1),
            dt_mon - 1)) (d - 1, m - 1)
      with
      | Some (day_v, dt_mon) =>
          Some (dt_mon, (if (m - 1 >? 1) && negb (c_adfIsLeap y =? 0) then updZ jm0 (2 - 1) 29 else jm0), day_v)
      | None => None
      end
     else Some (m, jm0, d - 1))
    = Some ((if m >? 1 then 0 else m),
            (if m >? 1 then (if (m - 1 >? 1) && negb (c_adfIsLeap y =? 0) then updZ jm0 (2 - 1) 29 else jm0) else jm0),
            d - 1 + days_before_month leap m)).
  { destruct (Z.gtb_spec m 1) as [Hm1|Hm1].
    - rewrite (while_more _ _ 13 fuel _ (d - 1 + days_before_month leap m, 0)); [reflexivity|lia|].
      apply month_sum_loop; [lia|].
      intros k Hk. rewrite isleap_test by lia. fold leap.
      destruct (Z.gtb_spec (m - 1) 1) as [Hm2|Hm2]; simpl.
      + rewrite jm_leap. apply nthZ_month_lens. lia.
      + assert (k = 1) by lia. subst k. destruct leap; reflexivity.
    - assert (m = 1) by lia. subst m. rewrite dbm_1, Z.add_0_r. reflexivity. }
  match goal with |- match ?X with _ => _ end = _ => replace X with
     (Some ((if m >? 1 then 0 else m),
            (if m >? 1 then (if (m - 1 >? 1) && negb (c_adfIsLeap y =? 0) then updZ jm0 (2 - 1) 29 else jm0) else jm0),
            d - 1 + days_before_month leap m)) end.
  clear Hmonths.
  (* years *)
  set (D := d - 1 + days_before_month leap m).
  destruct (Z.gtb_spec (y - 1900) 78) as [Hy1|Hy1].
  - loop_inv
      (fun '((dv, k) : Z * Z) => 77 <= k /\ k <= y - 1901 /\
                         dv + days_before_year (k + 1901) = D + days_before_year y)
      (fun '((_, k) : Z * Z) => Z.to_nat (k - 77)).
    + intros [dv k] (Hk1 & Hk2 & Hs) Hc. rewrite Z.geb_le in Hc.
      rewrite isleap_test by lia. split; [|lia].
      split; [lia|]. split; [lia|].
      replace (k + 1901) with (k + 1900 + 1) in Hs by lia. rewrite dby_succ in Hs.
      replace (k - 1 + 1901) with (k + 1900) by lia.
      unfold year_len in Hs. destruct (is_leap (k + 1900)); lia.
    + split; [lia|]. split; [lia|]. replace (y - 1900 - 1 + 1901) with y by lia. reflexivity.
    + lia.
    + destruct Hloop as ([dv k] & Heq & (Hk1 & Hk2 & Hs) & Hc).
      rewrite Heq. rewrite Z.geb_leb, Z.leb_gt in Hc. assert (k = 77) by lia. subst k.
      change (77 + 1901) with 1978 in Hs.
      unfold amiga_days, amiga_epoch, civil, amiga_mins, amiga_ticks. fold leap.
      change (is_leap 1978) with false. rewrite dbm_1. do 3 f_equal. unfold D in *. lia.
  - assert (y = 1978) by lia. subst y.
    unfold amiga_days, amiga_epoch, civil, amiga_mins, amiga_ticks. fold leap.
    rewrite dbm_1. do 3 f_equal. unfold D. lia.
Qed.

(* ---- the two conversions are mutually inverse ---- *)
Lemma dbm_plus_len_le leap m : 1 <= m <= 12 ->
  days_before_month leap m + month_len leap m <= (if leap then 366 else 365).
Proof. revert m. apply month_cases; destruct leap; vm_compute; intro X; discriminate X. Qed.

Lemma dbm_nonneg leap m : 1 <= m <= 12 -> 0 <= days_before_month leap m.
Proof. revert m. apply month_cases; destruct leap; vm_compute; intro X; discriminate X. Qed.

Lemma civil_inj_year y1 y2 m1 m2 d1 d2 :
  valid_date y1 m1 d1 -> valid_date y2 m2 d2 -> y1 < y2 -> civil y1 m1 d1 < civil y2 m2 d2.
Proof.
  intros [Hm1 Hd1] [Hm2 Hd2] Hlt. unfold civil.
  assert (Hmono : forall a b, a <= b -> days_before_year a <= days_before_year b).
  { intros a b Hab. unfold days_before_year. lia. }
  assert (H1 : days_before_month (is_leap y1) m1 + (d1 - 1) < year_len y1).
  { pose proof (month_len_pos (is_leap y1) m1 Hm1).
    assert (days_before_month (is_leap y1) m1 + month_len (is_leap y1) m1 <= year_len y1).
    { unfold year_len. apply dbm_plus_len_le. exact Hm1. }
    lia. }
  assert (H2 : 0 <= days_before_month (is_leap y2) m2).
  { apply dbm_nonneg. exact Hm2. }
  pose proof (Hmono (y1 + 1) y2 ltac:(lia)) as Hm. rewrite dby_succ in Hm. lia.
Qed.

Lemma dbm_mono leap m1 m2 : 1 <= m1 <= 12 -> 1 <= m2 <= 12 -> m1 < m2 ->
  days_before_month leap m1 + month_len leap m1 <= days_before_month leap m2.
Proof.
  intros H1 H2 Hlt. rewrite <- dbm_succ by lia.
  assert (Hmono : forall a b, 1 <= a <= 13 -> 1 <= b <= 13 -> a <= b -> days_before_month leap a <= days_before_month leap b).
  { intros a b Ha Hb Hab.
    assert (Hx : forall k, 1 <= k <= 13 -> days_before_month leap k =
               nth (Z.to_nat (k - 1)) (if leap then [0;31;60;91;121;152;182;213;244;274;305;335;366]
                                       else [0;31;59;90;120;151;181;212;243;273;304;334;365]) 0).
    { intros k Hk. destruct (Z.eq_dec k 13) as [->|Hne]; [destruct leap; reflexivity|].
      assert (Hk' : 1 <= k <= 12) by lia. clear Hk Hne.
      revert k Hk'. apply month_cases; destruct leap; reflexivity. }
    rewrite (Hx a Ha), (Hx b Hb).
    assert (exists na nb, Z.to_nat (a - 1) = na /\ Z.to_nat (b - 1) = nb /\ (na <= nb)%nat /\ (nb <= 12)%nat) as (na & nb & -> & -> & Hle & Hb12).
    { eexists; eexists; repeat split; lia. }
    clear -Hle Hb12. destruct leap;
    do 13 (destruct na as [|na]; [do 13 (destruct nb as [|nb]; [simpl; lia|]); lia|]); lia. }
  apply Hmono; lia.
Qed.

Theorem civil_injective y1 m1 d1 y2 m2 d2 :
  valid_date y1 m1 d1 -> valid_date y2 m2 d2 ->
  civil y1 m1 d1 = civil y2 m2 d2 -> y1 = y2 /\ m1 = m2 /\ d1 = d2.
Proof.
  intros V1 V2 E.
  assert (y1 = y2).
  { destruct (Z.lt_trichotomy y1 y2) as [H|[H|H]]; [|exact H|].
    - pose proof (civil_inj_year _ _ _ _ _ _ V1 V2 H). lia.
    - pose proof (civil_inj_year _ _ _ _ _ _ V2 V1 H). lia. }
  subst y2. split; [reflexivity|].
  destruct V1 as [Hm1 Hd1], V2 as [Hm2 Hd2]. unfold civil in E.
  assert (m1 = m2).
  { destruct (Z.lt_trichotomy m1 m2) as [H|[H|H]]; [|exact H|].
    - pose proof (dbm_mono (is_leap y1) m1 m2 Hm1 Hm2 H). lia.
    - pose proof (dbm_mono (is_leap y1) m2 m1 Hm2 Hm1 H). lia. }
  subst m2. split; [reflexivity|lia].
Qed.

Lemma dby_mono a b : a <= b -> days_before_year a <= days_before_year b.
Proof. intros Hab. unfold days_before_year. lia. Qed.

Lemma amiga_days_nonneg y m d : 1978 <= y -> valid_date y m d -> 0 <= amiga_days y m d.
Proof.
  intros Hy [Hm Hd]. unfold amiga_days, amiga_epoch, civil.
  change (is_leap 1978) with false. rewrite dbm_1.
  pose proof (dby_mono 1978 y Hy). pose proof (dbm_nonneg (is_leap y) m Hm). lia.
Qed.

Definition fuel_for_days (days : Z) : nat := (Z.to_nat days + 14)%nat.
Definition fuel_for_year (y : Z) : nat := (Z.to_nat (y - 1978) + 15)%nat.

(* days -> date -> days *)
Theorem days_date_days : forall days, 0 <= days ->
  exists y m d, c_adfDays2Date (fuel_for_days days) days = Some (y, m, d) /\
    c_adfTime2AmigaTime (fuel_for_year y) d 0 0 m 0 (y - 1900) = Some (days, 0, 0).
Proof.
  intros days Hd.
  destruct (days2date_correct days (fuel_for_days days) Hd) as (y & m & d & E & Hy & Hv & Ha).
  { unfold fuel_for_days. lia. }
  exists y, m, d. split; [exact E|].
  rewrite (time2amiga_correct y m d 0 0 0) by (try assumption; unfold fuel_for_year; lia).
  rewrite Ha. reflexivity.
Qed.

(* date -> days -> date *)
Theorem date_days_date : forall y m d h mi s, 1978 <= y -> valid_date y m d ->
  exists days mins ticks,
    c_adfTime2AmigaTime (fuel_for_year y) d h mi m s (y - 1900) = Some (days, mins, ticks) /\
    c_adfDays2Date (fuel_for_days days) days = Some (y, m, d).
Proof.
  intros y m d h mi s Hy Hv.
  exists (amiga_days y m d), (amiga_mins h mi), (amiga_ticks s).
  split; [apply time2amiga_correct; try assumption; unfold fuel_for_year; lia|].
  pose proof (amiga_days_nonneg y m d Hy Hv) as Hnn.
  destruct (days2date_correct (amiga_days y m d) (fuel_for_days (amiga_days y m d)) Hnn)
    as (y' & m' & d' & E & Hy' & Hv' & Ha).
  { unfold fuel_for_days. lia. }
  rewrite E. unfold amiga_days in Ha.
  assert (Hc : civil y' m' d' = civil y m d) by lia.
  destruct (civil_injective _ _ _ _ _ _ Hv' Hv Hc) as (-> & -> & ->). reflexivity.
Qed.

(* the stamp the library writes: struct tm fields -> DateTime -> Amiga time *)
Theorem stamp_correct : forall y m d h mi s, 1978 <= y -> valid_date y m d ->
  let '(r_year, r_mon, r_day, r_hour, r_min, r_sec) :=
      s_adfGiveCurrentTime h d mi (m - 1) s (y - 1900) in
  c_adfTime2AmigaTime (fuel_for_year y) r_day r_hour r_min r_mon r_sec r_year
  = Some (amiga_days y m d, amiga_mins h mi, amiga_ticks s).
Proof.
  intros y m d h mi s Hy Hv. unfold s_adfGiveCurrentTime. cbv zeta.
  replace (m - 1 + 1) with m by lia.
  apply time2amiga_correct; try assumption. unfold fuel_for_year. lia.
Qed.

(* The I/O monad in which the models of ADFlib's algorithms are written, and its
   interpretation.  The only ways a program can touch the device are the volume
   funnel (Rd/Wr = adfReadBlock/adfWriteBlock) and the device-absolute RDB
   writers/readers (DevWr/DevRd); `run` interprets them with the guard functions
   REGENERATED from adf_vol.c / adf_dev_hd.c (Generated/Leaf.v). *)
From Coq Require Import ZArith List Bool String.
From ADF Require Import CPrelude Generated.Leaf.
Import ListNotations.
Local Open Scope Z_scope.

Definition block := list Z.           (* 512 byte values *)

Inductive err : Type :=
| Fault (what : string)               (* invalid memory access / undefined value used *)
| OutOfFuel.

Inductive hdkind : Type := KRdsk | KPart | KFshd | KLseg.

Record datetime := { dt_year : Z; dt_mon : Z; dt_day : Z; dt_hour : Z; dt_min : Z; dt_sec : Z }.

Inductive prog (A : Type) : Type :=
| Ret (a : A)
| Fail (e : err)
| Rd (n : Z) (k : Z * block -> prog A)              (* adfReadBlock : rc, buffer *)
| Wr (n : Z) (b : block) (k : Z -> prog A)          (* adfWriteBlock : rc *)
| DevWr (kd : hdkind) (n : Z) (b : block) (k : Z -> prog A)   (* adfWrite{RDSK,PART,FSHD,LSEG}block *)
| DevRd (n : Z) (size : Z) (k : Z * block -> prog A)          (* adfReadBlockDev (RDB readers, mount probe) *)
| Alloc (cnt : Z) (k : option (list Z) -> prog A)   (* adfGetFreeBlocks / adfGet1FreeBlock *)
| Clock (k : datetime -> prog A).

Arguments Ret {A}. Arguments Fail {A}. Arguments Rd {A}. Arguments Wr {A}.
Arguments DevWr {A}. Arguments DevRd {A}. Arguments Alloc {A}. Arguments Clock {A}.

Fixpoint bind {A B} (p : prog A) (f : A -> prog B) : prog B :=
  match p with
  | Ret a => f a
  | Fail e => Fail e
  | Rd n k => Rd n (fun x => bind (k x) f)
  | Wr n b k => Wr n b (fun x => bind (k x) f)
  | DevWr kd n b k => DevWr kd n b (fun x => bind (k x) f)
  | DevRd n s k => DevRd n s (fun x => bind (k x) f)
  | Alloc c k => Alloc c (fun x => bind (k x) f)
  | Clock k => Clock (fun x => bind (k x) f)
  end.

Notation "x <- p ;; q" := (bind p (fun x => q)) (at level 61, p at next level, right associativity).
Notation "' pat <- p ;; q" := (bind p (fun x => match x with pat => q end))
  (at level 61, pat pattern, p at next level, right associativity).

(* ---- the world a program runs against ---- *)

Record volinfo := { v_first : Z; v_last : Z; v_mounted : Z; v_readOnly : Z }.

(* The device and the environment are arbitrary: any state type, any behaviour
   (including failing reads that return garbage, failing writes, any allocation
   answers, any clock). *)
Record env (D : Type) := {
  dev_read  : D -> Z -> Z -> (Z * block * D);        (* sector, size -> rc, data, new state *)
  dev_write : D -> Z -> Z -> block -> (Z * D);       (* sector, size, data -> rc, new state *)
  alloc_ans : D -> Z -> (option (list Z) * D);
  clock_ans : D -> (datetime * D);
  garbage   : D -> block                             (* buffer content after a refused read *)
}.
Arguments dev_read {D}. Arguments dev_write {D}. Arguments alloc_ans {D}. Arguments clock_ans {D}. Arguments garbage {D}.

Inductive event : Type :=
| EvRead (psect size : Z)
| EvWrite (psect size : Z) (b : block).

Inductive outcome (A : Type) : Type := Done (a : A) | Failed (e : err).
Arguments Done {A}. Arguments Failed {A}.

Definition hd_guard (kd : hdkind) (dev_ro n : Z) : guard_result :=
  match kd with
  | KRdsk => g_adfWriteRDSKblock dev_ro
  | KPart => g_adfWritePARTblock dev_ro n
  | KFshd => g_adfWriteFSHDblock dev_ro n
  | KLseg => g_adfWriteLSEGblock dev_ro n
  end.

Section Run.
  Context {D : Type} (E : env D) (v : volinfo) (dev_ro : Z).

  Fixpoint run {A} (p : prog A) (d : D) : outcome A * D * list event :=
    match p with
    | Ret a => (Done a, d, [])
    | Fail e => (Failed e, d, [])
    | Rd n k =>
        match g_adfReadBlock n (v_first v) (v_last v) (v_mounted v) with
        | GRet rc => run (k (rc, garbage E d)) d
        | GDev ps sz =>
            let '(rc, data, d1) := dev_read E d ps sz in
            let '(r, d2, tr) := run (k (rc, data)) d1 in (r, d2, EvRead ps sz :: tr)
        end
    | Wr n b k =>
        match g_adfWriteBlock n (v_first v) (v_last v) (v_mounted v) (v_readOnly v) with
        | GRet rc => run (k rc) d
        | GDev ps sz =>
            let '(rc, d1) := dev_write E d ps sz b in
            let '(r, d2, tr) := run (k rc) d1 in (r, d2, EvWrite ps sz b :: tr)
        end
    | DevWr kd n b k =>
        match hd_guard kd dev_ro n with
        | GRet rc => run (k rc) d
        | GDev ps sz =>
            let '(rc, d1) := dev_write E d ps sz b in
            let '(r, d2, tr) := run (k rc) d1 in (r, d2, EvWrite ps sz b :: tr)
        end
    | DevRd n sz k =>
        let '(rc, data, d1) := dev_read E d n sz in
        let '(r, d2, tr) := run (k (rc, data)) d1 in (r, d2, EvRead n sz :: tr)
    | Alloc c k =>
        let '(ans, d1) := alloc_ans E d c in run (k ans) d1
    | Clock k =>
        let '(t, d1) := clock_ans E d in run (k t) d1
    end.
End Run.

Definition is_write (e : event) : bool := match e with EvWrite _ _ _ => true | EvRead _ _ => false end.
Definition ev_sector (e : event) : Z := match e with EvWrite s _ _ => s | EvRead s _ => s end.

(* programs that use only the volume funnel (everything except RDB handling and the mount probes) *)
Fixpoint vol_only {A} (p : prog A) : Prop :=
  match p with
  | Ret _ | Fail _ => True
  | Rd _ k => forall x, vol_only (k x)
  | Wr _ _ k => forall x, vol_only (k x)
  | DevWr _ _ _ _ => False
  | DevRd _ _ _ => False
  | Alloc _ k => forall x, vol_only (k x)
  | Clock k => forall x, vol_only (k x)
  end.

(* An AmigaDOS OFS/FFS volume decoder and judge written from doc/FAQ/adf_info.txt
   (sections 4.1-4.7, 5.4, 6.1-6.5) and sharing no code with the library model.
   `decode v` either rejects the image (error code + block) or returns the
   abstract volume: tree with metadata and file bytes, the list of owned blocks,
   and the free-block count.  An image is well formed iff it decodes:
   every clause of DESIGN.md appendix A is a test made here. *)
From Coq Require Import ZArith List Bool.
From ADF Require Import CPrelude Spec.Names.
Import ListNotations.
Local Open Scope Z_scope.

Record volume := { nblocks : Z; blk : Z -> list Z }.   (* volume-relative block -> 512 bytes *)

Inductive res (A : Type) : Type := Ok (a : A) | Bad (code : Z) (where_ : Z).
Arguments Ok {A}. Arguments Bad {A}.

Definition rbind {A B} (r : res A) (f : A -> res B) : res B :=
  match r with Ok a => f a | Bad c w => Bad c w end.
Notation "x <-- r ;;; k" := (rbind r (fun x => k)) (at level 61, r at next level, right associativity).
Definition check (b : bool) (code where_ : Z) : res unit := if b then Ok tt else Bad code where_.

(* error codes *)
Definition E_RANGE := 1.       (* block pointer outside the volume *)
Definition E_TYPE := 2.        (* wrong primary type *)
Definition E_SECTYPE := 3.
Definition E_SUM := 4.         (* checksum *)
Definition E_SELF := 5.        (* headerKey is not the block's own number *)
Definition E_PARENT := 6.
Definition E_NAMELEN := 7.
Definition E_HASH := 8.        (* entry not in the chain selected by its name's hash *)
Definition E_FUEL := 9.        (* chain longer than the volume: cycle *)
Definition E_DUPNAME := 10.
Definition E_HIGHSEQ := 11.
Definition E_DATAPTR := 12.    (* data block pointer zero / table slot not cleared *)
Definition E_EXTCOUNT := 13.   (* number of extension blocks does not match the size *)
Definition E_OFSHDR := 14.     (* OFS data block header wrong *)
Definition E_OWNED2 := 15.     (* block reached twice *)
Definition E_BITMAP_USED := 16. (* owned block marked free *)
Definition E_BITMAP_FREE := 17. (* unowned block marked allocated (leak) *)
Definition E_BOOT := 18.
Definition E_ROOT := 19.
Definition E_BMFLAG := 20.
Definition E_BMPAGES := 21.
Definition E_CACHE := 22.      (* cache block malformed *)
Definition E_CACHE_DIFF := 23. (* cached listing differs from hash-table listing *)
Definition E_COMMLEN := 24.
Definition E_FIRSTDATA := 25.
Definition E_LINK := 26.
Definition E_OFS_SEQ := 27.    Definition E_OFS_SIZE := 28.   Definition E_OFS_NEXT := 29.

(* ---- byte access ---- *)
Definition u8 (b : list Z) (i : Z) : Z := nthZ b i.
Definition u32 (b : list Z) (i : Z) : Z := be32_at b i.
Definition s32 (b : list Z) (i : Z) : Z := cast_s32 (be32_at b i).
Definition u16 (b : list Z) (i : Z) : Z := be16_at b i.

Fixpoint sub_nat (b : list Z) (off : Z) (n : nat) : list Z :=
  match n with O => [] | S m => u8 b off :: sub_nat b (off + 1) m end.
Definition sub (b : list Z) (off len : Z) : list Z := sub_nat b off (Z.to_nat len).

Fixpoint sum32_nat (b : list Z) (i : Z) (n : nat) : Z :=
  match n with O => 0 | S m => u32 b i + sum32_nat b (i + 4) m end.
(* "normal" checksum: all 128 longs add up to 0 (mod 2^32) *)
Definition sum_ok (b : list Z) : bool := (sum32_nat b 0 128 mod 2 ^ 32 =? 0).

(* field offsets of the specification (adf_info.txt) *)
Definition O_TYPE := 0.      Definition O_HKEY := 4.     Definition O_HIGHSEQ := 8.
Definition O_HTSIZE := 12.   Definition O_FIRSTDATA := 16. Definition O_SUM := 20.
Definition O_TABLE := 24.    (* 72 longs: hash table / data block table *)
Definition O_BMFLAG := 312.  Definition O_BMPAGES := 316. Definition O_BMEXT := 416.
Definition O_PROT := 320.    Definition O_SIZE := 324.   Definition O_COMMLEN := 328. Definition O_COMM := 329.
Definition O_DAYS := 420.    Definition O_MINS := 424.   Definition O_TICKS := 428.
Definition O_NAMELEN := 432. Definition O_NAME := 433.
Definition O_REAL := 468.    Definition O_NEXTLINK := 472.
Definition O_NEXTHASH := 496. Definition O_PARENT := 500. Definition O_EXT := 504. Definition O_SECTYPE := 508.

Definition T_HEADER := 2.  Definition T_LIST := 16.  Definition T_DATA := 8.  Definition T_DIRC := 33.
Definition ST_ROOT := 1.   Definition ST_DIR := 2.   Definition ST_FILE := -3.
Definition ST_LFILE := -4. Definition ST_LDIR := 4.  Definition ST_LSOFT := 3.

(* ---- abstract volume ---- *)
Inductive node : Type :=
| NFile (hdr : Z) (name : list Z) (prot : Z) (comment : list Z) (content : list Z) (date : Z * Z * Z)
| NDir (hdr : Z) (name : list Z) (prot : Z) (comment : list Z) (children : list node) (date : Z * Z * Z)
| NLink (hdr : Z) (name : list Z) (sectype : Z) (real : Z).

Definition node_name (n : node) : list Z :=
  match n with NFile _ nm _ _ _ _ => nm | NDir _ nm _ _ _ _ => nm | NLink _ nm _ _ => nm end.
Definition node_hdr (n : node) : Z :=
  match n with NFile h _ _ _ _ _ => h | NDir h _ _ _ _ _ => h | NLink h _ _ _ => h end.

Record afs := {
  a_flavour : Z;
  a_volname : list Z;
  a_tree : list node;          (* children of the root *)
  a_owned : list Z;            (* every block reached, boot blocks excluded *)
  a_free : Z;                  (* blocks in [2,n) marked free in the bitmap *)
  a_bmpages : list Z;
  a_bmexts : list Z
}.

Section Decode.
  Variable v : volume.
  Let n := nblocks v.
  Definition in_range (b : Z) : bool := (2 <=? b) && (b <? n).
  Definition B (b : Z) : list Z := blk v b.

  Definition flavour : Z := u8 (B 0) 3.
  Definition is_ffs : bool := Z.odd flavour.
  Definition is_intl : bool := Z.testbit flavour 1 || Z.testbit flavour 2.
  Definition is_dircache : bool := Z.testbit flavour 2.
  Definition dbs : Z := if is_ffs then 512 else 488.

  (* data block pointers of a header / extension block, in file order: table[71], table[70], ... *)
  Fixpoint table_ptrs (b : list Z) (i : Z) (cnt : nat) : list Z :=
    match cnt with O => [] | S m => s32 b (O_TABLE + 4 * (71 - i)) :: table_ptrs b (i + 1) m end.

  Definition ceil_div (a b : Z) : Z := (a + b - 1) / b.

  (* extension chain: exactly `cnt` blocks; returns (ext blocks, data pointers) *)
  Fixpoint ext_chain (fuel : nat) (hdr e : Z) (remaining : Z) : res (list Z * list Z) :=
    match fuel with
    | O => Bad E_FUEL e
    | S f =>
        if remaining <=? 0 then (if e =? 0 then Ok ([], []) else Bad E_EXTCOUNT e)
        else
          _ <-- check (in_range e) E_RANGE e ;;;
          let b := B e in
          _ <-- check (s32 b O_TYPE =? T_LIST) E_TYPE e ;;;
          _ <-- check (s32 b O_SECTYPE =? ST_FILE) E_SECTYPE e ;;;
          _ <-- check (s32 b O_HKEY =? e) E_SELF e ;;;
          _ <-- check (s32 b O_PARENT =? hdr) E_PARENT e ;;;
          _ <-- check (sum_ok b) E_SUM e ;;;
          let here := Z.min remaining 72 in
          _ <-- check (s32 b O_HIGHSEQ =? here) E_HIGHSEQ e ;;;
          let ptrs := table_ptrs b 0 (Z.to_nat here) in
          r <-- ext_chain f hdr (s32 b O_EXT) (remaining - here) ;;;
          Ok (e :: fst r, ptrs ++ snd r)
    end.

  (* bytes of the data blocks; OFS data blocks carry a header that is checked *)
  Fixpoint data_bytes (hdr : Z) (ptrs : list Z) (seq : Z) (left : Z) : res (list Z) :=
    match ptrs with
    | [] => Ok []
    | p :: rest =>
        _ <-- check (in_range p) E_DATAPTR p ;;;
        let b := B p in
        let here := Z.min left dbs in
        _ <-- (if is_ffs then Ok tt else
                 _ <-- check (s32 b O_TYPE =? T_DATA) E_OFSHDR p ;;;
                 _ <-- check (s32 b O_HKEY =? hdr) E_OFSHDR p ;;;
                 _ <-- check (u32 b 8 =? seq) E_OFS_SEQ p ;;;
                 _ <-- check (u32 b 12 =? here) E_OFS_SIZE p ;;;
                 _ <-- check (s32 b 16 =? match rest with [] => 0 | q :: _ => q end) E_OFS_NEXT p ;;;
                 check (sum_ok b) E_SUM p) ;;;
        r <-- data_bytes hdr rest (seq + 1) (left - here) ;;;
        Ok ((if is_ffs then sub b 0 here else sub b 24 here) ++ r)
    end.

  Definition all_zero_from (b : list Z) (i : Z) : bool :=
    forallb (fun k => s32 b (O_TABLE + 4 * (71 - k)) =? 0) (map Z.of_nat (seq (Z.to_nat i) (72 - Z.to_nat i))).

  Definition decode_file (strict : bool) (h : Z) (b : list Z) : res (list Z * list Z) :=   (* content, owned blocks *)
    let size := u32 b O_SIZE in
    let d := ceil_div size dbs in
    let inhdr := Z.min d 72 in
    _ <-- check (s32 b O_HIGHSEQ =? inhdr) E_HIGHSEQ h ;;;
    let ptrs0 := table_ptrs b 0 (Z.to_nat inhdr) in
    _ <-- check (s32 b O_FIRSTDATA =? match ptrs0 with [] => 0 | p :: _ => p end) E_FIRSTDATA h ;;;
    _ <-- check (negb strict || all_zero_from b inhdr) E_DATAPTR h ;;;
    r <-- ext_chain (Z.to_nat n + 1) h (s32 b O_EXT) (d - inhdr) ;;;
    let ptrs := ptrs0 ++ snd r in
    bytes <-- data_bytes h ptrs 1 size ;;;
    Ok (bytes, fst r ++ ptrs).

  Definition entry_common (dir slot e : Z) (b : list Z) : res unit :=
    _ <-- check (s32 b O_TYPE =? T_HEADER) E_TYPE e ;;;
    _ <-- check (s32 b O_HKEY =? e) E_SELF e ;;;
    _ <-- check (sum_ok b) E_SUM e ;;;
    _ <-- check (s32 b O_PARENT =? dir) E_PARENT e ;;;
    let nl := u8 b O_NAMELEN in
    _ <-- check ((1 <=? nl) && (nl <=? 30)) E_NAMELEN e ;;;
    check (hash_name is_intl (sub b O_NAME nl) =? slot) E_HASH e.

  Definition date_of (b : list Z) : Z * Z * Z := (s32 b O_DAYS, s32 b O_MINS, s32 b O_TICKS).

  (* directory cache: records of a chain of cache blocks *)
  Definition crec := (Z * Z * Z * Z * list Z * list Z)%type.   (* header, size, protect, type, name, comment *)

  Fixpoint cache_records (b : list Z) (off : Z) (cnt : nat) : res (list crec) :=
    match cnt with
    | O => Ok []
    | S m =>
        _ <-- check ((0 <=? off) && (off + 25 <=? 488)) E_CACHE off ;;;
        let base := 24 + off in
        let nl := u8 b (base + 23) in
        _ <-- check ((1 <=? nl) && (nl <=? 30) && (off + 24 + nl + 1 <=? 488)) E_CACHE off ;;;
        let cl := u8 b (base + 24 + nl) in
        _ <-- check ((cl <=? 79) && (off + 24 + nl + 1 + cl <=? 488)) E_CACHE off ;;;
        let len := 25 + nl + cl in
        let len := if Z.even len then len else len + 1 in
        let r : crec := (u32 b base, u32 b (base + 4), u32 b (base + 8), cast_s8 (u8 b (base + 22)),
                         sub b (base + 24) nl, sub b (base + 25 + nl) cl) in
        rs <-- cache_records b (off + len) m ;;;
        Ok (r :: rs)
    end.

  Fixpoint cache_chain (fuel : nat) (dir c : Z) : res (list crec * list Z) :=
    match fuel with
    | O => Bad E_FUEL c
    | S f =>
        if c =? 0 then Ok ([], []) else
        _ <-- check (in_range c) E_RANGE c ;;;
        let b := B c in
        _ <-- check (s32 b O_TYPE =? T_DIRC) E_CACHE c ;;;
        _ <-- check (s32 b O_HKEY =? c) E_SELF c ;;;
        _ <-- check (s32 b 8 =? dir) E_PARENT c ;;;
        _ <-- check (sum_ok b) E_SUM c ;;;
        let cnt := s32 b 12 in
        _ <-- check ((0 <=? cnt) && (cnt <=? 20)) E_CACHE c ;;;
        rs <-- cache_records b 0 (Z.to_nat cnt) ;;;
        r <-- cache_chain f dir (s32 b 16) ;;;
        Ok (rs ++ fst r, c :: snd r)
    end.

  Definition crec_of_node (nd : node) : crec :=
    match nd with
    | NFile h nm p c content _ => (h, Z.of_nat (length content), cast_u32 p, ST_FILE, nm, c)
    | NDir h nm p c _ _ => (h, 0, cast_u32 p, ST_DIR, nm, c)
    | NLink h nm st _ => (h, 0, 0, st, nm, [])
    end.

  Definition list_eqb (a b : list Z) : bool :=
    (Z.of_nat (length a) =? Z.of_nat (length b)) && forallb (fun p => fst p =? snd p) (combine a b).

  Definition crec_eqb (a b : crec) : bool :=
    let '(h1, s1, p1, t1, n1, c1) := a in let '(h2, s2, p2, t2, n2, c2) := b in
    (h1 =? h2) && (s1 =? s2) && (p1 =? p2) && (t1 =? t2) && list_eqb n1 n2 && list_eqb c1 c2.

  (* same multiset: every record of one list has a partner with the same header key and equal fields *)
  Definition crecs_agree (a b : list crec) : bool :=
    (Z.of_nat (length a) =? Z.of_nat (length b)) &&
    forallb (fun x => existsb (crec_eqb x) b) a && forallb (fun x => existsb (crec_eqb x) a) b.

  Definition names_unique (ns : list node) : bool :=
    let fs := map (fun nd => fold_name is_intl (node_name nd)) ns in
    (fix go (l : list (list Z)) := match l with [] => true | x :: r => negb (existsb (list_eqb x) r) && go r end) fs.

  (* one hash chain; entries and owned blocks.  `decode_dir` is passed for recursion into subdirectories. *)
  Section Chains.
    Variable strict : bool.
    Variable decode_dir : Z -> list Z -> res (list node * list Z).

    Fixpoint chain (fuel : nat) (dir slot e : Z) : res (list node * list Z) :=
      match fuel with
      | O => Bad E_FUEL e
      | S f =>
          if e =? 0 then Ok ([], []) else
          _ <-- check (in_range e) E_RANGE e ;;;
          let b := B e in
          _ <-- entry_common dir slot e b ;;;
          let st := s32 b O_SECTYPE in
          let nm := sub b O_NAME (u8 b O_NAMELEN) in
          let cl := u8 b O_COMMLEN in
          this <--
            (if st =? ST_FILE then
               _ <-- check (cl <=? 79) E_COMMLEN e ;;;
               r <-- decode_file strict e b ;;;
               Ok ([NFile e nm (s32 b O_PROT) (sub b O_COMM cl) (fst r) (date_of b)], e :: snd r)
             else if st =? ST_DIR then
               _ <-- check (cl <=? 79) E_COMMLEN e ;;;
               r <-- decode_dir e b ;;;
               Ok ([NDir e nm (s32 b O_PROT) (sub b O_COMM cl) (fst r) (date_of b)], e :: snd r)
             else if (st =? ST_LFILE) || (st =? ST_LDIR) then
               let real := s32 b O_REAL in
               _ <-- check (in_range real) E_LINK e ;;;
               Ok ([NLink e nm st real], [e])
             else if st =? ST_LSOFT then Ok ([NLink e nm st 0], [e])
             else Bad E_SECTYPE e) ;;;
          rest <-- chain f dir slot (s32 b O_NEXTHASH) ;;;
          Ok (fst this ++ fst rest, snd this ++ snd rest)
      end.

    Fixpoint slots (dir : Z) (b : list Z) (slot : Z) (cnt : nat) : res (list node * list Z) :=
      match cnt with
      | O => Ok ([], [])
      | S m =>
          a <-- chain (Z.to_nat n + 1) dir slot (s32 b (O_TABLE + 4 * slot)) ;;;
          r <-- slots dir b (slot + 1) m ;;;
          Ok (fst a ++ fst r, snd a ++ snd r)
      end.
  End Chains.

  (* directory contents at bounded depth *)
  Fixpoint decode_dir (strict : bool) (depth : nat) (d : Z) (b : list Z) : res (list node * list Z) :=
    match depth with
    | O => Bad E_FUEL d
    | S k =>
        r <-- slots strict (decode_dir strict k) d b 0 72 ;;;
        _ <-- check (names_unique (fst r)) E_DUPNAME d ;;;
        if is_dircache then
          c <-- cache_chain (Z.to_nat n + 1) d (s32 b O_EXT) ;;;
          _ <-- check (negb (s32 b O_EXT =? 0)) E_CACHE d ;;;
          _ <-- check (crecs_agree (fst c) (map crec_of_node (fst r))) E_CACHE_DIFF d ;;;
          Ok (fst r, snd r ++ snd c)
        else Ok r
    end.

  (* ---- bitmap ---- *)
  Fixpoint take_pages (b : list Z) (off : Z) (cnt : nat) : list Z :=
    match cnt with O => [] | S m => s32 b off :: take_pages b (off + 4) m end.

  Fixpoint bmext_chain (fuel : nat) (e : Z) (remaining : Z) : res (list Z * list Z) :=   (* ext blocks, pages *)
    match fuel with
    | O => Bad E_FUEL e
    | S f =>
        if remaining <=? 0 then (if e =? 0 then Ok ([], []) else Bad E_BMPAGES e)
        else
          _ <-- check (in_range e) E_RANGE e ;;;
          let b := B e in
          let here := Z.min remaining 127 in
          (* as in the root block: the slots behind the last page are empty, so that the pages listed are exactly the pages of the volume *)
          _ <-- check (forallb (fun k => s32 b (4 * k) =? 0) (map Z.of_nat (seq (Z.to_nat here) (127 - Z.to_nat here)))) E_BMPAGES e ;;;
          r <-- bmext_chain f (s32 b 508) (remaining - here) ;;;
          Ok (e :: fst r, take_pages b 0 (Z.to_nat here) ++ snd r)
    end.

  (* bit for block k (k >= 2): page (k-2)/4064, long ((k-2)/32) mod 127 after the checksum, bit (k-2) mod 32; 1 = free *)
  Definition bit_free (pages : list Z) (k : Z) : bool :=
    let i := k - 2 in
    let pg := nthZ pages (i / 4064) in
    Z.testbit (u32 (B pg) (4 + 4 * ((i / 32) mod 127))) (i mod 32).

  Fixpoint count_free_bits (pages : list Z) (k : Z) (cnt : nat) : Z :=
    match cnt with O => 0 | S m => (if bit_free pages k then 1 else 0) + count_free_bits pages (k + 1) m end.

  Fixpoint nodup_z (l : list Z) : res unit :=
    match l with
    | [] => Ok tt
    | x :: r => if existsb (Z.eqb x) r then Bad E_OWNED2 x else nodup_z r
    end.

  (* boot block checksum (adf_info.txt 4.1): the 256 longs of the two boot blocks, the checksum long taken as 0, added with
     end-around carry; stored is the complement *)
  Fixpoint boot_acc (b : list Z) (i : Z) (n : nat) (acc : Z) : Z :=
    match n with
    | O => acc
    | S m => let w := if i =? 4 then 0 else u32 b i in
             let t := acc + w in
             boot_acc b (i + 4) m (if 2 ^ 32 <=? t then t - 2 ^ 32 + 1 else t)
    end.
  Definition boot_sum_ok (b01 : list Z) : bool := (2 ^ 32 - 1 - boot_acc b01 0 256 0 =? u32 b01 4).

  Definition decode (strict : bool) : res afs :=
    let b0 := B 0 in
    _ <-- check ((u8 b0 0 =? 68) && (u8 b0 1 =? 79) && (u8 b0 2 =? 83) && (flavour <=? 7)) E_BOOT 0 ;;;
    (* a disk that carries boot code: the Rootblock field is 880 (DD and HD alike) and the boot checksum verifies *)
    _ <-- check ((u8 b0 12 =? 0) || ((u32 b0 8 =? 880) && boot_sum_ok (b0 ++ B 1))) E_BOOT 8 ;;;
    let rootb := n / 2 in
    _ <-- check (in_range rootb) E_ROOT rootb ;;;
    let r := B rootb in
    _ <-- check ((s32 r O_TYPE =? T_HEADER) && (s32 r O_SECTYPE =? ST_ROOT)) E_ROOT rootb ;;;
    _ <-- check ((s32 r O_HKEY =? 0) && (s32 r O_HTSIZE =? 72) && (s32 r O_PARENT =? 0) && (s32 r O_NEXTHASH =? 0)) E_ROOT rootb ;;;
    _ <-- check (sum_ok r) E_SUM rootb ;;;
    _ <-- check (u8 r O_NAMELEN <=? 30) E_NAMELEN rootb ;;;
    _ <-- check (s32 r O_BMFLAG =? -1) E_BMFLAG rootb ;;;
    let npages := ceil_div (n - 2) 4064 in
    let inroot := Z.min npages 25 in
    let pages0 := take_pages r O_BMPAGES (Z.to_nat inroot) in
    _ <-- check (forallb (fun k => s32 r (O_BMPAGES + 4 * k) =? 0) (map Z.of_nat (seq (Z.to_nat inroot) (25 - Z.to_nat inroot)))) E_BMPAGES rootb ;;;
    be <-- bmext_chain (Z.to_nat n + 1) (s32 r O_BMEXT) (npages - inroot) ;;;
    let pages := pages0 ++ snd be in
    _ <-- check (forallb in_range pages) E_BMPAGES rootb ;;;
    _ <-- check (forallb (fun p => sum_ok (B p)) pages) E_SUM rootb ;;;
    t <-- decode_dir strict (Z.to_nat n + 1) rootb r ;;;
    let owned := rootb :: pages ++ fst be ++ snd t in
    _ <-- nodup_z owned ;;;
    _ <-- check (forallb (fun k => negb (bit_free pages k)) owned) E_BITMAP_USED rootb ;;;
    let free := count_free_bits pages 2 (Z.to_nat (n - 2)) in
    _ <-- check (free =? n - 2 - Z.of_nat (length owned)) E_BITMAP_FREE free ;;;
    Ok {| a_flavour := flavour; a_volname := sub r O_NAME (u8 r O_NAMELEN); a_tree := fst t;
          a_owned := owned; a_free := free; a_bmpages := pages; a_bmexts := fst be |}.
End Decode.

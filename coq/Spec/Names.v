(* AmigaDOS name folding and hashing (doc/FAQ/adf_info.txt 4.2.1 / 4.3.3), written without the C code. *)
From Coq Require Import ZArith List Bool.
Import ListNotations.
Local Open Scope Z_scope.

(* ASCII-only upper-casing (plain OFS/FFS) *)
Definition upper_ascii (c : Z) : Z :=
  if (97 <=? c) && (c <=? 122) then c - 32 else c.

(* Latin-1 aware upper-casing (international mode, also used with directory cache):
   a-z and 0xE0-0xFE except 0xF7 (division sign) *)
Definition upper_intl (c : Z) : Z :=
  if ((97 <=? c) && (c <=? 122)) || ((224 <=? c) && (c <=? 254) && negb (c =? 247)) then c - 32 else c.

Definition upper (intl : bool) : Z -> Z := if intl then upper_intl else upper_ascii.

Definition fold_name (intl : bool) (s : list Z) : list Z := map (upper intl) s.

Definition hash_step (h c : Z) : Z := (h * 13 + c) mod 2048.

(* hash of an already folded name *)
Definition hash_folded (s : list Z) : Z :=
  fold_left hash_step s (Z.of_nat (length s)) mod 72.

Definition hash_name (intl : bool) (s : list Z) : Z := hash_folded (fold_name intl s).

Definition is_byte_string (s : list Z) : Prop := Forall (fun c => 0 <= c < 256) s.

(* names are limited to 30 bytes; longer ones are cut *)
Definition trunc30 (s : list Z) : list Z := firstn 30 s.

(* two names denote the same entry *)
Definition same_name (intl : bool) (a b : list Z) : Prop :=
  fold_name intl (trunc30 a) = fold_name intl (trunc30 b).

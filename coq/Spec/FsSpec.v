(* The reference model the properties C01/C02 talk about: a tree of directories and
   byte-array files with handles.  Nothing here knows about blocks. *)
From Coq Require Import ZArith List Bool.
From ADF Require Import CPrelude Spec.Names.
Import ListNotations.
Local Open Scope Z_scope.

Inductive snode : Type :=
| SFile (name : list Z) (prot : Z) (comment : list Z) (content : list Z)
| SDir (name : list Z) (prot : Z) (comment : list Z) (children : list snode).

Definition sname (n : snode) : list Z := match n with SFile nm _ _ _ => nm | SDir nm _ _ _ => nm end.
Definition is_dir (n : snode) : bool := match n with SDir _ _ _ _ => true | _ => false end.

Definition path := list (list Z).

Record shandle := { sh_dir : path; sh_name : list Z; sh_pos : Z; sh_r : bool; sh_w : bool }.

Record sstate := { s_intl : bool; s_root : list snode; s_handles : list (Z * shandle) }.

Inductive sop : Type :=
| OMkdir (p : path) (name : list Z)
| OOpen (h : Z) (p : path) (name : list Z) (r w : bool)
| OClose (h : Z) | OFlush (h : Z)
| OWrite (h : Z) (data : list Z) | ORead (h : Z) (len : Z) | OSeek (h : Z) (pos : Z) | OTrunc (h : Z) (size : Z) | OStat (h : Z)
| ORm (p : path) (name : list Z)
| OMv (p : path) (name : list Z) (p2 : path) (name2 : list Z)
| OComment (p : path) (name comment : list Z)
| OProt (p : path) (name : list Z) (bits : Z)
| OLookup (p : path) (name : list Z)
| OList (p : path)
(* undelete: the entry that was removed from directory p is back exactly as it was when it was removed (a directory can only be
   removed empty); refused when the directory is gone or the name is taken again.  Whether the blocks of a deleted entry are still
   intact is not something this model knows: the correspondence replays a refused undelete as no operation. *)
| ORestore (p : path) (nd : snode).

Inductive sres : Type :=
| RErr
| ROk
| ROpen (size pos : Z) (eof : bool)
| RData (n : Z) (bytes : list Z) (pos size : Z) (eof : bool)     (* read: bytes returned; write: n accepted *)
| RPos (pos size : Z) (eof : bool)
| RLook (isdir : bool) (size prot : Z) (name : list Z)
| RList (entries : list snode).

Fixpoint list_eqb (a b : list Z) : bool :=
  match a, b with
  | [], [] => true
  | x :: a', y :: b' => (x =? y) && list_eqb a' b'
  | _, _ => false
  end.

Section Spec.
  Variable intl : bool.

  Definition matches (a b : list Z) : bool := list_eqb (fold_name intl (trunc30 a)) (fold_name intl (trunc30 b)).

  Fixpoint find (l : list snode) (name : list Z) : option snode :=
    match l with
    | [] => None
    | n :: r => if matches (sname n) name then Some n else find r name
    end.

  Fixpoint remove (l : list snode) (name : list Z) : list snode :=
    match l with
    | [] => []
    | n :: r => if matches (sname n) name then r else n :: remove r name
    end.

  Fixpoint replace (l : list snode) (name : list Z) (new : snode) : list snode :=
    match l with
    | [] => []
    | n :: r => if matches (sname n) name then new :: r else n :: replace r name new
    end.

  (* children of the directory at path p *)
  Fixpoint get_dir (l : list snode) (p : path) : option (list snode) :=
    match p with
    | [] => Some l
    | c :: p' => match find l c with
                 | Some (SDir _ _ _ ch) => get_dir ch p'
                 | _ => None
                 end
    end.

  (* apply f to the children of the directory at path p *)
  Fixpoint upd_dir (l : list snode) (p : path) (f : list snode -> list snode) : list snode :=
    match p with
    | [] => f l
    | c :: p' => match find l c with
                 | Some (SDir nm pr cm ch) => replace l c (SDir nm pr cm (upd_dir ch p' f))
                 | _ => l
                 end
    end.

  Definition cut (s : list Z) (n : nat) : list Z := firstn n s.

  Fixpoint zeros (n : nat) : list Z := match n with O => [] | S m => 0 :: zeros m end.

  Definition len (l : list Z) : Z := Z.of_nat (length l).

  (* overwrite / extend `content` with `data` at position pos (pos <= size) *)
  Definition splice (content : list Z) (pos : Z) (data : list Z) : list Z :=
    firstn (Z.to_nat pos) content ++ data ++ skipn (Z.to_nat pos + length data) content.

  Definition resize (content : list Z) (size : Z) : list Z :=
    if size <=? len content then firstn (Z.to_nat size) content
    else content ++ zeros (Z.to_nat (size - len content)).

  Fixpoint get_handle (hs : list (Z * shandle)) (h : Z) : option shandle :=
    match hs with [] => None | (k, x) :: r => if k =? h then Some x else get_handle r h end.
  Fixpoint del_handle (hs : list (Z * shandle)) (h : Z) : list (Z * shandle) :=
    match hs with [] => [] | (k, x) :: r => if k =? h then r else (k, x) :: del_handle r h end.
  Definition set_handle (hs : list (Z * shandle)) (h : Z) (x : shandle) := (h, x) :: del_handle hs h.

  Definition file_of (root : list snode) (x : shandle) : option (Z * list Z * list Z) :=   (* prot, comment, content *)
    match get_dir root (sh_dir x) with
    | Some ch => match find ch (sh_name x) with Some (SFile _ pr cm ct) => Some (pr, cm, ct) | _ => None end
    | None => None
    end.

  Definition set_content (root : list snode) (x : shandle) (ct : list Z) : list snode :=
    upd_dir root (sh_dir x) (fun ch =>
      match find ch (sh_name x) with
      | Some (SFile nm pr cm _) => replace ch (sh_name x) (SFile nm pr cm ct)
      | _ => ch
      end).

  (* is directory q (given as a path) inside the directory `p ++ [name]` (or equal to it)? *)
  Fixpoint is_prefix (a b : path) : bool :=
    match a, b with
    | [], _ => true
    | x :: a', y :: b' => matches x y && is_prefix a' b'
    | _ :: _, [] => false
    end.

  Definition step (root : list snode) (hs : list (Z * shandle)) (o : sop) : list snode * list (Z * shandle) * sres :=
    match o with
    | OMkdir p name =>
        match get_dir root p with
        | None => (root, hs, RErr)
        | Some ch =>
            match find ch name with
            | Some _ => (root, hs, RErr)
            | None => (upd_dir root p (fun ch => ch ++ [SDir (trunc30 name) 0 [] []]), hs, ROk)
            end
        end
    | OOpen h p name r w =>
        match get_dir root p with
        | None => (root, hs, RErr)
        | Some ch =>
            if negb (r || w) then (root, hs, RErr) else
            match find ch name with
            | Some (SFile nm pr cm ct) =>
                if (r && Z.testbit pr 3) || (w && Z.testbit pr 2) then (root, hs, RErr)
                else (root, set_handle hs h {| sh_dir := p; sh_name := nm; sh_pos := 0; sh_r := r; sh_w := w |},
                      ROpen (len ct) 0 (len ct =? 0))
            | Some (SDir _ _ _ _) => (root, hs, RErr)
            | None =>
                if w then
                  (upd_dir root p (fun ch => ch ++ [SFile (trunc30 name) 0 [] []]),
                   set_handle hs h {| sh_dir := p; sh_name := trunc30 name; sh_pos := 0; sh_r := r; sh_w := w |},
                   ROpen 0 0 true)
                else (root, hs, RErr)
            end
        end
    | OClose h => match get_handle hs h with None => (root, hs, RErr) | Some _ => (root, del_handle hs h, ROk) end
    | OFlush h => match get_handle hs h with None => (root, hs, RErr) | Some _ => (root, hs, ROk) end
    | OStat h =>
        match get_handle hs h with
        | None => (root, hs, RErr)
        | Some x => match file_of root x with
                    | None => (root, hs, RErr)
                    | Some (_, _, ct) => (root, hs, RPos (sh_pos x) (len ct) (sh_pos x =? len ct))
                    end
        end
    | ORead h n =>
        match get_handle hs h with
        | None => (root, hs, RErr)
        | Some x =>
            match file_of root x with
            | None => (root, hs, RErr)
            | Some (_, _, ct) =>
                let k := if sh_r x then Z.max 0 (Z.min n (len ct - sh_pos x)) else 0 in
                let bytes := firstn (Z.to_nat k) (skipn (Z.to_nat (sh_pos x)) ct) in
                let pos' := sh_pos x + k in
                (root, set_handle hs h {| sh_dir := sh_dir x; sh_name := sh_name x; sh_pos := pos'; sh_r := sh_r x; sh_w := sh_w x |},
                 RData k bytes pos' (len ct) (pos' =? len ct))
            end
        end
    | OWrite h data =>
        match get_handle hs h with
        | None => (root, hs, RErr)
        | Some x =>
            match file_of root x with
            | None => (root, hs, RErr)
            | Some (_, _, ct) =>
                if sh_w x then
                  let ct' := splice ct (sh_pos x) data in
                  let pos' := sh_pos x + len data in
                  (set_content root x ct',
                   set_handle hs h {| sh_dir := sh_dir x; sh_name := sh_name x; sh_pos := pos'; sh_r := sh_r x; sh_w := sh_w x |},
                   RData (len data) [] pos' (len ct') (pos' =? len ct'))
                else (root, hs, RData 0 [] (sh_pos x) (len ct) (sh_pos x =? len ct))
            end
        end
    | OSeek h pos =>
        match get_handle hs h with
        | None => (root, hs, RErr)
        | Some x =>
            match file_of root x with
            | None => (root, hs, RErr)
            | Some (_, _, ct) =>
                let pos' := Z.min pos (len ct) in
                (root, set_handle hs h {| sh_dir := sh_dir x; sh_name := sh_name x; sh_pos := pos'; sh_r := sh_r x; sh_w := sh_w x |},
                 RPos pos' (len ct) (pos' =? len ct))
            end
        end
    | OTrunc h size =>
        match get_handle hs h with
        | None => (root, hs, RErr)
        | Some x =>
            match file_of root x with
            | None => (root, hs, RErr)
            | Some (_, _, ct) =>
                if sh_w x then
                  let ct' := resize ct size in
                  (set_content root x ct',
                   set_handle hs h {| sh_dir := sh_dir x; sh_name := sh_name x; sh_pos := size; sh_r := sh_r x; sh_w := sh_w x |},
                   RPos size size true)
                else (root, hs, RErr)
            end
        end
    | ORm p name =>
        match get_dir root p with
        | None => (root, hs, RErr)
        | Some ch =>
            match find ch name with
            | None => (root, hs, RErr)
            | Some (SDir _ _ _ (_ :: _)) => (root, hs, RErr)
            | Some _ => (upd_dir root p (fun ch => remove ch name), hs, ROk)
            end
        end
    | OMv p name p2 name2 =>
        match get_dir root p, get_dir root p2 with
        | Some ch, Some ch2 =>
            let same_dir := is_prefix p p2 && is_prefix p2 p in
            (* renaming anything to its identical name in the same directory is a successful no-op *)
            if same_dir && list_eqb name name2 then (root, hs, ROk) else
            match find ch name with
            | None => (root, hs, RErr)
            | Some nd =>
                let clash := match find ch2 name2 with
                             | None => false
                             | Some other => negb (same_dir && matches (sname other) name)
                             end in
                if clash then (root, hs, RErr)
                else if is_dir nd && is_prefix (p ++ [sname nd]) p2 then (root, hs, RErr)
                else
                  let nd' := match nd with
                             | SFile _ pr cm ct => SFile (trunc30 name2) pr cm ct
                             | SDir _ pr cm c => SDir (trunc30 name2) pr cm c
                             end in
                  let root1 := upd_dir root p (fun ch => remove ch name) in
                  (upd_dir root1 p2 (fun ch => ch ++ [nd']), hs, ROk)
            end
        | _, _ => (root, hs, RErr)
        end
    | OComment p name c =>
        match get_dir root p with
        | None => (root, hs, RErr)
        | Some ch =>
            match find ch name with
            | None => (root, hs, RErr)
            | Some (SFile nm pr _ ct) => (upd_dir root p (fun ch => replace ch name (SFile nm pr (cut c 79) ct)), hs, ROk)
            | Some (SDir nm pr _ k) => (upd_dir root p (fun ch => replace ch name (SDir nm pr (cut c 79) k)), hs, ROk)
            end
        end
    | OProt p name bits =>
        match get_dir root p with
        | None => (root, hs, RErr)
        | Some ch =>
            match find ch name with
            | None => (root, hs, RErr)
            | Some (SFile nm _ cm ct) => (upd_dir root p (fun ch => replace ch name (SFile nm bits cm ct)), hs, ROk)
            | Some (SDir nm _ cm k) => (upd_dir root p (fun ch => replace ch name (SDir nm bits cm k)), hs, ROk)
            end
        end
    | OLookup p name =>
        match get_dir root p with
        | None => (root, hs, RErr)
        | Some ch =>
            match find ch name with
            | None => (root, hs, RErr)
            | Some (SFile nm pr _ ct) => (root, hs, RLook false (len ct) pr nm)
            | Some (SDir nm pr _ _) => (root, hs, RLook true 0 pr nm)
            end
        end
    | OList p =>
        match get_dir root p with
        | None => (root, hs, RErr)
        | Some ch => (root, hs, RList ch)
        end
    | ORestore p nd =>
        match get_dir root p with
        | None => (root, hs, RErr)
        | Some ch =>
            match find ch (sname nd) with
            | Some _ => (root, hs, RErr)
            | None => (upd_dir root p (fun ch => ch ++ [nd]), hs, ROk)
            end
        end
    end.
End Spec.

Definition sstep (s : sstate) (o : sop) : sstate * sres :=
  let '(r, h, x) := step (s_intl s) (s_root s) (s_handles s) o in
  ({| s_intl := s_intl s; s_root := r; s_handles := h |}, x).

(* the entry `name` of directory p, as the driver of the correspondence remembers it when it is removed *)
Definition lookup_node (s : sstate) (p : path) (name : list Z) : option snode :=
  match get_dir (s_intl s) (s_root s) p with Some ch => find (s_intl s) ch name | None => None end.

Definition sinit (intl : bool) : sstate := {| s_intl := intl; s_root := []; s_handles := [] |}.

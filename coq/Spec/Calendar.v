(* The proleptic Gregorian calendar, written without reference to the C code.
   Day numbers count from 0001-01-01 (= 0); the Amiga epoch is 1978-01-01. *)
From Coq Require Import ZArith List Bool.
Import ListNotations.
Local Open Scope Z_scope.

Definition is_leap (y : Z) : bool :=
  ((y mod 4 =? 0) && negb (y mod 100 =? 0)) || (y mod 400 =? 0).

Definition year_len (y : Z) : Z := if is_leap y then 366 else 365.

(* days from 0001-01-01 to y-01-01 *)
Definition days_before_year (y : Z) : Z :=
  365 * (y - 1) + (y - 1) / 4 - (y - 1) / 100 + (y - 1) / 400.

Definition month_lens (leap : bool) : list Z :=
  [31; if leap then 29 else 28; 31; 30; 31; 30; 31; 31; 30; 31; 30; 31].

Definition month_len (leap : bool) (m : Z) : Z :=
  nth (Z.to_nat (m - 1)) (month_lens leap) 0.

Definition days_before_month (leap : bool) (m : Z) : Z :=
  fold_right Z.add 0 (firstn (Z.to_nat (m - 1)) (month_lens leap)).

Definition valid_date (y m d : Z) : Prop :=
  1 <= m <= 12 /\ 1 <= d <= month_len (is_leap y) m.

Definition civil (y m d : Z) : Z :=
  days_before_year y + days_before_month (is_leap y) m + (d - 1).

Definition amiga_epoch : Z := civil 1978 1 1.

Definition amiga_days (y m d : Z) : Z := civil y m d - amiga_epoch.

(* time of day in the Amiga representation *)
Definition amiga_mins (h mi : Z) : Z := h * 60 + mi.
Definition amiga_ticks (s : Z) : Z := s * 50.

"""C07 Directory-cache coherence.
Histories on DIRCACHE volumes that grow a directory over 1..4 cache blocks with record lengths landing on / one past the
488-byte area, delete at head/middle/tail, empty a middle block, lengthen/shorten records by rename and comment, update sizes
on flush.  Judges: (1) listing served from the cache vs the reference model, (2) the extracted decoder: cache chain well
formed, records inside the area, counts right, cache blocks owned; cached records = hash-table entries (names, types, sizes,
protection, comments)."""
from . import common, gen, hist, histcheck
from .common import hexs

NEEDED = ["adfEntry2CacheEntry.len", "adfPutCacheEntry.len", "adfPutCacheEntry", "adfGetCacheEntry"]


def cache_history(ctx):
    rng = ctx.rng
    flav = rng.choice([4, 5])
    L = gen.dev_create("DD", flav) + ["mountdev 0", "mount 0 0", "mkdir - %s" % hexs(b"sub")]
    names = []
    state = {"k": 0}

    def q():
        state["k"] += 1
        return ["list - 1 0", "list %s 1 0" % hexs(b"sub"), "free", "dump $W/img%d" % state["k"], "spectree"]
    d = rng.choice(["-", hexs(b"sub")])
    n = rng.randint(8, 45)
    # record length = 25 + nameLen + commentLen rounded up to even; choose lengths so that blocks fill exactly / one past
    for i in range(n):
        ln = rng.choice([4, 5, 16, 16, 17, 29, 30, 7, 23])
        nm = (b"n%03d" % i + b"abcdefghijklmnopqrstuvwxyz0123")[:ln]
        if rng.random() < 0.7:
            L += ["open 0 %s %s w" % (d, hexs(nm)), "write 0 %d %d" % (i + 1, rng.choice([0, 10, 600])), "close 0"]
        else:
            L += ["mkdir %s %s" % (d, hexs(nm))]
        names.append(nm)
        if rng.random() < 0.12:
            L += q()
    L += q()
    for j in range(rng.randint(5, 40)):
        if not names:
            break
        r = rng.random()
        nm = rng.choice(names)
        if r < 0.45:
            pick = rng.random()
            nm = names[0] if pick < 0.2 else (names[-1] if pick < 0.4 else nm)
            L += ["rm %s %s" % (d, hexs(nm))]
            names.remove(nm)
        elif r < 0.65:
            new = (nm[:4] + b"R" * rng.choice([0, 1, 10, 26]))[:30]
            if new not in names:
                L += ["mv %s %s %s %s" % (d, hexs(nm), d, hexs(new))]
                names.remove(nm)
                names.append(new)
        elif r < 0.85:
            L += ["comment %s %s %s" % (d, hexs(nm), hexs(b"c" * rng.choice([0, 1, 2, 22, 23, 40, 79])))]
        else:
            L += ["open 0 %s %s w" % (d, hexs(nm)), "write 0 5 %d" % rng.choice([1, 700]), "flush 0", "close 0"]
        if rng.random() < 0.2:
            L += q()
    L += q() + ["umount", "umountdev"]
    return L, 0, 1760, {"flavour": flav, "entries": n, "dir": d}


def move_across_history(ctx):
    """directed: an entry is moved into a directory whose LAST cache block is exactly full (the move links a new cache block) or out of a
    directory whose last cache block held only that entry (the move releases the block); the volume is unmounted right after the move, with
    no other call in between that would write the bitmap - the image must be well formed as it is"""
    rng = ctx.rng
    flav = rng.choice([4, 5])
    nl = rng.choice([25, 25, 16, 29])
    rl = 25 + nl
    per = 488 // (rl + (rl & 1))
    k = per * rng.choice([1, 2, 3])
    dst, src = hexs(b"dst"), hexs(b"src")
    mk = lambda i: (b"f%03d_" % i + b"abcdefghijklmnopqrstuvwxyz0123")[:nl]
    L = gen.dev_create("DD", flav) + ["mountdev 0", "mount 0 0", "mkdir - %s" % dst, "mkdir - %s" % src]
    how = rng.choice(["in", "in", "out", "both"])
    n_dst = k if how in ("in", "both") else rng.randint(1, 5)
    n_src = (k + 1) if how in ("out", "both") else rng.randint(1, 5)
    for i in range(n_dst):
        L += ["open 0 %s %s w" % (dst, hexs(mk(i))), "close 0"]
    for i in range(n_src):
        L += ["open 0 %s %s w" % (src, hexs(mk(500 + i))), "close 0"]
    L += ["free", "dump $W/img1", "spectree"]
    L += ["mv %s %s %s %s" % (src, hexs(mk(500 + n_src - 1)), dst, hexs(mk(900)))]
    L += ["free", "umount", "umountdev", "dump $W/img2", "spectree", "mountdev 0", "mount 0 0", "list %s 1 0" % dst, "list %s 1 0" % src, "free", "dump $W/img3", "spectree", "umount", "umountdev"]
    return L, 0, 1760, {"flavour": flav, "name_len": nl, "per_block": per, "how": how, "dst_entries": n_dst, "src_entries": n_src}


def block_sweep(ctx):
    """delete each record of the middle cache block in turn until it is empty, then refill"""
    rng = ctx.rng
    flav = rng.choice([4, 5])
    L = gen.dev_create("DD", flav) + ["mountdev 0", "mount 0 0"]
    names = [b"e%02d_sixteen_ch" % i for i in range(34)]
    rl = 25 + len(names[0])
    per = 488 // (rl + (rl & 1))          # 14-byte names: 40-byte records, 12 per block (the count is computed, not assumed)
    for i, nm in enumerate(names):
        L += ["open 0 - %s w" % hexs(nm), "close 0"]
    L += ["list - 1 0", "free", "dump $W/img1", "spectree"]
    blk = rng.choice([0, 1, 1, 2])
    order = list(range(per * blk, min(34, per * blk + per)))
    rng.shuffle(order)
    for k, i in enumerate(order):
        L += ["rm - %s" % hexs(names[i])]
        if k in (0, 5, len(order) - 1):
            L += ["list - 1 0", "free", "dump $W/img%d" % (k + 2), "spectree"]
    for i in order[:4]:
        L += ["mkdir - %s" % hexs(names[i])]
    L += ["list - 1 0", "free", "umount", "umountdev", "dump $W/img20", "spectree"]
    return L, 0, 1760, {"flavour": flav, "block_emptied": blk}


def codec_correspondence(ctx):
    """the record codec the C07 theorems are about: adfPutCacheEntry / adfGetCacheEntry compiled from the C source vs the Gallina
    functions regenerated from it (extracted), on the same inputs - valid records at every alignment of the 488-byte record
    area, records that end exactly at / one byte past the area, and arbitrary bytes with offsets around the acceptance bounds"""
    rng = ctx.rng

    def hx(b):
        return b.hex() if b else "-"
    lines = []
    nput = 400 if ctx.tier == "quick" else 20000
    for i in range(nput):
        recs = bytes(rng.randrange(256) for _ in range(488)) if rng.random() < 0.7 else bytes(488)
        nl = rng.choice([1, 1, 2, 7, 16, 29, 30])
        cl = rng.choice([0, 0, 1, 22, 78, 79])
        nm = bytes(rng.randrange(1, 256) for _ in range(nl))
        cm = bytes(rng.randrange(1, 256) for _ in range(cl))
        ln = 25 + nl + cl
        ln += ln & 1
        p = rng.choice([0, 2, 40, 488 - ln, 488 - ln - 2, max(0, 488 - ln - 40), rng.randrange(0, 488 - ln + 1) & ~1])
        p = max(0, p)
        lines.append("adfPutCacheEntry %d %d %d %d %d %d %d %d %s %s %s" % (
            p, rng.choice([0, 1, 880, 2 ** 31, 2 ** 32 - 1, rng.randrange(2 ** 32)]), rng.randrange(2 ** 32), rng.randrange(2 ** 32),
            rng.randrange(65536), rng.randrange(65536), rng.randrange(65536), rng.choice([-3, 2, -4, 4, 3, -128, 127, 0]), hx(nm), hx(cm), recs.hex()))
    nget = 600 if ctx.tier == "quick" else 30000
    for i in range(nget):
        recs = bytearray(rng.randrange(256) for _ in range(488))
        p = rng.choice([-2, -1, 0, 2, 100, 440, 460, 461, 462, 463, 464, 486, 487, 488, 600, rng.randrange(0, 470)])
        if 0 <= p <= 462 and rng.random() < 0.7:
            # plausible lengths at the acceptance edges
            nl = rng.choice([0, 1, 30, 31, 255, rng.randrange(1, 31), rng.randrange(1, 31), rng.randrange(1, 31), rng.randrange(1, 31)])
            recs[p + 23] = nl
            if p + 24 + nl < 488:
                room = 488 - (p + 25 + nl)
                recs[p + 24 + nl] = rng.choice([0, 1, 79, 80, 255, max(0, min(255, room)), max(0, min(255, room + 1)), max(0, min(79, room)), rng.randrange(0, max(1, min(80, room + 1)))])
        lines.append("adfGetCacheEntry %d %s" % (p, bytes(recs).hex()))
    text = "\n".join(lines) + "\n"
    rc, cout, _ = common.run_lines(ctx.bin("leafh"), text)
    _, mout, _ = common.run_lines(ctx.ocaml("leafm"), text)
    cres, mres = cout.splitlines(), mout.splitlines()
    if len(cres) != len(lines) or len(mres) != len(lines):
        ctx.fail("corr", "record codec correspondence: the two sides answered %d / %d of %d calls" % (len(cres), len(mres), len(lines)), {"first_call": lines[0][:200]})
        return
    acc = 0
    for ln_, a, b in zip(lines, cres, mres):
        ctx.count(("codec", ln_[:120], hash(ln_)))
        ctx.bump("codec:" + ln_.split()[0])
        ra, rb = a.split(" = ", 1)[-1], b.split(" = ", 1)[-1]
        if ln_.startswith("adfGet") and ra.split()[0] == "0":
            acc += 1
        if ra != rb:
            ctx.fail("corr", "generated Gallina and compiled C disagree on the cache record codec", {"call": ln_[:300]}, expected=rb[:300], actual=ra[:300], stream="leaf")
            if len(ctx.failures) > 3:
                break
    ctx.bump("codec:records_accepted_by_reader", acc)


def run(ctx):
    proof = common.proof_status(ctx)
    codec_correspondence(ctx)
    # block-level correspondence of the cache-chain model the C07_cache_* theorems are about
    from . import cachecorr
    cachecorr.run(ctx, 16 if ctx.tier == "quick" else 400)
    tf = common.translator_failures(ctx, NEEDED)
    if tf:
        proof["problems"].append("translator could not translate: %s" % tf)
    b = [("empty-a-block", block_sweep) for _ in range(4 if ctx.tier == "quick" else 40)]
    b += [("cache-stress", cache_history) for _ in range(24 if ctx.tier == "quick" else 500)]
    rule = ("cache chain: raw cache blocks of two directories after every create / mkdir / delete / rename / comment / move / size update = Model/CacheChain.v; record codec: adfPutCacheEntry/adfGetCacheEntry compiled C vs regenerated Gallina on valid records at every alignment, records ending at / past the 488-byte area, arbitrary bytes at the acceptance bounds; DIRCACHE volumes (flavours 4,5): directories grown to 8..45 entries with name lengths 4..30 (record lengths 30..134, blocks filled exactly / one past), "
            "deletes at head/middle/tail, each block of a 3-block chain emptied record by record, renames to shorter/longer names, comments 0..79 bytes, size updates "
            "on flush; listing with useDirCache and decoder judgement at each dump; distinct = distinct script; non-trivial = chain of at least two cache blocks reached")
    nt = lambda L, r: sum(1 for l in L if l.startswith("open") or l.startswith("mkdir")) >= 12
    return histcheck.explore(ctx, proof, {"C07"}, b, rule,
                             ["record dates are not compared (the property does not list them)", "names 1..30 bytes"], nontrivial=nt, level="proof" if False else "exploration")


def replay(ctx, rep):
    from . import c01
    return c01.replay(ctx, rep)
